import Robust.Irc.Proofs.FlagOriginClient
import Robust.Irc.Proofs.FlagOriginSrv
/-!
Entry-level lift of the flag-origin relation `Flg` (`FlagOriginBase.lean`):

* `handler_flg`: every handler of `handlerByName` (the enumeration of `handler_fpres`, `FrmEntry.lean`)
  keeps `Flg O S`, where the permission `O sid` is needed only under `OperVia` and `S sid` only under
  `ServerVia`;
* the stages of `processMessage` and `processMessage` itself, the origin now phrased on the *line*
  (`operByOper`, `operByLogin`, `serverBySERVER`);
* one committed entry, per entry type: `applyEntry_flags`.
-/
namespace Robust.Irc
open Robust AMap

/-! ## every handler of the table -/

theorem handler_flg {fname : String} {h : Handler} (hh : handlerByName fname = some h)
    {O S : Id → Prop} {st0 : St} {c c' : Ctx} {sid : Id} {m : IrcMsg} (hf : Flg O S st0 c.st)
    (hO : OperVia fname c.st sid m → O sid) (hS : ServerVia fname c.st sid → S sid)
    (hr : h c sid m = .ok c') : Flg O S st0 c'.st := by
  unfold handlerByName at hh
  split at hh
  · cases hh; exact cmdAway_flgp _ _ _ _ _ _ _ hf hr
  · cases hh; exact cmdServiceAlias_flgp _ _ _ _ _ _ _ hf hr
  · cases hh; exact cmdGline_flgp _ _ _ _ _ _ _ hf hr
  · cases hh; exact cmdInvite_flgp _ _ _ _ _ _ _ hf hr
  · cases hh; exact cmdIson_flgp _ _ _ _ _ _ _ hf hr
  · cases hh; exact cmdJoin_flgp _ _ _ _ _ _ _ hf hr
  · cases hh; exact cmdKick_flgp _ _ _ _ _ _ _ hf hr
  · cases hh; exact cmdKill_flgp _ _ _ _ _ _ _ hf hr
  · cases hh; exact cmdKnock_flgp _ _ _ _ _ _ _ hf hr
  · cases hh; exact cmdList_flgp _ _ _ _ _ _ _ hf hr
  · cases hh; exact cmdMode_flgp _ _ _ _ _ _ _ hf hr
  · cases hh; exact cmdMotd_flgp _ _ _ _ _ _ _ hf hr
  · cases hh; exact cmdNames_flgp _ _ _ _ _ _ _ hf hr
  · cases hh
    exact cmdNick_flg hf (fun s hs hli hc => hO (Or.inr ⟨s, hs, hli, Or.inl ⟨Or.inl rfl, hc⟩⟩)) hr
  · cases hh; exact cmdOper_flg hf (fun hc => hO (Or.inl ⟨rfl, hc⟩)) hr
  · cases hh; exact cmdPart_flgp _ _ _ _ _ _ _ hf hr
  · cases hh
    exact cmdPass_flg hf (fun s hs hli hc => hO (Or.inr ⟨s, hs, hli, Or.inr ⟨rfl, hc⟩⟩)) hr
  · cases hh; exact cmdPing_flgp _ _ _ _ _ _ _ hf hr
  · cases hh; exact cmdPrivmsg_flgp _ _ _ _ _ _ _ hf hr
  · cases hh; exact cmdQuit_flgp _ _ _ _ _ _ _ hf hr
  · cases hh; exact cmdServer_flg hf (fun s hs hc => hS ⟨s, hs, rfl, hc⟩) hr
  · cases hh; exact cmdTopic_flgp _ _ _ _ _ _ _ hf hr
  · cases hh
    exact cmdUser_flg hf (fun s hs hli hc => hO (Or.inr ⟨s, hs, hli, Or.inl ⟨Or.inr rfl, hc⟩⟩)) hr
  · cases hh; exact cmdUserhost_flgp _ _ _ _ _ _ _ hf hr
  · cases hh; exact cmdWho_flgp _ _ _ _ _ _ _ hf hr
  · cases hh; exact cmdWhois_flgp _ _ _ _ _ _ _ hf hr
  · cases hh; exact cmdServerInvite_flgp _ _ _ _ _ _ _ hf hr
  · cases hh; exact cmdServerJoin_flgp _ _ _ _ _ _ _ hf hr
  · cases hh; exact cmdServerKick_flgp _ _ _ _ _ _ _ hf hr
  · cases hh; exact cmdServerKill_flgp _ _ _ _ _ _ _ hf hr
  · cases hh; exact cmdServerMode_flgp _ _ _ _ _ _ _ hf hr
  · cases hh; exact cmdServerNick_flgp _ _ _ _ _ _ _ hf hr
  · cases hh; exact cmdServerPrivmsg_flgp _ _ _ _ _ _ _ hf hr
  · cases hh; exact cmdServerPart_flgp _ _ _ _ _ _ _ hf hr
  · cases hh; exact cmdServerQuit_flgp _ _ _ _ _ _ _ hf hr
  · cases hh; exact cmdServerSvshold_flgp _ _ _ _ _ _ _ hf hr
  · cases hh; exact cmdServerSvsjoin_flgp _ _ _ _ _ _ _ hf hr
  · cases hh; exact cmdServerSvsmode_flgp _ _ _ _ _ _ _ hf hr
  · cases hh; exact cmdServerSvsnick_flgp _ _ _ _ _ _ _ hf hr
  · cases hh; exact cmdServerSvspart_flgp _ _ _ _ _ _ _ hf hr
  · cases hh; exact cmdServerTopic_flgp _ _ _ _ _ _ _ hf hr
  · cases hh

/-- per handler, in closed form: a session that carries the operator flag after the handler
carried it before (same id), or it is the actor and `OperVia` holds; the same for `server` -/
theorem handler_flag_origin {fname : String} {h : Handler} (hh : handlerByName fname = some h)
    {c c' : Ctx} {sid : Id} {m : IrcMsg} (hw : SessWf c.st) (hr : h c sid m = .ok c') :
    (∀ id s', AMap.get c'.st.sessions id = some s' → s'.operator = true →
      (∃ s, AMap.get c.st.sessions id = some s ∧ s.operator = true) ∨ (id = sid ∧ OperVia fname c.st sid m)) ∧
    (∀ id s', AMap.get c'.st.sessions id = some s' → s'.server = true →
      (∃ s, AMap.get c.st.sessions id = some s ∧ s.server = true) ∨ (id = sid ∧ ServerVia fname c.st sid)) := by
  have f := handler_flg hh (O := fun id => id = sid ∧ OperVia fname c.st sid m)
    (S := fun id => id = sid ∧ ServerVia fname c.st sid) (Flg.refl hw) (fun hv => ⟨rfl, hv⟩) (fun hv => ⟨rfl, hv⟩) hr
  exact ⟨f.oper, f.server⟩

/-! ## the origin, phrased on the committed line -/

/-- `OPER <name> <password>` typed by a registered client session, the pair being listed in `cfg` -/
def operByOper (cfg : Config) (s : Session) (m : IrcMsg) : Bool :=
  !s.server && s.loggedIn && toUpper m.command == "OPER" && operCreds cfg m

/-- the line that completes the registration of a client session (`NICK`, `USER` or `PASS`; `maybeLogin`
then runs an automatic `OPER`) whose PASS string — the stored one, or for `PASS` the one this line
stores — has an `oper=<name> <password>` part with a pair listed in `cfg` -/
def operByLogin (cfg : Config) (s : Session) (m : IrcMsg) : Bool :=
  !s.server && !s.loggedIn &&
    (((toUpper m.command == "NICK" || toUpper m.command == "USER") && loginOperCreds cfg s.pass) ||
     (toUpper m.command == "PASS" && loginOperCreds cfg (passAfter m s.pass)))

/-- `SERVER …` typed by a client session whose stored PASS string is `services=<password>` for a
services password configured in `cfg` -/
def serverBySERVER (cfg : Config) (s : Session) (m : IrcMsg) : Bool :=
  !s.server && toUpper m.command == "SERVER" && servicesAuth cfg s.pass

theorem operByOper_congr {cfg : Config} {s s1 : Session} (m : IrcMsg) (h1 : s1.server = s.server)
    (h2 : s1.loggedIn = s.loggedIn) : operByOper cfg s1 m = operByOper cfg s m := by
  unfold operByOper; rw [h1, h2]

theorem operByLogin_congr {cfg : Config} {s s1 : Session} (m : IrcMsg) (h1 : s1.server = s.server)
    (h2 : s1.loggedIn = s.loggedIn) (h3 : s1.pass = s.pass) : operByLogin cfg s1 m = operByLogin cfg s m := by
  unfold operByLogin; rw [h1, h2, h3]

theorem serverBySERVER_congr {cfg : Config} {s s1 : Session} (m : IrcMsg) (h1 : s1.server = s.server)
    (h3 : s1.pass = s.pass) : serverBySERVER cfg s1 m = serverBySERVER cfg s m := by
  unfold serverBySERVER; rw [h1, h3]

/-! ### the keys of the five handlers that can set a flag -/

theorem priv_key {key fname : String} {mp : Nat} (h : lookupCommand key = some (fname, mp)) :
    (fname = "cmdOper" → key = "OPER") ∧ (fname = "cmdNick" → key = "NICK") ∧ (fname = "cmdUser" → key = "USER") ∧
    (fname = "cmdPass" → key = "PASS") ∧ (fname = "cmdServer" → key = "SERVER") := by
  have hm := lookupCommand_mem h
  have hall : ∀ e ∈ Gen.Commands.commands,
      (e.2.1 = "cmdOper" → e.1 = "OPER") ∧ (e.2.1 = "cmdNick" → e.1 = "NICK") ∧ (e.2.1 = "cmdUser" → e.1 = "USER") ∧
      (e.2.1 = "cmdPass" → e.1 = "PASS") ∧ (e.2.1 = "cmdServer" → e.1 = "SERVER") := by decide
  exact hall _ hm

/-- a key that does not start with `s` is the key of a client session, and is the command itself -/
theorem client_key {s : Session} {command K : String} (hK : startsLowerS K = false)
    (h : (if s.server then "server_" else "") ++ command = K) : s.server = false ∧ command = K := by
  cases hsv : s.server with
  | false =>
    rw [hsv] at h
    simp only [Bool.false_eq_true, ↓reduceIte, String.empty_append] at h
    exact ⟨rfl, h⟩
  | true =>
    rw [hsv] at h
    simp only [↓reduceIte] at h
    have h1 := startsLowerS_server command
    rw [h, hK] at h1
    cases h1

/-! ## the stages of `processMessage` -/

theorem dispatchStage_flg {O S : Id → Prop} {c c' : Ctx} {sid : Id} {s : Session} {m : IrcMsg} {command : String}
    (hw : SessWf c.st) (hs : AMap.get c.st.sessions sid = some s) (hcmd : command = toUpper m.command)
    (hgate : GateOK s command)
    (hO : operByOper c.st.config s m = true ∨ operByLogin c.st.config s m = true → O sid)
    (hS : serverBySERVER c.st.config s m = true → S sid)
    (hr : dispatchStage c s m command = .ok c') : Flg O S c.st c'.st := by
  have hid : s.id = sid := hw.ids sid s hs
  unfold dispatchStage at hr
  rw [hid] at hr
  split at hr
  · cases hr; exact Flg.refl hw
  · rename_i fname mp hl
    split at hr
    · cases hr; exact Flg.refl hw
    · split at hr
      · cases hr
      · rename_i h hh
        obtain ⟨kO, kN, kU, kP, kS⟩ := priv_key hl
        refine handler_flg hh (Flg.refl hw) (fun hv => hO ?_) (fun hv => hS ?_) hr
        · rcases hv with ⟨hf, hc⟩ | ⟨s', hs', hli, ⟨hf, hc⟩ | ⟨hf, hc⟩⟩
          · obtain ⟨hsv, hk⟩ := client_key (by decide) (kO hf)
            have hli : s.loggedIn = true := by
              rcases hgate with h1 | h1 | h1 | h1 | h1 | h1 | h1
              · rw [hsv] at h1; cases h1
              · exact h1
              all_goals (rw [hk] at h1; exact absurd h1 (by decide))
            refine Or.inl ?_
            unfold operByOper
            rw [hsv, hli, ← hcmd, hk, hc]; rfl
          · rw [hs] at hs'; cases hs'
            refine Or.inr ?_
            unfold operByLogin
            rcases hf with hf | hf
            · obtain ⟨hsv, hk⟩ := client_key (by decide) (kN hf)
              rw [hsv, hli, ← hcmd, hk, hc]; rfl
            · obtain ⟨hsv, hk⟩ := client_key (by decide) (kU hf)
              rw [hsv, hli, ← hcmd, hk, hc]; rfl
          · rw [hs] at hs'; cases hs'
            refine Or.inr ?_
            unfold operByLogin
            obtain ⟨hsv, hk⟩ := client_key (by decide) (kP hf)
            rw [hsv, hli, ← hcmd, hk, hc]; rfl
        · obtain ⟨s', hs', hf, hc⟩ := hv
          rw [hs] at hs'; cases hs'
          obtain ⟨hsv, hk⟩ := client_key (by decide) (kS hf)
          unfold serverBySERVER
          rw [hsv, ← hcmd, hk, hc]; rfl

theorem gateStage_flg {O S : Id → Prop} {c c' : Ctx} {e : Entry} {m : IrcMsg}
    (hw : SessWf c.st)
    (hO : ∀ s, AMap.get c.st.sessions e.session = some s →
      operByOper c.st.config s m = true ∨ operByLogin c.st.config s m = true → O e.session)
    (hS : ∀ s, AMap.get c.st.sessions e.session = some s → serverBySERVER c.st.config s m = true → S e.session)
    (hr : gateStage c e m (toUpper m.command) = .ok c') : Flg O S c.st c'.st := by
  unfold gateStage at hr
  obtain ⟨s, hs, hr⟩ := Res.bind_eq_ok.1 hr
  rw [getS_eq_ok] at hs
  split at hr
  · split at hr
    · exact Flg.deleteSession (c := sendUser (sendUser c _ _) _ _) (st0 := c.st) (Flg.refl hw) hr
    · cases hr; exact Flg.refl hw
  · rename_i hg
    exact dispatchStage_flg hw hs rfl (gate_of_not hg) (hO s hs) (hS s hs) hr

/-- the address stage sets no flag -/
theorem addrStage_flg {O S : Id → Prop} {c c1 : Ctx} {e : Entry} {s : Session} {b : Bool} (hw : SessWf c.st)
    (hr : addrStage c e s = .ok (c1, b)) : Flg O S c.st c1.st := by
  have hpi : Flg O S c.st c.st := Flg.refl hw
  unfold addrStage at hr
  split at hr
  · obtain ⟨c0, hm, hr⟩ := Res.bind_eq_ok.1 hr
    have p0 : Flg O S c.st c0.st := hpi.modS_keep hm (fun _ => ⟨rfl, rfl, rfl⟩)
    split at hr
    · split at hr
      · obtain ⟨c2, hd, hr⟩ := Res.bind_eq_ok.1 hr
        cases hr
        exact Flg.deleteSession (c := sendUser c0 _ _) (p0.sendUser _ _) hd
      · cases hr; exact p0
    · cases hr; exact p0
  · cases hr; exact hpi

/-- `ProcessMessage`: the acting session may gain the operator flag only under `operByOper` /
`operByLogin`, the `server` flag only under `serverBySERVER` (session and configuration as stored
when `ProcessMessage` starts); no other session gains a flag -/
theorem processMessage_flg {O S : Id → Prop} {c c' : Ctx} {e : Entry} {im : Option IrcMsg} (hw : SessWf c.st)
    (hO : ∀ m s, im = some m → AMap.get c.st.sessions e.session = some s →
      operByOper c.st.config s m = true ∨ operByLogin c.st.config s m = true → O e.session)
    (hS : ∀ m s, im = some m → AMap.get c.st.sessions e.session = some s →
      serverBySERVER c.st.config s m = true → S e.session)
    (hr : processMessage c e im = .ok c') : Flg O S c.st c'.st := by
  rw [processMessage_eq] at hr
  obtain ⟨s, hs, hr⟩ := Res.bind_eq_ok.1 hr
  rw [getS_eq_ok] at hs
  cases im with
  | none => cases hr; exact Flg.refl hw
  | some m =>
    dsimp only at hr
    obtain ⟨⟨c1, b⟩, h1, hr⟩ := Res.bind_eq_ok.1 hr
    have f1 : Flg O S c.st c1.st := addrStage_flg hw h1
    have hcfg : c1.st.config = c.st.config := (addrStage_frm hw h1).config
    cases b with
    | true => cases hr; exact f1
    | false =>
      simp only [Bool.false_eq_true, ↓reduceIte] at hr
      obtain ⟨a, ha, _, _⟩ := addrStage_actor hs (hw.ids _ s hs) h1
      refine f1.trans (gateStage_flg f1.wf ?_ ?_ hr)
      · intro s1 hs1 hv
        rw [ha] at hs1; cases hs1
        rw [hcfg] at hv
        exact hO m s rfl hs hv
      · intro s1 hs1 hv
        rw [ha] at hs1; cases hs1
        rw [hcfg] at hv
        exact hS m s rfl hs hv

/-! ## the two bookkeeping steps around `processMessage` -/

/-- `UpdateLastClientMessageID` keeps the flags, the registration state and the PASS string of every
session -/
theorem updateLast_flags {st st1 : St} {e : Entry} (hu : updateLastClientMessageID st e = some st1) :
    ∀ id s1, AMap.get st1.sessions id = some s1 → ∃ s, AMap.get st.sessions id = some s ∧
      s1.operator = s.operator ∧ s1.server = s.server ∧ s1.loggedIn = s.loggedIn ∧ s1.pass = s.pass := by
  unfold updateLastClientMessageID at hu
  cases hg : AMap.get st.sessions e.session with
  | none => simp [hg] at hu
  | some s =>
    simp only [hg, Option.some.injEq] at hu
    subst hu
    intro id s1 hs1
    simp only at hs1
    rw [AMap.get_set] at hs1
    split at hs1
    · rename_i hid
      cases hs1; subst hid
      exact ⟨s, hg, rfl, rfl, rfl, rfl⟩
    · exact ⟨s1, hs1, rfl, rfl, rfl, rfl⟩

/-! ## one committed entry -/

/-- the origin of an operator flag through the entry `e` applied to `st` -/
def OperEntry (st : St) (e : Entry) (sid : Id) : Prop :=
  e.type = 2 ∧ e.session = sid ∧ ∃ s m, AMap.get st.sessions sid = some s ∧ parseMessage e.data = some m ∧
    (operByOper st.config s m = true ∨ operByLogin st.config s m = true)

/-- the origin of a `server` flag through the entry `e` applied to `st` -/
def ServerEntry (st : St) (e : Entry) (sid : Id) : Prop :=
  e.type = 2 ∧ e.session = sid ∧ ∃ s m, AMap.get st.sessions sid = some s ∧ parseMessage e.data = some m ∧
    serverBySERVER st.config s m = true

/-- the session part of `Flg`, between the states before and after an entry (a Config entry
replaces the credential lists, so the configuration part of `Flg` is not kept by entries) -/
structure FlagStep (st st' : St) (e : Entry) : Prop where
  wf : SessWf st'
  oper : ∀ id s', AMap.get st'.sessions id = some s' → s'.operator = true →
    (∃ s, AMap.get st.sessions id = some s ∧ s.operator = true) ∨ OperEntry st e id
  server : ∀ id s', AMap.get st'.sessions id = some s' → s'.server = true →
    (∃ s, AMap.get st.sessions id = some s ∧ s.server = true) ∨ ServerEntry st e id

theorem FlagStep.same {st st' : St} {e : Entry} (hw : SessWf st) (hs : st'.sessions = st.sessions) : FlagStep st st' e :=
  ⟨hw.congr hs, fun id s' hg ho => Or.inl ⟨s', by rw [← hs]; exact hg, ho⟩,
    fun id s' hg ho => Or.inl ⟨s', by rw [← hs]; exact hg, ho⟩⟩

theorem quit_not_origin {cfg : Config} {s : Session} {m : IrcMsg} (hq : toUpper m.command = "QUIT") :
    operByOper cfg s m = false ∧ operByLogin cfg s m = false ∧ serverBySERVER cfg s m = false := by
  unfold operByOper operByLogin serverBySERVER
  rw [hq]
  have h1 : ("QUIT" == "OPER") = false := by decide
  have h2 : ("QUIT" == "NICK") = false := by decide
  have h3 : ("QUIT" == "USER") = false := by decide
  have h4 : ("QUIT" == "PASS") = false := by decide
  have h5 : ("QUIT" == "SERVER") = false := by decide
  rw [h1, h2, h3, h4, h5]
  simp

/-- one committed entry, whatever its type: a flag set afterwards was set before under the same id,
or the entry is a client line of that session with one of the three origins.  (No hypothesis on the
entry is needed: `EntryOk` is not used.) -/
theorem applyEntry_flags {st st' : St} {e : Entry} {out : List Out} (hw : SessWf st)
    (hr : applyEntry st e = .ok (st', out)) : FlagStep st st' e := by
  by_cases h5 : e.type = 5
  · obtain ⟨rfl, _⟩ := applyEntry_death h5 hr
    cases hu : updateLastClientMessageID st e with
    | none => exact FlagStep.same hw rfl
    | some st1 =>
      have hf := updateLast_flags hu
      refine ⟨hw.updateLast hu, ?_, ?_⟩
      · intro id s' hg ho
        obtain ⟨s, hs, h1, _⟩ := hf id s' hg
        exact Or.inl ⟨s, hs, by rw [← h1]; exact ho⟩
      · intro id s' hg ho
        obtain ⟨s, hs, _, h1, _⟩ := hf id s' hg
        exact Or.inl ⟨s, hs, by rw [← h1]; exact ho⟩
  by_cases h0 : e.type = 0
  · obtain ⟨rfl, _⟩ := applyEntry_create h0 hr
    cases hcs : createSession st ⟨e.id, 0⟩ e.data e.timestamp with
    | none => exact FlagStep.same hw rfl
    | some st1 =>
      simp only [Option.getD_some]
      have f : Flg (fun _ => False) (fun _ => False) st st1 := by
        rw [createSession_eq hcs]
        exact Flg.newSession (k := ⟨e.id, 0⟩)
          (v := { id := ⟨e.id, 0⟩, auth := e.data, created := e.timestamp, lastActivity := e.timestamp,
                  lastNonPing := e.timestamp, svid := "0" }) (Flg.refl hw) rfl rfl rfl rfl rfl rfl
      exact ⟨f.wf, fun id s' hg ho => (f.oper id s' hg ho).imp (fun x => x) False.elim,
        fun id s' hg ho => (f.server id s' hg ho).imp (fun x => x) False.elim⟩
  by_cases h1 : e.type = 1
  · rcases applyEntry_delete h1 hr with ⟨_, rfl, _⟩ | ⟨s, c, hs, hpm, rfl, _⟩
    · exact FlagStep.same hw rfl
    · have f : Flg (fun _ => False) (fun _ => False) st c.st := by
        refine processMessage_flg (c := { st := st, msgid := e.id }) hw ?_ ?_ hpm
        · intro m s1 hm _ hv
          obtain ⟨q1, q2, _⟩ := quit_not_origin (cfg := st.config) (s := s1) (parseMessage_quit _ hm).2
          rcases hv with hv | hv
          · rw [q1] at hv; cases hv
          · rw [q2] at hv; cases hv
        · intro m s1 hm _ hv
          obtain ⟨_, _, q3⟩ := quit_not_origin (cfg := st.config) (s := s1) (parseMessage_quit _ hm).2
          rw [q3] at hv; cases hv
      have hsub := fun id s' => maybeDeleteSession_sub (st := { c.st with lastProcessed := ⟨e.id, 0⟩ }) e.session
        f.wf.nodup (id := id) (s := s')
      refine ⟨SessWf.maybeDeleteSession (st := { c.st with lastProcessed := ⟨e.id, 0⟩ }) (f.wf.congr rfl) _, ?_, ?_⟩
      · intro id s' hg ho
        exact (f.oper id s' (hsub id s' hg) ho).imp (fun x => x) False.elim
      · intro id s' hg ho
        exact (f.server id s' (hsub id s' hg) ho).imp (fun x => x) False.elim
  by_cases h2 : e.type = 2
  · rcases applyEntry_client h2 hr with ⟨_, rfl, _⟩ | ⟨st1, c, hu, hpm, rfl, _⟩
    · exact FlagStep.same hw rfl
    · have hf := updateLast_flags hu
      have hcfg : st1.config = st.config := (updateLast_spec hu).2.2.2.1
      have f : Flg (OperEntry st e) (ServerEntry st e) st1 c.st := by
        refine processMessage_flg (c := { st := st1, msgid := e.id }) (hw.updateLast hu) ?_ ?_ hpm
        · intro m s1 hm hs1 hv
          obtain ⟨s, hs, _, e1, e2, e3⟩ := hf _ s1 hs1
          refine ⟨h2, rfl, s, m, hs, hm, ?_⟩
          have hv' : operByOper st1.config s1 m = true ∨ operByLogin st1.config s1 m = true := hv
          rw [hcfg, operByOper_congr m e1 e2, operByLogin_congr m e1 e2 e3] at hv'
          exact hv'
        · intro m s1 hm hs1 hv
          obtain ⟨s, hs, _, e1, _, e3⟩ := hf _ s1 hs1
          refine ⟨h2, rfl, s, m, hs, hm, ?_⟩
          have hv' : serverBySERVER st1.config s1 m = true := hv
          rw [hcfg, serverBySERVER_congr m e1 e3] at hv'
          exact hv'
      have hsub := fun id s' => maybeDeleteSession_sub (st := { c.st with lastProcessed := ⟨e.session.id, 0⟩ }) e.session
        f.wf.nodup (id := id) (s := s')
      refine ⟨SessWf.maybeDeleteSession (st := { c.st with lastProcessed := ⟨e.session.id, 0⟩ }) (f.wf.congr rfl) _, ?_, ?_⟩
      · intro id s' hg ho
        rcases f.oper id s' (hsub id s' hg) ho with ⟨s1, hs1, ho1⟩ | hv
        · obtain ⟨s, hs, e1, _⟩ := hf id s1 hs1
          exact Or.inl ⟨s, hs, by rw [← e1]; exact ho1⟩
        · exact Or.inr hv
      · intro id s' hg ho
        rcases f.server id s' (hsub id s' hg) ho with ⟨s1, hs1, ho1⟩ | hv
        · obtain ⟨s, hs, _, e1, _⟩ := hf id s1 hs1
          exact Or.inl ⟨s, hs, by rw [← e1]; exact ho1⟩
        · exact Or.inr hv
  by_cases h6 : e.type = 6
  · obtain ⟨rfl, _⟩ := applyEntry_config h6 hr
    cases e.cfg with
    | none => exact FlagStep.same hw rfl
    | some cfg => exact FlagStep.same hw rfl
  · obtain ⟨rfl, _⟩ := applyEntry_other ⟨h0, h1, h2, h5, h6⟩ hr
    exact FlagStep.same hw rfl

/-! ## the origins spelled out -/

theorem operCreds_iff {cfg : Config} {m : IrcMsg} :
    operCreds cfg m = true ↔
      ∃ name password, m.params[0]? = some name ∧ m.params[1]? = some password ∧ operListed cfg name password = true := by
  unfold operCreds
  constructor
  · intro h
    split at h
    · rename_i name pw h0 h1; exact ⟨name, pw, h0, h1, h⟩
    · cases h
  · rintro ⟨name, pw, h0, h1, h2⟩
    rw [h0, h1]; exact h2

theorem operByOper_iff {cfg : Config} {s : Session} {m : IrcMsg} :
    operByOper cfg s m = true ↔ s.server = false ∧ s.loggedIn = true ∧ toUpper m.command = "OPER" ∧
      ∃ name password, m.params[0]? = some name ∧ m.params[1]? = some password ∧ operListed cfg name password = true := by
  unfold operByOper
  simp only [Bool.and_eq_true, Bool.not_eq_true', beq_iff_eq, operCreds_iff, and_assoc]

theorem loginOperCreds_iff {cfg : Config} {pass : String} :
    loginOperCreds cfg pass = true ↔
      ∃ parsed, parseMessage ("OPER " ++ extractPassword pass "oper") = some parsed ∧ operCreds cfg parsed = true := by
  unfold loginOperCreds
  constructor
  · intro h
    split at h
    · rename_i parsed hp; exact ⟨parsed, hp, h⟩
    · cases h
  · rintro ⟨parsed, hp, h⟩
    rw [hp]; exact h

theorem operByLogin_iff {cfg : Config} {s : Session} {m : IrcMsg} :
    operByLogin cfg s m = true ↔ s.server = false ∧ s.loggedIn = false ∧
      (((toUpper m.command = "NICK" ∨ toUpper m.command = "USER") ∧ loginOperCreds cfg s.pass = true) ∨
       (toUpper m.command = "PASS" ∧ loginOperCreds cfg (passAfter m s.pass) = true)) := by
  unfold operByLogin
  simp only [Bool.and_eq_true, Bool.or_eq_true, Bool.not_eq_true', beq_iff_eq, and_assoc]

theorem serverBySERVER_iff {cfg : Config} {s : Session} {m : IrcMsg} :
    serverBySERVER cfg s m = true ↔ s.server = false ∧ toUpper m.command = "SERVER" ∧ servicesAuth cfg s.pass = true := by
  unfold serverBySERVER
  simp only [Bool.and_eq_true, Bool.not_eq_true', beq_iff_eq, and_assoc]

end Robust.Irc
