import Robust.Irc.Proofs.RcptSvcBase
import Robust.Irc.Proofs.H3
/-!
C12 for the services handlers, part B: JOIN, PART (several channels; recipients relative to the state in
which the COMMAND started) and SVSJOIN.

The pseudo-client on whose behalf a services JOIN/PART acts is the one indexed under the name of the message
prefix; the nick index does not change during the loops, so it is the same session `tid` in every step.  Loop
invariant: the memberships of every session other than `tid` are those of the start state; `tid`'s only grow
(JOIN) resp. shrink (PART).
-/
namespace Robust.Irc
open Robust AMap

/-! ### the member-adding step of `serverJoinOne` / `cmdServerSvsjoin`, from a state between entries -/

theorem svcB_addMember {c c' : Ctx} {tid : Id} {lc lcn : String} {ch : Channel} {mem : Member}
    (hi : Inv c.st) (hn : NI c.st) (hidx : AMap.get c.st.nicks lcn = some tid)
    (hch : AMap.get c.st.channels lc = some ch ∨
           (AMap.get c.st.channels lc = none ∧ ch.nicks = [] ∧ chanToLower ch.name = lc))
    (hvn : AMap.get c.st.channels lc = none → isValidChannel ch.name = true)
    (hr : modS (putChan c lc { ch with nicks := AMap.set ch.nicks lcn mem }) tid
            (fun t => { t with channels := setInsert t.channels lc }) = Res.ok c') :
    Inv c'.st ∧ NI c'.st ∧ c'.st.nicks = c.st.nicks ∧ c'.st.serverSessions = c.st.serverSessions ∧
    c'.out = c.out ∧
    AMap.get c'.st.channels lc = some { ch with nicks := AMap.set ch.nicks lcn mem } ∧
    (∀ lc' id, Lists c'.st lc' id ↔ Lists c.st lc' id ∨ (id = tid ∧ lc' = lc)) ∧
    ∃ t, AMap.get c.st.sessions tid = some t ∧
      AMap.get c'.st.sessions tid = some { t with channels := setInsert t.channels lc } := by
  have hH := addMember_HInv hi.toWInv (hi.nonempty.but lc) hidx hch hr
  obtain ⟨hl, hnk, t, ht, hsess⟩ := addMember_lookups hr
  have htid : t.id = tid := (hi.sessId tid t ht).1
  have hnd : ∀ id s, AMap.get c'.st.sessions id = some s → s.deleted = false := by
    intro id s hs
    rw [hsess, AMap.get_set] at hs
    split at hs
    · cases hs; exact hi.noDeleted tid t ht
    · exact hi.noDeleted id s hs
  have hn' : NI c'.st := by
    have hv : isValidChannel ch.name = true := by
      rcases hch with hg | ⟨hg, _⟩
      · exact hn.chan lc ch hg
      · exact hvn hg
    exact NI.modS_named (c := putChan c lc _)
      (hn.putChan lc (ch := { ch with nicks := AMap.set ch.nicks lcn mem }) hv) hr ht
      (hn.indexed_nick hi.toWInvCore hidx ht) (fun _ => rfl)
  have hout : c'.out = c.out := by
    obtain ⟨s, _, rfl⟩ := modS_eq_ok.1 hr
    rfl
  refine ⟨Inv.of_hinv hH hnd, hn', hnk, modS_serverSessions (c := putChan c lc _) hr, hout, hl, ?_, t, ht, ?_⟩
  · intro lc' id
    exact lists_addMember (c := putChan c lc { ch with nicks := AMap.set ch.nicks lcn mem }) ht htid hr
  · rw [hsess, htid]
    exact AMap.get_set_same _ _ _

/-! ### services JOIN -/

/-- the lines `cmdServerJoin` can produce -/
inductive SrvJoinLine (st : St) (m : IrcMsg) (o : Out) : Prop
  /-- numeric reply (403, 401): to the services links only -/
  | reply (h : o.rcpt = st.serverSessions)
  /-- the JOIN, under the prefix the link supplies: to exactly the joining pseudo-client and the sessions
  listing the channel -/
  | join (p0 chn pn : String) (tid : Id) (hp0 : m.params[0]? = some p0) (hmem : chn ∈ splitChar p0 ',')
      (hv : isValidChannel chn = true) (hpn : pfxName m = .ok pn)
      (hi : AMap.get st.nicks (nickToLower pn) = some tid)
      (hd : o.data = (IrcMsg.mk (some ⟨pn, "services", "services"⟩) "JOIN" [chn]).render)
      (hr : RcptIs o (fun id => id = tid ∨ Lists st (chanToLower chn) id) [])

/-- the lines of one `serverJoinOne`, relative to the state in which the step starts -/
inductive svcB_JoinStep (st : St) (m : IrcMsg) (chn : String) (o : Out) : Prop
  | reply (h : o.rcpt = st.serverSessions)
  | join (pn : String) (tid : Id) (hv : isValidChannel chn = true) (hpn : pfxName m = .ok pn)
      (hi : AMap.get st.nicks (nickToLower pn) = some tid)
      (hd : o.data = (IrcMsg.mk (some ⟨pn, "services", "services"⟩) "JOIN" [chn]).render)
      (hr : RcptIs o (fun id => id = tid ∨ Lists st (chanToLower chn) id) [])

/-- everything the loop needs from one `serverJoinOne` -/
theorem svcB_joinOne_step {c c' : Ctx} {m : IrcMsg} {chn : String} (hi : Inv c.st) (hn : NI c.st)
    (hr : serverJoinOne c m chn = .ok c') :
    Inv c'.st ∧ NI c'.st ∧ c'.st.nicks = c.st.nicks ∧ c'.st.serverSessions = c.st.serverSessions ∧
    NewOut (svcB_JoinStep c.st m chn) c c' ∧
    (SameLists c.st c'.st ∨
      ∃ pn tid, pfxName m = .ok pn ∧ AMap.get c.st.nicks (nickToLower pn) = some tid ∧
        ∀ lc id, Lists c'.st lc id ↔ Lists c.st lc id ∨ (id = tid ∧ lc = chanToLower chn)) := by
  unfold serverJoinOne at hr
  obtain ⟨pn, hpn, hr⟩ := Res.bind_eq_ok.1 hr
  split at hr
  · cases hr
    exact ⟨hi, hn, rfl, rfl, (NewOut.refl _ c).sendSvc fun _ _ => .reply rfl, Or.inl (SameLists.refl _)⟩
  · rename_i hvc
    have hv : isValidChannel chn = true := by simpa using hvc
    dsimp only at hr
    split at hr
    · cases hr
      exact ⟨hi, hn, rfl, rfl, (NewOut.refl _ c).sendSvc fun _ _ => .reply rfl, Or.inl (SameLists.refl _)⟩
    · rename_i tid hidx
      split at hr
      · cases hr
        exact ⟨hi, hn, rfl, rfl, (NewOut.refl _ c).sendSvc fun _ _ => .reply rfl, Or.inl (SameLists.refl _)⟩
      obtain ⟨c1, h1, hr⟩ := Res.bind_eq_ok.1 hr
      obtain ⟨sp, hsp, hr⟩ := Res.bind_eq_ok.1 hr
      obtain ⟨rc, hrc, hr⟩ := Res.bind_eq_ok.1 hr
      cases hr
      simp only [getChan_eq] at h1 hrc
      obtain ⟨pn', hpn', rfl⟩ := servicesPrefix_eq_ok hsp
      rw [hpn] at hpn'
      cases hpn'
      obtain ⟨hi1, hn1, hnk, hsv, hout, hl, hL, _⟩ :=
        svcB_addMember hi hn hidx (getD_chan_cases c _ chn rfl) (getD_chan_valid hvc) h1
      refine ⟨hi1, hn1, hnk, hsv, ?_, Or.inr ⟨pn, tid, hpn, hidx, hL⟩⟩
      refine ((NewOut.refl _ c).step hout).emit fun _ _ => ?_
      refine .join pn tid hv hpn hidx rfl ((RcptIs.of_list (rcChannel_lists hi1 hn1 hl hrc)).congr fun id => ?_)
      rw [hL]
      constructor
      · rintro (h | ⟨h, _⟩)
        · exact Or.inr h
        · exact Or.inl h
      · rintro (h | h)
        · exact Or.inr ⟨h, rfl⟩
        · exact Or.inl h

/-- the membership after `serverJoinOne`: nothing changes, or exactly the pseudo-client named by the prefix
additionally lists exactly that channel -/
theorem serverJoinOne_lists {c c' : Ctx} {m : IrcMsg} {chn : String} (hi : Inv c.st) (hn : NI c.st)
    (hr : serverJoinOne c m chn = .ok c') :
    SameLists c.st c'.st ∨
      ∃ pn tid, pfxName m = .ok pn ∧ AMap.get c.st.nicks (nickToLower pn) = some tid ∧
        ∀ lc id, Lists c'.st lc id ↔ Lists c.st lc id ∨ (id = tid ∧ lc = chanToLower chn) :=
  (svcB_joinOne_step hi hn hr).2.2.2.2.2

/-- the JOIN loop; `c0` = the context in which the command started.  Loop invariant: same nick index, same
services links, and the memberships of every session other than the one named by the prefix are those of
`c0`. -/
theorem svcB_joinLoop {m : IrcMsg} {p0 : String} {c0 : Ctx} (hp0 : m.params[0]? = some p0) :
    ∀ (l : List String) {ci c' : Ctx}, (∀ x ∈ l, x ∈ splitChar p0 ',') → Inv ci.st → NI ci.st →
    ci.st.nicks = c0.st.nicks → ci.st.serverSessions = c0.st.serverSessions →
    (∀ lc id, (∀ pn, pfxName m = .ok pn → AMap.get c0.st.nicks (nickToLower pn) ≠ some id) →
      (Lists ci.st lc id ↔ Lists c0.st lc id)) →
    l.foldlM (fun c ch => serverJoinOne c m ch) ci = .ok c' → NewOut (SrvJoinLine c0.st m) ci c'
  | [], ci, c', _, _, _, _, _, _, hr => by
    cases hr; exact NewOut.refl _ _
  | chn :: l, ci, c', hsub, hi, hn, hnk, hsv, hoth, hr => by
    rw [List.foldlM_cons] at hr
    obtain ⟨c1, h1, hr⟩ := Res.bind_eq_ok.1 hr
    obtain ⟨hi1, hn1, hnk1, hsv1, no1, hcase⟩ := svcB_joinOne_step hi hn h1
    have hoth1 : ∀ lc id, (∀ pn, pfxName m = .ok pn → AMap.get c0.st.nicks (nickToLower pn) ≠ some id) →
        (Lists c1.st lc id ↔ Lists c0.st lc id) := by
      intro lc id hne
      rw [← hoth lc id hne]
      rcases hcase with h | ⟨pn, tid, hpn, hidx, h⟩
      · exact h.lists
      · rw [h lc id]
        constructor
        · rintro (h | ⟨h, _⟩)
          · exact h
          · subst h
            rw [hnk] at hidx
            exact absurd hidx (hne pn hpn)
        · exact Or.inl
    have no1' : NewOut (SrvJoinLine c0.st m) ci c1 := by
      refine no1.mono fun o hline => ?_
      cases hline with
      | reply h => exact .reply (h.trans hsv)
      | join pn tid hv hpn hidx hd hrc =>
        rw [hnk] at hidx
        refine .join p0 chn pn tid hp0 (hsub _ (List.mem_cons_self ..)) hv hpn hidx hd (hrc.congr fun id => ?_)
        by_cases he : id = tid
        · exact ⟨fun _ => Or.inl he, fun _ => Or.inl he⟩
        · have hne : ∀ pn', pfxName m = .ok pn' → AMap.get c0.st.nicks (nickToLower pn') ≠ some id := by
            intro pn' hpn' hx
            rw [hpn] at hpn'
            cases hpn'
            rw [hidx] at hx
            cases hx
            exact he rfl
          rw [hoth _ id hne]
    exact no1'.trans (svcB_joinLoop hp0 l (fun x hx => hsub x (List.mem_cons_of_mem _ hx)) hi1 hn1
      (hnk1.trans hnk) (hsv1.trans hsv) hoth1 hr)

/-- services JOIN from a state between entries (`Inv` + `NI` suffice) -/
theorem svcB_cmdServerJoin_out {c c' : Ctx} {sid : Id} {m : IrcMsg} (hi : Inv c.st) (hn : NI c.st)
    (hr : cmdServerJoin c sid m = .ok c') : NewOut (SrvJoinLine c.st m) c c' := by
  unfold cmdServerJoin at hr
  obtain ⟨p0, hp0, hr⟩ := Res.bind_eq_ok.1 hr
  exact svcB_joinLoop (c0 := c) (param_eq_ok hp0) _ (fun _ hx => hx) hi hn rfl rfl (fun _ _ _ => Iff.rfl) hr

/-- **services JOIN** (several channels): recipients relative to the state in which the command starts -/
theorem cmdServerJoin_out {c c' : Ctx} {sid : Id} {m : IrcMsg} (hp : Pre c sid) (hn : NI c.st)
    (hr : cmdServerJoin c sid m = .ok c') : NewOut (SrvJoinLine c.st m) c c' :=
  svcB_cmdServerJoin_out hp.inv hn hr

/-! ### services PART -/

/-- the lines `cmdServerPart` can produce -/
inductive SrvPartLine (st : St) (m : IrcMsg) (o : Out) : Prop
  /-- numeric reply (403, 442): to the services links only -/
  | reply (h : o.rcpt = st.serverSessions)
  /-- the PART, under the prefix the link supplies: to exactly the sessions listing the channel (the leaving
  pseudo-client included) -/
  | part (p0 chn pn : String) (tid : Id) (hp0 : m.params[0]? = some p0) (hmem : chn ∈ splitChar p0 ',')
      (hpn : pfxName m = .ok pn) (hi : AMap.get st.nicks (nickToLower pn) = some tid)
      (hon : Lists st (chanToLower chn) tid)
      (hd : o.data = (IrcMsg.mk (some ⟨pn, "services", "services"⟩) "PART" [chn]).render)
      (hr : RcptIs o (Lists st (chanToLower chn)) [])

/-- the lines of one `serverPartOne`, relative to the state in which the step starts -/
inductive svcB_PartStep (st : St) (m : IrcMsg) (chn : String) (o : Out) : Prop
  | reply (h : o.rcpt = st.serverSessions)
  | part (pn : String) (tid : Id) (hpn : pfxName m = .ok pn)
      (hi : AMap.get st.nicks (nickToLower pn) = some tid) (hon : Lists st (chanToLower chn) tid)
      (hd : o.data = (IrcMsg.mk (some ⟨pn, "services", "services"⟩) "PART" [chn]).render)
      (hr : RcptIs o (Lists st (chanToLower chn)) [])

/-- everything the loop needs from one `serverPartOne` -/
theorem svcB_partOne_step {c c' : Ctx} {m : IrcMsg} {chn : String} (hi : Inv c.st) (hn : NI c.st)
    (hr : serverPartOne c m chn = .ok c') :
    Inv c'.st ∧ NI c'.st ∧ c'.st.nicks = c.st.nicks ∧ c'.st.serverSessions = c.st.serverSessions ∧
    NewOut (svcB_PartStep c.st m chn) c c' ∧
    (SameLists c.st c'.st ∨
      ∃ pn tid, pfxName m = .ok pn ∧ AMap.get c.st.nicks (nickToLower pn) = some tid ∧
        ∀ lc id, Lists c'.st lc id ↔ Lists c.st lc id ∧ ¬ (id = tid ∧ lc = chanToLower chn)) := by
  unfold serverPartOne at hr
  simp only [getChan_eq] at hr
  split at hr
  · obtain ⟨pn, _, hr⟩ := Res.bind_eq_ok.1 hr
    cases hr
    exact ⟨hi, hn, rfl, rfl, (NewOut.refl _ c).sendSvc fun _ _ => .reply rfl, Or.inl (SameLists.refl _)⟩
  · rename_i ch hch
    obtain ⟨pn, hpn, hr⟩ := Res.bind_eq_ok.1 hr
    split at hr
    · cases hr
      exact ⟨hi, hn, rfl, rfl, (NewOut.refl _ c).sendSvc fun _ _ => .reply rfl, Or.inl (SameLists.refl _)⟩
    · rename_i hcont
      have hcont' : AMap.contains ch.nicks (nickToLower pn) = true := by simpa using hcont
      split at hr
      · rename_i tid hidx
        obtain ⟨sp, hsp, hr⟩ := Res.bind_eq_ok.1 hr
        obtain ⟨rc, hrc, hr⟩ := Res.bind_eq_ok.1 hr
        obtain ⟨pn', hpn', rfl⟩ := servicesPrefix_eq_ok hsp
        rw [hpn] at hpn'
        cases hpn'
        have sp := leaveChannel_spec (c := emit _ _ _) hi.toWInv hidx hr
        refine ⟨leaveChannel_inv (c := emit _ _ _) hi hidx hr, NI.leaveChannel (c := emit _ _ _) hn hr, sp.nicks,
          sp.frame.serverSessions, ?_, Or.inr ⟨pn, tid, hpn, hidx, fun lc id => sp.lists⟩⟩
        refine ((NewOut.refl _ c).emit fun _ _ => ?_).frame sp.frame
        exact .part pn tid hpn hidx (lists_of_member hi.toWInvCore hch hcont' hidx) rfl
          (RcptIs.of_list (rcChannel_lists hi hn hch hrc))
      · cases hr

/-- the membership after `serverPartOne`: nothing changes, or exactly the pseudo-client named by the prefix
leaves exactly that channel -/
theorem serverPartOne_lists {c c' : Ctx} {m : IrcMsg} {chn : String} (hi : Inv c.st) (hn : NI c.st)
    (hr : serverPartOne c m chn = .ok c') :
    SameLists c.st c'.st ∨
      ∃ pn tid, pfxName m = .ok pn ∧ AMap.get c.st.nicks (nickToLower pn) = some tid ∧
        ∀ lc id, Lists c'.st lc id ↔ Lists c.st lc id ∧ ¬ (id = tid ∧ lc = chanToLower chn) :=
  (svcB_partOne_step hi hn hr).2.2.2.2.2

/-- the PART loop; `c0` = the context in which the command started.  Loop invariant: same nick index, same
services links, the memberships of every session other than the one named by the prefix are those of `c0`,
and every membership is one of `c0`. -/
theorem svcB_partLoop {m : IrcMsg} {p0 : String} {c0 : Ctx} (hp0 : m.params[0]? = some p0) :
    ∀ (l : List String) {ci c' : Ctx}, (∀ x ∈ l, x ∈ splitChar p0 ',') → Inv ci.st → NI ci.st →
    ci.st.nicks = c0.st.nicks → ci.st.serverSessions = c0.st.serverSessions →
    (∀ lc id, (∀ pn, pfxName m = .ok pn → AMap.get c0.st.nicks (nickToLower pn) ≠ some id) →
      (Lists ci.st lc id ↔ Lists c0.st lc id)) →
    (∀ lc id, Lists ci.st lc id → Lists c0.st lc id) →
    l.foldlM (fun c ch => serverPartOne c m ch) ci = .ok c' → NewOut (SrvPartLine c0.st m) ci c'
  | [], ci, c', _, _, _, _, _, _, _, hr => by
    cases hr; exact NewOut.refl _ _
  | chn :: l, ci, c', hsub, hi, hn, hnk, hsv, hoth, hsubset, hr => by
    rw [List.foldlM_cons] at hr
    obtain ⟨c1, h1, hr⟩ := Res.bind_eq_ok.1 hr
    obtain ⟨hi1, hn1, hnk1, hsv1, no1, hcase⟩ := svcB_partOne_step hi hn h1
    have hoth1 : ∀ lc id, (∀ pn, pfxName m = .ok pn → AMap.get c0.st.nicks (nickToLower pn) ≠ some id) →
        (Lists c1.st lc id ↔ Lists c0.st lc id) := by
      intro lc id hne
      rw [← hoth lc id hne]
      rcases hcase with h | ⟨pn, tid, hpn, hidx, h⟩
      · exact h.lists
      · rw [h lc id]
        refine ⟨fun hh => hh.1, fun hh => ⟨hh, fun he => ?_⟩⟩
        obtain ⟨he, _⟩ := he
        subst he
        rw [hnk] at hidx
        exact hne pn hpn hidx
    have hsubset1 : ∀ lc id, Lists c1.st lc id → Lists c0.st lc id := by
      intro lc id hh
      refine hsubset lc id ?_
      rcases hcase with h | ⟨_, _, _, _, h⟩
      · exact h.lists.1 hh
      · exact ((h lc id).1 hh).1
    have no1' : NewOut (SrvPartLine c0.st m) ci c1 := by
      refine no1.mono fun o hline => ?_
      cases hline with
      | reply h => exact .reply (h.trans hsv)
      | part pn tid hpn hidx hon hd hrc =>
        rw [hnk] at hidx
        refine .part p0 chn pn tid hp0 (hsub _ (List.mem_cons_self ..)) hpn hidx (hsubset _ _ hon) hd
          (hrc.congr fun id => ?_)
        by_cases he : id = tid
        · subst he
          exact ⟨fun _ => hsubset _ _ hon, fun _ => hon⟩
        · have hne : ∀ pn', pfxName m = .ok pn' → AMap.get c0.st.nicks (nickToLower pn') ≠ some id := by
            intro pn' hpn' hx
            rw [hpn] at hpn'
            cases hpn'
            rw [hidx] at hx
            cases hx
            exact he rfl
          exact hoth _ id hne
    exact no1'.trans (svcB_partLoop hp0 l (fun x hx => hsub x (List.mem_cons_of_mem _ hx)) hi1 hn1
      (hnk1.trans hnk) (hsv1.trans hsv) hoth1 hsubset1 hr)

/-- services PART from a state between entries (`Inv` + `NI` suffice) -/
theorem svcB_cmdServerPart_out {c c' : Ctx} {sid : Id} {m : IrcMsg} (hi : Inv c.st) (hn : NI c.st)
    (hr : cmdServerPart c sid m = .ok c') : NewOut (SrvPartLine c.st m) c c' := by
  unfold cmdServerPart at hr
  obtain ⟨p0, hp0, hr⟩ := Res.bind_eq_ok.1 hr
  exact svcB_partLoop (c0 := c) (param_eq_ok hp0) _ (fun _ hx => hx) hi hn rfl rfl (fun _ _ _ => Iff.rfl)
    (fun _ _ h => h) hr

/-- **services PART** (several channels): recipients relative to the state in which the command starts -/
theorem cmdServerPart_out {c c' : Ctx} {sid : Id} {m : IrcMsg} (hp : Pre c sid) (hn : NI c.st)
    (hr : cmdServerPart c sid m = .ok c') : NewOut (SrvPartLine c.st m) c c' :=
  svcB_cmdServerPart_out hp.inv hn hr

/-! ### SVSJOIN -/

/-- the lines `cmdServerSvsjoin` can produce -/
inductive SrvSvsjoinLine (st : St) (m : IrcMsg) (o : Out) : Prop
  /-- numeric reply (401, 403) and the `SJOIN`: to the services links only -/
  | reply (h : o.rcpt = st.serverSessions)
  /-- the JOIN, under the TARGET's own stored prefix: to exactly the target and the sessions listing the channel -/
  | join (p0 chn : String) (tid : Id) (t : Session) (hp0 : m.params[0]? = some p0) (hp1 : m.params[1]? = some chn)
      (hi : AMap.get st.nicks (nickToLower p0) = some tid) (ht : AMap.get st.sessions tid = some t)
      (hv : isValidChannel chn = true)
      (hd : o.data = (IrcMsg.mk (some t.ircPrefix) "JOIN" [chn]).render)
      (hr : RcptIs o (fun id => id = tid ∨ Lists st (chanToLower chn) id) [])
  /-- the answers of the implied `TOPIC` / `NAMES` (331/332/333, 353, 366): to the target only -/
  | self (p0 : String) (tid : Id) (hp0 : m.params[0]? = some p0)
      (hi : AMap.get st.nicks (nickToLower p0) = some tid) (h : ToOnly tid o)

/-- SVSJOIN from a state between entries (`Inv` + `NI` suffice) -/
theorem svcB_cmdServerSvsjoin_out {c c' : Ctx} {sid : Id} {m : IrcMsg} (hi : Inv c.st) (hn : NI c.st)
    (hr : cmdServerSvsjoin c sid m = .ok c') : NewOut (SrvSvsjoinLine c.st m) c c' := by
  unfold cmdServerSvsjoin at hr
  obtain ⟨p0, hp0, hr⟩ := Res.bind_eq_ok.1 hr
  obtain ⟨chn, hp1, hr⟩ := Res.bind_eq_ok.1 hr
  have hp0' := param_eq_ok hp0
  have hp1' := param_eq_ok hp1
  dsimp only at hr
  split at hr
  · obtain ⟨pn, _, hr⟩ := Res.bind_eq_ok.1 hr
    cases hr
    exact (NewOut.refl _ c).sendSvc fun _ _ => .reply rfl
  · rename_i tid hidx
    split at hr
    · obtain ⟨pn, _, hr⟩ := Res.bind_eq_ok.1 hr
      cases hr
      exact (NewOut.refl _ c).sendSvc fun _ _ => .reply rfl
    · rename_i hvc
      have hv : isValidChannel chn = true := by simpa using hvc
      simp only [getChan_eq, putChan_putChan] at hr
      split at hr
      · obtain ⟨pn, _, hr⟩ := Res.bind_eq_ok.1 hr
        cases hr
        exact (NewOut.refl _ c).sendSvc fun _ _ => .reply rfl
      split at hr
      · cases hr
        exact NewOut.of_out rfl
      · obtain ⟨c1, h1, hr⟩ := Res.bind_eq_ok.1 hr
        obtain ⟨hi1, hn1, hnk, hsv, hout, hl, hL, t0, ht0, ht1⟩ :=
          svcB_addMember hi hn hidx (getD_chan_cases c _ chn rfl) (getD_chan_valid hvc) h1
        rw [getS_of_get ht1] at hr
        simp only [Res.ok_bind] at hr
        obtain ⟨rc, hrc, hr⟩ := Res.bind_eq_ok.1 hr
        obtain ⟨c2, h2, hr⟩ := Res.bind_eq_ok.1 hr
        have n1 : NewOut (SrvSvsjoinLine c.st m) c
            (emit c1 ⟨some t0.ircPrefix, "JOIN", [chn]⟩ rc) := by
          refine ((NewOut.refl _ c).step hout).emit fun _ _ => ?_
          refine .join p0 chn tid t0 hp0' hp1' hidx ht0 hv rfl
            ((RcptIs.of_list (rcChannel_lists hi1 hn1 hl hrc)).congr fun id => ?_)
          rw [hL]
          constructor
          · rintro (h | ⟨h, _⟩)
            · exact Or.inr h
            · exact Or.inl h
          · rintro (h | h)
            · exact Or.inr ⟨h, rfl⟩
            · exact Or.inl h
        have n2 := n1.sendSvc (m := srv (emit c1 ⟨some t0.ircPrefix, "JOIN", [chn]⟩ rc) "SJOIN"
          ["1", chn, (if (!(AMap.get c.st.channels (chanToLower chn)).isSome) = true then "@" else "") ++ t0.nick])
          fun _ _ => .reply hsv
        obtain ⟨_, n3⟩ := cmdTopic_query_out h2
        obtain ⟨_, n4⟩ := cmdNames_out hr
        exact (n2.trans (n3.mono fun _ h => .self p0 tid hp0' hidx h)).trans
          (n4.mono fun _ h => .self p0 tid hp0' hidx h)

/-- **SVSJOIN**: the JOIN goes to exactly the target and the sessions listing the channel, the `SJOIN` to the
services links, the implied `TOPIC` / `NAMES` answers to the target only -/
theorem cmdServerSvsjoin_out {c c' : Ctx} {sid : Id} {m : IrcMsg} (hp : Pre c sid) (hn : NI c.st)
    (hr : cmdServerSvsjoin c sid m = .ok c') : NewOut (SrvSvsjoinLine c.st m) c c' :=
  svcB_cmdServerSvsjoin_out hp.inv hn hr

end Robust.Irc
