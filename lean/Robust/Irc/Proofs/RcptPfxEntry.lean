import Robust.Irc.Proofs.Entry
import Robust.Irc.Proofs.RcptPfxClient
import Robust.Irc.Proofs.RcptPfxSrv
/-!
Entry-level preservation of the identity invariant `PInv` (C12): a companion to `Entry.lean`.

Every handler in the table keeps `PInv` (`handler_ppres`, from the per-handler `cmdX_ppres`); hence
the three stages of `processMessage`, `processMessage` itself, one committed entry (`applyEntry`)
and every well-formed history (`runEntries`) keep it.  `Pre` / `NI` of intermediate contexts are
taken from the theorems of `Entry.lean` (`addrStage_spec`, `processMessage_post`), not re-proved.
-/
namespace Robust.Irc
open Robust AMap

/-! ## every handler of the table keeps `PInv` -/

theorem handler_ppres {fname : String} {h : Handler} (hh : handlerByName fname = some h) : PPres h := by
  unfold handlerByName at hh
  split at hh
  · cases hh; exact cmdAway_ppres
  · cases hh; exact cmdServiceAlias_ppres
  · cases hh; exact cmdGline_ppres
  · cases hh; exact cmdInvite_ppres
  · cases hh; exact cmdIson_ppres
  · cases hh; exact cmdJoin_ppres
  · cases hh; exact cmdKick_ppres
  · cases hh; exact cmdKill_ppres
  · cases hh; exact cmdKnock_ppres
  · cases hh; exact cmdList_ppres
  · cases hh; exact cmdMode_ppres
  · cases hh; exact cmdMotd_ppres
  · cases hh; exact cmdNames_ppres
  · cases hh; exact cmdNick_ppres
  · cases hh; exact cmdOper_ppres
  · cases hh; exact cmdPart_ppres
  · cases hh; exact cmdPass_ppres
  · cases hh; exact cmdPing_ppres
  · cases hh; exact cmdPrivmsg_ppres
  · cases hh; exact cmdQuit_ppres
  · cases hh; exact cmdServer_ppres
  · cases hh; exact cmdTopic_ppres
  · cases hh; exact cmdUser_ppres
  · cases hh; exact cmdUserhost_ppres
  · cases hh; exact cmdWho_ppres
  · cases hh; exact cmdWhois_ppres
  · cases hh; exact cmdServerInvite_ppres
  · cases hh; exact cmdServerJoin_ppres
  · cases hh; exact cmdServerKick_ppres
  · cases hh; exact cmdServerKill_ppres
  · cases hh; exact cmdServerMode_ppres
  · cases hh; exact cmdServerNick_ppres
  · cases hh; exact cmdServerPrivmsg_ppres
  · cases hh; exact cmdServerPart_ppres
  · cases hh; exact cmdServerQuit_ppres
  · cases hh; exact cmdServerSvshold_ppres
  · cases hh; exact cmdServerSvsjoin_ppres
  · cases hh; exact cmdServerSvsmode_ppres
  · cases hh; exact cmdServerSvsnick_ppres
  · cases hh; exact cmdServerSvspart_ppres
  · cases hh; exact cmdServerTopic_ppres
  · cases hh

/-! ## the stages of `processMessage` -/

theorem dispatchStage_pinv {c c' : Ctx} {sid : Id} {s : Session} {m : IrcMsg} {command : String}
    (hp : Pre c sid) (hn : NI c.st) (hpi : PInv c.st) (hs : AMap.get c.st.sessions sid = some s)
    (hr : dispatchStage c s m command = .ok c') : PInv c'.st := by
  have hid : s.id = sid := (hp.inv.sessId _ s hs).1
  unfold dispatchStage at hr
  rw [hid] at hr
  split at hr
  · cases hr; exact hpi.sendUser _ _
  · split at hr
    · cases hr; exact hpi.sendUser _ _
    · split at hr
      · cases hr
      · rename_i h hh
        exact handler_ppres hh c sid m c' hp hn hpi hr

theorem gateStage_pinv {c c' : Ctx} {e : Entry} {m : IrcMsg} {command : String}
    (hp : Pre c e.session) (hn : NI c.st) (hpi : PInv c.st)
    (hr : gateStage c e m command = .ok c') : PInv c'.st := by
  unfold gateStage at hr
  obtain ⟨s, hs, hr⟩ := Res.bind_eq_ok.1 hr
  rw [getS_eq_ok] at hs
  split at hr
  · split at hr
    · exact PInv.deleteSession (c := sendUser (sendUser c _ _) _ _) ((hpi.sendUser _ _).sendUser _ _) hr
    · cases hr; exact hpi.sendUser _ _
  · exact dispatchStage_pinv hp hn hpi hs hr

/-- the address stage: one `modS` that only changes `remoteAddr`, then possibly `sendUser` and
`deleteSession` -/
theorem addrStage_pinv {c c1 : Ctx} {e : Entry} {s : Session} {b : Bool} (hpi : PInv c.st)
    (hr : addrStage c e s = .ok (c1, b)) : PInv c1.st := by
  unfold addrStage at hr
  split at hr
  · obtain ⟨c0, hm, hr⟩ := Res.bind_eq_ok.1 hr
    have p0 : PInv c0.st := hpi.modS_keep hm (fun _ => ⟨rfl, rfl, rfl, rfl, rfl⟩)
    split at hr
    · split at hr
      · obtain ⟨c2, hd, hr⟩ := Res.bind_eq_ok.1 hr
        cases hr
        exact PInv.deleteSession (c := sendUser c0 _ _) (p0.sendUser _ _) hd
      · cases hr; exact p0
    · cases hr; exact p0
  · cases hr; exact hpi

/-- `ProcessMessage` keeps the identity invariant -/
theorem processMessage_pinv {c c' : Ctx} {e : Entry} {im : Option IrcMsg} (hp : Pre c e.session) (hn : NI c.st)
    (hpi : PInv c.st) (hr : processMessage c e im = .ok c') : PInv c'.st := by
  rw [processMessage_eq] at hr
  obtain ⟨s, hs, hr⟩ := Res.bind_eq_ok.1 hr
  rw [getS_eq_ok] at hs
  cases im with
  | none => cases hr; exact hpi.sendUser _ _
  | some m =>
    dsimp only at hr
    obtain ⟨⟨c1, b⟩, h1, hr⟩ := Res.bind_eq_ok.1 hr
    have p1 : PInv c1.st := addrStage_pinv hpi h1
    obtain ⟨_, hf⟩ := addrStage_spec hp hn hs h1
    cases b with
    | true => cases hr; exact p1
    | false =>
      simp only [Bool.false_eq_true, ↓reduceIte] at hr
      obtain ⟨hp1, _, n1, _⟩ := hf rfl
      exact gateStage_pinv hp1 n1 p1 hr

/-! ## entries -/

/-- after the handler: set `lastProcessed`, purge the flagged sessions -/
theorem PInv_finish {c0 c : Ctx} {sid x : Id} (po : Post c0 c sid) (hpi : PInv c.st) :
    PInv (maybeDeleteSession { c.st with lastProcessed := x } sid) := by
  have hI : HInv { c.st with lastProcessed := x } := (HInv_lastProcessed _ _).2 po.hinv
  exact PInv.maybeDeleteSession sid (hpi.withLastProcessed x) hI.sessNodup

theorem applyEntry_pinv (st st' : St) (e : Entry) (out : List Out) (h : GInv st) (hpi : PInv st)
    (he : EntryOk st e) (hr : applyEntry st e = .ok (st', out)) : PInv st' := by
  unfold applyEntry at hr
  split at hr
  · -- MessageOfDeath
    cases hr
    cases hu : updateLastClientMessageID st e with
    | none => exact hpi
    | some st1 => exact hpi.updateLastClientMessageID hu
  split at hr
  · -- CreateSession
    cases hr
    cases hcs : createSession st ⟨e.id, 0⟩ e.data e.timestamp with
    | none => exact hpi
    | some st1 => exact hpi.createSession hcs
  split at hr
  · -- DeleteSession
    rename_i ht1
    split at hr
    · cases hr; exact hpi
    · rename_i s0 hs0
      obtain ⟨c, hpm, hr⟩ := Res.bind_eq_ok.1 hr
      cases hr
      have hp : Pre { st := st, msgid := e.id } e.session := ⟨h.inv, h.linv, ⟨_, hs0⟩, he.1 (Or.inl ht1)⟩
      obtain ⟨po, _⟩ := processMessage_post hp h.ni hpm
      exact PInv_finish po (processMessage_pinv hp h.ni hpi hpm)
  split at hr
  · -- IRCFromClient
    rename_i ht2
    split at hr
    · cases hr; exact hpi
    · rename_i st1 hu
      obtain ⟨c, hpm, hr⟩ := Res.bind_eq_ok.1 hr
      cases hr
      have h1 := GInv_updateLastClientMessageID h hu
      have p1 : PInv st1 := hpi.updateLastClientMessageID hu
      obtain ⟨_, s1, _, hs1, _⟩ := updateLastClientMessageID_actor hu
      have hp : Pre { st := st1, msgid := e.id } e.session := ⟨h1.inv, h1.linv, ⟨_, hs1⟩, he.1 (Or.inr ht2)⟩
      obtain ⟨po, _⟩ := processMessage_post hp h1.ni hpm
      exact PInv_finish po (processMessage_pinv hp h1.ni p1 hpm)
  split at hr
  · -- Config
    split at hr
    · cases hr; exact hpi
    · cases hr
      exact hpi.withConfig _
  · cases hr; exact hpi

/-! ## the full invariant together with the identity invariant -/

structure GPInv (st : St) : Prop where
  ginv : GInv st
  pinv : PInv st

theorem GPInv_init : GPInv ({} : St) := ⟨GInv_init, PInv_init⟩

theorem applyEntry_preserves_gp (st st' : St) (e : Entry) (out : List Out) (h : GPInv st) (he : EntryOk st e)
    (hr : applyEntry st e = .ok (st', out)) : GPInv st' :=
  ⟨applyEntry_preserves st st' e out h.ginv he hr, applyEntry_pinv st st' e out h.ginv h.pinv he hr⟩

theorem run_preserves_gp {st st' : St} {es : List Entry} (h : GPInv st) (hw : WfHistory st es)
    (hr : runEntries st es = .ok st') : GPInv st' := by
  induction es generalizing st with
  | nil => cases hr; exact h
  | cons e es ih =>
    unfold runEntries at hr
    obtain ⟨he, _, hnext⟩ := hw
    split at hr
    · rename_i st1 out hap
      exact ih (applyEntry_preserves_gp st st1 e out h he hap) (hnext st1 out hap) hr
    · cases hr
    · cases hr

end Robust.Irc
