import Robust.Irc.Proofs.FlagOriginBase
/-!
The flag-origin relation `Flg O S` (`FlagOriginBase.lean`) through the services (server-to-server)
handlers and through `cmdServer`.  The walks are those of `FrmSrv.lean`.

* No services handler sets a privilege flag.  The pseudo-client session the services `NICK` creates
  (`createSession`) has `operator = false` and `server = false`: pseudo-clients of a link are *not*
  marked `server` in the model (nor in `scmd_nick.go`).
* `cmdServer` (a client command) sets the actor's `server` flag only if the stored PASS string is
  `services=<configured password>`; the permission `S sid` is needed in that case only.
-/
namespace Robust.Irc
open Srv
open Robust AMap

theorem Flg.emits {O S : Id → Prop} {st0 : St} {c c' : Ctx} (h : Flg O S st0 c.st) (he : Srv.Emits c c') : Flg O S st0 c'.st := by
  rw [he.st]; exact h

/-! ### SVSHOLD -/

theorem cmdServerSvshold_flg {O S : Id → Prop} {st0 : St} {c c' : Ctx} {sid : Id} {m : IrcMsg} (h : Flg O S st0 c.st)
    (hr : cmdServerSvshold c sid m = Res.ok c') : Flg O S st0 c'.st := by
  unfold cmdServerSvshold at hr
  obtain ⟨s, hs, hr⟩ := Res.bind_eq_ok.1 hr
  obtain ⟨p0, hp0, hr⟩ := Res.bind_eq_ok.1 hr
  dsimp only at hr
  split at hr
  · obtain ⟨p1, hp1, hr⟩ := Res.bind_eq_ok.1 hr
    split at hr
    · cases hr
    · split at hr
      · cases hr
      · cases hr
        exact h.congr rfl rfl rfl
  · cases hr
    exact h.congr rfl rfl rfl

theorem cmdServerSvshold_flgp : FlgPres cmdServerSvshold := .of_plain cmdServerSvshold_flg

/-! ### PRIVMSG / NOTICE -/

theorem cmdServerPrivmsg_flg {O S : Id → Prop} {st0 : St} {c c' : Ctx} {sid : Id} {m : IrcMsg} (h : Flg O S st0 c.st)
    (hr : cmdServerPrivmsg c sid m = Res.ok c') : Flg O S st0 c'.st := by
  unfold cmdServerPrivmsg at hr
  split at hr
  · obtain ⟨pn, _, hr⟩ := Res.bind_eq_ok.1 hr
    cases hr; exact h.sendSvc _
  · split at hr
    · obtain ⟨pn, _, hr⟩ := Res.bind_eq_ok.1 hr
      cases hr; exact h.sendSvc _
    · obtain ⟨p0, _, hr⟩ := Res.bind_eq_ok.1 hr
      split at hr
      · split at hr
        · obtain ⟨pn, _, hr⟩ := Res.bind_eq_ok.1 hr
          cases hr; exact h.sendSvc _
        · obtain ⟨sp, _, hr⟩ := Res.bind_eq_ok.1 hr
          obtain ⟨rc, _, hr⟩ := Res.bind_eq_ok.1 hr
          cases hr; exact h.emit _ _
      · split at hr
        · obtain ⟨pn, _, hr⟩ := Res.bind_eq_ok.1 hr
          cases hr; exact h.sendSvc _
        · obtain ⟨sp, _, hr⟩ := Res.bind_eq_ok.1 hr
          cases hr; exact h.sendUser _ _

theorem cmdServerPrivmsg_flgp : FlgPres cmdServerPrivmsg := .of_plain cmdServerPrivmsg_flg

/-! ### TOPIC -/

theorem cmdServerTopic_flg {O S : Id → Prop} {st0 : St} {c c' : Ctx} {sid : Id} {m : IrcMsg} (h : Flg O S st0 c.st)
    (hr : cmdServerTopic c sid m = Res.ok c') : Flg O S st0 c'.st := by
  unfold cmdServerTopic at hr
  obtain ⟨channel, _, hr⟩ := Res.bind_eq_ok.1 hr
  simp only [getChan_eq] at hr
  split at hr
  · obtain ⟨pn, _, hr⟩ := Res.bind_eq_ok.1 hr
    cases hr; exact h.sendSvc _
  · rename_i ch hch
    obtain ⟨p2, _, hr⟩ := Res.bind_eq_ok.1 hr
    obtain ⟨ts?, _, hr⟩ := Res.bind_eq_ok.1 hr
    split at hr
    · cases hr
    · obtain ⟨p1, _, hr⟩ := Res.bind_eq_ok.1 hr
      split at hr
      · cases hr
      · obtain ⟨sp, _, hr⟩ := Res.bind_eq_ok.1 hr
        obtain ⟨rc, _, hr⟩ := Res.bind_eq_ok.1 hr
        cases hr
        exact Flg.emit (c := putChan _ _ _) (h.putChan _ _) _ _

theorem cmdServerTopic_flgp : FlgPres cmdServerTopic := .of_plain cmdServerTopic_flg

/-! ### INVITE -/

theorem cmdServerInvite_flg {O S : Id → Prop} {st0 : St} {c c' : Ctx} {sid : Id} {m : IrcMsg} (h : Flg O S st0 c.st)
    (hr : cmdServerInvite c sid m = Res.ok c') : Flg O S st0 c'.st := by
  unfold cmdServerInvite at hr
  obtain ⟨nickname, _, hr⟩ := Res.bind_eq_ok.1 hr
  obtain ⟨channelname, _, hr⟩ := Res.bind_eq_ok.1 hr
  split at hr
  · obtain ⟨pn, _, hr⟩ := Res.bind_eq_ok.1 hr
    cases hr; exact h.sendSvc _
  · obtain ⟨t, _, hr⟩ := Res.bind_eq_ok.1 hr
    simp only [getChan_eq] at hr
    split at hr
    · obtain ⟨pn, _, hr⟩ := Res.bind_eq_ok.1 hr
      cases hr; exact h.sendSvc _
    · split at hr
      · obtain ⟨pn, _, hr⟩ := Res.bind_eq_ok.1 hr
        cases hr; exact h.sendSvc _
      · obtain ⟨c1, h1, hr⟩ := Res.bind_eq_ok.1 hr
        obtain ⟨pn, _, hr⟩ := Res.bind_eq_ok.1 hr
        obtain ⟨sp, _, hr⟩ := Res.bind_eq_ok.1 hr
        obtain ⟨rc, _, hr⟩ := Res.bind_eq_ok.1 hr
        cases hr
        have n1 : Flg O S st0 c1.st := h.modS_keep h1 (fun _ => ⟨rfl, rfl, rfl⟩)
        exact (((n1.sendSvc _).sendUser _ _).emit _ _)

theorem cmdServerInvite_flgp : FlgPres cmdServerInvite := .of_plain cmdServerInvite_flg

/-! ### KICK -/

theorem cmdServerKick_flg {O S : Id → Prop} {st0 : St} {c c' : Ctx} {sid : Id} {m : IrcMsg} (h : Flg O S st0 c.st)
    (hr : cmdServerKick c sid m = Res.ok c') : Flg O S st0 c'.st := by
  unfold cmdServerKick at hr
  obtain ⟨channelname, _, hr⟩ := Res.bind_eq_ok.1 hr
  obtain ⟨target, _, hr⟩ := Res.bind_eq_ok.1 hr
  simp only [getChan_eq] at hr
  split at hr
  · obtain ⟨pn, _, hr⟩ := Res.bind_eq_ok.1 hr
    cases hr; exact h.sendSvc _
  · split at hr
    · obtain ⟨pn, _, hr⟩ := Res.bind_eq_ok.1 hr
      cases hr; exact h.sendSvc _
    · split at hr
      · obtain ⟨sp, _, hr⟩ := Res.bind_eq_ok.1 hr
        obtain ⟨rc, _, hr⟩ := Res.bind_eq_ok.1 hr
        exact Flg.leaveChannel (c := emit _ _ _) h hr
      · cases hr

theorem cmdServerKick_flgp : FlgPres cmdServerKick := .of_plain cmdServerKick_flg

/-! ### SVSPART -/

theorem cmdServerSvspart_flg {O S : Id → Prop} {st0 : St} {c c' : Ctx} {sid : Id} {m : IrcMsg} (h : Flg O S st0 c.st)
    (hr : cmdServerSvspart c sid m = Res.ok c') : Flg O S st0 c'.st := by
  unfold cmdServerSvspart at hr
  obtain ⟨p0, _, hr⟩ := Res.bind_eq_ok.1 hr
  obtain ⟨channelname, _, hr⟩ := Res.bind_eq_ok.1 hr
  dsimp only at hr
  split at hr
  · obtain ⟨pn, _, hr⟩ := Res.bind_eq_ok.1 hr
    cases hr; exact h.sendSvc _
  · simp only [getChan_eq] at hr
    split at hr
    · obtain ⟨pn, _, hr⟩ := Res.bind_eq_ok.1 hr
      cases hr; exact h.sendSvc _
    · split at hr
      · obtain ⟨pn, _, hr⟩ := Res.bind_eq_ok.1 hr
        cases hr; exact h.sendSvc _
      · obtain ⟨t, _, hr⟩ := Res.bind_eq_ok.1 hr
        obtain ⟨rc, _, hr⟩ := Res.bind_eq_ok.1 hr
        exact Flg.leaveChannel (c := emit _ _ _) h hr

theorem cmdServerSvspart_flgp : FlgPres cmdServerSvspart := .of_plain cmdServerSvspart_flg

/-! ### MODE -/

theorem serverModeStep_flg {O S : Id → Prop} {st0 : St} {c c' : Ctx} {m : IrcMsg} {chn lc : String} {mc : ModeCmd}
    (h : Flg O S st0 c.st) (hstep : serverModeStep m chn lc c mc = Res.ok c') : Flg O S st0 c'.st := by
  unfold serverModeStep at hstep
  simp only [getChan_eq] at hstep
  split at hstep
  · split at hstep
    · cases hstep
      exact h.putChan _ _
    · split at hstep
      · split at hstep
        · obtain ⟨pn, _, hstep⟩ := Res.bind_eq_ok.1 hstep
          cases hstep; exact h.sendSvc _
        · split at hstep
          · cases hstep
            exact h.putChan _ _
          · cases hstep; exact h
      · obtain ⟨pn, _, hstep⟩ := Res.bind_eq_ok.1 hstep
        cases hstep; exact h.sendSvc _
  · cases hstep

theorem cmdServerMode_flg {O S : Id → Prop} {st0 : St} {c c' : Ctx} {sid : Id} {m : IrcMsg} (h : Flg O S st0 c.st)
    (hr : cmdServerMode c sid m = Res.ok c') : Flg O S st0 c'.st := by
  rw [cmdServerMode_eq] at hr
  obtain ⟨channelname, _, hr⟩ := Res.bind_eq_ok.1 hr
  simp only [getChan_eq] at hr
  split at hr
  · obtain ⟨pn, _, hr⟩ := Res.bind_eq_ok.1 hr
    cases hr; exact h.sendSvc _
  · obtain ⟨c1, hfold, hr⟩ := Res.bind_eq_ok.1 hr
    have h1 : Flg O S st0 c1.st :=
      Flg.foldlM (fun _ _ _ hP hstep => serverModeStep_flg hP hstep) _ h hfold
    split at hr
    · cases hr; exact h1
    · split at hr
      · obtain ⟨sp, _, hr⟩ := Res.bind_eq_ok.1 hr
        obtain ⟨rc, _, hr⟩ := Res.bind_eq_ok.1 hr
        cases hr
        exact h1.emit _ _
      · cases hr

theorem cmdServerMode_flgp : FlgPres cmdServerMode := .of_plain cmdServerMode_flg

/-! ### SVSMODE -/

theorem svsmodeStep_flg {O S : Id → Prop} {st0 : St} {c c' : Ctx} {tid : Id} {mc : ModeCmd}
    (h : Flg O S st0 c.st) (hstep : svsmodeStep tid c mc = Res.ok c') : Flg O S st0 c'.st := by
  unfold svsmodeStep at hstep
  dsimp only at hstep
  split at hstep
  · exact h.modS_keep hstep (fun _ => ⟨rfl, rfl, rfl⟩)
  · split at hstep
    · exact h.modS_keep hstep (fun _ => ⟨rfl, rfl, rfl⟩)
    · cases hstep
      exact h.sendSvc _

theorem cmdServerSvsmode_flg {O S : Id → Prop} {st0 : St} {c c' : Ctx} {sid : Id} {m : IrcMsg} (h : Flg O S st0 c.st)
    (hr : cmdServerSvsmode c sid m = Res.ok c') : Flg O S st0 c'.st := by
  rw [cmdServerSvsmode_eq] at hr
  obtain ⟨s, _, hr⟩ := Res.bind_eq_ok.1 hr
  obtain ⟨p0, _, hr⟩ := Res.bind_eq_ok.1 hr
  split at hr
  · cases hr; exact h.sendSvc _
  · obtain ⟨modestr, _, hr⟩ := Res.bind_eq_ok.1 hr
    split at hr
    · cases hr; exact h.sendSvc _
    · obtain ⟨c1, hfold, hr⟩ := Res.bind_eq_ok.1 hr
      obtain ⟨t, _, hr⟩ := Res.bind_eq_ok.1 hr
      cases hr
      have h1 : Flg O S st0 c1.st :=
        Flg.foldlM (fun _ _ _ hP hstep => svsmodeStep_flg hP hstep) _ h hfold
      exact h1.sendUser _ _

theorem cmdServerSvsmode_flgp : FlgPres cmdServerSvsmode := .of_plain cmdServerSvsmode_flg

/-! ### JOIN -/

theorem serverJoinOne_flg {O S : Id → Prop} {st0 : St} {c c' : Ctx} {m : IrcMsg} {chn : String} (h : Flg O S st0 c.st)
    (hr : serverJoinOne c m chn = Res.ok c') : Flg O S st0 c'.st := by
  unfold serverJoinOne at hr
  obtain ⟨pn, _, hr⟩ := Res.bind_eq_ok.1 hr
  split at hr
  · cases hr; exact h.sendSvc _
  · dsimp only at hr
    split at hr
    · cases hr; exact h.sendSvc _
    · split at hr
      · cases hr; exact h.sendSvc _
      obtain ⟨c1, h1, hr⟩ := Res.bind_eq_ok.1 hr
      obtain ⟨sp, _, hr⟩ := Res.bind_eq_ok.1 hr
      obtain ⟨rc, _, hr⟩ := Res.bind_eq_ok.1 hr
      cases hr
      have n1 : Flg O S st0 c1.st :=
        Flg.modS_keep (c := putChan _ _ _) (h.putChan _ _) h1 (fun _ => ⟨rfl, rfl, rfl⟩)
      exact n1.emit _ _

theorem cmdServerJoin_flg {O S : Id → Prop} {st0 : St} {c c' : Ctx} {sid : Id} {m : IrcMsg} (h : Flg O S st0 c.st)
    (hr : cmdServerJoin c sid m = Res.ok c') : Flg O S st0 c'.st := by
  unfold cmdServerJoin at hr
  obtain ⟨p0, _, hr⟩ := Res.bind_eq_ok.1 hr
  exact Flg.foldlM (fun _ _ _ hP hstep => serverJoinOne_flg hP hstep) _ h hr

theorem cmdServerJoin_flgp : FlgPres cmdServerJoin := .of_plain cmdServerJoin_flg

/-! ### PART -/

theorem serverPartOne_flg {O S : Id → Prop} {st0 : St} {c c' : Ctx} {m : IrcMsg} {chn : String} (h : Flg O S st0 c.st)
    (hr : serverPartOne c m chn = Res.ok c') : Flg O S st0 c'.st := by
  unfold serverPartOne at hr
  simp only [getChan_eq] at hr
  split at hr
  · obtain ⟨pn, _, hr⟩ := Res.bind_eq_ok.1 hr
    cases hr; exact h.sendSvc _
  · obtain ⟨pn, _, hr⟩ := Res.bind_eq_ok.1 hr
    split at hr
    · cases hr; exact h.sendSvc _
    · split at hr
      · obtain ⟨sp, _, hr⟩ := Res.bind_eq_ok.1 hr
        obtain ⟨rc, _, hr⟩ := Res.bind_eq_ok.1 hr
        exact Flg.leaveChannel (c := emit _ _ _) h hr
      · cases hr

theorem cmdServerPart_flg {O S : Id → Prop} {st0 : St} {c c' : Ctx} {sid : Id} {m : IrcMsg} (h : Flg O S st0 c.st)
    (hr : cmdServerPart c sid m = Res.ok c') : Flg O S st0 c'.st := by
  unfold cmdServerPart at hr
  obtain ⟨p0, _, hr⟩ := Res.bind_eq_ok.1 hr
  exact Flg.foldlM (fun _ _ _ hP hstep => serverPartOne_flg hP hstep) _ h hr

theorem cmdServerPart_flgp : FlgPres cmdServerPart := .of_plain cmdServerPart_flg

/-! ### SVSJOIN -/

theorem cmdServerSvsjoin_flg {O S : Id → Prop} {st0 : St} {c c' : Ctx} {sid : Id} {m : IrcMsg} (h : Flg O S st0 c.st)
    (hr : cmdServerSvsjoin c sid m = Res.ok c') : Flg O S st0 c'.st := by
  unfold cmdServerSvsjoin at hr
  obtain ⟨p0, _, hr⟩ := Res.bind_eq_ok.1 hr
  obtain ⟨chn, _, hr⟩ := Res.bind_eq_ok.1 hr
  dsimp only at hr
  split at hr
  · obtain ⟨pn, _, hr⟩ := Res.bind_eq_ok.1 hr
    cases hr; exact h.sendSvc _
  · split at hr
    · obtain ⟨pn, _, hr⟩ := Res.bind_eq_ok.1 hr
      cases hr; exact h.sendSvc _
    · simp only [getChan_eq, putChan_putChan] at hr
      split at hr
      · obtain ⟨pn, _, hr⟩ := Res.bind_eq_ok.1 hr
        cases hr; exact h.sendSvc _
      split at hr
      · cases hr
        exact h.putChan _ _
      · obtain ⟨c1, h1, hr⟩ := Res.bind_eq_ok.1 hr
        obtain ⟨t, _, hr⟩ := Res.bind_eq_ok.1 hr
        obtain ⟨rc, _, hr⟩ := Res.bind_eq_ok.1 hr
        obtain ⟨c2, h2, hr⟩ := Res.bind_eq_ok.1 hr
        have n1 : Flg O S st0 c1.st :=
          Flg.modS_keep (c := putChan _ _ _) (h.putChan _ _) h1 (fun _ => ⟨rfl, rfl, rfl⟩)
        have n2 : Flg O S st0 c2.st :=
          Flg.emits (c := sendSvc (emit c1 _ _) _) ((n1.emit _ _).sendSvc _) (cmdTopic_query_emits h2)
        exact n2.emits (Srv.cmdNames_emits hr)

theorem cmdServerSvsjoin_flgp : FlgPres cmdServerSvsjoin := .of_plain cmdServerSvsjoin_flg

/-! ### NICK (a fresh pseudo-client) -/

theorem cmdServerNick_flg {O S : Id → Prop} {st0 : St} {c c' : Ctx} {sid : Id} {m : IrcMsg} (h : Flg O S st0 c.st)
    (hr : cmdServerNick c sid m = Res.ok c') : Flg O S st0 c'.st := by
  unfold cmdServerNick at hr
  obtain ⟨s, hs, hr⟩ := Res.bind_eq_ok.1 hr
  split at hr
  · cases hr; exact h
  · obtain ⟨p0, _, hr⟩ := Res.bind_eq_ok.1 hr
    split at hr
    · cases hr; exact h.sendSvc _
    · split at hr
      · cases hr; exact h.sendSvc _
      · dsimp only at hr
        split at hr
        · cases hr; exact h.sendSvc _
        · split at hr
          · cases hr; exact h.sendSvc _
          · rename_i st1 hcs
            obtain ⟨p3, _, hr⟩ := Res.bind_eq_ok.1 hr
            obtain ⟨c2, hm, hr⟩ := Res.bind_eq_ok.1 hr
            cases hr
            have n1 : Flg O S st0 st1 := by
              rw [createSession_eq hcs]
              exact Flg.newSession (k := ⟨s.id.id, fnv64 p0⟩)
                (v := { id := ⟨s.id.id, fnv64 p0⟩, auth := "", created := s.lastActivity, lastActivity := s.lastActivity,
                        lastNonPing := s.lastActivity, svid := "0" }) h rfl rfl rfl rfl rfl rfl
            have n2 : Flg O S st0 c2.st :=
              Flg.modS_keep (c := { c with st := st1 }) n1 hm (fun _ => ⟨rfl, rfl, rfl⟩)
            exact n2.congr rfl rfl rfl

theorem cmdServerNick_flgp : FlgPres cmdServerNick := .of_plain cmdServerNick_flg

/-! ### SVSNICK -/

theorem svsnickTail_flg {O S : Id → Prop} {st0 : St} {c c' : Ctx} {tid : Id} {p0 p1 : String} (h : Flg O S st0 c.st)
    (hr : svsnickTail c p0 p1 tid = Res.ok c') : Flg O S st0 c'.st := by
  unfold svsnickTail at hr
  obtain ⟨t, ht, hr⟩ := Res.bind_eq_ok.1 hr
  dsimp only at hr
  obtain ⟨c1, hm1, hr⟩ := Res.bind_eq_ok.1 hr
  obtain ⟨c2, hm2, hr⟩ := Res.bind_eq_ok.1 hr
  obtain ⟨t2, _, hr⟩ := Res.bind_eq_ok.1 hr
  obtain ⟨rc, _, hr⟩ := Res.bind_eq_ok.1 hr
  cases hr
  have n1 : Flg O S st0 c1.st := h.modS_keep hm1 (fun _ => ⟨rfl, rfl, rfl⟩)
  have hss := renameCtx_sessions c1 tid (nickToLower p1) (nickToLower p0) (nickToLower p1 != nickToLower p0)
  obtain ⟨hcr, hlr⟩ := renameCtx_cfg' c1 tid (nickToLower p1) (nickToLower p0) (nickToLower p1 != nickToLower p0)
  have nr : Flg O S st0 (renameCtx c1 tid (nickToLower p1) (nickToLower p0) (nickToLower p1 != nickToLower p0)).st :=
    n1.congr hss (by rw [hcr]) (by rw [hcr])
  have n2 : Flg O S st0 c2.st := nr.modS_keep hm2 (fun _ => ⟨rfl, rfl, rfl⟩)
  exact n2.emit _ _

theorem cmdServerSvsnick_flg {O S : Id → Prop} {st0 : St} {c c' : Ctx} {sid : Id} {m : IrcMsg} (h : Flg O S st0 c.st)
    (hr : cmdServerSvsnick c sid m = Res.ok c') : Flg O S st0 c'.st := by
  rw [cmdServerSvsnick_eq] at hr
  obtain ⟨p0, _, hr⟩ := Res.bind_eq_ok.1 hr
  obtain ⟨p1, _, hr⟩ := Res.bind_eq_ok.1 hr
  split at hr
  · cases hr; exact h.sendSvc _
  · split at hr
    · cases hr; exact h.sendSvc _
    · split at hr
      · split at hr
        · cases hr; exact h.sendSvc _
        · exact svsnickTail_flg h hr
      · exact svsnickTail_flg h hr

theorem cmdServerSvsnick_flgp : FlgPres cmdServerSvsnick := .of_plain cmdServerSvsnick_flg

/-! ### KILL -/

theorem cmdServerKill_flg {O S : Id → Prop} {st0 : St} {c c' : Ctx} {sid : Id} {m : IrcMsg} (h : Flg O S st0 c.st)
    (hr : cmdServerKill c sid m = Res.ok c') : Flg O S st0 c'.st := by
  unfold cmdServerKill at hr
  obtain ⟨s, _, hr⟩ := Res.bind_eq_ok.1 hr
  split at hr
  · cases hr; exact h.sendSvc _
  · dsimp only at hr
    obtain ⟨kp?, _, hr⟩ := Res.bind_eq_ok.1 hr
    obtain ⟨p0, _, hr⟩ := Res.bind_eq_ok.1 hr
    split at hr
    · cases hr; exact h.sendSvc _
    · obtain ⟨t, ht, hr⟩ := Res.bind_eq_ok.1 hr
      split at hr
      · obtain ⟨rc, _, hr⟩ := Res.bind_eq_ok.1 hr
        exact Flg.deleteSession (c := emit (sendUser c _ _) _ _) ((h.sendUser _ _).emit _ _) hr
      · cases hr

theorem cmdServerKill_flgp : FlgPres cmdServerKill := .of_plain cmdServerKill_flg

/-! ### QUIT -/

theorem cmdServerQuit_flg {O S : Id → Prop} {st0 : St} {c c' : Ctx} {sid : Id} {m : IrcMsg} (h : Flg O S st0 c.st)
    (hr : cmdServerQuit c sid m = Res.ok c') : Flg O S st0 c'.st := by
  unfold cmdServerQuit at hr
  obtain ⟨s, hs, hr⟩ := Res.bind_eq_ok.1 hr
  split at hr
  · obtain ⟨c1, hd, hr⟩ := Res.bind_eq_ok.1 hr
    dsimp only at hr
    refine Flg.foldlM ?_ _ (h.deleteSession hd) hr
    intro c2 tid c3 hP hstep
    obtain ⟨t, ht, hstep⟩ := Res.bind_eq_ok.1 hstep
    obtain ⟨rc, _, hstep⟩ := Res.bind_eq_ok.1 hstep
    exact Flg.deleteSession (c := emit _ _ _) hP hstep
  · split at hr
    · cases hr; exact h
    · obtain ⟨rc, _, hr⟩ := Res.bind_eq_ok.1 hr
      exact Flg.deleteSession (c := emit _ _ _) h hr

theorem cmdServerQuit_flgp : FlgPres cmdServerQuit := .of_plain cmdServerQuit_flg

/-! ### SERVER (a client command: the session becomes a services link) -/

/-- SERVER: the actor's `server` flag is turned on only if the stored PASS string is
`services=<configured services password>`; nothing else is touched -/
theorem cmdServer_flg {O S : Id → Prop} {st0 : St} {c c' : Ctx} {sid : Id} {m : IrcMsg} (h : Flg O S st0 c.st)
    (hS : ∀ s, AMap.get c.st.sessions sid = some s → servicesAuth c.st.config s.pass = true → S sid)
    (hr : cmdServer c sid m = Res.ok c') : Flg O S st0 c'.st := by
  rw [cmdServer_eq] at hr
  obtain ⟨s, hs, hr⟩ := Res.bind_eq_ok.1 hr
  rw [getS_eq_ok] at hs
  split at hr
  · cases hr; exact h.sendUser _ _
  · rename_i hauth
    obtain ⟨p0, _, hr⟩ := Res.bind_eq_ok.1 hr
    obtain ⟨c1, hm, hr⟩ := Res.bind_eq_ok.1 hr
    dsimp only at hr
    have he := (Srv.Emits.sendSvc _ _).trans
      (foldlM_emits _ _ (fun _ _ _ _ h => serverBurstNick_emits h) _ _ hr)
    rw [he.st]
    have hyes : servicesAuth c.st.config s.pass = true := by
      unfold servicesAuth
      simpa using hauth
    have n1 : Flg O S st0 c1.st :=
      h.modS_gen hm (fun _ => rfl) (fun _ _ ho => Or.inl ho) (fun _ _ _ => Or.inr (hS s hs hyes))
    exact n1.congr rfl rfl rfl

end Robust.Irc
