import Robust.Irc.Proofs.Entry
import Robust.Irc.Proofs.FrmClient
import Robust.Irc.Proofs.FrmSrv
/-!
Entry-level lift of the frame relation `Frm` (`FrmBase.lean`): every handler of the table keeps
the marker part (`handler_frmM`), every handler but GLINE keeps the configuration
(`handler_fpres`); hence the stages of `processMessage`, `processMessage` itself and one committed
entry (`applyEntry`), per entry type.
-/
namespace Robust.Irc
open Robust AMap

/-! ## every handler of the table -/

theorem handler_fpres {fname : String} {h : Handler} (hh : handlerByName fname = some h)
    (hg : fname ≠ "cmdGline") : FrmPres h := by
  unfold handlerByName at hh
  split at hh
  · cases hh; exact .of_plain cmdAway_frm
  · cases hh; exact cmdServiceAlias_fpres
  · exact absurd rfl hg
  · cases hh; exact .of_plain cmdInvite_frm
  · cases hh; exact cmdIson_fpres
  · cases hh; exact .of_plain cmdJoin_frm
  · cases hh; exact .of_plain cmdKick_frm
  · cases hh; exact .of_plain cmdKill_frm
  · cases hh; exact cmdKnock_fpres
  · cases hh; exact cmdList_fpres
  · cases hh; exact .of_plain cmdMode_frm
  · cases hh; exact .of_plain cmdMotd_frm
  · cases hh; exact cmdNames_fpres
  · cases hh; exact cmdNick_fpres
  · cases hh; exact .of_plain cmdOper_frm
  · cases hh; exact .of_plain cmdPart_frm
  · cases hh; exact .of_plain cmdPass_frm
  · cases hh; exact cmdPing_fpres
  · cases hh; exact cmdPrivmsg_fpres
  · cases hh; exact .of_plain cmdQuit_frm
  · cases hh; exact cmdServer_fpres
  · cases hh; exact .of_plain cmdTopic_frm
  · cases hh; exact .of_plain cmdUser_frm
  · cases hh; exact cmdUserhost_fpres
  · cases hh; exact cmdWho_fpres
  · cases hh; exact cmdWhois_fpres
  · cases hh; exact cmdServerInvite_fpres
  · cases hh; exact cmdServerJoin_fpres
  · cases hh; exact cmdServerKick_fpres
  · cases hh; exact cmdServerKill_fpres
  · cases hh; exact cmdServerMode_fpres
  · cases hh; exact cmdServerNick_fpres
  · cases hh; exact cmdServerPrivmsg_fpres
  · cases hh; exact cmdServerPart_fpres
  · cases hh; exact cmdServerQuit_fpres
  · cases hh; exact cmdServerSvshold_fpres
  · cases hh; exact cmdServerSvsjoin_fpres
  · cases hh; exact cmdServerSvsmode_fpres
  · cases hh; exact cmdServerSvsnick_fpres
  · cases hh; exact cmdServerSvspart_fpres
  · cases hh; exact cmdServerTopic_fpres
  · cases hh

theorem handler_frmM {fname : String} {h : Handler} (hh : handlerByName fname = some h) : FrmMPres h := by
  by_cases hg : fname = "cmdGline"
  · subst hg
    have : handlerByName "cmdGline" = some cmdGline := rfl
    rw [this] at hh; cases hh
    exact cmdGline_frmM
  · exact (handler_fpres hh hg).frmM

/-- the ban a GLINE adds: the actor is an IRC operator, the target is the session indexed under the
first parameter, its address is known, and `banned[address] := trailing` -/
def GlineBan (c c' : Ctx) (sid : Id) (m : IrcMsg) : Prop :=
  ∃ s p0 tid t, AMap.get c.st.sessions sid = some s ∧ s.operator = true ∧ param m 0 = .ok p0 ∧
    AMap.get c.st.nicks (nickToLower p0) = some tid ∧ AMap.get c.st.sessions tid = some t ∧
    t.remoteAddr ≠ "" ∧
    c'.st.config = { c.st.config with banned := AMap.set c.st.config.banned t.remoteAddr m.trailing }

theorem gline_key {key fname : String} {mp : Nat} (h : lookupCommand key = some (fname, mp))
    (hf : fname = "cmdGline") : key = "GLINE" := by
  have hm := lookupCommand_mem h
  have hall : ∀ e ∈ Gen.Commands.commands, e.2.1 = "cmdGline" → e.1 = "GLINE" := by decide
  exact hall _ hm hf

/-! ## the stages of `processMessage` -/

theorem dispatchStage_frm {c c' : Ctx} {sid : Id} {s : Session} {m : IrcMsg} {command : String}
    (h0 : sid.reply = 0) (hw : SessWf c.st) (hs : AMap.get c.st.sessions sid = some s)
    (hr : dispatchStage c s m command = .ok c') :
    FrmM c.st c'.st ∧ (c'.st.config = c.st.config ∨ (command = "GLINE" ∧ GlineBan c c' sid m)) := by
  have hid : s.id = sid := hw.ids sid s hs
  unfold dispatchStage at hr
  rw [hid] at hr
  split at hr
  · cases hr; exact ⟨(Frm.refl hw).toFrmM, Or.inl rfl⟩
  · rename_i fname mp hl
    split at hr
    · cases hr; exact ⟨(Frm.refl hw).toFrmM, Or.inl rfl⟩
    · split at hr
      · cases hr
      · rename_i h hh
        by_cases hg : fname = "cmdGline"
        · subst hg
          have : handlerByName "cmdGline" = some cmdGline := rfl
          rw [this] at hh; cases hh
          obtain ⟨fm, hc⟩ := cmdGline_spec hw hr
          refine ⟨fm, ?_⟩
          rcases hc with hc | hc
          · exact Or.inl hc
          · refine Or.inr ⟨?_, hc⟩
            have hk := gline_key hl rfl
            cases hsv : s.server with
            | false =>
              simpa [hsv] using hk
            | true =>
              rw [hsv] at hk
              simp only [if_true] at hk
              have h1 := startsLowerS_server command
              rw [hk] at h1
              exact absurd h1 (by decide)
        · have f := handler_fpres hh hg c.st c sid m c' h0 (Frm.refl hw) hr
          exact ⟨f.toFrmM, Or.inl f.config⟩

theorem gateStage_frm {c c' : Ctx} {e : Entry} {m : IrcMsg} {command : String}
    (h0 : e.session.reply = 0) (hw : SessWf c.st) (hr : gateStage c e m command = .ok c') :
    FrmM c.st c'.st ∧ (c'.st.config = c.st.config ∨ (command = "GLINE" ∧ GlineBan c c' e.session m)) := by
  unfold gateStage at hr
  obtain ⟨s, hs, hr⟩ := Res.bind_eq_ok.1 hr
  rw [getS_eq_ok] at hs
  split at hr
  · split at hr
    · have f := Frm.deleteSession (c := sendUser (sendUser c _ _) _ _) (st0 := c.st) (Frm.refl hw) hr
      exact ⟨f.toFrmM, Or.inl f.config⟩
    · cases hr; exact ⟨(Frm.refl hw).toFrmM, Or.inl rfl⟩
  · exact dispatchStage_frm h0 hw hs hr

/-- the address stage: one `modS` that only changes `remoteAddr`, then possibly `sendUser` and
`deleteSession` -/
theorem addrStage_frm {c c1 : Ctx} {e : Entry} {s : Session} {b : Bool} (hw : SessWf c.st)
    (hr : addrStage c e s = .ok (c1, b)) : Frm c.st c1.st := by
  have hpi := Frm.refl hw
  unfold addrStage at hr
  split at hr
  · obtain ⟨c0, hm, hr⟩ := Res.bind_eq_ok.1 hr
    have p0 : Frm c.st c0.st := hpi.modS_keep hm (fun _ => ⟨rfl, rfl⟩)
    split at hr
    · split at hr
      · obtain ⟨c2, hd, hr⟩ := Res.bind_eq_ok.1 hr
        cases hr
        exact Frm.deleteSession (c := sendUser c0 _ _) (p0.sendUser _ _) hd
      · cases hr; exact p0
    · cases hr; exact p0
  · cases hr; exact hpi

/-- when the address stage lets the message through, the acting session is the old one up to
`remoteAddr` -/
theorem addrStage_actor {c c1 : Ctx} {e : Entry} {s : Session}
    (hs : AMap.get c.st.sessions e.session = some s) (hid : s.id = e.session)
    (hr : addrStage c e s = .ok (c1, false)) :
    ∃ a, AMap.get c1.st.sessions e.session = some { s with remoteAddr := a } ∧
      c1.st.nicks = c.st.nicks ∧ c1.st.channels = c.st.channels := by
  unfold addrStage at hr
  rw [hid] at hr
  split at hr
  · obtain ⟨c0, hm, hr⟩ := Res.bind_eq_ok.1 hr
    have hs0 := modS_get_self (f := fun s => { s with remoteAddr := e.remoteAddr }) hs hid hm
    obtain ⟨t, _, e0⟩ := modS_eq_ok.1 hm
    have hn0 : c0.st.nicks = c.st.nicks := by rw [e0]; rfl
    have hc0 : c0.st.channels = c.st.channels := by rw [e0]; rfl
    split at hr
    · split at hr
      · obtain ⟨c2, hd, hr⟩ := Res.bind_eq_ok.1 hr
        cases hr
      · cases hr; exact ⟨_, hs0, hn0, hc0⟩
    · cases hr; exact ⟨_, hs0, hn0, hc0⟩
  · cases hr; exact ⟨s.remoteAddr, hs, rfl, rfl⟩

/-- what `ProcessMessage` may do: the marker part of the frame, and the configuration is kept
unless the line is a GLINE of an IRC operator, which adds one ban -/
theorem processMessage_frm {c c' : Ctx} {e : Entry} {im : Option IrcMsg}
    (h0 : e.session.reply = 0) (hw : SessWf c.st) (hr : processMessage c e im = .ok c') :
    FrmM c.st c'.st ∧
    (c'.st.config = c.st.config ∨
      ∃ m s addr reason, im = some m ∧ toUpper m.command = "GLINE" ∧
        AMap.get c.st.sessions e.session = some s ∧ s.operator = true ∧
        c'.st.config = { c.st.config with banned := AMap.set c.st.config.banned addr reason }) := by
  rw [processMessage_eq] at hr
  obtain ⟨s, hs, hr⟩ := Res.bind_eq_ok.1 hr
  rw [getS_eq_ok] at hs
  cases im with
  | none => cases hr; exact ⟨(Frm.refl hw).toFrmM, Or.inl rfl⟩
  | some m =>
    dsimp only at hr
    obtain ⟨⟨c1, b⟩, h1, hr⟩ := Res.bind_eq_ok.1 hr
    have f1 : Frm c.st c1.st := addrStage_frm hw h1
    cases b with
    | true => cases hr; exact ⟨f1.toFrmM, Or.inl f1.config⟩
    | false =>
      simp only [Bool.false_eq_true, ↓reduceIte] at hr
      obtain ⟨fm, hc⟩ := gateStage_frm h0 f1.wf hr
      refine ⟨f1.toFrmM.trans fm, ?_⟩
      rcases hc with hc | ⟨hcmd, s1, p0, tid, t, hs1, hop, _, _, _, _, hcfg⟩
      · exact Or.inl (hc.trans f1.config)
      · obtain ⟨a, ha, _, _⟩ := addrStage_actor hs (hw.ids _ s hs) h1
        rw [ha] at hs1; cases hs1
        exact Or.inr ⟨m, s, t.remoteAddr, m.trailing, rfl, hcmd, hs, hop, by rw [hcfg, f1.config]⟩

/-! ## the two bookkeeping steps around `processMessage` -/

/-- `UpdateLastClientMessageID` on a stored session: the marker becomes the entry's id, nothing
else of the frame changes -/
theorem updateLast_spec {st st1 : St} {e : Entry} (hu : updateLastClientMessageID st e = some st1) :
    (∃ s s1, AMap.get st.sessions e.session = some s ∧ AMap.get st1.sessions e.session = some s1 ∧
      s1.lastClientMessageId = e.cmid ∧ s1.id = s.id ∧ s1.nick = s.nick ∧ s1.server = s.server ∧
      s1.operator = s.operator ∧ s1.loggedIn = s.loggedIn ∧ s1.deleted = s.deleted) ∧
    (∀ id, id ≠ e.session → AMap.get st1.sessions id = AMap.get st.sessions id) ∧
    AMap.keys st1.sessions = AMap.keys st.sessions ∧
    st1.config = st.config ∧ st1.lastProcessed = st.lastProcessed ∧ st1.nicks = st.nicks ∧
    st1.channels = st.channels := by
  unfold updateLastClientMessageID at hu
  cases hg : AMap.get st.sessions e.session with
  | none => simp [hg] at hu
  | some s =>
    simp only [hg, Option.some.injEq] at hu
    subst hu
    refine ⟨⟨s, _, rfl, AMap.get_set_same _ _ _, rfl, rfl, rfl, rfl, rfl, rfl, rfl⟩, ?_, ?_, rfl, rfl, rfl, rfl⟩
    · intro id hne
      exact AMap.get_set_other _ hne
    · exact AMap.keys_set_of_mem _ (AMap.mem_keys_of_get hg)

theorem updateLast_none {st : St} {e : Entry} (hu : updateLastClientMessageID st e = none) :
    AMap.get st.sessions e.session = none := by
  unfold updateLastClientMessageID at hu
  cases hg : AMap.get st.sessions e.session with
  | none => rfl
  | some s => simp [hg] at hu

theorem SessWf.updateLast {st st1 : St} {e : Entry} (hw : SessWf st)
    (hu : updateLastClientMessageID st e = some st1) : SessWf st1 := by
  obtain ⟨⟨s, s1, hs, hs1, _, hid, _⟩, hoth, hk, _⟩ := updateLast_spec hu
  refine ⟨?_, by rw [hk]; exact hw.nodup⟩
  intro id t hg
  by_cases hid' : id = e.session
  · subst hid'
    rw [hs1] at hg; cases hg
    rw [hid]; exact hw.ids _ s hs
  · rw [hoth id hid'] at hg
    exact hw.ids id t hg

/-- `MaybeDeleteSession` only removes sessions -/
theorem maybeDeleteSession_sub {st : St} (sid : Id) (hnd : (AMap.keys st.sessions).Nodup) {id : Id} {s : Session}
    (hg : AMap.get (maybeDeleteSession st sid).sessions id = some s) : AMap.get st.sessions id = some s := by
  unfold maybeDeleteSession at hg
  cases ha : AMap.get st.sessions sid with
  | none => simpa [ha] using hg
  | some a =>
    simp only [ha] at hg
    have h1 : ∀ b : Bool, ∀ id s,
        AMap.get (if b = true then { st with sessions := st.sessions.filter (fun e => !e.2.deleted) } else st).sessions id = some s →
        AMap.get st.sessions id = some s := by
      intro b id s hg
      cases b with
      | false => exact hg
      | true => exact ((AMap.get_filter _ hnd).1 hg).1
    generalize (a.server || a.operator) = b at hg
    have h1b := h1 b
    generalize (if b = true then { st with sessions := st.sessions.filter (fun e => !e.2.deleted) } else st) = st1 at h1b hg
    cases hd : a.deleted with
    | false =>
      rw [hd] at hg
      exact h1b id s (by simpa using hg)
    | true =>
      rw [hd] at hg
      simp only [if_true] at hg
      exact h1b id s (AMap.get_of_get_erase hg).2

theorem maybeDeleteSession_other (st : St) (sid : Id) :
    (maybeDeleteSession st sid).config = st.config ∧ (maybeDeleteSession st sid).lastProcessed = st.lastProcessed ∧
    (maybeDeleteSession st sid).nicks = st.nicks ∧ (maybeDeleteSession st sid).channels = st.channels := by
  unfold maybeDeleteSession
  cases AMap.get st.sessions sid with
  | none => exact ⟨rfl, rfl, rfl, rfl⟩
  | some a =>
    simp only
    cases (a.server || a.operator) <;> cases a.deleted <;> exact ⟨rfl, rfl, rfl, rfl⟩

theorem maybeDeleteSession_nodup {st : St} (sid : Id) (hnd : (AMap.keys st.sessions).Nodup) :
    (AMap.keys (maybeDeleteSession st sid).sessions).Nodup := by
  unfold maybeDeleteSession
  cases AMap.get st.sessions sid with
  | none => exact hnd
  | some a =>
    simp only
    cases (a.server || a.operator) <;> cases a.deleted <;>
      simp only [Bool.false_eq_true, if_false, if_true] <;>
      first
        | exact hnd
        | exact AMap.nodup_keys_erase _ hnd
        | exact AMap.nodup_keys_filter _ hnd
        | exact AMap.nodup_keys_erase _ (AMap.nodup_keys_filter _ hnd)

theorem SessWf.maybeDeleteSession {st : St} (hw : SessWf st) (sid : Id) : SessWf (maybeDeleteSession st sid) :=
  ⟨fun id s hg => hw.ids id s (maybeDeleteSession_sub sid hw.nodup hg), maybeDeleteSession_nodup sid hw.nodup⟩

/-! ## one committed entry, by type -/

theorem applyEntry_death {st st' : St} {e : Entry} {out : List Out} (ht : e.type = 5)
    (hr : applyEntry st e = .ok (st', out)) : st' = (updateLastClientMessageID st e).getD st ∧ out = [] := by
  unfold applyEntry at hr
  rw [if_pos ht] at hr
  cases hr; exact ⟨rfl, rfl⟩

theorem applyEntry_create {st st' : St} {e : Entry} {out : List Out} (ht : e.type = 0)
    (hr : applyEntry st e = .ok (st', out)) :
    st' = (createSession st ⟨e.id, 0⟩ e.data e.timestamp).getD st ∧ out = [] := by
  unfold applyEntry at hr
  rw [if_neg (by rw [ht]; decide), if_pos ht] at hr
  cases hr; exact ⟨rfl, rfl⟩

theorem applyEntry_delete {st st' : St} {e : Entry} {out : List Out} (ht : e.type = 1)
    (hr : applyEntry st e = .ok (st', out)) :
    (AMap.get st.sessions e.session = none ∧ st' = st ∧ out = []) ∨
    ∃ s c, AMap.get st.sessions e.session = some s ∧
      processMessage { st := st, msgid := e.id } e (parseMessage ("QUIT :" ++ e.data)) = .ok c ∧
      st' = maybeDeleteSession { c.st with lastProcessed := ⟨e.id, 0⟩ } e.session ∧ out = c.out := by
  unfold applyEntry at hr
  rw [if_neg (by rw [ht]; decide), if_neg (by rw [ht]; decide), if_pos ht] at hr
  split at hr
  · rename_i hn
    cases hr; exact Or.inl ⟨hn, rfl, rfl⟩
  · rename_i s hs
    obtain ⟨c, hpm, hr⟩ := Res.bind_eq_ok.1 hr
    cases hr
    exact Or.inr ⟨s, c, hs, hpm, rfl, rfl⟩

theorem applyEntry_client {st st' : St} {e : Entry} {out : List Out} (ht : e.type = 2)
    (hr : applyEntry st e = .ok (st', out)) :
    (AMap.get st.sessions e.session = none ∧ st' = st ∧ out = []) ∨
    ∃ st1 c, updateLastClientMessageID st e = some st1 ∧
      processMessage { st := st1, msgid := e.id } e (parseMessage e.data) = .ok c ∧
      st' = maybeDeleteSession { c.st with lastProcessed := ⟨e.session.id, 0⟩ } e.session ∧ out = c.out := by
  unfold applyEntry at hr
  rw [if_neg (by rw [ht]; decide), if_neg (by rw [ht]; decide), if_neg (by rw [ht]; decide), if_pos ht] at hr
  split at hr
  · rename_i hn
    cases hr; exact Or.inl ⟨updateLast_none hn, rfl, rfl⟩
  · rename_i st1 hu
    obtain ⟨c, hpm, hr⟩ := Res.bind_eq_ok.1 hr
    cases hr
    exact Or.inr ⟨st1, c, hu, hpm, rfl, rfl⟩

theorem applyEntry_config {st st' : St} {e : Entry} {out : List Out} (ht : e.type = 6)
    (hr : applyEntry st e = .ok (st', out)) :
    st' = (match e.cfg with
      | none => st
      | some cfg => { st with config := { cfg with revision := e.rev } }) ∧ out = [] := by
  unfold applyEntry at hr
  rw [if_neg (by rw [ht]; decide), if_neg (by rw [ht]; decide), if_neg (by rw [ht]; decide), if_neg (by rw [ht]; decide), if_pos ht] at hr
  cases hc : e.cfg with
  | none => rw [hc] at hr; cases hr; exact ⟨rfl, rfl⟩
  | some cfg => rw [hc] at hr; cases hr; exact ⟨rfl, rfl⟩

theorem applyEntry_other {st st' : St} {e : Entry} {out : List Out}
    (ht : e.type ≠ 0 ∧ e.type ≠ 1 ∧ e.type ≠ 2 ∧ e.type ≠ 5 ∧ e.type ≠ 6)
    (hr : applyEntry st e = .ok (st', out)) : st' = st ∧ out = [] := by
  unfold applyEntry at hr
  rw [if_neg ht.2.2.2.1, if_neg ht.1, if_neg ht.2.1, if_neg ht.2.2.1, if_neg ht.2.2.2.2] at hr
  cases hr; exact ⟨rfl, rfl⟩

/-- `SessWf` is kept by every entry -/
theorem SessWf.applyEntry {st st' : St} {e : Entry} {out : List Out} (hw : SessWf st)
    (he : (e.type = 1 ∨ e.type = 2) → e.session.reply = 0)
    (hr : applyEntry st e = .ok (st', out)) : SessWf st' := by
  by_cases h5 : e.type = 5
  · obtain ⟨rfl, _⟩ := applyEntry_death h5 hr
    cases hu : updateLastClientMessageID st e with
    | none => exact hw
    | some st1 => exact hw.updateLast hu
  by_cases h0 : e.type = 0
  · obtain ⟨rfl, _⟩ := applyEntry_create h0 hr
    cases hcs : createSession st ⟨e.id, 0⟩ e.data e.timestamp with
    | none => exact hw
    | some st1 =>
      simp only [Option.getD_some]
      rw [createSession_eq hcs]
      refine ⟨?_, AMap.nodup_keys_set _ _ hw.nodup⟩
      intro id s hg
      simp only at hg
      rw [AMap.get_set] at hg
      split at hg
      · rename_i e1; cases hg; exact e1.symm
      · exact hw.ids id s hg
  by_cases h1 : e.type = 1
  · rcases applyEntry_delete h1 hr with ⟨_, rfl, _⟩ | ⟨s, c, hs, hpm, rfl, _⟩
    · exact hw
    · have f := (processMessage_frm (he (Or.inl h1)) hw hpm).1
      refine SessWf.maybeDeleteSession ?_ _
      exact f.wf.congr rfl
  by_cases h2 : e.type = 2
  · rcases applyEntry_client h2 hr with ⟨_, rfl, _⟩ | ⟨st1, c, hu, hpm, rfl, _⟩
    · exact hw
    · have f := (processMessage_frm (c := { st := st1, msgid := e.id }) (he (Or.inr h2)) (hw.updateLast hu) hpm).1
      refine SessWf.maybeDeleteSession ?_ _
      exact f.wf.congr rfl
  by_cases h6 : e.type = 6
  · obtain ⟨rfl, _⟩ := applyEntry_config h6 hr
    cases e.cfg with
    | none => exact hw
    | some cfg => exact hw.congr rfl
  · obtain ⟨rfl, _⟩ := applyEntry_other ⟨h0, h1, h2, h5, h6⟩ hr
    exact hw

end Robust.Irc
