import Robust.Irc.Proofs.PrivHistE
/-!
`NICK` and the chanop flags: the flag moves with the member entry from the old key to the new one
(`cmdNick_ops_partial`); nothing else gains a flag.
-/
namespace Robust.Irc
open Robust AMap

/-- every flag in `c` was there in `c0`, except that the key `new` may have inherited that of `old` -/
def NickLe (lc new old : String) (c0 c : Ctx) : Prop :=
  ∀ n, opFlagC c.st.channels lc n = true →
    opFlagC c0.st.channels lc n = true ∨ (n = new ∧ opFlagC c0.st.channels lc old = true)

theorem NickLe.of_opsLe {lc new old : String} {c0 c : Ctx} (h : OpsLe lc c0 c) : NickLe lc new old c0 c :=
  fun n hn => Or.inl (h n hn)

theorem NickLe.then {lc new old : String} {c0 c c' : Ctx} (h : NickLe lc new old c0 c) (h2 : OpsLe lc c c') :
    NickLe lc new old c0 c' := fun n hn => h n (h2 n hn)

theorem renameCtx_nickLe (lc : String) (c : Ctx) (tid : Id) (lcnew old : String) (b : Bool) :
    NickLe lc lcnew old c (renameCtx c tid lcnew old b) := by
  unfold renameCtx
  cases b with
  | false => exact fun n hn => Or.inl hn
  | true =>
    intro n hn
    simp only [↓reduceIte] at hn
    unfold opFlagC at hn ⊢
    rw [AMap.get_map_val'] at hn
    cases hg : AMap.get c.st.channels lc with
    | none => rw [hg] at hn; cases hn
    | some ch =>
      rw [hg] at hn
      simp only [Option.map_some] at hn
      show memFlag ch n = true ∨ n = lcnew ∧ memFlag ch old = true
      cases ho : AMap.get ch.nicks old with
      | none =>
        simp only [ho] at hn
        rw [memFlag_erase] at hn
        by_cases hno : n = old
        · rw [if_pos hno] at hn; cases hn
        · rw [if_neg hno] at hn; exact Or.inl hn
      | some modes =>
        simp only [ho] at hn
        have h2 : (if n = old then false else
            memFlag { ch with nicks := AMap.set ch.nicks lcnew modes } n) = true :=
          (memFlag_erase { ch with nicks := AMap.set ch.nicks lcnew modes } old n).symm.trans hn
        by_cases hno : n = old
        · rw [if_pos hno] at h2; cases h2
        · rw [if_neg hno, memFlag_set] at h2
          by_cases hnew : n = lcnew
          · rw [if_pos hnew] at h2
            refine Or.inr ⟨hnew, ?_⟩
            unfold memFlag
            rw [ho]
            exact h2
          · rw [if_neg hnew] at h2
            exact Or.inl h2

theorem cmdNickTail_nickLe {c c' : Ctx} {sid : Id} {m : IrcMsg} {s : Session} {nick : String} {held : Option SvsHold}
    {lc : String} (hr : cmdNickTail c sid m s nick held = .ok c') :
    NickLe lc (nickToLower nick) (nickToLower s.nick) c c' := by
  unfold cmdNickTail at hr
  dsimp only at hr
  have o0 : OpsLe lc c (holdCtx c (nickToLower nick) held) :=
    (OpsLe.refl lc c).of_eq (holdCtx_facts c _ held).2.2
  generalize holdCtx c (nickToLower nick) held = c0 at hr o0
  split at hr
  · cases hr; exact NickLe.of_opsLe o0
  generalize (nickToLower s.nick != "" &&
      !(s.loggedIn && nickToLower nick == nickToLower (if s.loggedIn = true then s.nick else "*"))) = b at hr
  obtain ⟨c1, h1, hr⟩ := Res.bind_eq_ok.1 hr
  obtain ⟨c2, h2, hr⟩ := Res.bind_eq_ok.1 hr
  have o1 : OpsLe lc c c1 := o0.modS h1
  have nr : NickLe lc (nickToLower nick) (nickToLower s.nick) c
      (renameCtx c1 sid (nickToLower nick) (nickToLower s.nick) b) := by
    intro n hn
    rcases renameCtx_nickLe lc c1 sid _ _ _ n hn with h | ⟨h, h'⟩
    · exact Or.inl (o1 n h)
    · exact Or.inr ⟨h, o1 _ h'⟩
  generalize renameCtx c1 sid (nickToLower nick) (nickToLower s.nick) b = cr at h2 nr
  have n2 : NickLe lc (nickToLower nick) (nickToLower s.nick) c c2 := nr.then ((OpsLe.refl lc cr).modS h2)
  split at hr
  · obtain ⟨s2, _, hr⟩ := Res.bind_eq_ok.1 hr
    obtain ⟨rc, _, hr⟩ := Res.bind_eq_ok.1 hr
    cases hr
    exact n2.then (by opsle_tac)
  · exact n2.then (maybeLogin_ops' (OpsLe.refl lc c2) hr)

/-- NICK: a member key of `lc` that carries the chanop flag afterwards carried it before, or it is
the actor's new key and the actor's old key carried it -/
theorem cmdNick_ops_partial {c c' : Ctx} {sid : Id} {m : IrcMsg} {s : Session} {lc : String}
    (hs : AMap.get c.st.sessions sid = some s) (hr : cmdNick c sid m = .ok c') :
    NickLe lc (nickToLower (m.params.head?.getD "")) (nickToLower s.nick) c c' := by
  rw [cmdNick_eq, getS_of_get hs] at hr
  simp only [Res.ok_bind] at hr
  generalize m.params.head?.getD "" = nick at hr
  split at hr
  · cases hr; exact NickLe.of_opsLe (by opsle_tac)
  generalize (if s.loggedIn = true then s.nick else "*") = dest at hr
  split at hr
  · cases hr; exact NickLe.of_opsLe (by opsle_tac)
  split at hr
  · cases hr; exact NickLe.of_opsLe (by opsle_tac)
  split at hr
  · split at hr
    · cases hr; exact NickLe.of_opsLe (by opsle_tac)
    · exact cmdNickTail_nickLe hr
  · exact cmdNickTail_nickLe hr

/-- in particular: a non-operator of `lc` does not become one by changing its nick -/
theorem cmdNick_no_gain {c c' : Ctx} {sid : Id} {m : IrcMsg} {s : Session} {lc : String}
    (hs : AMap.get c.st.sessions sid = some s) (hnop : chanOpOf c.st s.nick lc = false)
    (hr : cmdNick c sid m = .ok c') : OpsLe lc c c' := by
  intro n hn
  rcases cmdNick_ops_partial (lc := lc) hs hr n hn with h | ⟨_, h⟩
  · exact h
  · rw [chanOpOf_eq] at hnop
    rw [hnop] at h
    cases h

end Robust.Irc
