import Robust.Irc.Proofs.PermEquiv
/-!
Order-independence, part 4: congruence of the primitives of `Send.lean` / `Cmds.lean`
(`getS`, `putS`, `modS`, `getChan`, `putChan`, `emit`, `sendUser`, `sendSvc`, `nickId`,
`rcChannel`, `rcChannelButOne`, `rcCommonChannels`, `rcAllUsers`, `rcServices`,
`maybeDeleteChannel`, `leaveChannel`) with respect to the working relation `CEq`.
-/
set_option linter.unusedSectionVars false
set_option linter.unusedVariables false

namespace Robust.Irc
open Robust

/-! ## scalars read from the context -/

theorem srv_congr {c c' : Ctx} (h : CEq c c') (cmd : String) (ps : List String) : srv c' cmd ps = srv c cmd ps := by
  unfold srv serverPrefix
  rw [h.st.serverName]

theorem serverPrefix_congr {c c' : Ctx} (h : CEq c c') : serverPrefix c'.st = serverPrefix c.st := by
  unfold serverPrefix
  rw [h.st.serverName]

/-! ## sessions -/

theorem getS_congr {c c' : Ctx} (h : CEq c c') (sid : Id) : RRel SessEq (getS c sid) (getS c' sid) := by
  unfold getS
  have hk := h.st.sessions.rel sid
  generalize AMap.get c.st.sessions sid = o at hk
  generalize AMap.get c'.st.sessions sid = o' at hk
  cases hk with
  | nn => exact .panic
  | ss hr => exact .ok hr

theorem getSess_congr {c c' : Ctx} (h : CEq c c') (sid : Id) :
    ORel SessEq (AMap.get c.st.sessions sid) (AMap.get c'.st.sessions sid) := h.st.sessions.rel sid

theorem StEq.withSessions {st st' : St} (h : StEq st st') {m m' : AMap Id Session} (hm : MEq SessEq m m') :
    StEq { st with sessions := m } { st' with sessions := m' } :=
  ⟨hm, h.nicks, h.channels, h.svsholds, h.serverSessions, h.lastProcessed, h.serverName, h.config, h.ckey⟩

theorem StEq.withNicks {st st' : St} (h : StEq st st') {m m' : AMap String Id} (hm : MEq (fun a b => a = b) m m') :
    StEq { st with nicks := m } { st' with nicks := m' } :=
  ⟨h.sessions, hm, h.channels, h.svsholds, h.serverSessions, h.lastProcessed, h.serverName, h.config, h.ckey⟩

theorem StEq.withSvsholds {st st' : St} (h : StEq st st') {m m' : AMap String SvsHold}
    (hm : MEq (fun a b => a = b) m m') : StEq { st with svsholds := m } { st' with svsholds := m' } :=
  ⟨h.sessions, h.nicks, h.channels, hm, h.serverSessions, h.lastProcessed, h.serverName, h.config, h.ckey⟩

theorem StEq.withServerSessions {st st' : St} (h : StEq st st') {l l' : List Nat} (hl : l.Perm l') :
    StEq { st with serverSessions := l } { st' with serverSessions := l' } :=
  ⟨h.sessions, h.nicks, h.channels, h.svsholds, hl, h.lastProcessed, h.serverName, h.config, h.ckey⟩

theorem StEq.withConfig {st st' : St} (h : StEq st st') (cf : Config) :
    StEq { st with config := cf } { st' with config := cf } :=
  ⟨h.sessions, h.nicks, h.channels, h.svsholds, h.serverSessions, h.lastProcessed, h.serverName, rfl, h.ckey⟩

theorem StEq.withLastProcessed {st st' : St} (h : StEq st st') (x : Id) :
    StEq { st with lastProcessed := x } { st' with lastProcessed := x } :=
  ⟨h.sessions, h.nicks, h.channels, h.svsholds, h.serverSessions, rfl, h.serverName, h.config, h.ckey⟩

theorem StEq.withChannels {st st' : St} (h : StEq st st') {m m' : AMap String Channel} (hm : MEq ChanEq m m')
    (hk : ∀ lc ch, AMap.get m lc = some ch → chanToLower ch.name = lc) :
    StEq { st with channels := m } { st' with channels := m' } :=
  ⟨h.sessions, h.nicks, hm, h.svsholds, h.serverSessions, h.lastProcessed, h.serverName, h.config, hk⟩

theorem putS_congr {c c' : Ctx} (h : CEq c c') {s s' : Session} (hs : SessEq s s') : CEq (putS c s) (putS c' s') := by
  unfold putS
  refine h.withSt (h.st.withSessions ?_)
  rw [hs.id]
  exact h.st.sessions.set s.id hs

theorem modS_congr {c c' : Ctx} (h : CEq c c') (sid : Id) {f f' : Session → Session}
    (hf : ∀ s s', SessEq s s' → SessEq (f s) (f' s')) : RRel CEq (modS c sid f) (modS c' sid f') := by
  unfold modS
  exact RRel.bind (getS_congr h sid) (fun s s' hs => .ok (putS_congr h (hf s s' hs)))

/-- the usual case: the same scalar update on both sides -/
theorem modS_congr_upd {c c' : Ctx} (h : CEq c c') (sid : Id) (f : Session → Session)
    (hs : ∀ t, (f t).scal = (f t.scal).scal) (hc : ∀ t, (f t).channels = t.channels)
    (hi : ∀ t, (f t).invitedTo = t.invitedTo) : RRel CEq (modS c sid f) (modS c' sid f) :=
  modS_congr h sid (fun s s' hss => hss.upd f hs hc hi)

theorem createSession_congr {st st' : St} (h : StEq st st') (id : Id) (auth : String) (ts : Int) :
    ORel StEq (createSession st id auth ts) (createSession st' id auth ts) := by
  unfold createSession
  rw [h.sessions.length_eq, h.config]
  split
  · exact .nn
  · exact .ss ⟨h.sessions.set id (SessEq.refl _), h.nicks, h.channels, h.svsholds, h.serverSessions,
      h.lastProcessed, h.serverName, rfl, h.ckey⟩

/-! ## channels -/

theorem getChan_congr {c c' : Ctx} (h : CEq c c') (lc : String) : ORel ChanEq (getChan c lc) (getChan c' lc) :=
  h.st.channels.rel lc

/-- case analysis on a channel lookup, with the key fact -/
theorem getChan_cases {c c' : Ctx} (h : CEq c c') (lc : String) :
    (getChan c lc = none ∧ getChan c' lc = none) ∨
    ∃ ch ch', getChan c lc = some ch ∧ getChan c' lc = some ch' ∧ ChanEq ch ch' ∧ chanToLower ch.name = lc := by
  rcases (getChan_congr h lc).cases' with h1 | ⟨ch, ch', h1, h2, h3⟩
  · exact Or.inl h1
  · exact Or.inr ⟨ch, ch', h1, h2, h3, h.st.ckey lc ch h1⟩

theorem putChan_congr {c c' : Ctx} (h : CEq c c') (lc : String) {ch ch' : Channel} (hch : ChanEq ch ch')
    (hk : chanToLower ch.name = lc) : CEq (putChan c lc ch) (putChan c' lc ch') := by
  unfold putChan
  refine h.withSt (h.st.withChannels (h.st.channels.set lc hch) ?_)
  intro k x hg
  rw [AMap.get_set] at hg
  split at hg
  · rename_i hkk; cases hg; rw [hkk]; exact hk
  · exact h.st.ckey k x hg

/-! ## output -/

theorem emit_congr {c c' : Ctx} (h : CEq c c') {m m' : IrcMsg} (hm : m' = m) {r r' : List Nat} (hr : r.Perm r') :
    CEq (emit c m r) (emit c' m' r') := by
  subst hm
  unfold emit
  refine ⟨h.st, h.msgid, ?_, ?_⟩
  · show c'.replyid + 1 = c.replyid + 1
    rw [h.replyid]
  · show All2 OutEq (c.out ++ [_]) (c'.out ++ [_])
    refine All2.append h.out (.cons ⟨?_, ?_, rfl, hr⟩ .nil)
    · exact h.msgid
    · show c'.replyid + 1 = c.replyid + 1
      rw [h.replyid]

theorem sendUser_congr {c c' : Ctx} (h : CEq c c') (sid : Id) {m m' : IrcMsg} (hm : m' = m) :
    CEq (sendUser c sid m) (sendUser c' sid m') :=
  emit_congr h hm (List.Perm.refl _)

theorem rcServices_perm {st st' : St} (h : StEq st st') : (rcServices st).Perm (rcServices st') := h.serverSessions

theorem sendSvc_congr {c c' : Ctx} (h : CEq c c') {m m' : IrcMsg} (hm : m' = m) :
    CEq (sendSvc c m) (sendSvc c' m') :=
  emit_congr h hm (rcServices_perm h.st)

theorem rcAllUsers_perm {st st' : St} (h : StEq st st') : (rcAllUsers st).Perm (rcAllUsers st') := by
  unfold rcAllUsers
  exact h.nicks.perm.map _

theorem nickId_congr {st st' : St} (h : StEq st st') (lcnick : String) : nickId st' lcnick = nickId st lcnick := by
  unfold nickId
  rw [h.get_nicks]

theorem nickId_ne_declined (st : St) (n : String) (w : String) : nickId st n ≠ .declined w := by
  unfold nickId
  split <;> intro h <;> cases h

theorem rcChannel_congr {st st' : St} (h : StEq st st') {ch ch' : Channel} (hch : ChanEq ch ch') :
    RRel List.Perm (rcChannel st ch) (rcChannel st' ch') := by
  unfold rcChannel
  have : nickId st' = nickId st := funext (nickId_congr h)
  rw [this]
  exact mapRes_perm hch.keys_perm (fun a _ w => nickId_ne_declined st a w)

theorem mapRes_ne_declined {α β : Type} {f : α → Res β} {l : List α} (h : ∀ a ∈ l, ∀ w, f a ≠ .declined w) :
    ∀ w, mapRes f l ≠ .declined w := by
  induction l with
  | nil => intro w h; cases h
  | cons a t ih =>
    intro w
    rw [mapRes_cons]
    cases hfa : f a with
    | declined w' => exact absurd hfa (h a (List.mem_cons_self ..) w')
    | panic s => intro h; cases h
    | ok b =>
      have := ih (fun x hx => h x (List.mem_cons_of_mem _ hx))
      cases hm : mapRes f t with
      | declined w' => exact absurd hm (this w')
      | panic s => intro h; cases h
      | ok bs => intro h; cases h

theorem rcChannel_ne_declined (st : St) (ch : Channel) (w : String) : rcChannel st ch ≠ .declined w :=
  mapRes_ne_declined (fun a _ w => nickId_ne_declined st a w) w

theorem rcChannelButOne_congr {st st' : St} (h : StEq st st') {ch ch' : Channel} (hch : ChanEq ch ch') (user : Id) :
    RRel List.Perm (rcChannelButOne st ch user) (rcChannelButOne st' ch' user) := by
  unfold rcChannelButOne
  refine RRel.bind (R := PermR (fun a b => a = b)) ?_
    (fun ids ids' hp => .ok ((hp.perm.filter _).map _))
  refine mapRes_perm_rel hch.keys_perm (fun a _ => ?_) (fun a _ w => ?_)
  · rw [h.get_nicks a]
    exact RRel.refl_eq _
  · split <;> intro h <;> cases h

theorem rcCommonChannels_congr {st st' : St} (h : StEq st st') {s s' : Session} (hs : SessEq s s') :
    RRel List.Perm (rcCommonChannels st s) (rcCommonChannels st' s') := by
  unfold rcCommonChannels
  refine RRel.bind (R := PermR List.Perm) ?_ (fun ls ls' hp => .ok hp.flatten)
  refine mapRes_perm_rel hs.channels (fun chn _ => ?_) (fun chn _ w => ?_)
  · have hk := h.channels.rel chn
    generalize AMap.get st.channels chn = o at hk
    generalize AMap.get st'.channels chn = o' at hk
    cases hk with
    | nn => exact .ok (List.Perm.refl _)
    | ss hr => exact rcChannel_congr h hr
  · split
    · exact rcChannel_ne_declined _ _ w
    · intro h; cases h

/-! ## `maybeDeleteChannel`, `leaveChannel` -/

theorem maybeDeleteChannel_congr {c c' : Ctx} (h : CEq c c') (lc : String) :
    CEq (maybeDeleteChannel c lc) (maybeDeleteChannel c' lc) := by
  rcases getChan_cases h lc with ⟨h1, h2⟩ | ⟨ch, ch', h1, h2, hch, hk⟩
  · rw [maybeDeleteChannel_none h1, maybeDeleteChannel_none h2]; exact h
  · by_cases hnil : ch.nicks = []
    · have hnil' : ch'.nicks = [] := hch.nicks.eq_nil_iff.1 hnil
      rw [maybeDeleteChannel_empty h1 hnil, maybeDeleteChannel_empty h2 hnil', hch.name]
      refine h.withSt ⟨?_, h.st.nicks, h.st.channels.erase _, h.st.svsholds, h.st.serverSessions,
        h.st.lastProcessed, h.st.serverName, h.st.config, ?_⟩
      · exact h.st.sessions.mapVal (f := fun e => { e.2 with invitedTo := e.2.invitedTo.filter (· ≠ chanToLower ch.name) })
          (f' := fun e => { e.2 with invitedTo := e.2.invitedTo.filter (· ≠ chanToLower ch.name) })
          (fun k v v' _ _ hr => hr.withInvitedTo (hr.invitedTo.filter _))
      · intro k x hg
        obtain ⟨_, hg0⟩ := AMap.get_of_get_erase hg
        exact h.st.ckey k x hg0
    · have hnil' : ch'.nicks ≠ [] := fun e => hnil (hch.nicks.eq_nil_iff.2 e)
      rw [maybeDeleteChannel_nonempty h1 hnil, maybeDeleteChannel_nonempty h2 hnil']; exact h

theorem leaveChannel_congr {c c' : Ctx} (h : CEq c c') (lc lcn : String) (tid : Id) :
    RRel CEq (leaveChannel c lc lcn tid) (leaveChannel c' lc lcn tid) := by
  unfold leaveChannel
  rcases getChan_cases h lc with ⟨h1, h2⟩ | ⟨ch, ch', h1, h2, hch, hk⟩
  · rw [h1, h2]; exact .panic
  · rw [h1, h2]
    dsimp only
    have h3 : CEq (putChan c lc { ch with nicks := AMap.erase ch.nicks lcn })
        (putChan c' lc { ch' with nicks := AMap.erase ch'.nicks lcn }) :=
      putChan_congr h lc (hch.withNicks (hch.nicks.erase lcn)) hk
    exact modS_congr (maybeDeleteChannel_congr h3 lc) tid
      (fun s s' hs => hs.withChannels (hs.channels.filter _))

end Robust.Irc
