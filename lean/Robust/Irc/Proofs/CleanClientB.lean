import Robust.Irc.Proofs.CleanClientA
import Robust.Irc.Proofs.H1c
import Robust.Irc.Proofs.H1d
/-!
C15: the state-changing client handlers keep `CCtx`: every string they store comes from a clean
message (or from a clean stored string), every line they emit is clean.
-/
namespace Robust.Irc
open Robust AMap
theorem cmdAway_clean {c c' : Ctx} {sid : Id} {m : IrcMsg} (hc : CCtx c) (hm : CleanMsg m)
    (hr : cmdAway c sid m = .ok c') : CCtx c' := by
  have hI := hc.inv
  unfold cmdAway at hr
  cwalk hr

theorem cmdInvite_clean {c c' : Ctx} {sid : Id} {m : IrcMsg} (hc : CCtx c) (hm : CleanMsg m)
    (hr : cmdInvite c sid m = .ok c') : CCtx c' := by
  have hI := hc.inv
  unfold cmdInvite at hr
  cwalk hr

theorem cmdTopic_clean {c c' : Ctx} {sid : Id} {m : IrcMsg} (hc : CCtx c) (hm : CleanMsg m)
    (hr : cmdTopic c sid m = .ok c') : CCtx c' := by
  have hI := hc.inv
  unfold cmdTopic at hr
  cwalk hr

theorem cmdOper_clean {c c' : Ctx} {sid : Id} {m : IrcMsg} (hc : CCtx c) (_hm : CleanMsg m)
    (hr : cmdOper c sid m = .ok c') : CCtx c' := by
  have hI := hc.inv
  unfold cmdOper at hr
  cwalk hr

theorem cmdQuit_clean {c c' : Ctx} {sid : Id} {m : IrcMsg} (hc : CCtx c) (hm : CleanMsg m)
    (hr : cmdQuit c sid m = .ok c') : CCtx c' := by
  have hI := hc.inv
  unfold cmdQuit at hr
  cwalk hr

theorem partOne_clean {c c' : Ctx} {sid : Id} {chn : String} (hc : CCtx c) (hchn : Clean chn)
    (hr : partOne c sid chn = .ok c') : CCtx c' := by
  have hI := hc.inv
  unfold partOne at hr
  cwalk hr

theorem cmdPart_clean {c c' : Ctx} {sid : Id} {m : IrcMsg} (hc : CCtx c) (hm : CleanMsg m)
    (hr : cmdPart c sid m = .ok c') : CCtx c' := by
  unfold cmdPart at hr
  obtain ⟨p0, hp0, hr⟩ := Res.bind_eq_ok.1 hr
  refine CCtx.foldlM ?_ hc hr
  intro c1 ch c2 hch h1 h2
  exact partOne_clean h1 (splitChar_clean ',' (hm.param hp0) ch hch) h2

theorem cmdKick_clean {c c' : Ctx} {sid : Id} {m : IrcMsg} (hc : CCtx c) (hm : CleanMsg m)
    (hr : cmdKick c sid m = .ok c') : CCtx c' := by
  have hI := hc.inv
  unfold cmdKick at hr
  cwalk hr

theorem cmdKill_clean {c c' : Ctx} {sid : Id} {m : IrcMsg} (hc : CCtx c) (hm : CleanMsg m)
    (hr : cmdKill c sid m = .ok c') : CCtx c' := by
  have hI := hc.inv
  unfold cmdKill at hr
  cwalk hr


theorem cmdGline_clean {c c' : Ctx} {sid : Id} {m : IrcMsg} (hc : CCtx c) (hm : CleanMsg m)
    (hr : cmdGline c sid m = .ok c') : CCtx c' := by
  have hI := hc.inv
  unfold cmdGline at hr
  obtain ⟨s, hs, hr⟩ := Res.bind_eq_ok.1 hr
  split at hr
  · cases hr; cctx_tac
  · obtain ⟨p0, hp0, hr⟩ := Res.bind_eq_ok.1 hr
    split at hr
    · cases hr; cctx_tac
    · obtain ⟨t, ht, hr⟩ := Res.bind_eq_ok.1 hr
      split at hr
      · cases hr; cctx_tac
      · dsimp only at hr
        refine cmdKill_clean (hc.setSt ?_) hm hr
        exact ⟨hI.sessions, hI.channels, hI.svsholds, all_set hI.banned hm.trailing, hI.serverName⟩

/-! ### MODE -/

theorem banOne_clean {ch ch' : Channel} {add : Bool} {banmask pattern : String} (h : CleanChan ch)
    (hb : Clean banmask) (hr : banOne ch add banmask pattern = .ok ch') : CleanChan ch' := by
  unfold banOne at hr
  split at hr
  · cases hr
  · split at hr
    · cases hr
      refine ⟨h.name, h.topicNick, h.topic, h.key, ?_⟩
      intro b hb'
      rcases List.mem_append.1 hb' with hb' | hb'
      · exact h.bans b hb'
      · rw [List.mem_singleton] at hb'; subst hb'; exact hb
    · cases hr
      exact ⟨h.name, h.topicNick, h.topic, h.key, fun b hb' => h.bans b (List.mem_filter.1 hb').1⟩

theorem banBoth_clean {ch ch' : Channel} {add : Bool} {banmask pattern patternAddr : String} (h : CleanChan ch)
    (hb : Clean banmask) (hr : banBoth ch add banmask pattern patternAddr = .ok ch') : CleanChan ch' := by
  unfold banBoth at hr
  obtain ⟨ch1, h1, hr⟩ := Res.bind_eq_ok.1 hr
  have c1 := banOne_clean h hb h1
  split at hr
  · exact banOne_clean c1 hb hr
  · cases hr; exact c1

macro_rules
  | `(tactic| cfwd $h:ident) => `(tactic|
      ((with_reducible have _hg : banBoth _ _ _ _ _ = Res.ok _ := $h);
       have hch1 := banBoth_clean ?side ?side2 $h; case side => cchan
       case side2 => clean_atom))

theorem applyChanMode_clean {c c' : Ctx} {sid : Id} {s : Session} {lc chn : String} {op q q' ret : Bool}
    {mc : ModeCmd} (hc : CCtx c) (cs : CleanSess s) (hchn : Clean chn) (hmode : Clean mc.mode)
    (hparam : Clean mc.param) (hr : applyChanMode c sid s lc chn op mc q = .ok (c', q', ret)) : CCtx c' := by
  have hI := hc.inv
  have hb : Clean (String.singleton (modeByteChar mc)) := clean_singleton (modeByteChar_clean hmode)
  unfold applyChanMode at hr
  simp only [getChan_eq] at hr
  split at hr
  · rename_i ch hch
    simp only [sendUser_st, putChan_channels, AMap.get_set_same] at hr
    split at hr
    · split at hr
      · cases hr; cctx_tac
      · split at hr
        · cases hr; cctx_tac
        · split at hr
          · -- k
            split at hr
            · split at hr
              · cases hr; cctx_tac
              · cases hr; cctx_tac
            · cases hr; cctx_tac
          · split at hr
            · -- x
              split at hr <;> (cases hr; cctx_tac)
            · split at hr
              · -- o
                split at hr
                · cases hr; cctx_tac
                · rename_i perms hperms
                  split at hr
                  · cases hr; cctx_tac
                  · cases hr; cctx_tac
              · split at hr
                · -- b
                  obtain ⟨pa, hpa, hr⟩ := Res.bind_eq_ok.1 hr
                  obtain ⟨ch', hb', hr⟩ := Res.bind_eq_ok.1 hr
                  have hch1 := banBoth_clean (hI.getChan hch) hparam hb'
                  cases hr
                  exact hc.putChan hch1
                · cases hr; cctx_tac
    · cases hr
      refine CCtx.sendUser' ?_ (fun hI2 => by clean_msg)
      refine CCtx.foldl ?_ hc
      intro c1 p hp h1
      have hI1 := h1.inv
      have hpc : Clean p := by
        obtain ⟨b, hb, rfl⟩ := List.mem_map.1 (dedupSorted_mem hp)
        exact (hI.getChan hch).bans b hb
      cctx_tac
  · cases hr
theorem applyChanModes_clean {sid : Id} {s : Session} {lc chn : String} {op : Bool} (cs : CleanSess s)
    (hchn : Clean chn) : ∀ (l : List ModeCmd) {c c' : Ctx} {q q' ret : Bool}, CleanModes l → CCtx c →
      applyChanModes c sid s lc chn op l q = .ok (c', q', ret) → CCtx c'
  | [], c, c', q, q', ret, _, h, hr => by
    unfold applyChanModes at hr
    cases hr; exact h
  | mc :: rest, c, c', q, q', ret, hl, h, hr => by
    unfold applyChanModes at hr
    obtain ⟨⟨c1, q1, r1⟩, h1, hr⟩ := Res.bind_eq_ok.1 hr
    have hmc := hl mc (List.mem_cons_self ..)
    have p1 := applyChanMode_clean h cs hchn hmc.1 hmc.2 h1
    dsimp only at hr
    split at hr
    · cases hr; exact p1
    · exact applyChanModes_clean cs hchn rest (fun x hx => hl x (List.mem_cons_of_mem _ hx)) p1 hr

theorem cmdMode_clean {c c' : Ctx} {sid : Id} {m : IrcMsg} (hc : CCtx c) (hm : CleanMsg m)
    (hr : cmdMode c sid m = .ok c') : CCtx c' := by
  have hI := hc.inv
  have hmodes := normalizeModes_clean hm
  have hip := ircParams_clean hmodes
  have hih := ircParams_head_clean hmodes
  unfold cmdMode at hr
  simp only [getChan_eq, Res.panic_bind] at hr
  obtain ⟨s, hs, hr⟩ := Res.bind_eq_ok.1 hr
  obtain ⟨chn, hchn, hr⟩ := Res.bind_eq_ok.1 hr
  have cs := hc.getS hs
  have hchnc := hm.param hchn
  split at hr
  · -- channel modes
    split at hr
    · rename_i ch hch
      split at hr
      · cases hr; cctx_tac
      · split at hr
        · rename_i mem hmem
          obtain ⟨⟨c1, q1, r1⟩, h1, hr⟩ := Res.bind_eq_ok.1 hr
          have p1 := applyChanModes_clean cs hchnc _ hmodes hc h1
          have hI1 := p1.inv
          dsimp only at hr
          cwalk hr
        · cases hr
    · cases hr
  · -- user modes
    cwalk hr

/-! ### login, USER, PASS -/

theorem loginBanner_clean {c : Ctx} {sid : Id} {s : Session} (hc : CCtx c) (cs : CleanSess s) :
    CCtx (loginBanner c sid s) := by
  have hI := hc.inv
  have hp : Clean (extractPassword s.pass "nickserv") := clean_extractPassword _ cs.pass
  unfold loginBanner
  dsimp only
  cctx_tac

theorem loginOper_clean {c c' : Ctx} {sid : Id} {s : Session} (hc : CCtx c) (cs : CleanSess s)
    (hr : loginOper c sid s = .ok c') : CCtx c' := by
  unfold loginOper at hr
  dsimp only at hr
  split at hr
  · split at hr
    · cases hr
    · rename_i pm hpm
      split at hr
      · refine cmdOper_clean hc (parseMessage_clean _ _ ?_ hpm) hr
        exact clean_append_iff.2 ⟨by decide, clean_extractPassword _ cs.pass⟩
      · cases hr; exact hc
  · cases hr; exact hc

theorem maybeLogin_clean {c c' : Ctx} {sid : Id} {m : IrcMsg} (hc : CCtx c)
    (hr : maybeLogin c sid m = .ok c') : CCtx c' := by
  rw [maybeLogin_eq] at hr
  obtain ⟨s, hs, hr⟩ := Res.bind_eq_ok.1 hr
  have cs := hc.getS hs
  split at hr
  · cases hr; exact hc
  · split at hr
    · cases hr; exact hc
    · split at hr
      · cases hr
      · obtain ⟨c1, h1, hr⟩ := Res.bind_eq_ok.1 hr
        obtain ⟨c2, h2, hr⟩ := Res.bind_eq_ok.1 hr
        obtain ⟨c3, h3, hr⟩ := Res.bind_eq_ok.1 hr
        have n1 : CCtx c1 := hc.modS_keep h1 (fun _ => ⟨rfl, rfl, rfl, rfl, rfl, rfl, rfl⟩)
        have n2 : CCtx c2 := loginOper_clean (loginBanner_clean n1 cs) cs h2
        have n3 : CCtx c3 := n2.modS h3 (fun _ hs => by clean_rec)
        exact cmdMotd_clean n3 hr

theorem cmdUser_clean {c c' : Ctx} {sid : Id} {m : IrcMsg} (hc : CCtx c) (hm : CleanMsg m)
    (hr : cmdUser c sid m = .ok c') : CCtx c' := by
  unfold cmdUser at hr
  obtain ⟨u, hu, hr⟩ := Res.bind_eq_ok.1 hr
  obtain ⟨c1, h1, hr⟩ := Res.bind_eq_ok.1 hr
  refine maybeLogin_clean (hc.modS h1 ?_) hr
  intro s hs
  unfold updateIrcPrefix
  clean_rec
  all_goals exact clean_takeChars (clean_firstWord (clean_of_param hu hm)) _

theorem cmdPass_clean {c c' : Ctx} {sid : Id} {m : IrcMsg} (hc : CCtx c) (hm : CleanMsg m)
    (hr : cmdPass c sid m = .ok c') : CCtx c' := by
  unfold cmdPass at hr
  obtain ⟨c1, h1, hr⟩ := Res.bind_eq_ok.1 hr
  refine maybeLogin_clean (hc.modS h1 ?_) hr
  intro s hs
  clean_rec

end Robust.Irc
