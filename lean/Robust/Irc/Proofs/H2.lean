import Robust.Irc.Proofs.H2a
import Robust.Irc.Proofs.H2b
import Robust.Irc.Proofs.H2c
import Robust.Irc.Proofs.H2d
import Robust.Irc.Proofs.H2e
/-!
Group H2: the client handlers that are read-only or make only inert updates.

* `H2Base` – `NoPanic`, `Emits` (output only), `Inert` (inert updates), `Inert.post`/`Emits.post`,
             the tactics `emits_tac`, `emits_auto`, `inert_tac`, `inert_auto`, `nopanic_tac`;
* `H2a`    – PING, AWAY, ISON, USERHOST, LIST, KNOCK;
* `H2b`    – NAMES, WHO, WHOIS;
* `H2c`    – PRIVMSG/NOTICE, the service aliases, INVITE;
* `H2d`    – TOPIC;
* `H2e`    – MODE (`applyChanMode`, `applyChanModes`, `banOne`, `banBoth`, `resolveSessionToRemoteAddr`).

For every handler `h`: `h_preserves : Preserves h`, `h_safe : ClientSafe h n true`, and the stronger
`h_emits : h c sid m = .ok c' → Emits c c'` (read-only) or
`h_inert : WInvCore c.st → h c sid m = .ok c' → Inert c c'`, `h_noPanic`.
-/
namespace Robust.Irc

/-- summary -/
theorem H2_summary :
    (Preserves cmdNames ∧ ClientSafe cmdNames 0 true) ∧
    (Preserves cmdTopic ∧ ClientSafe cmdTopic 1 true) ∧
    (Preserves cmdMode ∧ ClientSafe cmdMode 1 true) ∧
    (Preserves cmdPrivmsg ∧ ClientSafe cmdPrivmsg 0 true) ∧
    (Preserves cmdServiceAlias ∧ ClientSafe cmdServiceAlias 0 true) ∧
    (Preserves cmdAway ∧ ClientSafe cmdAway 0 true) ∧
    (Preserves cmdIson ∧ ClientSafe cmdIson 1 true) ∧
    (Preserves cmdKnock ∧ ClientSafe cmdKnock 1 true) ∧
    (Preserves cmdList ∧ ClientSafe cmdList 0 true) ∧
    (Preserves cmdPing ∧ ClientSafe cmdPing 0 true) ∧
    (Preserves cmdUserhost ∧ ClientSafe cmdUserhost 1 true) ∧
    (Preserves cmdWho ∧ ClientSafe cmdWho 0 true) ∧
    (Preserves cmdWhois ∧ ClientSafe cmdWhois 1 true) ∧
    (Preserves cmdInvite ∧ ClientSafe cmdInvite 2 true) :=
  ⟨⟨cmdNames_preserves, cmdNames_safe⟩, ⟨cmdTopic_preserves, cmdTopic_safe⟩, ⟨cmdMode_preserves, cmdMode_safe⟩,
   ⟨cmdPrivmsg_preserves, cmdPrivmsg_safe⟩, ⟨cmdServiceAlias_preserves, cmdServiceAlias_safe⟩,
   ⟨cmdAway_preserves, cmdAway_safe⟩, ⟨cmdIson_preserves, cmdIson_safe⟩, ⟨cmdKnock_preserves, cmdKnock_safe⟩,
   ⟨cmdList_preserves, cmdList_safe⟩, ⟨cmdPing_preserves, cmdPing_safe⟩, ⟨cmdUserhost_preserves, cmdUserhost_safe⟩,
   ⟨cmdWho_preserves, cmdWho_safe⟩, ⟨cmdWhois_preserves, cmdWhois_safe⟩, ⟨cmdInvite_preserves, cmdInvite_safe⟩⟩

end Robust.Irc
