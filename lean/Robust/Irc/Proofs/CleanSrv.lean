import Robust.Irc.Proofs.CleanClientC
import Robust.Irc.Proofs.H3c
import Robust.Irc.Proofs.H3e
import Robust.Irc.Proofs.H3f
/-!
C15: the services (server-to-server) handlers and `cmdServer` keep `CCtx`.
-/
namespace Robust.Irc
open Robust AMap

theorem cmdServerInvite_clean {c c' : Ctx} {sid : Id} {m : IrcMsg} (hc : CCtx c) (hm : CleanMsg m)
    (hr : cmdServerInvite c sid m = .ok c') : CCtx c' := by
  have hI := hc.inv
  unfold cmdServerInvite at hr
  cwalk hr

theorem cmdServerKick_clean {c c' : Ctx} {sid : Id} {m : IrcMsg} (hc : CCtx c) (hm : CleanMsg m)
    (hr : cmdServerKick c sid m = .ok c') : CCtx c' := by
  have hI := hc.inv
  unfold cmdServerKick at hr
  cwalk hr

theorem cmdServerPrivmsg_clean {c c' : Ctx} {sid : Id} {m : IrcMsg} (hc : CCtx c) (hm : CleanMsg m)
    (hr : cmdServerPrivmsg c sid m = .ok c') : CCtx c' := by
  have hI := hc.inv
  unfold cmdServerPrivmsg at hr
  cwalk hr

theorem cmdServerTopic_clean {c c' : Ctx} {sid : Id} {m : IrcMsg} (hc : CCtx c) (hm : CleanMsg m)
    (hr : cmdServerTopic c sid m = .ok c') : CCtx c' := by
  have hI := hc.inv
  unfold cmdServerTopic at hr
  cwalk hr

theorem cmdServerSvspart_clean {c c' : Ctx} {sid : Id} {m : IrcMsg} (hc : CCtx c) (hm : CleanMsg m)
    (hr : cmdServerSvspart c sid m = .ok c') : CCtx c' := by
  have hI := hc.inv
  unfold cmdServerSvspart at hr
  cwalk hr

theorem cmdServerSvshold_clean {c c' : Ctx} {sid : Id} {m : IrcMsg} (hc : CCtx c) (hm : CleanMsg m)
    (hr : cmdServerSvshold c sid m = .ok c') : CCtx c' := by
  have hI := hc.inv
  unfold cmdServerSvshold at hr
  obtain ⟨s, hs, hr⟩ := Res.bind_eq_ok.1 hr
  obtain ⟨p0, hp0, hr⟩ := Res.bind_eq_ok.1 hr
  dsimp only at hr
  split at hr
  · obtain ⟨p1, hp1, hr⟩ := Res.bind_eq_ok.1 hr
    split at hr
    · cases hr
    · split at hr
      · cases hr
      · cases hr
        exact hc.setSt ⟨hI.sessions, hI.channels,
          all_set (P := fun (h : SvsHold) => Clean h.reason) hI.svsholds hm.trailing, hI.banned, hI.serverName⟩
  · cases hr
    exact hc.setSt ⟨hI.sessions, hI.channels,
      all_erase (P := fun (h : SvsHold) => Clean h.reason) hI.svsholds _, hI.banned, hI.serverName⟩

/-! ### NICK (a fresh pseudo-client) -/

theorem CInv.createSession {st st' : St} {id : Id} {auth : String} {ts : Int} (h : CInv st)
    (hr : createSession st id auth ts = some st') : CInv st' := by
  rw [createSession_eq hr]
  refine h.setSession ?_
  clean_rec

theorem cmdServerNick_clean {c c' : Ctx} {sid : Id} {m : IrcMsg} (hc : CCtx c) (hm : CleanMsg m)
    (hr : cmdServerNick c sid m = .ok c') : CCtx c' := by
  have hI := hc.inv
  unfold cmdServerNick at hr
  obtain ⟨s, hs, hr⟩ := Res.bind_eq_ok.1 hr
  split at hr
  · cases hr; exact hc
  · obtain ⟨p0, hp0, hr⟩ := Res.bind_eq_ok.1 hr
    split at hr
    · cases hr; cctx_tac
    · split at hr
      · cases hr; cctx_tac
      · dsimp only at hr
        split at hr
        · cases hr; cctx_tac
        · split at hr
          · cases hr; cctx_tac
          · rename_i st1 hcs
            obtain ⟨p3, hp3, hr⟩ := Res.bind_eq_ok.1 hr
            obtain ⟨c2, hm2, hr⟩ := Res.bind_eq_ok.1 hr
            cases hr
            have n1 : CCtx { c with st := st1 } := hc.setSt (hI.createSession hcs)
            have n2 : CCtx c2 := n1.modS hm2 (fun _ hs => by
              unfold updateIrcPrefix; clean_rec
              all_goals exact clean_takeChars (clean_firstWord (clean_of_param hp3 hm)) _)
            exact n2.setSt (n2.inv.same rfl rfl rfl rfl rfl)

/-! ### JOIN / PART -/

theorem serverJoinOne_clean {c c' : Ctx} {m : IrcMsg} {chn : String} (hc : CCtx c) (hm : CleanMsg m)
    (hchn : Clean chn) (hr : serverJoinOne c m chn = .ok c') : CCtx c' := by
  have hI := hc.inv
  unfold serverJoinOne at hr
  obtain ⟨pn, hpn, hr⟩ := Res.bind_eq_ok.1 hr
  split at hr
  · cases hr; cctx_tac
  · dsimp only at hr
    split at hr
    · cases hr; cctx_tac
    · split at hr
      · cases hr; cctx_tac
      obtain ⟨c1, h1, hr⟩ := Res.bind_eq_ok.1 hr
      obtain ⟨sp, hsp, hr⟩ := Res.bind_eq_ok.1 hr
      obtain ⟨rc, _, hr⟩ := Res.bind_eq_ok.1 hr
      cases hr
      have cch : CleanChan ((getChan c (chanToLower chn)).getD { name := chn }) := by
        cases hg : getChan c (chanToLower chn) with
        | none =>
          show CleanChan { name := chn }
          clean_rec
        | some ch => exact hI.getChan hg
      have n1 : CCtx c1 := CCtx.modS_keep (hc.putChan (cch.setNicks _)) h1
        (fun _ => ⟨rfl, rfl, rfl, rfl, rfl, rfl, rfl⟩)
      have hI1 := n1.inv
      cctx_tac

theorem cmdServerJoin_clean {c c' : Ctx} {sid : Id} {m : IrcMsg} (hc : CCtx c) (hm : CleanMsg m)
    (hr : cmdServerJoin c sid m = .ok c') : CCtx c' := by
  unfold cmdServerJoin at hr
  obtain ⟨p0, hp0, hr⟩ := Res.bind_eq_ok.1 hr
  refine CCtx.foldlM ?_ hc hr
  intro c1 ch c2 hch h1 h2
  exact serverJoinOne_clean h1 hm (splitChar_clean ',' (hm.param hp0) ch hch) h2

theorem serverPartOne_clean {c c' : Ctx} {m : IrcMsg} {chn : String} (hc : CCtx c) (hm : CleanMsg m)
    (hchn : Clean chn) (hr : serverPartOne c m chn = .ok c') : CCtx c' := by
  have hI := hc.inv
  unfold serverPartOne at hr
  cwalk hr

theorem cmdServerPart_clean {c c' : Ctx} {sid : Id} {m : IrcMsg} (hc : CCtx c) (hm : CleanMsg m)
    (hr : cmdServerPart c sid m = .ok c') : CCtx c' := by
  unfold cmdServerPart at hr
  obtain ⟨p0, hp0, hr⟩ := Res.bind_eq_ok.1 hr
  refine CCtx.foldlM ?_ hc hr
  intro c1 ch c2 hch h1 h2
  exact serverPartOne_clean h1 hm (splitChar_clean ',' (hm.param hp0) ch hch) h2

/-! ### MODE / SVSMODE -/

theorem serverModeStep_clean {c c' : Ctx} {m : IrcMsg} {chn lc : String} {mc : ModeCmd} (hc : CCtx c)
    (hm : CleanMsg m) (hchn : Clean chn) (hmode : Clean mc.mode) (hparam : Clean mc.param)
    (hr : serverModeStep m chn lc c mc = .ok c') : CCtx c' := by
  have hI := hc.inv
  have hb : Clean (String.singleton (modeByteChar mc)) := clean_singleton (modeByteChar_clean hmode)
  unfold serverModeStep at hr
  simp only [getChan_eq] at hr
  cwalk hr

theorem cmdServerMode_clean {c c' : Ctx} {sid : Id} {m : IrcMsg} (hc : CCtx c) (hm : CleanMsg m)
    (hr : cmdServerMode c sid m = .ok c') : CCtx c' := by
  have hI := hc.inv
  have hmodes := normalizeModes_clean hm
  have hip := ircParams_clean hmodes
  rw [cmdServerMode_eq] at hr
  obtain ⟨chn, hchn, hr⟩ := Res.bind_eq_ok.1 hr
  simp only [getChan_eq] at hr
  split at hr
  · cwalk hr
  · obtain ⟨c1, hfold, hr⟩ := Res.bind_eq_ok.1 hr
    have n1 : CCtx c1 := by
      refine CCtx.foldlM ?_ hc hfold
      intro c2 mc c3 hmc h2 h3
      exact serverModeStep_clean h2 hm (hm.param hchn) (hmodes mc hmc).1 (hmodes mc hmc).2 h3
    have hI1 := n1.inv
    cwalk hr

theorem svsmodeStep_clean {c c' : Ctx} {tid : Id} {mc : ModeCmd} (hc : CCtx c) (hparam : Clean mc.param)
    (hr : svsmodeStep tid c mc = .ok c') : CCtx c' := by
  have hI := hc.inv
  unfold svsmodeStep at hr
  dsimp only at hr
  split at hr
  · exact hc.modS hr (fun _ hs => by clean_rec)
  · split at hr
    · exact hc.modS_keep hr (fun _ => ⟨rfl, rfl, rfl, rfl, rfl, rfl, rfl⟩)
    · cases hr; cctx_tac

theorem cmdServerSvsmode_clean {c c' : Ctx} {sid : Id} {m : IrcMsg} (hc : CCtx c) (hm : CleanMsg m)
    (hr : cmdServerSvsmode c sid m = .ok c') : CCtx c' := by
  have hI := hc.inv
  have hmodes := normalizeModes_clean hm
  rw [cmdServerSvsmode_eq] at hr
  obtain ⟨s, hs, hr⟩ := Res.bind_eq_ok.1 hr
  obtain ⟨p0, hp0, hr⟩ := Res.bind_eq_ok.1 hr
  split at hr
  · cases hr; cctx_tac
  · obtain ⟨modestr, _, hr⟩ := Res.bind_eq_ok.1 hr
    split at hr
    · cases hr; cctx_tac
    · obtain ⟨c1, hfold, hr⟩ := Res.bind_eq_ok.1 hr
      obtain ⟨t, ht, hr⟩ := Res.bind_eq_ok.1 hr
      cases hr
      have n1 : CCtx c1 := by
        refine CCtx.foldlM ?_ hc hfold
        intro c2 mc c3 hmc h2 h3
        exact svsmodeStep_clean h2 (hmodes mc hmc).2 h3
      have hI1 := n1.inv
      cctx_tac

/-! ### SVSNICK -/

theorem svsnickTail_clean {c c' : Ctx} {tid : Id} {p0 p1 : String} (hc : CCtx c) (hp1 : Clean p1)
    (hr : svsnickTail c p0 p1 tid = .ok c') : CCtx c' := by
  have hI := hc.inv
  unfold svsnickTail at hr
  obtain ⟨t, ht, hr⟩ := Res.bind_eq_ok.1 hr
  dsimp only at hr
  obtain ⟨c1, hm1, hr⟩ := Res.bind_eq_ok.1 hr
  obtain ⟨c2, hm2, hr⟩ := Res.bind_eq_ok.1 hr
  obtain ⟨t2, ht2, hr⟩ := Res.bind_eq_ok.1 hr
  obtain ⟨rc, _, hr⟩ := Res.bind_eq_ok.1 hr
  cases hr
  have n1 : CCtx c1 := hc.modS hm1 (fun _ hs => by clean_rec)
  have nr := renameCtx_cctx n1 tid (nickToLower p1) (nickToLower p0) (nickToLower p1 != nickToLower p0)
  have n2 : CCtx c2 := nr.modS hm2 (fun _ hs => by unfold updateIrcPrefix; clean_rec)
  have hI2 := n2.inv
  have ct := hc.getS ht
  have ct2 := n2.getS ht2
  clear nr n1 hm1 hm2
  refine n2.emit ?_
  clean_msg

theorem cmdServerSvsnick_clean {c c' : Ctx} {sid : Id} {m : IrcMsg} (hc : CCtx c) (hm : CleanMsg m)
    (hr : cmdServerSvsnick c sid m = .ok c') : CCtx c' := by
  have hI := hc.inv
  rw [cmdServerSvsnick_eq] at hr
  obtain ⟨p0, hp0, hr⟩ := Res.bind_eq_ok.1 hr
  obtain ⟨p1, hp1, hr⟩ := Res.bind_eq_ok.1 hr
  split at hr
  · cases hr; cctx_tac
  · split at hr
    · cases hr; cctx_tac
    · split at hr
      · split at hr
        · cases hr; cctx_tac
        · exact svsnickTail_clean hc (hm.param hp1) hr
      · exact svsnickTail_clean hc (hm.param hp1) hr

/-! ### KILL / QUIT -/

theorem cmdServerKill_clean {c c' : Ctx} {sid : Id} {m : IrcMsg} (hc : CCtx c) (hm : CleanMsg m)
    (hr : cmdServerKill c sid m = .ok c') : CCtx c' := by
  have hI := hc.inv
  unfold cmdServerKill at hr
  obtain ⟨s, hs, hr⟩ := Res.bind_eq_ok.1 hr
  split at hr
  · cases hr; cctx_tac
  · dsimp only at hr
    obtain ⟨kp?, hkp, hr⟩ := Res.bind_eq_ok.1 hr
    have hk : ∀ kp, kp? = some kp → Clean kp.name ∧ Clean kp.user ∧ Clean kp.host := by
      intro kp hkp'
      subst hkp'
      split at hkp
      · injection hkp with hkp
        exact hm.pfx hkp
      · split at hkp
        · cases hkp
        · rename_i p hp
          split at hkp
          · rename_i e he
            cases hkp
            have ce := hI.sessions e (List.mem_filter.1 (List.mem_of_find?_eq_some he)).1
            exact ⟨ce.pname, ce.puser, ce.phost⟩
          · cases hkp
            exact hm.pfx hp
    obtain ⟨p0, hp0, hr⟩ := Res.bind_eq_ok.1 hr
    split at hr
    · cases hr; cctx_tac
    · obtain ⟨t, ht, hr⟩ := Res.bind_eq_ok.1 hr
      cases kp? with
      | none => cases hr
      | some kp =>
        dsimp only at hr
        obtain ⟨hk1, hk2, hk3⟩ := hk kp rfl
        obtain ⟨rc, _, hr⟩ := Res.bind_eq_ok.1 hr
        have hpath : Clean (replaceAll ("ircd!" ++ kp.host ++ "!" ++ kp.name) "!!" "!") :=
          clean_replaceAll (by clean_atom) (by decide)
        refine CCtx.deleteSession ?_ hr
        cctx_tac

theorem cmdServerQuit_clean {c c' : Ctx} {sid : Id} {m : IrcMsg} (hc : CCtx c) (hm : CleanMsg m)
    (hr : cmdServerQuit c sid m = .ok c') : CCtx c' := by
  have hI := hc.inv
  unfold cmdServerQuit at hr
  obtain ⟨s, hs, hr⟩ := Res.bind_eq_ok.1 hr
  split at hr
  · obtain ⟨c1, hd, hr⟩ := Res.bind_eq_ok.1 hr
    dsimp only at hr
    refine CCtx.foldlM ?_ (hc.deleteSession hd) hr
    intro c2 tid c3 _ hP hstep
    have hI2 := hP.inv
    obtain ⟨t, ht, hstep⟩ := Res.bind_eq_ok.1 hstep
    obtain ⟨rc, _, hstep⟩ := Res.bind_eq_ok.1 hstep
    refine CCtx.deleteSession ?_ hstep
    cctx_tac
  · split at hr
    · cases hr; exact hc
    · rename_i e he
      have ce := hI.sessions e (List.mem_of_find?_eq_some he)
      obtain ⟨rc, _, hr⟩ := Res.bind_eq_ok.1 hr
      refine CCtx.deleteSession ?_ hr
      cctx_tac

/-! ### SVSJOIN -/

theorem getD_chan_clean {c : Ctx} (hI : CInv c.st) {lc chn : String} (hchn : Clean chn) :
    CleanChan ((getChan c lc).getD { name := chn }) := by
  cases hg : getChan c lc with
  | none =>
    show CleanChan { name := chn }
    clean_rec
  | some ch => exact hI.getChan hg

theorem cmdServerSvsjoin_clean {c c' : Ctx} {sid : Id} {m : IrcMsg} (hc : CCtx c) (hm : CleanMsg m)
    (hr : cmdServerSvsjoin c sid m = .ok c') : CCtx c' := by
  have hI := hc.inv
  unfold cmdServerSvsjoin at hr
  obtain ⟨p0, hp0, hr⟩ := Res.bind_eq_ok.1 hr
  obtain ⟨chn, hchn, hr⟩ := Res.bind_eq_ok.1 hr
  have hchnc := hm.param hchn
  dsimp only at hr
  split at hr
  · obtain ⟨pn, hpn, hr⟩ := Res.bind_eq_ok.1 hr
    cases hr; cctx_tac
  · split at hr
    · obtain ⟨pn, hpn, hr⟩ := Res.bind_eq_ok.1 hr
      cases hr; cctx_tac
    · simp only [getChan_eq, putChan_putChan] at hr
      have cch := getD_chan_clean (lc := chanToLower chn) hI hchnc
      simp only [getChan_eq] at cch
      split at hr
      · obtain ⟨pn, hpn, hr⟩ := Res.bind_eq_ok.1 hr
        cases hr; cctx_tac
      split at hr
      · cases hr
        exact hc.putChan cch
      · obtain ⟨c1, h1, hr⟩ := Res.bind_eq_ok.1 hr
        obtain ⟨t, ht, hr⟩ := Res.bind_eq_ok.1 hr
        obtain ⟨rc, _, hr⟩ := Res.bind_eq_ok.1 hr
        obtain ⟨c2, h2, hr⟩ := Res.bind_eq_ok.1 hr
        have n1 : CCtx c1 := CCtx.modS_keep (hc.putChan (cch.setNicks _)) h1
          (fun _ => ⟨rfl, rfl, rfl, rfl, rfl, rfl, rfl⟩)
        have hI1 := n1.inv
        have hm2 : CleanMsg ⟨none, "TOPIC", [chn]⟩ := by clean_msg
        have hm3 : CleanMsg ⟨none, "NAMES", [chn]⟩ := by clean_msg
        refine cmdNames_clean (cmdTopic_clean ?_ hm2 h2) hm3 hr
        cctx_tac
        exact clean_append_iff.2 ⟨clean_ite (by decide) (by decide), by clean_atom⟩

/-! ### SERVER -/

theorem serverBurstChan_clean {t : Session} {c c' : Ctx} {lc : String} (hc : CCtx c) (ct : CleanSess t)
    (hr : serverBurstChan t c lc = .ok c') : CCtx c' := by
  have hI := hc.inv
  unfold serverBurstChan at hr
  cwalk hr

theorem serverBurstNick_clean {c c' : Ctx} {nick : String} (hc : CCtx c)
    (hr : serverBurstNick c nick = .ok c') : CCtx c' := by
  have hI := hc.inv
  unfold serverBurstNick at hr
  split at hr
  · cases hr
  · obtain ⟨t, ht, hr⟩ := Res.bind_eq_ok.1 hr
    have ct := hc.getS ht
    split at hr
    · cases hr; exact hc
    · dsimp only at hr
      refine CCtx.foldlM ?_ ?_ hr
      · intro c1 lc c2 _ h1 h2
        exact serverBurstChan_clean h1 ct h2
      · cctx_tac

theorem cmdServer_clean {c c' : Ctx} {sid : Id} {m : IrcMsg} (hc : CCtx c) (hm : CleanMsg m)
    (hr : cmdServer c sid m = .ok c') : CCtx c' := by
  have hI := hc.inv
  rw [cmdServer_eq] at hr
  obtain ⟨s, hs, hr⟩ := Res.bind_eq_ok.1 hr
  split at hr
  · cases hr; cctx_tac
  · obtain ⟨p0, hp0, hr⟩ := Res.bind_eq_ok.1 hr
    obtain ⟨c1, h1, hr⟩ := Res.bind_eq_ok.1 hr
    dsimp only at hr
    have n1 : CCtx c1 := hc.modS h1 (fun _ hs => by clean_rec)
    have n2 : CCtx { c1 with st := { c1.st with serverSessions := c1.st.serverSessions ++ [sid.id] } } :=
      n1.setSt (n1.inv.same rfl rfl rfl rfl rfl)
    have hI1 := n1.inv
    refine CCtx.foldlM ?_ ?_ hr
    · intro c2 nick c3 _ h2 h3
      exact serverBurstNick_clean h2 h3
    · refine n2.sendSvc ?_
      clean_msg

end Robust.Irc
