import Robust.Irc.Proofs.CmdSrv
import Robust.Irc.Proofs.CleanEntry
/-!
C15, "has a command": from the handlers to `processMessage`, `applyEntry` and histories.

* `handler_kstep`: every handler of the table keeps `KStep` (given `HArgs`, the facts about the message that the
  dispatch of `processMessage` provides or that are assumed of lines sent by services);
* `cmdServer_nstep`: the lines of `cmdServer` have a command whatever name the `SERVER` line announces;
* `processMessage_kstep`, `applyEntry_kinv`, `runLines_hc`.
-/
namespace Robust.Irc
open Robust AMap

/-! ## the handlers of the table -/

/-- handlers that build a line under a prefix taken from the message (`servicesPrefix m`, `m.pfx`) -/
def usesMsgPfx (fname : String) : Bool :=
  ["cmdServerInvite", "cmdServerJoin", "cmdServerKick", "cmdServerKill", "cmdServerMode", "cmdServerPrivmsg",
    "cmdServerPart", "cmdServerTopic"].contains fname

/-- what a handler needs to know of the message it is called with -/
structure HArgs (fname : String) (c : Ctx) (sid : Id) (m : IrcMsg) : Prop where
  /-- the command (relayed by PRIVMSG / NOTICE) is a word of at most 330 bytes -/
  cmd : GoodCmd m.command
  /-- only the trailing parameter can contain a space (true of every parsed line) -/
  mid : MidOK m
  /-- PRIVMSG / NOTICE and the service aliases are client commands -/
  actor : (fname = "cmdPrivmsg" ∨ fname = "cmdServiceAlias") →
    ∀ s, AMap.get c.st.sessions sid = some s → s.server = false
  /-- USER has at least two parameters (its table entry demands three) -/
  user : fname = "cmdUser" → 2 ≤ m.params.length
  /-- the name a `SERVER` line announces: no space, at most 300 bytes -/
  server : fname = "cmdServer" → ∀ x, m.params[0]? = some x → Spaceless x ∧ x.utf8ByteSize ≤ 300
  /-- the user name in a `NICK` line of services: no space -/
  svcNick : fname = "cmdServerNick" → ∀ x, m.params[3]? = some x → Spaceless x
  /-- the prefix of a line of services: no space, at most 160 bytes -/
  pfx : usesMsgPfx fname = true → PfxArgOK m

/-- **every handler of the command table** (client and services handlers alike) keeps the invariant and emits
only lines with a command -/
theorem handler_kstep {fname : String} {h : Handler} (hh : handlerByName fname = some h) {c0 c c' : Ctx}
    {sid : Id} {m : IrcMsg} (hc : KStep c0 c) (ha : HArgs fname c sid m) (hr : h c sid m = .ok c') :
    KStep c0 c' := by
  unfold handlerByName at hh
  split at hh
  · cases hh; exact cmdAway_kstep hc hr
  · cases hh; exact cmdServiceAlias_kstep hc (ha.actor (Or.inr rfl)) hr
  · cases hh; exact cmdGline_kstep hc hr
  · cases hh; exact cmdInvite_kstep hc hr
  · cases hh; exact cmdIson_kstep hc hr
  · cases hh; exact cmdJoin_kstep hc hr
  · cases hh; exact cmdKick_kstep hc hr
  · cases hh; exact cmdKill_kstep hc hr
  · cases hh; exact cmdKnock_kstep hc hr
  · cases hh; exact cmdList_kstep hc hr
  · cases hh; exact cmdMode_kstep hc hr
  · cases hh; exact cmdMotd_kstep hc hr
  · cases hh; exact cmdNames_kstep hc hr
  · cases hh; exact cmdNick_kstep hc hr
  · cases hh; exact cmdOper_kstep hc hr
  · cases hh; exact cmdPart_kstep hc hr
  · cases hh; exact cmdPass_kstep hc hr
  · cases hh; exact cmdPing_kstep hc hr
  · cases hh; exact cmdPrivmsg_kstep hc (ha.actor (Or.inl rfl)) ha.cmd hr
  · cases hh; exact cmdQuit_kstep hc hr
  · cases hh; exact cmdServer_kstep hc (ha.server rfl) hr
  · cases hh; exact cmdTopic_kstep hc hr
  · cases hh; exact cmdUser_kstep hc ha.mid (ha.user rfl) hr
  · cases hh; exact cmdUserhost_kstep hc hr
  · cases hh; exact cmdWho_kstep hc hr
  · cases hh; exact cmdWhois_kstep hc hr
  · cases hh; exact cmdServerInvite_kstep hc (ha.pfx rfl) hr
  · cases hh; exact cmdServerJoin_kstep hc (ha.pfx rfl) hr
  · cases hh; exact cmdServerKick_kstep hc (ha.pfx rfl) hr
  · cases hh; exact cmdServerKill_kstep hc (ha.pfx rfl) hr
  · cases hh; exact cmdServerMode_kstep hc (ha.pfx rfl) hr
  · cases hh; exact cmdServerNick_kstep hc (ha.svcNick rfl) hr
  · cases hh; exact cmdServerPrivmsg_kstep hc (ha.pfx rfl) ha.cmd hr
  · cases hh; exact cmdServerPart_kstep hc (ha.pfx rfl) hr
  · cases hh; exact cmdServerQuit_kstep hc hr
  · cases hh; exact cmdServerSvshold_kstep hc hr
  · cases hh; exact cmdServerSvsjoin_kstep hc hr
  · cases hh; exact cmdServerSvsmode_kstep hc hr
  · cases hh; exact cmdServerSvsnick_kstep hc hr
  · cases hh; exact cmdServerSvspart_kstep hc hr
  · cases hh; exact cmdServerTopic_kstep hc (ha.pfx rfl) hr
  · cases hh

/-! ## `SERVER`: the lines, whatever name is announced -/

/-- the server name is fine and every line appended since `c0` has a command (nothing about the sessions) -/
structure NStep (c0 c : Ctx) : Prop where
  name : SrvNameOK c.st
  out : NewOut HC c0 c

theorem KStep.nstep {c0 c : Ctx} (h : KStep c0 c) : NStep c0 c := ⟨h.inv.name, h.out⟩

theorem NStep.sendSvc {c0 c : Ctx} {m : IrcMsg} (h : NStep c0 c) (hm : HasCommand m.render) :
    NStep c0 (sendSvc c m) := ⟨h.name, h.out.emit fun _ _ => hm⟩

theorem NStep.foldlM {c0 : Ctx} {α : Type} {f : Ctx → α → Res Ctx} :
    ∀ {l : List α} {c c' : Ctx}, (∀ c a c', NStep c0 c → f c a = .ok c' → NStep c0 c') → NStep c0 c →
      l.foldlM f c = .ok c' → NStep c0 c'
  | [], c, c', _, h, hr => by cases hr; exact h
  | a :: l, c, c', hf, h, hr => by
    rw [List.foldlM_cons] at hr
    obtain ⟨c1, h1, hr⟩ := Res.bind_eq_ok.1 hr
    exact NStep.foldlM hf (hf c a c1 h h1) hr

theorem serverBurstChan_nstep {t : Session} {c0 c c' : Ctx} {lc : String} (hc : NStep c0 c)
    (hr : serverBurstChan t c lc = .ok c') : NStep c0 c' := by
  unfold serverBurstChan at hr
  split at hr
  · cases hr
  · split at hr
    · cases hr
    · cases hr; exact hc.sendSvc (hc_srv hc.name (by decide) _)

theorem serverBurstNick_nstep {c0 c c' : Ctx} {nick : String} (hc : NStep c0 c)
    (hr : serverBurstNick c nick = .ok c') : NStep c0 c' := by
  unfold serverBurstNick at hr
  split at hr
  · cases hr
  · obtain ⟨t, ht, hr⟩ := Res.bind_eq_ok.1 hr
    split at hr
    · cases hr; exact hc
    · dsimp only at hr
      refine NStep.foldlM (fun _ _ _ h1 h2 => serverBurstChan_nstep h1 h2) ?_ hr
      exact hc.sendSvc (hc_plain (by decide) (by decide) _)

/-- **SERVER**: `ERROR :Invalid password`, or the burst `SERVER` / `NICK` / `SJOIN` for the new link — all
without prefix or server-prefixed, so they have a command whatever the line announced -/
theorem cmdServer_nstep {c0 c c' : Ctx} {sid : Id} {m : IrcMsg} (hc : NStep c0 c)
    (hr : cmdServer c sid m = .ok c') : NStep c0 c' := by
  rw [cmdServer_eq] at hr
  obtain ⟨s, hs, hr⟩ := Res.bind_eq_ok.1 hr
  split at hr
  · cases hr; exact ⟨hc.name, hc.out.sendUser fun _ _ => hc_plain (by decide) (by decide) _⟩
  · obtain ⟨p0, hp0, hr⟩ := Res.bind_eq_ok.1 hr
    obtain ⟨c1, h1, hr⟩ := Res.bind_eq_ok.1 hr
    dsimp only at hr
    obtain ⟨s1, hs1, rfl⟩ := modS_eq_ok.1 h1
    have n1 : NStep c0 (putS c ({ s1 with server := true, ircPrefix := ⟨p0, "", ""⟩ })) :=
      ⟨⟨hc.name.spaceless, hc.name.short⟩, hc.out.step rfl⟩
    refine NStep.foldlM (fun _ _ _ h2 h3 => serverBurstNick_nstep h2 h3) ?_ hr
    exact NStep.sendSvc ⟨⟨n1.name.spaceless, n1.name.short⟩, n1.out.step rfl⟩ (hc_plain (by decide) (by decide) _)

/-! ## what the command table says -/

/-- facts about the regenerated command table, checked entry by entry -/
theorem table_facts : ∀ e ∈ Gen.Commands.commands,
    (startsLowerS e.1 = false →
      e.1 ≠ "" ∧ Spaceless e.1 ∧ e.1.toList.length ≤ 82 ∧ usesMsgPfx e.2.1 = false ∧ e.2.1 ≠ "cmdServerNick" ∧
      (e.2.1 = "cmdServer" → e.1 = "SERVER" ∧ 2 ≤ e.2.2.1)) ∧
    (startsLowerS e.1 = true →
      String.ofList (e.1.toList.drop 7) ≠ "" ∧ Spaceless (String.ofList (e.1.toList.drop 7)) ∧
      (String.ofList (e.1.toList.drop 7)).toList.length ≤ 82 ∧
      e.2.1 ≠ "cmdPrivmsg" ∧ e.2.1 ≠ "cmdServiceAlias" ∧ e.2.1 ≠ "cmdUser" ∧ e.2.1 ≠ "cmdServer" ∧
      (e.2.1 = "cmdServerNick" → String.ofList (e.1.toList.drop 7) = "NICK")) := by decide

/-! ## lines -/

/-- what is assumed of a `SERVER` line: the announced name has at most 300 bytes -/
def ServerLineOK (m : IrcMsg) : Prop :=
  toUpper m.command = "SERVER" → ∀ x, m.params[0]? = some x → x.utf8ByteSize ≤ 300

/-- what is assumed of a line sent by a services link: its prefix has no space and at most 160 bytes, and the
user name in a `NICK` line has no space -/
structure SvcLineOK (m : IrcMsg) : Prop where
  pfx : PfxArgOK m
  nickUser : toUpper m.command = "NICK" → ∀ x, m.params[3]? = some x → Spaceless x

/-! ## the stages of `processMessage` -/

/-- the result of a stage: every new line has a command; the invariant is kept provided the line, if it is a
`SERVER` line, announces a short name -/
def KRes (c0 c' : Ctx) (m : IrcMsg) : Prop := NewOut HC c0 c' ∧ (ServerLineOK m → KInv c'.st)

theorem KStep.kres {c0 c : Ctx} (h : KStep c0 c) (m : IrcMsg) : KRes c0 c m := ⟨h.out, fun _ => h.inv⟩

theorem dispatchStage_kstep {c0 c c' : Ctx} {sid : Id} {s : Session} {m : IrcMsg}
    (hc : KStep c0 c) (hsid : s.id = sid) (hs : AMap.get c.st.sessions sid = some s) (hmid : MidOK m)
    (hsvc : s.server = true → SvcLineOK m)
    (hr : dispatchStage c s m (toUpper m.command) = .ok c') : KRes c0 c' m := by
  have hI := hc.inv
  unfold dispatchStage at hr
  rw [hsid] at hr
  split at hr
  · cases hr
    refine KStep.kres ?_ m
    kstep_tac
  · rename_i fname mp hl
    split at hr
    · cases hr
      refine KStep.kres ?_ m
      kstep_tac
    · rename_i hlen
      split at hr
      · cases hr
      · rename_i h hh
        have hm := lookupCommand_mem hl
        have tf := table_facts _ hm
        cases hsrv : s.server with
        | false =>
          have hkey : (if s.server = true then "server_" else "") ++ toUpper m.command = toUpper m.command := by
            rw [hsrv]; simp
          rw [hkey] at hm tf hl
          obtain ⟨hne, hsp, hl82, hnp, hnn, hsv⟩ := tf.1 (startsLowerS_toUpper _)
          have hg : GoodCmd m.command := goodCmd_of_toUpper rfl hne hsp hl82
          by_cases hf : fname = "cmdServer"
          · subst hf
            have e : h = cmdServer := by
              have : handlerByName "cmdServer" = some cmdServer := rfl
              rw [this] at hh; cases hh; rfl
            subst e
            obtain ⟨hk, h2⟩ := hsv rfl
            refine ⟨(cmdServer_nstep hc.nstep hr).out, fun hsl => ?_⟩
            refine (cmdServer_kstep hc (fun x hx => ?_) hr).inv
            exact ⟨hmid.param0 (by dsimp only at h2; omega) hx, hsl hk x hx⟩
          · refine KStep.kres (handler_kstep hh hc ?_ hr) m
            refine ⟨hg, hmid, fun _ s' hs' => ?_, fun hu => ?_, fun h' => absurd h' hf, fun h' => absurd h' hnn,
              fun h' => ?_⟩
            · rw [hs] at hs'; cases hs'; exact hsrv
            · have := user_minParams hl hu
              omega
            · rw [hnp] at h'; cases h'
        | true =>
          have hkey : (if s.server = true then "server_" else "") ++ toUpper m.command
              = "server_" ++ toUpper m.command := by rw [hsrv]; simp
          rw [hkey] at hm tf hl
          have hk := server_key_eq (k := "server_" ++ toUpper m.command) rfl
          obtain ⟨hne, hsp, hl82, hn1, hn2, hn3, hn4, hnick⟩ := tf.2 (startsLowerS_server _)
          dsimp only at hne hsp hl82 hnick
          rw [← hk] at hne hsp hl82 hnick
          have hg : GoodCmd m.command := goodCmd_of_toUpper rfl hne hsp hl82
          have hso := hsvc hsrv
          refine KStep.kres (handler_kstep hh hc ?_ hr) m
          refine ⟨hg, hmid, fun h' => ?_, fun h' => absurd h' hn3, fun h' => absurd h' hn4,
            fun h' => hso.nickUser (hnick h'), fun _ => hso.pfx⟩
          rcases h' with h' | h'
          · exact absurd h' hn1
          · exact absurd h' hn2

theorem gateStage_kstep {c0 c c' : Ctx} {e : Entry} {m : IrcMsg}
    (hc : KStep c0 c) (hp : Pre c e.session) (hmid : MidOK m)
    (hsvc : ∀ s, AMap.get c.st.sessions e.session = some s → s.server = true → SvcLineOK m)
    (hr : gateStage c e m (toUpper m.command) = .ok c') : KRes c0 c' m := by
  have hI := hc.inv
  unfold gateStage at hr
  obtain ⟨s, hs, hr⟩ := Res.bind_eq_ok.1 hr
  have hs' := getS_eq_ok.1 hs
  have hid : s.id = e.session := (hp.inv.sessId _ s hs').1
  split at hr
  · split at hr
    · refine KStep.kres (KStep.deleteSession ?_ hr) m
      kstep_tac
    · cases hr
      refine KStep.kres ?_ m
      kstep_tac
  · exact dispatchStage_kstep hc hid hs' hmid (hsvc s hs') hr

/-- the address stage: one `modS` that only changes `remoteAddr`, then possibly `ERROR` and `deleteSession` -/
theorem addrStage_kstep {c0 c c1 : Ctx} {e : Entry} {s : Session} {b : Bool} (hc : KStep c0 c)
    (hr : addrStage c e s = .ok (c1, b)) : KStep c0 c1 := by
  have hI := hc.inv
  unfold addrStage at hr
  split at hr
  · obtain ⟨cx, hm, hr⟩ := Res.bind_eq_ok.1 hr
    have p0 : KStep c0 cx := hc.modS_keep hm (fun _ => ⟨rfl, rfl, rfl, rfl, rfl⟩)
    have hIx := p0.inv
    split at hr
    · split at hr
      · obtain ⟨c2, hd, hr⟩ := Res.bind_eq_ok.1 hr
        cases hr
        refine KStep.deleteSession ?_ hd
        kstep_tac
      · cases hr; exact p0
    · cases hr; exact p0
  · cases hr; exact hc

/-- **`ProcessMessage`**: the 421 / 451 / 461 replies, the `ERROR` lines of a banned or never-registered
session and everything the handler produces have a command; the invariant is kept.  `hsvc`: what is assumed of
the line if the acting session is a services link. -/
theorem processMessage_kstep {c0 c c' : Ctx} {e : Entry} {im : Option IrcMsg} (hc : KStep c0 c)
    (hp : Pre c e.session) (hn : NI c.st) (hmid : ∀ m, im = some m → MidOK m)
    (hsvc : ∀ m s, im = some m → AMap.get c.st.sessions e.session = some s → s.server = true → SvcLineOK m)
    (hr : processMessage c e im = .ok c') :
    NewOut HC c0 c' ∧ ((∀ m, im = some m → ServerLineOK m) → KInv c'.st) := by
  have hI := hc.inv
  rw [processMessage_eq] at hr
  obtain ⟨s, hs, hr⟩ := Res.bind_eq_ok.1 hr
  have hs' := getS_eq_ok.1 hs
  cases im with
  | none =>
    cases hr
    have k : KStep c0 (sendUser c s.id (srv c "421" [s.nick, "Unknown command"])) := by kstep_tac
    exact ⟨k.out, fun _ => k.inv⟩
  | some m =>
    dsimp only at hr
    obtain ⟨⟨c1, b⟩, h1, hr⟩ := Res.bind_eq_ok.1 hr
    have p1 : KStep c0 c1 := addrStage_kstep hc h1
    obtain ⟨_, hf⟩ := addrStage_spec hp hn hs' h1
    cases b with
    | true => cases hr; exact ⟨p1.out, fun _ => p1.inv⟩
    | false =>
      simp only [Bool.false_eq_true, ↓reduceIte] at hr
      obtain ⟨hp1, _, _, s1, hs1, hsv1⟩ := hf rfl
      have k := gateStage_kstep p1 hp1 (hmid m rfl) (fun s2 hs2 hsrv2 => by
        rw [hs1] at hs2; cases hs2
        exact hsvc m s rfl hs' (by rw [← hsv1]; exact hsrv2)) hr
      exact ⟨k.1, fun h => k.2 (h m rfl)⟩

/-! ## entries -/

/-- what is assumed of the lines of services links (needed for the lines they cause) -/
def SvcEntryOK (st : St) (e : Entry) : Prop :=
  e.type = 2 → ∀ m s, parseMessage e.data = some m → AMap.get st.sessions e.session = some s →
    s.server = true → SvcLineOK m

/-- what is assumed of the names an entry introduces (needed for the invariant only): session ids are Raft
indexes (`uint64`), a `SERVER` line announces a name of at most 300 bytes -/
structure EntryNamesOK (e : Entry) : Prop where
  create : e.type = 0 → e.id < 2 ^ 64
  server : e.type = 2 → ∀ m, parseMessage e.data = some m → ServerLineOK m

theorem KInv.sub {st st' : St} (h : KInv st) (hs : ∀ e ∈ st'.sessions, e ∈ st.sessions)
    (hn : st'.serverName = st.serverName) : KInv st' :=
  ⟨fun e he => h.sessions e (hs e he), ⟨by rw [hn]; exact h.name.spaceless, by rw [hn]; exact h.name.short⟩⟩

theorem KInv.maybeDeleteSession {st : St} (h : KInv st) (sid : Id) :
    KInv (Robust.Irc.maybeDeleteSession st sid) := by
  unfold Robust.Irc.maybeDeleteSession
  cases ha : AMap.get st.sessions sid with
  | none => exact h
  | some a =>
    simp only
    generalize (a.server || a.operator) = b
    have h1 : KInv (if b = true then { st with sessions := st.sessions.filter (fun e => !e.2.deleted) }
        else st) := by
      cases b with
      | false => exact h
      | true => exact h.sub (fun e he => (List.mem_filter.1 he).1) rfl
    generalize (if b = true then { st with sessions := st.sessions.filter (fun e => !e.2.deleted) } else st) = st1
      at h1
    cases a.deleted with
    | false => simpa using h1
    | true =>
      simp only [if_true]
      exact h1.sub (fun e he => AMap.mem_erase he) rfl

theorem KInv.updateLastClientMessageID {st st' : St} {e : Entry} (h : KInv st)
    (hr : updateLastClientMessageID st e = some st') : KInv st' := by
  unfold Robust.Irc.updateLastClientMessageID at hr
  cases hg : AMap.get st.sessions e.session with
  | none => simp [hg] at hr
  | some s =>
    simp only [hg, Option.some.injEq] at hr
    subst hr
    exact h.setSession ((h.get hg).congr rfl rfl rfl rfl rfl)

/-- after the handler: set `lastProcessed`, purge the flagged sessions -/
theorem KInv.finish {st : St} (h : KInv st) (x sid : Id) :
    KInv (Robust.Irc.maybeDeleteSession { st with lastProcessed := x } sid) :=
  KInv.maybeDeleteSession (st := { st with lastProcessed := x }) (h.same rfl rfl) sid

/-- **one committed entry**: every line of its output batch has a command, and the invariant is kept (given
`EntryNamesOK`) -/
theorem applyEntry_kinv (st st' : St) (e : Entry) (out : List Out) (h : GInv st) (hk : KInv st)
    (he : EntryOk st e) (hs : SvcEntryOK st e) (hr : applyEntry st e = .ok (st', out)) :
    (∀ o ∈ out, HasCommand o.data) ∧ (EntryNamesOK e → KInv st') := by
  unfold applyEntry at hr
  split at hr
  · -- MessageOfDeath
    cases hr
    refine ⟨fun _ ho => (nomatch ho), fun _ => ?_⟩
    cases hu : updateLastClientMessageID st e with
    | none => exact hk
    | some st1 => exact hk.updateLastClientMessageID hu
  split at hr
  · -- CreateSession
    rename_i ht0
    cases hr
    refine ⟨fun _ ho => (nomatch ho), fun hn => ?_⟩
    cases hcs : createSession st ⟨e.id, 0⟩ e.data e.timestamp with
    | none => exact hk
    | some st1 => exact hk.createSession (id := ⟨e.id, 0⟩) (hn.create ht0) hcs
  split at hr
  · -- DeleteSession
    rename_i ht1
    split at hr
    · cases hr; exact ⟨fun _ ho => (nomatch ho), fun _ => hk⟩
    · rename_i s0 hs0
      obtain ⟨c, hpm, hr⟩ := Res.bind_eq_ok.1 hr
      cases hr
      have hp : Pre { st := st, msgid := e.id } e.session := ⟨h.inv, h.linv, ⟨_, hs0⟩, he.1 (Or.inl ht1)⟩
      obtain ⟨ho, hi⟩ := processMessage_kstep (c0 := { st := st, msgid := e.id }) (KStep.start hk) hp h.ni
        (fun _ hm => parseMessage_midOK hm)
        (fun m s hm _ _ => by
          obtain ⟨hpx, hq⟩ := parseMessage_quit _ hm
          exact ⟨fun p hp' => (by rw [hpx] at hp'; cases hp'),
            fun hc => (by rw [hq] at hc; exact absurd hc (by decide))⟩)
        hpm
      refine ⟨ho.elim (by simp), fun _ => KInv.finish (hi fun m hm hc => ?_) _ _⟩
      obtain ⟨_, hq⟩ := parseMessage_quit _ hm
      rw [hq] at hc; exact absurd hc (by decide)
  split at hr
  · -- IRCFromClient
    rename_i ht2
    split at hr
    · cases hr; exact ⟨fun _ ho => (nomatch ho), fun _ => hk⟩
    · rename_i st1 hu
      obtain ⟨c, hpm, hr⟩ := Res.bind_eq_ok.1 hr
      cases hr
      have h1 := GInv_updateLastClientMessageID h hu
      have k1 : KInv st1 := hk.updateLastClientMessageID hu
      obtain ⟨s, s1, hs0, hs1, hsv⟩ := updateLastClientMessageID_actor hu
      have hp : Pre { st := st1, msgid := e.id } e.session := ⟨h1.inv, h1.linv, ⟨_, hs1⟩, he.1 (Or.inr ht2)⟩
      obtain ⟨ho, hi⟩ := processMessage_kstep (c0 := { st := st1, msgid := e.id }) (KStep.start k1) hp h1.ni
        (fun _ hm => parseMessage_midOK hm)
        (fun m s2 hm hs2 hsrv2 => by
          rw [hs1] at hs2; cases hs2
          exact hs ht2 m s hm hs0 (by rw [← hsv]; exact hsrv2))
        hpm
      exact ⟨ho.elim (by simp), fun hn => KInv.finish (hi fun m hm => hn.server ht2 m hm) _ _⟩
  split at hr
  · -- Config
    split at hr
    · cases hr; exact ⟨fun _ ho => (nomatch ho), fun _ => hk⟩
    · cases hr
      exact ⟨fun _ ho => (nomatch ho), fun _ => hk.same rfl rfl⟩
  · cases hr; exact ⟨fun _ ho => (nomatch ho), fun _ => hk⟩

/-! ## histories -/

/-- every entry of the history satisfies the assumptions, relative to the state it is applied to -/
def ArgsHistory (st : St) : List Entry → Prop
  | [] => True
  | e :: es => SvcEntryOK st e ∧ EntryNamesOK e ∧ ∀ st' out, applyEntry st e = .ok (st', out) → ArgsHistory st' es

/-- **histories**: every line of every output batch produced along a well-formed history has a command -/
theorem runLines_hc {st st' : St} {es : List Entry} {outs : List Out} (h : GInv st) (hk : KInv st)
    (hw : WfHistory st es) (ha : ArgsHistory st es) (hr : runLines st es = .ok (st', outs)) :
    KInv st' ∧ ∀ o ∈ outs, HasCommand o.data := by
  induction es generalizing st outs with
  | nil => unfold runLines at hr; cases hr; exact ⟨hk, fun _ ho => nomatch ho⟩
  | cons e es ih =>
    unfold runLines at hr
    obtain ⟨he, _, hnext⟩ := hw
    obtain ⟨hs, hn, hanext⟩ := ha
    split at hr
    · rename_i st1 out hap
      obtain ⟨o1, k1⟩ := applyEntry_kinv st st1 e out h hk he hs hap
      split at hr
      · rename_i st2 outs2 hro
        cases hr
        obtain ⟨k2, o2⟩ := ih (applyEntry_preserves st st1 e out h he hap) (k1 hn) (hnext st1 out hap)
          (hanext st1 out hap) hro
        refine ⟨k2, fun o ho => ?_⟩
        rcases List.mem_append.1 ho with ho | ho
        · exact o1 o ho
        · exact o2 o ho
      · cases hr
      · cases hr
    · cases hr
    · cases hr

/-- a state-independent form of the assumptions: session ids are `uint64`; every posted line that parses has a
prefix — if it has one — without space and of at most 160 bytes, a `SERVER` line announces a name of at most 300
bytes, and the fourth parameter of a `NICK` line contains no space (the last two matter only for `SERVER` by a
client and `NICK` by services) -/
structure EntryLineOK (e : Entry) : Prop where
  create : e.type = 0 → e.id < 2 ^ 64
  line : e.type = 2 → ∀ m, parseMessage e.data = some m → ServerLineOK m ∧ SvcLineOK m

theorem ArgsHistory.of_all {es : List Entry} (h : ∀ e ∈ es, EntryLineOK e) : ∀ st, ArgsHistory st es := by
  induction es with
  | nil => intro _; trivial
  | cons e es ih =>
    intro st
    have he := h e (List.mem_cons_self ..)
    exact ⟨fun ht m _ hm _ _ => (he.line ht m hm).2, ⟨he.create, fun ht m hm => (he.line ht m hm).1⟩,
      fun st' _ _ => ih (fun x hx => h x (List.mem_cons_of_mem _ hx)) st'⟩

/-! ## from the invariants of C01 / C12 / C15(a) to `KInv` -/

/-- what is assumed of the sessions whose prefix or user name comes from services — links (`server = true`) and
pseudo-clients (`reply ≠ 0`): the stored prefix has no space and at most 300 bytes, the stored user name has no
space -/
def SrvPrefixOK (st : St) : Prop :=
  ∀ id s, AMap.get st.sessions id = some s → (s.server = true ∨ id.reply ≠ 0) →
    Spaceless s.ircPrefix.str ∧ s.ircPrefix.str.utf8ByteSize ≤ 300 ∧ Spaceless s.username

/-- session ids are Raft indexes (`uint64`) -/
def Ids64 (st : St) : Prop := ∀ id s, AMap.get st.sessions id = some s → id.id < 2 ^ 64

/-- under `GInv`, `PInv`, `UInv`, a short server name and the two assumptions above, every stored prefix is
bounded: `KInv` -/
theorem KInv.of_gpu {st : St} (h : GPUInv st) (hn : SrvNameOK st) (hs : SrvPrefixOK st) (hid : Ids64 st) :
    KInv st := by
  refine ⟨fun e he => ?_, hn⟩
  obtain ⟨id, s⟩ := e
  have hg : AMap.get st.sessions id = some s := (AMap.get_iff_mem h.ginv.inv.sessNodup).2 he
  have eid : s.id = id := (h.ginv.inv.sessId id s hg).1
  have hnick : s.nick.utf8ByteSize ≤ 31 ∧ Spaceless s.nick := by
    by_cases hne : s.nick = ""
    · rw [hne]; exact ⟨by decide, spaceless_empty⟩
    · obtain ⟨a, b, c⟩ := validNick_bounds ((h.ginv.ni.sess id s hg).2 hne)
      rw [utf8ByteSize_ascii b]; exact ⟨a, c⟩
  have hu := h.uinv id s hg
  have hul : s.username.toList.length ≤ 30 := hu.1
  have hi64 : s.id.id < 2 ^ 64 := by rw [eid]; exact hid id s hg
  show KSess s
  cases hsrv : s.server with
  | true =>
    obtain ⟨a, b, c⟩ := hs id s hg (Or.inl hsrv)
    exact ⟨a, by unfold pfxCap; rw [hsrv]; exact b, hnick.2, hnick.1, c, hul, hi64⟩
  | false =>
    have husp : Spaceless s.username := by
      by_cases h0 : id.reply = 0
      · exact hu.2 (by rw [eid]; exact h0)
      · exact (hs id s hg (Or.inr h0)).2.2
    have hcap : pfxCap s = 178 := by unfold pfxCap; rw [hsrv]; rfl
    rcases h.pinv id s hg hsrv with hp | ⟨_, _, hp⟩
    · have hub : s.username.utf8ByteSize ≤ 120 := by
        have := utf8ByteSize_le s.username
        omega
      obtain ⟨hh, sh⟩ := robustHost_bounds hi64
      have hb := prefix_str_bounds (sessPrefix s) (a := 31) (b := 120) (d := 25) hnick.1 hub hh hnick.2 husp sh
      exact ⟨by rw [hp]; exact hb.2, by rw [hp, hcap]; exact hb.1, hnick.2, hnick.1, husp, hul, hi64⟩
    · exact ⟨by rw [hp]; decide, by rw [hp, hcap]; decide, hnick.2, hnick.1, husp, hul, hi64⟩

/-- conversely `KInv` gives the assumption back: it is kept by every handler and entry -/
theorem KInv.srvPrefixOK {st : St} (h : KInv st) : SrvPrefixOK st := by
  intro id s hg _
  have k := h.get hg
  have := k.pfxLen
  have := pfxCap_le s
  exact ⟨k.pfxSp, by omega, k.userSp⟩

instance (s : Session) : Decidable (KSess s) :=
  decidable_of_iff (Spaceless s.ircPrefix.str ∧ s.ircPrefix.str.utf8ByteSize ≤ pfxCap s ∧ Spaceless s.nick ∧
      s.nick.utf8ByteSize ≤ 31 ∧ Spaceless s.username ∧ s.username.toList.length ≤ 30 ∧ s.id.id < 2 ^ 64)
    ⟨fun ⟨a, b, c, d, e, f, g⟩ => ⟨a, b, c, d, e, f, g⟩, fun ⟨a, b, c, d, e, f, g⟩ => ⟨a, b, c, d, e, f, g⟩⟩

/-- a checkable form for concrete states -/
theorem KInv.of_all {st : St} (h : st.sessions.all (fun e => decide (KSess e.2)) = true)
    (hn : Spaceless st.serverName ∧ st.serverName.utf8ByteSize ≤ 63) : KInv st := by
  refine ⟨fun e he => ?_, ⟨hn.1, hn.2⟩⟩
  have := List.all_eq_true.1 h _ he
  simpa using this

/-- handlers that are not services handlers (`cmdServer…`) -/
def clientHandler (fname : String) : Bool := !hasPrefix fname "cmdServer"

theorem clientHandler_spec {fname : String} (h : clientHandler fname = true) :
    usesMsgPfx fname = false ∧ fname ≠ "cmdServer" ∧ fname ≠ "cmdServerNick" := by
  refine ⟨?_, ?_, ?_⟩
  · cases hu : usesMsgPfx fname with
    | false => rfl
    | true =>
      unfold usesMsgPfx at hu
      simp only [List.contains_eq_mem, List.mem_cons, List.not_mem_nil, or_false, decide_eq_true_eq] at hu
      rcases hu with rfl | rfl | rfl | rfl | rfl | rfl | rfl | rfl <;> exact absurd h (by decide)
  · rintro rfl; exact absurd h (by decide)
  · rintro rfl; exact absurd h (by decide)

/-- **client handlers**: for every handler of the table that is not a services handler, called for a stored
session that is not a services link with a message whose command is good (the dispatch provides that) and whose
middle parameters contain no space (true of every parsed line), every new line has a command -/
theorem client_handler_hc {fname : String} {h : Handler} (hh : handlerByName fname = some h)
    (hcl : clientHandler fname = true) {c c' : Ctx} {sid : Id} {m : IrcMsg} {s : Session} (hk : KInv c.st)
    (hs : AMap.get c.st.sessions sid = some s) (hsrv : s.server = false) (hg : GoodCmd m.command) (hmid : MidOK m)
    (hu : fname = "cmdUser" → 2 ≤ m.params.length) (hr : h c sid m = .ok c') :
    KInv c'.st ∧ NewOut HC c c' := by
  obtain ⟨h1, h2, h3⟩ := clientHandler_spec hcl
  have k := handler_kstep hh (KStep.start hk) (sid := sid) (m := m)
    ⟨hg, hmid, fun _ s' hs' => by rw [hs] at hs'; cases hs'; exact hsrv, hu, fun h' => absurd h' h2,
      fun h' => absurd h' h3, fun h' => by rw [h1] at h'; cases h'⟩ hr
  exact ⟨k.inv, k.out⟩

/-! ## parsed lines: only lengths are assumptions -/

/-- the characters before the first space are not spaces -/
theorem indexOfChar_take {cs : List Char} {i : Nat} (h : indexOfChar cs ' ' = some i) :
    ∀ c ∈ cs.take i, c ≠ ' ' := by
  induction cs generalizing i with
  | nil => simp [indexOfChar] at h
  | cons a t ih =>
    unfold indexOfChar at h
    rw [List.findIdx?_cons] at h
    split at h
    · cases h; intro c hc; simp at hc
    · rename_i hne
      cases hj : List.findIdx? (fun x => x == ' ') t with
      | none => rw [hj] at h; cases h
      | some j =>
        rw [hj] at h
        cases h
        intro c hc
        rw [List.take_succ_cons] at hc
        rcases List.mem_cons.1 hc with rfl | hc
        · intro he; subst he; exact hne rfl
        · exact ih (i := j) hj c hc

theorem parsePrefix_spaceless {raw : List Char} (h : ∀ c ∈ raw, c ≠ ' ') :
    Spaceless (parsePrefix raw).name ∧ Spaceless (parsePrefix raw).user ∧ Spaceless (parsePrefix raw).host := by
  have t : ∀ n, Spaceless (String.ofList (raw.take n)) := fun n =>
    spaceless_ofList fun c hc => h c (List.mem_of_mem_take hc)
  have d : ∀ n, Spaceless (String.ofList (raw.drop n)) := fun n =>
    spaceless_ofList fun c hc => h c (List.mem_of_mem_drop hc)
  have td : ∀ n k, Spaceless (String.ofList ((raw.take n).drop k)) := fun n k =>
    spaceless_ofList fun c hc => h c (List.mem_of_mem_take (List.mem_of_mem_drop hc))
  have r : Spaceless (String.ofList raw) := spaceless_ofList h
  unfold parsePrefix
  dsimp only
  split
  · split
    · exact ⟨t _, td _ _, d _⟩
    · split
      · exact ⟨t _, d _, spaceless_empty⟩
      · split
        · exact ⟨t _, spaceless_empty, d _⟩
        · exact ⟨r, spaceless_empty, spaceless_empty⟩
  · split
    · exact ⟨t _, d _, spaceless_empty⟩
    · exact ⟨r, spaceless_empty, spaceless_empty⟩
  · split
    · exact ⟨t _, spaceless_empty, d _⟩
    · exact ⟨r, spaceless_empty, spaceless_empty⟩
  · exact ⟨r, spaceless_empty, spaceless_empty⟩

/-- the prefix of a parsed line contains no space -/
theorem parseMessage_pfx_spaceless {raw : String} {m : IrcMsg} (hp : parseMessage raw = some m) :
    ∀ p, m.pfx = some p → Spaceless p.str := by
  intro p hpx
  unfold parseMessage at hp
  dsimp only at hp
  split at hp
  · cases hp
  · split at hp
    · split at hp
      · cases hp
      · rename_i i hi
        split at hp
        · cases hp
        · cases hp
          rw [parseRest_pfx] at hpx
          cases hpx
          obtain ⟨a, b, c⟩ := parsePrefix_spaceless (raw := (List.take i _).drop 1)
            (fun c hc => indexOfChar_take hi c (List.mem_of_mem_drop hc))
          have e0 : ∀ s : String, s.utf8ByteSize ≤ s.utf8ByteSize := fun _ => Nat.le_refl _
          exact (prefix_str_bounds _ (e0 _) (e0 _) (e0 _) a b c).2
    · cases hp
      rw [parseRest_pfx] at hpx
      cases hpx

/-- for a parsed line only the length of the prefix is an assumption -/
theorem PfxArgOK.of_parsed {raw : String} {m : IrcMsg} (hp : parseMessage raw = some m)
    (hl : ∀ p, m.pfx = some p → p.str.utf8ByteSize ≤ 160) : PfxArgOK m :=
  fun p hpx => ⟨parseMessage_pfx_spaceless hp p hpx, hl p hpx⟩

/-- the fourth of at least five parameters is not the trailing one -/
theorem MidOK.param3 {m : IrcMsg} (h : MidOK m) (hl : 5 ≤ m.params.length) {x : String}
    (hx : m.params[3]? = some x) : Spaceless x := by
  apply h x
  rw [List.dropLast_eq_take]
  have h3 : (m.params.take (m.params.length - 1))[3]? = some x := by
    rw [List.getElem?_take]
    rw [if_pos (by omega)]
    exact hx
  exact List.mem_of_getElem? h3
/-- **a parsed line of services**: its prefix contains no space (it ends at the first space), and the user name of
a `NICK` line with at least five parameters is not the trailing parameter; what remains an assumption is the
length of the prefix -/
theorem SvcLineOK.of_parsed {raw : String} {m : IrcMsg} (hp : parseMessage raw = some m)
    (hl : ∀ p, m.pfx = some p → p.str.utf8ByteSize ≤ 160)
    (hn : toUpper m.command = "NICK" → 5 ≤ m.params.length) : SvcLineOK m :=
  ⟨PfxArgOK.of_parsed hp hl, fun hc _ hx => (parseMessage_midOK hp).param3 (hn hc) hx⟩

end Robust.Irc
