import Robust.Irc.Proofs.CleanInv
/-!
C15: the read-only client handlers keep `CCtx` (state untouched, every new line is clean).
-/
namespace Robust.Irc
open Robust AMap

theorem cmdPing_clean {c c' : Ctx} {sid : Id} {m : IrcMsg} (hc : CCtx c) (hm : CleanMsg m)
    (hr : cmdPing c sid m = .ok c') : CCtx c' := by
  have hI := hc.inv
  unfold cmdPing at hr
  cwalk hr

theorem cmdMotd_clean {c c' : Ctx} {sid : Id} {m : IrcMsg} (hc : CCtx c)
    (hr : cmdMotd c sid m = .ok c') : CCtx c' := by
  have hI := hc.inv
  unfold cmdMotd at hr
  cwalk hr

theorem cmdPrivmsg_clean {c c' : Ctx} {sid : Id} {m : IrcMsg} (hc : CCtx c) (hm : CleanMsg m)
    (hr : cmdPrivmsg c sid m = .ok c') : CCtx c' := by
  have hI := hc.inv
  unfold cmdPrivmsg at hr
  cwalk hr

theorem serviceAliases_clean : ∀ a ∈ serviceAliases, Clean a.2 := by decide

theorem cmdServiceAlias_clean {c c' : Ctx} {sid : Id} {m : IrcMsg} (hc : CCtx c) (hm : CleanMsg m)
    (hr : cmdServiceAlias c sid m = .ok c') : CCtx c' := by
  unfold cmdServiceAlias at hr
  split at hr
  · cases hr; exact hc
  · rename_i a ha
    split at hr
    · cases hr
    · rename_i pm hpm
      refine cmdPrivmsg_clean hc ?_ hr
      refine parseMessage_clean _ _ ?_ hpm
      exact clean_append_iff.2 ⟨serviceAliases_clean a (List.mem_of_find?_eq_some ha), hm.joinParams⟩

theorem cmdIson_clean {c c' : Ctx} {sid : Id} {m : IrcMsg} (hc : CCtx c) (_hm : CleanMsg m)
    (hr : cmdIson c sid m = .ok c') : CCtx c' := by
  have hI := hc.inv
  unfold cmdIson at hr
  obtain ⟨s, hs, hr⟩ := Res.bind_eq_ok.1 hr
  obtain ⟨on, hon, hr⟩ := Res.bind_eq_ok.1 hr
  have hj : Clean (joinStr " " (on.filterMap id)) := by
    refine clean_join_filterMap ?_ _ clean_lit_space
    refine mapRes_all hon ?_
    intro n _ o hfo x hx
    subst hx
    split at hfo
    · obtain ⟨t, ht, hfo⟩ := Res.bind_eq_ok.1 hfo
      cases hfo; clean_atom
    · cases hfo
  cwalk hr

theorem cmdUserhost_clean {c c' : Ctx} {sid : Id} {m : IrcMsg} (hc : CCtx c) (_hm : CleanMsg m)
    (hr : cmdUserhost c sid m = .ok c') : CCtx c' := by
  have hI := hc.inv
  unfold cmdUserhost at hr
  obtain ⟨s, hs, hr⟩ := Res.bind_eq_ok.1 hr
  obtain ⟨on, hon, hr⟩ := Res.bind_eq_ok.1 hr
  have hj : Clean (joinStr " " (on.filterMap id)) := by
    refine clean_join_filterMap ?_ _ clean_lit_space
    refine mapRes_all hon ?_
    intro n _ o hfo x hx
    subst hx
    split at hfo
    · obtain ⟨t, ht, hfo⟩ := Res.bind_eq_ok.1 hfo
      cases hfo; clean_atom
    · cases hfo
  cwalk hr

theorem cmdList_clean {c c' : Ctx} {sid : Id} {m : IrcMsg} (hc : CCtx c) (_hm : CleanMsg m)
    (hr : cmdList c sid m = .ok c') : CCtx c' := by
  have hI := hc.inv
  unfold cmdList at hr
  obtain ⟨s, hs, hr⟩ := Res.bind_eq_ok.1 hr
  cases hr
  have cs := hc.getS hs
  refine CCtx.sendUser' ?_ (fun hI2 => by clean_msg)
  refine CCtx.foldl ?_ hc
  intro c1 lc _ h1
  have hI1 := h1.inv
  split
  · exact h1
  · split
    · exact h1
    · cctx_tac

theorem cmdKnock_clean {c c' : Ctx} {sid : Id} {m : IrcMsg} (hc : CCtx c) (hm : CleanMsg m)
    (hr : cmdKnock c sid m = .ok c') : CCtx c' := by
  have hI := hc.inv
  unfold cmdKnock at hr
  cwalk hr

theorem cmdNames_clean {c c' : Ctx} {sid : Id} {m : IrcMsg} (hc : CCtx c) (hm : CleanMsg m)
    (hr : cmdNames c sid m = .ok c') : CCtx c' := by
  have hI := hc.inv
  unfold cmdNames at hr
  obtain ⟨s, hs, hr⟩ := Res.bind_eq_ok.1 hr
  dsimp only at hr
  split at hr
  · cases hr; cctx_tac
  · split at hr
    · cases hr; cctx_tac
    · obtain ⟨en, hen, hr⟩ := Res.bind_eq_ok.1 hr
      have hj : Clean (joinStr " " ((en.filterMap id).mergeSort (fun a b => a ≤ b))) := by
        refine clean_join_sorted ?_ _ clean_lit_space
        refine mapRes_all hen ?_
        intro e _ o hfo x hx
        subst hx
        split at hfo
        · cases hfo
        · split at hfo
          · cases hfo
          · split at hfo
            · cases hfo
            · cases hfo; clean_atom
      cases hr; cctx_tac

theorem cmdWho_clean {c c' : Ctx} {sid : Id} {m : IrcMsg} (hc : CCtx c) (hm : CleanMsg m)
    (hr : cmdWho c sid m = .ok c') : CCtx c' := by
  have hI := hc.inv
  unfold cmdWho at hr
  obtain ⟨s, hs, hr⟩ := Res.bind_eq_ok.1 hr
  dsimp only at hr
  split at hr
  · cases hr; cctx_tac
  · split at hr
    · cases hr; cctx_tac
    · split at hr
      · cases hr; cctx_tac
      · obtain ⟨mem, hmem, hr⟩ := Res.bind_eq_ok.1 hr
        obtain ⟨c1, h1, hr⟩ := Res.bind_eq_ok.1 hr
        have hc1 : CCtx c1 := by
          refine CCtx.foldlM ?_ hc h1
          intro c2 nick c3 _ h2 h3
          have hI2 := h2.inv
          split at h3
          · cases h3
          · obtain ⟨ms, hms, h3⟩ := Res.bind_eq_ok.1 h3
            cases h3; cctx_tac
        have hI1 := hc1.inv
        cases hr; cctx_tac

theorem cmdWhois_clean {c c' : Ctx} {sid : Id} {m : IrcMsg} (hc : CCtx c) (hm : CleanMsg m)
    (hr : cmdWhois c sid m = .ok c') : CCtx c' := by
  have hI := hc.inv
  unfold cmdWhois at hr
  obtain ⟨s, hs, hr⟩ := Res.bind_eq_ok.1 hr
  obtain ⟨p0, hp0, hr⟩ := Res.bind_eq_ok.1 hr
  split at hr
  · cases hr; cctx_tac
  · obtain ⟨t, ht, hr⟩ := Res.bind_eq_ok.1 hr
    obtain ⟨chans, hchans, hr⟩ := Res.bind_eq_ok.1 hr
    have hj : Clean (joinStr " " ((chans.filterMap id).mergeSort (fun a b => a ≤ b))) := by
      refine clean_join_sorted ?_ _ clean_lit_space
      refine mapRes_all hchans ?_
      intro lc _ o hfo x hx
      subst hx
      split at hfo
      · cases hfo
      · split at hfo
        · cases hfo
        · split at hfo
          · cases hfo
          · cases hfo; clean_atom
    dsimp only at hr
    split at hr
    · cases hr
    · cases hr; cctx_tac

end Robust.Irc
