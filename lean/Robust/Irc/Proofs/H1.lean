import Robust.Irc.Proofs.H1a
import Robust.Irc.Proofs.H1b
import Robust.Irc.Proofs.H1c
import Robust.Irc.Proofs.H1d
/-!
Handler proofs, group 1 (client handlers that change state) — umbrella and summary.

| handler      | preservation                                            | panic-freedom                         |
|--------------|---------------------------------------------------------|---------------------------------------|
| `cmdMotd`    | `cmdMotd_preserves  : Preserves cmdMotd`                | `cmdMotd_safe  : ClientSafe … 0 true` |
| `cmdOper`    | `cmdOper_preserves  : Preserves cmdOper`                | `cmdOper_safe  : ClientSafe … 2 true` |
| `maybeLogin` | `maybeLogin_preserves : Preserves maybeLogin`           | `maybeLogin_noPanic` (needs `Pre` only) |
| `cmdUser`    | `cmdUser_preserves  : Preserves cmdUser`                | `cmdUser_safe  : ClientSafe … 3 false`|
| `cmdPass`    | `cmdPass_preserves  : Preserves cmdPass`                | `cmdPass_safe  : ClientSafe … 0 false`|
| `cmdQuit`    | `cmdQuit_preserves  : Preserves cmdQuit`                | `cmdQuit_safe  : ClientSafe … 0 false`|
| `cmdPart`    | `cmdPart_preservesL : PreservesL cmdPart` (†)           | `cmdPart_safe  : ClientSafe … 1 true` |
| `cmdKick`    | `cmdKick_preserves  : Preserves cmdKick`                | `cmdKick_safe  : ClientSafe … 2 true` |
| `cmdKill`    | `cmdKill_preserves  : Preserves cmdKill`                | `cmdKill_safe  : ClientSafe … 2 true` |
| `cmdGline`   | `cmdGline_preserves : Preserves cmdGline`               | `cmdGline_safe : ClientSafe … 2 true` |
| `cmdNick`    | `cmdNick_post` (‡, extra hypothesis `hfirst`)           | `cmdNick_safe  : ClientSafe … 0 false`|
| `cmdJoin`    | `cmdJoin_preservesL' : … → PreservesL cmdJoin` (†, §)   | `cmdJoin_safe` (§)                    |

(†) `Preserves` is false for a nickless actor; `PreservesL` adds "the actor is logged in" (which the
    gate guarantees for these commands); the core lemmas `cmdPart_pre` only need `nick ≠ ""`.
(‡) `Inv` allows a nickless session to be indexed under `""` or to list channels; NICK then breaks the
    invariant, so `cmdNick_pre`/`cmdNick_post` assume that a nickless actor is unindexed and in no channel.
(§) relative to `SubOK cmdMode`, `SubOK cmdTopic`, `SubOK cmdNames` (`PreservesPre` + `KeepsActor`) and, for
    panic-freedom, `ClientSafe cmdMode 1 true`, `ClientSafe cmdTopic 1 true`, `ClientSafe cmdNames 0 true`.

All handlers but `cmdQuit`/`cmdKill`/`cmdGline` are moreover shown to re-establish `Pre` (`PreservesPre`,
i.e. no session is left flagged): `cmdMotd_pre`, `cmdOper_pre`, `maybeLogin_pre`, `cmdUser_pre`,
`cmdPass_pre`, `cmdKick_pre`, `cmdPart_pre`, `cmdNick_pre`, `joinOne_pre`, `joinLoop_pre`.
-/
namespace Robust.Irc
open AMap

/-- JOIN in `PreservesL` form -/
theorem cmdJoin_preservesL' (hMode : SubOK cmdMode) (hTopic : SubOK cmdTopic) (hNames : SubOK cmdNames) :
    PreservesL cmdJoin :=
  fun _ _ _ _ _ hp hs hl hr => cmdJoin_preservesL hMode hTopic hNames hp hs hl hr

/-- NICK for a registered actor needs no side condition: `LInv` gives it a nickname -/
theorem cmdNick_preservesL : PreservesL cmdNick :=
  fun _ sid _ _ s hp hs hl hr =>
    cmdNick_post hp (fun s' hs' he => by
      rw [hs] at hs'; cases hs'
      exact absurd he (hp.linv sid s hs hl)) hr

end Robust.Irc
