import Robust.Irc.Proofs.PermHandler
/-!
Order-independence, part 7: the invariants are insensitive to the order of the maps.

* `Inv`, `LInv`, `NInv`, `VInv`, hence `GInv`, transfer along the working relation `StEq`
  (and hence along `≈` on states satisfying the invariant);
* `UniqNick` (a non-empty nickname has one owner) follows from `Inv` and survives the updates
  that `applyEntry` performs before the handler runs;
* the prefix of a *parsed* line has a non-empty name (`MsgPfxOK`).
-/
set_option linter.unusedVariables false
namespace Robust.Irc
open Robust

/-! ### lookups on related states -/

theorem StEq.sess_fwd {st st' : St} (h : StEq st st') {id : Id} {s : Session}
    (hg : AMap.get st.sessions id = some s) : ∃ s', AMap.get st'.sessions id = some s' ∧ SessEq s s' := by
  have := h.sessions.rel id
  rw [hg] at this
  exact this.of_some

theorem StEq.sess_bwd {st st' : St} (h : StEq st st') {id : Id} {s' : Session}
    (hg : AMap.get st'.sessions id = some s') : ∃ s, AMap.get st.sessions id = some s ∧ SessEq s s' := by
  have := h.sessions.rel id
  rw [hg] at this
  exact this.of_some'

theorem StEq.chan_fwd {st st' : St} (h : StEq st st') {lc : String} {c : Channel}
    (hg : AMap.get st.channels lc = some c) : ∃ c', AMap.get st'.channels lc = some c' ∧ ChanEq c c' := by
  have := h.channels.rel lc
  rw [hg] at this
  exact this.of_some

theorem StEq.chan_bwd {st st' : St} (h : StEq st st') {lc : String} {c' : Channel}
    (hg : AMap.get st'.channels lc = some c') : ∃ c, AMap.get st.channels lc = some c ∧ ChanEq c c' := by
  have := h.channels.rel lc
  rw [hg] at this
  exact this.of_some'

/-! ### the invariants transfer -/

theorem WInvCore.of_stEq {st st' : St} (hI : WInvCore st) (h : StEq st st') : WInvCore st' := by
  refine ⟨h.sessions.nd', h.nicks.nd', h.channels.nd', ?_, ?_, ?_, ?_⟩
  · intro id s' hg
    obtain ⟨s, hg0, hs⟩ := h.sess_bwd hg
    obtain ⟨e1, e2⟩ := hI.sessId id s hg0
    exact ⟨by rw [hs.id]; exact e1, hs.channels.nodup_iff.1 e2⟩
  · intro id s' hg hd hn
    obtain ⟨s, hg0, hs⟩ := h.sess_bwd hg
    rw [h.get_nicks, hs.nick]
    exact hI.owns id s hg0 (by rw [← hs.deleted]; exact hd) (by rw [← hs.nick]; exact hn)
  · intro lc id hi
    rw [h.get_nicks] at hi
    obtain ⟨s, hg0, hd, hl⟩ := hI.index lc id hi
    obtain ⟨s', hg', hs⟩ := h.sess_fwd hg0
    exact ⟨s', hg', by rw [hs.deleted]; exact hd, by rw [hs.nick]; exact hl⟩
  · intro lc c' hg
    obtain ⟨c, hg0, hc⟩ := h.chan_bwd hg
    obtain ⟨e1, e2, e3⟩ := hI.chans lc c hg0
    refine ⟨by rw [hc.name]; exact e1, hc.nicks.nd', fun n hn => ?_⟩
    obtain ⟨id, s, h1, h2, h3⟩ := e3 n ((hc.nicks.mem_keys_iff n).2 hn)
    obtain ⟨s', hg', hs⟩ := h.sess_fwd h2
    exact ⟨id, s', by rw [h.get_nicks]; exact h1, hg', (hs.mem_channels lc).2 h3⟩

theorem WInv.of_stEq {st st' : St} (hI : WInv st) (h : StEq st st') : WInv st' := by
  refine ⟨hI.toWInvCore.of_stEq h, ?_⟩
  intro lc id s' hi hg ch hch
  rw [h.get_nicks] at hi
  obtain ⟨s, hg0, hs⟩ := h.sess_bwd hg
  obtain ⟨c, hc0, hcont⟩ := hI.member lc id s hi hg0 ch ((hs.mem_channels ch).1 hch)
  obtain ⟨c', hc', hce⟩ := h.chan_fwd hc0
  exact ⟨c', hc', by rw [hce.contains_nicks]; exact hcont⟩

theorem HInv.of_stEq {st st' : St} (hI : HInv st) (h : StEq st st') : HInv st' := by
  refine ⟨hI.toWInv.of_stEq h, ?_⟩
  intro lc c' hg hnil
  obtain ⟨c, hg0, hc⟩ := h.chan_bwd hg
  exact hI.nonempty lc c hg0 (hc.nicks.eq_nil_iff.2 hnil)

theorem Inv.of_stEq {st st' : St} (hI : Inv st) (h : StEq st st') : Inv st' := by
  refine ⟨hI.toHInv.of_stEq h, ?_⟩
  intro id s' hg
  obtain ⟨s, hg0, hs⟩ := h.sess_bwd hg
  rw [hs.deleted]; exact hI.noDeleted id s hg0

theorem LInv.of_stEq {st st' : St} (hI : LInv st) (h : StEq st st') : LInv st' := by
  intro id s' hg hl
  obtain ⟨s, hg0, hs⟩ := h.sess_bwd hg
  rw [hs.nick]; exact hI id s hg0 (by rw [← hs.loggedIn]; exact hl)

theorem NInv.of_stEq {st st' : St} (hI : NInv st) (h : StEq st st') : NInv st' := by
  refine ⟨by rw [h.get_nicks]; exact hI.1, ?_⟩
  intro id s' hg hn
  obtain ⟨s, hg0, hs⟩ := h.sess_bwd hg
  obtain ⟨e1, e2⟩ := hI.2 id s hg0 (by rw [← hs.nick]; exact hn)
  refine ⟨?_, fun x => by rw [h.get_nicks]; exact e2 x⟩
  have := hs.channels
  rw [e1] at this
  exact List.perm_nil.1 this.symm

theorem VInv.of_stEq {st st' : St} (hI : VInv st) (h : StEq st st') : VInv st' := by
  refine ⟨?_, ?_⟩
  · intro id s' hg hn
    obtain ⟨s, hg0, hs⟩ := h.sess_bwd hg
    rw [hs.nick]; exact hI.1 id s hg0 (by rw [← hs.nick]; exact hn)
  · intro lc c' hg
    obtain ⟨c, hg0, hc⟩ := h.chan_bwd hg
    rw [hc.name]; exact hI.2 lc c hg0

theorem GInv.of_stEq {st st' : St} (hI : GInv st) (h : StEq st st') : GInv st' :=
  ⟨hI.inv.of_stEq h, hI.linv.of_stEq h, hI.ninv.of_stEq h, hI.vinv.of_stEq h⟩

theorem HoldsNodup.of_stEq {st st' : St} (h : StEq st st') : HoldsNodup st' := h.svsholds.nd'

/-- the invariants transfer along `≈` -/
theorem Inv.of_equiv {st st' : St} (hI : Inv st) (hS : HoldsNodup st) (h : st ≈ st') : Inv st' :=
  hI.of_stEq (St.Equiv.toStEq h hI.toWInvCore hS)

theorem GInv.of_equiv {st st' : St} (hI : GInv st) (hS : HoldsNodup st) (h : st ≈ st') : GInv st' :=
  hI.of_stEq (St.Equiv.toStEq h hI.inv.toWInvCore hS)

/-! ### `UniqNick` -/

theorem UniqNick.of_inv {st : St} (hI : Inv st) : UniqNick st := by
  intro id id' s s' hg hg' hn he
  have hn' : s'.nick ≠ "" := by
    intro e
    rw [e, nickToLower_empty] at he
    exact hn (nickToLower_eq_empty.1 he)
  have h1 := hI.owns id s hg (hI.noDeleted id s hg) hn
  have h2 := hI.owns id' s' hg' (hI.noDeleted id' s' hg') hn'
  rw [he, h2] at h1
  cases h1; rfl

/-- overwriting a stored session without changing its nick keeps `UniqNick` -/
theorem UniqNick.set_same_nick {st : St} (hu : UniqNick st) {k : Id} {s0 s1 : Session}
    (hg : AMap.get st.sessions k = some s0) (hn : s1.nick = s0.nick) :
    UniqNick { st with sessions := AMap.set st.sessions k s1 } := by
  intro id id' s s' h1 h2 hne he
  simp only [AMap.get_set] at h1 h2
  by_cases e1 : id = k
  · by_cases e2 : id' = k
    · rw [e1, e2]
    · rw [if_pos e1] at h1; rw [if_neg e2] at h2
      cases h1
      rw [e1]
      exact hu k id' s0 s' hg h2 (by rw [← hn]; exact hne) (by rw [← hn]; exact he)
  · rw [if_neg e1] at h1
    by_cases e2 : id' = k
    · rw [if_pos e2] at h2
      cases h2
      rw [e2]
      exact hu id k s s0 h1 hg hne (by rw [← hn]; exact he)
    · rw [if_neg e2] at h2
      exact hu id id' s s' h1 h2 hne he

theorem UniqNick.congr {st st' : St} (hu : UniqNick st) (hs : st'.sessions = st.sessions) : UniqNick st' := by
  unfold UniqNick at *
  rw [hs]; exact hu

/-! ### the prefix of a parsed line -/

theorem parsePrefix_name_ne {raw : List Char} (h : raw ≠ []) : (parsePrefix raw).name ≠ "" := by
  have take_ne : ∀ u, u > 0 → String.ofList (raw.take u) ≠ "" := by
    intro u hu e
    rw [ofList_eq_empty] at e
    cases raw with
    | nil => exact h rfl
    | cons a t =>
      cases u with
      | zero => exact absurd hu (Nat.lt_irrefl 0)
      | succ n => simp at e
  have raw_ne : String.ofList raw ≠ "" := fun e => h (ofList_eq_empty.1 e)
  unfold parsePrefix
  dsimp only
  split
  · split
    · rename_i hc; exact take_ne _ hc.1
    · split
      · rename_i hc; exact take_ne _ hc
      · split
        · rename_i hc; exact take_ne _ hc
        · exact raw_ne
  · split
    · rename_i hc; exact take_ne _ hc
    · exact raw_ne
  · split
    · rename_i hc; exact take_ne _ hc
    · exact raw_ne
  · exact raw_ne

theorem indexOfChar_lt {cs : List Char} {c : Char} {i : Nat} (h : indexOfChar cs c = some i) : i < cs.length := by
  unfold indexOfChar at h
  exact (List.findIdx?_eq_some_iff_findIdx_eq.1 h).1

theorem parseMessage_pfxOK {raw : String} {m : IrcMsg} (h : parseMessage raw = some m) : MsgPfxOK m := by
  intro p hp
  unfold parseMessage at h
  dsimp only at h
  split at h
  · cases h
  · split at h
    · split at h
      · cases h
      · rename_i cs _ _ i hi
        split at h
        · cases h
        · rename_i hi2
          simp only [Option.some.injEq] at h
          subst h
          rw [parseRest_pfx] at hp
          cases hp
          apply parsePrefix_name_ne
          intro e
          have hl := indexOfChar_lt hi
          have := congrArg List.length e
          simp only [List.length_drop, List.length_take, List.length_nil] at this
          omega
    · simp only [Option.some.injEq] at h
      subst h
      rw [parseRest_pfx] at hp
      cases hp

end Robust.Irc
