import Robust.Irc.Proofs.PermDelete
/-!
Order-independence, part 6: what "handler congruence" means.

`HCongr h`: on equivalent contexts `h` gives the same kind of result and, when it returns,
equivalent contexts.  No invariant is needed: the working relation `CEq` carries the
duplicate-freeness of all keys.

Two services handlers (`cmdServerQuit`, `cmdServerKill`) search the sessions for the owner of a
nickname with an early exit; they need that a non-empty nickname has at most one owner
(`UniqNick`, a consequence of `Inv`) and that the prefix name of the line is not empty
(`MsgPfxOK`, true of every parsed line): `HCongrU`.
-/
namespace Robust.Irc
open Robust

def HCongr (h : Handler) : Prop := ∀ c c' sid m, CEq c c' → RRel CEq (h c sid m) (h c' sid m)

/-- a non-empty (lower-cased) nickname is carried by at most one stored session -/
def UniqNick (st : St) : Prop :=
  ∀ id id' s s', AMap.get st.sessions id = some s → AMap.get st.sessions id' = some s' →
    s.nick ≠ "" → nickToLower s.nick = nickToLower s'.nick → id = id'

/-- the prefix of a line, if present, has a non-empty name -/
def MsgPfxOK (m : IrcMsg) : Prop := ∀ p, m.pfx = some p → p.name ≠ ""

def HCongrU (h : Handler) : Prop :=
  ∀ c c' sid m, UniqNick c.st → MsgPfxOK m → CEq c c' → RRel CEq (h c sid m) (h c' sid m)

theorem HCongr.toU {h : Handler} (hh : HCongr h) : HCongrU h := fun c c' sid m _ _ hc => hh c c' sid m hc

end Robust.Irc

namespace Robust.Irc
open Robust

/-! ### small automation for the leaves of the handler walks -/

theorem srv_def (c : Ctx) (cmd : String) (ps : List String) :
    srv c cmd ps = ⟨some ⟨c.st.serverName, "", ""⟩, cmd, ps⟩ := rfl

theorem putS_st_serverName (c : Ctx) (s : Session) : (putS c s).st.serverName = c.st.serverName := rfl
theorem putChan_st_serverName (c : Ctx) (lc : String) (ch : Channel) :
    (putChan c lc ch).st.serverName = c.st.serverName := rfl
theorem emit_replyid (c : Ctx) (m : IrcMsg) (r : List Nat) : (emit c m r).replyid = c.replyid + 1 := rfl
theorem sendUser_replyid (c : Ctx) (sid : Id) (m : IrcMsg) : (sendUser c sid m).replyid = c.replyid + 1 := rfl
theorem sendSvc_replyid (c : Ctx) (m : IrcMsg) : (sendSvc c m).replyid = c.replyid + 1 := rfl

/-- recipient lists: close `l.Perm l'` goals built from `++`, hypotheses, `rcServices`, `rcAllUsers` -/
syntax "perm_tac" : tactic
macro_rules
  | `(tactic| perm_tac) => `(tactic| first
      | with_reducible assumption
      | with_reducible exact List.Perm.refl _
      | with_reducible exact rcServices_perm (CEq.st (by assumption))
      | with_reducible exact rcAllUsers_perm (CEq.st (by assumption))
      | with_reducible exact rcServices_perm (by assumption)
      | with_reducible exact rcAllUsers_perm (by assumption)
      | (with_reducible apply List.Perm.append <;> perm_tac))

/-- contexts: close `CEq …` / `RRel CEq (pure …) (pure …)` goals built from `emit`, `sendUser`,
`sendSvc` on top of a hypothesis, when the messages are syntactically equal -/
syntax "ceq" : tactic
macro_rules
  | `(tactic| ceq) => `(tactic| first
      | with_reducible assumption
      | (refine RRel.ok ?_; ceq)
      | (refine sendUser_congr ?_ _ (by with_reducible rfl); ceq)
      | (refine sendSvc_congr ?_ (by with_reducible rfl); ceq)
      | (refine emit_congr ?_ (by with_reducible rfl) ?_ <;> first | ceq | perm_tac))

end Robust.Irc

namespace Robust.Irc
open Robust

theorem sendUser_srv_congr {c c' : Ctx} (h : CEq c c') (sid : Id) (cmd : String) {ps ps' : List String} (hp : ps' = ps) :
    CEq (sendUser c sid (srv c cmd ps)) (sendUser c' sid (srv c' cmd ps')) := by
  subst hp; exact sendUser_congr h sid (srv_congr h _ _)

theorem sendSvc_srv_congr {c c' : Ctx} (h : CEq c c') (cmd : String) {ps ps' : List String} (hp : ps' = ps) :
    CEq (sendSvc c (srv c cmd ps)) (sendSvc c' (srv c' cmd ps')) := by
  subst hp; exact sendSvc_congr h (srv_congr h _ _)

theorem emit_srv_congr {c c' : Ctx} (h : CEq c c') (cmd : String) {ps ps' : List String} (hp : ps' = ps)
    {r r' : List Nat} (hr : r.Perm r') : CEq (emit c (srv c cmd ps) r) (emit c' (srv c' cmd ps') r') := by
  subst hp; exact emit_congr h (srv_congr h _ _) hr

/-- like `ceq`, also for messages built with `srv` from the context itself -/
syntax "ceqs" : tactic
macro_rules
  | `(tactic| ceqs) => `(tactic| first
      | with_reducible assumption
      | (refine RRel.ok ?_; ceqs)
      | (refine sendUser_srv_congr ?_ _ _ (by with_reducible rfl); ceqs)
      | (refine sendSvc_srv_congr ?_ _ (by with_reducible rfl); ceqs)
      | (refine emit_srv_congr ?_ _ (by with_reducible rfl) ?_ <;> first | ceqs | perm_tac)
      | (refine sendUser_congr ?_ _ (by with_reducible rfl); ceqs)
      | (refine sendSvc_congr ?_ (by with_reducible rfl); ceqs)
      | (refine emit_congr ?_ (by with_reducible rfl) ?_ <;> first | ceqs | perm_tac))

end Robust.Irc

namespace Robust.Irc
/-- after `extract_lets … c c' …`: relate the two let-bound contexts and forget their values -/
macro "ceq_let " h:ident c:ident c':ident : tactic =>
  `(tactic| (
    have $h : CEq $c $c' := by
      first
        | ceqs
        | (show CEq (if _ then _ else _) (if _ then _ else _); split <;> ceqs)
    clear_value $c:ident $c':ident))
end Robust.Irc

namespace Robust.Irc
open Robust

/-- `ChanEq` of two channel literals, field by field -/
theorem ChanEq.ofFields {n n' tn tn' t t' k k' : String} {tt tt' : Int} {ni ni' : AMap String Member}
    {mo mo' : List Char} {b b' : List Ban}
    (h1 : n' = n) (h2 : tn' = tn) (h3 : tt' = tt) (h4 : t' = t)
    (h5 : MEq (fun (a b : Member) => a = b) ni ni') (h6 : mo' = mo) (h7 : k' = k) (h8 : b' = b) :
    ChanEq ⟨n, tn, tt, t, ni, mo, k, b⟩ ⟨n', tn', tt', t', ni', mo', k', b'⟩ := by
  subst h1 h2 h3 h4 h6 h7 h8
  exact ⟨rfl, h5⟩

/-- `chaneq hch`: prove `ChanEq lit lit'` for two `{ ch with … }` literals from `hch : ChanEq ch ch'`;
goals about a changed member map are left to the user -/
macro "chaneq " h:term : tactic =>
  `(tactic| (refine ChanEq.ofFields ?_ ?_ ?_ ?_ ?_ ?_ ?_ ?_ <;>
      try (first
        | with_reducible rfl
        | exact ChanEq.name $h | exact ChanEq.topicNick $h | exact ChanEq.topicTime $h | exact ChanEq.topic $h
        | exact ChanEq.nicks $h | exact ChanEq.modes $h | exact ChanEq.key $h | exact ChanEq.bans $h)))

end Robust.Irc
