import Robust.Irc.Proofs.H1a
/-!
Handler proofs, group 1 — part d: `joinOne`, `joinLoop`, `cmdJoin`.
The three sub-handlers `cmdMode`, `cmdTopic`, `cmdNames` that `joinOne` calls at its end are
taken as hypotheses (`SubOK`, `ClientSafe`).
-/
namespace Robust.Irc
open AMap

/-! ## factoring `joinOne` -/

/-- the admission phase of `joinOne`: `none` = `continue`, `some mm` = go on (with the `MODE +nt`
announcement `mm` when the channel was created) -/
def joinAdmit (c : Ctx) (sid : Id) (s : Session) (channelname key : String) :
    Res (Ctx × Option (Option IrcMsg)) :=
  let lc := chanToLower channelname
  (match getChan c lc with
    | none =>
      if c.st.channels.length ≥ c.st.config.maxChannels && c.st.config.maxChannels > 0 then
        Res.ok (sendUser c sid (srv c "403" [s.nick, channelname, "No such channel"]), none, true)
      else
        let ch : Channel := { name := channelname, modes := ['n', 't'] }
        Res.ok (putChan c lc ch, some (srv c "MODE" [channelname, "+nt"]), false)
    | some ch =>
      if ch.modes.contains 'i' && !s.invitedTo.contains lc then
        Res.ok (sendUser c sid (srv c "473" [s.nick, ch.name, "Cannot join channel (+i)"]), none, true)
      else if ch.modes.contains 'x' && !s.invitedTo.contains lc then
        Res.declined "captcha join"
      else do
        let isB ← isBanned ch.bans s.ircPrefix.str (s.nick ++ "!" ++ s.username ++ "@" ++ s.remoteAddr)
        if isB then
          Res.ok (sendUser c sid (srv c "474" [s.nick, ch.name, "Cannot join channel (+b)"]), none, true)
        else if ch.modes.contains 'k' && ch.key != key then
          Res.ok (sendUser c sid (srv c "475" [s.nick, channelname, "Cannot join channel (+k) - Incorrect key"]), none, true)
        else Res.ok (c, none, false)) >>= fun (r : Ctx × Option IrcMsg × Bool) =>
      if r.2.2 then Res.ok (r.1, none) else Res.ok (r.1, some r.2.1)

/-- the announcements at the end of `joinOne` (after the member has been added) -/
def joinAnnounce (c : Ctx) (sid : Id) (channelname : String) (ch : Channel) (existed : Bool)
    (modesmsg : Option IrcMsg) : Res Ctx := do
  let s ← getS c sid
  let rc ← rcChannel c.st ch
  let c := emit c ⟨some s.ircPrefix, "JOIN", [channelname]⟩ rc
  let c ← (match modesmsg with
    | some mm => do
      let rc ← rcChannel c.st ch
      pure (emit c mm rc)
    | none => pure c)
  let c := emit c (srv c "SJOIN" ["1", channelname, (if !existed then "@" else "") ++ s.nick]) (rcServices c.st)
  let c ← cmdMode c sid ⟨none, "MODE", [channelname]⟩
  let c ← cmdTopic c sid ⟨none, "TOPIC", [channelname]⟩
  cmdNames c sid ⟨none, "NAMES", [channelname]⟩

/-- `joinOne` after the admission phase -/
def joinTail (c : Ctx) (sid : Id) (s : Session) (channelname : String) (existed : Bool)
    (modesmsg : Option IrcMsg) : Res Ctx := do
  let lc := chanToLower channelname
  let some ch := getChan c lc | .panic "channel is nil (cmdJoin)"
  let c ← (if ch.modes.contains 'i' || ch.modes.contains 'x' then
      modS c sid fun s => { s with invitedTo := s.invitedTo.filter (· ≠ lc) } else pure c)
  let lcn := nickToLower s.nick
  if AMap.contains ch.nicks lcn then return c
  let ch := { ch with nicks := AMap.set ch.nicks lcn { chanop := !existed } }
  let c := putChan c lc ch
  let c ← modS c sid fun s => { s with channels := setInsert s.channels lc }
  joinAnnounce c sid channelname ch existed modesmsg

theorem joinOne_eq (c : Ctx) (sid : Id) (chn key : String) :
    joinOne c sid chn key = (do
      let s ← getS c sid
      if !isValidChannel chn then
        return sendUser c sid (srv c "403" [s.nick, chn, "No such channel"])
      let r ← joinAdmit c sid s chn key
      match r.2 with
      | none => pure r.1
      | some mm => joinTail r.1 sid s chn (getChan c (chanToLower chn)).isSome mm) := by
  unfold joinOne joinAdmit
  refine bind_congr fun s => ?_
  refine ite_congr rfl (fun _ => rfl) (fun _ => ?_)
  dsimp only
  generalize (getChan c (chanToLower chn)).isSome = ex
  generalize getChan c (chanToLower chn) = oc
  cases oc <;>
  · dsimp only
    refine bind_congr fun r => ?_
    obtain ⟨c1, mm⟩ := r
    cases mm with
    | none => rfl
    | some mm =>
      dsimp only
      unfold joinTail joinAnnounce
      dsimp only
      cases getChan c1 (chanToLower chn) <;> rfl

/-! ## the interface to `cmdMode`, `cmdTopic`, `cmdNames` -/

/-- the handler keeps the actor stored with the same `loggedIn` and `server` flags -/
def KeepsActor (h : Ctx → Id → IrcMsg → Res Ctx) : Prop :=
  ∀ c sid m c' s, Pre c sid → AMap.get c.st.sessions sid = some s → h c sid m = .ok c' →
    ∃ s', AMap.get c'.st.sessions sid = some s' ∧ s'.loggedIn = s.loggedIn ∧ s'.server = s.server

/-- what `joinOne` needs from `cmdMode`, `cmdTopic`, `cmdNames` -/
structure SubOK (h : Ctx → Id → IrcMsg → Res Ctx) : Prop where
  pre : PreservesPre h
  keeps : KeepsActor h

/-- `PreservesPre` = `Preserves` + "no session is flagged deleted afterwards" -/
theorem preservesPre_iff {h : Ctx → Id → IrcMsg → Res Ctx} :
    PreservesPre h ↔ Preserves h ∧
      (∀ c sid m c', Pre c sid → h c sid m = .ok c' →
        ∀ id s, AMap.get c'.st.sessions id = some s → s.deleted = false) := by
  constructor
  · intro hh
    exact ⟨hh.preserves, fun c sid m c' hp hr => (hh c sid m c' hp hr).1.inv.noDeleted⟩
  · rintro ⟨h1, h2⟩ c sid m c' hp hr
    have po := h1 c sid m c' hp hr
    exact ⟨⟨⟨po.hinv, h2 c sid m c' hp hr⟩, po.linv, po.actorKept, hp.reply0⟩, po.outStep⟩

/-! ## the state between the primitives of `joinOne` -/

/-- `Pre` without the actor, and with channel `lc` possibly (still) empty -/
structure JPre (c : Ctx) (sid : Id) (lc : String) : Prop where
  winv : WInv c.st
  but : ChansNonemptyBut c.st lc
  live : ∀ id s, AMap.get c.st.sessions id = some s → s.deleted = false
  linv : LInv c.st
  reply0 : sid.reply = 0

theorem Pre.jpre {c : Ctx} {sid : Id} (hp : Pre c sid) (lc : String) : JPre c sid lc :=
  ⟨hp.inv.toWInv, hp.inv.nonempty.but lc, hp.inv.noDeleted, hp.linv, hp.reply0⟩

theorem JPre.pre {c : Ctx} {sid : Id} {lc : String} (h : JPre c sid lc) (hne : ChansNonempty c.st)
    (ha : ∃ s, AMap.get c.st.sessions sid = some s) : Pre c sid :=
  ⟨⟨⟨h.winv, hne⟩, h.live⟩, h.linv, ha, h.reply0⟩

theorem live_modS {c c' : Ctx} {tid : Id} {f : Session → Session}
    (h : ∀ id s, AMap.get c.st.sessions id = some s → s.deleted = false)
    (hr : modS c tid f = .ok c') (hf : ∀ s, (f s).deleted = s.deleted) :
    ∀ id s, AMap.get c'.st.sessions id = some s → s.deleted = false := by
  obtain ⟨t, ht, rfl⟩ := modS_eq_ok.1 hr
  intro id s hg
  rw [putS_sessions, AMap.get_set] at hg
  split at hg
  · cases hg; rw [hf]; exact h _ _ ht
  · exact h id s hg

theorem isBanned_noPanic (bans : List Ban) (uh uha : String) : NoPanic (isBanned bans uh uha) := by
  induction bans with
  | nil => exact NoPanic.ok _
  | cons b rest ih =>
    unfold isBanned
    split
    · exact NoPanic.declined _
    · split
      · exact NoPanic.ok _
      · exact ih

/-! ## the admission phase -/

theorem joinAdmit_spec {c c1 : Ctx} {sid : Id} {s : Session} {chn key : String} {mm : Option (Option IrcMsg)}
    (hp : Pre c sid) (hr : joinAdmit c sid s chn key = .ok (c1, mm)) :
    OutStep c c1 ∧ c1.st.sessions = c.st.sessions ∧
    ((mm = none ∧ c1.st = c.st) ∨
     (∃ m, mm = some m ∧ JPre c1 sid (chanToLower chn) ∧
        ∃ ch, AMap.get c1.st.channels (chanToLower chn) = some ch)) := by
  unfold joinAdmit at hr
  dsimp only at hr
  obtain ⟨r, h1, hr⟩ := Res.bind_eq_ok.1 hr
  simp only [getChan_eq] at h1
  split at h1
  · rename_i hnone
    split at h1
    · cases h1
      simp only [↓reduceIte] at hr
      cases hr
      exact ⟨by outstep, rfl, Or.inl ⟨rfl, rfl⟩⟩
    · cases h1
      simp only [Bool.false_eq_true, ↓reduceIte] at hr
      cases hr
      refine ⟨by outstep, rfl, Or.inr ⟨_, rfl, ⟨?_, ?_, hp.inv.noDeleted, hp.linv.putChan _ _, hp.reply0⟩, ?_⟩⟩
      · exact WInv_putChan_new hp.inv.toWInv hnone rfl rfl
      · exact ChansNonemptyBut_putChan _ _ (hp.inv.nonempty.but _)
      · exact ⟨_, by rw [putChan_channels]; exact AMap.get_set_same _ _ _⟩
  · rename_i ch hch
    split at h1
    · cases h1
      simp only [↓reduceIte] at hr
      cases hr
      exact ⟨by outstep, rfl, Or.inl ⟨rfl, rfl⟩⟩
    · split at h1
      · cases h1
      · obtain ⟨isB, _, h1⟩ := Res.bind_eq_ok.1 h1
        split at h1
        · cases h1
          simp only [↓reduceIte] at hr
          cases hr
          exact ⟨by outstep, rfl, Or.inl ⟨rfl, rfl⟩⟩
        · split at h1
          · cases h1
            simp only [↓reduceIte] at hr
            cases hr
            exact ⟨by outstep, rfl, Or.inl ⟨rfl, rfl⟩⟩
          · cases h1
            simp only [Bool.false_eq_true, ↓reduceIte] at hr
            cases hr
            exact ⟨OutStep.refl _, rfl, Or.inr ⟨_, rfl, hp.jpre _, ch, hch⟩⟩

theorem joinAdmit_noPanic (c : Ctx) (sid : Id) (s : Session) (chn key : String) :
    NoPanic (joinAdmit c sid s chn key) := by
  unfold joinAdmit
  dsimp only
  refine NoPanic.bind ?_ fun r _ => ?_
  · split
    · split
      · exact NoPanic.ok _
      · exact NoPanic.ok _
    · split
      · exact NoPanic.ok _
      · split
        · exact NoPanic.declined _
        · refine NoPanic.bind (isBanned_noPanic _ _ _) fun isB _ => ?_
          split
          · exact NoPanic.ok _
          · split
            · exact NoPanic.ok _
            · exact NoPanic.ok _
  · split
    · exact NoPanic.ok _
    · exact NoPanic.ok _

/-! ## the steps of `joinTail` -/

/-- the optional "invites are only valid once" update -/
theorem joinInvite_spec {c c2 : Ctx} {sid : Id} {s : Session} {lc : String} {b : Bool} (hj : JPre c sid lc)
    (hs : AMap.get c.st.sessions sid = some s)
    (h2 : (if b = true then modS c sid fun s => { s with invitedTo := s.invitedTo.filter (· ≠ lc) } else pure c)
      = .ok c2) :
    JPre c2 sid lc ∧ OutStep c c2 ∧ c2.st.channels = c.st.channels ∧
    ∃ s2, AMap.get c2.st.sessions sid = some s2 ∧ s2.loggedIn = s.loggedIn ∧ s2.server = s.server ∧
      s2.nick = s.nick := by
  cases b with
  | false =>
    cases h2
    exact ⟨hj, OutStep.refl _, rfl, s, hs, rfl, rfl, rfl⟩
  | true =>
    simp only [↓reduceIte] at h2
    have hid : s.id = sid := (hj.winv.sessId sid s hs).1
    have hg := modS_get_self (f := fun s => { s with invitedTo := s.invitedTo.filter (· ≠ lc) }) hs hid h2
    have hch : c2.st.channels = c.st.channels := by
      obtain ⟨t, _, rfl⟩ := modS_eq_ok.1 h2; rfl
    have hw : WInv c2.st := by
      refine WInv_modS_inert _ ?_ hj.winv h2
      intro _; exact ⟨rfl, rfl, rfl, rfl⟩
    refine ⟨⟨hw, ?_,
      live_modS hj.live h2 (fun _ => rfl), hj.linv.modS h2 (fun t ht hli => hj.linv sid t ht hli), hj.reply0⟩,
      (OutStep.refl c).modS h2, hch, _, hg, rfl, rfl, rfl⟩
    intro lc' c3 hne hg3
    rw [hch] at hg3
    exact hj.but lc' c3 hne hg3

theorem contains_ne_nil {ν : Type} {m : AMap String ν} {k : String} (h : AMap.contains m k = true) : m ≠ [] := by
  intro hnil
  subst hnil
  cases h

/-- adding the member: the `putChan` + `modS` pair -/
theorem joinAdd_spec {c c' : Ctx} {sid : Id} {s : Session} {lc : String} {ch : Channel} {mem : Member}
    (hj : JPre c sid lc) (hs : AMap.get c.st.sessions sid = some s) (hl : s.loggedIn = true)
    (hch : AMap.get c.st.channels lc = some ch)
    (hr : modS (putChan c lc { ch with nicks := AMap.set ch.nicks (nickToLower s.nick) mem }) sid
            (fun t => { t with channels := setInsert t.channels lc }) = .ok c') :
    Pre c' sid ∧ OutStep c c' ∧
    (∃ s', AMap.get c'.st.sessions sid = some s' ∧ s'.loggedIn = s.loggedIn ∧ s'.server = s.server) ∧
    AMap.get c'.st.channels lc = some { ch with nicks := AMap.set ch.nicks (nickToLower s.nick) mem } := by
  have hid : s.id = sid := (hj.winv.sessId sid s hs).1
  have hidx : AMap.get c.st.nicks (nickToLower s.nick) = some sid :=
    hj.winv.owns sid s hs (hj.live sid s hs) (hj.linv sid s hs hl)
  have hI : HInv c'.st := addMember_HInv hj.winv hj.but hidx (Or.inl hch) hr
  have hg := modS_get_self (c := putChan c lc { ch with nicks := AMap.set ch.nicks (nickToLower s.nick) mem })
    (f := fun t => { t with channels := setInsert t.channels lc }) hs hid hr
  refine ⟨⟨⟨hI, live_modS (c := putChan c lc _) hj.live hr (fun _ => rfl)⟩,
      (hj.linv.putChan _ _).modS hr (fun t ht hli => hj.linv sid t ht hli), ⟨_, hg⟩, hj.reply0⟩,
    ((OutStep.refl c).putChan _ _).modS hr, ⟨_, hg, rfl, rfl⟩, (addMember_lookups hr).1⟩

/-- the `MODE +nt` announcement for a new channel -/
theorem joinModes_spec {c c1 : Ctx} {ch : Channel} {mm : Option IrcMsg}
    (h1 : (match mm with
      | some mm => do
        let rc ← rcChannel c.st ch
        pure (emit c mm rc)
      | none => pure c) = Res.ok c1) : c1.st = c.st ∧ OutStep c c1 := by
  cases mm with
  | none => cases h1; exact ⟨rfl, OutStep.refl _⟩
  | some m =>
    obtain ⟨rc, _, h1⟩ := Res.bind_eq_ok.1 h1
    cases h1
    exact ⟨rfl, by outstep⟩

/-! ## preservation -/

section pre
variable (hMode : SubOK cmdMode) (hTopic : SubOK cmdTopic) (hNames : SubOK cmdNames)
include hMode hTopic hNames

theorem joinAnnounce_pre {c c' : Ctx} {sid : Id} {s : Session} {chn : String} {ch : Channel} {ex : Bool}
    {mm : Option IrcMsg} (hp : Pre c sid) (hs : AMap.get c.st.sessions sid = some s)
    (hr : joinAnnounce c sid chn ch ex mm = .ok c') :
    Pre c' sid ∧ OutStep c c' ∧
    ∃ s', AMap.get c'.st.sessions sid = some s' ∧ s'.loggedIn = s.loggedIn ∧ s'.server = s.server := by
  unfold joinAnnounce at hr
  obtain ⟨s1, hs1, hr⟩ := Res.bind_eq_ok.1 hr
  obtain ⟨rc, hrc, hr⟩ := Res.bind_eq_ok.1 hr
  dsimp only at hr
  obtain ⟨c1, h1, hr⟩ := Res.bind_eq_ok.1 hr
  obtain ⟨e1, ho1⟩ := joinModes_spec h1
  obtain ⟨c2, h2, hr⟩ := Res.bind_eq_ok.1 hr
  obtain ⟨c3, h3, hr⟩ := Res.bind_eq_ok.1 hr
  have e1' : c1.st = c.st := e1
  have hp1 : Pre (emit c1 (srv c1 "SJOIN" ["1", chn, (if (!ex) = true then "@" else "") ++ s1.nick])
      (rcServices c1.st)) sid := hp.congr_st e1
  have hs1' : AMap.get (emit c1 (srv c1 "SJOIN" ["1", chn, (if (!ex) = true then "@" else "") ++ s1.nick])
      (rcServices c1.st)).st.sessions sid = some s := by rw [emit_st, e1']; exact hs
  have ho1' : OutStep c (emit c1 (srv c1 "SJOIN" ["1", chn, (if (!ex) = true then "@" else "") ++ s1.nick])
      (rcServices c1.st)) := (((OutStep.refl c).emit _ _).trans ho1).emit _ _
  generalize emit c1 (srv c1 "SJOIN" ["1", chn, (if (!ex) = true then "@" else "") ++ s1.nick])
      (rcServices c1.st) = c1' at h2 hp1 hs1' ho1'
  obtain ⟨hp2, ho2⟩ := hMode.pre _ _ _ _ hp1 h2
  obtain ⟨s2, hs2, hl2, hv2⟩ := hMode.keeps _ _ _ _ _ hp1 hs1' h2
  obtain ⟨hp3, ho3⟩ := hTopic.pre _ _ _ _ hp2 h3
  obtain ⟨s3, hs3, hl3, hv3⟩ := hTopic.keeps _ _ _ _ _ hp2 hs2 h3
  obtain ⟨hp4, ho4⟩ := hNames.pre _ _ _ _ hp3 hr
  obtain ⟨s4, hs4, hl4, hv4⟩ := hNames.keeps _ _ _ _ _ hp3 hs3 hr
  exact ⟨hp4, ((ho1'.trans ho2).trans ho3).trans ho4, s4, hs4,
    by rw [hl4, hl3, hl2], by rw [hv4, hv3, hv2]⟩

theorem joinTail_pre {c c' : Ctx} {sid : Id} {s : Session} {chn : String} {ex : Bool} {mm : Option IrcMsg}
    (hj : JPre c sid (chanToLower chn)) (hs : AMap.get c.st.sessions sid = some s) (hl : s.loggedIn = true)
    (hr : joinTail c sid s chn ex mm = .ok c') :
    Pre c' sid ∧ OutStep c c' ∧
    ∃ s', AMap.get c'.st.sessions sid = some s' ∧ s'.loggedIn = true ∧ s'.server = s.server := by
  unfold joinTail at hr
  dsimp only at hr
  simp only [getChan_eq] at hr
  split at hr
  · rename_i ch hch
    obtain ⟨c2, h2, hr⟩ := Res.bind_eq_ok.1 hr
    obtain ⟨hj2, ho2, hch2, s2, hs2, hl2, hv2, hn2⟩ := joinInvite_spec hj hs h2
    rw [← hch2] at hch
    split at hr
    · rename_i hcont
      cases hr
      refine ⟨hj2.pre ?_ ⟨s2, hs2⟩, ho2, s2, hs2, by rw [hl2]; exact hl, hv2⟩
      intro lc' c3 hg
      by_cases he : lc' = chanToLower chn
      · subst he
        rw [hch] at hg; cases hg
        exact contains_ne_nil hcont
      · exact hj2.but lc' c3 he hg
    · obtain ⟨c3, h3, hr⟩ := Res.bind_eq_ok.1 hr
      rw [← hn2] at h3
      obtain ⟨hp3, ho3, ⟨s3, hs3, hl3, hv3⟩, _⟩ := joinAdd_spec hj2 hs2 (by rw [hl2]; exact hl) hch h3
      obtain ⟨hp4, ho4, s4, hs4, hl4, hv4⟩ := joinAnnounce_pre hMode hTopic hNames hp3 hs3 hr
      exact ⟨hp4, (ho2.trans ho3).trans ho4, s4, hs4, by rw [hl4, hl3, hl2]; exact hl, by rw [hv4, hv3, hv2]⟩
  · cases hr

theorem joinOne_pre {c c' : Ctx} {sid : Id} {s : Session} {chn key : String}
    (hp : Pre c sid) (hs : AMap.get c.st.sessions sid = some s) (hl : s.loggedIn = true)
    (hr : joinOne c sid chn key = .ok c') :
    Pre c' sid ∧ OutStep c c' ∧
    ∃ s', AMap.get c'.st.sessions sid = some s' ∧ s'.loggedIn = true ∧ s'.server = s.server := by
  rw [joinOne_eq] at hr
  obtain ⟨s0, hs0, hr⟩ := Res.bind_eq_ok.1 hr
  rw [getS_eq_ok, hs] at hs0
  cases hs0
  split at hr
  · cases hr
    exact ⟨hp.congr_st rfl, by outstep, s, hs, hl, rfl⟩
  · obtain ⟨r, hadm, hr⟩ := Res.bind_eq_ok.1 hr
    obtain ⟨c1, mm⟩ := r
    obtain ⟨ho1, hsess, hcase⟩ := joinAdmit_spec hp hadm
    have hs1 : AMap.get c1.st.sessions sid = some s := by rw [hsess]; exact hs
    rcases hcase with ⟨rfl, e⟩ | ⟨m, rfl, hj, _⟩
    · cases hr
      exact ⟨hp.congr_st e, ho1, s, hs1, hl, rfl⟩
    · dsimp only at hr
      obtain ⟨hp2, ho2, hk⟩ := joinTail_pre hMode hTopic hNames hj hs1 hl hr
      exact ⟨hp2, ho1.trans ho2, hk⟩

theorem joinLoop_pre {keys chans : List String} {idx : Nat} {c c' : Ctx} {sid : Id} {s : Session}
    (hp : Pre c sid) (hs : AMap.get c.st.sessions sid = some s) (hl : s.loggedIn = true)
    (hr : joinLoop c sid keys chans idx = .ok c') :
    Pre c' sid ∧ OutStep c c' ∧
    ∃ s', AMap.get c'.st.sessions sid = some s' ∧ s'.loggedIn = true ∧ s'.server = s.server := by
  induction chans generalizing c idx s with
  | nil =>
    cases hr
    exact ⟨hp, OutStep.refl _, s, hs, hl, rfl⟩
  | cons ch rest ih =>
    unfold joinLoop at hr
    obtain ⟨c1, h1, hr⟩ := Res.bind_eq_ok.1 hr
    obtain ⟨hp1, ho1, s1, hs1, hl1, hv1⟩ := joinOne_pre hMode hTopic hNames hp hs hl h1
    obtain ⟨hp2, ho2, s2, hs2, hl2, hv2⟩ := ih hp1 hs1 hl1 hr
    exact ⟨hp2, ho1.trans ho2, s2, hs2, hl2, by rw [hv2, hv1]⟩

/-- JOIN preserves the invariants for a logged-in actor -/
theorem cmdJoin_preservesL {c c' : Ctx} {sid : Id} {m : IrcMsg} {s : Session} (hp : Pre c sid)
    (hs : AMap.get c.st.sessions sid = some s) (hl : s.loggedIn = true) (hr : cmdJoin c sid m = .ok c') :
    Post c c' sid := by
  unfold cmdJoin at hr
  obtain ⟨p0, _, hr⟩ := Res.bind_eq_ok.1 hr
  obtain ⟨hp1, ho1, _⟩ := joinLoop_pre hMode hTopic hNames hp hs hl hr
  exact Post.of_pre hp1 ho1

end pre

/-! ## panic-freedom -/

section safe
variable (hMode : SubOK cmdMode) (hTopic : SubOK cmdTopic) (hNames : SubOK cmdNames)
  (sMode : ClientSafe cmdMode 1 true) (sTopic : ClientSafe cmdTopic 1 true) (sNames : ClientSafe cmdNames 0 true)
include hMode hTopic hNames sMode sTopic sNames

omit hNames in
theorem joinAnnounce_noPanic {c : Ctx} {sid : Id} {s : Session} {chn : String} {ch : Channel} {ex : Bool}
    {mm : Option IrcMsg} (hp : Pre c sid) (hs : AMap.get c.st.sessions sid = some s)
    (hl : s.loggedIn = true) (hsv : s.server = false) (hrc : ∃ l, rcChannel c.st ch = .ok l) :
    NoPanic (joinAnnounce c sid chn ch ex mm) := by
  obtain ⟨rc, hrc⟩ := hrc
  unfold joinAnnounce
  rw [getS_of_get hs, hrc]
  simp only [Res.ok_bind]
  refine NoPanic.bind ?_ fun c1 h1 => ?_
  · cases mm with
    | none => exact NoPanic.pure _
    | some m =>
      dsimp only
      simp only [emit_st, hrc, Res.ok_bind]
      exact NoPanic.pure _
  obtain ⟨e1, ho1⟩ := joinModes_spec h1
  have e1' : c1.st = c.st := e1
  have hp1 : Pre (emit c1 (srv c1 "SJOIN" ["1", chn, (if (!ex) = true then "@" else "") ++ s.nick])
      (rcServices c1.st)) sid := hp.congr_st e1
  have hs1' : AMap.get (emit c1 (srv c1 "SJOIN" ["1", chn, (if (!ex) = true then "@" else "") ++ s.nick])
      (rcServices c1.st)).st.sessions sid = some s := by rw [emit_st, e1']; exact hs
  generalize emit c1 (srv c1 "SJOIN" ["1", chn, (if (!ex) = true then "@" else "") ++ s.nick])
      (rcServices c1.st) = c1' at hp1 hs1'
  refine NoPanic.bind (sMode _ _ _ _ hp1 hs1' hsv (fun _ => hl) (Nat.le_refl _)) fun c2 h2 => ?_
  obtain ⟨hp2, _⟩ := hMode.pre _ _ _ _ hp1 h2
  obtain ⟨s2, hs2, hl2, hv2⟩ := hMode.keeps _ _ _ _ _ hp1 hs1' h2
  refine NoPanic.bind (sTopic _ _ _ _ hp2 hs2 (by rw [hv2]; exact hsv) (fun _ => by rw [hl2]; exact hl)
    (Nat.le_refl _)) fun c3 h3 => ?_
  obtain ⟨hp3, _⟩ := hTopic.pre _ _ _ _ hp2 h3
  obtain ⟨s3, hs3, hl3, hv3⟩ := hTopic.keeps _ _ _ _ _ hp2 hs2 h3
  exact sNames _ _ _ _ hp3 hs3 (by rw [hv3, hv2]; exact hsv) (fun _ => by rw [hl3, hl2]; exact hl)
    (Nat.zero_le _)

set_option linter.unusedSectionVars false in -- `hNames` is kept so that the signatures are uniform
theorem joinTail_noPanic {c : Ctx} {sid : Id} {s : Session} {chn : String} {ex : Bool} {mm : Option IrcMsg}
    (hj : JPre c sid (chanToLower chn)) (hs : AMap.get c.st.sessions sid = some s) (hl : s.loggedIn = true)
    (hsv : s.server = false) (hex : ∃ ch, AMap.get c.st.channels (chanToLower chn) = some ch) :
    NoPanic (joinTail c sid s chn ex mm) := by
  obtain ⟨ch, hch⟩ := hex
  unfold joinTail
  dsimp only
  simp only [getChan_eq]
  rw [hch]
  dsimp only
  refine NoPanic.bind ?_ fun c2 h2 => ?_
  · split
    · rw [modS_of_get _ hs]; exact NoPanic.ok _
    · exact NoPanic.pure _
  obtain ⟨hj2, ho2, hch2, s2, hs2, hl2, hv2, hn2⟩ := joinInvite_spec hj hs h2
  rw [← hch2] at hch
  split
  · exact NoPanic.pure _
  · rw [← hn2]
    refine NoPanic.bind (NoPanic.of_ok ⟨_, modS_of_get (c := putChan c2 _ _) _ hs2⟩) fun c3 h3 => ?_
    obtain ⟨hp3, _, ⟨s3, hs3, hl3, hv3⟩, hch3⟩ := joinAdd_spec hj2 hs2 (by rw [hl2]; exact hl) hch h3
    exact joinAnnounce_noPanic hMode hTopic sMode sTopic sNames hp3 hs3 (by rw [hl3, hl2]; exact hl)
      (by rw [hv3, hv2]; exact hsv) (rcChannel_ok hp3.inv.toWInvCore hch3)

theorem joinOne_noPanic {c : Ctx} {sid : Id} {s : Session} {chn key : String}
    (hp : Pre c sid) (hs : AMap.get c.st.sessions sid = some s) (hl : s.loggedIn = true)
    (hsv : s.server = false) : NoPanic (joinOne c sid chn key) := by
  rw [joinOne_eq, getS_of_get hs]
  simp only [Res.ok_bind]
  split
  · exact NoPanic.pure _
  · refine NoPanic.bind (joinAdmit_noPanic _ _ _ _ _) fun r hadm => ?_
    obtain ⟨c1, mm⟩ := r
    obtain ⟨_, hsess, hcase⟩ := joinAdmit_spec hp hadm
    have hs1 : AMap.get c1.st.sessions sid = some s := by rw [hsess]; exact hs
    rcases hcase with ⟨rfl, _⟩ | ⟨m, rfl, hj, hex⟩
    · exact NoPanic.pure _
    · exact joinTail_noPanic hMode hTopic hNames sMode sTopic sNames hj hs1 hl hsv hex

theorem joinLoop_noPanic {keys chans : List String} {idx : Nat} {c : Ctx} {sid : Id} {s : Session}
    (hp : Pre c sid) (hs : AMap.get c.st.sessions sid = some s) (hl : s.loggedIn = true)
    (hsv : s.server = false) : NoPanic (joinLoop c sid keys chans idx) := by
  induction chans generalizing c idx s with
  | nil => exact NoPanic.ok _
  | cons ch rest ih =>
    unfold joinLoop
    refine NoPanic.bind (joinOne_noPanic hMode hTopic hNames sMode sTopic sNames hp hs hl hsv) fun c1 h1 => ?_
    obtain ⟨hp1, _, s1, hs1, hl1, hv1⟩ := joinOne_pre hMode hTopic hNames hp hs hl h1
    exact ih hp1 hs1 hl1 (by rw [hv1]; exact hsv)

theorem cmdJoin_safe : ClientSafe cmdJoin 1 true := by
  intro c sid m s hp hs hsv hl hn
  unfold cmdJoin
  obtain ⟨p0, hp0⟩ := param_ok (m := m) (i := 0) (by omega)
  rw [hp0]
  simp only [Res.ok_bind]
  exact joinLoop_noPanic hMode hTopic hNames sMode sTopic sNames hp hs (hl rfl) hsv

end safe

end Robust.Irc
