import Robust.Irc.Proofs.H2Base
/-!
Refusal frames for the privileged client commands (property C13).

`Refused c c' sid`: the handler left the replicated state as it was and everything it appended to
the output batch is addressed to the acting session only.

This file: the vocabulary (`chanOpOf`, `onChannel`), and the refusal frames of
`KICK`, `INVITE`, `TOPIC`, `KILL`, `GLINE`, `PRIVMSG/NOTICE $…`, `OPER`, `SERVER`.
-/
namespace Robust.Irc
open Robust AMap

/-! ## vocabulary -/

/-- the member entry of nick `nick` in channel `lc` -/
def memberOf (st : St) (nick lc : String) : Option Member :=
  match AMap.get st.channels lc with
  | some ch => AMap.get ch.nicks (nickToLower nick)
  | none => none

/-- `nick` is a member of channel `lc` with the channel-operator flag -/
def chanOpOf (st : St) (nick lc : String) : Bool :=
  match memberOf st nick lc with
  | some mem => mem.chanop
  | none => false

theorem chanOpOf_false_of_get {st : St} {nick lc : String} {ch : Channel} {mem : Member}
    (h : chanOpOf st nick lc = false) (hch : AMap.get st.channels lc = some ch)
    (hm : AMap.get ch.nicks (nickToLower nick) = some mem) : mem.chanop = false := by
  unfold chanOpOf memberOf at h
  rw [hch] at h
  dsimp only at h
  rw [hm] at h
  exact h

/-- the output a refusing handler produces: to the actor only -/
structure Refused (c c' : Ctx) (sid : Id) : Prop where
  st : c'.st = c.st
  out : ∃ extra, c'.out = c.out ++ extra ∧ ∀ o ∈ extra, o.rcpt = [sid.id]
  msgid : c'.msgid = c.msgid

theorem Refused.refl (c : Ctx) (sid : Id) : Refused c c sid := ⟨rfl, ⟨[], by simp, by simp⟩, rfl⟩

theorem Refused.trans {a b c : Ctx} {sid : Id} (h1 : Refused a b sid) (h2 : Refused b c sid) : Refused a c sid := by
  obtain ⟨e1, he1, ha1⟩ := h1.out
  obtain ⟨e2, he2, ha2⟩ := h2.out
  refine ⟨h2.st.trans h1.st, ⟨e1 ++ e2, by rw [he2, he1, List.append_assoc], ?_⟩, h2.msgid.trans h1.msgid⟩
  intro o ho
  rcases List.mem_append.1 ho with h | h
  · exact ha1 o h
  · exact ha2 o h

theorem Refused.sendUser {c c' : Ctx} {sid : Id} (h : Refused c c' sid) (m : IrcMsg) :
    Refused c (sendUser c' sid m) sid := by
  obtain ⟨e1, he1, ha1⟩ := h.out
  refine ⟨h.st, ⟨e1 ++ [⟨c'.msgid, c'.replyid + 1, m.render, [sid.id]⟩], ?_, ?_⟩, h.msgid⟩
  · show c'.out ++ _ = _
    rw [he1, List.append_assoc]
    rfl
  · intro o ho
    rcases List.mem_append.1 ho with h | h
    · exact ha1 o h
    · rw [List.mem_singleton.1 h]

theorem Refused.ite {c : Ctx} {sid : Id} {p : Prop} [Decidable p] {a b : Ctx} (ha : Refused c a sid)
    (hb : Refused c b sid) : Refused c (if p then a else b) sid := by
  split <;> assumption

theorem Refused.foldl {α : Type} {f : Ctx → α → Ctx} {c0 : Ctx} {sid : Id} (l : List α)
    (hf : ∀ c a, Refused c0 c sid → Refused c0 (f c a) sid) {c : Ctx} (hc : Refused c0 c sid) :
    Refused c0 (l.foldl f c) sid := by
  induction l generalizing c with
  | nil => exact hc
  | cons a t ih => exact ih (hf c a hc)

theorem Refused.emits {c c' : Ctx} {sid : Id} (h : Refused c c' sid) : Emits c c' :=
  ⟨h.st, by obtain ⟨e, he, _⟩ := h.out; exact ⟨e, he⟩, h.msgid⟩

/-- nobody but the actor is addressed by what was appended -/
theorem Refused.rcpt {c c' : Ctx} {sid : Id} (h : Refused c c' sid) {o : Out} (ho : o ∈ c'.out) (hn : o ∉ c.out) :
    o.rcpt = [sid.id] := by
  obtain ⟨e, he, ha⟩ := h.out
  rw [he] at ho
  rcases List.mem_append.1 ho with h | h
  · exact absurd h hn
  · exact ha o h

/-- closes goals `Refused c (sendUser (sendUser c …) …) sid` -/
macro "refused_tac" : tactic =>
  `(tactic| repeat (first
      | assumption
      | exact Refused.refl _ _
      | apply Refused.sendUser
      | apply Refused.ite))

/-! ## KICK -/

/-- KICK by a session that is not a channel operator of that channel (not a member, or a member
without the flag, or no such channel): nothing happens but a numeric to the actor -/
theorem cmdKick_refused {c c' : Ctx} {sid : Id} {m : IrcMsg} {s : Session} {chn : String}
    (hs : AMap.get c.st.sessions sid = some s) (hp0 : m.params[0]? = some chn)
    (hnop : chanOpOf c.st s.nick (chanToLower chn) = false)
    (hr : cmdKick c sid m = .ok c') : Refused c c' sid := by
  unfold cmdKick at hr
  rw [getS_of_get hs] at hr
  simp only [Res.ok_bind, param, hp0] at hr
  obtain ⟨target, _, hr⟩ := Res.bind_eq_ok.1 hr
  simp only [getChan_eq] at hr
  split at hr
  · cases hr; refused_tac
  · rename_i ch hch
    split at hr
    · cases hr; refused_tac
    · rename_i perms hperms
      have := chanOpOf_false_of_get hnop hch hperms
      simp only [this, Bool.not_false, ↓reduceIte] at hr
      cases hr; refused_tac

/-! ## INVITE -/

/-- INVITE into an invite-only channel by a non-operator of that channel: no invitation is recorded -/
theorem cmdInvite_refused {c c' : Ctx} {sid : Id} {m : IrcMsg} {s : Session} {chn : String} {ch : Channel}
    (hs : AMap.get c.st.sessions sid = some s) (hp1 : m.params[1]? = some chn)
    (hch : AMap.get c.st.channels (chanToLower chn) = some ch) (hi : ch.modes.contains 'i' = true)
    (hnop : chanOpOf c.st s.nick (chanToLower chn) = false)
    (hr : cmdInvite c sid m = .ok c') : Refused c c' sid := by
  unfold cmdInvite at hr
  rw [getS_of_get hs] at hr
  simp only [Res.ok_bind] at hr
  obtain ⟨nickname, _, hr⟩ := Res.bind_eq_ok.1 hr
  simp only [param, hp1, Res.ok_bind, getChan_eq, hch] at hr
  split at hr
  · cases hr; refused_tac
  · rename_i mem hmem
    have hop := chanOpOf_false_of_get hnop hch hmem
    split at hr
    · cases hr; refused_tac
    · obtain ⟨t, _, hr⟩ := Res.bind_eq_ok.1 hr
      split at hr
      · cases hr; refused_tac
      · simp only [hi, hop, Bool.not_false, Bool.and_self, ↓reduceIte] at hr
        cases hr; refused_tac

/-- INVITE by a session that is not on the channel (any channel modes): refused -/
theorem cmdInvite_refused_notOn {c c' : Ctx} {sid : Id} {m : IrcMsg} {s : Session} {chn : String}
    (hs : AMap.get c.st.sessions sid = some s) (hp1 : m.params[1]? = some chn)
    (hnot : memberOf c.st s.nick (chanToLower chn) = none)
    (hr : cmdInvite c sid m = .ok c') : Refused c c' sid := by
  unfold cmdInvite at hr
  rw [getS_of_get hs] at hr
  simp only [Res.ok_bind] at hr
  obtain ⟨nickname, _, hr⟩ := Res.bind_eq_ok.1 hr
  simp only [param, hp1, Res.ok_bind, getChan_eq] at hr
  unfold memberOf at hnot
  split at hr
  · cases hr; refused_tac
  · rename_i ch hch
    rw [hch] at hnot
    dsimp only at hnot
    rw [hnot] at hr
    cases hr; refused_tac

/-! ## TOPIC -/

/-- TOPIC (set, clear or query) by a session that does not list the channel: refused -/
theorem cmdTopic_refused_notOn {c c' : Ctx} {sid : Id} {m : IrcMsg} {s : Session} {chn : String}
    (hs : AMap.get c.st.sessions sid = some s) (hp0 : m.params[0]? = some chn)
    (hnot : s.channels.contains (chanToLower chn) = false)
    (hr : cmdTopic c sid m = .ok c') : Refused c c' sid := by
  unfold cmdTopic at hr
  rw [getS_of_get hs] at hr
  simp only [Res.ok_bind, param, hp0, getChan_eq] at hr
  split at hr
  · cases hr; refused_tac
  · simp only [hnot, Bool.not_false, ↓reduceIte] at hr
    cases hr; refused_tac

/-- TOPIC on a `+t` channel by a session without the channel-operator flag: the topic is neither
set nor cleared (a query is answered) -/
theorem cmdTopic_refused_t {c c' : Ctx} {sid : Id} {m : IrcMsg} {s : Session} {chn : String} {ch : Channel}
    (hs : AMap.get c.st.sessions sid = some s) (hp0 : m.params[0]? = some chn)
    (hch : AMap.get c.st.channels (chanToLower chn) = some ch) (ht : ch.modes.contains 't' = true)
    (hnop : chanOpOf c.st s.nick (chanToLower chn) = false)
    (hr : cmdTopic c sid m = .ok c') : Refused c c' sid := by
  unfold cmdTopic at hr
  rw [getS_of_get hs] at hr
  simp only [Res.ok_bind, param, hp0, getChan_eq, hch] at hr
  split at hr
  · cases hr; refused_tac
  · have hop : ∀ b, (match AMap.get ch.nicks (nickToLower s.nick) with
        | some mem => Res.ok mem.chanop
        | none => Res.panic "c.nicks[nick] is nil (cmdTopic)") = Res.ok b → b = false := by
      intro b hb
      split at hb
      · rename_i mem hmem
        cases hb
        exact chanOpOf_false_of_get hnop hch hmem
      · cases hb
    split at hr
    · obtain ⟨op, ho, hr⟩ := Res.bind_eq_ok.1 hr
      rw [hop op ho] at hr
      simp only [Bool.not_false, ↓reduceIte] at hr
      cases hr; refused_tac
    · split at hr
      · split at hr
        · cases hr; refused_tac
        · cases hr; refused_tac
      · obtain ⟨op, ho, hr⟩ := Res.bind_eq_ok.1 hr
        rw [hop op ho] at hr
        simp only [Bool.not_false, ↓reduceIte] at hr
        cases hr; refused_tac

/-! ## KILL / GLINE / `$`-targets -/

theorem cmdKill_refused {c c' : Ctx} {sid : Id} {m : IrcMsg} {s : Session}
    (hs : AMap.get c.st.sessions sid = some s) (hno : s.operator = false)
    (hr : cmdKill c sid m = .ok c') : Refused c c' sid := by
  unfold cmdKill at hr
  rw [getS_of_get hs] at hr
  simp only [Res.ok_bind, hno, Bool.not_false, ↓reduceIte] at hr
  cases hr; refused_tac

theorem cmdGline_refused {c c' : Ctx} {sid : Id} {m : IrcMsg} {s : Session}
    (hs : AMap.get c.st.sessions sid = some s) (hno : s.operator = false)
    (hr : cmdGline c sid m = .ok c') : Refused c c' sid := by
  unfold cmdGline at hr
  rw [getS_of_get hs] at hr
  simp only [Res.ok_bind, hno, Bool.not_false, ↓reduceIte] at hr
  cases hr; refused_tac

/-- PRIVMSG / NOTICE to a `$…` target (network-wide notice) by a non-operator -/
theorem cmdPrivmsg_dollar_refused {c c' : Ctx} {sid : Id} {m : IrcMsg} {s : Session} {p0 : String}
    (hs : AMap.get c.st.sessions sid = some s) (hno : s.operator = false)
    (hp0 : m.params[0]? = some p0) (hh : hasPrefix p0 "#" = false) (hd : hasPrefix p0 "$" = true)
    (hr : cmdPrivmsg c sid m = .ok c') : Refused c c' sid := by
  unfold cmdPrivmsg at hr
  rw [getS_of_get hs] at hr
  simp only [Res.ok_bind] at hr
  split at hr
  · cases hr; refused_tac
  · split at hr
    · cases hr; refused_tac
    · simp only [param, hp0, Res.ok_bind, hh, hd, hno, Bool.false_eq_true, ↓reduceIte] at hr
      cases hr; refused_tac

/-! ## OPER -/

/-- the pair is configured in `Config.IRC.Operators` -/
def operListed (cfg : Config) (name password : String) : Bool :=
  cfg.operators.any fun op => op.1 == name && op.2 == password

theorem cmdOper_refused {c c' : Ctx} {sid : Id} {m : IrcMsg} {s : Session} {name password : String}
    (hs : AMap.get c.st.sessions sid = some s) (hp0 : m.params[0]? = some name) (hp1 : m.params[1]? = some password)
    (hno : operListed c.st.config name password = false)
    (hr : cmdOper c sid m = .ok c') : Refused c c' sid := by
  unfold cmdOper at hr
  unfold operListed at hno
  rw [getS_of_get hs] at hr
  simp only [Res.ok_bind, param, hp0, hp1, hno, Bool.not_false, ↓reduceIte] at hr
  cases hr; refused_tac

/-- what a successful OPER does: exactly the actor gets the operator flag and user mode `o` -/
theorem cmdOper_granted {c c' : Ctx} {sid : Id} {m : IrcMsg} {s : Session} {name password : String}
    (hs : AMap.get c.st.sessions sid = some s) (hp0 : m.params[0]? = some name) (hp1 : m.params[1]? = some password)
    (hyes : operListed c.st.config name password = true)
    (hr : cmdOper c sid m = .ok c') :
    c'.st = (putS c { s with operator := true, modes := modeSet s.modes 'o' true }).st := by
  unfold cmdOper at hr
  unfold operListed at hyes
  rw [getS_of_get hs] at hr
  simp only [Res.ok_bind, param, hp0, hp1, hyes, Bool.not_true, Bool.false_eq_true, ↓reduceIte] at hr
  rw [modS_of_get _ hs] at hr
  simp only [Res.ok_bind] at hr
  obtain ⟨s1, _, hr⟩ := Res.bind_eq_ok.1 hr
  cases hr
  rfl

/-! ## SERVER -/

/-- the password the session gave with PASS is a configured services password -/
def servicesAuth (cfg : Config) (pass : String) : Bool :=
  cfg.services.any fun pw => pass == "services=" ++ pw

/-- SERVER without a configured services password in `s.pass`: `ERROR :Invalid password` to the
actor, the session is neither promoted nor closed -/
theorem cmdServer_refused {c c' : Ctx} {sid : Id} {m : IrcMsg} {s : Session}
    (hs : AMap.get c.st.sessions sid = some s) (hno : servicesAuth c.st.config s.pass = false)
    (hr : cmdServer c sid m = .ok c') : Refused c c' sid := by
  unfold cmdServer at hr
  unfold servicesAuth at hno
  rw [getS_of_get hs] at hr
  simp only [Res.ok_bind, hno, Bool.not_false, ↓reduceIte] at hr
  cases hr; refused_tac

end Robust.Irc
