import Robust.Irc.Proofs.NInv
import Robust.Irc.Proofs.H3
/-!
`NI` (the working form of `NInv`) is preserved by the services handlers: `Mid` carries it
(field `ninv`), so this is a corollary of the `_mid` lemmas of group H3.
-/
namespace Robust.Irc
open Robust AMap

/-- a services handler keeps `NI` -/
def NPresSrv (h : Ctx → Id → IrcMsg → Res Ctx) : Prop :=
  ∀ c sid m c' s, Pre c sid → AMap.get c.st.sessions sid = some s → s.server = true → NI c.st →
    h c sid m = .ok c' → NI c'.st

theorem NPresSrv.of_mid {h : Ctx → Id → IrcMsg → Res Ctx}
    (H : ∀ c0 c sid m c', Mid c0 c sid → h c sid m = Res.ok c' → Mid c0 c' sid) : NPresSrv h :=
  fun c sid m c' _ hpre hs hsrv hn hr => (H c c sid m c' (Mid.of_pre hpre hs hsrv) hr).ninv hn

theorem cmdServerSvshold_npres : NPresSrv cmdServerSvshold := .of_mid fun _ _ _ _ _ h hr => cmdServerSvshold_mid h hr
theorem cmdServerPrivmsg_npres : NPresSrv cmdServerPrivmsg := .of_mid fun _ _ _ _ _ h hr => cmdServerPrivmsg_mid h hr
theorem cmdServerTopic_npres : NPresSrv cmdServerTopic := .of_mid fun _ _ _ _ _ h hr => cmdServerTopic_mid h hr
theorem cmdServerInvite_npres : NPresSrv cmdServerInvite := .of_mid fun _ _ _ _ _ h hr => cmdServerInvite_mid h hr
theorem cmdServerKick_npres : NPresSrv cmdServerKick := .of_mid fun _ _ _ _ _ h hr => cmdServerKick_mid h hr
theorem cmdServerSvspart_npres : NPresSrv cmdServerSvspart := .of_mid fun _ _ _ _ _ h hr => cmdServerSvspart_mid h hr
theorem cmdServerMode_npres : NPresSrv cmdServerMode := .of_mid fun _ _ _ _ _ h hr => cmdServerMode_mid h hr
theorem cmdServerSvsmode_npres : NPresSrv cmdServerSvsmode := .of_mid fun _ _ _ _ _ h hr => cmdServerSvsmode_mid h hr
theorem cmdServerJoin_npres : NPresSrv cmdServerJoin := .of_mid fun _ _ _ _ _ h hr => cmdServerJoin_mid h hr
theorem cmdServerPart_npres : NPresSrv cmdServerPart := .of_mid fun _ _ _ _ _ h hr => cmdServerPart_mid h hr
theorem cmdServerSvsjoin_npres : NPresSrv cmdServerSvsjoin := .of_mid fun _ _ _ _ _ h hr =>
  cmdServerSvsjoin_mid (fun _ _ _ _ h => cmdTopic_query_emits h) (fun _ _ _ _ h => Srv.cmdNames_emits h) h hr
theorem cmdServerNick_npres : NPresSrv cmdServerNick := .of_mid fun _ _ _ _ _ h hr => cmdServerNick_mid h hr
theorem cmdServerSvsnick_npres : NPresSrv cmdServerSvsnick := .of_mid fun _ _ _ _ _ h hr => cmdServerSvsnick_mid h hr
theorem cmdServerKill_npres : NPresSrv cmdServerKill := .of_mid fun _ _ _ _ _ h hr => cmdServerKill_mid h hr

theorem cmdServerQuit_npres : NPresSrv cmdServerQuit :=
  fun _ _ _ _ _ hpre hs hsrv hn hr =>
    (cmdServerQuit_inv ⟨Mid.of_pre hpre hs hsrv, AllDelPre.of_inv hpre.inv⟩ hr).1.ninv hn

/-- SERVER (a client command): one inert `modS`, then output only -/
theorem cmdServer_ni {c c' : Ctx} {sid : Id} {m : IrcMsg} (h : NI c.st) (hr : cmdServer c sid m = .ok c') :
    NI c'.st := by
  rw [cmdServer_eq] at hr
  obtain ⟨s, hs, hr⟩ := Res.bind_eq_ok.1 hr
  split at hr
  · cases hr; exact h
  · obtain ⟨p0, _, hr⟩ := Res.bind_eq_ok.1 hr
    obtain ⟨c1, hm, hr⟩ := Res.bind_eq_ok.1 hr
    dsimp only at hr
    have he := (Srv.Emits.sendSvc _ _).trans
      (foldlM_emits _ _ (fun _ _ _ _ h => serverBurstNick_emits h) _ _ hr)
    rw [he.st]
    exact (h.modS_keep hm (fun _ => ⟨rfl, rfl⟩)).congr rfl rfl rfl

end Robust.Irc
