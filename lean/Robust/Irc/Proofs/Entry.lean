import Robust.Irc.Proofs.Dispatch
/-!
The entry-level theorems: one committed entry (`applyEntry`) preserves the full invariant
`GInv = Inv ∧ LInv ∧ NInv ∧ VInv` and — for entries as the real system produces them (`EntryOk`) whose
services lines are protocol-conforming (`Conforming`) — never panics; hence the same for every
history (`runEntries`, `WfHistory`).

Structure: `processMessage` is cut into three stages (`addrStage`: remote address and GLINE bans,
`gateStage`: registration gate, `dispatchStage`: table lookup and handler call), each with a
preservation and a panic-freedom lemma; `Dispatch.lean` supplies the handler facts.
-/
namespace Robust.Irc
open Robust AMap

/-! ## `processMessage` in stages -/

/-- remote address bookkeeping and GLINE bans -/
def addrStage (c : Ctx) (e : Entry) (s : Session) : Res (Ctx × Bool) :=
  if e.remoteAddr != "" && e.remoteAddr != s.remoteAddr then do
    let c ← modS c s.id fun s => { s with remoteAddr := e.remoteAddr }
    match AMap.get c.st.config.banned e.remoteAddr with
    | some reason =>
      if reason != "" then
        let c := sendUser c s.id ⟨none, "ERROR", ["Closing Link: You are banned (" ++ reason ++ ")"]⟩
        let c ← deleteSession c s.id
        pure (c, true)
      else pure (c, false)
    | none => pure (c, false)
  else pure (c, false)

/-- the table lookup and the call of the handler -/
def dispatchStage (c : Ctx) (s : Session) (m : IrcMsg) (command : String) : Res Ctx :=
  match lookupCommand ((if s.server then "server_" else "") ++ command) with
  | none => pure (sendUser c s.id (srv c "421" [s.nick, command, "Unknown command"]))
  | some (fname, minParams) =>
    if m.params.length < minParams then
      pure (sendUser c s.id (srv c "461" [s.nick, command, "Not enough parameters"]))
    else match handlerByName fname with
      | none => .declined ("handler not modelled: " ++ fname)
      | some h => h c s.id m

/-- the registration gate -/
def gateStage (c : Ctx) (e : Entry) (m : IrcMsg) (command : String) : Res Ctx := do
  let s ← getS c e.session
  if !s.loggedIn && !s.server && command != "NICK" && command != "USER" && command != "PASS" && command != "QUIT" && command != "SERVER" then
    let c := sendUser c s.id (srv c "451" [command, "You have not registered"])
    if Robust.I64.tsub s.lastActivity s.created > 600000000000 then
      let c := sendUser c s.id ⟨none, "ERROR", ["Closing Link: You have not registered within 10 minutes"]⟩
      deleteSession c s.id
    else pure c
  else dispatchStage c s m command

theorem processMessage_eq (c : Ctx) (e : Entry) (im : Option IrcMsg) :
    processMessage c e im = (do
      let s ← getS c e.session
      match im with
      | none => pure (sendUser c s.id (srv c "421" [s.nick, "Unknown command"]))
      | some m => do
        let r ← addrStage c e s
        if r.2 then pure r.1 else gateStage r.1 e m (toUpper m.command)) := by
  unfold processMessage addrStage gateStage dispatchStage
  refine bind_congr fun s => ?_
  cases im with
  | none => rfl
  | some m =>
    dsimp only
    refine bind_congr fun r => ?_
    obtain ⟨c1, b⟩ := r
    cases b <;> rfl

/-! ## preservation -/

/-- the acting session deletes itself (ban, registration timeout): `Post` with `flagged = actor` -/
theorem deleteSelf_post {c c1 : Ctx} {sid : Id} (hp : Pre c sid) (h1 : deleteSession c sid = .ok c1) :
    Post c c1 sid := by
  obtain ⟨s, hs⟩ := hp.actor
  have hl := hp.live hs
  have sp := deleteSession_spec hp.inv.toWInv hs (DelPre.of_live hl) h1
  have hI := deleteSession_HInv hp.inv.toHInv hs (DelPre.of_live hl) h1
  have hL := LInv.deleteSession hp.linv hp.inv.toWInv hs (DelPre.of_live hl) h1
  have ho1 : OutStep c c1 := (OutStep.refl c).frame sp.frame
  have hfl : ∀ id t, AMap.get c1.st.sessions id = some t → t.deleted = true → id = sid ∨ Privileged c1.st sid := by
    intro id t ht hd
    by_cases hid : id = sid
    · exact Or.inl hid
    · obtain ⟨t0, ht0, e⟩ := sp.bwd ht
      rw [e hid, hp.live ht0] at hd; cases hd
  exact ⟨hI, hL, by obtain ⟨inv, h⟩ := sp.self; exact ⟨_, h⟩, hfl, ho1.outGrows, ho1.msgid⟩

theorem addrStage_spec {c c1 : Ctx} {e : Entry} {s : Session} {b : Bool} (hp : Pre c e.session) (hn : NI c.st)
    (hs : AMap.get c.st.sessions e.session = some s) (hr : addrStage c e s = .ok (c1, b)) :
    (b = true → Post c c1 e.session ∧ NI c1.st) ∧
    (b = false → Pre c1 e.session ∧ OutStep c c1 ∧ NI c1.st ∧
      ∃ s1, AMap.get c1.st.sessions e.session = some s1 ∧ s1.server = s.server) := by
  have hid : s.id = e.session := (hp.inv.sessId _ s hs).1
  unfold addrStage at hr
  rw [hid] at hr
  split at hr
  · obtain ⟨c0, hm, hr⟩ := Res.bind_eq_ok.1 hr
    have hp0 : Pre c0 e.session := hp.modS_inert hm (fun _ => ⟨rfl, rfl, rfl, rfl⟩) (fun _ => rfl)
    have n0 : NI c0.st := hn.modS_keep hm (fun _ => ⟨rfl, rfl⟩)
    have ho0 : OutStep c c0 := (OutStep.refl c).modS hm
    have hs0 := modS_get_self (f := fun s => { s with remoteAddr := e.remoteAddr }) hs hid hm
    split at hr
    · split at hr
      · obtain ⟨c2, hd, hr⟩ := Res.bind_eq_ok.1 hr
        cases hr
        refine ⟨fun _ => ⟨Post.after (ho0.sendUser _ _) (deleteSelf_post (c := sendUser c0 _ _) (hp0.sendUser _ _) hd),
          NI.deleteSession (c := sendUser c0 _ _) n0 hd⟩, fun h => by cases h⟩
      · cases hr
        exact ⟨(fun h => by cases h), fun _ => ⟨hp0, ho0, n0, _, hs0, rfl⟩⟩
    · cases hr
      exact ⟨(fun h => by cases h), fun _ => ⟨hp0, ho0, n0, _, hs0, rfl⟩⟩
  · cases hr
    exact ⟨(fun h => by cases h), fun _ => ⟨hp, OutStep.refl _, hn, s, hs, rfl⟩⟩

/-- what the gate lets through -/
def GateOK (s : Session) (command : String) : Prop :=
  s.server = true ∨ s.loggedIn = true ∨ command = "NICK" ∨ command = "USER" ∨ command = "PASS" ∨
    command = "QUIT" ∨ command = "SERVER"

theorem dispatchStage_post {c c' : Ctx} {sid : Id} {s : Session} {m : IrcMsg} {command : String}
    (hp : Pre c sid) (hn : NI c.st) (hs : AMap.get c.st.sessions sid = some s)
    (hup : startsLowerS command = false) (hgate : GateOK s command)
    (hr : dispatchStage c s m command = .ok c') : Post c c' sid ∧ NI c'.st := by
  have hid : s.id = sid := (hp.inv.sessId _ s hs).1
  unfold dispatchStage at hr
  rw [hid] at hr
  split at hr
  · cases hr; exact ⟨Post.of_pre (hp.sendUser _ _) (by outstep), hn⟩
  · rename_i fname mp hl
    split at hr
    · cases hr; exact ⟨Post.of_pre (hp.sendUser _ _) (by outstep), hn⟩
    · split at hr
      · cases hr
      · rename_i h hh
        cases hsv : s.server with
        | false =>
          simp only [hsv, Bool.false_eq_true, ↓reduceIte, String.empty_append] at hl
          have hg' : s.loggedIn = true ∨ command = "NICK" ∨ command = "USER" ∨ command = "PASS" ∨
              command = "QUIT" ∨ command = "SERVER" := by
            rcases hgate with h1 | h1
            · rw [hsv] at h1; cases h1
            · exact h1
          obtain ⟨h', nl, hh', ok, hnl⟩ := client_dispatch (lookupCommand_mem hl) hup hg'
          rw [hh] at hh'; cases hh'
          exact ok.post c sid m c' s hp hn hs hnl hr
        | true =>
          simp only [hsv, ↓reduceIte] at hl
          obtain ⟨h', hh', ok⟩ := server_dispatch (lookupCommand_mem hl) rfl
          rw [hh] at hh'; cases hh'
          exact ok.post c sid m c' s hp hn hs hsv hr

theorem gate_of_not {s : Session} {command : String}
    (hg : ¬ (!s.loggedIn && !s.server && command != "NICK" && command != "USER" && command != "PASS" &&
      command != "QUIT" && command != "SERVER") = true) : GateOK s command := by
  unfold GateOK
  by_cases h1 : s.server = true
  · exact Or.inl h1
  by_cases h2 : s.loggedIn = true
  · exact Or.inr (Or.inl h2)
  by_cases h3 : command = "NICK"
  · exact Or.inr (Or.inr (Or.inl h3))
  by_cases h4 : command = "USER"
  · exact Or.inr (Or.inr (Or.inr (Or.inl h4)))
  by_cases h5 : command = "PASS"
  · exact Or.inr (Or.inr (Or.inr (Or.inr (Or.inl h5))))
  by_cases h6 : command = "QUIT"
  · exact Or.inr (Or.inr (Or.inr (Or.inr (Or.inr (Or.inl h6)))))
  by_cases h7 : command = "SERVER"
  · exact Or.inr (Or.inr (Or.inr (Or.inr (Or.inr (Or.inr h7)))))
  exfalso
  apply hg
  simp [h1, h2, h3, h4, h5, h6, h7]

theorem gateStage_post {c c' : Ctx} {e : Entry} {m : IrcMsg} {command : String}
    (hp : Pre c e.session) (hn : NI c.st) (hup : startsLowerS command = false)
    (hr : gateStage c e m command = .ok c') : Post c c' e.session ∧ NI c'.st := by
  unfold gateStage at hr
  obtain ⟨s, hs, hr⟩ := Res.bind_eq_ok.1 hr
  rw [getS_eq_ok] at hs
  have hid : s.id = e.session := (hp.inv.sessId _ s hs).1
  split at hr
  · rw [hid] at hr
    split at hr
    · exact ⟨Post.after (by outstep) (deleteSelf_post (c := sendUser (sendUser c _ _) _ _)
        ((hp.sendUser _ _).sendUser _ _) hr), NI.deleteSession (c := sendUser (sendUser c _ _) _ _) hn hr⟩
    · cases hr; exact ⟨Post.of_pre (hp.sendUser _ _) (by outstep), hn⟩
  · rename_i hg
    exact dispatchStage_post hp hn hs hup (gate_of_not hg) hr

/-- `ProcessMessage` preserves the invariants -/
theorem processMessage_post {c c' : Ctx} {e : Entry} {im : Option IrcMsg} (hp : Pre c e.session) (hn : NI c.st)
    (hr : processMessage c e im = .ok c') : Post c c' e.session ∧ NI c'.st := by
  rw [processMessage_eq] at hr
  obtain ⟨s, hs, hr⟩ := Res.bind_eq_ok.1 hr
  rw [getS_eq_ok] at hs
  cases im with
  | none => cases hr; exact ⟨Post.of_pre (hp.sendUser _ _) (by outstep), hn⟩
  | some m =>
    dsimp only at hr
    obtain ⟨⟨c1, b⟩, h1, hr⟩ := Res.bind_eq_ok.1 hr
    obtain ⟨ht, hf⟩ := addrStage_spec hp hn hs h1
    cases b with
    | true => cases hr; exact ht rfl
    | false =>
      simp only [Bool.false_eq_true, ↓reduceIte] at hr
      obtain ⟨hp1, ho1, n1, _⟩ := hf rfl
      obtain ⟨po, n2⟩ := gateStage_post hp1 n1 (startsLowerS_toUpper _) hr
      exact ⟨Post.after ho1 po, n2⟩

/-! ## panic-freedom -/

/-- a services line: prefix present and the documented number of parameters; or the line that a
DeleteSession entry generates for the link itself (`QUIT` without prefix) -/
def SrvMsgOK (m : IrcMsg) : Prop :=
  (m.pfx.isSome = true ∧ ParamsOK (toUpper m.command) m.params.length) ∨
  (m.pfx = none ∧ toUpper m.command = "QUIT")

theorem dispatchStage_noPanic {c : Ctx} {sid : Id} {s : Session} {m : IrcMsg} {command : String}
    (hp : Pre c sid) (hs : AMap.get c.st.sessions sid = some s)
    (hup : startsLowerS command = false) (hgate : GateOK s command)
    (hconf : s.server = true →
      (m.pfx.isSome = true ∧ ParamsOK command m.params.length) ∨ (m.pfx = none ∧ command = "QUIT")) :
    NoPanic (dispatchStage c s m command) := by
  have hid : s.id = sid := (hp.inv.sessId _ s hs).1
  unfold dispatchStage
  rw [hid]
  split
  · exact NoPanic.pure _
  · rename_i fname mp hl
    split
    · exact NoPanic.pure _
    · rename_i hlen
      split
      · exact NoPanic.declined _
      · rename_i h hh
        cases hsv : s.server with
        | false =>
          simp only [hsv, Bool.false_eq_true, ↓reduceIte, String.empty_append] at hl
          have hg' : s.loggedIn = true ∨ command = "NICK" ∨ command = "USER" ∨ command = "PASS" ∨
              command = "QUIT" ∨ command = "SERVER" := by
            rcases hgate with h1 | h1
            · rw [hsv] at h1; cases h1
            · exact h1
          obtain ⟨h', nl, hh', ok, hnl⟩ := client_dispatch (lookupCommand_mem hl) hup hg'
          rw [hh] at hh'; cases hh'
          exact ok.safe c sid m s hp hs hsv hnl (by omega)
        | true =>
          simp only [hsv, ↓reduceIte] at hl
          rcases hconf hsv with ⟨hpfx, hpar⟩ | ⟨hpfx, hq⟩
          · obtain ⟨h', hh', ok⟩ := server_dispatch (lookupCommand_mem hl) rfl
            rw [hh] at hh'; cases hh'
            exact ok.safe c sid m s hp hs hsv hpfx hpar
          · subst hq
            have hq : lookupCommand ("server_" ++ "QUIT") = some ("cmdServerQuit", 0) := by decide
            rw [hq] at hl
            cases hl
            have : handlerByName "cmdServerQuit" = some cmdServerQuit := rfl
            rw [this] at hh; cases hh
            exact cmdServerQuit_noPanic_noPrefix hp hs hsv hpfx

theorem gateStage_noPanic {c : Ctx} {e : Entry} {m : IrcMsg} {command : String} {s : Session}
    (hp : Pre c e.session) (hs : AMap.get c.st.sessions e.session = some s)
    (hup : startsLowerS command = false)
    (hconf : s.server = true →
      (m.pfx.isSome = true ∧ ParamsOK command m.params.length) ∨ (m.pfx = none ∧ command = "QUIT")) :
    NoPanic (gateStage c e m command) := by
  have hid : s.id = e.session := (hp.inv.sessId _ s hs).1
  unfold gateStage
  rw [getS_of_get hs]
  simp only [Res.ok_bind]
  split
  · rw [hid]
    split
    · exact NoPanic.of_ok (deleteSession_ok (c := sendUser (sendUser c _ _) _ _) hp.inv.toWInv hs)
    · exact NoPanic.pure _
  · rename_i hg
    exact dispatchStage_noPanic hp hs hup (gate_of_not hg) hconf

theorem addrStage_noPanic {c : Ctx} {e : Entry} {s : Session} (hp : Pre c e.session)
    (hs : AMap.get c.st.sessions e.session = some s) : NoPanic (addrStage c e s) := by
  have hid : s.id = e.session := (hp.inv.sessId _ s hs).1
  unfold addrStage
  rw [hid]
  split
  · refine NoPanic.bind (NoPanic.of_ok ⟨_, modS_of_get _ hs⟩) (fun c0 hm => ?_)
    have hp0 : Pre c0 e.session := hp.modS_inert hm (fun _ => ⟨rfl, rfl, rfl, rfl⟩) (fun _ => rfl)
    have hs0 := modS_get_self (f := fun s => { s with remoteAddr := e.remoteAddr }) hs hid hm
    split
    · split
      · refine NoPanic.bind (NoPanic.of_ok (deleteSession_ok (c := sendUser c0 _ _) hp0.inv.toWInv hs0))
          (fun _ _ => NoPanic.pure _)
      · exact NoPanic.pure _
    · exact NoPanic.pure _
  · exact NoPanic.pure _

/-- `ProcessMessage` never panics, provided that a services link sends conforming lines -/
theorem processMessage_noPanic {c : Ctx} {e : Entry} {im : Option IrcMsg} {s : Session} (hp : Pre c e.session)
    (hn : NI c.st) (hs : AMap.get c.st.sessions e.session = some s)
    (hconf : s.server = true → ∀ m, im = some m → SrvMsgOK m) : NoPanic (processMessage c e im) := by
  rw [processMessage_eq, getS_of_get hs]
  simp only [Res.ok_bind]
  cases im with
  | none => exact NoPanic.pure _
  | some m =>
    dsimp only
    refine NoPanic.bind (addrStage_noPanic hp hs) (fun r h1 => ?_)
    obtain ⟨c1, b⟩ := r
    obtain ⟨_, hf⟩ := addrStage_spec hp hn hs h1
    cases b with
    | true => exact NoPanic.pure _
    | false =>
      simp only [Bool.false_eq_true, ↓reduceIte]
      obtain ⟨hp1, _, _, s1, hs1, hsv1⟩ := hf rfl
      exact gateStage_noPanic hp1 hs1 (startsLowerS_toUpper _) (fun h => hconf (by rw [← hsv1]; exact h) m rfl)

/-! ## entries -/

/-- the full invariant between entries -/
structure GInv (st : St) : Prop where
  inv : Inv st
  linv : LInv st
  ninv : NInv st
  vinv : VInv st

theorem GInv_init : GInv ({} : St) := ⟨Inv_init, LInv_init, NInv_init, VInv_init⟩

theorem GInv.of_ni {st : St} (h1 : Inv st) (h2 : LInv st) (h3 : NI st) : GInv st :=
  ⟨h1, h2, h3.ninv h1.toWInvCore, h3.vinv⟩

theorem GInv.ni {st : St} (h : GInv st) : NI st := NI.of h.ninv h.vinv

/-- entries as the real system produces them: the session named by a DeleteSession (type 1) or
IRCFromClient (type 2) entry has `Reply = 0` (the HTTP API cannot name anything else), and a
CreateSession (type 0) entry's id is fresh (raft indexes are unique): no stored session has that
`id.id` (only `⟨e.id, 0⟩` not being stored is used) -/
def EntryOk (st : St) (e : Entry) : Prop :=
  ((e.type = 1 ∨ e.type = 2) → e.session.reply = 0) ∧
  (e.type = 0 → ∀ id s, AMap.get st.sessions id = some s → id.id ≠ e.id)

theorem Privileged_lastProcessed {st : St} {sid x : Id} :
    Privileged { st with lastProcessed := x } sid ↔ Privileged st sid := Iff.rfl

/-- after the handler: set `lastProcessed`, purge the flagged sessions -/
theorem GInv_finish {c0 c : Ctx} {sid x : Id} (po : Post c0 c sid) (hn : NI c.st) :
    GInv (maybeDeleteSession { c.st with lastProcessed := x } sid) := by
  have hI : HInv { c.st with lastProcessed := x } := (HInv_lastProcessed _ _).2 po.hinv
  have hinv := Inv_maybeDeleteSession (sid := sid) hI (fun id s hg hd => po.flagged id s hg hd)
  exact GInv.of_ni hinv (LInv.maybeDeleteSession sid (po.linv.congr rfl) hI.sessNodup)
    (NI.maybeDeleteSession sid (hn.congr rfl rfl rfl) hI.sessNodup)

theorem GInv_updateLastClientMessageID {st st1 : St} {e : Entry} (h : GInv st)
    (hu : updateLastClientMessageID st e = some st1) : GInv st1 :=
  GInv.of_ni (Inv_updateLastClientMessageID h.inv hu) (h.linv.updateLastClientMessageID hu)
    (h.ni.updateLastClientMessageID hu)

theorem updateLastClientMessageID_actor {st st1 : St} {e : Entry}
    (hu : updateLastClientMessageID st e = some st1) :
    ∃ s s1, AMap.get st.sessions e.session = some s ∧ AMap.get st1.sessions e.session = some s1 ∧
      s1.server = s.server := by
  unfold updateLastClientMessageID at hu
  cases hg : AMap.get st.sessions e.session with
  | none => simp [hg] at hu
  | some s =>
    simp only [hg, Option.some.injEq] at hu
    subst hu
    exact ⟨s, _, rfl, AMap.get_set_same _ _ _, rfl⟩

theorem applyEntry_preserves (st st' : St) (e : Entry) (out : List Out) (h : GInv st) (he : EntryOk st e)
    (hr : applyEntry st e = .ok (st', out)) : GInv st' := by
  unfold applyEntry at hr
  split at hr
  · -- MessageOfDeath
    cases hr
    cases hu : updateLastClientMessageID st e with
    | none => exact h
    | some st1 => exact GInv_updateLastClientMessageID h hu
  split at hr
  · -- CreateSession
    rename_i ht
    cases hr
    cases hcs : createSession st ⟨e.id, 0⟩ e.data e.timestamp with
    | none => exact h
    | some st1 =>
      have hfresh : AMap.get st.sessions ⟨e.id, 0⟩ = none := by
        cases hg : AMap.get st.sessions ⟨e.id, 0⟩ with
        | none => rfl
        | some s => exact absurd rfl (he.2 ht ⟨e.id, 0⟩ s hg)
      exact GInv.of_ni (Inv_createSession_fresh h.inv hfresh hcs) (h.linv.createSession hcs)
        (h.ni.createSession hcs)
  split at hr
  · -- DeleteSession
    rename_i ht1
    split at hr
    · cases hr; exact h
    · rename_i s0 hs0
      obtain ⟨c, hpm, hr⟩ := Res.bind_eq_ok.1 hr
      cases hr
      have hp : Pre { st := st, msgid := e.id } e.session := ⟨h.inv, h.linv, ⟨_, hs0⟩, he.1 (Or.inl ht1)⟩
      obtain ⟨po, hn⟩ := processMessage_post hp h.ni hpm
      exact GInv_finish po hn
  split at hr
  · -- IRCFromClient
    rename_i ht2
    split at hr
    · cases hr; exact h
    · rename_i st1 hu
      obtain ⟨c, hpm, hr⟩ := Res.bind_eq_ok.1 hr
      cases hr
      have h1 := GInv_updateLastClientMessageID h hu
      obtain ⟨_, s1, _, hs1, _⟩ := updateLastClientMessageID_actor hu
      have hp : Pre { st := st1, msgid := e.id } e.session := ⟨h1.inv, h1.linv, ⟨_, hs1⟩, he.1 (Or.inr ht2)⟩
      obtain ⟨po, hn⟩ := processMessage_post hp h1.ni hpm
      exact GInv_finish po hn
  split at hr
  · -- Config
    split at hr
    · cases hr; exact h
    · cases hr
      exact ⟨(Inv_config _ _).2 h.inv, h.linv.congr rfl, h.ninv, h.vinv⟩
  · cases hr; exact h

/-! ### the line generated for a DeleteSession entry -/

theorem parseRest_pfx (p : Option Prefix) (r : List Char) : (parseRest p r).pfx = p := by
  unfold parseRest
  split
  · rfl
  · rfl
  · dsimp only
    split <;> rfl

theorem parseMessage_quit (x : String) {m : IrcMsg} (h : parseMessage ("QUIT :" ++ x) = some m) :
    m.pfx = none ∧ toUpper m.command = "QUIT" := by
  unfold parseMessage at h
  have e : ("QUIT :" ++ x).toList = 'Q' :: 'U' :: 'I' :: 'T' :: ' ' :: ':' :: x.toList := by
    rw [String.toList_append]; rfl
  rw [e] at h
  have d : List.dropWhile isCutset ('Q' :: 'U' :: 'I' :: 'T' :: ' ' :: ':' :: x.toList) =
      'Q' :: 'U' :: 'I' :: 'T' :: ' ' :: ':' :: x.toList := by
    rw [List.dropWhile_cons_of_neg (by decide)]
  rw [d] at h
  rw [trimRight_cons _ (by decide), trimRight_cons _ (by decide), trimRight_cons _ (by decide),
    trimRight_cons _ (by decide), trimRight_cons _ (by decide), trimRight_cons _ (by decide)] at h
  generalize ((x.toList.reverse.dropWhile isCutset).reverse) = rest at h
  dsimp only at h
  split at h
  · cases h
  · split at h
    · rename_i heq
      simp at heq
    · simp only [Option.some.injEq] at h
      subst h
      refine ⟨parseRest_pfx _ _, ?_⟩
      unfold parseRest
      have hi : indexOfChar ('Q' :: 'U' :: 'I' :: 'T' :: ' ' :: ':' :: rest) ' ' = some 4 := by
        simp [indexOfChar, List.findIdx?_cons]
      rw [hi]
      dsimp only
      have hq : toUpper (toUpper (String.ofList (List.take 4 ('Q' :: 'U' :: 'I' :: 'T' :: ' ' :: ':' :: rest)))) = "QUIT" := by
        simp only [List.take_succ_cons, List.take_zero]
        decide
      split
      · rename_i heq; cases heq
      · rename_i heq; cases heq
      · rename_i heq
        cases heq
        split <;> exact hq

/-! ### panic-freedom of entries -/

/-- lines a services link may send: prefix present and the documented number of parameters
(`docParams`; NICK: one parameter or at least four); everything a *client* session sends is allowed -/
def Conforming (st : St) (e : Entry) : Prop :=
  e.type = 2 → ∀ s m, AMap.get st.sessions e.session = some s → s.server = true →
    parseMessage e.data = some m → m.pfx.isSome = true ∧ ParamsOK (toUpper m.command) m.params.length

theorem applyEntry_no_panic (st : St) (e : Entry) (h : GInv st) (he : EntryOk st e) (hc : Conforming st e) :
    ∀ site, applyEntry st e ≠ .panic site := by
  show NoPanic (applyEntry st e)
  unfold applyEntry
  split
  · exact NoPanic.ok _
  split
  · exact NoPanic.ok _
  split
  · rename_i ht1
    split
    · exact NoPanic.ok _
    · rename_i s0 hs0
      have hp : Pre { st := st, msgid := e.id } e.session := ⟨h.inv, h.linv, ⟨_, hs0⟩, he.1 (Or.inl ht1)⟩
      refine NoPanic.bind (processMessage_noPanic hp h.ni hs0 ?_) (fun _ _ => NoPanic.pure _)
      intro _ m hm
      exact Or.inr (parseMessage_quit _ hm)
  split
  · rename_i ht
    split
    · exact NoPanic.ok _
    · rename_i st1 hu
      have h1 := GInv_updateLastClientMessageID h hu
      obtain ⟨s, s1, hs, hs1, hsv⟩ := updateLastClientMessageID_actor hu
      have hp : Pre { st := st1, msgid := e.id } e.session := ⟨h1.inv, h1.linv, ⟨_, hs1⟩, he.1 (Or.inr ht)⟩
      refine NoPanic.bind (processMessage_noPanic hp h1.ni hs1 ?_) (fun _ _ => NoPanic.pure _)
      intro hsrv m hm
      exact Or.inl (hc ht s m hs (by rw [← hsv]; exact hsrv) hm)
  split
  · split <;> exact NoPanic.ok _
  · exact NoPanic.ok _

/-! ## histories -/

/-- apply a list of entries, dropping the outputs -/
def runEntries (st : St) : List Entry → Res St
  | [] => .ok st
  | e :: es =>
    match applyEntry st e with
    | .ok (st', _) => runEntries st' es
    | .panic site => .panic site
    | .declined why => .declined why

/-- each entry is well-formed and conforming with respect to the state it is applied to -/
def WfHistory (st : St) : List Entry → Prop
  | [] => True
  | e :: es => EntryOk st e ∧ Conforming st e ∧ ∀ st' out, applyEntry st e = .ok (st', out) → WfHistory st' es

theorem run_preserves {st st' : St} {es : List Entry} (h : GInv st) (hw : WfHistory st es)
    (hr : runEntries st es = .ok st') : GInv st' := by
  induction es generalizing st with
  | nil => cases hr; exact h
  | cons e es ih =>
    unfold runEntries at hr
    obtain ⟨he, _, hnext⟩ := hw
    split at hr
    · rename_i st1 out hap
      exact ih (applyEntry_preserves st st1 e out h he hap) (hnext st1 out hap) hr
    · cases hr
    · cases hr

theorem run_no_panic {st : St} {es : List Entry} (h : GInv st) (hw : WfHistory st es) :
    ∀ site, runEntries st es ≠ .panic site := by
  induction es generalizing st with
  | nil => intro site hr; cases hr
  | cons e es ih =>
    obtain ⟨he, hc, hnext⟩ := hw
    intro site hr
    unfold runEntries at hr
    split at hr
    · rename_i st1 out hap
      exact ih (applyEntry_preserves st st1 e out h he hap) (hnext st1 out hap) site hr
    · rename_i site' hap
      exact applyEntry_no_panic st e h he hc site' hap
    · cases hr

end Robust.Irc
