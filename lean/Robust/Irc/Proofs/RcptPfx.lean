import Robust.Irc.Proofs.NInv
/-!
Identity invariant for C12: the prefix under which a session's lines are relayed
(`Session.ircPrefix`) is the one derived from its *current* nickname, user name and session id.

`updateIrcPrefix` (`Session.updateIrcPrefix` in ircserver.go) must follow every change of
`nick` / `username`.  The writers are `cmdNick`, `cmdUser`, `cmdServerNick` (a fresh pseudo-client),
`cmdServerSvsnick` and `createSession` (blank prefix); `cmdServer` turns the session into a services
link with prefix `⟨servername, "", ""⟩` — links are trusted and excluded.

`PfxOK` is a condition on one session *value*; `PInv st` says that every stored session satisfies it.
This file: the definition and what the primitives do to it (mirrors `NI` in `NInv.lean`).
-/
namespace Robust.Irc
open Robust AMap

/-- the prefix derived from nick, user name and the numeric session id -/
def sessPrefix (s : Session) : Prefix := ⟨s.nick, s.username, "robust/0x" ++ hexNat s.id.id⟩

theorem updateIrcPrefix_pfx (s : Session) : (updateIrcPrefix s).ircPrefix = sessPrefix (updateIrcPrefix s) := rfl

/-- a session that is not a services link carries the derived prefix, or is still blank
(neither NICK nor USER seen yet) -/
def PfxOK (s : Session) : Prop :=
  s.server = false →
    s.ircPrefix = sessPrefix s ∨ (s.nick = "" ∧ s.username = "" ∧ s.ircPrefix = ⟨"", "", ""⟩)

theorem PfxOK.of_server {s : Session} (h : s.server = true) : PfxOK s := by
  intro h'; rw [h] at h'; cases h'

theorem PfxOK.update (s : Session) : PfxOK (updateIrcPrefix s) := fun _ => Or.inl rfl

/-- the condition only reads `server`, `nick`, `username`, `ircPrefix`, `id.id` -/
theorem PfxOK.congr {s s' : Session} (h : PfxOK s) (h1 : s'.server = s.server) (h2 : s'.nick = s.nick)
    (h3 : s'.username = s.username) (h4 : s'.ircPrefix = s.ircPrefix) (h5 : s'.id = s.id) : PfxOK s' := by
  unfold PfxOK sessPrefix at *
  rw [h1, h2, h3, h4, h5]; exact h

/-- a function on sessions that keeps the fields `PfxOK` reads -/
def PfxKeep (f : Session → Session) : Prop :=
  ∀ s, (f s).server = s.server ∧ (f s).nick = s.nick ∧ (f s).username = s.username ∧
    (f s).ircPrefix = s.ircPrefix ∧ (f s).id = s.id

theorem PfxOK.keep {s : Session} {f : Session → Session} (h : PfxOK s) (hf : PfxKeep f) : PfxOK (f s) :=
  h.congr (hf s).1 (hf s).2.1 (hf s).2.2.1 (hf s).2.2.2.1 (hf s).2.2.2.2

/-- every stored session carries the prefix derived from its current nick / user name / id -/
def PInv (st : St) : Prop := ∀ id s, AMap.get st.sessions id = some s → PfxOK s

/-- … except possibly the session stored under `x` (between the two `modS` of a nick change) -/
def PInvBut (st : St) (x : Id) : Prop := ∀ id s, id ≠ x → AMap.get st.sessions id = some s → PfxOK s

theorem PInv_init : PInv ({} : St) := by intro id s h; simp at h

theorem PInv.but {st : St} (h : PInv st) (x : Id) : PInvBut st x := fun id s _ hg => h id s hg

theorem PInv.congr {st st' : St} (h : PInv st) (hs : st'.sessions = st.sessions) : PInv st' := by
  unfold PInv at *; rw [hs]; exact h

theorem PInvBut.congr {st st' : St} {x : Id} (h : PInvBut st x) (hs : st'.sessions = st.sessions) :
    PInvBut st' x := by
  unfold PInvBut at *; rw [hs]; exact h

/-- every stored session of `st'` is a stored session of `st` -/
theorem PInv.sub {st st' : St} (h : PInv st)
    (hs : ∀ id s, AMap.get st'.sessions id = some s → AMap.get st.sessions id = some s) : PInv st' :=
  fun id s hg => h id s (hs id s hg)

/-- every stored session of `st'` has a counterpart in `st` that agrees on the fields read -/
theorem PInv.of_sessions {st st' : St} (h : PInv st)
    (hs : ∀ id s', AMap.get st'.sessions id = some s' → ∃ s, AMap.get st.sessions id = some s ∧
      s'.server = s.server ∧ s'.nick = s.nick ∧ s'.username = s.username ∧ s'.ircPrefix = s.ircPrefix ∧
      s'.id = s.id) : PInv st' := by
  intro id s' hg
  obtain ⟨s, hg0, e1, e2, e3, e4, e5⟩ := hs id s' hg
  exact (h id s hg0).congr e1 e2 e3 e4 e5

/-! ### output does not touch the state -/

theorem PInv.emit {c : Ctx} (h : PInv c.st) (m : IrcMsg) (r : List Nat) : PInv (emit c m r).st := h
theorem PInv.sendUser {c : Ctx} (h : PInv c.st) (sid : Id) (m : IrcMsg) : PInv (sendUser c sid m).st := h
theorem PInv.sendSvc {c : Ctx} (h : PInv c.st) (m : IrcMsg) : PInv (sendSvc c m).st := h
theorem PInv.putChan {c : Ctx} (h : PInv c.st) (lc : String) (ch : Channel) : PInv (putChan c lc ch).st := h

/-! ### sessions -/

theorem PInv.setSession {st st' : St} (h : PInv st) {k : Id} {v : Session} (hv : PfxOK v)
    (hs : st'.sessions = AMap.set st.sessions k v) : PInv st' := by
  intro id s hg
  rw [hs, AMap.get_set] at hg
  split at hg
  · cases hg; exact hv
  · exact h id s hg

theorem PInvBut.setSession {st st' : St} {k : Id} (h : PInvBut st k) {v : Session} (hv : PfxOK v)
    (hs : st'.sessions = AMap.set st.sessions k v) : PInv st' := by
  intro id s hg
  rw [hs, AMap.get_set] at hg
  split at hg
  · cases hg; exact hv
  · rename_i hne
    exact h id s hne hg

theorem PInvBut.setSession_but {st st' : St} {k : Id} (h : PInvBut st k) (v : Session)
    (hs : st'.sessions = AMap.set st.sessions k v) : PInvBut st' k := by
  intro id s hne hg
  rw [hs, AMap.get_set_other _ hne] at hg
  exact h id s hne hg

theorem PInv.putS {c : Ctx} (h : PInv c.st) {s' : Session} (hv : PfxOK s') : PInv (putS c s').st :=
  h.setSession hv rfl

/-- general form: the new value is fine, given that the old one was -/
theorem PInv.modS {c c' : Ctx} {tid : Id} {f : Session → Session} (h : PInv c.st)
    (hr : Robust.Irc.modS c tid f = Res.ok c')
    (hf : ∀ s, AMap.get c.st.sessions tid = some s → PfxOK s → PfxOK (f s)) : PInv c'.st := by
  obtain ⟨s, hs, rfl⟩ := modS_eq_ok.1 hr
  exact h.putS (hf s hs (h tid s hs))

/-- the function keeps `server/nick/username/ircPrefix/id` -/
theorem PInv.modS_keep {c c' : Ctx} {tid : Id} {f : Session → Session} (h : PInv c.st)
    (hr : Robust.Irc.modS c tid f = Res.ok c') (hf : PfxKeep f) : PInv c'.st :=
  h.modS hr fun _ _ h0 => h0.keep hf

/-- `modS … updateIrcPrefix` (or any function whose result is fine) on a session stored under its own id
re-establishes the invariant that was suspended for that session -/
theorem PInvBut.modS_fix {c c' : Ctx} {tid : Id} {f : Session → Session} (h : PInvBut c.st tid)
    (hid : ∀ s, AMap.get c.st.sessions tid = some s → (f s).id = tid)
    (hr : Robust.Irc.modS c tid f = Res.ok c') (hf : ∀ s, PfxOK (f s)) : PInv c'.st := by
  obtain ⟨s, hs, rfl⟩ := modS_eq_ok.1 hr
  exact h.setSession (hf s) (by rw [putS_sessions, hid s hs])

/-- an arbitrary `modS` on the suspended session keeps the others fine -/
theorem PInvBut.modS_but {c c' : Ctx} {tid : Id} {f : Session → Session} (h : PInvBut c.st tid)
    (hid : ∀ s, AMap.get c.st.sessions tid = some s → (f s).id = tid)
    (hr : Robust.Irc.modS c tid f = Res.ok c') : PInvBut c'.st tid := by
  obtain ⟨s, hs, rfl⟩ := modS_eq_ok.1 hr
  exact h.setSession_but (f s) (by rw [putS_sessions, hid s hs])

/-- mapping all sessions by a function that keeps the fields read -/
theorem PInv.mapSessions {st st' : St} (h : PInv st) (f : Session → Session) (hf : PfxKeep f)
    (hs : st'.sessions = st.sessions.map fun e => (e.1, f e.2)) : PInv st' := by
  intro id s hg
  rw [hs, AMap.get_map_val] at hg
  cases hg0 : AMap.get st.sessions id with
  | none => rw [hg0] at hg; cases hg
  | some s0 =>
    rw [hg0] at hg
    simp only [Option.map_some, Option.some.injEq] at hg
    subst hg
    exact (h id s0 hg0).keep hf

theorem PInv.maybeDeleteChannel {c : Ctx} (h : PInv c.st) (lc : String) : PInv (maybeDeleteChannel c lc).st := by
  unfold Robust.Irc.maybeDeleteChannel
  split
  · exact h
  · split
    · exact h
    · rename_i ch _ _
      exact h.mapSessions (fun s => { s with invitedTo := s.invitedTo.filter (· ≠ chanToLower ch.name) })
        (fun _ => ⟨rfl, rfl, rfl, rfl, rfl⟩) rfl

theorem PInv.leaveChannel {c c' : Ctx} {lc lcn : String} {tid : Id} (h : PInv c.st)
    (hr : leaveChannel c lc lcn tid = Res.ok c') : PInv c'.st := by
  unfold Robust.Irc.leaveChannel at hr
  split at hr
  · rename_i ch hch
    exact ((h.putChan lc { ch with nicks := AMap.erase ch.nicks lcn }).maybeDeleteChannel lc).modS_keep hr
      fun _ => ⟨rfl, rfl, rfl, rfl, rfl⟩
  · cases hr

theorem PInv.foldl {α : Type} {f : Ctx → α → Ctx} (hf : ∀ c a, PInv c.st → PInv (f c a).st) :
    ∀ (l : List α) (c : Ctx), PInv c.st → PInv (l.foldl f c).st
  | [], _, h => h
  | a :: t, c, h => PInv.foldl hf t (f c a) (hf c a h)

theorem PInv.foldlM {α : Type} {f : Ctx → α → Res Ctx} (hf : ∀ c a c', PInv c.st → f c a = .ok c' → PInv c'.st) :
    ∀ (l : List α) {c c' : Ctx}, PInv c.st → l.foldlM f c = .ok c' → PInv c'.st
  | [], c, c', h, hr => by cases hr; exact h
  | a :: l, c, c', h, hr => by
    rw [List.foldlM_cons] at hr
    obtain ⟨c1, h1, hr⟩ := Res.bind_eq_ok.1 hr
    exact PInv.foldlM hf l (hf c a c1 h h1) hr

theorem PInv.deleteSession {c c' : Ctx} {sid : Id} (h : PInv c.st) (hr : deleteSession c sid = Res.ok c') :
    PInv c'.st := by
  unfold Robust.Irc.deleteSession at hr
  obtain ⟨s, _, hr⟩ := Res.bind_eq_ok.1 hr
  dsimp only at hr
  refine PInv.modS_keep ?_ hr (fun _ => ⟨rfl, rfl, rfl, rfl, rfl⟩)
  refine PInv.congr (st := (c.st.channels.foldl _ c).st) ?_ rfl
  refine PInv.foldl ?_ _ _ h
  intro c1 e h1
  split
  · exact h1
  · rename_i ch hch
    exact (h1.putChan e.1 { ch with nicks := AMap.erase ch.nicks (nickToLower s.nick) }).maybeDeleteChannel _

theorem PInv.createSession {st st' : St} {id : Id} {auth : String} {ts : Int} (h : PInv st)
    (hr : createSession st id auth ts = some st') : PInv st' := by
  rw [createSession_eq hr]
  exact h.setSession (fun _ => Or.inr ⟨rfl, rfl, rfl⟩) rfl

theorem PInv.updateLastClientMessageID {st st' : St} {e : Entry} (h : PInv st)
    (hr : updateLastClientMessageID st e = some st') : PInv st' := by
  unfold Robust.Irc.updateLastClientMessageID at hr
  cases hg : AMap.get st.sessions e.session with
  | none => simp [hg] at hr
  | some s =>
    simp only [hg, Option.some.injEq] at hr
    subst hr
    refine h.setSession (v := _) ?_ rfl
    exact (h _ s hg).congr rfl rfl rfl rfl rfl

/-- purging sessions -/
theorem PInv.maybeDeleteSession {st : St} (sid : Id) (h : PInv st) (hnd : (AMap.keys st.sessions).Nodup) :
    PInv (maybeDeleteSession st sid) := by
  unfold Robust.Irc.maybeDeleteSession
  cases ha : AMap.get st.sessions sid with
  | none => exact h
  | some a =>
    simp only
    have h1 : ∀ b : Bool, ∀ id s,
        AMap.get (if b = true then { st with sessions := st.sessions.filter (fun e => !e.2.deleted) } else st).sessions id = some s →
        AMap.get st.sessions id = some s := by
      intro b id s hg
      cases b with
      | false => exact hg
      | true => exact ((AMap.get_filter _ hnd).1 hg).1
    generalize (a.server || a.operator) = b
    have h1b := h1 b
    generalize (if b = true then { st with sessions := st.sessions.filter (fun e => !e.2.deleted) } else st) = st1 at h1b
    cases a.deleted with
    | false => simpa using h.sub h1b
    | true =>
      simp only [if_true]
      exact h.sub fun id s hg => h1b id s (AMap.get_of_get_erase hg).2

/-- the config entry and the bookkeeping fields -/
theorem PInv.withConfig {st : St} (h : PInv st) (x : Config) : PInv { st with config := x } := h
theorem PInv.withLastProcessed {st : St} (h : PInv st) (x : Id) : PInv { st with lastProcessed := x } := h

/-- a handler keeps `PInv` (for callers that satisfy `Pre` and `NI`; most handlers need neither) -/
def PPres (h : Ctx → Id → IrcMsg → Res Ctx) : Prop :=
  ∀ c sid m c', Pre c sid → NI c.st → PInv c.st → h c sid m = .ok c' → PInv c'.st

theorem PPres.of_plain {h : Ctx → Id → IrcMsg → Res Ctx}
    (H : ∀ {c c' : Ctx} {sid : Id} {m : IrcMsg}, PInv c.st → h c sid m = .ok c' → PInv c'.st) : PPres h :=
  fun _ _ _ _ _ _ hp hr => H hp hr

end Robust.Irc
