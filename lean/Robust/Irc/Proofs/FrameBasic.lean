import Robust.Irc.Proofs.InvDef
/-!
Frame lemmas: how the primitives used by the handlers act on the invariant
(`WInv` / `HInv` / `Inv`, see `InvDef.lean`), and that the recipient lookups cannot panic.

Conventions.  Most preservation lemmas are *extensional*: they talk about an arbitrary
result state `st'` whose three relevant components are given by equations
(`st'.sessions = …`, `st'.nicks = …`, `st'.channels = …`); when a handler is unfolded these
equations are closed by `rfl`.
-/
namespace Robust.Irc
open Robust AMap

/-! ## 0. the `Res` monad -/

@[simp] theorem Res.pure_eq {α : Type} (a : α) : (pure a : Res α) = Res.ok a := rfl
@[simp] theorem Res.ok_bind {α β : Type} (a : α) (f : α → Res β) : (Res.ok a >>= f) = f a := rfl
@[simp] theorem Res.panic_bind {α β : Type} (s : String) (f : α → Res β) : (Res.panic s >>= f) = Res.panic s := rfl
@[simp] theorem Res.declined_bind {α β : Type} (s : String) (f : α → Res β) : (Res.declined s >>= f) = Res.declined s := rfl
@[simp] theorem Res.bind_ok' {α β : Type} (a : α) (f : α → Res β) : Res.bind (Res.ok a) f = f a := rfl

theorem Res.bind_eq_ok {α β : Type} {x : Res α} {f : α → Res β} {b : β} :
    (x >>= f) = Res.ok b ↔ ∃ a, x = Res.ok a ∧ f a = Res.ok b := by
  cases x with
  | ok a => simp
  | panic s => simp
  | declined s => simp

theorem Res.bind_ok_of_ok {α β : Type} {x : Res α} {f : α → Res β} (hx : ∃ a, x = Res.ok a)
    (hf : ∀ a, ∃ b, f a = Res.ok b) : ∃ b, (x >>= f) = Res.ok b := by
  obtain ⟨a, rfl⟩ := hx
  exact hf a

/-- `mapRes` succeeds when the function succeeds on every element -/
theorem mapRes_ok {α β : Type} {f : α → Res β} {l : List α} (h : ∀ a ∈ l, ∃ b, f a = Res.ok b) :
    ∃ bs, mapRes f l = Res.ok bs := by
  induction l with
  | nil => exact ⟨[], rfl⟩
  | cons a t ih =>
    obtain ⟨b, hb⟩ := h a (List.mem_cons_self ..)
    obtain ⟨bs, hbs⟩ := ih (fun x hx => h x (List.mem_cons_of_mem _ hx))
    exact ⟨b :: bs, by simp [mapRes, hb, hbs]⟩

/-! ## 1. contexts: what touches `st` -/

@[simp] theorem emit_st (c : Ctx) (m : IrcMsg) (r : List Nat) : (emit c m r).st = c.st := rfl
@[simp] theorem sendUser_st (c : Ctx) (sid : Id) (m : IrcMsg) : (sendUser c sid m).st = c.st := rfl
@[simp] theorem sendSvc_st (c : Ctx) (m : IrcMsg) : (sendSvc c m).st = c.st := rfl
@[simp] theorem emit_msgid (c : Ctx) (m : IrcMsg) (r : List Nat) : (emit c m r).msgid = c.msgid := rfl
@[simp] theorem sendUser_msgid (c : Ctx) (sid : Id) (m : IrcMsg) : (sendUser c sid m).msgid = c.msgid := rfl
@[simp] theorem sendSvc_msgid (c : Ctx) (m : IrcMsg) : (sendSvc c m).msgid = c.msgid := rfl

@[simp] theorem putS_sessions (c : Ctx) (s : Session) : (putS c s).st.sessions = AMap.set c.st.sessions s.id s := rfl
@[simp] theorem putS_nicks (c : Ctx) (s : Session) : (putS c s).st.nicks = c.st.nicks := rfl
@[simp] theorem putS_channels (c : Ctx) (s : Session) : (putS c s).st.channels = c.st.channels := rfl
@[simp] theorem putS_config (c : Ctx) (s : Session) : (putS c s).st.config = c.st.config := rfl
@[simp] theorem putS_svsholds (c : Ctx) (s : Session) : (putS c s).st.svsholds = c.st.svsholds := rfl
@[simp] theorem putS_serverSessions (c : Ctx) (s : Session) : (putS c s).st.serverSessions = c.st.serverSessions := rfl
@[simp] theorem putS_out (c : Ctx) (s : Session) : (putS c s).out = c.out := rfl
@[simp] theorem putS_replyid (c : Ctx) (s : Session) : (putS c s).replyid = c.replyid := rfl
@[simp] theorem putS_msgid (c : Ctx) (s : Session) : (putS c s).msgid = c.msgid := rfl

@[simp] theorem putChan_sessions (c : Ctx) (lc : String) (ch : Channel) : (putChan c lc ch).st.sessions = c.st.sessions := rfl
@[simp] theorem putChan_nicks (c : Ctx) (lc : String) (ch : Channel) : (putChan c lc ch).st.nicks = c.st.nicks := rfl
@[simp] theorem putChan_channels (c : Ctx) (lc : String) (ch : Channel) :
    (putChan c lc ch).st.channels = AMap.set c.st.channels lc ch := rfl
@[simp] theorem putChan_config (c : Ctx) (lc : String) (ch : Channel) : (putChan c lc ch).st.config = c.st.config := rfl
@[simp] theorem putChan_svsholds (c : Ctx) (lc : String) (ch : Channel) : (putChan c lc ch).st.svsholds = c.st.svsholds := rfl
@[simp] theorem putChan_serverSessions (c : Ctx) (lc : String) (ch : Channel) :
    (putChan c lc ch).st.serverSessions = c.st.serverSessions := rfl
@[simp] theorem putChan_out (c : Ctx) (lc : String) (ch : Channel) : (putChan c lc ch).out = c.out := rfl
@[simp] theorem putChan_replyid (c : Ctx) (lc : String) (ch : Channel) : (putChan c lc ch).replyid = c.replyid := rfl
@[simp] theorem putChan_msgid (c : Ctx) (lc : String) (ch : Channel) : (putChan c lc ch).msgid = c.msgid := rfl

@[simp] theorem putChan_putChan (c : Ctx) (lc : String) (a b : Channel) :
    putChan (putChan c lc a) lc b = putChan c lc b := by
  simp [putChan]

/-- re-storing the stored channel is a no-op (`cmdServerSvsjoin` on an existing channel) -/
theorem putChan_same {c : Ctx} {lc : String} {ch : Channel} (h : AMap.get c.st.channels lc = some ch) :
    putChan c lc ch = c := by
  simp [putChan, AMap.set_eq_self h]

@[simp] theorem getChan_eq (c : Ctx) (lc : String) : getChan c lc = AMap.get c.st.channels lc := rfl

theorem getS_eq_ok {c : Ctx} {sid : Id} {s : Session} : getS c sid = Res.ok s ↔ AMap.get c.st.sessions sid = some s := by
  unfold getS
  cases AMap.get c.st.sessions sid <;> simp

theorem getS_of_get {c : Ctx} {sid : Id} {s : Session} (h : AMap.get c.st.sessions sid = some s) : getS c sid = Res.ok s :=
  getS_eq_ok.2 h

theorem modS_eq_ok {c c' : Ctx} {sid : Id} {f : Session → Session} :
    modS c sid f = Res.ok c' ↔ ∃ s, AMap.get c.st.sessions sid = some s ∧ c' = putS c (f s) := by
  unfold modS getS
  cases AMap.get c.st.sessions sid with
  | none => simp
  | some s =>
    simp only [Res.ok_bind, Res.pure_eq, Res.ok.injEq, Option.some.injEq, exists_eq_left']
    exact eq_comm

theorem modS_of_get {c : Ctx} {sid : Id} {s : Session} (f : Session → Session)
    (h : AMap.get c.st.sessions sid = some s) : modS c sid f = Res.ok (putS c (f s)) :=
  modS_eq_ok.2 ⟨s, h, rfl⟩

/-! ## 2. fields the invariant does not mention -/

section other_fields
variable (st : St)

@[simp] theorem WInv_config (x : Config) : WInv { st with config := x } ↔ WInv st :=
  ⟨fun h => h.congr rfl rfl rfl, fun h => h.congr rfl rfl rfl⟩
@[simp] theorem WInv_svsholds (x : AMap String SvsHold) : WInv { st with svsholds := x } ↔ WInv st :=
  ⟨fun h => h.congr rfl rfl rfl, fun h => h.congr rfl rfl rfl⟩
@[simp] theorem WInv_serverSessions (x : List Nat) : WInv { st with serverSessions := x } ↔ WInv st :=
  ⟨fun h => h.congr rfl rfl rfl, fun h => h.congr rfl rfl rfl⟩
@[simp] theorem WInv_lastProcessed (x : Id) : WInv { st with lastProcessed := x } ↔ WInv st :=
  ⟨fun h => h.congr rfl rfl rfl, fun h => h.congr rfl rfl rfl⟩

@[simp] theorem HInv_config (x : Config) : HInv { st with config := x } ↔ HInv st :=
  ⟨fun h => h.congr rfl rfl rfl, fun h => h.congr rfl rfl rfl⟩
@[simp] theorem HInv_svsholds (x : AMap String SvsHold) : HInv { st with svsholds := x } ↔ HInv st :=
  ⟨fun h => h.congr rfl rfl rfl, fun h => h.congr rfl rfl rfl⟩
@[simp] theorem HInv_serverSessions (x : List Nat) : HInv { st with serverSessions := x } ↔ HInv st :=
  ⟨fun h => h.congr rfl rfl rfl, fun h => h.congr rfl rfl rfl⟩
@[simp] theorem HInv_lastProcessed (x : Id) : HInv { st with lastProcessed := x } ↔ HInv st :=
  ⟨fun h => h.congr rfl rfl rfl, fun h => h.congr rfl rfl rfl⟩

@[simp] theorem Inv_config (x : Config) : Inv { st with config := x } ↔ Inv st :=
  ⟨fun h => h.congr rfl rfl rfl, fun h => h.congr rfl rfl rfl⟩
@[simp] theorem Inv_svsholds (x : AMap String SvsHold) : Inv { st with svsholds := x } ↔ Inv st :=
  ⟨fun h => h.congr rfl rfl rfl, fun h => h.congr rfl rfl rfl⟩
@[simp] theorem Inv_serverSessions (x : List Nat) : Inv { st with serverSessions := x } ↔ Inv st :=
  ⟨fun h => h.congr rfl rfl rfl, fun h => h.congr rfl rfl rfl⟩
@[simp] theorem Inv_lastProcessed (x : Id) : Inv { st with lastProcessed := x } ↔ Inv st :=
  ⟨fun h => h.congr rfl rfl rfl, fun h => h.congr rfl rfl rfl⟩

end other_fields

/-! ## 3. the recipient lookups never panic -/

theorem nickId_ok {st : St} {lc : String} {id : Id} (h : AMap.get st.nicks lc = some id) :
    nickId st lc = Res.ok id.id := by
  simp [nickId, h]

/-- all members of `ch` are indexed -/
def MembersIndexed (st : St) (ch : Channel) : Prop :=
  ∀ n, n ∈ AMap.keys ch.nicks → ∃ id, AMap.get st.nicks n = some id

theorem WInvCore.membersIndexed {st : St} (h : WInvCore st) {lc : String} {ch : Channel}
    (hc : AMap.get st.channels lc = some ch) : MembersIndexed st ch := by
  intro n hn
  obtain ⟨id, _, h1, _⟩ := (h.chans lc ch hc).2.2 n hn
  exact ⟨id, h1⟩

theorem rcChannel_ok_of_indexed {st : St} {ch : Channel} (h : MembersIndexed st ch) :
    ∃ l, rcChannel st ch = Res.ok l := by
  unfold rcChannel
  apply mapRes_ok
  intro n hn
  obtain ⟨id, hid⟩ := h n hn
  exact ⟨id.id, nickId_ok hid⟩

theorem rcChannelButOne_ok_of_indexed {st : St} {ch : Channel} (user : Id) (h : MembersIndexed st ch) :
    ∃ l, rcChannelButOne st ch user = Res.ok l := by
  unfold rcChannelButOne
  apply Res.bind_ok_of_ok
  · apply mapRes_ok
    intro n hn
    obtain ⟨id, hid⟩ := h n hn
    exact ⟨id, by simp [hid]⟩
  · intro ids; exact ⟨_, rfl⟩

theorem rcChannel_ok {st : St} (h : WInvCore st) {lc : String} {ch : Channel}
    (hc : AMap.get st.channels lc = some ch) : ∃ l, rcChannel st ch = Res.ok l :=
  rcChannel_ok_of_indexed (h.membersIndexed hc)

theorem rcChannelButOne_ok {st : St} (h : WInvCore st) {lc : String} {ch : Channel} (user : Id)
    (hc : AMap.get st.channels lc = some ch) : ∃ l, rcChannelButOne st ch user = Res.ok l :=
  rcChannelButOne_ok_of_indexed user (h.membersIndexed hc)

/-- holds for *any* session value (stored or not, deleted or not): missing channels are skipped -/
theorem rcCommonChannels_ok {st : St} (h : WInvCore st) (s : Session) : ∃ l, rcCommonChannels st s = Res.ok l := by
  unfold rcCommonChannels
  apply Res.bind_ok_of_ok
  · apply mapRes_ok
    intro chn _
    cases hc : AMap.get st.channels chn with
    | none => exact ⟨[], by simp⟩
    | some ch =>
      obtain ⟨l, hl⟩ := rcChannel_ok h hc
      exact ⟨l, by simp [hl]⟩
  · intro ls; exact ⟨_, rfl⟩

/-- a channel value that differs from a stored one only outside `nicks` (e.g. the new topic in
`cmdTopic`, where `rcChannel c.st ch` is called on the *local* value) -/
theorem rcChannel_ok_keys {st : St} (h : WInvCore st) {lc : String} {ch ch' : Channel}
    (hc : AMap.get st.channels lc = some ch) (hk : AMap.keys ch'.nicks = AMap.keys ch.nicks) :
    ∃ l, rcChannel st ch' = Res.ok l := by
  apply rcChannel_ok_of_indexed
  intro n hn
  rw [hk] at hn
  exact h.membersIndexed hc n hn

end Robust.Irc
