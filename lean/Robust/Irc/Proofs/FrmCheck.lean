import Robust.Irc.Proofs.FrmHist
import Robust.Irc.Proofs.RcptCheck
/-!
Executable checkers used by the non-vacuity examples of C10 / C16 / C17: the hypotheses of the
entry- and history-level theorems (`EntryOk`, `Conforming`, `WfHistory`, "the entry applies") are
discharged on concrete states and entries by kernel evaluation of Booleans.
-/
namespace Robust.Irc
open Robust AMap

def Res.isOk {α : Type} : Res α → Bool
  | .ok _ => true
  | _ => false

/-- state after a successful run (the empty state otherwise) -/
def resSt (r : Res (St × List Out)) : St :=
  match r with
  | .ok (st, _) => st
  | _ => {}

def resOut (r : Res (St × List Out)) : List Out :=
  match r with
  | .ok (_, o) => o
  | _ => []

theorem eq_ok_of_isOk {r : Res (St × List Out)} (h : r.isOk = true) : r = .ok (resSt r, resOut r) := by
  cases r with
  | ok a => rfl
  | panic s => cases h
  | declined w => cases h

def entryOkB (st : St) (e : Entry) : Bool :=
  (!(e.type == 1 || e.type == 2) || e.session.reply == 0) &&
  (!(e.type == 0) || st.sessions.all fun p => p.1.id != e.id)

theorem entryOk_of_B {st : St} {e : Entry} (h : entryOkB st e = true) : EntryOk st e := by
  unfold entryOkB at h
  simp only [Bool.and_eq_true, Bool.or_eq_true, beq_iff_eq, List.all_eq_true, bne_iff_ne,
    ne_eq, Bool.not_eq_eq_eq_not, Bool.not_true, Bool.or_eq_false_iff, beq_eq_false_iff_ne] at h
  obtain ⟨h1, h2⟩ := h
  refine ⟨fun ht => ?_, fun ht id s hg => ?_⟩
  · rcases h1 with h1 | h1
    · rcases ht with ht | ht
      · exact absurd ht h1.1
      · exact absurd ht h1.2
    · exact h1
  · rcases h2 with h2 | h2
    · exact absurd ht h2
    · exact h2 (id, s) (AMap.mem_of_get hg)

/-- the entry is not a line of a services link (client lines are always conforming) -/
def conformingB (st : St) (e : Entry) : Bool :=
  !(e.type == 2) || (match AMap.get st.sessions e.session with
    | some s => !s.server
    | none => true)

theorem conforming_of_B {st : St} {e : Entry} (h : conformingB st e = true) : Conforming st e := by
  intro ht s m hs hsv
  unfold conformingB at h
  rw [hs] at h
  simp [ht, hsv] at h

/-- `WfHistory` as a Boolean (for histories without lines of services links) -/
def wfB (st : St) : List Entry → Bool
  | [] => true
  | e :: es => entryOkB st e && conformingB st e && (match applyEntry st e with
    | .ok (st', _) => wfB st' es
    | _ => true)

theorem wf_of_B {st : St} {es : List Entry} (h : wfB st es = true) : WfHistory st es := by
  induction es generalizing st with
  | nil => trivial
  | cons e es ih =>
    unfold wfB at h
    simp only [Bool.and_eq_true] at h
    obtain ⟨⟨h1, h2⟩, h3⟩ := h
    refine ⟨entryOk_of_B h1, conforming_of_B h2, fun st' out hap => ?_⟩
    rw [hap] at h3
    exact ih h3

/-- the final state of a history that runs through (the empty state otherwise) -/
def runSt (r : Res St) : St :=
  match r with
  | .ok st => st
  | _ => {}

theorem run_eq_of_isOk {r : Res St} (h : r.isOk = true) : r = .ok (runSt r) := by
  cases r with
  | ok a => rfl
  | panic s => cases h
  | declined w => cases h

theorem idsIncreasing_of_B : ∀ {n : Nat} {es : List Entry},
    (es.zip (n :: es.map (·.id))).all (fun p => decide (p.2 < p.1.id)) = true → IdsIncreasing n es
  | _, [], _ => trivial
  | n, e :: es, h => by
    simp only [List.map_cons, List.zip_cons_cons, List.all_cons, Bool.and_eq_true, decide_eq_true_eq] at h
    exact ⟨h.1, idsIncreasing_of_B h.2⟩

/-- the markers of the stored sessions -/
def markers (st : St) : List (Id × Nat) := st.sessions.map fun e => (e.1, e.2.lastClientMessageId)

theorem GPInv.sessWf {st : St} (h : GPInv st) : SessWf st := SessWf.of_core h.ginv.inv.toWInvCore

end Robust.Irc
