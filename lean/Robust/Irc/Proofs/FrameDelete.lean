import Robust.Irc.Proofs.FrameLeave
/-!
`deleteSession`: drop the session's nick from every channel (deleting emptied channels),
unindex it, flag it deleted.
-/
namespace Robust.Irc
open Robust AMap

/-- one iteration of the loop over the channels in `deleteSession` -/
def delStep (lcn : String) (c : Ctx) (e : String × Channel) : Ctx :=
  match getChan c e.1 with
  | none => c
  | some ch => dropMember c e.1 lcn ch

theorem deleteSession_eq {c : Ctx} {sid : Id} {s : Session} (hs : AMap.get c.st.sessions sid = some s) :
    deleteSession c sid =
      modS { (c.st.channels.foldl (delStep (nickToLower s.nick)) c) with
              st := { (c.st.channels.foldl (delStep (nickToLower s.nick)) c).st with
                nicks := AMap.erase (c.st.channels.foldl (delStep (nickToLower s.nick)) c).st.nicks (nickToLower s.nick) } }
        sid fun s => { s with deleted := true } := by
  unfold deleteSession
  rw [getS_of_get hs]
  rfl

theorem deleteSession_none {c : Ctx} {sid : Id} (hs : AMap.get c.st.sessions sid = none) :
    deleteSession c sid = Res.panic "nil session" := by
  unfold deleteSession getS
  rw [hs]
  rfl

/-- loop invariant; `rest` = keys of the channels still to be visited -/
structure DelInv (lcn : String) (c0 c : Ctx) (rest : List String) : Prop where
  core : WInvCore c.st
  member : ∀ x, x ≠ lcn → MemberOK c.st x
  nicks : c.st.nicks = c0.st.nicks
  sess : SessUpTo c0.st.sessions c.st.sessions
  frame : CtxFrame c0 c
  pending : ∀ lc ch, AMap.get c.st.channels lc = some ch → lcn ∈ AMap.keys ch.nicks → lc ∈ rest
  nonempty : ChansNonempty c0.st → ChansNonempty c.st

theorem DelInv.init {c : Ctx} (lcn : String) (h : WInv c.st) : DelInv lcn c c (AMap.keys c.st.channels) :=
  ⟨h.toWInvCore, fun x _ => h.member x, rfl, SessUpTo.refl _, CtxFrame.refl _,
   fun _ _ hg _ => AMap.mem_keys_of_get hg, fun hne => hne⟩

theorem DelInv.step {lcn : String} {c0 c : Ctx} {e : String × Channel} {rest : List String}
    (h : DelInv lcn c0 c (e.1 :: rest)) : DelInv lcn c0 (delStep lcn c e) rest := by
  unfold delStep
  simp only [getChan_eq]
  cases hch : AMap.get c.st.channels e.1 with
  | none =>
    refine ⟨h.core, h.member, h.nicks, h.sess, h.frame, fun lc ch hg hmem => ?_, h.nonempty⟩
    rcases List.mem_cons.1 (h.pending lc ch hg hmem) with h1 | h1
    · subst h1; rw [hch] at hg; cases hg
    · exact h1
  | some ch =>
    have hd := dropMember_spec (lcn := lcn) h.core hch
    refine ⟨hd.core h.core hch, fun x hx => hd.member h.core hch hx (h.member x hx), hd.nicks.trans h.nicks,
      h.sess.trans hd.sess, h.frame.trans hd.frame, fun lc ch2 hg hmem => ?_, fun hne => ?_⟩
    · by_cases hlc : lc = e.1
      · subst hlc; exact absurd hmem (hd.gone hg)
      · rw [hd.shrink.other lc hlc] at hg
        rcases List.mem_cons.1 (h.pending lc ch2 hg hmem) with h1 | h1
        · exact absurd h1 hlc
        · exact h1
    · exact hd.chansNonempty ((h.nonempty hne).but e.1)

theorem DelInv.foldl {lcn : String} {c0 : Ctx} : ∀ (l : List (String × Channel)) (c : Ctx),
    DelInv lcn c0 c (l.map (·.1)) → DelInv lcn c0 (l.foldl (delStep lcn) c) []
  | [], _, h => h
  | e :: t, c, h => by
    simp only [List.foldl_cons]
    exact DelInv.foldl t _ (DelInv.step (by simpa using h))

/-- last two steps of `deleteSession`: unindex `lcn`, flag the session -/
theorem WInv_delFinish {st st' : St} {lcn : String} {sid : Id} {s s' : Session}
    (h : WInvCore st) (hm : ∀ x, x ≠ lcn → MemberOK st x)
    (hs : AMap.get st.sessions sid = some s) (hlow : nickToLower s.nick = lcn)
    (hgone : ∀ lc c, AMap.get st.channels lc = some c → lcn ∉ AMap.keys c.nicks)
    (hpre : ∀ id', AMap.get st.nicks lcn = some id' → id' ≠ sid → lcn = "")
    (hid : s'.id = s.id) (hchs : s'.channels = s.channels) (hdel : s'.deleted = true)
    (hss : st'.sessions = AMap.set st.sessions sid s') (hn : st'.nicks = AMap.erase st.nicks lcn)
    (hc : st'.channels = st.channels) : WInv st' := by
  have hsid := h.sessId sid s hs
  -- the session being deleted is indexed at most under `lcn`
  have hidx_sid : ∀ x, AMap.get st.nicks x = some sid → x = lcn := by
    intro x hx
    obtain ⟨s0, hg0, _, hlow0⟩ := h.index x sid hx
    rw [hs] at hg0; cases hg0
    rw [← hlow0, hlow]
  refine ⟨⟨?_, ?_, ?_, ?_, ?_, ?_, ?_⟩, ?_⟩
  · rw [hss]; exact AMap.nodup_keys_set _ _ h.sessNodup
  · rw [hn]; exact AMap.nodup_keys_erase _ h.nickNodup
  · rw [hc]; exact h.chanNodup
  · intro id x hg
    rw [hss, AMap.get_set] at hg
    split at hg
    · rename_i hi; subst hi; cases hg
      rw [hid, hchs]; exact hsid
    · exact h.sessId id x hg
  · intro id x hg hl hnn
    rw [hss, AMap.get_set] at hg
    split at hg
    · cases hg; rw [hdel] at hl; cases hl
    · rename_i hne
      have ho := h.owns id x hg hl hnn
      have hx : nickToLower x.nick ≠ lcn := by
        intro he
        rw [he] at ho
        have := hpre id ho hne
        rw [this] at he
        exact hnn (nickToLower_eq_empty.1 he)
      rw [hn, AMap.get_erase_other hx]; exact ho
  · intro x id hi
    rw [hn] at hi
    obtain ⟨hx, hi'⟩ := AMap.get_of_get_erase hi
    obtain ⟨s0, hg0, hl0, hlow0⟩ := h.index x id hi'
    have hne : id ≠ sid := by
      intro he; subst he
      exact hx (hidx_sid x hi')
    exact ⟨s0, by rw [hss, AMap.get_set_other _ hne]; exact hg0, hl0, hlow0⟩
  · intro lc c hg
    rw [hc] at hg
    obtain ⟨a, b, d⟩ := h.chans lc c hg
    refine ⟨a, b, fun n hn' => ?_⟩
    have hnl : n ≠ lcn := fun he => hgone lc c hg (he ▸ hn')
    obtain ⟨id, s0, h1, h2, h3⟩ := d n hn'
    have hne : id ≠ sid := by
      intro he; subst he
      exact hnl (hidx_sid n h1)
    exact ⟨id, s0, by rw [hn, AMap.get_erase_other hnl]; exact h1,
      by rw [hss, AMap.get_set_other _ hne]; exact h2, h3⟩
  · intro x id s0 hi hg ch2 hch2
    rw [hn] at hi
    obtain ⟨hx, hi'⟩ := AMap.get_of_get_erase hi
    have hne : id ≠ sid := by
      intro he; subst he
      exact hx (hidx_sid x hi')
    rw [hss, AMap.get_set_other _ hne] at hg
    rw [hc]
    exact hm x hx id s0 hi' hg ch2 hch2

/-- precondition of `deleteSession c sid` on the stored session `s`: it matters only for a
session that is already flagged deleted — then its former nick must not have been re-taken -/
def DelPre (st : St) (s : Session) : Prop :=
  s.deleted = true → s.nick ≠ "" → AMap.get st.nicks (nickToLower s.nick) = none

theorem DelPre.of_live {st : St} {s : Session} (h : s.deleted = false) : DelPre st s := by
  intro hd; rw [h] at hd; cases hd

structure DelSpec (c c' : Ctx) (sid : Id) (s : Session) : Prop where
  winv : WInv c'.st
  nonempty : ChansNonempty c.st → ChansNonempty c'.st
  frame : CtxFrame c c'
  nicks : c'.st.nicks = AMap.erase c.st.nicks (nickToLower s.nick)
  keys : AMap.keys c'.st.sessions = AMap.keys c.st.sessions
  self : ∃ inv, AMap.get c'.st.sessions sid = some { s with invitedTo := inv, deleted := true }
  others : ∀ id t, id ≠ sid → AMap.get c.st.sessions id = some t →
    ∃ inv, AMap.get c'.st.sessions id = some { t with invitedTo := inv }
  /-- the nick of the deleted session is in no channel any more -/
  gone : ∀ lc ch, AMap.get c'.st.channels lc = some ch → nickToLower s.nick ∉ AMap.keys ch.nicks

theorem deleteSession_spec {c c' : Ctx} {sid : Id} {s : Session} (h : WInv c.st)
    (hs : AMap.get c.st.sessions sid = some s) (hpre : DelPre c.st s)
    (hr : deleteSession c sid = Res.ok c') : DelSpec c c' sid s := by
  rw [deleteSession_eq hs] at hr
  have hfold := DelInv.foldl (lcn := nickToLower s.nick) c.st.channels c (DelInv.init _ h)
  generalize c.st.channels.foldl (delStep (nickToLower s.nick)) c = c1 at hr hfold
  obtain ⟨s1, hs1, rfl⟩ := modS_eq_ok.1 hr
  change AMap.get c1.st.sessions sid = some s1 at hs1
  obtain ⟨inv, hinv⟩ := hfold.sess.get sid s hs
  rw [hs1] at hinv; cases hinv
  have hsid : s.id = sid := (h.sessId sid s hs).1
  have hgone : ∀ lc ch, AMap.get c1.st.channels lc = some ch → nickToLower s.nick ∉ AMap.keys ch.nicks := by
    intro lc ch hg hmem
    have := hfold.pending lc ch hg hmem
    simp at this
  have hpre' : ∀ id', AMap.get c1.st.nicks (nickToLower s.nick) = some id' → id' ≠ sid → nickToLower s.nick = "" := by
    intro id' hi hne
    rw [hfold.nicks] at hi
    by_cases hnn : s.nick = ""
    · rw [hnn]; exact nickToLower_empty
    · cases hdl : s.deleted with
      | false =>
        have := h.owns sid s hs hdl hnn
        rw [this] at hi; cases hi; exact absurd rfl hne
      | true =>
        have := hpre hdl hnn
        rw [this] at hi; cases hi
  refine ⟨?_, ?_, ?_, ?_, ?_, ⟨inv, ?_⟩, ?_, hgone⟩
  · refine WInv_delFinish (s := { s with invitedTo := inv }) (s' := { s with invitedTo := inv, deleted := true })
      hfold.core hfold.member hs1 rfl hgone hpre' rfl rfl rfl ?_ rfl rfl
    show AMap.set c1.st.sessions s.id _ = AMap.set c1.st.sessions sid _
    rw [hsid]
  · intro hne; exact (hfold.nonempty hne).congr rfl
  · exact hfold.frame.trans ⟨rfl, rfl, rfl, rfl, rfl, rfl, rfl, rfl⟩
  · show AMap.erase c1.st.nicks _ = _
    rw [hfold.nicks]
  · show AMap.keys (AMap.set c1.st.sessions s.id _) = _
    rw [hsid, AMap.keys_set_of_mem _ (AMap.mem_keys_of_get hs1)]; exact hfold.sess.keys
  · show AMap.get (AMap.set c1.st.sessions s.id _) sid = _
    rw [hsid]; exact AMap.get_set_same _ _ _
  · intro id t hid hg
    obtain ⟨inv', hinv'⟩ := hfold.sess.get id t hg
    refine ⟨inv', ?_⟩
    show AMap.get (AMap.set c1.st.sessions s.id _) id = _
    rw [hsid, AMap.get_set_other _ hid]; exact hinv'

theorem deleteSession_WInv {c c' : Ctx} {sid : Id} {s : Session} (h : WInv c.st)
    (hs : AMap.get c.st.sessions sid = some s) (hpre : DelPre c.st s)
    (hr : deleteSession c sid = Res.ok c') : WInv c'.st :=
  (deleteSession_spec h hs hpre hr).winv

theorem deleteSession_HInv {c c' : Ctx} {sid : Id} {s : Session} (h : HInv c.st)
    (hs : AMap.get c.st.sessions sid = some s) (hpre : DelPre c.st s)
    (hr : deleteSession c sid = Res.ok c') : HInv c'.st :=
  ⟨(deleteSession_spec h.toWInv hs hpre hr).winv, (deleteSession_spec h.toWInv hs hpre hr).nonempty h.nonempty⟩

/-- `deleteSession` cannot panic on a stored session -/
theorem deleteSession_ok {c : Ctx} {sid : Id} {s : Session} (h : WInv c.st)
    (hs : AMap.get c.st.sessions sid = some s) : ∃ c', deleteSession c sid = Res.ok c' := by
  rw [deleteSession_eq hs]
  have hfold := DelInv.foldl (lcn := nickToLower s.nick) c.st.channels c (DelInv.init _ h)
  obtain ⟨inv, hinv⟩ := hfold.sess.get sid s hs
  exact ⟨_, modS_of_get _ hinv⟩

/-- the "deleted sessions are unindexed" side condition is itself preserved by `deleteSession`
(for loops that delete several sessions, e.g. `cmdServerQuit`) -/
theorem deleteSession_delPre {c c' : Ctx} {sid : Id} {s : Session} (h : WInv c.st)
    (hs : AMap.get c.st.sessions sid = some s) (hpre : DelPre c.st s)
    (hr : deleteSession c sid = Res.ok c')
    (hall : ∀ id t, AMap.get c.st.sessions id = some t → DelPre c.st t) :
    ∀ id t, AMap.get c'.st.sessions id = some t → DelPre c'.st t := by
  have sp := deleteSession_spec h hs hpre hr
  intro id t hg hd hnn
  rw [sp.nicks]
  by_cases hid : id = sid
  · subst hid
    obtain ⟨inv, hinv⟩ := sp.self
    rw [hinv] at hg; cases hg
    exact AMap.get_erase_same _ _
  · -- an other session: unchanged up to `invitedTo`
    cases hg0 : AMap.get c.st.sessions id with
    | none =>
      have : id ∉ AMap.keys c'.st.sessions := by rw [sp.keys]; exact AMap.get_eq_none_iff.1 hg0
      exact absurd (AMap.mem_keys_of_get hg) this
    | some t0 =>
      obtain ⟨inv, hinv⟩ := sp.others id t0 hid hg0
      rw [hinv] at hg; cases hg
      have := hall id t0 hg0 hd hnn
      rw [AMap.get_erase]
      split
      · rfl
      · exact this

end Robust.Irc
