import Robust.Irc.Proofs.UlenInv
import Robust.Irc.Proofs.NH3
/-!
The length invariant `UInv` (`UlenInv.lean`) is preserved by the services (server-to-server)
handlers and by `cmdServer`.  Same walks as for `PInv` in `RcptPfxSrv.lean`; the only writer is
NICK (a fresh pseudo-client), which stores `truncateUsername _` into a session with `reply ≠ 0` (needs `Pre`).  SVSNICK and SERVER keep the user name.
-/
namespace Robust.Irc
open Srv
open Robust AMap

theorem UInv.emits {c c' : Ctx} (h : UInv c.st) (he : Srv.Emits c c') : UInv c'.st := by
  rw [he.st]; exact h

/-! ### SVSHOLD -/

theorem cmdServerSvshold_uinv {c c' : Ctx} {sid : Id} {m : IrcMsg} (h : UInv c.st)
    (hr : cmdServerSvshold c sid m = Res.ok c') : UInv c'.st := by
  unfold cmdServerSvshold at hr
  obtain ⟨s, hs, hr⟩ := Res.bind_eq_ok.1 hr
  obtain ⟨p0, hp0, hr⟩ := Res.bind_eq_ok.1 hr
  dsimp only at hr
  split at hr
  · obtain ⟨p1, hp1, hr⟩ := Res.bind_eq_ok.1 hr
    split at hr
    · cases hr
    · split at hr
      · cases hr
      · cases hr
        exact h.congr rfl
  · cases hr
    exact h.congr rfl

theorem cmdServerSvshold_upres : UPres cmdServerSvshold := .of_plain cmdServerSvshold_uinv

/-! ### PRIVMSG / NOTICE -/

theorem cmdServerPrivmsg_uinv {c c' : Ctx} {sid : Id} {m : IrcMsg} (h : UInv c.st)
    (hr : cmdServerPrivmsg c sid m = Res.ok c') : UInv c'.st := by
  unfold cmdServerPrivmsg at hr
  split at hr
  · obtain ⟨pn, _, hr⟩ := Res.bind_eq_ok.1 hr
    cases hr; exact h.sendSvc _
  · split at hr
    · obtain ⟨pn, _, hr⟩ := Res.bind_eq_ok.1 hr
      cases hr; exact h.sendSvc _
    · obtain ⟨p0, _, hr⟩ := Res.bind_eq_ok.1 hr
      split at hr
      · split at hr
        · obtain ⟨pn, _, hr⟩ := Res.bind_eq_ok.1 hr
          cases hr; exact h.sendSvc _
        · obtain ⟨sp, _, hr⟩ := Res.bind_eq_ok.1 hr
          obtain ⟨rc, _, hr⟩ := Res.bind_eq_ok.1 hr
          cases hr; exact h.emit _ _
      · split at hr
        · obtain ⟨pn, _, hr⟩ := Res.bind_eq_ok.1 hr
          cases hr; exact h.sendSvc _
        · obtain ⟨sp, _, hr⟩ := Res.bind_eq_ok.1 hr
          cases hr; exact h.sendUser _ _

theorem cmdServerPrivmsg_upres : UPres cmdServerPrivmsg := .of_plain cmdServerPrivmsg_uinv

/-! ### TOPIC -/

theorem cmdServerTopic_uinv {c c' : Ctx} {sid : Id} {m : IrcMsg} (h : UInv c.st)
    (hr : cmdServerTopic c sid m = Res.ok c') : UInv c'.st := by
  unfold cmdServerTopic at hr
  obtain ⟨channel, _, hr⟩ := Res.bind_eq_ok.1 hr
  simp only [getChan_eq] at hr
  split at hr
  · obtain ⟨pn, _, hr⟩ := Res.bind_eq_ok.1 hr
    cases hr; exact h.sendSvc _
  · rename_i ch hch
    obtain ⟨p2, _, hr⟩ := Res.bind_eq_ok.1 hr
    obtain ⟨ts?, _, hr⟩ := Res.bind_eq_ok.1 hr
    split at hr
    · cases hr
    · obtain ⟨p1, _, hr⟩ := Res.bind_eq_ok.1 hr
      split at hr
      · cases hr
      · obtain ⟨sp, _, hr⟩ := Res.bind_eq_ok.1 hr
        obtain ⟨rc, _, hr⟩ := Res.bind_eq_ok.1 hr
        cases hr
        exact UInv.emit (c := putChan _ _ _) (h.putChan _ _) _ _

theorem cmdServerTopic_upres : UPres cmdServerTopic := .of_plain cmdServerTopic_uinv

/-! ### INVITE -/

theorem cmdServerInvite_uinv {c c' : Ctx} {sid : Id} {m : IrcMsg} (h : UInv c.st)
    (hr : cmdServerInvite c sid m = Res.ok c') : UInv c'.st := by
  unfold cmdServerInvite at hr
  obtain ⟨nickname, _, hr⟩ := Res.bind_eq_ok.1 hr
  obtain ⟨channelname, _, hr⟩ := Res.bind_eq_ok.1 hr
  split at hr
  · obtain ⟨pn, _, hr⟩ := Res.bind_eq_ok.1 hr
    cases hr; exact h.sendSvc _
  · obtain ⟨t, _, hr⟩ := Res.bind_eq_ok.1 hr
    simp only [getChan_eq] at hr
    split at hr
    · obtain ⟨pn, _, hr⟩ := Res.bind_eq_ok.1 hr
      cases hr; exact h.sendSvc _
    · split at hr
      · obtain ⟨pn, _, hr⟩ := Res.bind_eq_ok.1 hr
        cases hr; exact h.sendSvc _
      · obtain ⟨c1, h1, hr⟩ := Res.bind_eq_ok.1 hr
        obtain ⟨pn, _, hr⟩ := Res.bind_eq_ok.1 hr
        obtain ⟨sp, _, hr⟩ := Res.bind_eq_ok.1 hr
        obtain ⟨rc, _, hr⟩ := Res.bind_eq_ok.1 hr
        cases hr
        have n1 : UInv c1.st := h.modS_keep h1 (fun _ => ⟨rfl, rfl⟩)
        exact (((n1.sendSvc _).sendUser _ _).emit _ _)

theorem cmdServerInvite_upres : UPres cmdServerInvite := .of_plain cmdServerInvite_uinv

/-! ### KICK -/

theorem cmdServerKick_uinv {c c' : Ctx} {sid : Id} {m : IrcMsg} (h : UInv c.st)
    (hr : cmdServerKick c sid m = Res.ok c') : UInv c'.st := by
  unfold cmdServerKick at hr
  obtain ⟨channelname, _, hr⟩ := Res.bind_eq_ok.1 hr
  obtain ⟨target, _, hr⟩ := Res.bind_eq_ok.1 hr
  simp only [getChan_eq] at hr
  split at hr
  · obtain ⟨pn, _, hr⟩ := Res.bind_eq_ok.1 hr
    cases hr; exact h.sendSvc _
  · split at hr
    · obtain ⟨pn, _, hr⟩ := Res.bind_eq_ok.1 hr
      cases hr; exact h.sendSvc _
    · split at hr
      · obtain ⟨sp, _, hr⟩ := Res.bind_eq_ok.1 hr
        obtain ⟨rc, _, hr⟩ := Res.bind_eq_ok.1 hr
        exact UInv.leaveChannel (c := emit _ _ _) h hr
      · cases hr

theorem cmdServerKick_upres : UPres cmdServerKick := .of_plain cmdServerKick_uinv

/-! ### SVSPART -/

theorem cmdServerSvspart_uinv {c c' : Ctx} {sid : Id} {m : IrcMsg} (h : UInv c.st)
    (hr : cmdServerSvspart c sid m = Res.ok c') : UInv c'.st := by
  unfold cmdServerSvspart at hr
  obtain ⟨p0, _, hr⟩ := Res.bind_eq_ok.1 hr
  obtain ⟨channelname, _, hr⟩ := Res.bind_eq_ok.1 hr
  dsimp only at hr
  split at hr
  · obtain ⟨pn, _, hr⟩ := Res.bind_eq_ok.1 hr
    cases hr; exact h.sendSvc _
  · simp only [getChan_eq] at hr
    split at hr
    · obtain ⟨pn, _, hr⟩ := Res.bind_eq_ok.1 hr
      cases hr; exact h.sendSvc _
    · split at hr
      · obtain ⟨pn, _, hr⟩ := Res.bind_eq_ok.1 hr
        cases hr; exact h.sendSvc _
      · obtain ⟨t, _, hr⟩ := Res.bind_eq_ok.1 hr
        obtain ⟨rc, _, hr⟩ := Res.bind_eq_ok.1 hr
        exact UInv.leaveChannel (c := emit _ _ _) h hr

theorem cmdServerSvspart_upres : UPres cmdServerSvspart := .of_plain cmdServerSvspart_uinv

/-! ### MODE -/

theorem serverModeStep_uinv {c c' : Ctx} {m : IrcMsg} {chn lc : String} {mc : ModeCmd}
    (h : UInv c.st) (hstep : serverModeStep m chn lc c mc = Res.ok c') : UInv c'.st := by
  unfold serverModeStep at hstep
  simp only [getChan_eq] at hstep
  split at hstep
  · split at hstep
    · cases hstep
      exact h.putChan _ _
    · split at hstep
      · split at hstep
        · obtain ⟨pn, _, hstep⟩ := Res.bind_eq_ok.1 hstep
          cases hstep; exact h.sendSvc _
        · split at hstep
          · cases hstep
            exact h.putChan _ _
          · cases hstep; exact h
      · obtain ⟨pn, _, hstep⟩ := Res.bind_eq_ok.1 hstep
        cases hstep; exact h.sendSvc _
  · cases hstep

theorem cmdServerMode_uinv {c c' : Ctx} {sid : Id} {m : IrcMsg} (h : UInv c.st)
    (hr : cmdServerMode c sid m = Res.ok c') : UInv c'.st := by
  rw [cmdServerMode_eq] at hr
  obtain ⟨channelname, _, hr⟩ := Res.bind_eq_ok.1 hr
  simp only [getChan_eq] at hr
  split at hr
  · obtain ⟨pn, _, hr⟩ := Res.bind_eq_ok.1 hr
    cases hr; exact h.sendSvc _
  · obtain ⟨c1, hfold, hr⟩ := Res.bind_eq_ok.1 hr
    have h1 : UInv c1.st :=
      UInv.foldlM (fun _ _ _ hP hstep => serverModeStep_uinv hP hstep) _ h hfold
    split at hr
    · cases hr; exact h1
    · split at hr
      · obtain ⟨sp, _, hr⟩ := Res.bind_eq_ok.1 hr
        obtain ⟨rc, _, hr⟩ := Res.bind_eq_ok.1 hr
        cases hr
        exact h1.emit _ _
      · cases hr

theorem cmdServerMode_upres : UPres cmdServerMode := .of_plain cmdServerMode_uinv

/-! ### SVSMODE -/

theorem svsmodeStep_uinv {c c' : Ctx} {tid : Id} {mc : ModeCmd}
    (h : UInv c.st) (hstep : svsmodeStep tid c mc = Res.ok c') : UInv c'.st := by
  unfold svsmodeStep at hstep
  dsimp only at hstep
  split at hstep
  · exact h.modS_keep hstep (fun _ => ⟨rfl, rfl⟩)
  · split at hstep
    · exact h.modS_keep hstep (fun _ => ⟨rfl, rfl⟩)
    · cases hstep
      exact h.sendSvc _

theorem cmdServerSvsmode_uinv {c c' : Ctx} {sid : Id} {m : IrcMsg} (h : UInv c.st)
    (hr : cmdServerSvsmode c sid m = Res.ok c') : UInv c'.st := by
  rw [cmdServerSvsmode_eq] at hr
  obtain ⟨s, _, hr⟩ := Res.bind_eq_ok.1 hr
  obtain ⟨p0, _, hr⟩ := Res.bind_eq_ok.1 hr
  split at hr
  · cases hr; exact h.sendSvc _
  · obtain ⟨modestr, _, hr⟩ := Res.bind_eq_ok.1 hr
    split at hr
    · cases hr; exact h.sendSvc _
    · obtain ⟨c1, hfold, hr⟩ := Res.bind_eq_ok.1 hr
      obtain ⟨t, _, hr⟩ := Res.bind_eq_ok.1 hr
      cases hr
      have h1 : UInv c1.st :=
        UInv.foldlM (fun _ _ _ hP hstep => svsmodeStep_uinv hP hstep) _ h hfold
      exact h1.sendUser _ _

theorem cmdServerSvsmode_upres : UPres cmdServerSvsmode := .of_plain cmdServerSvsmode_uinv

/-! ### JOIN -/

theorem serverJoinOne_uinv {c c' : Ctx} {m : IrcMsg} {chn : String} (h : UInv c.st)
    (hr : serverJoinOne c m chn = Res.ok c') : UInv c'.st := by
  unfold serverJoinOne at hr
  obtain ⟨pn, _, hr⟩ := Res.bind_eq_ok.1 hr
  split at hr
  · cases hr; exact h.sendSvc _
  · dsimp only at hr
    split at hr
    · cases hr; exact h.sendSvc _
    · split at hr
      · cases hr; exact h.sendSvc _
      obtain ⟨c1, h1, hr⟩ := Res.bind_eq_ok.1 hr
      obtain ⟨sp, _, hr⟩ := Res.bind_eq_ok.1 hr
      obtain ⟨rc, _, hr⟩ := Res.bind_eq_ok.1 hr
      cases hr
      have n1 : UInv c1.st :=
        UInv.modS_keep (c := putChan _ _ _) (h.putChan _ _) h1 (fun _ => ⟨rfl, rfl⟩)
      exact n1.emit _ _

theorem cmdServerJoin_uinv {c c' : Ctx} {sid : Id} {m : IrcMsg} (h : UInv c.st)
    (hr : cmdServerJoin c sid m = Res.ok c') : UInv c'.st := by
  unfold cmdServerJoin at hr
  obtain ⟨p0, _, hr⟩ := Res.bind_eq_ok.1 hr
  exact UInv.foldlM (fun _ _ _ hP hstep => serverJoinOne_uinv hP hstep) _ h hr

theorem cmdServerJoin_upres : UPres cmdServerJoin := .of_plain cmdServerJoin_uinv

/-! ### PART -/

theorem serverPartOne_uinv {c c' : Ctx} {m : IrcMsg} {chn : String} (h : UInv c.st)
    (hr : serverPartOne c m chn = Res.ok c') : UInv c'.st := by
  unfold serverPartOne at hr
  simp only [getChan_eq] at hr
  split at hr
  · obtain ⟨pn, _, hr⟩ := Res.bind_eq_ok.1 hr
    cases hr; exact h.sendSvc _
  · obtain ⟨pn, _, hr⟩ := Res.bind_eq_ok.1 hr
    split at hr
    · cases hr; exact h.sendSvc _
    · split at hr
      · obtain ⟨sp, _, hr⟩ := Res.bind_eq_ok.1 hr
        obtain ⟨rc, _, hr⟩ := Res.bind_eq_ok.1 hr
        exact UInv.leaveChannel (c := emit _ _ _) h hr
      · cases hr

theorem cmdServerPart_uinv {c c' : Ctx} {sid : Id} {m : IrcMsg} (h : UInv c.st)
    (hr : cmdServerPart c sid m = Res.ok c') : UInv c'.st := by
  unfold cmdServerPart at hr
  obtain ⟨p0, _, hr⟩ := Res.bind_eq_ok.1 hr
  exact UInv.foldlM (fun _ _ _ hP hstep => serverPartOne_uinv hP hstep) _ h hr

theorem cmdServerPart_upres : UPres cmdServerPart := .of_plain cmdServerPart_uinv

/-! ### SVSJOIN -/

theorem cmdServerSvsjoin_uinv {c c' : Ctx} {sid : Id} {m : IrcMsg} (h : UInv c.st)
    (hr : cmdServerSvsjoin c sid m = Res.ok c') : UInv c'.st := by
  unfold cmdServerSvsjoin at hr
  obtain ⟨p0, _, hr⟩ := Res.bind_eq_ok.1 hr
  obtain ⟨chn, _, hr⟩ := Res.bind_eq_ok.1 hr
  dsimp only at hr
  split at hr
  · obtain ⟨pn, _, hr⟩ := Res.bind_eq_ok.1 hr
    cases hr; exact h.sendSvc _
  · split at hr
    · obtain ⟨pn, _, hr⟩ := Res.bind_eq_ok.1 hr
      cases hr; exact h.sendSvc _
    · simp only [getChan_eq, putChan_putChan] at hr
      split at hr
      · obtain ⟨pn, _, hr⟩ := Res.bind_eq_ok.1 hr
        cases hr; exact h.sendSvc _
      split at hr
      · cases hr
        exact h.putChan _ _
      · obtain ⟨c1, h1, hr⟩ := Res.bind_eq_ok.1 hr
        obtain ⟨t, _, hr⟩ := Res.bind_eq_ok.1 hr
        obtain ⟨rc, _, hr⟩ := Res.bind_eq_ok.1 hr
        obtain ⟨c2, h2, hr⟩ := Res.bind_eq_ok.1 hr
        have n1 : UInv c1.st :=
          UInv.modS_keep (c := putChan _ _ _) (h.putChan _ _) h1 (fun _ => ⟨rfl, rfl⟩)
        have n2 : UInv c2.st :=
          UInv.emits (c := sendSvc (emit c1 _ _) _) ((n1.emit _ _).sendSvc _) (cmdTopic_query_emits h2)
        exact n2.emits (Srv.cmdNames_emits hr)

theorem cmdServerSvsjoin_upres : UPres cmdServerSvsjoin := .of_plain cmdServerSvsjoin_uinv

/-! ### NICK (a fresh pseudo-client) -/

/-- the new session is stored under `⟨link id, fnv64 nick⟩`, which is not a stored id; the link itself is
stored under `sid` with `sid.reply = 0`, so `fnv64 nick ≠ 0`: the new session is not a client's -/
theorem cmdServerNick_uinv {c c' : Ctx} {sid : Id} {m : IrcMsg} (h0 : sid.reply = 0)
    (hid : ∀ s, AMap.get c.st.sessions sid = some s → s.id = sid) (h : UInv c.st)
    (hr : cmdServerNick c sid m = Res.ok c') : UInv c'.st := by
  unfold cmdServerNick at hr
  obtain ⟨s, hs, hr⟩ := Res.bind_eq_ok.1 hr
  rw [getS_eq_ok] at hs
  split at hr
  · cases hr; exact h
  · obtain ⟨p0, _, hr⟩ := Res.bind_eq_ok.1 hr
    split at hr
    · cases hr; exact h.sendSvc _
    · split at hr
      · cases hr; exact h.sendSvc _
      · dsimp only at hr
        split at hr
        · cases hr; exact h.sendSvc _
        · rename_i hcont
          split at hr
          · cases hr; exact h.sendSvc _
          · rename_i st1 hcs
            obtain ⟨p3, _, hr⟩ := Res.bind_eq_ok.1 hr
            obtain ⟨c2, hm, hr⟩ := Res.bind_eq_ok.1 hr
            cases hr
            have hsid : s.id = sid := hid s hs
            have hnone : AMap.get c.st.sessions ⟨s.id.id, fnv64 p0⟩ = none :=
              AMap.contains_eq_false_iff.1 (by simpa using hcont)
            have hrep : (⟨s.id.id, fnv64 p0⟩ : Id).reply ≠ 0 := by
              intro hz
              have e : (⟨s.id.id, fnv64 p0⟩ : Id) = sid := by
                rw [hsid]
                cases sid with
                | mk a b =>
                  simp only at h0 hz
                  rw [hz, h0]
              rw [e, hs] at hnone; cases hnone
            have n1 : UInv st1 := h.createSession hcs
            have hst1 : ∀ t, AMap.get st1.sessions ⟨s.id.id, fnv64 p0⟩ = some t → t.id = ⟨s.id.id, fnv64 p0⟩ := by
              intro t ht
              rw [createSession_eq hcs] at ht
              simp only [AMap.get_set_same, Option.some.injEq] at ht
              subst ht; rfl
            have n2 : UInv c2.st :=
              UInv.modS (c := { c with st := st1 }) n1 hm
                (fun t ht _ => UOK.truncate_pseudo { t with nick := p0, realname := m.trailing } p3
                  (by rw [show ({ t with nick := p0, realname := m.trailing } : Session).id = t.id from rfl,
                        hst1 t ht]; exact hrep))
            exact n2.congr rfl

theorem cmdServerNick_upres : UPres cmdServerNick :=
  fun _ sid _ _ hpre _ hp hr => cmdServerNick_uinv hpre.reply0 (fun s hs => (hpre.inv.sessId sid s hs).1) hp hr

/-! ### SVSNICK -/

theorem svsnickTail_uinv {c c' : Ctx} {tid : Id} {p0 p1 : String} (h : UInv c.st)
    (hr : svsnickTail c p0 p1 tid = Res.ok c') : UInv c'.st := by
  unfold svsnickTail at hr
  obtain ⟨t, ht, hr⟩ := Res.bind_eq_ok.1 hr
  dsimp only at hr
  obtain ⟨c1, hm1, hr⟩ := Res.bind_eq_ok.1 hr
  obtain ⟨c2, hm2, hr⟩ := Res.bind_eq_ok.1 hr
  obtain ⟨t2, _, hr⟩ := Res.bind_eq_ok.1 hr
  obtain ⟨rc, _, hr⟩ := Res.bind_eq_ok.1 hr
  cases hr
  have n1 : UInv c1.st := h.modS_keep hm1 (fun _ => ⟨rfl, rfl⟩)
  have hss := renameCtx_sessions c1 tid (nickToLower p1) (nickToLower p0) (nickToLower p1 != nickToLower p0)
  have nr : UInv (renameCtx c1 tid (nickToLower p1) (nickToLower p0) (nickToLower p1 != nickToLower p0)).st :=
    n1.congr hss
  have n2 : UInv c2.st := nr.modS_keep hm2 (fun _ => ⟨rfl, rfl⟩)
  exact n2.emit _ _

theorem cmdServerSvsnick_uinv {c c' : Ctx} {sid : Id} {m : IrcMsg} (h : UInv c.st)
    (hr : cmdServerSvsnick c sid m = Res.ok c') : UInv c'.st := by
  rw [cmdServerSvsnick_eq] at hr
  obtain ⟨p0, _, hr⟩ := Res.bind_eq_ok.1 hr
  obtain ⟨p1, _, hr⟩ := Res.bind_eq_ok.1 hr
  split at hr
  · cases hr; exact h.sendSvc _
  · split at hr
    · cases hr; exact h.sendSvc _
    · split at hr
      · split at hr
        · cases hr; exact h.sendSvc _
        · exact svsnickTail_uinv h hr
      · exact svsnickTail_uinv h hr

theorem cmdServerSvsnick_upres : UPres cmdServerSvsnick := .of_plain cmdServerSvsnick_uinv

/-! ### KILL -/

theorem cmdServerKill_uinv {c c' : Ctx} {sid : Id} {m : IrcMsg} (h : UInv c.st)
    (hr : cmdServerKill c sid m = Res.ok c') : UInv c'.st := by
  unfold cmdServerKill at hr
  obtain ⟨s, _, hr⟩ := Res.bind_eq_ok.1 hr
  split at hr
  · cases hr; exact h.sendSvc _
  · dsimp only at hr
    obtain ⟨kp?, _, hr⟩ := Res.bind_eq_ok.1 hr
    obtain ⟨p0, _, hr⟩ := Res.bind_eq_ok.1 hr
    split at hr
    · cases hr; exact h.sendSvc _
    · obtain ⟨t, ht, hr⟩ := Res.bind_eq_ok.1 hr
      split at hr
      · obtain ⟨rc, _, hr⟩ := Res.bind_eq_ok.1 hr
        exact UInv.deleteSession (c := emit (sendUser c _ _) _ _) ((h.sendUser _ _).emit _ _) hr
      · cases hr

theorem cmdServerKill_upres : UPres cmdServerKill := .of_plain cmdServerKill_uinv

/-! ### QUIT -/

theorem cmdServerQuit_uinv {c c' : Ctx} {sid : Id} {m : IrcMsg} (h : UInv c.st)
    (hr : cmdServerQuit c sid m = Res.ok c') : UInv c'.st := by
  unfold cmdServerQuit at hr
  obtain ⟨s, hs, hr⟩ := Res.bind_eq_ok.1 hr
  split at hr
  · obtain ⟨c1, hd, hr⟩ := Res.bind_eq_ok.1 hr
    dsimp only at hr
    refine UInv.foldlM ?_ _ (h.deleteSession hd) hr
    intro c2 tid c3 hP hstep
    obtain ⟨t, ht, hstep⟩ := Res.bind_eq_ok.1 hstep
    obtain ⟨rc, _, hstep⟩ := Res.bind_eq_ok.1 hstep
    exact UInv.deleteSession (c := emit _ _ _) hP hstep
  · split at hr
    · cases hr; exact h
    · obtain ⟨rc, _, hr⟩ := Res.bind_eq_ok.1 hr
      exact UInv.deleteSession (c := emit _ _ _) h hr

theorem cmdServerQuit_upres : UPres cmdServerQuit := .of_plain cmdServerQuit_uinv

/-! ### SERVER (a client command: the session becomes a services link) -/

theorem cmdServer_uinv {c c' : Ctx} {sid : Id} {m : IrcMsg} (h : UInv c.st)
    (hr : cmdServer c sid m = Res.ok c') : UInv c'.st := by
  rw [cmdServer_eq] at hr
  obtain ⟨s, hs, hr⟩ := Res.bind_eq_ok.1 hr
  split at hr
  · cases hr; exact h.sendUser _ _
  · obtain ⟨p0, _, hr⟩ := Res.bind_eq_ok.1 hr
    obtain ⟨c1, hm, hr⟩ := Res.bind_eq_ok.1 hr
    dsimp only at hr
    have he := (Srv.Emits.sendSvc _ _).trans
      (foldlM_emits _ _ (fun _ _ _ _ h => serverBurstNick_emits h) _ _ hr)
    rw [he.st]
    exact (h.modS_keep hm (fun _ => ⟨rfl, rfl⟩)).congr rfl

theorem cmdServer_upres : UPres cmdServer := .of_plain cmdServer_uinv

end Robust.Irc
