import Robust.Irc.Proofs.NInv
import Robust.Irc.Proofs.UlenBytes
/-!
Length invariant for C15 (clause "every delivered line starts with a prefix and a command"):
every stored session's user name has at most `maxUserLen` (30) characters, and the user name of a
session that a client can act as (`id.reply = 0`; services pseudo-clients have `reply = fnv64 nick`)
contains no space.

The only writers of `Session.username` are `cmdUser` and `cmdServerNick`, both of which store
`truncateUsername _`; `createSession` starts with `username = ""`.  Everything else keeps the field.
`cmdUser` stores the first of at least three parameters (never the trailing one, hence without space,
`MidOK`); `cmdServerNick` stores a parameter of a line sent by services (trusted, may be the trailing
one) into a session with `reply ≠ 0`.

`UOK` is a condition on one session *value*; `UInv st` says that every stored session satisfies it.
This file: the definition and what the primitives do to it (mirrors `PInv` in `RcptPfx.lean`).
-/
namespace Robust.Irc
open Robust AMap

/-- the user name has at most `maxUserLen` characters, and no space if the session is a client's -/
def UOK (s : Session) : Prop :=
  s.username.toList.length ≤ maxUserLen ∧ (s.id.reply = 0 → Spaceless s.username)

/-- `truncateUsername` yields at most `maxUserLen` characters -/
theorem truncateUsername_length (u : String) : (truncateUsername u).toList.length ≤ maxUserLen := by
  unfold truncateUsername takeChars
  rw [String.toList_ofList, List.length_take]
  exact Nat.min_le_left _ _

/-- a short user name is not changed -/
theorem truncateUsername_of_short {u : String} (h : u.toList.length ≤ maxUserLen) (hs : Spaceless u) : truncateUsername u = u := by
  unfold truncateUsername takeChars
  rw [firstWord_of_spaceless hs, List.take_of_length_le h, String.ofList_toList]

/-- whatever was handed over: the stored user name has no space -/
theorem truncateUsername_spaceless' (u : String) : Spaceless (truncateUsername u) :=
  spaceless_takeChars (spaceless_firstWord u) _

theorem truncateUsername_spaceless {u : String} (_h : Spaceless u) : Spaceless (truncateUsername u) :=
  truncateUsername_spaceless' u

/-- the condition only reads `username` and `id` -/
theorem UOK.congr {s s' : Session} (h : UOK s) (h3 : s'.username = s.username) (h5 : s'.id = s.id) : UOK s' := by
  unfold UOK at *
  rw [h3, h5]; exact h

/-- a function on sessions that keeps the user name and the id -/
def UKeep (f : Session → Session) : Prop := ∀ s, (f s).username = s.username ∧ (f s).id = s.id

theorem UOK.keep {s : Session} {f : Session → Session} (h : UOK s) (hf : UKeep f) : UOK (f s) :=
  h.congr (hf s).1 (hf s).2

theorem UOK.update {s : Session} (h : UOK s) : UOK (updateIrcPrefix s) := h

/-- what `cmdUser` stores: a parameter without space -/
theorem UOK.truncate (s : Session) {u : String} (hu : Spaceless u) :
    UOK (updateIrcPrefix { s with username := truncateUsername u }) :=
  ⟨truncateUsername_length u, fun _ => truncateUsername_spaceless hu⟩

/-- what `cmdServerNick` stores into a pseudo-client session -/
theorem UOK.truncate_pseudo (s : Session) (u : String) (hr : s.id.reply ≠ 0) :
    UOK (updateIrcPrefix { s with username := truncateUsername u }) :=
  ⟨truncateUsername_length u, fun h => absurd h hr⟩

/-- every stored session carries the prefix derived from its current nick / user name / id -/
def UInv (st : St) : Prop := ∀ id s, AMap.get st.sessions id = some s → UOK s

theorem UInv_init : UInv ({} : St) := by intro id s h; simp at h

theorem UInv.congr {st st' : St} (h : UInv st) (hs : st'.sessions = st.sessions) : UInv st' := by
  unfold UInv at *; rw [hs]; exact h

/-- every stored session of `st'` is a stored session of `st` -/
theorem UInv.sub {st st' : St} (h : UInv st)
    (hs : ∀ id s, AMap.get st'.sessions id = some s → AMap.get st.sessions id = some s) : UInv st' :=
  fun id s hg => h id s (hs id s hg)

/-- every stored session of `st'` has a counterpart in `st` with the same user name -/
theorem UInv.of_sessions {st st' : St} (h : UInv st)
    (hs : ∀ id s', AMap.get st'.sessions id = some s' → ∃ s, AMap.get st.sessions id = some s ∧
      s'.username = s.username ∧ s'.id = s.id) : UInv st' := by
  intro id s' hg
  obtain ⟨s, hg0, e3, e5⟩ := hs id s' hg
  exact (h id s hg0).congr e3 e5

/-! ### output does not touch the state -/

theorem UInv.emit {c : Ctx} (h : UInv c.st) (m : IrcMsg) (r : List Nat) : UInv (emit c m r).st := h
theorem UInv.sendUser {c : Ctx} (h : UInv c.st) (sid : Id) (m : IrcMsg) : UInv (sendUser c sid m).st := h
theorem UInv.sendSvc {c : Ctx} (h : UInv c.st) (m : IrcMsg) : UInv (sendSvc c m).st := h
theorem UInv.putChan {c : Ctx} (h : UInv c.st) (lc : String) (ch : Channel) : UInv (putChan c lc ch).st := h

/-! ### sessions -/

theorem UInv.setSession {st st' : St} (h : UInv st) {k : Id} {v : Session} (hv : UOK v)
    (hs : st'.sessions = AMap.set st.sessions k v) : UInv st' := by
  intro id s hg
  rw [hs, AMap.get_set] at hg
  split at hg
  · cases hg; exact hv
  · exact h id s hg

theorem UInv.putS {c : Ctx} (h : UInv c.st) {s' : Session} (hv : UOK s') : UInv (putS c s').st :=
  h.setSession hv rfl

/-- general form: the new value is fine, given that the old one was -/
theorem UInv.modS {c c' : Ctx} {tid : Id} {f : Session → Session} (h : UInv c.st)
    (hr : Robust.Irc.modS c tid f = Res.ok c')
    (hf : ∀ s, AMap.get c.st.sessions tid = some s → UOK s → UOK (f s)) : UInv c'.st := by
  obtain ⟨s, hs, rfl⟩ := modS_eq_ok.1 hr
  exact h.putS (hf s hs (h tid s hs))

/-- the function keeps `username` and `id` -/
theorem UInv.modS_keep {c c' : Ctx} {tid : Id} {f : Session → Session} (h : UInv c.st)
    (hr : Robust.Irc.modS c tid f = Res.ok c') (hf : UKeep f) : UInv c'.st :=
  h.modS hr fun _ _ h0 => h0.keep hf

/-- mapping all sessions by a function that keeps the fields read -/
theorem UInv.mapSessions {st st' : St} (h : UInv st) (f : Session → Session) (hf : UKeep f)
    (hs : st'.sessions = st.sessions.map fun e => (e.1, f e.2)) : UInv st' := by
  intro id s hg
  rw [hs, AMap.get_map_val] at hg
  cases hg0 : AMap.get st.sessions id with
  | none => rw [hg0] at hg; cases hg
  | some s0 =>
    rw [hg0] at hg
    simp only [Option.map_some, Option.some.injEq] at hg
    subst hg
    exact (h id s0 hg0).keep hf

theorem UInv.maybeDeleteChannel {c : Ctx} (h : UInv c.st) (lc : String) : UInv (maybeDeleteChannel c lc).st := by
  unfold Robust.Irc.maybeDeleteChannel
  split
  · exact h
  · split
    · exact h
    · rename_i ch _ _
      exact h.mapSessions (fun s => { s with invitedTo := s.invitedTo.filter (· ≠ chanToLower ch.name) })
        (fun _ => ⟨rfl, rfl⟩) rfl

theorem UInv.leaveChannel {c c' : Ctx} {lc lcn : String} {tid : Id} (h : UInv c.st)
    (hr : leaveChannel c lc lcn tid = Res.ok c') : UInv c'.st := by
  unfold Robust.Irc.leaveChannel at hr
  split at hr
  · rename_i ch hch
    exact ((h.putChan lc { ch with nicks := AMap.erase ch.nicks lcn }).maybeDeleteChannel lc).modS_keep hr
      fun _ => ⟨rfl, rfl⟩
  · cases hr

theorem UInv.foldl {α : Type} {f : Ctx → α → Ctx} (hf : ∀ c a, UInv c.st → UInv (f c a).st) :
    ∀ (l : List α) (c : Ctx), UInv c.st → UInv (l.foldl f c).st
  | [], _, h => h
  | a :: t, c, h => UInv.foldl hf t (f c a) (hf c a h)

theorem UInv.foldlM {α : Type} {f : Ctx → α → Res Ctx} (hf : ∀ c a c', UInv c.st → f c a = .ok c' → UInv c'.st) :
    ∀ (l : List α) {c c' : Ctx}, UInv c.st → l.foldlM f c = .ok c' → UInv c'.st
  | [], c, c', h, hr => by cases hr; exact h
  | a :: l, c, c', h, hr => by
    rw [List.foldlM_cons] at hr
    obtain ⟨c1, h1, hr⟩ := Res.bind_eq_ok.1 hr
    exact UInv.foldlM hf l (hf c a c1 h h1) hr

theorem UInv.deleteSession {c c' : Ctx} {sid : Id} (h : UInv c.st) (hr : deleteSession c sid = Res.ok c') :
    UInv c'.st := by
  unfold Robust.Irc.deleteSession at hr
  obtain ⟨s, _, hr⟩ := Res.bind_eq_ok.1 hr
  dsimp only at hr
  refine UInv.modS_keep ?_ hr (fun _ => ⟨rfl, rfl⟩)
  refine UInv.congr (st := (c.st.channels.foldl _ c).st) ?_ rfl
  refine UInv.foldl ?_ _ _ h
  intro c1 e h1
  split
  · exact h1
  · rename_i ch hch
    exact (h1.putChan e.1 { ch with nicks := AMap.erase ch.nicks (nickToLower s.nick) }).maybeDeleteChannel _

theorem UInv.createSession {st st' : St} {id : Id} {auth : String} {ts : Int} (h : UInv st)
    (hr : createSession st id auth ts = some st') : UInv st' := by
  rw [createSession_eq hr]
  exact h.setSession (v := _) ⟨Nat.zero_le _, fun _ => spaceless_empty⟩ rfl

theorem UInv.updateLastClientMessageID {st st' : St} {e : Entry} (h : UInv st)
    (hr : updateLastClientMessageID st e = some st') : UInv st' := by
  unfold Robust.Irc.updateLastClientMessageID at hr
  cases hg : AMap.get st.sessions e.session with
  | none => simp [hg] at hr
  | some s =>
    simp only [hg, Option.some.injEq] at hr
    subst hr
    refine h.setSession (v := _) ?_ rfl
    exact (h _ s hg).congr rfl rfl

/-- purging sessions -/
theorem UInv.maybeDeleteSession {st : St} (sid : Id) (h : UInv st) (hnd : (AMap.keys st.sessions).Nodup) :
    UInv (maybeDeleteSession st sid) := by
  unfold Robust.Irc.maybeDeleteSession
  cases ha : AMap.get st.sessions sid with
  | none => exact h
  | some a =>
    simp only
    have h1 : ∀ b : Bool, ∀ id s,
        AMap.get (if b = true then { st with sessions := st.sessions.filter (fun e => !e.2.deleted) } else st).sessions id = some s →
        AMap.get st.sessions id = some s := by
      intro b id s hg
      cases b with
      | false => exact hg
      | true => exact ((AMap.get_filter _ hnd).1 hg).1
    generalize (a.server || a.operator) = b
    have h1b := h1 b
    generalize (if b = true then { st with sessions := st.sessions.filter (fun e => !e.2.deleted) } else st) = st1 at h1b
    cases a.deleted with
    | false => simpa using h.sub h1b
    | true =>
      simp only [if_true]
      exact h.sub fun id s hg => h1b id s (AMap.get_of_get_erase hg).2

/-- the config entry and the bookkeeping fields -/
theorem UInv.withConfig {st : St} (h : UInv st) (x : Config) : UInv { st with config := x } := h
theorem UInv.withLastProcessed {st : St} (h : UInv st) (x : Id) : UInv { st with lastProcessed := x } := h

/-- a handler keeps `UInv`, for callers that satisfy `Pre` (only NICK of services needs it) and for
messages whose middle parameters contain no space (`MidOK`, true of every parsed message; only USER
needs it) -/
def UPres (h : Ctx → Id → IrcMsg → Res Ctx) : Prop :=
  ∀ c sid m c', Pre c sid → MidOK m → UInv c.st → h c sid m = .ok c' → UInv c'.st

theorem UPres.of_plain {h : Ctx → Id → IrcMsg → Res Ctx}
    (H : ∀ {c c' : Ctx} {sid : Id} {m : IrcMsg}, UInv c.st → h c sid m = .ok c' → UInv c'.st) : UPres h :=
  fun _ _ _ _ _ _ hp hr => H hp hr

instance (s : Session) : Decidable (UOK s) := by unfold UOK; infer_instance

/-- a checkable form for concrete states -/
theorem UInv.of_all {st : St} (h : st.sessions.all (fun e => decide (UOK e.2)) = true) : UInv st := by
  intro id s hg
  have := List.all_eq_true.1 h _ (AMap.mem_of_get hg)
  simpa using this

end Robust.Irc
