import Robust.Irc.Proofs.FrameSim
/-!
Nick changes (`cmdNick`, `cmdServerSvsnick`), new sessions (`createSession`) and the
indexing step of `cmdServerNick`.
-/
namespace Robust.Irc
open Robust AMap

/-! ### re-keying the member maps -/

/-- what `cmdNick` / `cmdServerSvsnick` do to one channel: move the entry `old` to `new` -/
def rekeyCh (old new : String) (ch : Channel) : Channel :=
  { ch with nicks := AMap.erase (match AMap.get ch.nicks old with
      | some modes => AMap.set ch.nicks new modes
      | none => ch.nicks) old }

def rekeyChan (old new : String) (e : String × Channel) : String × Channel := (e.1, rekeyCh old new e.2)

/-- the lambda in the handlers is `rekeyChan` -/
theorem rekeyChan_eq (old new : String) :
    (fun (e : String × Channel) =>
      let ch := e.2
      let nicks := match AMap.get ch.nicks old with
        | some modes => AMap.set ch.nicks new modes
        | none => ch.nicks
      (e.1, { ch with nicks := AMap.erase nicks old })) = rekeyChan old new := rfl

@[simp] theorem rekeyCh_name (old new : String) (ch : Channel) : (rekeyCh old new ch).name = ch.name := rfl

theorem mem_keys_rekeyCh {old new n : String} {ch : Channel} :
    n ∈ AMap.keys (rekeyCh old new ch).nicks ↔
      n ≠ old ∧ (n ∈ AMap.keys ch.nicks ∨ (n = new ∧ old ∈ AMap.keys ch.nicks)) := by
  unfold rekeyCh
  simp only
  rw [AMap.mem_keys_erase]
  cases hg : AMap.get ch.nicks old with
  | none =>
    have : old ∉ AMap.keys ch.nicks := AMap.get_eq_none_iff.1 hg
    simp [this]
  | some modes =>
    have : old ∈ AMap.keys ch.nicks := AMap.mem_keys_of_get hg
    simp only [AMap.mem_keys_set, this, and_true]
    constructor
    · rintro ⟨h1, h2 | h2⟩
      · exact ⟨h1, Or.inr h2⟩
      · exact ⟨h1, Or.inl h2⟩
    · rintro ⟨h1, h2 | h2⟩
      · exact ⟨h1, Or.inr h2⟩
      · exact ⟨h1, Or.inl h2⟩

theorem nodup_keys_rekeyCh (old new : String) {ch : Channel} (h : (AMap.keys ch.nicks).Nodup) :
    (AMap.keys (rekeyCh old new ch).nicks).Nodup := by
  unfold rekeyCh
  simp only
  apply AMap.nodup_keys_erase
  cases AMap.get ch.nicks old with
  | none => exact h
  | some modes => exact AMap.nodup_keys_set _ _ h

theorem get_map_rekeyChan (m : AMap String Channel) (old new lc : String) :
    AMap.get (m.map (rekeyChan old new)) lc = (AMap.get m lc).map (rekeyCh old new) :=
  AMap.get_map_val m (rekeyCh old new) lc

theorem keys_map_rekeyChan (m : AMap String Channel) (old new : String) :
    AMap.keys (m.map (rekeyChan old new)) = AMap.keys m :=
  AMap.keys_map_val m (fun e => rekeyCh old new e.2)

/-! ### nick change without touching the channels

`cmdNick` for the first nick of a session, and the case-only change of `cmdNick` /
`cmdServerSvsnick` (same index key). -/

theorem WInv_setNick_noRekey {st st' : St} {sid : Id} {s s' : Session} {lcnew : String}
    (h : WInv st) (hs : AMap.get st.sessions sid = some s) (hlive : s.deleted = false)
    (hid : s'.id = s.id) (hdel : s'.deleted = s.deleted) (hchs : s'.channels = s.channels)
    (hlow : nickToLower s'.nick = lcnew)
    (hcase : AMap.get st.nicks lcnew = some sid ∨
             (AMap.get st.nicks lcnew = none ∧ (∀ x, AMap.get st.nicks x ≠ some sid) ∧ s.channels = []))
    (hss : st'.sessions = AMap.set st.sessions sid s') (hn : st'.nicks = AMap.set st.nicks lcnew sid)
    (hc : st'.channels = st.channels) : WInv st' := by
  have hsid := h.sessId sid s hs
  have hgets : AMap.get st'.sessions sid = some s' := by rw [hss]; exact AMap.get_set_same _ _ _
  have hgetn : AMap.get st'.nicks lcnew = some sid := by rw [hn]; exact AMap.get_set_same _ _ _
  -- another session is indexed under a key different from `lcnew`
  have hother : ∀ x id, id ≠ sid → AMap.get st.nicks x = some id → x ≠ lcnew := by
    intro x id hne hx he
    subst he
    rcases hcase with h1 | ⟨h1, _, _⟩
    · rw [h1] at hx; cases hx; exact hne rfl
    · rw [h1] at hx; cases hx
  -- `sid` is indexed at most under `lcnew`
  have hself : ∀ x, AMap.get st.nicks x = some sid → x = lcnew := by
    intro x hx
    rcases hcase with h1 | ⟨_, h2, _⟩
    · exact h.index_inj hx h1
    · exact absurd hx (h2 x)
  refine ⟨⟨?_, ?_, ?_, ?_, ?_, ?_, ?_⟩, ?_⟩
  · rw [hss]; exact AMap.nodup_keys_set _ _ h.sessNodup
  · rw [hn]; exact AMap.nodup_keys_set _ _ h.nickNodup
  · rw [hc]; exact h.chanNodup
  · intro id x hg
    rw [hss, AMap.get_set] at hg
    split at hg
    · rename_i he; subst he; cases hg
      rw [hid, hchs]; exact hsid
    · exact h.sessId id x hg
  · intro id x hg hl hnn
    rw [hss, AMap.get_set] at hg
    split at hg
    · rename_i he; subst he; cases hg
      rw [hlow]; exact hgetn
    · rename_i hne
      have ho := h.owns id x hg hl hnn
      rw [hn, AMap.get_set_other _ (hother _ id hne ho)]; exact ho
  · intro x id hi
    rw [hn, AMap.get_set] at hi
    split at hi
    · rename_i he; subst he; cases hi
      exact ⟨s', hgets, by rw [hdel]; exact hlive, hlow⟩
    · rename_i hx
      obtain ⟨s0, hg0, hl0, hlow0⟩ := h.index x id hi
      have hne : id ≠ sid := fun he => hx (hself x (he ▸ hi))
      exact ⟨s0, by rw [hss, AMap.get_set_other _ hne]; exact hg0, hl0, hlow0⟩
  · intro lc c hg
    rw [hc] at hg
    obtain ⟨a, b, d⟩ := h.chans lc c hg
    refine ⟨a, b, fun n hn' => ?_⟩
    obtain ⟨id, s0, h1, h2, h3⟩ := d n hn'
    by_cases he : id = sid
    · subst he
      rw [hs] at h2; cases h2
      have := hself n h1; subst this
      exact ⟨id, s', hgetn, hgets, by rw [hchs]; exact h3⟩
    · exact ⟨id, s0, by rw [hn, AMap.get_set_other _ (hother n id he h1)]; exact h1,
        by rw [hss, AMap.get_set_other _ he]; exact h2, h3⟩
  · intro x id s0 hi hg ch2 hch2
    rw [hn, AMap.get_set] at hi
    rw [hc]
    split at hi
    · rename_i he; subst he; cases hi
      rw [hgets] at hg; cases hg
      rw [hchs] at hch2
      rcases hcase with h1 | ⟨_, _, h3⟩
      · exact h.member x sid s h1 hs ch2 hch2
      · rw [h3] at hch2; simp at hch2
    · rename_i hx
      have hne : id ≠ sid := fun he => hx (hself x (he ▸ hi))
      rw [hss, AMap.get_set_other _ hne] at hg
      exact h.member x id s0 hi hg ch2 hch2

/-! ### nick change with re-keying: the new key is free -/

theorem WInv_setNick_rekey {st st' : St} {tid : Id} {t t' : Session} {old lcnew : String}
    (h : WInv st) (hidx : AMap.get st.nicks old = some tid) (ht : AMap.get st.sessions tid = some t)
    (hfree : AMap.get st.nicks lcnew = none)
    (hid : t'.id = t.id) (hdel : t'.deleted = t.deleted) (hchs : t'.channels = t.channels)
    (hlow : nickToLower t'.nick = lcnew)
    (hss : st'.sessions = AMap.set st.sessions tid t')
    (hn : st'.nicks = AMap.erase (AMap.set st.nicks lcnew tid) old)
    (hc : st'.channels = st.channels.map (rekeyChan old lcnew)) : WInv st' := by
  have htid := h.sessId tid t ht
  obtain ⟨t0, ht0, hlive, _⟩ := h.index old tid hidx
  rw [ht] at ht0; cases ht0
  have hne : lcnew ≠ old := by
    intro he; rw [he, hidx] at hfree; cases hfree
  have hgets : AMap.get st'.sessions tid = some t' := by rw [hss]; exact AMap.get_set_same _ _ _
  have hgetn : AMap.get st'.nicks lcnew = some tid := by
    rw [hn, AMap.get_erase_other hne]; exact AMap.get_set_same _ _ _
  -- index entries of other sessions are untouched
  have hkeep : ∀ x id, id ≠ tid → AMap.get st.nicks x = some id → AMap.get st'.nicks x = some id := by
    intro x id hid' hx
    have h1 : x ≠ old := fun he => hid' (by rw [he, hidx] at hx; cases hx; rfl)
    have h2 : x ≠ lcnew := fun he => by rw [he, hfree] at hx; cases hx
    rw [hn, AMap.get_erase_other h1, AMap.get_set_other _ h2]; exact hx
  -- reading the new index
  have hread : ∀ x id, AMap.get st'.nicks x = some id →
      (x = lcnew ∧ id = tid) ∨ (x ≠ lcnew ∧ x ≠ old ∧ id ≠ tid ∧ AMap.get st.nicks x = some id) := by
    intro x id hx
    rw [hn] at hx
    obtain ⟨h1, h2⟩ := AMap.get_of_get_erase hx
    rw [AMap.get_set] at h2
    split at h2
    · rename_i he; cases h2; exact Or.inl ⟨he, rfl⟩
    · rename_i he
      refine Or.inr ⟨he, h1, fun hid' => ?_, h2⟩
      subst hid'
      exact h1 (h.index_inj h2 hidx)
  refine ⟨⟨?_, ?_, ?_, ?_, ?_, ?_, ?_⟩, ?_⟩
  · rw [hss]; exact AMap.nodup_keys_set _ _ h.sessNodup
  · rw [hn]; exact AMap.nodup_keys_erase _ (AMap.nodup_keys_set _ _ h.nickNodup)
  · rw [hc, keys_map_rekeyChan]; exact h.chanNodup
  · intro id x hg
    rw [hss, AMap.get_set] at hg
    split at hg
    · rename_i he; subst he; cases hg
      rw [hid, hchs]; exact htid
    · exact h.sessId id x hg
  · intro id x hg hl hnn
    rw [hss, AMap.get_set] at hg
    split at hg
    · rename_i he; subst he; cases hg
      rw [hlow]; exact hgetn
    · rename_i hid'
      exact hkeep _ id hid' (h.owns id x hg hl hnn)
  · intro x id hi
    rcases hread x id hi with ⟨h1, h2⟩ | ⟨_, _, h3, h4⟩
    · subst h1; subst h2
      exact ⟨t', hgets, by rw [hdel]; exact hlive, hlow⟩
    · obtain ⟨s0, hg0, hl0, hlow0⟩ := h.index x id h4
      exact ⟨s0, by rw [hss, AMap.get_set_other _ h3]; exact hg0, hl0, hlow0⟩
  · intro lc c' hg
    rw [hc, get_map_rekeyChan] at hg
    cases hg0 : AMap.get st.channels lc with
    | none => rw [hg0] at hg; cases hg
    | some c =>
      rw [hg0] at hg; simp only [Option.map_some, Option.some.injEq] at hg; subst hg
      obtain ⟨a, b, d⟩ := h.chans lc c hg0
      refine ⟨a, nodup_keys_rekeyCh _ _ b, fun n hn' => ?_⟩
      obtain ⟨hno, hcases⟩ := mem_keys_rekeyCh.1 hn'
      have hmain : ∀ m, m ∈ AMap.keys c.nicks → m ≠ old →
          ∃ id s, AMap.get st'.nicks m = some id ∧ AMap.get st'.sessions id = some s ∧ lc ∈ s.channels := by
        intro m hm hmo
        obtain ⟨id, s0, h1, h2, h3⟩ := d m hm
        have hid' : id ≠ tid := fun he => hmo (h.index_inj (he ▸ h1) hidx)
        exact ⟨id, s0, hkeep m id hid' h1, by rw [hss, AMap.get_set_other _ hid']; exact h2, h3⟩
      rcases hcases with h1 | ⟨h1, h2⟩
      · exact hmain n h1 hno
      · subst h1
        obtain ⟨id, s0, a1, a2, a3⟩ := d old h2
        rw [hidx] at a1; cases a1
        rw [ht] at a2; cases a2
        exact ⟨tid, t', hgetn, hgets, by rw [hchs]; exact a3⟩
  · intro x id s0 hi hg ch2 hch2
    rw [hc, get_map_rekeyChan]
    rcases hread x id hi with ⟨h1, h2⟩ | ⟨h1, h2, h3, h4⟩
    · subst h1; subst h2
      rw [hgets] at hg; cases hg
      rw [hchs] at hch2
      obtain ⟨c, hc0, hcont⟩ := h.member old id t hidx ht ch2 hch2
      refine ⟨rekeyCh old x c, by rw [hc0]; rfl, ?_⟩
      rw [AMap.contains_iff_mem_keys] at hcont ⊢
      exact mem_keys_rekeyCh.2 ⟨hne, Or.inr ⟨rfl, hcont⟩⟩
    · rw [hss, AMap.get_set_other _ h3] at hg
      obtain ⟨c, hc0, hcont⟩ := h.member x id s0 h4 hg ch2 hch2
      refine ⟨rekeyCh old lcnew c, by rw [hc0]; rfl, ?_⟩
      rw [AMap.contains_iff_mem_keys] at hcont ⊢
      exact mem_keys_rekeyCh.2 ⟨h2, Or.inl hcont⟩

/-- re-keying keeps every channel non-empty -/
theorem ChansNonempty_rekey {st st' : St} {old lcnew : String} (h : ChansNonempty st) (hne : lcnew ≠ old)
    (hc : st'.channels = st.channels.map (rekeyChan old lcnew)) : ChansNonempty st' := by
  intro lc c' hg
  rw [hc, get_map_rekeyChan] at hg
  cases hg0 : AMap.get st.channels lc with
  | none => rw [hg0] at hg; cases hg
  | some c =>
    rw [hg0] at hg; simp only [Option.map_some, Option.some.injEq] at hg; subst hg
    obtain ⟨k, v, hkv⟩ := AMap.exists_get_of_ne_nil (h lc c hg0)
    have hk : k ∈ AMap.keys c.nicks := AMap.mem_keys_of_get hkv
    intro hnil
    have : ∃ n, n ∈ AMap.keys (rekeyCh old lcnew c).nicks := by
      by_cases hko : k = old
      · subst hko
        exact ⟨lcnew, mem_keys_rekeyCh.2 ⟨hne, Or.inr ⟨rfl, hk⟩⟩⟩
      · exact ⟨k, mem_keys_rekeyCh.2 ⟨hko, Or.inl hk⟩⟩
    obtain ⟨n, hn'⟩ := this
    rw [hnil] at hn'; simp at hn'

/-! ### new sessions -/

/-- storing a nickless, channel-less session under an id that the index does not mention
(a fresh id in particular) -/
theorem WInv_newSession {st st' : St} {id : Id} {ns : Session} (h : WInv st)
    (hfree : ∀ x, AMap.get st.nicks x ≠ some id)
    (hid : ns.id = id) (hnick : ns.nick = "") (hchs : ns.channels = [])
    (hss : st'.sessions = AMap.set st.sessions id ns) (hn : st'.nicks = st.nicks)
    (hc : st'.channels = st.channels) : WInv st' := by
  refine ⟨⟨?_, ?_, ?_, ?_, ?_, ?_, ?_⟩, ?_⟩
  · rw [hss]; exact AMap.nodup_keys_set _ _ h.sessNodup
  · rw [hn]; exact h.nickNodup
  · rw [hc]; exact h.chanNodup
  · intro id' x hg
    rw [hss, AMap.get_set] at hg
    split at hg
    · rename_i he; subst he; cases hg
      exact ⟨hid, by rw [hchs]; exact List.nodup_nil⟩
    · exact h.sessId id' x hg
  · intro id' x hg hl hnn
    rw [hss, AMap.get_set] at hg
    rw [hn]
    split at hg
    · cases hg; exact absurd hnick hnn
    · exact h.owns id' x hg hl hnn
  · intro x id' hi
    rw [hn] at hi
    obtain ⟨s0, hg0, hl0, hlow0⟩ := h.index x id' hi
    have hne : id' ≠ id := fun he => hfree x (he ▸ hi)
    exact ⟨s0, by rw [hss, AMap.get_set_other _ hne]; exact hg0, hl0, hlow0⟩
  · intro lc c hg
    rw [hc] at hg
    obtain ⟨a, b, d⟩ := h.chans lc c hg
    refine ⟨a, b, fun n hn' => ?_⟩
    obtain ⟨id', s0, h1, h2, h3⟩ := d n hn'
    have hne : id' ≠ id := fun he => hfree n (he ▸ h1)
    exact ⟨id', s0, by rw [hn]; exact h1, by rw [hss, AMap.get_set_other _ hne]; exact h2, h3⟩
  · intro x id' s0 hi hg ch2 hch2
    rw [hn] at hi
    have hne : id' ≠ id := fun he => hfree x (he ▸ hi)
    rw [hss, AMap.get_set_other _ hne] at hg
    rw [hc]
    exact h.member x id' s0 hi hg ch2 hch2

/-- an id without stored session is not mentioned by the index -/
theorem WInvCore.unindexed_of_fresh {st : St} (h : WInvCore st) {id : Id}
    (hf : AMap.get st.sessions id = none) : ∀ x, AMap.get st.nicks x ≠ some id := by
  intro x hx
  obtain ⟨s, hs, _⟩ := h.index x id hx
  rw [hf] at hs; cases hs

theorem createSession_eq {st st' : St} {id : Id} {auth : String} {ts : Int}
    (hr : createSession st id auth ts = some st') :
    st' = { st with sessions := AMap.set st.sessions id { id := id, auth := auth, created := ts, lastActivity := ts, lastNonPing := ts, svid := "0" } } := by
  unfold createSession at hr
  split at hr
  · cases hr
  · cases hr; rfl

theorem WInv_createSession {st st' : St} {id : Id} {auth : String} {ts : Int} (h : WInv st)
    (hfree : ∀ x, AMap.get st.nicks x ≠ some id) (hr : createSession st id auth ts = some st') : WInv st' := by
  rw [createSession_eq hr]
  exact WInv_newSession h hfree rfl rfl rfl rfl rfl rfl

theorem HInv_createSession {st st' : St} {id : Id} {auth : String} {ts : Int} (h : HInv st)
    (hfree : ∀ x, AMap.get st.nicks x ≠ some id) (hr : createSession st id auth ts = some st') : HInv st' := by
  refine ⟨WInv_createSession h.toWInv hfree hr, ?_⟩
  rw [createSession_eq hr]
  exact h.nonempty.congr rfl

theorem Inv_createSession {st st' : St} {id : Id} {auth : String} {ts : Int} (h : Inv st)
    (hfree : ∀ x, AMap.get st.nicks x ≠ some id) (hr : createSession st id auth ts = some st') : Inv st' := by
  refine ⟨HInv_createSession h.toHInv hfree hr, ?_⟩
  rw [createSession_eq hr]
  intro id' s hg
  change AMap.get (AMap.set st.sessions id _) id' = some s at hg
  rw [AMap.get_set] at hg
  split at hg
  · cases hg; rfl
  · exact h.noDeleted id' s hg

/-- `createSession` with an id that is not stored yet (`applyEntry`, type 0, on a new message id) -/
theorem Inv_createSession_fresh {st st' : St} {id : Id} {auth : String} {ts : Int} (h : Inv st)
    (hf : AMap.get st.sessions id = none) (hr : createSession st id auth ts = some st') : Inv st' :=
  Inv_createSession h (h.toWInvCore.unindexed_of_fresh hf) hr

/-! ### the indexing step of `cmdServerNick` -/

/-- `createSession` + `modS … nick := p0 …` + `nicks[lower p0] := id`, for an id the index does
not mention and a free nick -/
theorem WInv_serverNick {c c2 : Ctx} {st1 : St} {id : Id} {p0 : String} {ts : Int} {f : Session → Session}
    (h : WInv c.st) (hfree : ∀ x, AMap.get c.st.nicks x ≠ some id)
    (hnone : AMap.get c.st.nicks (nickToLower p0) = none)
    (hcs : createSession c.st id "" ts = some st1)
    (hm : modS { c with st := st1 } id f = Res.ok c2)
    (hf : ∀ s, (f s).id = s.id ∧ (f s).deleted = s.deleted ∧ (f s).channels = s.channels ∧ (f s).nick = p0) :
    WInv { c2.st with nicks := AMap.set c2.st.nicks (nickToLower p0) id } := by
  have h1 := WInv_createSession h hfree hcs
  have e1 := createSession_eq hcs
  obtain ⟨ns, hns, rfl⟩ := modS_eq_ok.1 hm
  change AMap.get st1.sessions id = some ns at hns
  have hns' := hns
  rw [e1] at hns'
  change AMap.get (AMap.set c.st.sessions id _) id = some ns at hns'
  rw [AMap.get_set_same] at hns'
  have hnsid : ns.id = id := (h1.sessId id ns hns).1
  have hnick1 : st1.nicks = c.st.nicks := by rw [e1]
  obtain ⟨g1, g2, g3, g4⟩ := hf ns
  refine WInv_setNick_noRekey (s := ns) (s' := f ns) (sid := id) (lcnew := nickToLower p0) h1 hns ?_ g1 g2 g3
    (by rw [g4]) (Or.inr ⟨by rw [hnick1]; exact hnone, by rw [hnick1]; exact hfree, ?_⟩) ?_ rfl rfl
  · cases hns'; rfl
  · cases hns'; rfl
  · show AMap.set st1.sessions (f ns).id (f ns) = AMap.set st1.sessions id (f ns)
    rw [g1, hnsid]


/-! ### the rename step as it appears in `cmdNick` / `cmdServerSvsnick` -/

/-- index the session under the new key and, if `doRekey`, drop the old key from the index and
move the member entries.  (`cmdNick`: `doRekey = (oldNick != "" && !onlyCapsChanged)`;
`cmdServerSvsnick`: `doRekey = (lcnew != oldNick)`.) -/
def renameCtx (c : Ctx) (tid : Id) (lcnew oldNick : String) (doRekey : Bool) : Ctx :=
  let c := { c with st := { c.st with nicks := AMap.set c.st.nicks lcnew tid } }
  if doRekey then
    let st := c.st
    { c with st := { st with
        nicks := AMap.erase st.nicks oldNick,
        channels := st.channels.map fun e =>
          let ch := e.2
          let nicks := match AMap.get ch.nicks oldNick with
            | some modes => AMap.set ch.nicks lcnew modes
            | none => ch.nicks
          (e.1, { ch with nicks := AMap.erase nicks oldNick }) } }
  else c

/-- the three situations in which the rename step preserves the invariant -/
inductive RenameCase (nicks : AMap String Id) (tid : Id) (t : Session) (lcnew old : String) : Bool → Prop where
  /-- the new key is free, the session is indexed under `old`, entries are moved -/
  | rekey (hidx : AMap.get nicks old = some tid) (hfree : AMap.get nicks lcnew = none) :
      RenameCase nicks tid t lcnew old true
  /-- the session is already indexed under the new key (case-only change) -/
  | same (hidx : AMap.get nicks lcnew = some tid) : RenameCase nicks tid t lcnew old false
  /-- first nick: the session is live, not indexed, in no channel; the new key is free -/
  | first (hfree : AMap.get nicks lcnew = none) (hun : ∀ x, AMap.get nicks x ≠ some tid)
      (hlive : t.deleted = false) (hch : t.channels = []) : RenameCase nicks tid t lcnew old false

theorem rename_WInv {c c1 : Ctx} {tid : Id} {t : Session} {nick old : String} {doRekey : Bool}
    {f : Session → Session} (h : WInv c.st)
    (ht : AMap.get c.st.sessions tid = some t)
    (hm : modS c tid f = Res.ok c1)
    (hf : ∀ s, (f s).id = s.id ∧ (f s).deleted = s.deleted ∧ (f s).channels = s.channels ∧ (f s).nick = nick)
    (hcase : RenameCase c.st.nicks tid t (nickToLower nick) old doRekey) :
    WInv (renameCtx c1 tid (nickToLower nick) old doRekey).st := by
  obtain ⟨t0, ht0, rfl⟩ := modS_eq_ok.1 hm
  rw [ht] at ht0; cases ht0
  obtain ⟨g1, g2, g3, g4⟩ := hf t
  have htid : t.id = tid := (h.sessId tid t ht).1
  have hsess : (putS c (f t)).st.sessions = AMap.set c.st.sessions tid (f t) := by
    rw [putS_sessions, g1, htid]
  cases hcase with
  | rekey hidx hfree =>
    exact WInv_setNick_rekey (t' := f t) h hidx ht hfree g1 g2 g3 (by rw [g4]) hsess rfl rfl
  | same hidx =>
    obtain ⟨t1, ht1, hlive, _⟩ := h.index _ tid hidx
    rw [ht] at ht1; cases ht1
    exact WInv_setNick_noRekey (s' := f t) h ht hlive g1 g2 g3 (by rw [g4]) (Or.inl hidx) hsess rfl rfl
  | first hfree hun hlive hch =>
    exact WInv_setNick_noRekey (s' := f t) h ht hlive g1 g2 g3 (by rw [g4]) (Or.inr ⟨hfree, hun, hch⟩) hsess rfl rfl

theorem rename_HInv {c c1 : Ctx} {tid : Id} {t : Session} {nick old : String} {doRekey : Bool}
    {f : Session → Session} (h : HInv c.st)
    (ht : AMap.get c.st.sessions tid = some t)
    (hm : modS c tid f = Res.ok c1)
    (hf : ∀ s, (f s).id = s.id ∧ (f s).deleted = s.deleted ∧ (f s).channels = s.channels ∧ (f s).nick = nick)
    (hcase : RenameCase c.st.nicks tid t (nickToLower nick) old doRekey) :
    HInv (renameCtx c1 tid (nickToLower nick) old doRekey).st := by
  refine ⟨rename_WInv h.toWInv ht hm hf hcase, ?_⟩
  obtain ⟨t0, _, rfl⟩ := modS_eq_ok.1 hm
  cases hcase with
  | rekey hidx hfree =>
    have hne : nickToLower nick ≠ old := by
      intro he; rw [he, hidx] at hfree; cases hfree
    exact ChansNonempty_rekey (st := c.st) h.nonempty hne rfl
  | same hidx => exact h.nonempty.congr rfl
  | first hfree hun hlive hch => exact h.nonempty.congr rfl

/-- the rename step changes nothing but `nicks` and `channels` -/
theorem renameCtx_sessions (c : Ctx) (tid : Id) (lcnew old : String) (b : Bool) :
    (renameCtx c tid lcnew old b).st.sessions = c.st.sessions := by
  unfold renameCtx; cases b <;> rfl

theorem renameCtx_get_new {c : Ctx} {tid : Id} {lcnew old : String} {b : Bool} (h : b = true → lcnew ≠ old) :
    AMap.get (renameCtx c tid lcnew old b).st.nicks lcnew = some tid := by
  unfold renameCtx
  cases b with
  | false => exact AMap.get_set_same _ _ _
  | true =>
    show AMap.get (AMap.erase (AMap.set c.st.nicks lcnew tid) old) lcnew = some tid
    rw [AMap.get_erase_other (h rfl)]; exact AMap.get_set_same _ _ _

end Robust.Irc
