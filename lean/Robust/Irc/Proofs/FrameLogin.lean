import Robust.Irc.Proofs.FrameDelete
/-!
An optional, separate invariant: a logged-in session has a nickname.

`processMessage` lets a session that is neither a server link nor logged in run only
NICK/USER/PASS/QUIT/SERVER; so the handlers that add members on behalf of the *actor*
(`cmdJoin`) always run for a session with `nick ≠ ""`, which `WInv.owns` then shows indexed.
`LInv` looks at `loggedIn` and `nick` of the stored sessions only.
-/
namespace Robust.Irc
open Robust AMap

def LInv (st : St) : Prop :=
  ∀ id s, AMap.get st.sessions id = some s → s.loggedIn = true → s.nick ≠ ""

theorem LInv_init : LInv ({} : St) := by intro id s h; simp at h

/-- every stored session of `st'` has a counterpart in `st` with the same `loggedIn`, `nick` -/
theorem LInv.of_sessions {st st' : St} (h : LInv st)
    (hsub : ∀ id s', AMap.get st'.sessions id = some s' →
      ∃ s, AMap.get st.sessions id = some s ∧ s'.loggedIn = s.loggedIn ∧ s'.nick = s.nick) : LInv st' := by
  intro id s' hg hl
  obtain ⟨s, hs, e1, e2⟩ := hsub id s' hg
  rw [e2]; exact h id s hs (by rw [← e1]; exact hl)

theorem LInv.congr {st st' : St} (h : LInv st) (hs : st'.sessions = st.sessions) : LInv st' := by
  unfold LInv at *; rw [hs]; exact h

/-- storing a session value that itself satisfies the condition -/
theorem LInv.putS {c : Ctx} (h : LInv c.st) {s' : Session} (hs' : s'.loggedIn = true → s'.nick ≠ "") :
    LInv (putS c s').st := by
  intro id s hg hl
  rw [putS_sessions, AMap.get_set] at hg
  split at hg
  · cases hg; exact hs' hl
  · exact h id s hg hl

theorem LInv.modS {c c' : Ctx} {sid : Id} {f : Session → Session} (h : LInv c.st)
    (hr : modS c sid f = Res.ok c')
    (hf : ∀ s, AMap.get c.st.sessions sid = some s → (f s).loggedIn = true → (f s).nick ≠ "") : LInv c'.st := by
  obtain ⟨s, hs, rfl⟩ := modS_eq_ok.1 hr
  exact h.putS (hf s hs)

theorem LInv.putChan {c : Ctx} (h : LInv c.st) (lc : String) (ch : Channel) : LInv (putChan c lc ch).st :=
  h.congr rfl

theorem LInv.sessUpTo {st st' : St} (h : LInv st) (hs : SessUpTo st.sessions st'.sessions) : LInv st' := by
  refine h.of_sessions fun id s' hg => ?_
  obtain ⟨s, hs0, e⟩ := hs.bwd hg
  exact ⟨s, hs0, by rw [e], by rw [e]⟩

theorem LInv.maybeDeleteChannel {c : Ctx} (lc : String) (h : LInv c.st) (hw : WInvCore c.st) :
    LInv (maybeDeleteChannel c lc).st :=
  h.sessUpTo (maybeDeleteChannel_spec (c := c) (lc := lc) (fun ch hg => (hw.chans lc ch hg).1)).2.1

theorem LInv.leaveChannel {c c' : Ctx} {lc lcn : String} {tid : Id} (h : LInv c.st) (hw : WInv c.st)
    (hidx : AMap.get c.st.nicks lcn = some tid) (hr : leaveChannel c lc lcn tid = Res.ok c') : LInv c'.st := by
  have sp := leaveChannel_spec hw hidx hr
  refine h.of_sessions fun id s' hg => ?_
  cases hg0 : AMap.get c.st.sessions id with
  | none =>
    have : id ∉ AMap.keys c'.st.sessions := by rw [sp.keys]; exact AMap.get_eq_none_iff.1 hg0
    exact absurd (AMap.mem_keys_of_get hg) this
  | some s =>
    by_cases hid : id = tid
    · subst hid
      obtain ⟨inv, hinv⟩ := sp.self s hg0
      rw [hinv] at hg; cases hg
      exact ⟨s, rfl, rfl, rfl⟩
    · obtain ⟨inv, hinv⟩ := sp.others id s hid hg0
      rw [hinv] at hg; cases hg
      exact ⟨s, rfl, rfl, rfl⟩

theorem LInv.deleteSession {c c' : Ctx} {sid : Id} {s : Session} (h : LInv c.st) (hw : WInv c.st)
    (hs : AMap.get c.st.sessions sid = some s) (hpre : DelPre c.st s)
    (hr : deleteSession c sid = Res.ok c') : LInv c'.st := by
  have sp := deleteSession_spec hw hs hpre hr
  refine h.of_sessions fun id s' hg => ?_
  cases hg0 : AMap.get c.st.sessions id with
  | none =>
    have : id ∉ AMap.keys c'.st.sessions := by rw [sp.keys]; exact AMap.get_eq_none_iff.1 hg0
    exact absurd (AMap.mem_keys_of_get hg) this
  | some t =>
    by_cases hid : id = sid
    · subst hid
      rw [hs] at hg0; cases hg0
      obtain ⟨inv, hinv⟩ := sp.self
      rw [hinv] at hg; cases hg
      exact ⟨s, rfl, rfl, rfl⟩
    · obtain ⟨inv, hinv⟩ := sp.others id t hid hg0
      rw [hinv] at hg; cases hg
      exact ⟨t, rfl, rfl, rfl⟩

theorem LInv.createSession {st st' : St} {id : Id} {auth : String} {ts : Int} (h : LInv st)
    (hr : createSession st id auth ts = some st') : LInv st' := by
  unfold Robust.Irc.createSession at hr
  split at hr
  · cases hr
  · cases hr
    intro id' s hg hl
    change AMap.get (AMap.set st.sessions id _) id' = some s at hg
    rw [AMap.get_set] at hg
    split at hg
    · cases hg; cases hl
    · exact h id' s hg hl

theorem LInv.updateLastClientMessageID {st st' : St} {e : Entry} (h : LInv st)
    (hr : updateLastClientMessageID st e = some st') : LInv st' := by
  unfold Robust.Irc.updateLastClientMessageID at hr
  cases hg : AMap.get st.sessions e.session with
  | none => simp [hg] at hr
  | some s =>
    simp only [hg, Option.some.injEq] at hr
    subst hr
    intro id' s' hg' hl
    change AMap.get (AMap.set st.sessions e.session _) id' = some s' at hg'
    rw [AMap.get_set] at hg'
    split at hg'
    · rename_i he; subst he; cases hg'
      exact h _ s hg hl
    · exact h id' s' hg' hl

/-- purging sessions keeps `LInv` -/
theorem LInv.maybeDeleteSession {st : St} (sid : Id) (h : LInv st) (hnd : (AMap.keys st.sessions).Nodup) :
    LInv (maybeDeleteSession st sid) := by
  unfold Robust.Irc.maybeDeleteSession
  cases ha : AMap.get st.sessions sid with
  | none => exact h
  | some a =>
    simp only
    have h1 : ∀ b : Bool, LInv (if b = true then { st with sessions := st.sessions.filter (fun e => !e.2.deleted) } else st) ∧
        (AMap.keys (if b = true then { st with sessions := st.sessions.filter (fun e => !e.2.deleted) } else st).sessions).Nodup := by
      intro b
      cases b with
      | false => exact ⟨h, hnd⟩
      | true =>
        simp only [if_true]
        refine ⟨h.of_sessions fun id s' hg => ⟨s', ((AMap.get_filter _ hnd).1 hg).1, rfl, rfl⟩,
          AMap.nodup_keys_filter _ hnd⟩
    obtain ⟨h2, _⟩ := h1 (a.server || a.operator)
    generalize (if (a.server || a.operator) = true then { st with sessions := st.sessions.filter (fun e => !e.2.deleted) } else st) = st1 at h2
    cases a.deleted with
    | false => simpa using h2
    | true =>
      simp only [if_true]
      exact h2.of_sessions fun id s' hg => ⟨s', (AMap.get_of_get_erase hg).2, rfl, rfl⟩

end Robust.Irc
