import Robust.Irc.Proofs.PermH3
import Robust.Irc.Proofs.PermH4
import Robust.Irc.Proofs.PermH5
import Robust.Irc.Proofs.PermH6
import Robust.Irc.Proofs.PermH7
import Robust.Irc.Proofs.PermEntry
/-!
Order-independence, part 9: every handler of the command table is congruent.

Proved per handler in `PermH1` … `PermH7`:

* client handlers (`HCongr`): cmdAway, cmdServiceAlias, cmdGline, cmdInvite, cmdIson, cmdJoin, cmdKick, cmdKill, cmdKnock, cmdList, cmdMode, cmdMotd, cmdNames, cmdNick, cmdOper, cmdPart, cmdPass, cmdPing, cmdPrivmsg, cmdQuit, cmdServer, cmdTopic, cmdUser, cmdUserhost, cmdWho, cmdWhois
* services handlers (`HCongr`): cmdServerInvite, cmdServerJoin, cmdServerKick, cmdServerMode, cmdServerNick, cmdServerPrivmsg, cmdServerPart, cmdServerSvshold, cmdServerSvsjoin, cmdServerSvsmode, cmdServerSvsnick, cmdServerSvspart, cmdServerTopic
* services handlers that search the sessions (`HCongrU`: needs `UniqNick` and a non-empty prefix name):
  cmdServerQuit, cmdServerKill
-/
namespace Robust.Irc
open Robust

theorem allHandlersCongr : AllHandlersCongr := by
  intro fname h hh
  unfold handlerByName at hh
  split at hh
  · cases hh; exact cmdAway_congr.toU
  · cases hh; exact cmdServiceAlias_congr.toU
  · cases hh; exact cmdGline_congr.toU
  · cases hh; exact cmdInvite_congr.toU
  · cases hh; exact cmdIson_congr.toU
  · cases hh; exact cmdJoin_congr.toU
  · cases hh; exact cmdKick_congr.toU
  · cases hh; exact cmdKill_congr.toU
  · cases hh; exact cmdKnock_congr.toU
  · cases hh; exact cmdList_congr.toU
  · cases hh; exact cmdMode_congr.toU
  · cases hh; exact cmdMotd_congr.toU
  · cases hh; exact cmdNames_congr.toU
  · cases hh; exact cmdNick_congr.toU
  · cases hh; exact cmdOper_congr.toU
  · cases hh; exact cmdPart_congr.toU
  · cases hh; exact cmdPass_congr.toU
  · cases hh; exact cmdPing_congr.toU
  · cases hh; exact cmdPrivmsg_congr.toU
  · cases hh; exact cmdQuit_congr.toU
  · cases hh; exact cmdServer_congr.toU
  · cases hh; exact cmdTopic_congr.toU
  · cases hh; exact cmdUser_congr.toU
  · cases hh; exact cmdUserhost_congr.toU
  · cases hh; exact cmdWho_congr.toU
  · cases hh; exact cmdWhois_congr.toU
  · cases hh; exact cmdServerInvite_congr.toU
  · cases hh; exact cmdServerJoin_congr.toU
  · cases hh; exact cmdServerKick_congr.toU
  · cases hh; exact cmdServerKill_congr
  · cases hh; exact cmdServerMode_congr.toU
  · cases hh; exact cmdServerNick_congr.toU
  · cases hh; exact cmdServerPrivmsg_congr.toU
  · cases hh; exact cmdServerPart_congr.toU
  · cases hh; exact cmdServerQuit_congr
  · cases hh; exact cmdServerSvshold_congr.toU
  · cases hh; exact cmdServerSvsjoin_congr.toU
  · cases hh; exact cmdServerSvsmode_congr.toU
  · cases hh; exact cmdServerSvsnick_congr.toU
  · cases hh; exact cmdServerSvspart_congr.toU
  · cases hh; exact cmdServerTopic_congr.toU
  · cases hh

end Robust.Irc
