import Robust.Irc.Proofs.FrameSim
/-!
Removing a member: `maybeDeleteChannel`, `leaveChannel`, `deleteSession`.
-/
namespace Robust.Irc
open Robust AMap

/-! ### bookkeeping relations -/

/-- everything of a context but `sessions`, `nicks`, `channels` is unchanged -/
structure CtxFrame (c c' : Ctx) : Prop where
  msgid : c'.msgid = c.msgid
  replyid : c'.replyid = c.replyid
  out : c'.out = c.out
  config : c'.st.config = c.st.config
  svsholds : c'.st.svsholds = c.st.svsholds
  serverSessions : c'.st.serverSessions = c.st.serverSessions
  lastProcessed : c'.st.lastProcessed = c.st.lastProcessed
  serverName : c'.st.serverName = c.st.serverName

theorem CtxFrame.refl (c : Ctx) : CtxFrame c c := ⟨rfl, rfl, rfl, rfl, rfl, rfl, rfl, rfl⟩

theorem CtxFrame.trans {a b c : Ctx} (h1 : CtxFrame a b) (h2 : CtxFrame b c) : CtxFrame a c :=
  ⟨h2.msgid.trans h1.msgid, h2.replyid.trans h1.replyid, h2.out.trans h1.out, h2.config.trans h1.config,
   h2.svsholds.trans h1.svsholds, h2.serverSessions.trans h1.serverSessions,
   h2.lastProcessed.trans h1.lastProcessed, h2.serverName.trans h1.serverName⟩

theorem CtxFrame.putS (c : Ctx) (s : Session) : CtxFrame c (putS c s) := ⟨rfl, rfl, rfl, rfl, rfl, rfl, rfl, rfl⟩
theorem CtxFrame.putChan (c : Ctx) (lc : String) (ch : Channel) : CtxFrame c (putChan c lc ch) :=
  ⟨rfl, rfl, rfl, rfl, rfl, rfl, rfl, rfl⟩

/-- same sessions up to the `invitedTo` lists (what `maybeDeleteChannel` does to the sessions) -/
structure SessUpTo (m m' : AMap Id Session) : Prop where
  keys : AMap.keys m' = AMap.keys m
  get : ∀ id s, AMap.get m id = some s → ∃ inv, AMap.get m' id = some { s with invitedTo := inv }

theorem SessUpTo.refl (m : AMap Id Session) : SessUpTo m m :=
  ⟨rfl, fun _ s h => ⟨s.invitedTo, h⟩⟩

theorem SessUpTo.trans {a b c : AMap Id Session} (h1 : SessUpTo a b) (h2 : SessUpTo b c) : SessUpTo a c := by
  refine ⟨h2.keys.trans h1.keys, fun id s hg => ?_⟩
  obtain ⟨i1, g1⟩ := h1.get id s hg
  obtain ⟨i2, g2⟩ := h2.get id _ g1
  exact ⟨i2, g2⟩

theorem SessUpTo.none {m m' : AMap Id Session} (h : SessUpTo m m') {id : Id} (hg : AMap.get m id = none) :
    AMap.get m' id = none := by
  rw [AMap.get_eq_none_iff] at hg ⊢
  rw [h.keys]; exact hg

theorem SessUpTo.bwd {m m' : AMap Id Session} (h : SessUpTo m m') {id : Id} {s' : Session}
    (hg : AMap.get m' id = some s') : ∃ s, AMap.get m id = some s ∧ s' = { s with invitedTo := s'.invitedTo } := by
  cases hm : AMap.get m id with
  | none => rw [h.none hm] at hg; cases hg
  | some s =>
    obtain ⟨inv, g⟩ := h.get id s hm
    rw [g] at hg; cases hg
    exact ⟨s, rfl, rfl⟩

theorem SessUpTo.mapInvited (m : AMap Id Session) (f : Session → List String) :
    SessUpTo m (m.map fun e => (e.1, { e.2 with invitedTo := f e.2 })) := by
  refine ⟨AMap.keys_map_val m (fun e => { e.2 with invitedTo := f e.2 }), fun id s hg => ?_⟩
  have h1 := AMap.get_map_val m (fun s : Session => { s with invitedTo := f s }) id
  rw [hg] at h1
  exact ⟨f s, h1⟩

theorem SessUpTo.sim {m m' : AMap Id Session} (h : SessUpTo m m') (hn : (AMap.keys m).Nodup) : SessSim m m' := by
  refine ⟨by rw [h.keys]; exact hn, fun id => ?_⟩
  cases hm : AMap.get m id with
  | none => rw [h.none hm]
  | some s =>
    obtain ⟨inv, g⟩ := h.get id s hm
    rw [g]; rfl

/-- all channels but `lc` are non-empty -/
def ChansNonemptyBut (st : St) (lc : String) : Prop :=
  ∀ lc' c, lc' ≠ lc → AMap.get st.channels lc' = some c → c.nicks ≠ []

theorem ChansNonempty.but {st : St} (h : ChansNonempty st) (lc : String) : ChansNonemptyBut st lc :=
  fun lc' c _ hg => h lc' c hg

/-! ### `maybeDeleteChannel` -/

theorem maybeDeleteChannel_none {c : Ctx} {lc : String} (h : AMap.get c.st.channels lc = none) :
    maybeDeleteChannel c lc = c := by
  unfold maybeDeleteChannel getChan
  rw [h]

theorem maybeDeleteChannel_nonempty {c : Ctx} {lc : String} {ch : Channel}
    (h : AMap.get c.st.channels lc = some ch) (hne : ch.nicks ≠ []) : maybeDeleteChannel c lc = c := by
  unfold maybeDeleteChannel getChan
  rw [h]
  have : ch.nicks.length > 0 := List.length_pos_iff.2 hne
  simp [this]

theorem maybeDeleteChannel_empty {c : Ctx} {lc : String} {ch : Channel}
    (h : AMap.get c.st.channels lc = some ch) (he : ch.nicks = []) :
    maybeDeleteChannel c lc =
      { c with st := { c.st with
          channels := AMap.erase c.st.channels (chanToLower ch.name),
          sessions := c.st.sessions.map fun e =>
            (e.1, { e.2 with invitedTo := e.2.invitedTo.filter (· ≠ chanToLower ch.name) }) } } := by
  unfold maybeDeleteChannel getChan
  rw [h]
  simp [he]

/-- what `maybeDeleteChannel c lc` does, provided the channel stored under `lc` (if any) is
keyed by its own lower-cased name (`WInvCore.chans`) -/
theorem maybeDeleteChannel_spec {c : Ctx} {lc : String}
    (hkey : ∀ ch, AMap.get c.st.channels lc = some ch → chanToLower ch.name = lc) :
    (maybeDeleteChannel c lc).st.nicks = c.st.nicks ∧
    SessUpTo c.st.sessions (maybeDeleteChannel c lc).st.sessions ∧
    CtxFrame c (maybeDeleteChannel c lc) ∧
    (((maybeDeleteChannel c lc).st.channels = c.st.channels ∧
        ∀ ch, AMap.get c.st.channels lc = some ch → ch.nicks ≠ []) ∨
     ((maybeDeleteChannel c lc).st.channels = AMap.erase c.st.channels lc ∧
        ∃ ch, AMap.get c.st.channels lc = some ch ∧ ch.nicks = [])) := by
  cases hg : AMap.get c.st.channels lc with
  | none =>
    rw [maybeDeleteChannel_none hg]
    exact ⟨rfl, SessUpTo.refl _, CtxFrame.refl _, Or.inl ⟨rfl, fun ch h => by cases h⟩⟩
  | some ch =>
    by_cases hnil : ch.nicks = []
    · rw [maybeDeleteChannel_empty hg hnil]
      refine ⟨rfl, ?_, ⟨rfl, rfl, rfl, rfl, rfl, rfl, rfl, rfl⟩, Or.inr ⟨?_, ch, rfl, hnil⟩⟩
      · exact SessUpTo.mapInvited _ (fun s => s.invitedTo.filter (· ≠ chanToLower ch.name))
      · show AMap.erase c.st.channels (chanToLower ch.name) = AMap.erase c.st.channels lc
        rw [hkey ch hg]
    · rw [maybeDeleteChannel_nonempty hg hnil]
      refine ⟨rfl, SessUpTo.refl _, CtxFrame.refl _, Or.inl ⟨rfl, fun ch' h => ?_⟩⟩
      cases h
      exact hnil

/-! ### shrinking the member set of one channel -/

/-- `m'` is `m` with the member set of channel `lc` (stored value `ch`) shrunk by at least
`lcn` and nothing else but possibly the whole channel -/
structure Shrink (lc lcn : String) (ch : Channel) (m m' : AMap String Channel) : Prop where
  nodup : (AMap.keys m').Nodup
  other : ∀ lc', lc' ≠ lc → AMap.get m' lc' = AMap.get m lc'
  sub : ∀ c', AMap.get m' lc = some c' → c'.name = ch.name ∧ (AMap.keys c'.nicks).Nodup ∧
          ∀ n, n ∈ AMap.keys c'.nicks → n ∈ AMap.keys ch.nicks ∧ n ≠ lcn
  keep : ∀ n, n ≠ lcn → n ∈ AMap.keys ch.nicks → ∃ c', AMap.get m' lc = some c' ∧ n ∈ AMap.keys c'.nicks

/-- the indexed session under `x` is a member of every channel it lists, except possibly `lc` -/
def MemberOKSkip (st : St) (x lc : String) : Prop :=
  ∀ id s, AMap.get st.nicks x = some id → AMap.get st.sessions id = some s →
    ∀ ch ∈ s.channels, ch ≠ lc → ∃ c, AMap.get st.channels ch = some c ∧ AMap.contains c.nicks x = true

theorem MemberOK.skip {st : St} {x : String} (h : MemberOK st x) (lc : String) : MemberOKSkip st x lc :=
  fun id s hi hg ch hch _ => h id s hi hg ch hch

section shrink
variable {st st' : St} {lc lcn : String} {ch : Channel}

theorem Shrink.core (hsh : Shrink lc lcn ch st.channels st'.channels) (h : WInvCore st)
    (hch : AMap.get st.channels lc = some ch) (hs : st'.sessions = st.sessions) (hn : st'.nicks = st.nicks) :
    WInvCore st' := by
  refine ⟨by rw [hs]; exact h.sessNodup, by rw [hn]; exact h.nickNodup, hsh.nodup,
    by rw [hs]; exact h.sessId, by rw [hs, hn]; exact h.owns, by rw [hs, hn]; exact h.index, ?_⟩
  intro lc' c' hg
  rw [hs, hn]
  by_cases hlc : lc' = lc
  · subst hlc
    obtain ⟨hname, hnd, hsub⟩ := hsh.sub c' hg
    obtain ⟨a, _, d⟩ := h.chans lc' ch hch
    exact ⟨by rw [hname]; exact a, hnd, fun n hn' => d n (hsub n hn').1⟩
  · rw [hsh.other lc' hlc] at hg
    exact h.chans lc' c' hg

theorem Shrink.member (hsh : Shrink lc lcn ch st.channels st'.channels)
    (hch : AMap.get st.channels lc = some ch) (hs : st'.sessions = st.sessions) (hn : st'.nicks = st.nicks)
    {x : String} (hx : x ≠ lcn) (hm : MemberOK st x) : MemberOK st' x := by
  intro id s hi hg ch2 hch2
  rw [hn] at hi; rw [hs] at hg
  obtain ⟨c, hc, hcont⟩ := hm id s hi hg ch2 hch2
  by_cases h2 : ch2 = lc
  · subst h2
    rw [hch] at hc; cases hc
    obtain ⟨c', hc', hx'⟩ := hsh.keep x hx (AMap.contains_iff_mem_keys.1 hcont)
    exact ⟨c', hc', AMap.contains_iff_mem_keys.2 hx'⟩
  · exact ⟨c, by rw [hsh.other _ h2]; exact hc, hcont⟩

theorem Shrink.skip (hsh : Shrink lc lcn ch st.channels st'.channels)
    (hs : st'.sessions = st.sessions) (hn : st'.nicks = st.nicks)
    {x : String} (hm : MemberOKSkip st x lc) : MemberOKSkip st' x lc := by
  intro id s hi hg ch2 hch2 hne
  rw [hn] at hi; rw [hs] at hg
  obtain ⟨c, hc, hcont⟩ := hm id s hi hg ch2 hch2 hne
  exact ⟨c, by rw [hsh.other _ hne]; exact hc, hcont⟩

theorem Shrink.gone (hsh : Shrink lc lcn ch st.channels st'.channels) {c' : Channel}
    (hg : AMap.get st'.channels lc = some c') : lcn ∉ AMap.keys c'.nicks :=
  fun hmem => ((hsh.sub c' hg).2.2 lcn hmem).2 rfl

end shrink

/-! ### dropping a member and maybe the channel: the common part of `leaveChannel` and `deleteSession` -/

/-- `putChan … (erase …)` followed by `maybeDeleteChannel` -/
def dropMember (c : Ctx) (lc lcn : String) (ch : Channel) : Ctx :=
  maybeDeleteChannel (putChan c lc { ch with nicks := AMap.erase ch.nicks lcn }) lc

structure DropSpec (c c' : Ctx) (lc lcn : String) (ch : Channel) : Prop where
  nicks : c'.st.nicks = c.st.nicks
  sess : SessUpTo c.st.sessions c'.st.sessions
  frame : CtxFrame c c'
  shrink : Shrink lc lcn ch c.st.channels c'.st.channels
  nonempty : ∀ c2, AMap.get c'.st.channels lc = some c2 → c2.nicks ≠ []

theorem dropMember_spec {c : Ctx} {lc lcn : String} {ch : Channel} (h : WInvCore c.st)
    (hch : AMap.get c.st.channels lc = some ch) : DropSpec c (dropMember c lc lcn ch) lc lcn ch := by
  have hkeych := (h.chans lc ch hch).1
  have hndch := (h.chans lc ch hch).2.1
  let ch' : Channel := { ch with nicks := AMap.erase ch.nicks lcn }
  have hget1 : AMap.get (putChan c lc ch').st.channels lc = some ch' := by simp
  have hkey : ∀ x, AMap.get (putChan c lc ch').st.channels lc = some x → chanToLower x.name = lc := by
    intro x hx; rw [hget1] at hx; cases hx; exact hkeych
  obtain ⟨e1, e2, e3, e4⟩ := maybeDeleteChannel_spec (c := putChan c lc ch') (lc := lc) hkey
  have hnd1 : (AMap.keys (AMap.set c.st.channels lc ch')).Nodup := AMap.nodup_keys_set _ _ h.chanNodup
  have hsubch : ∀ n, n ∈ AMap.keys ch'.nicks → n ∈ AMap.keys ch.nicks ∧ n ≠ lcn := by
    intro n hn
    have := AMap.mem_keys_erase.1 hn
    exact ⟨this.2, this.1⟩
  refine ⟨e1, e2, (CtxFrame.putChan c lc ch').trans e3, ?_, ?_⟩
  · rcases e4 with ⟨e5, e6⟩ | ⟨e5, _⟩
    · -- channel kept
      show Shrink lc lcn ch c.st.channels (dropMember c lc lcn ch).st.channels
      unfold dropMember
      rw [e5]
      refine ⟨hnd1, fun lc' hne => ?_, fun c' hc' => ?_, fun n hn hmem => ?_⟩
      · simp [AMap.get_set_other _ hne]
      · rw [hget1] at hc'; cases hc'
        exact ⟨rfl, AMap.nodup_keys_erase lcn hndch, hsubch⟩
      · exact ⟨ch', hget1, AMap.mem_keys_erase.2 ⟨hn, hmem⟩⟩
    · -- channel deleted: it had become empty
      rename_i hex
      obtain ⟨ch2, hg2, hnil⟩ := hex
      rw [hget1] at hg2; cases hg2
      show Shrink lc lcn ch c.st.channels (dropMember c lc lcn ch).st.channels
      unfold dropMember
      rw [e5]
      refine ⟨AMap.nodup_keys_erase lc hnd1, fun lc' hne => ?_, fun c' hc' => ?_, fun n hn hmem => ?_⟩
      · simp [AMap.get_erase_other hne, AMap.get_set_other _ hne]
      · simp at hc'
      · exfalso
        have : n ∈ AMap.keys ch'.nicks := AMap.mem_keys_erase.2 ⟨hn, hmem⟩
        rw [hnil] at this; simp at this
  · intro c2 hc2
    rcases e4 with ⟨e5, e6⟩ | ⟨e5, _⟩
    · unfold dropMember at hc2
      rw [e5] at hc2
      exact e6 c2 hc2
    · unfold dropMember at hc2
      rw [e5] at hc2
      simp at hc2


/-! ### consequences of `DropSpec` -/

section dropspec
variable {c c' : Ctx} {lc lcn : String} {ch : Channel}

/-- the intermediate state: channels already shrunk, sessions not yet mapped -/
private def midSt (c c' : Ctx) : St := { c.st with channels := c'.st.channels }

private theorem DropSpec.midSim (hd : DropSpec c c' lc lcn ch) (h : WInvCore c.st) : StSim (midSt c c') c'.st :=
  ⟨hd.sess.sim h.sessNodup, hd.nicks, MapSim.refl hd.shrink.nodup⟩

theorem DropSpec.core (hd : DropSpec c c' lc lcn ch) (h : WInvCore c.st)
    (hch : AMap.get c.st.channels lc = some ch) : WInvCore c'.st :=
  (Shrink.core (st' := midSt c c') hd.shrink h hch rfl rfl).sim (hd.midSim h)

theorem DropSpec.member (hd : DropSpec c c' lc lcn ch) (h : WInvCore c.st)
    (hch : AMap.get c.st.channels lc = some ch) {x : String} (hx : x ≠ lcn) (hm : MemberOK c.st x) :
    MemberOK c'.st x :=
  (Shrink.member (st' := midSt c c') hd.shrink hch rfl rfl hx hm).sim (hd.midSim h)

theorem DropSpec.skip (hd : DropSpec c c' lc lcn ch) {x : String} (hm : MemberOKSkip c.st x lc) :
    MemberOKSkip c'.st x lc := by
  intro id s' hi hg ch2 hch2 hne
  rw [hd.nicks] at hi
  obtain ⟨s, hg0, hs'⟩ := hd.sess.bwd hg
  have hch2' : ch2 ∈ s.channels := by rw [hs'] at hch2; exact hch2
  obtain ⟨c0, hc0, hcont⟩ := hm id s hi hg0 ch2 hch2' hne
  exact ⟨c0, by rw [hd.shrink.other _ hne]; exact hc0, hcont⟩

theorem DropSpec.gone (hd : DropSpec c c' lc lcn ch) {c2 : Channel}
    (hg : AMap.get c'.st.channels lc = some c2) : lcn ∉ AMap.keys c2.nicks :=
  fun hmem => ((hd.shrink.sub c2 hg).2.2 lcn hmem).2 rfl

theorem DropSpec.chansNonempty (hd : DropSpec c c' lc lcn ch) (h : ChansNonemptyBut c.st lc) :
    ChansNonempty c'.st := by
  intro lc' c2 hg
  by_cases hlc : lc' = lc
  · subst hlc; exact hd.nonempty c2 hg
  · rw [hd.shrink.other _ hlc] at hg
    exact h lc' c2 hlc hg

theorem DropSpec.getS (hd : DropSpec c c' lc lcn ch) {id : Id} {s : Session}
    (hg : AMap.get c.st.sessions id = some s) : ∃ inv, AMap.get c'.st.sessions id = some { s with invitedTo := inv } :=
  hd.sess.get id s hg

end dropspec

/-! ### `leaveChannel` -/

theorem leaveChannel_eq {c : Ctx} {lc lcn : String} {tid : Id} {ch : Channel}
    (hch : AMap.get c.st.channels lc = some ch) :
    leaveChannel c lc lcn tid =
      modS (dropMember c lc lcn ch) tid fun t => { t with channels := t.channels.filter (· ≠ lc) } := by
  unfold leaveChannel
  simp only [getChan_eq, hch]
  rfl

theorem leaveChannel_none {c : Ctx} {lc lcn : String} {tid : Id}
    (hch : AMap.get c.st.channels lc = none) :
    leaveChannel c lc lcn tid = Res.panic "channel is nil" := by
  unfold leaveChannel
  simp only [getChan_eq, hch]

/-- last step of `leaveChannel`: the session indexed under `lcn` drops `lc` from its list, after
`lcn` has been removed from the member set of `lc` -/
theorem WInv_leaveFinish {st st' : St} {lc lcn : String} {tid : Id} {t : Session}
    (h : WInvCore st) (hm : ∀ x, x ≠ lcn → MemberOK st x) (hsk : MemberOKSkip st lcn lc)
    (hidx : AMap.get st.nicks lcn = some tid) (ht : AMap.get st.sessions tid = some t)
    (hgone : ∀ c, AMap.get st.channels lc = some c → lcn ∉ AMap.keys c.nicks)
    (hs : st'.sessions = AMap.set st.sessions tid { t with channels := t.channels.filter (· ≠ lc) })
    (hn : st'.nicks = st.nicks) (hc : st'.channels = st.channels) : WInv st' := by
  have htid := (h.sessId tid t ht).1
  refine ⟨⟨?_, ?_, ?_, ?_, ?_, ?_, ?_⟩, ?_⟩
  · rw [hs]; exact AMap.nodup_keys_set _ _ h.sessNodup
  · rw [hn]; exact h.nickNodup
  · rw [hc]; exact h.chanNodup
  · intro id s hg
    rw [hs, AMap.get_set] at hg
    split at hg
    · rename_i hid; subst hid; cases hg
      exact ⟨htid, nodup_filter_ne lc (h.sessId id t ht).2⟩
    · exact h.sessId id s hg
  · intro id s hg hl hnn
    rw [hs, AMap.get_set] at hg
    rw [hn]
    split at hg
    · rename_i hid; subst hid; cases hg
      exact h.owns id t ht hl hnn
    · exact h.owns id s hg hl hnn
  · intro x id hi
    rw [hn] at hi
    obtain ⟨s0, hg0, hl0, hlow0⟩ := h.index x id hi
    by_cases hid : id = tid
    · subst hid
      rw [ht] at hg0; cases hg0
      exact ⟨{ t with channels := t.channels.filter (· ≠ lc) }, by rw [hs]; exact AMap.get_set_same _ _ _, hl0, hlow0⟩
    · exact ⟨s0, by rw [hs, AMap.get_set_other _ hid]; exact hg0, hl0, hlow0⟩
  · intro lc2 c hg
    rw [hc] at hg
    obtain ⟨a, b, d⟩ := h.chans lc2 c hg
    refine ⟨a, b, fun n hn' => ?_⟩
    obtain ⟨id, s, h1, h2, h3⟩ := d n hn'
    by_cases hid : id = tid
    · subst hid
      rw [ht] at h2; cases h2
      have hne : lc2 ≠ lc := by
        intro he; subst he
        have : n = lcn := h.index_inj h1 hidx
        subst this
        exact hgone c hg hn'
      exact ⟨id, _, by rw [hn]; exact h1, by rw [hs]; exact AMap.get_set_same _ _ _, mem_filter_ne.2 ⟨hne, h3⟩⟩
    · exact ⟨id, s, by rw [hn]; exact h1, by rw [hs, AMap.get_set_other _ hid]; exact h2, h3⟩
  · intro x id s hi hg ch2 hch2
    rw [hn] at hi
    rw [hs, AMap.get_set] at hg
    rw [hc]
    by_cases hx : x = lcn
    · subst hx
      rw [hidx] at hi; cases hi
      simp only [if_true] at hg; cases hg
      obtain ⟨hne, hmem⟩ := mem_filter_ne.1 hch2
      exact hsk tid t hidx ht ch2 hmem hne
    · have hid : id ≠ tid := by
        intro he; subst he
        exact hx (h.index_inj hi hidx)
      simp only [hid, if_false] at hg
      exact hm x hx id s hi hg ch2 hch2

structure LeaveSpec (c c' : Ctx) (lc lcn : String) (tid : Id) : Prop where
  winv : WInv c'.st
  nonempty : ChansNonempty c.st → ChansNonempty c'.st
  frame : CtxFrame c c'
  nicks : c'.st.nicks = c.st.nicks
  keys : AMap.keys c'.st.sessions = AMap.keys c.st.sessions
  self : ∀ t, AMap.get c.st.sessions tid = some t →
    ∃ inv, AMap.get c'.st.sessions tid = some { t with invitedTo := inv, channels := t.channels.filter (· ≠ lc) }
  others : ∀ id s, id ≠ tid → AMap.get c.st.sessions id = some s →
    ∃ inv, AMap.get c'.st.sessions id = some { s with invitedTo := inv }
  chanOther : ∀ lc', lc' ≠ lc → AMap.get c'.st.channels lc' = AMap.get c.st.channels lc'

/-- `leaveChannel` removing `lcn` — whose indexed owner is `tid` — from `lc` -/
theorem leaveChannel_spec {c c' : Ctx} {lc lcn : String} {tid : Id} (h : WInv c.st)
    (hidx : AMap.get c.st.nicks lcn = some tid) (hr : leaveChannel c lc lcn tid = Res.ok c') :
    LeaveSpec c c' lc lcn tid := by
  cases hch : AMap.get c.st.channels lc with
  | none => rw [leaveChannel_none hch] at hr; cases hr
  | some ch =>
    rw [leaveChannel_eq hch] at hr
    have hd := dropMember_spec (lcn := lcn) h.toWInvCore hch
    obtain ⟨t1, ht1, rfl⟩ := modS_eq_ok.1 hr
    have hcore1 := hd.core h.toWInvCore hch
    have hid1 : t1.id = tid := (hcore1.sessId tid t1 ht1).1
    have hsess : (putS (dropMember c lc lcn ch) { t1 with channels := t1.channels.filter (· ≠ lc) }).st.sessions
        = AMap.set (dropMember c lc lcn ch).st.sessions tid { t1 with channels := t1.channels.filter (· ≠ lc) } := by
      rw [putS_sessions]; simp only [hid1]
    refine ⟨?_, ?_, hd.frame.trans (CtxFrame.putS _ _), hd.nicks, ?_, ?_, ?_, ?_⟩
    · refine WInv_leaveFinish hcore1 (fun x hx => hd.member h.toWInvCore hch hx (h.member x))
        (hd.skip ((h.member lcn).skip lc)) (by rw [hd.nicks]; exact hidx) ht1
        (fun c2 hc2 => hd.gone hc2) hsess rfl rfl
    · intro hne
      exact (hd.chansNonempty (hne.but lc)).congr rfl
    · rw [hsess, AMap.keys_set_of_mem _ (AMap.mem_keys_of_get ht1)]; exact hd.sess.keys
    · intro t ht
      obtain ⟨inv, hinv⟩ := hd.sess.get tid t ht
      rw [ht1] at hinv; cases hinv
      exact ⟨inv, by rw [hsess]; exact AMap.get_set_same _ _ _⟩
    · intro id s hid hg
      obtain ⟨inv, hinv⟩ := hd.sess.get id s hg
      exact ⟨inv, by rw [hsess, AMap.get_set_other _ hid]; exact hinv⟩
    · intro lc' hne
      exact hd.shrink.other lc' hne

theorem leaveChannel_WInv {c c' : Ctx} {lc lcn : String} {tid : Id} (h : WInv c.st)
    (hidx : AMap.get c.st.nicks lcn = some tid) (hr : leaveChannel c lc lcn tid = Res.ok c') : WInv c'.st :=
  (leaveChannel_spec h hidx hr).winv

theorem leaveChannel_HInv {c c' : Ctx} {lc lcn : String} {tid : Id} (h : HInv c.st)
    (hidx : AMap.get c.st.nicks lcn = some tid) (hr : leaveChannel c lc lcn tid = Res.ok c') : HInv c'.st :=
  ⟨(leaveChannel_spec h.toWInv hidx hr).winv, (leaveChannel_spec h.toWInv hidx hr).nonempty h.nonempty⟩

/-- `leaveChannel` cannot panic when the channel exists and the session is stored -/
theorem leaveChannel_ok {c : Ctx} {lc lcn : String} {tid : Id} {ch : Channel} {t : Session} (h : WInvCore c.st)
    (hch : AMap.get c.st.channels lc = some ch) (ht : AMap.get c.st.sessions tid = some t) :
    ∃ c', leaveChannel c lc lcn tid = Res.ok c' := by
  rw [leaveChannel_eq hch]
  obtain ⟨inv, hinv⟩ := (dropMember_spec (lcn := lcn) h hch).sess.get tid t ht
  exact ⟨_, modS_of_get _ hinv⟩

end Robust.Irc
