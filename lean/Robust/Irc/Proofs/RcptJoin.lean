import Robust.Irc.Proofs.RcptTopicMode
/-!
C12, part 2b: JOIN — who receives what, and what the command does to the membership relation `Lists`.
-/
namespace Robust.Irc
open Robust AMap

/-- the lines `joinOne` / `cmdJoin` can produce; `chans` = the channel names given -/
inductive JoinLine (st : St) (sid : Id) (s : Session) (chans : List String) (o : Out) : Prop
  /-- numeric replies (403, 473, 474, 475; 324, 331/332/333, 353, 366 of the implied MODE/TOPIC/NAMES): to the
  joining session only -/
  | reply (h : ToOnly sid o)
  /-- the `SJOIN` for the services links only -/
  | svc (h : o.rcpt = st.serverSessions)
  /-- the JOIN, under the joiner's prefix: to exactly the joiner and the sessions that list the channel -/
  | join (chn : String) (hmem : chn ∈ chans) (hv : isValidChannel chn = true)
      (hd : o.data = (IrcMsg.mk (some s.ircPrefix) "JOIN" [chn]).render)
      (hr : RcptIs o (fun id => id = sid ∨ Lists st (chanToLower chn) id) [])
  /-- the server's `MODE #chan +nt` for a channel that did not exist: same recipients (i.e. the joiner) -/
  | mode (chn : String) (hmem : chn ∈ chans)
      (hr : RcptIs o (fun id => id = sid ∨ Lists st (chanToLower chn) id) [])

/-! ### helpers -/

/-- re-basing a `JoinLine`: the same services links, the same prefix, the same memberships of the *other*
sessions, more channel names -/
theorem JoinLine.rebase {st st' : St} {sid : Id} {s s' : Session} {chans chans' : List String} {o : Out}
    (h : JoinLine st sid s chans o) (hsv : st'.serverSessions = st.serverSessions)
    (hpfx : s'.ircPrefix = s.ircPrefix)
    (hL : ∀ lc id, id ≠ sid → (Lists st lc id ↔ Lists st' lc id))
    (hsub : ∀ x, x ∈ chans → x ∈ chans') : JoinLine st' sid s' chans' o := by
  have key : ∀ lc id, (id = sid ∨ Lists st lc id) ↔ (id = sid ∨ Lists st' lc id) := by
    intro lc id
    by_cases he : id = sid
    · exact ⟨fun _ => Or.inl he, fun _ => Or.inl he⟩
    · constructor
      · rintro (h | h)
        · exact Or.inl h
        · exact Or.inr ((hL lc id he).1 h)
      · rintro (h | h)
        · exact Or.inl h
        · exact Or.inr ((hL lc id he).2 h)
  cases h with
  | reply h => exact .reply h
  | svc h => exact .svc (h.trans hsv.symm)
  | join chn hmem hv hd hr => exact .join chn (hsub _ hmem) hv (by rw [hpfx]; exact hd) (hr.congr (key _))
  | mode chn hmem hr => exact .mode chn (hsub _ hmem) (hr.congr (key _))

theorem modS_serverSessions {c c' : Ctx} {sid : Id} {f : Session → Session} (hr : modS c sid f = .ok c') :
    c'.st.serverSessions = c.st.serverSessions := by
  obtain ⟨s, _, rfl⟩ := modS_eq_ok.1 hr
  rfl

/-- the admission phase only replies to the joiner (or stores the new, empty channel) -/
theorem joinAdmit_out {c c1 : Ctx} {sid : Id} {s : Session} {chn key : String} {mm : Option (Option IrcMsg)}
    (hr : joinAdmit c sid s chn key = .ok (c1, mm)) :
    NewOut (ToOnly sid) c c1 ∧ c1.st.serverSessions = c.st.serverSessions := by
  unfold joinAdmit at hr
  dsimp only at hr
  obtain ⟨r, h1, hr⟩ := Res.bind_eq_ok.1 hr
  have hr1 : NewOut (ToOnly sid) c r.1 ∧ r.1.st.serverSessions = c.st.serverSessions := by
    simp only [getChan_eq] at h1
    split at h1
    · split at h1
      · cases h1; exact ⟨(NewOut.refl _ c).sendUser fun _ _ => rfl, rfl⟩
      · cases h1; exact ⟨NewOut.of_out rfl, rfl⟩
    · split at h1
      · cases h1; exact ⟨(NewOut.refl _ c).sendUser fun _ _ => rfl, rfl⟩
      · split at h1
        · cases h1
        · obtain ⟨isB, _, h1⟩ := Res.bind_eq_ok.1 h1
          split at h1
          · cases h1; exact ⟨(NewOut.refl _ c).sendUser fun _ _ => rfl, rfl⟩
          · split at h1
            · cases h1; exact ⟨(NewOut.refl _ c).sendUser fun _ _ => rfl, rfl⟩
            · cases h1; exact ⟨NewOut.refl _ c, rfl⟩
  split at hr <;> (cases hr; exact hr1)

/-- the optional "invites are only valid once" update: no output, same services links, same channel lists, same
prefix -/
theorem joinInvite_out {c c2 : Ctx} {sid : Id} {s : Session} {lc : String} {b : Bool} (hj : JPre c sid lc)
    (hs : AMap.get c.st.sessions sid = some s)
    (h2 : (if b = true then modS c sid fun s => { s with invitedTo := s.invitedTo.filter (· ≠ lc) } else pure c)
      = .ok c2) :
    c2.out = c.out ∧ c2.st.serverSessions = c.st.serverSessions ∧ SameLists c.st c2.st ∧
    ∃ s2, AMap.get c2.st.sessions sid = some s2 ∧ s2.ircPrefix = s.ircPrefix := by
  cases b with
  | false =>
    cases h2
    exact ⟨rfl, rfl, SameLists.refl _, s, hs, rfl⟩
  | true =>
    simp only [↓reduceIte] at h2
    have hid : s.id = sid := (hj.winv.sessId sid s hs).1
    have hg := modS_get_self (f := fun s => { s with invitedTo := s.invitedTo.filter (· ≠ lc) }) hs hid h2
    refine ⟨?_, modS_serverSessions h2, ?_, _, hg, rfl⟩
    · obtain ⟨t, _, rfl⟩ := modS_eq_ok.1 h2; rfl
    · exact SameLists.modS (f := fun s => { s with invitedTo := s.invitedTo.filter (· ≠ lc) })
        (fun t ht => (hj.winv.sessId sid t ht).1) (fun _ => rfl) h2

/-- the announcements: JOIN (+ MODE) to the members (= the joiner and the former members), SJOIN to the services
links, the implied MODE/TOPIC/NAMES answers to the joiner -/
theorem joinAnnounce_out {c c' : Ctx} {sid : Id} {s3 : Session} {chn : String} {ch : Channel} {ex : Bool}
    {mm : Option IrcMsg} {st0 : St} {s0 : Session}
    (hp : Pre c sid) (hn : NI c.st) (hs : AMap.get c.st.sessions sid = some s3)
    (hon : chanToLower chn ∈ s3.channels)
    (hch : AMap.get c.st.channels (chanToLower chn) = some ch)
    (hv : isValidChannel chn = true)
    (hpfx : s3.ircPrefix = s0.ircPrefix) (hsv : c.st.serverSessions = st0.serverSessions)
    (hL : ∀ id, Lists c.st (chanToLower chn) id ↔ (id = sid ∨ Lists st0 (chanToLower chn) id))
    (hr : joinAnnounce c sid chn ch ex mm = .ok c') :
    c'.st = c.st ∧ NewOut (JoinLine st0 sid s0 [chn]) c c' := by
  unfold joinAnnounce at hr
  obtain ⟨s1, hs1, hr⟩ := Res.bind_eq_ok.1 hr
  rw [getS_eq_ok, hs] at hs1
  cases hs1
  obtain ⟨rc, hrc, hr⟩ := Res.bind_eq_ok.1 hr
  dsimp only at hr
  obtain ⟨c1, h1, hr⟩ := Res.bind_eq_ok.1 hr
  obtain ⟨c2, h2, hr⟩ := Res.bind_eq_ok.1 hr
  obtain ⟨c3, h3, hr⟩ := Res.bind_eq_ok.1 hr
  have hrcI : ∀ (i k : Nat) (d : Bytes) (rc' : List Nat), rcChannel c.st ch = .ok rc' →
      RcptIs ⟨i, k, d, rc'⟩ (fun id => id = sid ∨ Lists st0 (chanToLower chn) id) [] :=
    fun i k d rc' h => (RcptIs.of_list (rcChannel_lists hp.inv hn hch h)).congr hL
  have hmem : chn ∈ [chn] := List.mem_singleton.2 rfl
  have n0 : NewOut (JoinLine st0 sid s0 [chn]) c (emit c ⟨some s3.ircPrefix, "JOIN", [chn]⟩ rc) :=
    (NewOut.refl _ c).emit fun _ _ => .join chn hmem hv (by rw [hpfx]) (hrcI _ _ _ _ hrc)
  have n1 : c1.st = c.st ∧ NewOut (JoinLine st0 sid s0 [chn]) c c1 := by
    cases mm with
    | none => cases h1; exact ⟨rfl, n0⟩
    | some m =>
      obtain ⟨rc2, hrc2, h1⟩ := Res.bind_eq_ok.1 h1
      cases h1
      exact ⟨rfl, n0.emit fun _ _ => .mode chn hmem (hrcI _ _ _ _ hrc2)⟩
  obtain ⟨e1, n1⟩ := n1
  have e1' : (emit c1 (srv c1 "SJOIN" ["1", chn, (if (!ex) = true then "@" else "") ++ s3.nick])
      (rcServices c1.st)).st = c.st := e1
  have hs1' : AMap.get (emit c1 (srv c1 "SJOIN" ["1", chn, (if (!ex) = true then "@" else "") ++ s3.nick])
      (rcServices c1.st)).st.sessions sid = some s3 := by rw [e1']; exact hs
  have n1' : NewOut (JoinLine st0 sid s0 [chn]) c
      (emit c1 (srv c1 "SJOIN" ["1", chn, (if (!ex) = true then "@" else "") ++ s3.nick]) (rcServices c1.st)) :=
    n1.emit fun _ _ => .svc (by show c1.st.serverSessions = _; rw [e1, hsv])
  generalize emit c1 (srv c1 "SJOIN" ["1", chn, (if (!ex) = true then "@" else "") ++ s3.nick])
      (rcServices c1.st) = c1' at h2 e1' hs1' n1'
  obtain ⟨e2, n2⟩ := cmdMode_query_out hs1' hon h2
  obtain ⟨e3, n3⟩ := cmdTopic_query_out h3
  obtain ⟨e4, n4⟩ := cmdNames_out hr
  refine ⟨by rw [e4, e3, e2, e1'], ?_⟩
  exact ((n1'.trans (n2.mono fun _ h => .reply h)).trans (n3.mono fun _ h => .reply h)).trans
    (n4.mono fun _ h => .reply h)

/-- `joinOne` after the admission phase -/
theorem joinTail_out {c c' : Ctx} {sid : Id} {s : Session} {chn : String} {ex : Bool} {mm : Option IrcMsg}
    (hj : JPre c sid (chanToLower chn)) (hs : AMap.get c.st.sessions sid = some s) (hl : s.loggedIn = true)
    (hn : NI c.st) (hv : isValidChannel chn = true) (hr : joinTail c sid s chn ex mm = .ok c') :
    NewOut (JoinLine c.st sid s [chn]) c c' ∧ c'.st.serverSessions = c.st.serverSessions ∧
    (∃ s', AMap.get c'.st.sessions sid = some s' ∧ s'.ircPrefix = s.ircPrefix) ∧
    (SameLists c.st c'.st ∨
      ∀ lc id, Lists c'.st lc id ↔ Lists c.st lc id ∨ (id = sid ∧ lc = chanToLower chn)) := by
  unfold joinTail at hr
  dsimp only at hr
  simp only [getChan_eq] at hr
  split at hr
  · rename_i ch hch
    obtain ⟨c2, h2, hr⟩ := Res.bind_eq_ok.1 hr
    obtain ⟨hj2, _, hch2, s2, hs2, hl2, _, hn2⟩ := joinInvite_spec hj hs h2
    obtain ⟨ho2, hsv2, hsl2, s2', hs2', hpfx2⟩ := joinInvite_out hj hs h2
    rw [hs2] at hs2'
    cases hs2'
    have n2 : NI c2.st := by
      split at h2
      · exact hn.modS_keep h2 (fun _ => ⟨rfl, rfl⟩)
      · cases h2; exact hn
    rw [← hch2] at hch
    split at hr
    · cases hr
      exact ⟨NewOut.of_out ho2, hsv2, ⟨s2, hs2, hpfx2⟩, Or.inl hsl2⟩
    · obtain ⟨c3, h3, hr⟩ := Res.bind_eq_ok.1 hr
      have hnick : s2.nick ≠ "" := by rw [hn2]; exact hj.linv sid s hs hl
      have n3 : NI c3.st := NI.modS_named (c := putChan c2 _ _)
        (n2.putChan_same _ (ch := { ch with nicks := AMap.set ch.nicks (nickToLower s.nick) { chanop := !ex } }) hch rfl)
        h3 hs2 hnick (fun _ => rfl)
      have hid2 : s2.id = sid := (hj2.winv.sessId sid s2 hs2).1
      have hg3 := modS_get_self (c := putChan c2 (chanToLower chn)
          { ch with nicks := AMap.set ch.nicks (nickToLower s.nick) { chanop := !ex } })
        (f := fun t => { t with channels := setInsert t.channels (chanToLower chn) }) hs2 hid2 h3
      have hL3 : ∀ lc id, Lists c3.st lc id ↔ Lists c.st lc id ∨ (id = sid ∧ lc = chanToLower chn) := by
        intro lc id
        rw [lists_addMember (c := putChan c2 (chanToLower chn)
          { ch with nicks := AMap.set ch.nicks (nickToLower s.nick) { chanop := !ex } }) hs2 hid2 h3]
        have e : Lists (putChan c2 (chanToLower chn)
          { ch with nicks := AMap.set ch.nicks (nickToLower s.nick) { chanop := !ex } }).st lc id ↔
            Lists c.st lc id := hsl2.lists
        rw [e]
      have hsv3 : c3.st.serverSessions = c.st.serverSessions := (modS_serverSessions h3).trans hsv2
      have no3 : NewOut (JoinLine c.st sid s [chn]) c c3 :=
        ((NewOut.of_out ho2 : NewOut _ c c2).step (c' := putChan c2 (chanToLower chn)
          { ch with nicks := AMap.set ch.nicks (nickToLower s.nick) { chanop := !ex } }) rfl).modS h3
      rw [← hn2] at h3
      obtain ⟨hp3, _, _, hch3⟩ := joinAdd_spec hj2 hs2 (by rw [hl2]; exact hl) hch h3
      rw [hn2] at hch3
      obtain ⟨e4, no4⟩ := joinAnnounce_out (st0 := c.st) (s0 := s) hp3 n3 hg3
        (Robust.Irc.mem_setInsert.2 (Or.inl rfl)) hch3 hv hpfx2 hsv3
        (fun id => by
          rw [hL3]
          constructor
          · rintro (h | ⟨h, _⟩)
            · exact Or.inr h
            · exact Or.inl h
          · rintro (h | h)
            · exact Or.inr ⟨h, rfl⟩
            · exact Or.inl h) hr
      refine ⟨no3.trans no4, by rw [e4]; exact hsv3, ⟨_, by rw [e4]; exact hg3, by exact hpfx2⟩, Or.inr ?_⟩
      intro lc id
      rw [e4]
      exact hL3 lc id
  · cases hr

/-- everything the loop needs from one `joinOne` -/
theorem joinOne_step {c c' : Ctx} {sid : Id} {chn key : String} {s : Session} (hp : Pre c sid) (hn : NI c.st)
    (hs : AMap.get c.st.sessions sid = some s) (hl : s.loggedIn = true)
    (hr : joinOne c sid chn key = .ok c') :
    NewOut (JoinLine c.st sid s [chn]) c c' ∧ c'.st.serverSessions = c.st.serverSessions ∧
    (∃ s', AMap.get c'.st.sessions sid = some s' ∧ s'.ircPrefix = s.ircPrefix) ∧
    (SameLists c.st c'.st ∨
      ∀ lc id, Lists c'.st lc id ↔ Lists c.st lc id ∨ (id = sid ∧ lc = chanToLower chn)) := by
  rw [joinOne_eq] at hr
  obtain ⟨s0, hs0, hr⟩ := Res.bind_eq_ok.1 hr
  rw [getS_eq_ok, hs] at hs0
  cases hs0
  split at hr
  · cases hr
    exact ⟨(NewOut.refl _ c).sendUser fun _ _ => .reply rfl, rfl, ⟨s, hs, rfl⟩, Or.inl (SameLists.refl _)⟩
  · rename_i hvc
    have hv : isValidChannel chn = true := by simpa using hvc
    obtain ⟨r, hadm, hr⟩ := Res.bind_eq_ok.1 hr
    obtain ⟨c1, mm⟩ := r
    have n1 := joinAdmit_ni hn hv hadm
    obtain ⟨no1, hsv1⟩ := joinAdmit_out hadm
    obtain ⟨_, hsess, hcase⟩ := joinAdmit_spec hp hadm
    have hs1 : AMap.get c1.st.sessions sid = some s := by rw [hsess]; exact hs
    have hsl1 : SameLists c.st c1.st := SameLists.of_eq hsess
    have no1' : NewOut (JoinLine c.st sid s [chn]) c c1 := no1.mono fun _ h => .reply h
    rcases hcase with ⟨rfl, e⟩ | ⟨m, rfl, hj, _⟩
    · cases hr
      exact ⟨no1', hsv1, ⟨s, hs1, rfl⟩, Or.inl hsl1⟩
    · dsimp only at hr
      obtain ⟨no2, hsv2, hk, hcase2⟩ := joinTail_out hj hs1 hl n1 hv hr
      refine ⟨no1'.trans (no2.mono fun o h => h.rebase hsv1.symm rfl (fun lc id _ => hsl1.lists) fun _ h => h),
        hsv2.trans hsv1, hk, ?_⟩
      rcases hcase2 with h | h
      · exact Or.inl (hsl1.trans h)
      · refine Or.inr fun lc id => ?_
        rw [h lc id, hsl1.lists]

/-- one channel; recipients relative to the state in which `joinOne` starts -/
theorem joinOne_out {c c' : Ctx} {sid : Id} {chn key : String} {s : Session} (hp : Pre c sid) (hn : NI c.st)
    (hs : AMap.get c.st.sessions sid = some s) (hl : s.loggedIn = true)
    (hr : joinOne c sid chn key = .ok c') :
    NewOut (JoinLine c.st sid s [chn]) c c' := (joinOne_step hp hn hs hl hr).1

/-- the membership after `joinOne`: other sessions' memberships are untouched, the joiner's only grow by this
channel -/
theorem joinOne_lists {c c' : Ctx} {sid : Id} {chn key : String} {s : Session} (hp : Pre c sid) (hn : NI c.st)
    (hs : AMap.get c.st.sessions sid = some s) (hl : s.loggedIn = true)
    (hr : joinOne c sid chn key = .ok c') :
    SameLists c.st c'.st ∨
      ∀ lc id, Lists c'.st lc id ↔ Lists c.st lc id ∨ (id = sid ∧ lc = chanToLower chn) :=
  (joinOne_step hp hn hs hl hr).2.2.2

/-- the loop; `st0`, `s0` = the state and the joiner's session value when the command started -/
theorem joinLoop_out {keys chans all : List String} {idx : Nat} {st0 : St} {s0 : Session} {c c' : Ctx} {sid : Id}
    {s : Session} (hp : Pre c sid) (hn : NI c.st) (hs : AMap.get c.st.sessions sid = some s)
    (hl : s.loggedIn = true) (hpfx : s.ircPrefix = s0.ircPrefix)
    (hsv : c.st.serverSessions = st0.serverSessions)
    (hL : ∀ lc id, id ≠ sid → (Lists c.st lc id ↔ Lists st0 lc id))
    (hsub : ∀ x, x ∈ chans → x ∈ all)
    (hr : joinLoop c sid keys chans idx = .ok c') : NewOut (JoinLine st0 sid s0 all) c c' := by
  induction chans generalizing c idx s with
  | nil => cases hr; exact NewOut.refl _ _
  | cons ch rest ih =>
    unfold joinLoop at hr
    obtain ⟨c1, h1, hr⟩ := Res.bind_eq_ok.1 hr
    obtain ⟨hp1, _, s1, hs1, hl1, _⟩ := joinOne_pre subOK_mode subOK_topic subOK_names hp hs hl h1
    have n1 := joinOne_ni hp hs hl hn h1
    obtain ⟨no1, hsv1, ⟨s1', hs1', hpfx1⟩, hcase⟩ := joinOne_step hp hn hs hl h1
    rw [hs1] at hs1'
    cases hs1'
    have hL1 : ∀ lc id, id ≠ sid → (Lists c1.st lc id ↔ Lists st0 lc id) := by
      intro lc id hne
      rw [← hL lc id hne]
      rcases hcase with h | h
      · exact h.lists
      · rw [h lc id]
        constructor
        · rintro (h | ⟨h, _⟩)
          · exact h
          · exact absurd h hne
        · exact Or.inl
    have no1' : NewOut (JoinLine st0 sid s0 all) c c1 :=
      no1.mono fun o h => h.rebase hsv.symm hpfx.symm hL fun x hx => by
        rw [List.mem_singleton] at hx
        subst hx
        exact hsub _ (List.mem_cons_self ..)
    exact no1'.trans (ih hp1 n1 hs1 hl1 (hpfx1.trans hpfx) (hsv1.trans hsv) hL1
      (fun x hx => hsub x (List.mem_cons_of_mem _ hx)) hr)

/-- the whole command (several channels): recipients relative to the state in which the command starts -/
theorem cmdJoin_out {c c' : Ctx} {sid : Id} {m : IrcMsg} {s : Session} {p0 : String} (hp : Pre c sid) (hn : NI c.st)
    (hs : AMap.get c.st.sessions sid = some s) (hl : s.loggedIn = true) (hp0 : m.params[0]? = some p0)
    (hr : cmdJoin c sid m = .ok c') :
    NewOut (JoinLine c.st sid s (splitChar p0 ',')) c c' := by
  unfold cmdJoin at hr
  obtain ⟨p, hp', hr⟩ := Res.bind_eq_ok.1 hr
  have := param_eq_ok hp'
  rw [hp0] at this
  cases this
  exact joinLoop_out hp hn hs hl rfl rfl (fun _ _ _ => Iff.rfl) (fun _ h => h) hr

end Robust.Irc
