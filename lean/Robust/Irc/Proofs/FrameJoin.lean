import Robust.Irc.Proofs.FrameLeave
/-!
Creating a channel and adding a member: the state-changing core of `joinOne`,
`serverJoinOne` and `cmdServerSvsjoin`.
-/
namespace Robust.Irc
open Robust AMap

/-! ### a new, still empty channel (`joinOne` stores it before the first member is added) -/

theorem WInv_newChan {st st' : St} {lc : String} {ch : Channel} (h : WInv st)
    (hnone : AMap.get st.channels lc = none) (hname : chanToLower ch.name = lc) (hnil : ch.nicks = [])
    (hs : st'.sessions = st.sessions) (hn : st'.nicks = st.nicks)
    (hc : st'.channels = AMap.set st.channels lc ch) : WInv st' := by
  refine ⟨⟨by rw [hs]; exact h.sessNodup, by rw [hn]; exact h.nickNodup,
    by rw [hc]; exact AMap.nodup_keys_set _ _ h.chanNodup,
    by rw [hs]; exact h.sessId, by rw [hs, hn]; exact h.owns, by rw [hs, hn]; exact h.index, ?_⟩, ?_⟩
  · intro lc' c hg
    rw [hc, AMap.get_set] at hg
    rw [hs, hn]
    split at hg
    · rename_i he; subst he; cases hg
      exact ⟨hname, by rw [hnil]; exact List.nodup_nil, fun n hn' => by rw [hnil] at hn'; simp at hn'⟩
    · exact h.chans lc' c hg
  · intro x id s hi hg ch2 hch2
    rw [hn] at hi; rw [hs] at hg
    obtain ⟨c, hc0, hcont⟩ := h.member x id s hi hg ch2 hch2
    have hne : ch2 ≠ lc := by
      intro he; subst he; rw [hnone] at hc0; cases hc0
    exact ⟨c, by rw [hc, AMap.get_set_other _ hne]; exact hc0, hcont⟩

theorem WInv_putChan_new {c : Ctx} {lc : String} {ch : Channel} (h : WInv c.st)
    (hnone : AMap.get c.st.channels lc = none) (hname : chanToLower ch.name = lc) (hnil : ch.nicks = []) :
    WInv (putChan c lc ch).st :=
  WInv_newChan h hnone hname hnil rfl rfl rfl

theorem ChansNonemptyBut_putChan {c : Ctx} (lc : String) (ch : Channel) (h : ChansNonemptyBut c.st lc) :
    ChansNonemptyBut (putChan c lc ch).st lc := by
  intro lc' c2 hne hg
  rw [putChan_channels, AMap.get_set_other _ hne] at hg
  exact h lc' c2 hne hg

/-! ### adding a member -/

/-- The session `tid` indexed under `lcn` joins `lc`.  `ch` is the channel value the member is
added to: the stored one, or a fresh empty one when none is stored (`serverJoinOne`,
`cmdServerSvsjoin` use `getD { name := … }`).  `ch'` / `t'` are the new channel / session values. -/
theorem WInv_addMember {st st' : St} {lc lcn : String} {tid : Id} {t t' : Session} {ch ch' : Channel} {mem : Member}
    (h : WInv st) (hidx : AMap.get st.nicks lcn = some tid) (ht : AMap.get st.sessions tid = some t)
    (hch : AMap.get st.channels lc = some ch ∨
           (AMap.get st.channels lc = none ∧ ch.nicks = [] ∧ chanToLower ch.name = lc))
    (hname : ch'.name = ch.name) (hkeys : AMap.keys ch'.nicks = AMap.keys (AMap.set ch.nicks lcn mem))
    (hid : t'.id = t.id) (hdel : t'.deleted = t.deleted) (hnick : t'.nick = t.nick)
    (hchs : t'.channels = setInsert t.channels lc)
    (hs : st'.sessions = AMap.set st.sessions tid t') (hn : st'.nicks = st.nicks)
    (hc : st'.channels = AMap.set st.channels lc ch') : WInv st' := by
  have htid := h.sessId tid t ht
  -- what we know about `ch`
  have hkey : chanToLower ch.name = lc := by
    rcases hch with h1 | ⟨_, _, h3⟩
    · exact (h.chans lc ch h1).1
    · exact h3
  have hnd : (AMap.keys ch.nicks).Nodup := by
    rcases hch with h1 | ⟨_, h2, _⟩
    · exact (h.chans lc ch h1).2.1
    · rw [h2]; exact List.nodup_nil
  have hmemb : ∀ n, n ∈ AMap.keys ch.nicks →
      ∃ id s, AMap.get st.nicks n = some id ∧ AMap.get st.sessions id = some s ∧ lc ∈ s.channels := by
    rcases hch with h1 | ⟨_, h2, _⟩
    · exact (h.chans lc ch h1).2.2
    · intro n hn'; rw [h2] at hn'; simp at hn'
  have hold : ∀ c, AMap.get st.channels lc = some c → c = ch := by
    intro c hg
    rcases hch with h1 | ⟨h1, _, _⟩
    · rw [h1] at hg; cases hg; rfl
    · rw [h1] at hg; cases hg
  have hgetlc : AMap.get st'.channels lc = some ch' := by rw [hc]; exact AMap.get_set_same _ _ _
  have hlcn' : AMap.contains ch'.nicks lcn = true := by
    rw [AMap.contains_iff_mem_keys, hkeys]; exact AMap.mem_keys_set.2 (Or.inl rfl)
  have hgett : AMap.get st'.sessions tid = some t' := by rw [hs]; exact AMap.get_set_same _ _ _
  refine ⟨⟨?_, ?_, ?_, ?_, ?_, ?_, ?_⟩, ?_⟩
  · rw [hs]; exact AMap.nodup_keys_set _ _ h.sessNodup
  · rw [hn]; exact h.nickNodup
  · rw [hc]; exact AMap.nodup_keys_set _ _ h.chanNodup
  · intro id s hg
    rw [hs, AMap.get_set] at hg
    split at hg
    · rename_i he; subst he; cases hg
      rw [hid, hchs]
      exact ⟨htid.1, nodup_setInsert lc htid.2⟩
    · exact h.sessId id s hg
  · intro id s hg hl hnn
    rw [hs, AMap.get_set] at hg
    rw [hn]
    split at hg
    · rename_i he; subst he; cases hg
      rw [hnick]
      exact h.owns id t ht (by rw [← hdel]; exact hl) (by rw [← hnick]; exact hnn)
    · exact h.owns id s hg hl hnn
  · intro x id hi
    rw [hn] at hi
    obtain ⟨s0, hg0, hl0, hlow0⟩ := h.index x id hi
    by_cases he : id = tid
    · subst he
      rw [ht] at hg0; cases hg0
      exact ⟨t', hgett, by rw [hdel]; exact hl0, by rw [hnick]; exact hlow0⟩
    · exact ⟨s0, by rw [hs, AMap.get_set_other _ he]; exact hg0, hl0, hlow0⟩
  · -- chans
    -- a member entry pointing to session `id` in the old state still does in the new one
    have lift : ∀ (lc2 n : String) (id : Id) (s : Session), AMap.get st.nicks n = some id →
        AMap.get st.sessions id = some s → lc2 ∈ s.channels →
        ∃ id s, AMap.get st'.nicks n = some id ∧ AMap.get st'.sessions id = some s ∧ lc2 ∈ s.channels := by
      intro lc2 n id s h1 h2 h3
      by_cases he : id = tid
      · subst he
        rw [ht] at h2; cases h2
        exact ⟨id, t', by rw [hn]; exact h1, hgett, by rw [hchs]; exact mem_setInsert.2 (Or.inr h3)⟩
      · exact ⟨id, s, by rw [hn]; exact h1, by rw [hs, AMap.get_set_other _ he]; exact h2, h3⟩
    intro lc2 c hg
    rw [hc, AMap.get_set] at hg
    split at hg
    · rename_i he; subst he; cases hg
      refine ⟨by rw [hname]; exact hkey, by rw [hkeys]; exact AMap.nodup_keys_set _ _ hnd, fun n hn' => ?_⟩
      rw [hkeys] at hn'
      rcases AMap.mem_keys_set.1 hn' with h1 | h1
      · subst h1
        exact ⟨tid, t', by rw [hn]; exact hidx, hgett, by rw [hchs]; exact mem_setInsert.2 (Or.inl rfl)⟩
      · obtain ⟨id, s, a1, a2, a3⟩ := hmemb n h1
        exact lift lc2 n id s a1 a2 a3
    · obtain ⟨a, b, d⟩ := h.chans lc2 c hg
      refine ⟨a, b, fun n hn' => ?_⟩
      obtain ⟨id, s, a1, a2, a3⟩ := d n hn'
      exact lift lc2 n id s a1 a2 a3
  · -- member
    intro x id s hi hg ch2 hch2
    rw [hn] at hi
    rw [hs, AMap.get_set] at hg
    by_cases he : id = tid
    · subst he
      simp only [if_true] at hg; cases hg
      have hx : x = lcn := h.index_inj hi hidx
      subst hx
      by_cases h2 : ch2 = lc
      · subst h2; exact ⟨ch', hgetlc, hlcn'⟩
      · rw [hchs] at hch2
        rcases mem_setInsert.1 hch2 with h3 | h3
        · exact absurd h3 h2
        · obtain ⟨c, hc0, hcont⟩ := h.member x id t hi ht ch2 h3
          exact ⟨c, by rw [hc, AMap.get_set_other _ h2]; exact hc0, hcont⟩
    · simp only [he, if_false] at hg
      obtain ⟨c, hc0, hcont⟩ := h.member x id s hi hg ch2 hch2
      by_cases h2 : ch2 = lc
      · subst h2
        have := hold c hc0; subst this
        refine ⟨ch', hgetlc, ?_⟩
        rw [AMap.contains_iff_mem_keys] at hcont ⊢
        rw [hkeys]; exact AMap.mem_keys_set.2 (Or.inr hcont)
      · exact ⟨c, by rw [hc, AMap.get_set_other _ h2]; exact hc0, hcont⟩

theorem ChansNonempty_addMember {st st' : St} {lc lcn : String} {ch ch' : Channel} {mem : Member}
    (h : ChansNonemptyBut st lc) (hkeys : AMap.keys ch'.nicks = AMap.keys (AMap.set ch.nicks lcn mem))
    (hc : st'.channels = AMap.set st.channels lc ch') : ChansNonempty st' := by
  intro lc2 c hg
  rw [hc, AMap.get_set] at hg
  split at hg
  · cases hg
    intro hnil
    have : AMap.keys (AMap.set ch.nicks lcn mem) = [] := by rw [← hkeys, hnil]; rfl
    exact AMap.set_ne_nil _ _ _ (AMap.keys_eq_nil.1 this)
  · rename_i hne
    exact h lc2 c hne hg

/-- the two steps `putChan … (AMap.set ch.nicks lcn mem)` + `modS … (setInsert channels lc)`
as they appear in `joinOne` / `serverJoinOne` / `cmdServerSvsjoin` -/
theorem addMember_WInv {c c' : Ctx} {lc lcn : String} {tid : Id} {ch : Channel} {mem : Member}
    (h : WInv c.st) (hidx : AMap.get c.st.nicks lcn = some tid)
    (hch : AMap.get c.st.channels lc = some ch ∨
           (AMap.get c.st.channels lc = none ∧ ch.nicks = [] ∧ chanToLower ch.name = lc))
    (hr : modS (putChan c lc { ch with nicks := AMap.set ch.nicks lcn mem }) tid
            (fun t => { t with channels := setInsert t.channels lc }) = Res.ok c') : WInv c'.st := by
  obtain ⟨t, ht, rfl⟩ := modS_eq_ok.1 hr
  change AMap.get c.st.sessions tid = some t at ht
  have htid := (h.sessId tid t ht).1
  refine WInv_addMember (ch' := { ch with nicks := AMap.set ch.nicks lcn mem })
    (t' := { t with channels := setInsert t.channels lc }) h hidx ht hch rfl rfl rfl rfl rfl rfl ?_ rfl rfl
  show AMap.set c.st.sessions t.id _ = AMap.set c.st.sessions tid _
  rw [htid]

theorem addMember_HInv {c c' : Ctx} {lc lcn : String} {tid : Id} {ch : Channel} {mem : Member}
    (h : WInv c.st) (hne : ChansNonemptyBut c.st lc) (hidx : AMap.get c.st.nicks lcn = some tid)
    (hch : AMap.get c.st.channels lc = some ch ∨
           (AMap.get c.st.channels lc = none ∧ ch.nicks = [] ∧ chanToLower ch.name = lc))
    (hr : modS (putChan c lc { ch with nicks := AMap.set ch.nicks lcn mem }) tid
            (fun t => { t with channels := setInsert t.channels lc }) = Res.ok c') : HInv c'.st := by
  refine ⟨addMember_WInv h hidx hch hr, ?_⟩
  obtain ⟨t, _, rfl⟩ := modS_eq_ok.1 hr
  exact ChansNonempty_addMember (ch := ch) (ch' := { ch with nicks := AMap.set ch.nicks lcn mem }) (mem := mem)
    hne rfl rfl

/-- the lookups after the join step: the stored channel is the new value, the session lists `lc` -/
theorem addMember_lookups {c c' : Ctx} {lc lcn : String} {tid : Id} {ch : Channel} {mem : Member}
    (hr : modS (putChan c lc { ch with nicks := AMap.set ch.nicks lcn mem }) tid
            (fun t => { t with channels := setInsert t.channels lc }) = Res.ok c') :
    AMap.get c'.st.channels lc = some { ch with nicks := AMap.set ch.nicks lcn mem } ∧
    c'.st.nicks = c.st.nicks ∧
    ∃ t, AMap.get c.st.sessions tid = some t ∧
      c'.st.sessions = AMap.set c.st.sessions t.id { t with channels := setInsert t.channels lc } := by
  obtain ⟨t, ht, rfl⟩ := modS_eq_ok.1 hr
  exact ⟨by simp, rfl, t, ht, rfl⟩

end Robust.Irc
