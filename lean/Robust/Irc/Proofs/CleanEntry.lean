import Robust.Irc.Proofs.CleanSrv
import Robust.Irc.Proofs.Entry
/-!
C15, entry level: every handler of the table keeps `CCtx` on clean messages (`handler_cpres`), hence
so do the three stages of `processMessage`, `processMessage` itself, one committed entry
(`applyEntry_clean`) and every history of clean entries (`run_clean`, `runLines_clean`).

Unlike the structural invariants of `Entry.lean`, `CInv` needs no well-formedness side condition:
the only hypothesis on an entry is that the text it carries is clean (`CleanEntry`).
-/
namespace Robust.Irc
open Robust AMap

/-! ## every handler of the table -/

theorem handler_cpres {fname : String} {h : Handler} (hh : handlerByName fname = some h) : CPres h := by
  unfold handlerByName at hh
  split at hh
  · cases hh; exact fun _ _ _ _ hc hm hr => cmdAway_clean hc hm hr
  · cases hh; exact fun _ _ _ _ hc hm hr => cmdServiceAlias_clean hc hm hr
  · cases hh; exact fun _ _ _ _ hc hm hr => cmdGline_clean hc hm hr
  · cases hh; exact fun _ _ _ _ hc hm hr => cmdInvite_clean hc hm hr
  · cases hh; exact fun _ _ _ _ hc hm hr => cmdIson_clean hc hm hr
  · cases hh; exact fun _ _ _ _ hc hm hr => cmdJoin_clean hc hm hr
  · cases hh; exact fun _ _ _ _ hc hm hr => cmdKick_clean hc hm hr
  · cases hh; exact fun _ _ _ _ hc hm hr => cmdKill_clean hc hm hr
  · cases hh; exact fun _ _ _ _ hc hm hr => cmdKnock_clean hc hm hr
  · cases hh; exact fun _ _ _ _ hc hm hr => cmdList_clean hc hm hr
  · cases hh; exact fun _ _ _ _ hc hm hr => cmdMode_clean hc hm hr
  · cases hh; exact fun _ _ _ _ hc _ hr => cmdMotd_clean hc hr
  · cases hh; exact fun _ _ _ _ hc hm hr => cmdNames_clean hc hm hr
  · cases hh; exact fun _ _ _ _ hc hm hr => cmdNick_clean hc hm hr
  · cases hh; exact fun _ _ _ _ hc hm hr => cmdOper_clean hc hm hr
  · cases hh; exact fun _ _ _ _ hc hm hr => cmdPart_clean hc hm hr
  · cases hh; exact fun _ _ _ _ hc hm hr => cmdPass_clean hc hm hr
  · cases hh; exact fun _ _ _ _ hc hm hr => cmdPing_clean hc hm hr
  · cases hh; exact fun _ _ _ _ hc hm hr => cmdPrivmsg_clean hc hm hr
  · cases hh; exact fun _ _ _ _ hc hm hr => cmdQuit_clean hc hm hr
  · cases hh; exact fun _ _ _ _ hc hm hr => cmdServer_clean hc hm hr
  · cases hh; exact fun _ _ _ _ hc hm hr => cmdTopic_clean hc hm hr
  · cases hh; exact fun _ _ _ _ hc hm hr => cmdUser_clean hc hm hr
  · cases hh; exact fun _ _ _ _ hc hm hr => cmdUserhost_clean hc hm hr
  · cases hh; exact fun _ _ _ _ hc hm hr => cmdWho_clean hc hm hr
  · cases hh; exact fun _ _ _ _ hc hm hr => cmdWhois_clean hc hm hr
  · cases hh; exact fun _ _ _ _ hc hm hr => cmdServerInvite_clean hc hm hr
  · cases hh; exact fun _ _ _ _ hc hm hr => cmdServerJoin_clean hc hm hr
  · cases hh; exact fun _ _ _ _ hc hm hr => cmdServerKick_clean hc hm hr
  · cases hh; exact fun _ _ _ _ hc hm hr => cmdServerKill_clean hc hm hr
  · cases hh; exact fun _ _ _ _ hc hm hr => cmdServerMode_clean hc hm hr
  · cases hh; exact fun _ _ _ _ hc hm hr => cmdServerNick_clean hc hm hr
  · cases hh; exact fun _ _ _ _ hc hm hr => cmdServerPrivmsg_clean hc hm hr
  · cases hh; exact fun _ _ _ _ hc hm hr => cmdServerPart_clean hc hm hr
  · cases hh; exact fun _ _ _ _ hc hm hr => cmdServerQuit_clean hc hm hr
  · cases hh; exact fun _ _ _ _ hc hm hr => cmdServerSvshold_clean hc hm hr
  · cases hh; exact fun _ _ _ _ hc hm hr => cmdServerSvsjoin_clean hc hm hr
  · cases hh; exact fun _ _ _ _ hc hm hr => cmdServerSvsmode_clean hc hm hr
  · cases hh; exact fun _ _ _ _ hc hm hr => cmdServerSvsnick_clean hc hm hr
  · cases hh; exact fun _ _ _ _ hc hm hr => cmdServerSvspart_clean hc hm hr
  · cases hh; exact fun _ _ _ _ hc hm hr => cmdServerTopic_clean hc hm hr
  · cases hh

/-! ## the stages of `processMessage` -/

theorem dispatchStage_clean {c c' : Ctx} {s : Session} {m : IrcMsg} {command : String} (hc : CCtx c)
    (cs : CleanSess s) (hm : CleanMsg m) (hcmd : Clean command)
    (hr : dispatchStage c s m command = .ok c') : CCtx c' := by
  have hI := hc.inv
  unfold dispatchStage at hr
  split at hr
  · cases hr; cctx_tac
  · split at hr
    · cases hr; cctx_tac
    · split at hr
      · cases hr
      · rename_i h hh
        exact handler_cpres hh c s.id m c' hc hm hr

theorem gateStage_clean {c c' : Ctx} {e : Entry} {m : IrcMsg} {command : String} (hc : CCtx c)
    (hm : CleanMsg m) (hcmd : Clean command) (hr : gateStage c e m command = .ok c') : CCtx c' := by
  have hI := hc.inv
  unfold gateStage at hr
  obtain ⟨s, hs, hr⟩ := Res.bind_eq_ok.1 hr
  have cs := hc.getS hs
  split at hr
  · split at hr
    · refine CCtx.deleteSession ?_ hr
      cctx_tac
    · cases hr; cctx_tac
  · exact dispatchStage_clean hc cs hm hcmd hr

/-- the address stage: `remoteAddr` is not a field that reaches a line; the GLINE reason is stored -/
theorem addrStage_clean {c c1 : Ctx} {e : Entry} {s : Session} {b : Bool} (hc : CCtx c)
    (hr : addrStage c e s = .ok (c1, b)) : CCtx c1 := by
  unfold addrStage at hr
  split at hr
  · obtain ⟨c0, hm0, hr⟩ := Res.bind_eq_ok.1 hr
    have n0 : CCtx c0 := hc.modS_keep hm0 (fun _ => ⟨rfl, rfl, rfl, rfl, rfl, rfl, rfl⟩)
    have hI0 := n0.inv
    split at hr
    · rename_i reason hreason
      have hrs : Clean reason := hI0.getBanned hreason
      split at hr
      · obtain ⟨c2, hd, hr⟩ := Res.bind_eq_ok.1 hr
        cases hr
        refine CCtx.deleteSession ?_ hd
        cctx_tac
      · cases hr; exact n0
    · cases hr; exact n0
  · cases hr; exact hc

/-- `ProcessMessage` keeps `CCtx` when the parsed line (if any) is clean -/
theorem processMessage_clean {c c' : Ctx} {e : Entry} {im : Option IrcMsg} (hc : CCtx c)
    (him : ∀ m, im = some m → CleanMsg m) (hr : processMessage c e im = .ok c') : CCtx c' := by
  have hI := hc.inv
  rw [processMessage_eq] at hr
  obtain ⟨s, hs, hr⟩ := Res.bind_eq_ok.1 hr
  have cs := hc.getS hs
  cases im with
  | none => cases hr; cctx_tac
  | some m =>
    have hm := him m rfl
    dsimp only at hr
    obtain ⟨⟨c1, b⟩, h1, hr⟩ := Res.bind_eq_ok.1 hr
    have p1 : CCtx c1 := addrStage_clean hc h1
    cases b with
    | true => cases hr; exact p1
    | false =>
      simp only [Bool.false_eq_true, ↓reduceIte] at hr
      exact gateStage_clean p1 hm hm.upperCommand hr

/-! ## entries -/

theorem CInv.updateLastClientMessageID {st st' : St} {e : Entry} (h : CInv st)
    (hr : updateLastClientMessageID st e = some st') : CInv st' := by
  unfold Robust.Irc.updateLastClientMessageID at hr
  cases hg : AMap.get st.sessions e.session with
  | none => simp [hg] at hr
  | some s =>
    simp only [hg, Option.some.injEq] at hr
    subst hr
    have cs := h.get hg
    exact h.setSession ⟨cs.nick, cs.username, cs.realname, cs.awayMsg, cs.svid, cs.pass, cs.pname, cs.puser, cs.phost⟩

theorem CInv.maybeDeleteSession {st : St} (h : CInv st) (sid : Id) : CInv (maybeDeleteSession st sid) := by
  unfold Robust.Irc.maybeDeleteSession
  split
  · exact h
  · dsimp only
    have h1 : CInv (if (‹Session›.server || ‹Session›.operator) = true then
        { st with sessions := st.sessions.filter (fun e => !e.2.deleted) } else st) := by
      split
      · exact ⟨all_filter h.sessions _, h.channels, h.svsholds, h.banned, h.serverName⟩
      · exact h
    split
    · exact ⟨all_erase h1.sessions _, h1.channels, h1.svsholds, h1.banned, h1.serverName⟩
    · exact h1

/-- the text carried by an entry is clean: the line of an IRCFromClient entry (type 2), the quit
message of a DeleteSession entry (type 1) — both are produced by `firstLine` in the HTTP handlers —
and the GLINE reasons of a Config entry (type 6).  Nothing is required of CreateSession entries
(the auth string never reaches a line) nor of `remoteAddr`. -/
structure CleanEntry (e : Entry) : Prop where
  data : e.type = 1 ∨ e.type = 2 → Clean e.data
  cfg : e.type = 6 → ∀ cfg, e.cfg = some cfg → ∀ b ∈ cfg.banned, Clean b.2

theorem applyEntry_clean (st st' : St) (e : Entry) (out : List Out) (h : CInv st) (he : CleanEntry e)
    (hr : applyEntry st e = .ok (st', out)) : CInv st' ∧ COuts out := by
  have hnil : COuts [] := fun _ ho => nomatch ho
  unfold applyEntry at hr
  split at hr
  · -- MessageOfDeath
    cases hr
    refine ⟨?_, hnil⟩
    cases hu : updateLastClientMessageID st e with
    | none => exact h
    | some st1 => exact h.updateLastClientMessageID hu
  split at hr
  · -- CreateSession
    cases hr
    refine ⟨?_, hnil⟩
    cases hcs : createSession st ⟨e.id, 0⟩ e.data e.timestamp with
    | none => exact h
    | some st1 =>
      rw [createSession_eq hcs]
      refine h.setSession ?_
      clean_rec
  split at hr
  · -- DeleteSession
    rename_i ht1
    split at hr
    · cases hr; exact ⟨h, hnil⟩
    · obtain ⟨c, hpm, hr⟩ := Res.bind_eq_ok.1 hr
      cases hr
      have hd : Clean ("QUIT :" ++ e.data) := clean_append_iff.2 ⟨by decide, he.data (Or.inl ht1)⟩
      have pc := processMessage_clean (CCtx.start h e.id) (fun m hm => parseMessage_clean _ m hd hm) hpm
      refine ⟨?_, pc.out⟩
      apply CInv.maybeDeleteSession
      exact pc.inv.same rfl rfl rfl rfl rfl
  split at hr
  · -- IRCFromClient
    rename_i ht2
    split at hr
    · cases hr; exact ⟨h, hnil⟩
    · rename_i st1 hu
      obtain ⟨c, hpm, hr⟩ := Res.bind_eq_ok.1 hr
      cases hr
      have p1 : CInv st1 := h.updateLastClientMessageID hu
      have pc := processMessage_clean (CCtx.start p1 e.id)
        (fun m hm => parseMessage_clean _ m (he.data (Or.inr ht2)) hm) hpm
      refine ⟨?_, pc.out⟩
      apply CInv.maybeDeleteSession
      exact pc.inv.same rfl rfl rfl rfl rfl
  split at hr
  · -- Config
    rename_i ht6
    split at hr
    · cases hr; exact ⟨h, hnil⟩
    · rename_i cfg hcfg
      cases hr
      exact ⟨⟨h.sessions, h.channels, h.svsholds, he.cfg ht6 cfg hcfg, h.serverName⟩, hnil⟩
  · cases hr; exact ⟨h, hnil⟩

/-! ## histories -/

/-- every entry of the history carries clean text -/
def CleanHistory (es : List Entry) : Prop := ∀ e ∈ es, CleanEntry e

theorem run_clean {st st' : St} {es : List Entry} (h : CInv st) (hw : CleanHistory es)
    (hr : runEntries st es = .ok st') : CInv st' := by
  induction es generalizing st with
  | nil => cases hr; exact h
  | cons e es ih =>
    unfold runEntries at hr
    split at hr
    · rename_i st1 out hap
      exact ih (applyEntry_clean st st1 e out h (hw e (List.mem_cons_self ..)) hap).1
        (fun x hx => hw x (List.mem_cons_of_mem _ hx)) hr
    · cases hr
    · cases hr

/-- apply a list of entries, collecting the output batches in order -/
def runLines (st : St) : List Entry → Res (St × List Out)
  | [] => .ok (st, [])
  | e :: es =>
    match applyEntry st e with
    | .ok (st', out) =>
      match runLines st' es with
      | .ok (st'', outs) => .ok (st'', out ++ outs)
      | .panic site => .panic site
      | .declined why => .declined why
    | .panic site => .panic site
    | .declined why => .declined why

/-- `runLines` computes the same final state as `runEntries` -/
theorem runLines_state {st st' : St} {es : List Entry} {outs : List Out} (hr : runLines st es = .ok (st', outs)) :
    runEntries st es = .ok st' := by
  induction es generalizing st outs with
  | nil => unfold runLines at hr; cases hr; rfl
  | cons e es ih =>
    unfold runLines at hr
    unfold runEntries
    split at hr
    · rename_i st1 out hap
      rw [hap]
      dsimp only
      split at hr
      · rename_i st2 outs2 hro
        cases hr
        exact ih hro
      · cases hr
      · cases hr
    · cases hr
    · cases hr

theorem runLines_clean {st st' : St} {es : List Entry} {outs : List Out} (h : CInv st) (hw : CleanHistory es)
    (hr : runLines st es = .ok (st', outs)) : CInv st' ∧ COuts outs := by
  induction es generalizing st outs with
  | nil => unfold runLines at hr; cases hr; exact ⟨h, fun _ ho => nomatch ho⟩
  | cons e es ih =>
    unfold runLines at hr
    split at hr
    · rename_i st1 out hap
      obtain ⟨h1, o1⟩ := applyEntry_clean st st1 e out h (hw e (List.mem_cons_self ..)) hap
      split at hr
      · rename_i st2 outs2 hro
        cases hr
        obtain ⟨h2, o2⟩ := ih h1 (fun x hx => hw x (List.mem_cons_of_mem _ hx)) hro
        refine ⟨h2, ?_⟩
        intro o ho
        rcases List.mem_append.1 ho with ho | ho
        · exact o1 o ho
        · exact o2 o ho
      · cases hr
      · cases hr
    · cases hr
    · cases hr

end Robust.Irc
