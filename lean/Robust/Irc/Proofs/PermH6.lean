import Robust.Irc.Proofs.PermH2
/-!
Order-independence, handlers 6: services handlers `cmdServerSvshold`, `cmdServerSvspart`,
`cmdServerSvsmode`, `cmdServerSvsnick`, `cmdServerSvsjoin`.
-/
set_option linter.unusedVariables false
namespace Robust.Irc
open Robust
attribute [local irreducible] IrcMsg.render emit sendUser sendSvc

theorem cmdServerSvshold_congr : HCongr cmdServerSvshold := by
  intro c c' sid m h
  unfold cmdServerSvshold
  refine RRel.bind (getS_congr h sid) (fun s s' hs => ?_)
  refine RRel.bind_same (fun p0 => ?_)
  simp only [hs.lastActivity]
  split
  · refine RRel.bind_same (fun p1 => ?_)
    split
    · exact .declined
    · split
      · exact .declined
      · exact .ok (h.withSt (h.st.withSvsholds (h.st.svsholds.set _ rfl)))
  · exact .ok (h.withSt (h.st.withSvsholds (h.st.svsholds.erase _)))

theorem cmdServerSvspart_congr : HCongr cmdServerSvspart := by
  intro c c' sid m h
  unfold cmdServerSvspart
  refine RRel.bind_same (fun p0 => ?_)
  refine RRel.bind_same (fun channelname => ?_)
  simp only [h.st.get_nicks]
  split
  · refine RRel.bind_same (fun pn => ?_)
    ceqs
  · rename_i tid _
    rcases getChan_cases h (chanToLower channelname) with ⟨h1, h2⟩ | ⟨ch, ch', h1, h2, hch, hk⟩
    · simp only [h1, h2]
      refine RRel.bind_same (fun pn => ?_)
      ceqs
    · simp only [h1, h2, hch.contains_nicks]
      split
      · refine RRel.bind_same (fun pn => ?_)
        ceqs
      · refine RRel.bind (getS_congr h tid) (fun t t' ht => ?_)
        refine RRel.bind (rcChannel_congr h.st hch) (fun rc rc' hrc => ?_)
        simp only [ht.ircPrefix]
        exact leaveChannel_congr (emit_congr h rfl (hrc.append (rcServices_perm h.st))) _ _ _

theorem svsmodeStep_congr (tid : Id) {c c' : Ctx} (h : CEq c c') (mc : ModeCmd) :
    RRel CEq (svsmodeStep tid c mc) (svsmodeStep tid c' mc) := by
  unfold svsmodeStep
  dsimp only
  split
  · exact modS_congr_upd h tid _ (fun _ => rfl) (fun _ => rfl) (fun _ => rfl)
  · split
    · exact modS_congr_upd h tid _ (fun _ => rfl) (fun _ => rfl) (fun _ => rfl)
    · ceqs

theorem cmdServerSvsmode_congr : HCongr cmdServerSvsmode := by
  intro c c' sid m h
  rw [cmdServerSvsmode_eq, cmdServerSvsmode_eq]
  refine RRel.bind (getS_congr h sid) (fun s s' hs => ?_)
  refine RRel.bind_same (fun p0 => ?_)
  simp only [h.st.get_nicks, hs.ircPrefix]
  split
  · ceqs
  · rename_i tid _
    refine RRel.bind_same (fun modestr => ?_)
    split
    · ceqs
    · refine RRel.bind (foldlM_rrel_same _ (fun c c' a _ hc => svsmodeStep_congr tid hc a) h) (fun c1 c1' h1 => ?_)
      refine RRel.bind (getS_congr h1 tid) (fun t t' ht => ?_)
      simp only [ht.nick, ht.modes]
      ceqs

theorem svsnickTail_congr {c c' : Ctx} (h : CEq c c') (p0 p1 : String) (tid : Id) :
    RRel CEq (svsnickTail c p0 p1 tid) (svsnickTail c' p0 p1 tid) := by
  unfold svsnickTail
  refine RRel.bind (getS_congr h tid) (fun t t' ht => ?_)
  simp only [ht.ircPrefix]
  refine RRel.bind (modS_congr_upd h tid _ (fun _ => rfl) (fun _ => rfl) (fun _ => rfl)) (fun c1 c1' h1 => ?_)
  have h2 := renameCtx_congr h1 tid (nickToLower p1) (nickToLower p0) (nickToLower p1 != nickToLower p0)
  refine RRel.bind (modS_congr_upd h2 tid updateIrcPrefix (fun _ => rfl) (fun _ => rfl) (fun _ => rfl))
    (fun c3 c3' h3 => ?_)
  refine RRel.bind (getS_congr h3 tid) (fun t3 t3' ht3 => ?_)
  refine RRel.bind (rcCommonChannels_congr h3.st ht3) (fun rc rc' hrc => ?_)
  simp only [ht3.nick]
  exact .ok (emit_congr h3 rfl (((List.Perm.refl _).append hrc).append (rcServices_perm h3.st)))

theorem cmdServerSvsnick_congr : HCongr cmdServerSvsnick := by
  intro c c' sid m h
  rw [cmdServerSvsnick_eq, cmdServerSvsnick_eq]
  refine RRel.bind_same (fun p0 => ?_)
  refine RRel.bind_same (fun p1 => ?_)
  simp only [h.st.get_nicks]
  repeat' split
  all_goals first | ceqs | exact svsnickTail_congr h _ _ _

theorem getChanD_congr {c c' : Ctx} (h : CEq c c') (channelname : String) :
    ChanEq ((getChan c (chanToLower channelname)).getD { name := channelname })
      ((getChan c' (chanToLower channelname)).getD { name := channelname }) ∧
    chanToLower ((getChan c (chanToLower channelname)).getD { name := channelname }).name = chanToLower channelname := by
  rcases getChan_cases h (chanToLower channelname) with ⟨h1, h2⟩ | ⟨ch, ch', h1, h2, hch, hk⟩
  · rw [h1, h2]
    exact ⟨ChanEq.ofFields rfl rfl rfl rfl MEq.nil rfl rfl rfl, rfl⟩
  · rw [h1, h2]
    exact ⟨hch, hk⟩

theorem cmdServerSvsjoin_congr : HCongr cmdServerSvsjoin := by
  intro c c' sid m h
  unfold cmdServerSvsjoin
  refine RRel.bind_same (fun p0 => ?_)
  refine RRel.bind_same (fun channelname => ?_)
  simp -zeta only [h.st.get_nicks]
  extract_lets nick lc existed ch0 c1 chA cA existed' ch0' c1' chA' cA'
  obtain ⟨hch, hk⟩ : ChanEq ch0 ch0' ∧ chanToLower ch0.name = lc := getChanD_congr h channelname
  have hex : existed' = existed := (getChan_congr h _).isSome_eq.symm
  clear_value ch0 ch0' existed existed'
  subst hex
  have h1 : CEq c1 c1' := putChan_congr h lc hch hk
  have hchA : ChanEq chA chA' := hch.withNicks (hch.nicks.set nick rfl)
  have hA : CEq cA cA' := putChan_congr h1 lc hchA hk
  clear_value c1 c1' cA cA'
  split
  · refine RRel.bind_same (fun pn => ?_)
    ceqs
  · rename_i tid _
    split
    · refine RRel.bind_same (fun pn => ?_)
      ceqs
    · rw [hch.contains_nicks, h.config, h.st.channels.length_eq]
      refine RRel.ite Iff.rfl (fun _ _ => RRel.bind_same (fun pn => by ceqs)) (fun _ _ => ?_)
      split
      · ceqs
      · refine RRel.bind (modS_congr hA tid (fun s s' hs => hs.withChannels (setInsert_perm hs.channels _))) (fun c2 c2' h2 => ?_)
        refine RRel.bind (getS_congr h2 tid) (fun t t' ht => ?_)
        refine RRel.bind (rcChannel_congr h2.st hchA) (fun rc rc' hrc => ?_)
        simp -zeta only [ht.ircPrefix, ht.nick]
        extract_lets c3 c4 c3' c4'
        ceq_let h3 c3 c3'
        ceq_let h4 c4 c4'
        refine RRel.bind (cmdTopic_congr _ _ _ _ h4) (fun c5 c5' h5 => ?_)
        exact cmdNames_congr _ _ _ _ h5
end Robust.Irc
