import Robust.Irc.Proofs.UlenInv
import Robust.Irc.Proofs.NH1
/-!
`UInv` (every stored session's user name has at most `maxUserLen` characters) is preserved by the
client handlers.  Same walks as for `PInv` in `RcptPfxClient.lean`; the only writer is USER, which stores
`truncateUsername _` of a parameter without space (given at least two parameters: the command table
demands three).  NICK keeps the user name (no suspension needed), so no handler needs `Pre`.
-/
namespace Robust.Irc
open Robust AMap

/-! ### read-only handlers -/

theorem UInv.of_emits {c c' : Ctx} (h : UInv c.st) (he : Emits c c') : UInv c'.st := by rw [he.st]; exact h

theorem UPres.of_emits {h : Ctx → Id → IrcMsg → Res Ctx}
    (hi : ∀ c sid m c', h c sid m = Res.ok c' → Emits c c') : UPres h :=
  fun c sid m c' _ _ hp hr => hp.of_emits (hi c sid m c' hr)

theorem cmdPing_upres : UPres cmdPing := .of_emits fun _ _ _ _ => cmdPing_emits
theorem cmdIson_upres : UPres cmdIson := .of_emits fun _ _ _ _ => cmdIson_emits
theorem cmdUserhost_upres : UPres cmdUserhost := .of_emits fun _ _ _ _ => cmdUserhost_emits
theorem cmdList_upres : UPres cmdList := .of_emits fun _ _ _ _ => cmdList_emits
theorem cmdKnock_upres : UPres cmdKnock := .of_emits fun _ _ _ _ => cmdKnock_emits
theorem cmdNames_upres : UPres cmdNames := .of_emits fun _ _ _ _ => cmdNames_emits
theorem cmdWho_upres : UPres cmdWho := .of_emits fun _ _ _ _ => cmdWho_emits
theorem cmdWhois_upres : UPres cmdWhois := .of_emits fun _ _ _ _ => cmdWhois_emits
theorem cmdPrivmsg_upres : UPres cmdPrivmsg := .of_emits fun _ _ _ _ => cmdPrivmsg_emits
theorem cmdServiceAlias_upres : UPres cmdServiceAlias := .of_emits fun _ _ _ _ => cmdServiceAlias_emits

theorem cmdNames_uinv {c c' : Ctx} {sid : Id} {m : IrcMsg} (h : UInv c.st) (hr : cmdNames c sid m = .ok c') :
    UInv c'.st := h.of_emits (cmdNames_emits hr)

/-- brute-force walk through a handler whose leaves are output / `putChan` on top of a context `c`
with `h : UInv c.st`: `uinv_auto hr h` -/
macro "uinv_auto" hr:ident h:ident : tactic =>
  `(tactic| repeat' (first
      | split at $hr:ident
      | (obtain ⟨_, _, $hr:ident⟩ := Res.bind_eq_ok.1 $hr:ident)
      | dsimp only at $hr:ident
      | (cases $hr:ident <;> exact $h:ident)))

/-! ### AWAY / INVITE / TOPIC / MODE -/

theorem cmdAway_uinv {c c' : Ctx} {sid : Id} {m : IrcMsg} (h : UInv c.st) (hr : cmdAway c sid m = .ok c') :
    UInv c'.st := by
  unfold cmdAway at hr
  obtain ⟨c1, h1, hr⟩ := Res.bind_eq_ok.1 hr
  obtain ⟨s, hs, hr⟩ := Res.bind_eq_ok.1 hr
  have p1 : UInv c1.st := h.modS_keep h1 (fun _ => ⟨rfl, rfl⟩)
  split at hr <;> (cases hr; exact p1)

theorem cmdAway_upres : UPres cmdAway := .of_plain cmdAway_uinv

theorem cmdInvite_uinv {c c' : Ctx} {sid : Id} {m : IrcMsg} (h : UInv c.st) (hr : cmdInvite c sid m = .ok c') :
    UInv c'.st := by
  unfold cmdInvite at hr
  obtain ⟨s, hs, hr⟩ := Res.bind_eq_ok.1 hr
  obtain ⟨nickname, _, hr⟩ := Res.bind_eq_ok.1 hr
  obtain ⟨channelname, _, hr⟩ := Res.bind_eq_ok.1 hr
  dsimp only at hr
  split at hr
  · cases hr; exact h
  split at hr
  · cases hr; exact h
  split at hr
  · cases hr; exact h
  obtain ⟨t, ht, hr⟩ := Res.bind_eq_ok.1 hr
  split at hr
  · cases hr; exact h
  split at hr
  · cases hr; exact h
  obtain ⟨c1, h1, hr⟩ := Res.bind_eq_ok.1 hr
  have p1 : UInv c1.st := h.modS_keep h1 (fun _ => ⟨rfl, rfl⟩)
  obtain ⟨rc, _, hr⟩ := Res.bind_eq_ok.1 hr
  split at hr <;> (cases hr; exact p1)

theorem cmdInvite_upres : UPres cmdInvite := .of_plain cmdInvite_uinv

theorem cmdTopic_uinv {c c' : Ctx} {sid : Id} {m : IrcMsg} (h : UInv c.st) (hr : cmdTopic c sid m = .ok c') :
    UInv c'.st := by
  unfold cmdTopic at hr
  simp only [getChan_eq] at hr
  uinv_auto hr h

theorem cmdTopic_upres : UPres cmdTopic := .of_plain cmdTopic_uinv

theorem applyChanMode_uinv {c c' : Ctx} {sid : Id} {s : Session} {lc chn : String} {op q q' ret : Bool}
    {mc : ModeCmd} (h : UInv c.st) (hr : applyChanMode c sid s lc chn op mc q = .ok (c', q', ret)) :
    UInv c'.st := by
  unfold applyChanMode at hr
  simp only [getChan_eq] at hr
  split at hr
  · rename_i ch hch
    split at hr
    · uinv_auto hr h
    · cases hr
      refine UInv.sendUser ?_ _ _
      exact UInv.foldl (fun c1 p h1 => h1.sendUser _ _) _ _ h
  · cases hr

theorem applyChanModes_uinv {sid : Id} {s : Session} {lc chn : String} {op : Bool} :
    ∀ (l : List ModeCmd) {c c' : Ctx} {q q' ret : Bool}, UInv c.st →
      applyChanModes c sid s lc chn op l q = .ok (c', q', ret) → UInv c'.st
  | [], c, c', q, q', ret, h, hr => by
    unfold applyChanModes at hr
    cases hr; exact h
  | mc :: rest, c, c', q, q', ret, h, hr => by
    unfold applyChanModes at hr
    obtain ⟨⟨c1, q1, r1⟩, h1, hr⟩ := Res.bind_eq_ok.1 hr
    have p1 := applyChanMode_uinv h h1
    dsimp only at hr
    split at hr
    · cases hr; exact p1
    · exact applyChanModes_uinv rest p1 hr

theorem cmdMode_uinv {c c' : Ctx} {sid : Id} {m : IrcMsg} (h : UInv c.st) (hr : cmdMode c sid m = .ok c') :
    UInv c'.st := by
  unfold cmdMode at hr
  simp only [getChan_eq, Res.panic_bind] at hr
  obtain ⟨s, hs, hr⟩ := Res.bind_eq_ok.1 hr
  obtain ⟨chn, _, hr⟩ := Res.bind_eq_ok.1 hr
  split at hr
  · -- channel modes
    split at hr
    · rename_i ch hch
      split at hr
      · cases hr; exact h
      · split at hr
        · rename_i mem hmem
          obtain ⟨⟨c1, q1, r1⟩, h1, hr⟩ := Res.bind_eq_ok.1 hr
          have p1 := applyChanModes_uinv _ h h1
          dsimp only at hr
          split at hr
          · cases hr; exact p1
          split at hr
          · cases hr; exact p1
          split at hr
          · cases hr; exact p1
          split at hr
          · obtain ⟨rc, _, hr⟩ := Res.bind_eq_ok.1 hr
            cases hr; exact p1
          · cases hr
        · cases hr
    · cases hr
  · -- user modes
    split at hr
    · obtain ⟨t, ht, hr⟩ := Res.bind_eq_ok.1 hr
      split at hr
      · cases hr; exact h
      · split at hr
        · cases hr; exact h
        · obtain ⟨c1, h1, hr⟩ := Res.bind_eq_ok.1 hr
          have p1 : UInv c1.st := h.modS_keep h1 (fun _ => ⟨rfl, rfl⟩)
          cases hr
          exact p1
    · cases hr; exact h

theorem cmdMode_upres : UPres cmdMode := .of_plain cmdMode_uinv

/-! ### login, OPER, MOTD, USER, PASS -/

theorem cmdMotd_uinv {c c' : Ctx} {sid : Id} {m : IrcMsg} (h : UInv c.st) (hr : cmdMotd c sid m = .ok c') :
    UInv c'.st := by
  unfold cmdMotd at hr
  obtain ⟨s, _, hr⟩ := Res.bind_eq_ok.1 hr
  cases hr; exact h

theorem cmdMotd_upres : UPres cmdMotd := .of_plain cmdMotd_uinv

theorem cmdOper_uinv {c c' : Ctx} {sid : Id} {m : IrcMsg} (h : UInv c.st) (hr : cmdOper c sid m = .ok c') :
    UInv c'.st := by
  unfold cmdOper at hr
  obtain ⟨s, hs, hr⟩ := Res.bind_eq_ok.1 hr
  obtain ⟨p0, hp0, hr⟩ := Res.bind_eq_ok.1 hr
  obtain ⟨p1, hp1, hr⟩ := Res.bind_eq_ok.1 hr
  split at hr
  · cases hr; exact h
  · obtain ⟨c1, h1, hr⟩ := Res.bind_eq_ok.1 hr
    obtain ⟨s1, hs1, hr⟩ := Res.bind_eq_ok.1 hr
    have n1 : UInv c1.st := h.modS_keep h1 (fun _ => ⟨rfl, rfl⟩)
    cases hr
    exact n1

theorem cmdOper_upres : UPres cmdOper := .of_plain cmdOper_uinv

theorem loginOper_uinv {c c' : Ctx} {sid : Id} {s : Session} (h : UInv c.st) (hr : loginOper c sid s = .ok c') :
    UInv c'.st := by
  unfold loginOper at hr
  dsimp only at hr
  split at hr
  · split at hr
    · cases hr
    · split at hr
      · exact cmdOper_uinv h hr
      · cases hr; exact h
  · cases hr; exact h

theorem maybeLogin_uinv {c c' : Ctx} {sid : Id} {m : IrcMsg} (h : UInv c.st) (hr : maybeLogin c sid m = .ok c') :
    UInv c'.st := by
  rw [maybeLogin_eq] at hr
  obtain ⟨s, hs, hr⟩ := Res.bind_eq_ok.1 hr
  split at hr
  · cases hr; exact h
  · split at hr
    · cases hr; exact h
    · split at hr
      · cases hr
      · obtain ⟨c1, h1, hr⟩ := Res.bind_eq_ok.1 hr
        obtain ⟨c2, h2, hr⟩ := Res.bind_eq_ok.1 hr
        obtain ⟨c3, h3, hr⟩ := Res.bind_eq_ok.1 hr
        have n1 : UInv c1.st := h.modS_keep h1 (fun _ => ⟨rfl, rfl⟩)
        have n2 : UInv c2.st := loginOper_uinv (by rw [loginBanner_st]; exact n1) h2
        have n3 : UInv c3.st := n2.modS_keep h3 (fun _ => ⟨rfl, rfl⟩)
        exact cmdMotd_uinv n3 hr

/-- USER: the stored user name is the first of at least two parameters, cut to 30 characters -/
theorem cmdUser_uinv {c c' : Ctx} {sid : Id} {m : IrcMsg} (hm : MidOK m) (hl : 2 ≤ m.params.length)
    (h : UInv c.st) (hr : cmdUser c sid m = .ok c') : UInv c'.st := by
  unfold cmdUser at hr
  obtain ⟨u, hu, hr⟩ := Res.bind_eq_ok.1 hr
  obtain ⟨c1, h1, hr⟩ := Res.bind_eq_ok.1 hr
  have hu' : m.params[0]? = some u := by
    unfold param at hu
    split at hu
    · cases hu; assumption
    · cases hu
  have hsp : Spaceless u := hm.param0 hl hu'
  exact maybeLogin_uinv (h.modS h1 (fun s _ _ => UOK.truncate { s with realname := m.trailing } hsp)) hr

theorem cmdPass_uinv {c c' : Ctx} {sid : Id} {m : IrcMsg} (h : UInv c.st) (hr : cmdPass c sid m = .ok c') :
    UInv c'.st := by
  unfold cmdPass at hr
  obtain ⟨c1, h1, hr⟩ := Res.bind_eq_ok.1 hr
  exact maybeLogin_uinv (h.modS_keep h1 (fun _ => ⟨rfl, rfl⟩)) hr

theorem cmdPass_upres : UPres cmdPass := .of_plain cmdPass_uinv

/-! ### QUIT, PART, KICK, KILL, GLINE -/

theorem cmdQuit_uinv {c c' : Ctx} {sid : Id} {m : IrcMsg} (h : UInv c.st) (hr : cmdQuit c sid m = .ok c') :
    UInv c'.st := by
  unfold cmdQuit at hr
  obtain ⟨c1, h1, hr⟩ := Res.bind_eq_ok.1 hr
  have n1 := h.deleteSession h1
  obtain ⟨s1, hs1, hr⟩ := Res.bind_eq_ok.1 hr
  split at hr
  · obtain ⟨rc, hrc, hr⟩ := Res.bind_eq_ok.1 hr
    cases hr; exact n1
  · cases hr; exact n1

theorem cmdQuit_upres : UPres cmdQuit := .of_plain cmdQuit_uinv

theorem partOne_uinv {c c' : Ctx} {sid : Id} {chn : String} (h : UInv c.st) (hr : partOne c sid chn = .ok c') :
    UInv c'.st := by
  unfold partOne at hr
  obtain ⟨s0, hs0, hr⟩ := Res.bind_eq_ok.1 hr
  simp only [getChan_eq] at hr
  split at hr
  · cases hr; exact h
  · split at hr
    · cases hr; exact h
    · obtain ⟨rc, hrc, hr⟩ := Res.bind_eq_ok.1 hr
      exact UInv.leaveChannel (c := emit _ _ _) h hr

theorem cmdPart_uinv {c c' : Ctx} {sid : Id} {m : IrcMsg} (h : UInv c.st) (hr : cmdPart c sid m = .ok c') :
    UInv c'.st := by
  unfold cmdPart at hr
  obtain ⟨p0, _, hr⟩ := Res.bind_eq_ok.1 hr
  exact UInv.foldlM (fun _ _ _ h hr => partOne_uinv h hr) _ h hr

theorem cmdPart_upres : UPres cmdPart := .of_plain cmdPart_uinv

theorem cmdKick_uinv {c c' : Ctx} {sid : Id} {m : IrcMsg} (h : UInv c.st) (hr : cmdKick c sid m = .ok c') :
    UInv c'.st := by
  unfold cmdKick at hr
  obtain ⟨s, hs, hr⟩ := Res.bind_eq_ok.1 hr
  obtain ⟨chn, _, hr⟩ := Res.bind_eq_ok.1 hr
  obtain ⟨target, _, hr⟩ := Res.bind_eq_ok.1 hr
  simp only [getChan_eq] at hr
  split at hr
  · cases hr; exact h
  · split at hr
    · cases hr; exact h
    · split at hr
      · cases hr; exact h
      · split at hr
        · cases hr; exact h
        · split at hr
          · obtain ⟨rc, hrc, hr⟩ := Res.bind_eq_ok.1 hr
            exact UInv.leaveChannel (c := emit _ _ _) h hr
          · cases hr

theorem cmdKick_upres : UPres cmdKick := .of_plain cmdKick_uinv

theorem cmdKill_uinv {c c' : Ctx} {sid : Id} {m : IrcMsg} (h : UInv c.st) (hr : cmdKill c sid m = .ok c') :
    UInv c'.st := by
  unfold cmdKill at hr
  obtain ⟨s, hs, hr⟩ := Res.bind_eq_ok.1 hr
  split at hr
  · cases hr; exact h
  · obtain ⟨p0, _, hr⟩ := Res.bind_eq_ok.1 hr
    split at hr
    · cases hr; exact h
    · obtain ⟨c1, h1, hr⟩ := Res.bind_eq_ok.1 hr
      have n1 := h.deleteSession h1
      obtain ⟨t1, _, hr⟩ := Res.bind_eq_ok.1 hr
      obtain ⟨s2, _, hr⟩ := Res.bind_eq_ok.1 hr
      obtain ⟨rc, _, hr⟩ := Res.bind_eq_ok.1 hr
      cases hr
      exact n1

theorem cmdKill_upres : UPres cmdKill := .of_plain cmdKill_uinv

theorem cmdGline_uinv {c c' : Ctx} {sid : Id} {m : IrcMsg} (h : UInv c.st) (hr : cmdGline c sid m = .ok c') :
    UInv c'.st := by
  unfold cmdGline at hr
  obtain ⟨s, hs, hr⟩ := Res.bind_eq_ok.1 hr
  split at hr
  · cases hr; exact h
  · obtain ⟨p0, _, hr⟩ := Res.bind_eq_ok.1 hr
    split at hr
    · cases hr; exact h
    · obtain ⟨t, _, hr⟩ := Res.bind_eq_ok.1 hr
      split at hr
      · cases hr; exact h
      · dsimp only at hr
        refine cmdKill_uinv ?_ hr
        exact h.congr rfl

theorem cmdGline_upres : UPres cmdGline := .of_plain cmdGline_uinv

/-! ### NICK -/

theorem cmdNickTail_uinv {c c' : Ctx} {sid : Id} {m : IrcMsg} {s : Session} {nick : String} {held : Option SvsHold}
    (h : UInv c.st) (hr : cmdNickTail c sid m s nick held = .ok c') : UInv c'.st := by
  unfold cmdNickTail at hr
  dsimp only at hr
  obtain ⟨hs0, _, _⟩ := holdCtx_facts c (nickToLower nick) held
  have n0 : UInv (holdCtx c (nickToLower nick) held).st := h.congr hs0
  generalize holdCtx c (nickToLower nick) held = c0 at hr n0
  split at hr
  · cases hr; exact n0
  generalize (nickToLower s.nick != "" &&
      !(s.loggedIn && nickToLower nick == nickToLower (if s.loggedIn = true then s.nick else "*"))) = b at hr
  obtain ⟨c1, hm1, hr⟩ := Res.bind_eq_ok.1 hr
  obtain ⟨c2, hm2, hr⟩ := Res.bind_eq_ok.1 hr
  have n1 : UInv c1.st := n0.modS_keep hm1 (fun _ => ⟨rfl, rfl⟩)
  have hss := renameCtx_sessions c1 sid (nickToLower nick) (nickToLower s.nick) b
  have nr : UInv (renameCtx c1 sid (nickToLower nick) (nickToLower s.nick) b).st := n1.congr hss
  have n2 : UInv c2.st := nr.modS_keep hm2 (fun _ => ⟨rfl, rfl⟩)
  split at hr
  · obtain ⟨s2, _, hr⟩ := Res.bind_eq_ok.1 hr
    obtain ⟨rc, _, hr⟩ := Res.bind_eq_ok.1 hr
    cases hr
    exact n2
  · exact maybeLogin_uinv n2 hr

theorem cmdNick_uinv {c c' : Ctx} {sid : Id} {m : IrcMsg} (h : UInv c.st)
    (hr : cmdNick c sid m = .ok c') : UInv c'.st := by
  rw [cmdNick_eq] at hr
  obtain ⟨s, hs, hr⟩ := Res.bind_eq_ok.1 hr
  dsimp only at hr
  generalize m.params.head?.getD "" = nick at hr
  split at hr
  · cases hr; exact h
  generalize (if s.loggedIn = true then s.nick else "*") = dest at hr
  split at hr
  · cases hr; exact h
  split at hr
  · cases hr; exact h
  split at hr
  · split at hr
    · cases hr; exact h
    · exact cmdNickTail_uinv h hr
  · exact cmdNickTail_uinv h hr

theorem cmdNick_upres : UPres cmdNick := .of_plain cmdNick_uinv

/-! ### JOIN -/

theorem joinAdmit_uinv {c c1 : Ctx} {sid : Id} {s : Session} {chn key : String} {mm : Option (Option IrcMsg)}
    (h : UInv c.st) (hr : joinAdmit c sid s chn key = .ok (c1, mm)) : UInv c1.st := by
  unfold joinAdmit at hr
  dsimp only at hr
  obtain ⟨r, h1, hr⟩ := Res.bind_eq_ok.1 hr
  have hr1 : UInv r.1.st := by
    simp only [getChan_eq] at h1
    uinv_auto h1 h
  split at hr <;> (cases hr; exact hr1)

theorem joinAnnounce_uinv {c c' : Ctx} {sid : Id} {chn : String} {ch : Channel} {ex : Bool}
    {mm : Option IrcMsg} (h : UInv c.st) (hr : joinAnnounce c sid chn ch ex mm = .ok c') : UInv c'.st := by
  unfold joinAnnounce at hr
  obtain ⟨s1, hs1, hr⟩ := Res.bind_eq_ok.1 hr
  obtain ⟨rc, hrc, hr⟩ := Res.bind_eq_ok.1 hr
  dsimp only at hr
  obtain ⟨c1, h1, hr⟩ := Res.bind_eq_ok.1 hr
  obtain ⟨e1, _⟩ := joinModes_spec h1
  obtain ⟨c2, h2, hr⟩ := Res.bind_eq_ok.1 hr
  obtain ⟨c3, h3, hr⟩ := Res.bind_eq_ok.1 hr
  have e1' : c1.st = c.st := e1
  have n1 : UInv (emit c1 (srv c1 "SJOIN" ["1", chn, (if (!ex) = true then "@" else "") ++ s1.nick])
      (rcServices c1.st)).st := by rw [emit_st, e1']; exact h
  exact cmdNames_uinv (cmdTopic_uinv (cmdMode_uinv n1 h2) h3) hr

theorem joinTail_uinv {c c' : Ctx} {sid : Id} {s : Session} {chn : String} {ex : Bool} {mm : Option IrcMsg}
    (h : UInv c.st) (hr : joinTail c sid s chn ex mm = .ok c') : UInv c'.st := by
  unfold joinTail at hr
  dsimp only at hr
  simp only [getChan_eq] at hr
  split at hr
  · rename_i ch hch
    obtain ⟨c2, h2, hr⟩ := Res.bind_eq_ok.1 hr
    have n2 : UInv c2.st := by
      split at h2
      · exact h.modS_keep h2 (fun _ => ⟨rfl, rfl⟩)
      · cases h2; exact h
    split at hr
    · cases hr; exact n2
    · obtain ⟨c3, h3, hr⟩ := Res.bind_eq_ok.1 hr
      have n3 : UInv c3.st := UInv.modS_keep (c := putChan c2 _ _) (n2.putChan _ _) h3
        (fun _ => ⟨rfl, rfl⟩)
      exact joinAnnounce_uinv n3 hr
  · cases hr

theorem joinOne_uinv {c c' : Ctx} {sid : Id} {chn key : String} (h : UInv c.st)
    (hr : joinOne c sid chn key = .ok c') : UInv c'.st := by
  rw [joinOne_eq] at hr
  obtain ⟨s0, hs0, hr⟩ := Res.bind_eq_ok.1 hr
  split at hr
  · cases hr; exact h
  · obtain ⟨r, hadm, hr⟩ := Res.bind_eq_ok.1 hr
    obtain ⟨c1, mm⟩ := r
    have n1 := joinAdmit_uinv h hadm
    cases mm with
    | none => cases hr; exact n1
    | some mm =>
      dsimp only at hr
      exact joinTail_uinv n1 hr

theorem joinLoop_uinv {keys chans : List String} {idx : Nat} {c c' : Ctx} {sid : Id} (h : UInv c.st)
    (hr : joinLoop c sid keys chans idx = .ok c') : UInv c'.st := by
  induction chans generalizing c idx with
  | nil => cases hr; exact h
  | cons ch rest ih =>
    unfold joinLoop at hr
    obtain ⟨c1, h1, hr⟩ := Res.bind_eq_ok.1 hr
    exact ih (joinOne_uinv h h1) hr

theorem cmdJoin_uinv {c c' : Ctx} {sid : Id} {m : IrcMsg} (h : UInv c.st) (hr : cmdJoin c sid m = .ok c') :
    UInv c'.st := by
  unfold cmdJoin at hr
  obtain ⟨p0, _, hr⟩ := Res.bind_eq_ok.1 hr
  exact joinLoop_uinv h hr

theorem cmdJoin_upres : UPres cmdJoin := .of_plain cmdJoin_uinv

end Robust.Irc
