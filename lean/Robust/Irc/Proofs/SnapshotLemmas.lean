import Robust.Irc.Snapshot
import Robust.Irc.Proofs.InvDef
/-!
Lemmas for C03 (snapshot round trip): idempotence of the case mappings (`lowerChar`,
`chanToLower`, `nickToLower`), rebuilding an association list with `foldl … AMap.set`, and the
normal form of `saveLoad` on states satisfying `Inv` and `Canon`.
-/
set_option linter.unusedSectionVars false
namespace Robust.Irc
open Robust

/-! ### case mapping is idempotent -/

theorem lookupTable_go_some (t : Array (Nat × Nat)) (c : Nat) (fuel : Nat) :
    ∀ lo hi v, lookupTable.go t c lo hi fuel = some v → (c, v) ∈ t := by
  induction fuel with
  | zero => intro lo hi v h; simp [lookupTable.go] at h
  | succ n ih =>
    intro lo hi v h
    unfold lookupTable.go at h
    split at h
    · cases h
    · simp only at h
      split at h
      · cases h
      · rename_i k w hk
        split at h
        · rename_i hkc
          cases h; subst hkc
          exact Array.mem_of_getElem? hk
        · split at h
          · exact ih _ _ _ h
          · exact ih _ _ _ h

theorem lookupTable_some {t : Array (Nat × Nat)} {c v : Nat} (h : lookupTable t c = some v) : (c, v) ∈ t :=
  lookupTable_go_some t c 32 0 t.size v h

def validNat (v : Nat) : Bool := v < 0xd800 || (0xdfff < v && v < 0x110000)

theorem toNat_ofNat_of_valid {v : Nat} (h : validNat v = true) : (Char.ofNat v).toNat = v := by
  have hv : v.isValidChar := by
    simp only [validNat, Bool.or_eq_true, Bool.and_eq_true, decide_eq_true_eq] at h
    exact h
  simp [Char.ofNat, hv, Char.toNat, Char.ofNatAux]

/-- bitmap of the keys of a table -/
def keyBits (T : List (Nat × Nat)) : Nat := T.foldl (fun acc e => acc ||| 2 ^ e.1) 0

theorem testBit_foldl_keyBits (T : List (Nat × Nat)) (i : Nat) :
    ∀ acc : Nat, (acc.testBit i = true ∨ ∃ w, (i, w) ∈ T) →
      (T.foldl (fun (acc : Nat) (e : Nat × Nat) => acc ||| 2 ^ e.1) acc).testBit i = true := by
  induction T with
  | nil => intro acc h; rcases h with h | ⟨w, h⟩
           · exact h
           · cases h
  | cons e t ih =>
    intro acc h
    simp only [List.foldl_cons]
    apply ih
    rcases h with h | ⟨w, h⟩
    · left; rw [Nat.testBit_or, h]; rfl
    · rcases List.mem_cons.1 h with h1 | h1
      · left; rw [Nat.testBit_or, ← h1]; simp [Nat.testBit_two_pow_self]
      · right; exact ⟨w, h1⟩

theorem testBit_keyBits {T : List (Nat × Nat)} {k w : Nat} (h : (k, w) ∈ T) : (keyBits T).testBit k = true :=
  testBit_foldl_keyBits T k 0 (Or.inr ⟨w, h⟩)

/-- every value of the table is a valid code point that the mapping leaves alone: an ASCII
non-capital, or a non-ASCII code point that is not a key of the table (bitmap test) -/
def lowerTableOK (T : List (Nat × Nat)) : Bool :=
  T.all fun e => validNat e.2 &&
    (if e.2 < 128 then !(65 ≤ e.2 && e.2 ≤ 90) else !(keyBits T).testBit e.2)

theorem lowerTableOK_true : lowerTableOK Gen.Unicode.toLowerTable.toList = true := by decide +kernel

theorem char_le_iff {a b : Char} : a ≤ b ↔ a.toNat ≤ b.toNat := by
  rw [Char.le_def, UInt32.le_iff_toNat_le]; rfl

theorem lowerChar_of_ascii_nonupper {d : Char} (h1 : d.toNat < 128) (h2 : ¬ (65 ≤ d.toNat ∧ d.toNat ≤ 90)) :
    lowerChar d = d := by
  unfold lowerChar
  rw [if_pos h1, if_neg]
  rw [char_le_iff, char_le_iff]
  exact h2

theorem lowerChar_of_none {d : Char} (h1 : ¬ d.toNat < 128)
    (h2 : lookupTable Gen.Unicode.toLowerTable d.toNat = none) : lowerChar d = d := by
  unfold lowerChar
  rw [if_neg h1, h2]

theorem lowerChar_idem (c : Char) : lowerChar (lowerChar c) = lowerChar c := by
  by_cases h1 : c.toNat < 128
  · by_cases h2 : 65 ≤ c.toNat ∧ c.toNat ≤ 90
    · have hv : validNat (c.toNat + 32) = true := by
        simp only [validNat, Bool.or_eq_true, decide_eq_true_eq]; left; omega
      have hd : lowerChar c = Char.ofNat (c.toNat + 32) := by
        unfold lowerChar
        rw [if_pos h1, if_pos]
        rw [char_le_iff, char_le_iff]; exact h2
      rw [hd]
      apply lowerChar_of_ascii_nonupper <;> rw [toNat_ofNat_of_valid hv] <;> omega
    · rw [lowerChar_of_ascii_nonupper h1 h2, lowerChar_of_ascii_nonupper h1 h2]
  · cases hl : lookupTable Gen.Unicode.toLowerTable c.toNat with
    | none => rw [lowerChar_of_none h1 hl, lowerChar_of_none h1 hl]
    | some v =>
      have hd : lowerChar c = Char.ofNat v := by
        unfold lowerChar; rw [if_neg h1, hl]
      have hmem : (c.toNat, v) ∈ Gen.Unicode.toLowerTable.toList := Array.mem_toList_iff.2 (lookupTable_some hl)
      have hok := lowerTableOK_true
      unfold lowerTableOK at hok
      rw [List.all_eq_true] at hok
      have := hok _ hmem
      simp only [Bool.and_eq_true] at this
      obtain ⟨hv, hrest⟩ := this
      rw [hd]
      by_cases h3 : v < 128
      · rw [if_pos h3] at hrest
        apply lowerChar_of_ascii_nonupper <;> rw [toNat_ofNat_of_valid hv]
        · exact h3
        · simp only [Bool.not_eq_true', Bool.and_eq_false_iff, decide_eq_false_iff_not] at hrest
          omega
      · rw [if_neg h3] at hrest
        apply lowerChar_of_none <;> rw [toNat_ofNat_of_valid hv]
        · exact h3
        · cases hl2 : lookupTable Gen.Unicode.toLowerTable v with
          | none => rfl
          | some w =>
            have := testBit_keyBits (Array.mem_toList_iff.2 (lookupTable_some hl2))
            rw [this] at hrest; cases hrest

theorem toLower_idem (s : String) : toLower (toLower s) = toLower s := by
  unfold toLower
  rw [String.toList_ofList, List.map_map]
  congr 1
  apply List.map_congr_left
  intro c _; exact lowerChar_idem c

theorem chanToLower_idem (s : String) : chanToLower (chanToLower s) = chanToLower s := toLower_idem s

def nickFold (c : Char) : Char := if c == '[' then '{' else if c == ']' then '}' else if c == '\\' then '|' else c

theorem nickToLower_eq (s : String) : nickToLower s = String.ofList ((s.toList.map lowerChar).map nickFold) := by
  unfold nickToLower toLower
  rw [String.toList_ofList]; rfl

theorem nickFold_lower_idem (c : Char) : nickFold (lowerChar (nickFold (lowerChar c))) = nickFold (lowerChar c) := by
  generalize hd : lowerChar c = d
  have hdd : lowerChar d = d := by rw [← hd]; exact lowerChar_idem c
  unfold nickFold
  by_cases h1 : d = '['
  · subst h1; decide
  · by_cases h2 : d = ']'
    · subst h2; decide
    · by_cases h3 : d = '\\'
      · subst h3; decide
      · simp [h1, h2, h3, hdd]

theorem nickToLower_idem (s : String) : nickToLower (nickToLower s) = nickToLower s := by
  rw [nickToLower_eq (nickToLower s), nickToLower_eq s, String.toList_ofList]
  congr 1
  simp only [List.map_map]
  apply List.map_congr_left
  intro c _
  simp only [Function.comp_apply]
  exact nickFold_lower_idem c


/-! ### rebuilding an association list with `foldl … AMap.set` -/

namespace AMap
variable {κ ν : Type} [DecidableEq κ]

theorem keys_append (a b : AMap κ ν) : keys (a ++ b) = keys a ++ keys b := by
  simp [keys]

theorem set_of_not_mem {m : AMap κ ν} {k : κ} (v : ν) (h : k ∉ keys m) : set m k v = m ++ [(k, v)] := by
  induction m with
  | nil => rfl
  | cons e t ih =>
    obtain ⟨k', v'⟩ := e
    simp only [keys_cons, List.mem_cons, not_or] at h
    have hk : ¬ k' = k := fun h2 => h.1 h2.symm
    simp only [set, hk, if_false, List.cons_append, ih h.2]

/-- inserting entries with pairwise distinct fresh keys just appends them, in order -/
theorem foldl_set_eq {α : Type} (kf : α → κ) (vf : α → ν) (l : List α) :
    ∀ acc : AMap κ ν, (keys acc ++ l.map kf).Nodup →
      l.foldl (fun m e => set m (kf e) (vf e)) acc = acc ++ l.map (fun e => (kf e, vf e)) := by
  induction l with
  | nil => intro acc _; simp
  | cons e t ih =>
    intro acc hn
    have hfresh : kf e ∉ keys acc := by
      intro hm
      rw [List.nodup_append] at hn
      exact hn.2.2 _ hm _ (by simp) rfl
    simp only [List.foldl_cons, List.map_cons]
    rw [set_of_not_mem _ hfresh, ih]
    · simp
    · rw [keys_append]
      simpa [keys] using hn

/-- re-inserting every entry of a duplicate-free map under its own key rebuilds the same list -/
theorem foldl_set_self (m : AMap κ ν) (kf : κ × ν → κ) (vf : κ × ν → ν) (hn : (keys m).Nodup)
    (hk : ∀ e ∈ m, kf e = e.1) (hv : ∀ e ∈ m, vf e = e.2) :
    m.foldl (fun acc e => set acc (kf e) (vf e)) [] = m := by
  rw [foldl_set_eq]
  · simp only [List.nil_append]
    conv => rhs; rw [← List.map_id m]
    apply List.map_congr_left
    intro e he
    rw [hk e he, hv e he]; rfl
  · simp only [keys_nil, List.nil_append]
    have : m.map kf = keys m := List.map_congr_left hk
    rw [this]; exact hn

end AMap

/-! ### the extra well-formedness the round trip needs -/

/-- the well-formedness beyond `Inv` under which `saveLoad` is invisible -/
def Canon (st : St) : Prop := canonB st = true

instance (st : St) : Decidable (Canon st) := inferInstanceAs (Decidable (canonB st = true))

theorem canonB_iff (st : St) : canonB st = true ↔ Canon st := Iff.rfl

structure SessCanon (s : Session) : Prop where
  chans : s.nick = "" → ∀ ch ∈ s.channels, chanToLower ch = ch
  invited : ∀ ch ∈ s.invitedTo, chanToLower ch = ch
  created : 0 < s.created ∨ s.created = (s.id.id : Int)
  lastNonPing : s.lastNonPing ≠ zeroTime ∨ s.lastActivity = zeroTime

theorem sessCanonB_iff (s : Session) : sessCanonB s = true ↔ SessCanon s := by
  unfold sessCanonB
  simp only [Bool.and_eq_true, Bool.or_eq_true, List.all_eq_true, beq_iff_eq, bne_iff_ne, ne_eq,
    decide_eq_true_eq]
  constructor
  · rintro ⟨⟨⟨h1, h2⟩, h3⟩, h4⟩
    refine ⟨fun hn => ?_, h2, h3, h4⟩
    rcases h1 with h1 | h1
    · exact absurd hn h1
    · exact h1
  · rintro ⟨h1, h2, h3, h4⟩
    refine ⟨⟨⟨?_, h2⟩, h3⟩, h4⟩
    by_cases hn : s.nick = ""
    · exact Or.inr (h1 hn)
    · exact Or.inl hn

/-- `Canon` spelled out -/
theorem canon_iff (st : St) : Canon st ↔
    (∀ e ∈ st.sessions, SessCanon e.2) ∧ AMap.get st.nicks "" = none ∧
    (AMap.keys st.svsholds).Nodup ∧ ∀ e ∈ st.svsholds, nickToLower e.1 = e.1 := by
  unfold Canon canonB
  simp only [Bool.and_eq_true, List.all_eq_true, beq_iff_eq, decide_eq_true_eq, Bool.not_eq_true',
    AMap.contains_eq_false_iff, sessCanonB_iff]
  constructor
  · rintro ⟨⟨⟨h1, h2⟩, h3⟩, h4⟩; exact ⟨h1, h2, h3, h4⟩
  · rintro ⟨h1, h2, h3, h4⟩; exact ⟨⟨⟨h1, h2⟩, h3⟩, h4⟩

theorem Canon.sess {st : St} (h : Canon st) {id : Id} {s : Session} (hs : AMap.get st.sessions id = some s) :
    SessCanon s :=
  ((canon_iff st).1 h).1 (id, s) (AMap.mem_of_get hs)

theorem Canon.noEmptyNick {st : St} (h : Canon st) : AMap.get st.nicks "" = none := ((canon_iff st).1 h).2.1
theorem Canon.holdNodup {st : St} (h : Canon st) : (AMap.keys st.svsholds).Nodup := ((canon_iff st).1 h).2.2.1
theorem Canon.holdLower {st : St} (h : Canon st) : ∀ e ∈ st.svsholds, nickToLower e.1 = e.1 := ((canon_iff st).1 h).2.2.2

/-! ### `saveLoad` on a state satisfying `Inv` and `Canon` -/

theorem map_eq_self_of_fixed {α : Type} {f : α → α} {l : List α} (h : ∀ x ∈ l, f x = x) : l.map f = l := by
  conv => rhs; rw [← List.map_id l]
  exact List.map_congr_left h

theorem loadSession_eq_self {s : Session} (h1 : ∀ ch ∈ s.channels, chanToLower ch = ch)
    (h2 : ∀ ch ∈ s.invitedTo, chanToLower ch = ch) (h3 : 0 < s.created ∨ s.created = (s.id.id : Int))
    (h4 : s.lastNonPing ≠ zeroTime ∨ s.lastActivity = zeroTime) (h5 : s.deleted = false) :
    loadSession s = s := by
  have e3 : (if s.created > 0 then s.created else (s.id.id : Int)) = s.created := by
    split
    · rfl
    · rename_i hc; rcases h3 with h3 | h3
      · exact absurd h3 hc
      · exact h3.symm
  have e4 : (if (s.lastNonPing == zeroTime) = true then s.lastActivity else s.lastNonPing) = s.lastNonPing := by
    split
    · rename_i hc
      have hc' : s.lastNonPing = zeroTime := by simpa using hc
      rcases h4 with h4 | h4
      · exact absurd hc' h4
      · rw [h4, hc']
    · rfl
  unfold loadSession
  simp only [map_eq_self_of_fixed h1, map_eq_self_of_fixed h2, e3, e4, ← h5]

/-- under the invariant the channel list of a session with a nickname is lower-cased -/
theorem Inv.sessChans_lower {st : St} (hI : Inv st) {id : Id} {s : Session}
    (hs : AMap.get st.sessions id = some s) (hn : s.nick ≠ "") : ∀ ch ∈ s.channels, chanToLower ch = ch := by
  intro ch hch
  obtain ⟨_, hm⟩ := hI.toWInv.owns_chans hs (hI.noDeleted id s hs) hn
  obtain ⟨c, hc, _⟩ := hm ch hch
  have := (hI.chans ch c hc).1
  rw [← this, chanToLower_idem]

theorem Inv.loadSession_eq {st : St} (hI : Inv st) (hC : Canon st) {id : Id} {s : Session}
    (hs : AMap.get st.sessions id = some s) : loadSession s = s := by
  have hc := hC.sess hs
  refine loadSession_eq_self ?_ hc.invited hc.created hc.lastNonPing (hI.noDeleted id s hs)
  by_cases hn : s.nick = ""
  · exact hc.chans hn
  · exact hI.sessChans_lower hs hn

theorem Inv.get_of_mem {st : St} (hI : Inv st) {e : Id × Session} (he : e ∈ st.sessions) :
    AMap.get st.sessions e.1 = some e.2 :=
  AMap.get_of_mem_nodup hI.sessNodup he

theorem saveLoad_sessions {st : St} (hI : Inv st) (hC : Canon st) :
    (saveLoad st).sessions = st.sessions := by
  show st.sessions.foldl (fun m e => AMap.set m e.2.id (loadSession e.2)) [] = st.sessions
  apply AMap.foldl_set_self st.sessions (fun e => e.2.id) (fun e => loadSession e.2) hI.sessNodup
  · intro e he; exact (hI.sessId _ _ (hI.get_of_mem he)).1
  · intro e he; exact hI.loadSession_eq hC (hI.get_of_mem he)

theorem Inv.loadChannel_eq {st : St} (hI : Inv st) {lc : String} {c : Channel}
    (hc : AMap.get st.channels lc = some c) : loadChannel c = c := by
  have hn := (hI.chans lc c hc).2.1
  have : c.nicks.foldl (fun m e => AMap.set m (nickToLower e.1) e.2) [] = c.nicks := by
    apply AMap.foldl_set_self c.nicks (fun e => nickToLower e.1) (fun e => e.2) hn
    · intro e he
      obtain ⟨id, s, _, _, _, _, h5, _⟩ := hI.toWInvCore.chanMember_live hc (AMap.mem_keys_of_mem he)
      show nickToLower e.1 = e.1
      rw [← h5, nickToLower_idem]
    · intro e _; rfl
  unfold loadChannel
  rw [this]

theorem saveLoad_channels {st : St} (hI : Inv st) : (saveLoad st).channels = st.channels := by
  show st.channels.foldl (fun m e => AMap.set m (chanToLower e.2.name) (loadChannel e.2)) [] = st.channels
  apply AMap.foldl_set_self st.channels (fun e => chanToLower e.2.name) (fun e => loadChannel e.2) hI.chanNodup
  · intro e he; exact (hI.chans _ _ (AMap.get_of_mem_nodup hI.chanNodup he)).1
  · intro e he; exact hI.loadChannel_eq (AMap.get_of_mem_nodup hI.chanNodup he)

theorem saveLoad_svsholds {st : St} (hC : Canon st) : (saveLoad st).svsholds = st.svsholds := by
  show st.svsholds.foldl (fun m e => AMap.set m (nickToLower e.1) e.2) [] = st.svsholds
  exact AMap.foldl_set_self st.svsholds (fun e => nickToLower e.1) (fun e => e.2) hC.holdNodup
    hC.holdLower (fun _ _ => rfl)

/-! ### the rebuilt nick index and server list -/

/-- the nick index as `Unmarshal` rebuilds it from the restored sessions -/
def rebuiltNicks (ss : AMap Id Session) : AMap String Id :=
  ss.foldl (fun m e => if e.2.nick != "" then AMap.set m (nickToLower e.2.nick) e.2.id else m) []

/-- `serverSessions` as `Unmarshal` rebuilds it -/
def rebuiltServers (ss : AMap Id Session) : List Nat := (ss.filter (·.2.server)).map (·.2.id.id)

theorem saveLoad_nicks (st : St) : (saveLoad st).nicks = rebuiltNicks st.sessions := rfl
theorem saveLoad_serverSessions (st : St) : (saveLoad st).serverSessions = rebuiltServers st.sessions := rfl

/-- under the invariant distinct stored sessions carry distinct (lower-cased) nicknames, so the
rebuilt index is the list of the `(lcNick, id)` of the sessions with a nickname, in session order -/
theorem rebuiltNicks_eq {st : St} (hI : Inv st) :
    rebuiltNicks st.sessions =
      (st.sessions.filter fun e => e.2.nick != "").map fun e => (nickToLower e.2.nick, e.2.id) := by
  unfold rebuiltNicks
  rw [← List.foldl_filter (p := fun e : Id × Session => e.2.nick != "")
    (f := fun m e => AMap.set m (nickToLower e.2.nick) e.2.id)]
  rw [AMap.foldl_set_eq (fun e : Id × Session => nickToLower e.2.nick) (fun e => e.2.id)]
  · simp
  · simp only [AMap.keys_nil, List.nil_append]
    have hp : st.sessions.Pairwise (fun a b => a.1 ≠ b.1) := by
      have := hI.sessNodup
      unfold AMap.keys List.Nodup at this
      exact List.pairwise_map.1 this
    unfold List.Nodup
    rw [List.pairwise_map]
    refine List.Pairwise.imp_of_mem ?_ (hp.filter _)
    intro a b ha hb hne heq
    rw [List.mem_filter] at ha hb
    have hna : a.2.nick ≠ "" := by simpa using ha.2
    have hnb : b.2.nick ≠ "" := by simpa using hb.2
    have h1 := hI.owns a.1 a.2 (hI.get_of_mem ha.1) (hI.noDeleted _ _ (hI.get_of_mem ha.1)) hna
    have h2 := hI.owns b.1 b.2 (hI.get_of_mem hb.1) (hI.noDeleted _ _ (hI.get_of_mem hb.1)) hnb
    rw [heq, h2] at h1
    exact hne (Option.some.inj h1).symm

theorem nodup_keys_foldl_set {α κ ν : Type} [DecidableEq κ] (step : AMap κ ν → α → AMap κ ν)
    (hstep : ∀ m e, (AMap.keys m).Nodup → (AMap.keys (step m e)).Nodup) (l : List α) :
    ∀ acc : AMap κ ν, (AMap.keys acc).Nodup → (AMap.keys (l.foldl step acc)).Nodup := by
  induction l with
  | nil => intro acc h; exact h
  | cons e t ih => intro acc h; exact ih _ (hstep _ _ h)

/-- the rebuilt index has no duplicate key (for any session list) -/
theorem nodup_rebuiltNicks (ss : AMap Id Session) : (AMap.keys (rebuiltNicks ss)).Nodup := by
  unfold rebuiltNicks
  apply nodup_keys_foldl_set _ _ ss [] List.nodup_nil
  intro m e h
  split
  · exact AMap.nodup_keys_set _ _ h
  · exact h

/-- the rebuilt index coincides pointwise with the stored one -/
theorem get_rebuiltNicks {st : St} (hI : Inv st) (hC : Canon st) (lc : String) :
    AMap.get (rebuiltNicks st.sessions) lc = AMap.get st.nicks lc := by
  apply Option.ext
  intro id
  rw [AMap.get_iff_mem (nodup_rebuiltNicks _), rebuiltNicks_eq hI, List.mem_map]
  constructor
  · rintro ⟨e, he, heq⟩
    rw [List.mem_filter] at he
    have hne : e.2.nick ≠ "" := by simpa using he.2
    have hg := hI.get_of_mem he.1
    have h1 := hI.owns e.1 e.2 hg (hI.noDeleted _ _ hg) hne
    have h2 := (hI.sessId _ _ hg).1
    obtain ⟨ha, hb⟩ := Prod.mk.inj heq
    rw [← ha, ← hb, h2]; exact h1
  · intro hg
    obtain ⟨s, hs, _, hn⟩ := hI.index lc id hg
    have hne : s.nick ≠ "" := by
      intro h0
      rw [h0, nickToLower_empty] at hn
      rw [← hn, hC.noEmptyNick] at hg
      cases hg
    refine ⟨(id, s), ?_, ?_⟩
    · rw [List.mem_filter]
      exact ⟨AMap.mem_of_get hs, by simpa using hne⟩
    · show (nickToLower s.nick, s.id) = (lc, id)
      rw [hn, (hI.sessId _ _ hs).1]

theorem mem_rebuiltServers {st : St} (hI : Inv st) (n : Nat) :
    n ∈ rebuiltServers st.sessions ↔ ∃ id s, AMap.get st.sessions id = some s ∧ s.server = true ∧ id.id = n := by
  unfold rebuiltServers
  rw [List.mem_map]
  constructor
  · rintro ⟨e, he, heq⟩
    rw [List.mem_filter] at he
    have hg := hI.get_of_mem he.1
    refine ⟨e.1, e.2, hg, he.2, ?_⟩
    rw [← (hI.sessId _ _ hg).1]; exact heq
  · rintro ⟨id, s, hs, hsrv, hid⟩
    refine ⟨(id, s), ?_, ?_⟩
    · rw [List.mem_filter]; exact ⟨AMap.mem_of_get hs, hsrv⟩
    · show s.id.id = n
      rw [(hI.sessId _ _ hs).1]; exact hid

/-- normal form of the round trip: only the order of the nick index and `serverSessions`
(both rebuilt from the sessions) can differ -/
theorem saveLoad_eq {st : St} (hI : Inv st) (hC : Canon st) :
    saveLoad st = { st with nicks := rebuiltNicks st.sessions, serverSessions := rebuiltServers st.sessions } := by
  have h1 := saveLoad_sessions hI hC
  have h2 := saveLoad_channels hI
  have h3 := saveLoad_svsholds hC
  have h4 := saveLoad_nicks st
  have h5 := saveLoad_serverSessions st
  have h6 : (saveLoad st).lastProcessed = st.lastProcessed := rfl
  have h7 : (saveLoad st).serverName = st.serverName := rfl
  have h8 : (saveLoad st).config = st.config := rfl
  generalize saveLoad st = st' at *
  cases st'; cases st
  simp only at h1 h2 h3 h4 h5 h6 h7 h8
  subst h1 h2 h3 h4 h5 h6 h7 h8
  rfl

/-! ### transporting the invariant along pointwise equality of the nick index -/

theorem Inv.of_get_nicks_eq {st st' : St} (h : Inv st) (hs : st'.sessions = st.sessions)
    (hc : st'.channels = st.channels) (hn : ∀ lc, AMap.get st'.nicks lc = AMap.get st.nicks lc)
    (hnd : (AMap.keys st'.nicks).Nodup) : Inv st' := by
  refine ⟨⟨⟨⟨?_, hnd, ?_, ?_, ?_, ?_, ?_⟩, ?_⟩, ?_⟩, ?_⟩
  · rw [hs]; exact h.sessNodup
  · rw [hc]; exact h.chanNodup
  · rw [hs]; exact h.sessId
  · intro id s; rw [hs, hn]; exact h.owns id s
  · intro lc id; rw [hs, hn]; exact h.index lc id
  · intro lc c; rw [hc]
    intro hg
    obtain ⟨a, b, c3⟩ := h.chans lc c hg
    refine ⟨a, b, fun n hm => ?_⟩
    rw [hs, hn]; exact c3 n hm
  · intro lc id s
    rw [hs, hn, hc]; exact h.member lc id s
  · intro lc c; rw [hc]; exact h.nonempty lc c
  · intro id s; rw [hs]; exact h.noDeleted id s
/-! ### a Boolean that implies `Inv` (to exhibit concrete states satisfying the hypotheses) -/

def memberOkB (st : St) (lc : String) (s : Session) : Bool :=
  s.channels.all fun ch => match AMap.get st.channels ch with
    | some c => AMap.contains c.nicks lc
    | none => false

/-- sufficient (and on duplicate-free states necessary) Boolean form of `Inv` -/
def invSuffB (st : St) : Bool :=
  decide (AMap.keys st.sessions).Nodup && decide (AMap.keys st.nicks).Nodup && decide (AMap.keys st.channels).Nodup &&
  (st.sessions.all fun e => e.2.id == e.1 && decide e.2.channels.Nodup && !e.2.deleted &&
    (e.2.nick == "" || AMap.get st.nicks (nickToLower e.2.nick) == some e.1)) &&
  (st.nicks.all fun e => match AMap.get st.sessions e.2 with
    | some s => !s.deleted && nickToLower s.nick == e.1 && memberOkB st e.1 s
    | none => false) &&
  (st.channels.all fun e => chanToLower e.2.name == e.1 && decide (AMap.keys e.2.nicks).Nodup && !e.2.nicks.isEmpty &&
    e.2.nicks.all fun m => match AMap.get st.nicks m.1 with
      | some id => (match AMap.get st.sessions id with
        | some s => s.channels.contains e.1
        | none => false)
      | none => false)

theorem inv_of_invSuffB {st : St} (h : invSuffB st = true) : Inv st := by
  unfold invSuffB at h
  simp only [Bool.and_eq_true, decide_eq_true_eq] at h
  obtain ⟨⟨⟨⟨⟨n1, n2⟩, n3⟩, hs⟩, hn⟩, hc⟩ := h
  rw [AMap.all_iff_get n1] at hs
  rw [AMap.all_iff_get n2] at hn
  rw [AMap.all_iff_get n3] at hc
  have hs' : ∀ id s, AMap.get st.sessions id = some s → s.id = id ∧ s.channels.Nodup ∧ s.deleted = false ∧
      (s.nick = "" ∨ AMap.get st.nicks (nickToLower s.nick) = some id) := by
    intro id s hg
    have := hs id s hg
    simpa [and_assoc] using this
  have hn' : ∀ lc id, AMap.get st.nicks lc = some id → ∃ s, AMap.get st.sessions id = some s ∧
      s.deleted = false ∧ nickToLower s.nick = lc ∧ memberOkB st lc s = true := by
    intro lc id hg
    have := hn lc id hg
    simp only at this
    split at this
    · rename_i s hs0
      refine ⟨s, hs0, ?_⟩
      simpa [and_assoc] using this
    · cases this
  refine ⟨⟨⟨⟨n1, n2, n3, ?_, ?_, ?_, ?_⟩, ?_⟩, ?_⟩, ?_⟩
  · intro id s hg; exact ⟨(hs' id s hg).1, (hs' id s hg).2.1⟩
  · intro id s hg _ hne
    rcases (hs' id s hg).2.2.2 with h0 | h0
    · exact absurd h0 hne
    · exact h0
  · intro lc id hg
    obtain ⟨s, a, b, c, _⟩ := hn' lc id hg
    exact ⟨s, a, b, c⟩
  · intro lc c hg
    have := hc lc c hg
    simp only [Bool.and_eq_true, beq_iff_eq, decide_eq_true_eq, List.all_eq_true] at this
    obtain ⟨⟨⟨c1, c2⟩, _⟩, c4⟩ := this
    refine ⟨c1, c2, fun n hm => ?_⟩
    obtain ⟨e, he, rfl⟩ := List.mem_map.1 hm
    have := c4 e he
    split at this
    · rename_i id hid
      split at this
      · rename_i s hs0
        exact ⟨id, s, hid, hs0, by simpa using this⟩
      · cases this
    · cases this
  · intro lc id s hg hs0 ch hch
    obtain ⟨s', a, _, _, d⟩ := hn' lc id hg
    rw [hs0] at a; cases a
    unfold memberOkB at d
    rw [List.all_eq_true] at d
    have := d ch hch
    split at this
    · rename_i c hc0; exact ⟨c, hc0, this⟩
    · cases this
  · intro lc c hg
    have := hc lc c hg
    simp only [Bool.and_eq_true, beq_iff_eq, decide_eq_true_eq] at this
    intro h0
    rw [h0] at this
    simp at this
  · intro id s hg; exact (hs' id s hg).2.2.1

end Robust.Irc
