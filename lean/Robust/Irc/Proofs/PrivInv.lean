import Robust.Irc.Proofs.PrivMode
/-!
The two notions of "being on a channel" coincide on states satisfying the invariant: the handlers
`cmdTopic` and `cmdMode` test the session's channel list, `cmdKick`/`cmdInvite` the channel's
member map.  Variants of the refusal frames stated on the member map.
-/
namespace Robust.Irc
open Robust AMap

/-- a live session with a nickname lists a channel iff the channel has a member entry for its nick -/
theorem listed_iff_member {st : St} (h : WInv st) {id : Id} {s : Session} {lc : String}
    (hs : AMap.get st.sessions id = some s) (hl : s.deleted = false) (hn : s.nick ≠ "") :
    s.channels.contains lc = true ↔ memberOf st s.nick lc ≠ none := by
  unfold memberOf
  constructor
  · intro hc
    obtain ⟨ch, mem, h1, h2⟩ := h.listed_member hs hl hn (List.contains_iff_mem.1 hc)
    rw [h1]
    dsimp only
    rw [h2]
    exact fun e => by cases e
  · intro hm
    split at hm
    · rename_i ch hch
      cases hg : AMap.get ch.nicks (nickToLower s.nick) with
      | none => exact absurd hg hm
      | some mem =>
        obtain ⟨_, _, hall⟩ := h.chans lc ch hch
        obtain ⟨id', s', h1, h2, h3⟩ := hall _ (AMap.mem_keys_of_get hg)
        have := h.owns id s hs hl hn
        rw [this] at h1
        cases h1
        rw [hs] at h2
        cases h2
        exact List.contains_iff_mem.2 h3
    · exact absurd rfl hm

/-- TOPIC (set or clear) by a session that is not a member of the channel -/
theorem cmdTopic_refused_notMember {c c' : Ctx} {sid : Id} {m : IrcMsg} {s : Session} {chn : String}
    (hw : WInv c.st) (hs : AMap.get c.st.sessions sid = some s) (hl : s.deleted = false) (hn : s.nick ≠ "")
    (hp0 : m.params[0]? = some chn)
    (hnot : memberOf c.st s.nick (chanToLower chn) = none)
    (hr : cmdTopic c sid m = .ok c') : Refused c c' sid := by
  refine cmdTopic_refused_notOn hs hp0 ?_ hr
  cases hc : s.channels.contains (chanToLower chn) with
  | false => rfl
  | true => exact absurd hnot ((listed_iff_member hw hs hl hn).1 hc)

/-- MODE on a channel by a session that is neither channel operator there (member without the flag,
or not a member at all) nor IRC operator: no channel changes; and nothing at all changes unless the
target string happens to be the actor's own nickname (then it is a user-mode change) -/
theorem cmdMode_channels_unchanged {c c' : Ctx} {sid : Id} {m : IrcMsg} {s : Session} {chn : String}
    (hs : AMap.get c.st.sessions sid = some s) (hp0 : m.params[0]? = some chn)
    (hnop : chanOpOf c.st s.nick (chanToLower chn) = false) (hno : s.operator = false)
    (hr : cmdMode c sid m = .ok c') : c'.st.channels = c.st.channels := by
  cases hon : s.channels.contains (chanToLower chn) with
  | true => rw [(cmdMode_refused hs hp0 hon hnop hno hr).st]
  | false => exact cmdMode_notOn_channels hs hp0 hon hr

end Robust.Irc
