import Robust.Irc.Proofs.Priv
/-!
Refusal frame of `MODE` on a channel target (property C13): an actor that is neither channel
operator of the channel nor IRC operator changes nothing — whatever the mode string: every letter
of a multi-letter mode string, with or without parameters, `+b`/`-b` with a mask; only the ban-list
query (`+b` without a mask) is answered, to the actor.
-/
namespace Robust.Irc
open Robust AMap

/-- one mode change without the privilege: either refused with 482 (`ret = true`: the loop stops) or
the ban-list query (`queryOnly` is passed through) -/
theorem applyChanMode_refused {c c' : Ctx} {sid : Id} {s : Session} {lc chn : String} {q q' ret : Bool}
    {mc : ModeCmd} (hr : applyChanMode c sid s lc chn false mc q = .ok (c', q', ret)) :
    Refused c c' sid ∧ (ret = true ∨ q' = q) := by
  unfold applyChanMode at hr
  simp only [getChan_eq] at hr
  split at hr
  · split at hr
    · simp only [Bool.not_false, ↓reduceIte, Res.pure_eq, Res.ok.injEq, Prod.mk.injEq] at hr
      obtain ⟨rfl, _, rfl⟩ := hr
      exact ⟨by refused_tac, Or.inl rfl⟩
    · simp only [Res.pure_eq, Res.ok.injEq, Prod.mk.injEq] at hr
      obtain ⟨rfl, rfl, rfl⟩ := hr
      refine ⟨?_, Or.inr rfl⟩
      apply Refused.sendUser
      exact Refused.foldl _ (fun c1 p h1 => h1.sendUser _) (Refused.refl _ _)
  · cases hr

/-- the whole mode string without the privilege -/
theorem applyChanModes_refused {c0 : Ctx} {sid : Id} {s : Session} {lc chn : String} :
    ∀ (l : List ModeCmd) {c c' : Ctx} {q q' ret : Bool}, Refused c0 c sid →
      applyChanModes c sid s lc chn false l q = .ok (c', q', ret) →
      Refused c0 c' sid ∧ (ret = true ∨ q' = q)
  | [], c, c', q, q', ret, hI, hr => by
    unfold applyChanModes at hr
    simp only [Res.ok.injEq, Prod.mk.injEq] at hr
    obtain ⟨rfl, rfl, rfl⟩ := hr
    exact ⟨hI, Or.inr rfl⟩
  | mc :: rest, c, c', q, q', ret, hI, hr => by
    unfold applyChanModes at hr
    obtain ⟨⟨c1, q1, r1⟩, h1, hr⟩ := Res.bind_eq_ok.1 hr
    obtain ⟨hR1, hq1⟩ := applyChanMode_refused h1
    dsimp only at hr
    split at hr
    · rename_i hret
      simp only [Res.pure_eq, Res.ok.injEq, Prod.mk.injEq] at hr
      obtain ⟨rfl, rfl, rfl⟩ := hr
      exact ⟨hI.trans hR1, Or.inl rfl⟩
    · rename_i hret
      obtain ⟨hR2, hq2⟩ := applyChanModes_refused rest (hI.trans hR1) hr
      refine ⟨hR2, ?_⟩
      rcases hq2 with h | h
      · exact Or.inl h
      · rcases hq1 with h' | h'
        · exact absurd h' hret
        · exact Or.inr (h.trans h')

/-- MODE on a channel the actor is on, actor neither channel operator there nor IRC operator:
state unchanged (modes, key, ban list, member flags, …), output to the actor only -/
theorem cmdMode_refused {c c' : Ctx} {sid : Id} {m : IrcMsg} {s : Session} {chn : String}
    (hs : AMap.get c.st.sessions sid = some s) (hp0 : m.params[0]? = some chn)
    (hon : s.channels.contains (chanToLower chn) = true)
    (hnop : chanOpOf c.st s.nick (chanToLower chn) = false) (hno : s.operator = false)
    (hr : cmdMode c sid m = .ok c') : Refused c c' sid := by
  unfold cmdMode at hr
  rw [getS_of_get hs] at hr
  simp only [Res.ok_bind, param, hp0, hon, ↓reduceIte, getChan_eq] at hr
  split at hr
  · rename_i ch hch
    split at hr
    · cases hr; refused_tac
    · split at hr
      · rename_i mem hmem
        have hop := chanOpOf_false_of_get hnop hch hmem
        simp only [hop, hno, Bool.or_self] at hr
        obtain ⟨⟨c1, q1, r1⟩, h1, hr⟩ := Res.bind_eq_ok.1 hr
        obtain ⟨hR, hq⟩ := applyChanModes_refused _ (Refused.refl c sid) h1
        dsimp only at hr
        split at hr
        · cases hr; exact hR
        · rename_i hret
          have hq1 : q1 = true := by
            rcases hq with h | h
            · exact absurd h hret
            · exact h
          simp only [hq1, ↓reduceIte] at hr
          cases hr; exact hR
      · cases hr
  · cases hr

/-- MODE naming a channel the actor is not on: the handler falls through to the user-mode branch,
which never touches a channel -/
theorem cmdMode_notOn_channels {c c' : Ctx} {sid : Id} {m : IrcMsg} {s : Session} {chn : String}
    (hs : AMap.get c.st.sessions sid = some s) (hp0 : m.params[0]? = some chn)
    (hon : s.channels.contains (chanToLower chn) = false)
    (hr : cmdMode c sid m = .ok c') : c'.st.channels = c.st.channels := by
  unfold cmdMode at hr
  rw [getS_of_get hs] at hr
  simp only [Res.ok_bind, param, hp0, hon, Bool.false_eq_true, ↓reduceIte] at hr
  split at hr
  · obtain ⟨t, _, hr⟩ := Res.bind_eq_ok.1 hr
    split at hr
    · cases hr; rfl
    · split at hr
      · cases hr; rfl
      · obtain ⟨c1, h1, hr⟩ := Res.bind_eq_ok.1 hr
        obtain ⟨t0, _, rfl⟩ := modS_eq_ok.1 h1
        cases hr; rfl
  · cases hr; rfl

/-- … and if the name is not the actor's own nick, a non-operator changes nothing at all -/
theorem cmdMode_notOn_refused {c c' : Ctx} {sid : Id} {m : IrcMsg} {s : Session} {chn : String}
    (hs : AMap.get c.st.sessions sid = some s) (hp0 : m.params[0]? = some chn)
    (hon : s.channels.contains (chanToLower chn) = false)
    (hne : nickToLower chn ≠ nickToLower s.nick) (hno : s.operator = false)
    (hr : cmdMode c sid m = .ok c') : Refused c c' sid := by
  unfold cmdMode at hr
  rw [getS_of_get hs] at hr
  simp only [Res.ok_bind, param, hp0, hon, Bool.false_eq_true, ↓reduceIte] at hr
  split at hr
  · obtain ⟨t, _, hr⟩ := Res.bind_eq_ok.1 hr
    have : (nickToLower chn != nickToLower s.nick && !s.operator) = true := by
      simp [hne, hno]
    simp only [this, ↓reduceIte] at hr
    cases hr; refused_tac
  · cases hr; refused_tac

end Robust.Irc
