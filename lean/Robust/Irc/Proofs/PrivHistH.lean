import Robust.Irc.Proofs.PrivHist
import Robust.Irc.Proofs.H1
import Robust.Irc.Proofs.H3
/-!
`OpsLe` for the client handlers (see `PrivHist.lean`): unconditional for everything that only
removes members or does not touch channels, conditional for `MODE` (actor neither chanop of `lc`
nor IRC operator) and `JOIN` (`lc` exists already).
-/
namespace Robust.Irc
open Robust AMap

/-- `lc` is a stored channel -/
def ChanEx (lc : String) (c : Ctx) : Prop := (AMap.get c.st.channels lc).isSome = true

theorem ChanEx.of_eq {lc : String} {c c' : Ctx} (h : ChanEx lc c) (e : c'.st.channels = c.st.channels) : ChanEx lc c' := by
  unfold ChanEx; rw [e]; exact h

theorem ChanEx.putChan {lc : String} {c : Ctx} (h : ChanEx lc c) (lc' : String) (ch' : Channel) :
    ChanEx lc (putChan c lc' ch') := by
  unfold ChanEx at *
  rw [putChan_channels, AMap.get_set]
  split
  · rfl
  · exact h

theorem ChanEx.modS {lc : String} {c c' : Ctx} {sid : Id} {f : Session → Session} (h : ChanEx lc c)
    (hr : modS c sid f = .ok c') : ChanEx lc c' := by
  obtain ⟨s, _, rfl⟩ := modS_eq_ok.1 hr
  exact h.of_eq rfl

theorem ChanEx.of_emits {lc : String} {c c' : Ctx} (h : ChanEx lc c) (e : Emits c c') : ChanEx lc c' :=
  h.of_eq (by rw [e.st])

/-! ### handlers that satisfy `OpsLe` for every channel -/

/-- unconditional: the handler never sets a chanop flag -/
def OpsAll (h : Ctx → Id → IrcMsg → Res Ctx) : Prop :=
  ∀ c sid m c' lc, h c sid m = .ok c' → OpsLe lc c c'

theorem OpsAll.of_emits {h : Ctx → Id → IrcMsg → Res Ctx}
    (he : ∀ {c c' : Ctx} {sid : Id} {m : IrcMsg}, h c sid m = .ok c' → Emits c c') : OpsAll h :=
  fun c _ _ _ lc hr => (OpsLe.refl lc c).of_emits (he hr)

theorem foldlM_opsLe {α : Type} {lc : String} {c0 : Ctx} (f : Ctx → α → Res Ctx) :
    ∀ (l : List α) {c c' : Ctx}, (∀ c a c', OpsLe lc c0 c → f c a = .ok c' → OpsLe lc c0 c') →
      OpsLe lc c0 c → l.foldlM f c = .ok c' → OpsLe lc c0 c'
  | [], c, c', _, h, hr => by cases hr; exact h
  | a :: t, c, c', hf, h, hr => by
    rw [List.foldlM_cons] at hr
    obtain ⟨c1, h1, hr⟩ := Res.bind_eq_ok.1 hr
    exact foldlM_opsLe f t hf (hf c a c1 h h1) hr

theorem cmdMotd_emits {c c' : Ctx} {sid : Id} {m : IrcMsg} (hr : cmdMotd c sid m = .ok c') : Emits c c' := by
  unfold cmdMotd at hr
  obtain ⟨s, _, hr⟩ := Res.bind_eq_ok.1 hr
  cases hr; emits_tac

theorem cmdAway_ops : OpsAll cmdAway := by
  intro c sid m c' lc hr
  unfold cmdAway at hr
  obtain ⟨c1, h1, hr⟩ := Res.bind_eq_ok.1 hr
  obtain ⟨s, _, hr⟩ := Res.bind_eq_ok.1 hr
  have := (OpsLe.refl lc c).modS h1
  split at hr <;> (cases hr; opsle_tac)

theorem cmdInvite_ops : OpsAll cmdInvite := by
  intro c sid m c' lc hr
  unfold cmdInvite at hr
  obtain ⟨s, _, hr⟩ := Res.bind_eq_ok.1 hr
  obtain ⟨p0, _, hr⟩ := Res.bind_eq_ok.1 hr
  obtain ⟨p1, _, hr⟩ := Res.bind_eq_ok.1 hr
  dsimp only at hr
  split at hr
  · cases hr; opsle_tac
  · split at hr
    · cases hr; opsle_tac
    · split at hr
      · cases hr; opsle_tac
      · obtain ⟨t, _, hr⟩ := Res.bind_eq_ok.1 hr
        split at hr
        · cases hr; opsle_tac
        · split at hr
          · cases hr; opsle_tac
          · obtain ⟨c1, h1, hr⟩ := Res.bind_eq_ok.1 hr
            obtain ⟨rc, _, hr⟩ := Res.bind_eq_ok.1 hr
            have := (OpsLe.refl lc c).modS h1
            split at hr <;> (cases hr; opsle_tac)

theorem cmdTopic_ops : OpsAll cmdTopic := by
  intro c sid m c' lc hr
  unfold cmdTopic at hr
  obtain ⟨s, _, hr⟩ := Res.bind_eq_ok.1 hr
  obtain ⟨p0, _, hr⟩ := Res.bind_eq_ok.1 hr
  simp only [getChan_eq] at hr
  split at hr
  · cases hr; opsle_tac
  · rename_i ch hch
    have hput : ∀ (tn : String) (tt : Int) (tp : String),
        OpsLe lc c (putChan c (chanToLower p0) { ch with topicNick := tn, topicTime := tt, topic := tp }) :=
      fun tn tt tp => (OpsLe.refl lc c).putChan_le hch (fun n hn => hn)
    split at hr
    · cases hr; opsle_tac
    · split at hr
      · split at hr
        · obtain ⟨op, _, hr⟩ := Res.bind_eq_ok.1 hr
          split at hr
          · cases hr; opsle_tac
          · obtain ⟨rc, _, hr⟩ := Res.bind_eq_ok.1 hr
            cases hr
            have := hput "" zeroTime ""
            opsle_tac
        · obtain ⟨rc, _, hr⟩ := Res.bind_eq_ok.1 hr
          cases hr
          have := hput "" zeroTime ""
          opsle_tac
      · split at hr
        · split at hr <;> (cases hr; opsle_tac)
        · split at hr
          · obtain ⟨op, _, hr⟩ := Res.bind_eq_ok.1 hr
            split at hr
            · cases hr; opsle_tac
            · obtain ⟨rc, _, hr⟩ := Res.bind_eq_ok.1 hr
              cases hr
              have := hput s.nick s.lastActivity m.trailing
              opsle_tac
          · obtain ⟨rc, _, hr⟩ := Res.bind_eq_ok.1 hr
            cases hr
            have := hput s.nick s.lastActivity m.trailing
            opsle_tac

theorem cmdKick_ops : OpsAll cmdKick := by
  intro c sid m c' lc hr
  unfold cmdKick at hr
  obtain ⟨s, _, hr⟩ := Res.bind_eq_ok.1 hr
  obtain ⟨chn, _, hr⟩ := Res.bind_eq_ok.1 hr
  obtain ⟨target, _, hr⟩ := Res.bind_eq_ok.1 hr
  simp only [getChan_eq] at hr
  split at hr
  · cases hr; opsle_tac
  · split at hr
    · cases hr; opsle_tac
    · split at hr
      · cases hr; opsle_tac
      · split at hr
        · cases hr; opsle_tac
        · split at hr
          · obtain ⟨rc, _, hr⟩ := Res.bind_eq_ok.1 hr
            exact ((OpsLe.refl lc c).emit _ _).leaveChannel hr
          · cases hr

theorem partOne_ops {lc : String} {c0 c c' : Ctx} {sid : Id} {chn : String} (h : OpsLe lc c0 c)
    (hr : partOne c sid chn = .ok c') : OpsLe lc c0 c' := by
  unfold partOne at hr
  obtain ⟨s, _, hr⟩ := Res.bind_eq_ok.1 hr
  simp only [getChan_eq] at hr
  split at hr
  · cases hr; opsle_tac
  · split at hr
    · cases hr; opsle_tac
    · obtain ⟨rc, _, hr⟩ := Res.bind_eq_ok.1 hr
      exact (h.emit _ _).leaveChannel hr

theorem cmdPart_ops : OpsAll cmdPart := by
  intro c sid m c' lc hr
  unfold cmdPart at hr
  obtain ⟨p0, _, hr⟩ := Res.bind_eq_ok.1 hr
  exact foldlM_opsLe _ _ (fun c1 a c2 h1 h2 => partOne_ops h1 h2) (OpsLe.refl lc c) hr

theorem cmdQuit_ops : OpsAll cmdQuit := by
  intro c sid m c' lc hr
  unfold cmdQuit at hr
  obtain ⟨c1, h1, hr⟩ := Res.bind_eq_ok.1 hr
  obtain ⟨s, _, hr⟩ := Res.bind_eq_ok.1 hr
  have := (OpsLe.refl lc c).deleteSession h1
  split at hr
  · obtain ⟨rc, _, hr⟩ := Res.bind_eq_ok.1 hr
    cases hr; opsle_tac
  · cases hr; opsle_tac

theorem cmdKill_ops' {lc : String} {c0 c c' : Ctx} {sid : Id} {m : IrcMsg} (h : OpsLe lc c0 c)
    (hr : cmdKill c sid m = .ok c') : OpsLe lc c0 c' := by
  unfold cmdKill at hr
  obtain ⟨s, _, hr⟩ := Res.bind_eq_ok.1 hr
  split at hr
  · cases hr; opsle_tac
  · obtain ⟨p0, _, hr⟩ := Res.bind_eq_ok.1 hr
    split at hr
    · cases hr; opsle_tac
    · obtain ⟨c1, h1, hr⟩ := Res.bind_eq_ok.1 hr
      obtain ⟨t1, _, hr⟩ := Res.bind_eq_ok.1 hr
      obtain ⟨s2, _, hr⟩ := Res.bind_eq_ok.1 hr
      obtain ⟨rc, _, hr⟩ := Res.bind_eq_ok.1 hr
      have := h.deleteSession h1
      cases hr; opsle_tac

theorem cmdKill_ops : OpsAll cmdKill := fun c _ _ _ lc hr => cmdKill_ops' (OpsLe.refl lc c) hr

theorem cmdGline_ops : OpsAll cmdGline := by
  intro c sid m c' lc hr
  unfold cmdGline at hr
  obtain ⟨s, _, hr⟩ := Res.bind_eq_ok.1 hr
  split at hr
  · cases hr; opsle_tac
  · obtain ⟨p0, _, hr⟩ := Res.bind_eq_ok.1 hr
    split at hr
    · cases hr; opsle_tac
    · obtain ⟨t, _, hr⟩ := Res.bind_eq_ok.1 hr
      split at hr
      · cases hr; opsle_tac
      · dsimp only at hr
        refine cmdKill_ops' ?_ hr
        exact (OpsLe.refl lc c).of_eq rfl

theorem cmdOper_ops' {lc : String} {c0 c c' : Ctx} {sid : Id} {m : IrcMsg} (h : OpsLe lc c0 c)
    (hr : cmdOper c sid m = .ok c') : OpsLe lc c0 c' := by
  unfold cmdOper at hr
  obtain ⟨s, _, hr⟩ := Res.bind_eq_ok.1 hr
  obtain ⟨p0, _, hr⟩ := Res.bind_eq_ok.1 hr
  obtain ⟨p1, _, hr⟩ := Res.bind_eq_ok.1 hr
  split at hr
  · cases hr; opsle_tac
  · obtain ⟨c1, h1, hr⟩ := Res.bind_eq_ok.1 hr
    obtain ⟨s1, _, hr⟩ := Res.bind_eq_ok.1 hr
    have := h.modS h1
    cases hr; opsle_tac

theorem cmdOper_ops : OpsAll cmdOper := fun c _ _ _ lc hr => cmdOper_ops' (OpsLe.refl lc c) hr

theorem maybeLogin_ops' {lc : String} {c0 c c' : Ctx} {sid : Id} {m : IrcMsg} (h : OpsLe lc c0 c)
    (hr : maybeLogin c sid m = .ok c') : OpsLe lc c0 c' := by
  rw [maybeLogin_eq] at hr
  obtain ⟨s, _, hr⟩ := Res.bind_eq_ok.1 hr
  split at hr
  · cases hr; exact h
  · split at hr
    · cases hr; exact h
    · split at hr
      · cases hr
      · obtain ⟨c1, h1, hr⟩ := Res.bind_eq_ok.1 hr
        obtain ⟨c2, h2, hr⟩ := Res.bind_eq_ok.1 hr
        obtain ⟨c3, h3, hr⟩ := Res.bind_eq_ok.1 hr
        have o1 : OpsLe lc c0 (loginBanner c1 sid s) := (h.modS h1).of_eq (by rw [loginBanner_st])
        have o2 : OpsLe lc c0 c2 := by
          unfold loginOper at h2
          dsimp only at h2
          split at h2
          · split at h2
            · cases h2
            · split at h2
              · exact cmdOper_ops' o1 h2
              · cases h2; exact o1
          · cases h2; exact o1
        exact (o2.modS h3).of_emits (cmdMotd_emits hr)

theorem cmdUser_ops : OpsAll cmdUser := by
  intro c sid m c' lc hr
  unfold cmdUser at hr
  obtain ⟨u, _, hr⟩ := Res.bind_eq_ok.1 hr
  obtain ⟨c1, h1, hr⟩ := Res.bind_eq_ok.1 hr
  exact maybeLogin_ops' ((OpsLe.refl lc c).modS h1) hr

theorem cmdPass_ops : OpsAll cmdPass := by
  intro c sid m c' lc hr
  unfold cmdPass at hr
  obtain ⟨c1, h1, hr⟩ := Res.bind_eq_ok.1 hr
  exact maybeLogin_ops' ((OpsLe.refl lc c).modS h1) hr

theorem cmdServer_ops : OpsAll cmdServer := by
  intro c sid m c' lc hr
  rw [cmdServer_eq] at hr
  obtain ⟨s, _, hr⟩ := Res.bind_eq_ok.1 hr
  split at hr
  · cases hr; opsle_tac
  · obtain ⟨p0, _, hr⟩ := Res.bind_eq_ok.1 hr
    obtain ⟨c1, hm, hr⟩ := Res.bind_eq_ok.1 hr
    dsimp only at hr
    have he := foldlM_emits _ _ (fun _ _ _ _ h => serverBurstNick_emits h) _ _ hr
    exact ((OpsLe.refl lc c).modS hm).of_eq (by rw [he.st]; rfl)

end Robust.Irc
