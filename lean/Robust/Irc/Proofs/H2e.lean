import Robust.Irc.Proofs.H2Base
/-! MODE -/
namespace Robust.Irc
open Rd
open AMap

/-! ### bans -/

theorem resolveSessionToRemoteAddr_noPanic (st : St) (pattern : String) :
    NoPanic (resolveSessionToRemoteAddr st pattern) := by
  unfold resolveSessionToRemoteAddr
  nopanic_tac

theorem banOne_noPanic (ch : Channel) (add : Bool) (banmask pattern : String) :
    NoPanic (banOne ch add banmask pattern) := by
  unfold banOne
  nopanic_tac

theorem banOne_core {ch ch' : Channel} {add : Bool} {banmask pattern : String}
    (h : banOne ch add banmask pattern = .ok ch') : ch'.name = ch.name ∧ ch'.nicks = ch.nicks := by
  unfold banOne at h
  split at h
  · cases h
  · split at h <;> (cases h; exact ⟨rfl, rfl⟩)

theorem banBoth_noPanic (ch : Channel) (add : Bool) (banmask pattern patternAddr : String) :
    NoPanic (banBoth ch add banmask pattern patternAddr) := by
  unfold banBoth
  refine NoPanic.bind (banOne_noPanic _ _ _ _) fun ch1 _ => ?_
  split
  · exact banOne_noPanic _ _ _ _
  · exact NoPanic.ok _

theorem banBoth_core {ch ch' : Channel} {add : Bool} {banmask pattern patternAddr : String}
    (h : banBoth ch add banmask pattern patternAddr = .ok ch') : ch'.name = ch.name ∧ ch'.nicks = ch.nicks := by
  unfold banBoth at h
  obtain ⟨ch1, h1, h⟩ := Res.bind_eq_ok.1 h
  obtain ⟨e1, e2⟩ := banOne_core h1
  split at h
  · obtain ⟨e3, e4⟩ := banOne_core h
    exact ⟨e3.trans e1, e4.trans e2⟩
  · cases h; exact ⟨e1, e2⟩

/-! ### one mode change -/

theorem applyChanMode_inert {c0 c c' : Ctx} {sid : Id} {s : Session} {lc chn : String} {op q q' ret : Bool}
    {mc : ModeCmd} (hw : WInvCore c0.st) (hI : Inert c0 c)
    (hr : applyChanMode c sid s lc chn op mc q = .ok (c', q', ret)) : Inert c0 c' := by
  unfold applyChanMode at hr
  simp only [getChan_eq] at hr
  split at hr
  · rename_i ch hch
    split at hr
    · split at hr
      · cases hr; inert_tac'
      · split at hr
        · cases hr; inert_tac'
        · split at hr
          · -- k
            split at hr
            · split at hr
              · cases hr; inert_tac'
              · split at hr
                · cases hr; inert_tac'
                · cases hr
            · cases hr; inert_tac'
          · split at hr
            · -- x
              split at hr <;> (cases hr; inert_tac')
            · split at hr
              · -- o
                split at hr
                · cases hr; inert_tac'
                · rename_i perms hperms
                  split at hr
                  · cases hr
                    exact hI.putChan hw hch rfl (keys_setMember _ hperms)
                  · cases hr; inert_tac'
              · split at hr
                · -- b
                  obtain ⟨pa, _, hr⟩ := Res.bind_eq_ok.1 hr
                  obtain ⟨ch', hb, hr⟩ := Res.bind_eq_ok.1 hr
                  cases hr
                  obtain ⟨e1, e2⟩ := banBoth_core hb
                  exact hI.putChan hw hch e1 (by rw [e2])
                · cases hr; inert_tac'
    · cases hr
      apply Inert.sendUser
      exact Inert.foldl _ (fun c1 p h1 => h1.sendUser _ _) hI
  · cases hr

theorem applyChanMode_noPanic {c : Ctx} {sid : Id} {s : Session} {lc chn : String} {op q : Bool}
    {mc : ModeCmd} {ch : Channel} (hch : AMap.get c.st.channels lc = some ch) :
    NoPanic (applyChanMode c sid s lc chn op mc q) := by
  unfold applyChanMode
  simp only [getChan_eq, hch, sendUser_st, putChan_channels, AMap.get_set_same]
  split
  · split
    · exact NoPanic.pure _
    · split
      · exact NoPanic.pure _
      · split
        · nopanic_tac
        · split
          · nopanic_tac
          · split
            · nopanic_tac
            · split
              · refine NoPanic.bind (resolveSessionToRemoteAddr_noPanic _ _) fun _ _ => ?_
                refine NoPanic.bind (banBoth_noPanic _ _ _ _ _) fun _ _ => ?_
                exact NoPanic.pure _
              · exact NoPanic.pure _
  · exact NoPanic.pure _

/-! ### the loop -/

theorem applyChanModes_inert {c0 : Ctx} {sid : Id} {s : Session} {lc chn : String} {op : Bool}
    (hw : WInvCore c0.st) : ∀ (l : List ModeCmd) {c c' : Ctx} {q q' ret : Bool}, Inert c0 c →
      applyChanModes c sid s lc chn op l q = .ok (c', q', ret) → Inert c0 c'
  | [], c, c', q, q', ret, hI, hr => by
    unfold applyChanModes at hr
    cases hr; exact hI
  | mc :: rest, c, c', q, q', ret, hI, hr => by
    unfold applyChanModes at hr
    obtain ⟨⟨c1, q1, r1⟩, h1, hr⟩ := Res.bind_eq_ok.1 hr
    have hI1 := applyChanMode_inert hw hI h1
    dsimp only at hr
    split at hr
    · cases hr; exact hI1
    · exact applyChanModes_inert hw rest hI1 hr

theorem applyChanModes_noPanic {c0 : Ctx} {sid : Id} {s : Session} {lc chn : String} {op : Bool} {ch0 : Channel}
    (hw : WInvCore c0.st) (hch0 : AMap.get c0.st.channels lc = some ch0) :
    ∀ (l : List ModeCmd) {c : Ctx} {q : Bool}, Inert c0 c → NoPanic (applyChanModes c sid s lc chn op l q)
  | [], c, q, hI => by
    unfold applyChanModes
    exact NoPanic.ok _
  | mc :: rest, c, q, hI => by
    unfold applyChanModes
    obtain ⟨ch, hch, _⟩ := hI.getChan hch0
    refine NoPanic.bind (applyChanMode_noPanic hch) fun r h1 => ?_
    obtain ⟨c1, q1, r1⟩ := r
    have hI1 := applyChanMode_inert hw hI h1
    dsimp only
    split
    · exact NoPanic.pure _
    · exact applyChanModes_noPanic hw hch0 rest hI1

/-! ### MODE -/

theorem cmdMode_inert {c c' : Ctx} {sid : Id} {m : IrcMsg} (hw : WInvCore c.st)
    (hr : cmdMode c sid m = .ok c') : Inert c c' := by
  unfold cmdMode at hr
  simp only [getChan_eq, Res.panic_bind] at hr
  obtain ⟨s, hs, hr⟩ := Res.bind_eq_ok.1 hr
  obtain ⟨chn, _, hr⟩ := Res.bind_eq_ok.1 hr
  split at hr
  · -- channel modes
    split at hr
    · rename_i ch hch
      split at hr
      · cases hr; inert_tac
      · split at hr
        · rename_i mem hmem
          obtain ⟨⟨c1, q1, r1⟩, h1, hr⟩ := Res.bind_eq_ok.1 hr
          have hI := applyChanModes_inert hw _ (Inert.refl hw) h1
          dsimp only at hr
          split at hr
          · cases hr; exact hI
          split at hr
          · cases hr; exact hI
          split at hr
          · cases hr; exact hI
          split at hr
          · obtain ⟨rc, _, hr⟩ := Res.bind_eq_ok.1 hr
            cases hr; exact hI.emit _ _
          · cases hr
        · cases hr
    · cases hr
  · -- user modes
    split at hr
    · obtain ⟨t, ht, hr⟩ := Res.bind_eq_ok.1 hr
      split at hr
      · cases hr; inert_tac
      · split at hr
        · cases hr; inert_tac
        · obtain ⟨c1, h1, hr⟩ := Res.bind_eq_ok.1 hr
          cases hr
          exact ((Inert.refl hw).modS hw h1 (fun _ => ⟨rfl, rfl, rfl, rfl⟩) (fun _ => ⟨rfl, rfl⟩)).emit _ _
    · cases hr; inert_tac

theorem cmdMode_preserves : Preserves cmdMode := Preserves.of_inert fun _ _ _ _ => cmdMode_inert

/-- MODE (any form) cannot panic for a stored live session with a nickname -/
theorem cmdMode_noPanic {c : Ctx} {sid : Id} {s : Session} {m : IrcMsg} (hw : WInv c.st)
    (hs : AMap.get c.st.sessions sid = some s) (hlive : s.deleted = false) (hnick : s.nick ≠ "")
    (hn : 1 ≤ m.params.length) : NoPanic (cmdMode c sid m) := by
  unfold cmdMode
  rw [getS_of_get hs, param_ok (Nat.lt_of_lt_of_le Nat.zero_lt_one hn)]
  simp only [Res.ok_bind, getChan_eq]
  split
  · rename_i hcont
    obtain ⟨ch, mem, hch, hmem⟩ := hw.listed_member hs hlive hnick (List.contains_iff_mem.1 hcont)
    simp only [hch, hmem]
    split
    · exact NoPanic.pure _
    · refine NoPanic.bind (applyChanModes_noPanic hw.toWInvCore hch _ (Inert.refl hw.toWInvCore)) fun r h1 => ?_
      obtain ⟨c1, q1, r1⟩ := r
      have hI := applyChanModes_inert hw.toWInvCore _ (Inert.refl hw.toWInvCore) h1
      dsimp only
      split
      · exact NoPanic.pure _
      split
      · exact NoPanic.pure _
      split
      · exact NoPanic.pure _
      obtain ⟨ch1, hch1, _⟩ := hI.getChan hch
      obtain ⟨rc, hrc⟩ := rcChannel_ok (hI.winvCore hw.toWInvCore) hch1
      simp only [hch1, hrc, Res.ok_bind]
      exact NoPanic.pure _
  · split
    · rename_i tid hi
      obtain ⟨t, ht, ht', _⟩ := getS_indexed_ok hw.toWInvCore hi
      rw [ht]
      simp only [Res.ok_bind]
      split
      · exact NoPanic.pure _
      split
      · exact NoPanic.pure _
      rw [modS_of_get _ ht']
      exact NoPanic.ok _
    · exact NoPanic.pure _

theorem cmdMode_safe : ClientSafe cmdMode 1 true :=
  fun _ sid _ s hp hs _ hl hn =>
    cmdMode_noPanic hp.inv.toWInv hs (hp.inv.noDeleted sid s hs) (hp.linv sid s hs (hl rfl)) hn

/-- the form used by JOIN / SVSJOIN: an arbitrary stored live session with a nickname -/
theorem cmdMode_safe_member {c : Ctx} {sid : Id} {s : Session} {m : IrcMsg} (hw : WInv c.st)
    (hs : AMap.get c.st.sessions sid = some s) (hlive : s.deleted = false) (hnick : s.nick ≠ "")
    (hn : 1 ≤ m.params.length) : ∀ site, cmdMode c sid m ≠ .panic site :=
  cmdMode_noPanic hw hs hlive hnick hn

end Robust.Irc
