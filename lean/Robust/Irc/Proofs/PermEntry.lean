import Robust.Irc.Proofs.PermInv
/-!
Order-independence, part 8: from the handlers to `processMessage`, `applyEntry`, histories.

Everything here is relative to `AllHandlersCongr`: every handler of the command table is
congruent (`HCongrU`).  `PermAll.lean` discharges it.
-/
set_option linter.unusedVariables false
namespace Robust.Irc
open Robust
attribute [local irreducible] IrcMsg.render emit sendUser sendSvc

/-- every handler reachable through the command table is congruent -/
def AllHandlersCongr : Prop := ∀ fname h, handlerByName fname = some h → HCongrU h

/-- `RRel.bind` that remembers where the values came from -/
theorem RRel.bind_eq {α β γ δ : Type} {R : α → β → Prop} {S : γ → δ → Prop} {x : Res α} {y : Res β}
    {f : α → Res γ} {g : β → Res δ} (h : RRel R x y)
    (hf : ∀ a b, x = .ok a → y = .ok b → R a b → RRel S (f a) (g b)) : RRel S (x >>= f) (y >>= g) := by
  cases h with
  | ok h => exact hf _ _ rfl rfl h
  | panic => exact .panic
  | declined => exact .declined

/-! ### the stages of `processMessage` -/

theorem addrStage_congr {c c' : Ctx} (h : CEq c c') (e : Entry) {s s' : Session} (hs : SessEq s s') :
    RRel (fun r r' => CEq r.1 r'.1 ∧ r'.2 = r.2) (addrStage c e s) (addrStage c' e s') := by
  unfold addrStage
  simp only [hs.remoteAddr, hs.id]
  split
  · refine RRel.bind (modS_congr_upd h s.id _ (fun _ => rfl) (fun _ => rfl) (fun _ => rfl)) (fun c1 c1' h1 => ?_)
    rw [h1.config]
    split
    · split
      · refine RRel.bind (deleteSession_congr (sendUser_congr h1 s.id rfl) s.id) (fun c2 c2' h2 => ?_)
        exact .ok ⟨h2, rfl⟩
      · exact .ok ⟨h1, rfl⟩
    · exact .ok ⟨h1, rfl⟩
  · exact .ok ⟨h, rfl⟩

/-- the address stage keeps `UniqNick` when it lets the line through -/
theorem addrStage_uniq {c c1 : Ctx} {e : Entry} {s : Session} (hu : UniqNick c.st)
    (hs : AMap.get c.st.sessions s.id = some s) (hr : addrStage c e s = .ok (c1, false)) : UniqNick c1.st := by
  unfold addrStage at hr
  split at hr
  · obtain ⟨c0, hm, hr⟩ := Res.bind_eq_ok.1 hr
    obtain ⟨s0, hs0, rfl⟩ := modS_eq_ok.1 hm
    rw [hs] at hs0
    have e0 : s0 = s := (Option.some.inj hs0).symm
    subst e0
    have h0 : UniqNick (putS c { s0 with remoteAddr := e.remoteAddr }).st :=
      hu.set_same_nick (s1 := { s0 with remoteAddr := e.remoteAddr }) hs rfl
    split at hr
    · split at hr
      · obtain ⟨c2, _, hr⟩ := Res.bind_eq_ok.1 hr
        cases hr
      · cases hr; exact h0
    · cases hr; exact h0
  · cases hr; exact hu

theorem dispatchStage_congr (HC : AllHandlersCongr) {c c' : Ctx} (h : CEq c c') (hu : UniqNick c.st)
    {s s' : Session} (hs : SessEq s s') {m : IrcMsg} (hm : MsgPfxOK m) (command : String) :
    RRel CEq (dispatchStage c s m command) (dispatchStage c' s' m command) := by
  unfold dispatchStage
  simp only [hs.server, hs.nick, hs.id]
  split
  · ceqs
  · split
    · ceqs
    · split
      · exact .declined
      · rename_i hd hh
        exact HC _ hd hh c c' s.id m hu hm h

theorem gateStage_congr (HC : AllHandlersCongr) {c c' : Ctx} (h : CEq c c') (hu : UniqNick c.st) (e : Entry)
    {m : IrcMsg} (hm : MsgPfxOK m) (command : String) :
    RRel CEq (gateStage c e m command) (gateStage c' e m command) := by
  unfold gateStage
  refine RRel.bind (getS_congr h e.session) (fun s s' hs => ?_)
  simp only [hs.loggedIn, hs.server, hs.id, hs.lastActivity, hs.created]
  split
  · split
    · exact deleteSession_congr (by ceqs) s.id
    · ceqs
  · exact dispatchStage_congr HC h hu hs hm command

theorem processMessage_congr (HC : AllHandlersCongr) {c c' : Ctx} (h : CEq c c') (hu : UniqNick c.st)
    (hid : ∀ id s, AMap.get c.st.sessions id = some s → s.id = id) (e : Entry)
    {im : Option IrcMsg} (hm : ∀ m, im = some m → MsgPfxOK m) :
    RRel CEq (processMessage c e im) (processMessage c' e im) := by
  rw [processMessage_eq, processMessage_eq]
  have hg := getSess_congr h e.session
  unfold getS
  rcases hg.cases' with ⟨h1, h2⟩ | ⟨s, s', h1, h2, hs⟩
  · rw [h1, h2]; exact .panic
  · rw [h1, h2]
    simp only [Res.ok_bind]
    cases im with
    | none =>
      simp only [hs.id, hs.nick]
      ceqs
    | some m =>
      dsimp only
      refine RRel.bind_eq (addrStage_congr h e hs) (fun r r' hr hr' hrr => ?_)
      obtain ⟨c1, b⟩ := r
      obtain ⟨c1', b'⟩ := r'
      obtain ⟨hc1, hb⟩ := hrr
      simp only at hc1 hb
      subst hb
      cases b' with
      | true => exact .ok hc1
      | false =>
        simp only [Bool.false_eq_true, if_false]
        have hsid : AMap.get c.st.sessions s.id = some s := by rw [hid _ s h1]; exact h1
        exact gateStage_congr HC hc1 (addrStage_uniq hu hsid hr) e (hm m rfl) _

/-! ### entries -/

theorem updateLastClientMessageID_congr {st st' : St} (h : StEq st st') (e : Entry) :
    ORel StEq (updateLastClientMessageID st e) (updateLastClientMessageID st' e) := by
  unfold updateLastClientMessageID
  rcases (h.sessions.rel e.session).cases' with ⟨h1, h2⟩ | ⟨s, s', h1, h2, hs⟩
  · rw [h1, h2]; exact .nn
  · rw [h1, h2]
    refine .ss (h.withSessions (h.sessions.set e.session ?_))
    exact hs.upd
      (fun t =>
        { t with
          lastActivity := e.timestamp
          lastClientMessageId := e.cmid
          lastNonPing := (if (!hasPrefix (toLower e.data) "ping") = true then e.timestamp else t.lastNonPing) })
      (fun _ => rfl) (fun _ => rfl) (fun _ => rfl)

theorem maybeDeleteSession_congr {st st' : St} (h : StEq st st') (sid : Id) :
    StEq (maybeDeleteSession st sid) (maybeDeleteSession st' sid) := by
  unfold maybeDeleteSession
  rcases (h.sessions.rel sid).cases' with ⟨h1, h2⟩ | ⟨s, s', h1, h2, hs⟩
  · rw [h1, h2]; exact h
  · rw [h1, h2]
    simp only [hs.server, hs.operator, hs.deleted]
    have hf : StEq { st with sessions := st.sessions.filter (fun e => !e.2.deleted) }
        { st' with sessions := st'.sessions.filter (fun e => !e.2.deleted) } :=
      h.withSessions (h.sessions.filter (fun k v v' _ _ hv => by rw [hv.deleted]))
    cases (s.server || s.operator) <;> cases s.deleted
    · exact h
    · exact h.withSessions (h.sessions.erase sid)
    · exact hf
    · exact hf.withSessions (hf.sessions.erase sid)

/-- related results of `applyEntry`: equivalent states, the same output batch up to recipient order -/
def EntryResEq (r r' : St × List Out) : Prop := StEq r.1 r'.1 ∧ OutsEq r.2 r'.2

theorem ORel.getD_stEq {o o' : Option St} {st st' : St} (ho : ORel StEq o o') (h : StEq st st') :
    StEq (o.getD st) (o'.getD st') := by
  cases ho with
  | nn => exact h
  | ss hr => exact hr

/-- one committed entry: equivalent states give the same kind of result, equivalent states and
the same outputs up to recipient order -/
theorem applyEntry_congr (HC : AllHandlersCongr) {st st' : St} (hI : Inv st) (h : StEq st st') (e : Entry) :
    RRel EntryResEq (applyEntry st e) (applyEntry st' e) := by
  unfold applyEntry
  split
  · exact .ok ⟨(updateLastClientMessageID_congr h e).getD_stEq h, .nil⟩
  split
  · exact .ok ⟨(createSession_congr h _ _ _).getD_stEq h, .nil⟩
  split
  · -- DeleteSession
    rcases (h.sessions.rel e.session).cases' with ⟨h1, h2⟩ | ⟨s, s', h1, h2, hs⟩
    · rw [h1, h2]; exact .ok ⟨h, .nil⟩
    · rw [h1, h2]
      dsimp only
      have hc : CEq { st := st, msgid := e.id } { st := st', msgid := e.id } := ⟨h, rfl, rfl, .nil⟩
      refine RRel.bind (processMessage_congr HC hc (UniqNick.of_inv hI) (fun id s hg => (hI.sessId id s hg).1) e
        (fun m hm => parseMessage_pfxOK hm)) (fun c c' hcc => ?_)
      exact .ok ⟨maybeDeleteSession_congr (hcc.st.withLastProcessed _) e.session, hcc.out⟩
  split
  · -- IRCFromClient
    have hu := updateLastClientMessageID_congr h e
    rcases hu.cases' with ⟨h1, h2⟩ | ⟨st1, st1', h1, h2, hs1⟩
    · rw [h1, h2]; exact .ok ⟨h, .nil⟩
    · rw [h1, h2]
      dsimp only
      have hI1 : Inv st1 := Inv_updateLastClientMessageID hI h1
      have hc : CEq { st := st1, msgid := e.id } { st := st1', msgid := e.id } := ⟨hs1, rfl, rfl, .nil⟩
      refine RRel.bind (processMessage_congr HC hc (UniqNick.of_inv hI1) (fun id s hg => (hI1.sessId id s hg).1) e
        (fun m hm => parseMessage_pfxOK hm)) (fun c c' hcc => ?_)
      exact .ok ⟨maybeDeleteSession_congr (hcc.st.withLastProcessed _) e.session, hcc.out⟩
  split
  · split
    · exact .ok ⟨h, .nil⟩
    · exact .ok ⟨h.withConfig _, .nil⟩
  · exact .ok ⟨h, .nil⟩

/-! ### histories -/

/-- apply a list of entries, keeping the output batch of every entry -/
def runOut (st : St) : List Entry → Res (St × List (List Out))
  | [] => .ok (st, [])
  | e :: es =>
    match applyEntry st e with
    | .ok (st', out) =>
      match runOut st' es with
      | .ok (st'', outs) => .ok (st'', out :: outs)
      | .panic site => .panic site
      | .declined why => .declined why
    | .panic site => .panic site
    | .declined why => .declined why

/-- `runOut` and `runEntries` agree on the state -/
theorem runOut_fst (st : St) (es : List Entry) :
    RRel (fun (r : St × List (List Out)) (s : St) => r.1 = s) (runOut st es) (runEntries st es) := by
  induction es generalizing st with
  | nil => exact .ok rfl
  | cons e es ih =>
    unfold runOut runEntries
    cases applyEntry st e with
    | panic s => exact .panic
    | declined s => exact .declined
    | ok r =>
      obtain ⟨st1, out⟩ := r
      dsimp only
      have := ih st1
      generalize runOut st1 es = x at this
      generalize runEntries st1 es = y at this
      cases this with
      | ok hr => rename_i a b; obtain ⟨a1, a2⟩ := a; exact .ok hr
      | panic => exact .panic
      | declined => exact .declined

/-- every entry is one that the real system can produce, with respect to the state it is applied to -/
def OkHistory (st : St) : List Entry → Prop
  | [] => True
  | e :: es => EntryOk st e ∧ ∀ st' out, applyEntry st e = .ok (st', out) → OkHistory st' es

theorem WfHistory.ok {st : St} {es : List Entry} (h : WfHistory st es) : OkHistory st es := by
  induction es generalizing st with
  | nil => trivial
  | cons e es ih => exact ⟨h.1, fun st' out hr => ih (h.2.2 st' out hr)⟩

/-- related results of a history: equivalent final states, per entry the same outputs up to recipient order -/
def RunResEq (r r' : St × List (List Out)) : Prop := StEq r.1 r'.1 ∧ All2 OutsEq r.2 r'.2

theorem runOut_congr (HC : AllHandlersCongr) {st st' : St} (hG : GInv st) (h : StEq st st') (es : List Entry)
    (hw : OkHistory st es) : RRel RunResEq (runOut st es) (runOut st' es) := by
  induction es generalizing st st' with
  | nil => exact .ok ⟨h, .nil⟩
  | cons e es ih =>
    unfold runOut
    have ha := applyEntry_congr HC hG.inv h e
    cases hr : applyEntry st e with
    | panic x => rw [hr] at ha; generalize applyEntry st' e = y at ha; cases ha; exact .panic
    | declined x => rw [hr] at ha; generalize applyEntry st' e = y at ha; cases ha; exact .declined
    | ok r =>
      rw [hr] at ha
      obtain ⟨r', hr', hs1, ho⟩ := ha.of_ok
      rw [hr']
      obtain ⟨st1, out⟩ := r
      obtain ⟨st1', out'⟩ := r'
      dsimp only
      have hG1 := applyEntry_preserves st st1 e out hG hw.1 hr
      have := ih hG1 hs1 (hw.2 st1 out hr)
      generalize runOut st1 es = x at this
      generalize runOut st1' es = y at this
      cases this with
      | ok hrr =>
        rename_i a b
        obtain ⟨a1, a2⟩ := a
        obtain ⟨b1, b2⟩ := b
        exact .ok ⟨hrr.1, .cons ho hrr.2⟩
      | panic => exact .panic
      | declined => exact .declined

end Robust.Irc
