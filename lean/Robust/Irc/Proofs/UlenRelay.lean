import Robust.Irc.Proofs.UlenPrefix
import Robust.Irc.Proofs.RcptApply
/-!
C15, clause "every delivered line starts with a prefix and a command": the lines handlers emit.

* `relayed_cmdToken`: a line `⟨some s.ircPrefix, cmd, params⟩` under the prefix of a stored client session
  keeps its command (the prefix has at most 178 bytes, `UlenPrefix.lean`);
* `srv_cmdToken`: a server-prefixed reply keeps its command when the server name is short and has no space;
* `plain_cmdToken`: a line without prefix (`ERROR`) keeps its command;
* `cmdPrivmsg_hasCommand`: *every* line `cmdPrivmsg` produces (relayed PRIVMSG / NOTICE and numeric replies);
* `ClientLine.shape`: for every client command, the lines that the recipient classification of C12
  (`RcptAll.lean`) characterises by their text — JOIN, PART, NICK, QUIT, KICK, TOPIC, MODE, INVITE, PRIVMSG /
  NOTICE under the sender's prefix, the victim's QUIT of KILL, the closing ERROR — keep their command.
  The text of the remaining lines (numeric replies, server notices) is not characterised there: `other`.
-/
namespace Robust.Irc
open Robust AMap

/-- a command that survives under any client prefix: not empty, no space, at most `510 - 2 - 178 = 330` bytes -/
structure GoodCmd (cmd : String) : Prop where
  ne : cmd ≠ ""
  spaceless : Spaceless cmd
  short : cmd.utf8ByteSize ≤ 330

instance (cmd : String) : Decidable (GoodCmd cmd) :=
  decidable_of_iff (cmd ≠ "" ∧ Spaceless cmd ∧ cmd.utf8ByteSize ≤ 330)
    ⟨fun ⟨a, b, c⟩ => ⟨a, b, c⟩, fun ⟨a, b, c⟩ => ⟨a, b, c⟩⟩

theorem upperChar_space_of {c : Char} (h : upperChar c = ' ') : c = ' ' := by
  unfold upperChar at h
  split at h
  · split at h
    · rename_i h1 h2
      rw [char_le_iff, char_le_iff] at h2
      have e1 : 'a'.toNat = 97 := rfl
      have e2 : 'z'.toNat = 122 := rfl
      rw [e1, e2] at h2
      have := congrArg Char.toNat h
      rw [toNat_ofNat_valid _ (by omega)] at this
      have h32 : (' ' : Char).toNat = 32 := rfl
      omega
    · exact h
  · rename_i hge
    split at h
    · rename_i v hv
      obtain ⟨k, hm⟩ := lookupTable_mem _ _ _ hv
      have hall : Gen.Unicode.toUpperTable.toList.all (fun p => p.2 != 32) = true := by
        decide +kernel
      have hne := List.all_eq_true.1 hall _ hm
      have hok := List.all_eq_true.mp upperTable_ok (k, v) hm
      simp only [Bool.and_eq_true, Bool.or_eq_true, bne_iff_ne, ne_eq, decide_eq_true_eq] at hne hok
      have h2 := congrArg Char.toNat h
      rw [toNat_ofNat_valid _ hok.2] at h2
      have h32 : (' ' : Char).toNat = 32 := rfl
      omega
    · exact h

/-- a command whose upper-case form is a short word without space (as the command table demands) is good -/
theorem goodCmd_of_toUpper {x K : String} (h : toUpper x = K) (hne : K ≠ "") (hsp : Spaceless K)
    (hlen : K.toList.length ≤ 82) : GoodCmd x := by
  have hl : K.toList = x.toList.map upperChar := by rw [← h]; unfold toUpper; rw [String.toList_ofList]
  refine ⟨?_, ?_, ?_⟩
  · intro he; subst he
    apply hne; rw [← h]; decide
  · intro c hc he
    subst he
    have : upperChar ' ' ∈ K.toList := by rw [hl]; exact List.mem_map_of_mem hc
    exact hsp _ this (by decide)
  · have := utf8ByteSize_le x
    have e : K.toList.length = x.toList.length := by rw [hl, List.length_map]
    omega

/-- what is needed of the state to bound the prefixes of its client sessions -/
structure PfxCtx (st : St) : Prop where
  ni : NI st
  pinv : PInv st
  uinv : UInv st
  sessId : ∀ id s, AMap.get st.sessions id = some s → s.id = id

theorem PfxCtx.of_gpu {st : St} (h : GPUInv st) : PfxCtx st :=
  ⟨h.ginv.ni, h.pinv, h.uinv, fun id s hg => (h.ginv.inv.sessId id s hg).1⟩

/-- a stored session that is not a services link, with `reply = 0` and a `uint64` numeric id -/
structure ClientSess (st : St) (sid : Id) (s : Session) : Prop where
  stored : AMap.get st.sessions sid = some s
  notServer : s.server = false
  reply0 : sid.reply = 0
  id64 : sid.id < 2 ^ 64

theorem ClientSess.prefix {st : St} (hc : PfxCtx st) {sid : Id} {s : Session} (h : ClientSess st sid s) :
    s.ircPrefix.str.utf8ByteSize ≤ maxPrefixBytes ∧ Spaceless s.ircPrefix.str :=
  prefix_bounded hc.ni hc.pinv hc.uinv hc.sessId h.stored h.notServer h.reply0 h.id64

/-! ## the three kinds of prefix -/

/-- a line relayed under the prefix of a stored client session keeps its command -/
theorem relayed_cmdToken {st : St} (hc : PfxCtx st) {sid : Id} {s : Session} (h : ClientSess st sid s)
    {cmd : String} (hg : GoodCmd cmd) (params : List String) :
    cmdToken (IrcMsg.mk (some s.ircPrefix) cmd params).render = utf8 cmd := by
  obtain ⟨hb, hsp⟩ := h.prefix hc
  refine render_cmdToken _ hg.ne hg.spaceless ?_ (fun hn => by cases hn)
  intro p hp
  cases hp
  have := hg.short
  have e : maxPrefixBytes = 178 := maxPrefixBytes_eq
  exact ⟨hsp, by simp only; omega⟩

/-- the server name is short and contains no space -/
structure SrvNameOK (st : St) : Prop where
  spaceless : Spaceless st.serverName
  short : st.serverName.utf8ByteSize ≤ 63

/-- a server-prefixed line keeps its command -/
theorem srv_cmdToken {c : Ctx} (hs : SrvNameOK c.st) {cmd : String} (hg : GoodCmd cmd) (params : List String) :
    cmdToken (srv c cmd params).render = utf8 cmd := by
  refine render_cmdToken _ hg.ne hg.spaceless ?_ (fun hn => by cases hn)
  intro p hp
  cases hp
  have e0 : ("" : String).utf8ByteSize ≤ 0 := by decide
  have hb := prefix_str_bounds (serverPrefix c.st) (a := 63) (b := 0) (d := 0) hs.short e0 e0
    hs.spaceless spaceless_empty spaceless_empty
  have := hg.short
  have := hb.1
  exact ⟨hb.2, by show _ + cmd.utf8ByteSize + 2 ≤ 510; omega⟩

/-- a line without prefix keeps its command (which must not start with `':'`) -/
theorem plain_cmdToken {cmd : String} (hg : GoodCmd cmd) (hcol : cmd.toList.head? ≠ some ':') (params : List String) :
    cmdToken (IrcMsg.mk none cmd params).render = utf8 cmd := by
  refine render_cmdToken _ hg.ne hg.spaceless (fun p hp => by cases hp) (fun _ => ⟨hcol, ?_⟩)
  have := hg.short
  simp only; omega

theorem hasCommand_of_token {b : Bytes} {cmd : String} (h : cmdToken b = utf8 cmd) (hne : cmd ≠ "") :
    HasCommand b := by
  unfold HasCommand; rw [h]; exact utf8_ne_nil hne

/-! ## PRIVMSG / NOTICE: every line -/

/-- **PRIVMSG / NOTICE**: every line `cmdPrivmsg` produces — the message relayed under the sender's prefix and
the numeric replies 411, 412, 403, 404, 481, 401, 301 — has a command. -/
theorem cmdPrivmsg_hasCommand {c c' : Ctx} {sid : Id} {m : IrcMsg} {s : Session} (hc : PfxCtx c.st)
    (hs : ClientSess c.st sid s) (hn : SrvNameOK c.st) (hm : GoodCmd m.command)
    (hr : cmdPrivmsg c sid m = .ok c') : NewOut (fun o => HasCommand o.data) c c' := by
  have rel : ∀ params, HasCommand (IrcMsg.mk (some s.ircPrefix) m.command params).render :=
    fun params => hasCommand_of_token (relayed_cmdToken hc hs hm params) hm.ne
  have rep : ∀ (c0 : Ctx), c0.st = c.st → ∀ cmd params, GoodCmd cmd → HasCommand (srv c0 cmd params).render :=
    fun c0 e cmd params hg => hasCommand_of_token (srv_cmdToken (c := c0) (by rw [e]; exact hn) hg params) hg.ne
  unfold cmdPrivmsg at hr
  rw [getS_of_get hs.stored] at hr
  simp only [Res.ok_bind] at hr
  split at hr
  · cases hr; exact (NewOut.refl _ c).sendUser fun _ _ => rep c rfl _ _ (by decide)
  split at hr
  · cases hr; exact (NewOut.refl _ c).sendUser fun _ _ => rep c rfl _ _ (by decide)
  obtain ⟨p0, hp0, hr⟩ := Res.bind_eq_ok.1 hr
  simp only [getChan_eq] at hr
  split at hr
  · split at hr
    · cases hr; exact (NewOut.refl _ c).sendUser fun _ _ => rep c rfl _ _ (by decide)
    · split at hr
      · cases hr; exact (NewOut.refl _ c).sendUser fun _ _ => rep c rfl _ _ (by decide)
      · obtain ⟨rc, hrc, hr⟩ := Res.bind_eq_ok.1 hr
        cases hr
        exact (NewOut.refl _ c).emit fun _ _ => rel _
  · split at hr
    · split at hr
      · cases hr
        exact (NewOut.refl _ c).emit fun _ _ => rel _
      · cases hr; exact (NewOut.refl _ c).sendUser fun _ _ => rep c rfl _ _ (by decide)
    · split at hr
      · cases hr; exact (NewOut.refl _ c).sendUser fun _ _ => rep c rfl _ _ (by decide)
      · rename_i tid hi
        obtain ⟨t, ht, hr⟩ := Res.bind_eq_ok.1 hr
        split at hr
        · cases hr; exact NewOut.refl _ c
        · have h1 : NewOut (fun o => HasCommand o.data) c
              (sendUser c tid ⟨some s.ircPrefix, m.command, [p0, m.trailing]⟩) :=
            (NewOut.refl _ c).sendUser fun _ _ => rel _
          split at hr
          · cases hr; exact h1.sendUser fun _ _ => rep _ rfl _ _ (by decide)
          · cases hr; exact h1

/-! ## the lines whose text the recipient classification characterises -/

/-- what is known about the text of a line produced by a client command -/
inductive LineShape (st : St) (s : Session) (o : Out) : Prop
  /-- relayed under the prefix of the acting session: if the command is good (decidable; `by decide` for the
  literals JOIN, PART, …), the command token is the command -/
  | relayed (cmd : String) (params : List String)
      (hd : o.data = (IrcMsg.mk (some s.ircPrefix) cmd params).render)
      (hc : GoodCmd cmd → cmdToken o.data = utf8 cmd ∧ HasCommand o.data)
  /-- the QUIT of the victim of a KILL, under the victim's prefix (if the victim is a client session) -/
  | victim (tid : Id) (t : Session) (params : List String) (ht : AMap.get st.sessions tid = some t)
      (hd : o.data = (IrcMsg.mk (some t.ircPrefix) "QUIT" params).render)
      (hc : ClientSess st tid t → cmdToken o.data = utf8 "QUIT" ∧ HasCommand o.data)
  /-- the closing ERROR, without prefix -/
  | error (txt : String) (hd : o.data = (IrcMsg.mk none "ERROR" [txt]).render)
      (htok : cmdToken o.data = utf8 "ERROR") (hc : HasCommand o.data)
  /-- numeric replies, server notices, lines for the services links: the text is not characterised by the
  recipient classification (they are server-prefixed, `srv_cmdToken` applies to each of them) -/
  | other

/-- the command of a relayed line, if its text is characterised -/
def LineShape.Relayed (s : Session) (cmd : String) (o : Out) : Prop :=
  ∃ params, o.data = (IrcMsg.mk (some s.ircPrefix) cmd params).render

theorem LineShape.of_relay {st : St} (hc : PfxCtx st) {sid : Id} {s : Session} (hs : ClientSess st sid s)
    {o : Out} {cmd : String} {params : List String}
    (hd : o.data = (IrcMsg.mk (some s.ircPrefix) cmd params).render) : LineShape st s o := by
  refine .relayed cmd params hd fun hg => ?_
  have ht := relayed_cmdToken hc hs hg params
  rw [← hd] at ht
  exact ⟨ht, hasCommand_of_token ht hg.ne⟩

theorem PrivmsgLine.shape {st : St} (hc : PfxCtx st) {sid : Id} {s : Session} (hs : ClientSess st sid s)
    {pm : IrcMsg} {o : Out} (h : PrivmsgLine st sid s pm o) : LineShape st s o := by
  cases h with
  | reply h => exact .other
  | chan p0 ch hp hh hcc hmay hd hr => exact .of_relay hc hs hd
  | wall p0 hp hh hd' hop hd hr => exact .of_relay hc hs hd
  | user p0 tid t hp hh hd' hi ht hown hG hd hr => exact .of_relay hc hs hd

/-- **all client commands, partial**: for every line a client command produces, if the recipient classification
characterises its text — i.e. for every line relayed under a client's prefix: JOIN, PART, NICK, QUIT, KICK,
TOPIC, MODE, INVITE, PRIVMSG, NOTICE (and the service aliases), the victim's QUIT of a KILL, the closing
ERROR — the 510-byte cut leaves the command intact. -/
theorem ClientLine.shape {st : St} (hc : PfxCtx st) {sid : Id} {s : Session} (hs : ClientSess st sid s)
    {m : IrcMsg} {o : Out} (h : ClientLine st sid s m o) : LineShape st s o := by
  cases h with
  | self h => exact .other
  | privmsg pm h => exact h.shape hc hs
  | topic h =>
    cases h with
    | reply h => exact .other
    | relay chn hp hon hd hr => exact .of_relay hc hs hd
    | svc h => exact .other
  | mode h =>
    cases h with
    | reply h => exact .other
    | chan chn hp hon hd hr => exact .of_relay hc hs hd
    | userQuery p0 tid hp hi hself hr => exact .other
    | userSet p0 tid hp hi hself hr => exact .other
  | kick h =>
    cases h with
    | reply h => exact .other
    | relay chn target ch mem tid _ _ _ _ _ _ _ hd _ => exact .of_relay hc hs hd
  | part p0 hp h =>
    cases h with
    | reply h => exact .other
    | relay chn hmem hon hd hr => exact .of_relay hc hs hd
  | join p0 hp h =>
    cases h with
    | reply h => exact .other
    | svc h => exact .other
    | join chn hmem hv hd hr => exact .of_relay hc hs hd
    | mode chn hmem hr => exact .other
  | invite h =>
    cases h with
    | reply h => exact .other
    | invite nickname chn tid t ch hp0 hp1 hcc hon hi ht hd hr => exact .of_relay hc hs hd
    | notice chn ch hp1 hcc hon hr => exact .other
  | knock h => exact .other
  | nick h =>
    cases h with
    | reply h => exact .other
    | svc h => exact .other
    | oper hr => exact .other
    | nick nick hp hold hd hr => exact .of_relay hc hs hd
  | quit h =>
    cases h with
    | quit hl hd hr => exact .of_relay hc hs hd
    | error h hd =>
      obtain ⟨txt, hd⟩ := hd
      have ht := plain_cmdToken (cmd := "ERROR") (by decide) (by decide) [txt]
      rw [← hd] at ht
      exact .error txt hd ht (hasCommand_of_token ht (by decide))
  | kill h =>
    cases h with
    | reply h => exact .other
    | quit p0 tid t hop hp hi ht hd hr =>
      refine .victim tid t _ ht hd fun hct => ?_
      have htk := relayed_cmdToken hc hct (cmd := "QUIT") (by decide)
        ["Killed by " ++ s.nick ++ ": " ++ m.trailing]
      rw [← hd] at htk
      exact ⟨htk, hasCommand_of_token htk (by decide)⟩
    | victim p0 tid hop hp hi h => exact .other
  | login h => exact .other
  | server h => exact .other

/-! ## a whole entry -/

/-- bookkeeping (`lastActivity`, `remoteAddr`, … of the acting session) keeps the length invariant -/
theorem UInv.of_stBk {st stH : St} {sid : Id} (h : UInv st) (hb : StBk st stH sid)
    (hk : ∀ s', AMap.get stH.sessions sid = some s' → ∃ s, AMap.get st.sessions sid = some s) : UInv stH := by
  refine h.of_sessions fun id s' hg => ?_
  by_cases he : id = sid
  · subst he
    obtain ⟨s, hs⟩ := hk s' hg
    obtain ⟨s'', hs'', hbk⟩ := hb.self s hs
    rw [hg] at hs''; cases hs''
    refine ⟨s, hs, ?_, ?_⟩ <;> (unfold Session.Bk at hbk; rw [hbk])
  · rw [hb.others id he] at hg
    exact ⟨s', hg, rfl, rfl⟩

/-- **one `IRCFromClient` entry of a client session**: every output line of the entry is classified by
`LineShape` relative to the handler state `stH` (the state before the entry up to bookkeeping fields of the
acting session) -/
theorem applyEntry_client_shapes {st st' : St} {e : Entry} {out : List Out} {s : Session}
    (h : GPUInv st) (he : EntryOk st e) (ht : e.type = 2)
    (hs : AMap.get st.sessions e.session = some s) (hsrv : s.server = false) (hid : e.session.id < 2 ^ 64)
    (hr : applyEntry st e = .ok (st', out)) :
    ∃ stH sH, StBk st stH e.session ∧ AMap.get stH.sessions e.session = some sH ∧ Session.Bk s sH ∧
      ∀ o ∈ out, LineShape stH sH o := by
  obtain ⟨stH, sH, hbk, hsH, hb, hg, hl⟩ := applyEntry_client_out h.gp he ht hs hsrv hr
  have hu : UInv stH := h.uinv.of_stBk hbk fun _ _ => ⟨s, hs⟩
  have hc : PfxCtx stH := ⟨hg.ginv.ni, hg.pinv, hu, fun id t hgt => (hg.ginv.inv.sessId id t hgt).1⟩
  have hcs : ClientSess stH e.session sH :=
    ⟨hsH, by unfold Session.Bk at hb; rw [hb]; exact hsrv, he.1 (Or.inr ht), hid⟩
  refine ⟨stH, sH, hbk, hsH, hb, fun o ho => ?_⟩
  rcases hl o ho with _ | ⟨m, _, hcl⟩
  · exact .other
  · exact hcl.shape hc hcs

/-- the same for a `DeleteSession` entry (the server generates `QUIT :<reason>` for the session) -/
theorem applyEntry_delete_shapes {st st' : St} {e : Entry} {out : List Out} {s : Session}
    (h : GPUInv st) (he : EntryOk st e) (ht : e.type = 1)
    (hs : AMap.get st.sessions e.session = some s) (hsrv : s.server = false) (hid : e.session.id < 2 ^ 64)
    (hr : applyEntry st e = .ok (st', out)) :
    ∃ stH sH, StBk st stH e.session ∧ AMap.get stH.sessions e.session = some sH ∧ Session.Bk s sH ∧
      ∀ o ∈ out, LineShape stH sH o := by
  obtain ⟨stH, sH, hbk, hsH, hb, hg, hl⟩ := applyEntry_delete_out h.gp he ht hs hsrv hr
  have hu : UInv stH := h.uinv.of_stBk hbk fun _ _ => ⟨s, hs⟩
  have hc : PfxCtx stH := ⟨hg.ginv.ni, hg.pinv, hu, fun id t hgt => (hg.ginv.inv.sessId id t hgt).1⟩
  have hcs : ClientSess stH e.session sH :=
    ⟨hsH, by unfold Session.Bk at hb; rw [hb]; exact hsrv, he.1 (Or.inl ht), hid⟩
  refine ⟨stH, sH, hbk, hsH, hb, fun o ho => ?_⟩
  rcases hl o ho with _ | ⟨m, _, hcl⟩
  · exact .other
  · exact hcl.shape hc hcs

end Robust.Irc
