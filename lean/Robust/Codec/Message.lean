import Robust.Base.Bytes
/-!
Model of `robust.Message` as it travels through the raft log.  The wire codecs
(`proto.Marshal/Unmarshal`, `encoding/json`) are assumed to round-trip every field they are
given (validated on every run by the Go differential harness); what is modelled is what the
robustirc code does around them: the field copies (regenerated, `Gen.Copies`) and the id
defaulting of `NewMessageFromBytes`.
-/
namespace Robust.Codec
open Robust

structure RMsg where
  id : Nat
  reply : Nat
  sid : Nat
  sreply : Nat
  type : Nat
  data : Bytes
  unixNano : Int
  servers : List Bytes
  master : Bytes
  cmid : Nat
  rev : Nat
  addr : Bytes
  deriving Repr, DecidableEq

/-- the trailing `if msg.Id.Id == 0 { msg.Id.Id = index }` of `NewMessageFromBytes` -/
def RMsg.withDefaultId (m : RMsg) (index : Nat) : RMsg :=
  if m.id = 0 then { m with id := index } else m

/-- `NewMessageFromBytes (encode m) index` with `encode` either protobuf encoder or legacy JSON,
under the assumed wire round-trip. -/
def fromBytes (m : RMsg) (index : Nat) : RMsg := m.withDefaultId index

end Robust.Codec
