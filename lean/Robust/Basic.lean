def hello := "world"
