import Robust.Fsm.Model
/-!
Lemmas about the compaction model: an inductive invariant `Inv n b` for every node reachable by a
well-formed schedule (`b` is the ghost "compaction boundary": the node's log copy holds exactly the
commands of the raft log with index `> b`), and its preservation by every operation.
-/
namespace Robust.Fsm

/-! ## vocabulary -/

def defaultExp : Int := 600000000000

def expStep (ex : Int) (e : LogEntry) : Int := match e.setsExp with | some d => d | none => ex

/-- session expiration after applying `es` starting from `d` -/
def expOf (es : List LogEntry) (d : Int) : Int := es.foldl expStep d

/-- the command entries of a log -/
def cmds (L : List LogEntry) : List LogEntry := L.filter (·.isCmd)

def idxs (l : List LogEntry) : List Nat := l.map (·.idx)

/-- strictly increasing indexes -/
def Sorted (l : List LogEntry) : Prop := l.Pairwise (fun a b => a.idx < b.idx)

/-- greatest index of a log (0 for the empty log) -/
def hi : List LogEntry → Nat
  | [] => 0
  | x :: xs => max x.idx (hi xs)

def upto (k : Nat) (C : List LogEntry) : List LogEntry := C.filter (fun e => decide (e.idx ≤ k))
def after (k : Nat) (C : List LogEntry) : List LogEntry := C.filter (fun e => decide (k < e.idx))
def between (a c : Nat) (C : List LogEntry) : List LogEntry :=
  C.filter (fun e => decide (a < e.idx ∧ e.idx ≤ c))

/-! ## `hi` -/

theorem le_hi {L : List LogEntry} {e : LogEntry} (h : e ∈ L) : e.idx ≤ hi L := by
  induction L with
  | nil => cases h
  | cons x xs ih =>
    simp only [hi]
    rcases List.mem_cons.1 h with rfl | h
    · exact Nat.le_max_left _ _
    · exact Nat.le_trans (ih h) (Nat.le_max_right _ _)

theorem hi_lt {L : List LogEntry} {m : Nat} (h : ∀ x ∈ L, x.idx < m) (hm : 0 < m) : hi L < m := by
  induction L with
  | nil => exact hm
  | cons x xs ih =>
    simp only [hi]
    have h1 := h x (List.mem_cons_self ..)
    have h2 := ih (fun y hy => h y (List.mem_cons_of_mem _ hy))
    exact Nat.max_lt.2 ⟨h1, h2⟩

theorem hi_append_single (L : List LogEntry) (e : LogEntry) : hi (L ++ [e]) = max (hi L) e.idx := by
  induction L with
  | nil => simp [hi]
  | cons x xs ih => simp only [List.cons_append, hi, ih]; omega

theorem hi_le_append (L : List LogEntry) (e : LogEntry) : hi L ≤ hi (L ++ [e]) := by
  rw [hi_append_single]; exact Nat.le_max_left _ _

/-! ## sorted lists -/

theorem Sorted.filter {l : List LogEntry} (p : LogEntry → Bool) (h : Sorted l) : Sorted (l.filter p) :=
  List.Pairwise.filter p h

theorem sorted_cmds {L : List LogEntry} (h : Sorted L) : Sorted (cmds L) := h.filter _

theorem sorted_split {C : List LogEntry} (h : Sorted C) (k : Nat) : upto k C ++ after k C = C := by
  induction C with
  | nil => rfl
  | cons x xs ih =>
    have hx := (List.pairwise_cons.1 h).1
    have hxs := (List.pairwise_cons.1 h).2
    by_cases hk : x.idx ≤ k
    · have : ¬ k < x.idx := by omega
      simp only [upto, after, List.filter_cons, hk, this, decide_true, decide_false, if_true,
        Bool.false_eq_true, if_false, List.cons_append]
      exact congrArg _ (ih hxs)
    · have h1 : upto k (x :: xs) = [] := by
        apply List.filter_eq_nil_iff.2
        intro a ha
        rcases List.mem_cons.1 ha with rfl | ha
        · simpa using hk
        · have := hx a ha
          simp; omega
      have h2 : after k (x :: xs) = x :: xs := by
        apply List.filter_eq_self.2
        intro a ha
        rcases List.mem_cons.1 ha with rfl | ha
        · simp; omega
        · have := hx a ha
          simp; omega
      rw [h1, h2]; rfl

/-- a split of a list at a boundary is recovered by filtering -/
theorem filter_of_split {A R : List LogEntry} {k : Nat} (hA : ∀ x ∈ A, x.idx ≤ k) (hR : ∀ x ∈ R, k < x.idx) :
    upto k (A ++ R) = A ∧ after k (A ++ R) = R := by
  have a1 : upto k A = A := List.filter_eq_self.2 (fun a ha => by simpa using hA a ha)
  have a2 : upto k R = [] := List.filter_eq_nil_iff.2 (fun a ha => by have := hR a ha; simp; omega)
  have a3 : after k A = [] := List.filter_eq_nil_iff.2 (fun a ha => by have := hA a ha; simp; omega)
  have a4 : after k R = R := List.filter_eq_self.2 (fun a ha => by simpa using hR a ha)
  constructor
  · show List.filter _ (A ++ R) = A
    rw [List.filter_append]; show upto k A ++ upto k R = A; rw [a1, a2, List.append_nil]
  · show List.filter _ (A ++ R) = R
    rw [List.filter_append]; show after k A ++ after k R = R; rw [a3, a4, List.nil_append]

theorem sorted_le_last {l : List LogEntry} (h : Sorted l) {z : LogEntry} (hz : l.getLast? = some z) :
    ∀ x ∈ l, x.idx ≤ z.idx := by
  obtain ⟨ys, rfl⟩ := List.getLast?_eq_some_iff.1 hz
  intro x hx
  rcases List.mem_append.1 hx with hx | hx
  · exact Nat.le_of_lt ((List.pairwise_append.1 h).2.2 x hx z (List.mem_singleton.2 rfl))
  · rw [List.mem_singleton.1 hx]; exact Nat.le_refl _

theorem upto_after_comm (a c : Nat) (C : List LogEntry) : upto c (after a C) = between a c C := by
  simp only [upto, after, between, List.filter_filter]
  apply List.filter_congr; intro x _; simp [And.comm]

theorem after_after {a c : Nat} (h : a ≤ c) (C : List LogEntry) : after c (after a C) = after c C := by
  simp only [after, List.filter_filter]
  apply List.filter_congr; intro x _
  by_cases hc : c < x.idx
  · have : a < x.idx := by omega
    simp [hc, this]
  · simp [hc]

theorem upto_upto {a c : Nat} (h : a ≤ c) (C : List LogEntry) : upto a (upto c C) = upto a C := by
  simp only [upto, List.filter_filter]
  apply List.filter_congr; intro x _
  by_cases ha : x.idx ≤ a
  · have : x.idx ≤ c := by omega
    simp [ha, this]
  · simp [ha]

/-- for sorted `C` and `a ≤ c`: commands up to `a`, then those in `(a, c]`, are those up to `c` -/
theorem upto_between {C : List LogEntry} (h : Sorted C) {a c : Nat} (hac : a ≤ c) :
    upto a C ++ between a c C = upto c C := by
  have hs : Sorted (upto c C) := h.filter _
  have := sorted_split hs a
  rw [upto_upto hac] at this
  rw [← this]; congr 1
  simp only [upto, after, between, List.filter_filter]
  apply List.filter_congr; intro x _; simp

theorem between_after {C : List LogEntry} (h : Sorted C) {a c : Nat} (hac : a ≤ c) :
    between a c C ++ after c C = after a C := by
  have hs : Sorted (after a C) := h.filter _
  have := sorted_split hs c
  rw [upto_after_comm, after_after hac] at this
  exact this

/-! ## commands of a log -/

theorem mem_cmds {L : List LogEntry} {e : LogEntry} : e ∈ cmds L ↔ e ∈ L ∧ e.isCmd = true := List.mem_filter

theorem cmds_append_single (L : List LogEntry) (e : LogEntry) :
    cmds (L ++ [e]) = cmds L ++ (if e.isCmd then [e] else []) := by
  simp only [cmds, List.filter_append, List.filter_cons, List.filter_nil]

theorem cmds_of_all_cmd {l : List LogEntry} (h : ∀ x ∈ l, x.isCmd = true) : cmds l = l :=
  List.filter_eq_self.2 h

theorem cmds_filter_comm (p : LogEntry → Bool) (L : List LogEntry) : cmds (L.filter p) = (cmds L).filter p := by
  simp only [cmds, List.filter_filter]
  apply List.filter_congr; intro x _; exact Bool.and_comm _ _

theorem upto_append_single {C : List LogEntry} {e : LogEntry} {k : Nat} (h : k < e.idx) :
    upto k (C ++ [e]) = upto k C := by
  have : ¬ e.idx ≤ k := by omega
  simp [upto, List.filter_append, this]

theorem after_append_single {C : List LogEntry} {e : LogEntry} {k : Nat} (h : k < e.idx) :
    after k (C ++ [e]) = after k C ++ [e] := by
  simp [after, List.filter_append, h]

theorem between_append_single {C : List LogEntry} {e : LogEntry} {a c : Nat} (h : c < e.idx) :
    between a c (C ++ [e]) = between a c C := by
  have : ¬ (a < e.idx ∧ e.idx ≤ c) := by omega
  simp [between, List.filter_append, this]

theorem expOf_append (a b : List LogEntry) (d : Int) : expOf (a ++ b) d = expOf b (expOf a d) := by
  simp [expOf, List.foldl_append]

theorem idxs_append (a b : List LogEntry) : idxs (a ++ b) = idxs a ++ idxs b := by simp [idxs]

/-! ## `insertSorted` -/

theorem insertSorted_append_left {e : LogEntry} {A : List LogEntry} (B : List LogEntry)
    (h : ∀ x ∈ A, x.idx < e.idx) : insertSorted e (A ++ B) = A ++ insertSorted e B := by
  induction A with
  | nil => rfl
  | cons a as ih =>
    have ha := h a (List.mem_cons_self ..)
    have h1 : ¬ e.idx < a.idx := by omega
    have h2 : ¬ e.idx = a.idx := by omega
    simp only [List.cons_append, insertSorted, h1, h2, if_false]
    rw [ih (fun x hx => h x (List.mem_cons_of_mem _ hx))]

theorem insertSorted_lt_all {e : LogEntry} {X : List LogEntry} (h : ∀ x ∈ X, e.idx < x.idx) :
    insertSorted e X = e :: X := by
  cases X with
  | nil => rfl
  | cons x xs => simp [insertSorted, h x (List.mem_cons_self ..)]

theorem insertSorted_same (e : LogEntry) (X : List LogEntry) : insertSorted e (e :: X) = e :: X := by
  simp [insertSorted]

def insertAll (es : List LogEntry) (l : List LogEntry) : List LogEntry :=
  es.foldl (fun l e => insertSorted e l) l

/-- inserting increasing entries above everything stored appends them -/
theorem insertAll_append : ∀ (es l : List LogEntry), Sorted (l ++ es) → insertAll es l = l ++ es
  | [], l, _ => by simp [insertAll]
  | e :: es, l, h => by
    have hl : ∀ x ∈ l, x.idx < e.idx := fun x hx =>
      (List.pairwise_append.1 h).2.2 x hx e (List.mem_cons_self ..)
    have h1 : insertSorted e l = l ++ [e] := by
      have := insertSorted_append_left [] hl
      simpa [insertSorted] using this
    show insertAll es (insertSorted e l) = _
    rw [h1, insertAll_append es (l ++ [e]) (by simpa using h)]
    simp

/-- replaying a whole (sorted) log into a store that still holds a compacted suffix of it restores the
full log: existing indexes are overwritten by the identical entry -/
theorem insertAll_refill (b : Nat) : ∀ (Q P : List LogEntry), Sorted (P ++ Q) →
    insertAll Q (P ++ after b Q) = P ++ Q
  | [], P, _ => by simp [insertAll, after]
  | e :: Q, P, h => by
    have hP : ∀ x ∈ P, x.idx < e.idx := fun x hx =>
      (List.pairwise_append.1 h).2.2 x hx e (List.mem_cons_self ..)
    have hQ : ∀ x ∈ Q, e.idx < x.idx := (List.pairwise_cons.1 (List.pairwise_append.1 h).2.1).1
    have step : insertSorted e (P ++ after b (e :: Q)) = (P ++ [e]) ++ after b Q := by
      rw [insertSorted_append_left _ hP]
      by_cases hb : b < e.idx
      · have : after b (e :: Q) = e :: after b Q := by simp [after, hb]
        rw [this, insertSorted_same]; simp
      · have : after b (e :: Q) = after b Q := by simp [after, hb]
        have hlt : ∀ x ∈ after b Q, e.idx < x.idx := fun x hx => hQ x (List.mem_filter.1 hx).1
        rw [this, insertSorted_lt_all hlt]; simp
    show insertAll Q (insertSorted e (P ++ after b (e :: Q))) = _
    rw [step, insertAll_refill b Q (P ++ [e]) (by simpa using h)]
    simp

/-! ## `apply` and replay -/

theorem apply_cmd (n : Node) {e : LogEntry} (h : e.isCmd = true) :
    n.apply e = { n with live := n.live ++ [e.idx], exp := expStep n.exp e,
                         irc := insertSorted e n.irc, out := n.out ++ [e.idx] } := by
  simp only [Node.apply, applyFree, h, expStep, Bool.not_true, Bool.false_eq_true, if_false]
  cases e.setsExp <;> rfl

theorem apply_noncmd (n : Node) {e : LogEntry} (h : e.isCmd = false) : n.apply e = n := by
  simp [Node.apply, h]

def applyAll (es : List LogEntry) (n : Node) : Node := es.foldl (fun n e => n.apply e) n

theorem applyAll_eq : ∀ (es : List LogEntry) (n : Node),
    applyAll es n = { n with live := n.live ++ idxs (cmds es), exp := expOf (cmds es) n.exp,
                             irc := insertAll (cmds es) n.irc, out := n.out ++ idxs (cmds es) }
  | [], n => by simp [applyAll, cmds, idxs, expOf, insertAll]
  | e :: es, n => by
    show applyAll es (n.apply e) = _
    rw [applyAll_eq es]
    cases hc : e.isCmd with
    | false => rw [apply_noncmd n hc]; simp [cmds, hc]
    | true =>
      rw [apply_cmd n hc]
      simp [cmds, hc, idxs, expOf, insertAll]

/-! ## `findState` -/

def fsStep (bound : Nat) (best : Option (Nat × List Nat × Int)) (e : Nat × List Nat × Int) :
    Option (Nat × List Nat × Int) :=
  if e.1 ≤ bound then (match best with
    | some b => if e.1 > b.1 then some e else some b
    | none => some e) else best

theorem findState_eq (lss : List (Nat × List Nat × Int)) (bound : Nat) :
    findState lss bound = lss.foldl (fsStep bound) none := rfl

theorem fs_fold_spec (bound : Nat) : ∀ (lss : List (Nat × List Nat × Int)) (acc : Option (Nat × List Nat × Int)),
    (∀ a, acc = some a → a.1 ≤ bound) →
    (match lss.foldl (fsStep bound) acc with
     | none => acc = none ∧ ∀ e ∈ lss, ¬ e.1 ≤ bound
     | some r => r.1 ≤ bound ∧ (r ∈ lss ∨ acc = some r) ∧ (∀ e ∈ lss, e.1 ≤ bound → e.1 ≤ r.1) ∧
                 (∀ a, acc = some a → a.1 ≤ r.1))
  | [], acc, hacc => by
    cases acc with
    | none => simp
    | some a => simpa using hacc a rfl
  | x :: xs, acc, hacc => by
    simp only [List.foldl_cons]
    have hacc' : ∀ a, fsStep bound acc x = some a → a.1 ≤ bound := by
      intro a ha
      unfold fsStep at ha
      split at ha
      · rename_i hx
        cases acc with
        | none => simp at ha; rw [← ha]; exact hx
        | some b =>
          simp only at ha
          split at ha
          · simp at ha; rw [← ha]; exact hx
          · simp at ha; rw [← ha]; exact hacc b rfl
      · exact hacc a ha
    have ih := fs_fold_spec bound xs (fsStep bound acc x) hacc'
    cases hres : xs.foldl (fsStep bound) (fsStep bound acc x) with
    | none =>
      rw [hres] at ih
      simp only at ih ⊢
      obtain ⟨h1, h2⟩ := ih
      unfold fsStep at h1
      split at h1
      · cases acc with
        | none => simp at h1
        | some b => simp only at h1; split at h1 <;> simp at h1
      · rename_i hx
        refine ⟨h1, ?_⟩
        intro e he
        rcases List.mem_cons.1 he with rfl | he
        · exact hx
        · exact h2 e he
    | some r =>
      rw [hres] at ih
      simp only at ih ⊢
      obtain ⟨h1, h2, h3, h4⟩ := ih
      have key : (r ∈ x :: xs ∨ acc = some r) ∧ (x.1 ≤ bound → x.1 ≤ r.1) ∧ (∀ a, acc = some a → a.1 ≤ r.1) := by
        unfold fsStep at h2 h4
        by_cases hx : x.1 ≤ bound
        · simp only [hx, if_true] at h2 h4
          cases acc with
          | none =>
            simp only at h2 h4
            have hxr := h4 x rfl
            refine ⟨?_, fun _ => hxr, by simp⟩
            rcases h2 with h2 | h2
            · exact Or.inl (List.mem_cons_of_mem _ h2)
            · simp at h2; exact Or.inl (h2 ▸ List.mem_cons_self ..)
          | some b =>
            simp only at h2 h4
            by_cases hb : x.1 > b.1
            · simp only [hb, if_true] at h2 h4
              have hxr := h4 x rfl
              refine ⟨?_, fun _ => hxr, ?_⟩
              · rcases h2 with h2 | h2
                · exact Or.inl (List.mem_cons_of_mem _ h2)
                · simp at h2; exact Or.inl (h2 ▸ List.mem_cons_self ..)
              · intro a ha; simp at ha; rw [← ha]; omega
            · simp only [hb, if_false] at h2 h4
              have hbr := h4 b rfl
              refine ⟨?_, fun _ => by omega, ?_⟩
              · rcases h2 with h2 | h2
                · exact Or.inl (List.mem_cons_of_mem _ h2)
                · exact Or.inr h2
              · intro a ha; simp at ha; rw [← ha]; exact hbr
        · simp only [hx, if_false] at h2 h4
          refine ⟨?_, fun h => absurd h hx, h4⟩
          rcases h2 with h2 | h2
          · exact Or.inl (List.mem_cons_of_mem _ h2)
          · exact Or.inr h2
      refine ⟨h1, key.1, ?_, key.2.2⟩
      intro e he heb
      rcases List.mem_cons.1 he with rfl | he
      · exact key.2.1 heb
      · exact h3 e he heb

theorem findState_none {lss : List (Nat × List Nat × Int)} {bound : Nat} (h : findState lss bound = none) :
    ∀ e ∈ lss, ¬ e.1 ≤ bound := by
  have := fs_fold_spec bound lss none (by simp)
  rw [findState_eq] at h
  rw [h] at this
  exact this.2

theorem findState_some {lss : List (Nat × List Nat × Int)} {bound : Nat} {r : Nat × List Nat × Int}
    (h : findState lss bound = some r) :
    r ∈ lss ∧ r.1 ≤ bound ∧ ∀ e ∈ lss, e.1 ≤ bound → e.1 ≤ r.1 := by
  have := fs_fold_spec bound lss none (by simp)
  rw [findState_eq] at h
  rw [h] at this
  simp only at this
  obtain ⟨h1, h2, h3, _⟩ := this
  refine ⟨?_, h1, h3⟩
  rcases h2 with h2 | h2
  · exact h2
  · simp at h2

/-! ## `foldOld` -/

theorem foldOld_spec (hz : Int) : ∀ (l : List LogEntry),
    l = (foldOld hz l).1 ++ (foldOld hz l).2.1 ∧
    (∀ e ∈ (foldOld hz l).1, e.ts ≤ hz) ∧
    (foldOld hz l).2.2 = (foldOld hz l).2.1.head?.map (·.idx)
  | [] => by simp [foldOld]
  | e :: rest => by
    have ih := foldOld_spec hz rest
    by_cases h : e.ts > hz
    · simp [foldOld, h]
    · simp only [foldOld, h, if_false]
      refine ⟨?_, ?_, ih.2.2⟩
      · simp only [List.cons_append]; exact congrArg _ ih.1
      · intro x hx
        rcases List.mem_cons.1 hx with rfl | hx
        · omega
        · exact ih.2.1 x hx

theorem foldFree_eq : ∀ (F : List LogEntry) (base : List Nat) (ex : Int),
    F.foldl (fun acc e => applyFree acc.1 acc.2 e) (base, ex) = (base ++ idxs F, expOf F ex)
  | [], base, ex => by simp [idxs, expOf]
  | e :: F, base, ex => by
    show F.foldl (fun acc e => applyFree acc.1 acc.2 e) (base ++ [e.idx], expStep ex e) = _
    · rw [foldFree_eq F]
      simp [idxs, expOf]

/-! ## `snapshot` in closed form -/

def horizonOf (n : Node) (now : Int) : Int :=
  now - ((if n.exp = 0 then 600000000000 else n.exp) + expireSessionsInterval)

def snapBase : Option (Nat × List Nat × Int) → List Nat
  | some (_, st, _) => st
  | none => []

def snapBaseExp : Option (Nat × List Nat × Int) → Int
  | some (_, _, ex) => ex
  | none => 600000000000

def snapLss (lss : List (Nat × List Nat × Int)) : Option (Nat × List Nat × Int) → List (Nat × List Nat × Int)
  | some (k, _, _) => lss.filter (fun (e : Nat × List Nat × Int) => e.1 = k)
  | none => lss

def snapFirst (last : Nat) : Option Nat → Nat
  | some i => i
  | none => last + 1

def snapState (found : Option (Nat × List Nat × Int)) (F : List LogEntry) : List Nat × Int :=
  F.foldl (fun acc e => applyFree acc.1 acc.2 e) (snapBase found, snapBaseExp found)

theorem snapState_eq (found : Option (Nat × List Nat × Int)) (F : List LogEntry) :
    snapState found F = (snapBase found ++ idxs F, expOf F (snapBaseExp found)) := foldFree_eq _ _ _

theorem snapshot_some_raw {n n' : Node} {now : Int} (h : n.snapshot now = some n') :
    ∃ f l, n.irc.head? = some f ∧ n.irc.getLast? = some l ∧ 1 ≤ f.idx ∧
      n' = { n with
        irc := (foldOld (horizonOf n now) n.irc).2.1,
        out := n.out.filter (fun i => !((foldOld (horizonOf n now) n.irc).1.any (·.idx == i))),
        lss := ((snapLss n.lss (findState n.lss (f.idx - 1))).filter
                  (fun (e : Nat × List Nat × Int) => e.1 ≠ snapFirst l.idx (foldOld (horizonOf n now) n.irc).2.2 - 1)) ++
               [(snapFirst l.idx (foldOld (horizonOf n now) n.irc).2.2 - 1,
                 (snapState (findState n.lss (f.idx - 1)) (foldOld (horizonOf n now) n.irc).1).1,
                 (snapState (findState n.lss (f.idx - 1)) (foldOld (horizonOf n now) n.irc).1).2)],
        pending := some ⟨snapFirst l.idx (foldOld (horizonOf n now) n.irc).2.2, l.idx,
                 (snapState (findState n.lss (f.idx - 1)) (foldOld (horizonOf n now) n.irc).1).1,
                 (snapState (findState n.lss (f.idx - 1)) (foldOld (horizonOf n now) n.irc).1).2⟩ } := by
  unfold Node.snapshot at h
  split at h
  · rename_i f l hf hl
    refine ⟨f, l, hf, hl, ?_⟩
    by_cases h1 : f.idx < 1
    · simp [h1] at h
    · simp only [h1, if_false] at h
      refine ⟨by omega, ?_⟩
      exact (Option.some.inj h).symm
  · cases h

theorem snapshot_some {n n' : Node} {now : Int} (h : n.snapshot now = some n') :
    ∃ f l, n.irc.head? = some f ∧ n.irc.getLast? = some l ∧ 1 ≤ f.idx ∧
      n' = { n with
        irc := (foldOld (horizonOf n now) n.irc).2.1,
        out := n.out.filter (fun i => !((foldOld (horizonOf n now) n.irc).1.any (·.idx == i))),
        lss := ((snapLss n.lss (findState n.lss (f.idx - 1))).filter
                  (fun (e : Nat × List Nat × Int) => e.1 ≠ snapFirst l.idx (foldOld (horizonOf n now) n.irc).2.2 - 1)) ++
               [(snapFirst l.idx (foldOld (horizonOf n now) n.irc).2.2 - 1,
                 snapBase (findState n.lss (f.idx - 1)) ++ idxs (foldOld (horizonOf n now) n.irc).1,
                 expOf (foldOld (horizonOf n now) n.irc).1 (snapBaseExp (findState n.lss (f.idx - 1))))],
        pending := some ⟨snapFirst l.idx (foldOld (horizonOf n now) n.irc).2.2, l.idx,
                 snapBase (findState n.lss (f.idx - 1)) ++ idxs (foldOld (horizonOf n now) n.irc).1,
                 expOf (foldOld (horizonOf n now) n.irc).1 (snapBaseExp (findState n.lss (f.idx - 1)))⟩ } := by
  obtain ⟨f, l, hf, hl, h1, h2⟩ := snapshot_some_raw h
  refine ⟨f, l, hf, hl, h1, ?_⟩
  rw [h2]
  simp only [snapState_eq]

/-! ## the invariant -/

/-- `st`/`ex` is the state of a never-snapshotting node that applied the log up to index `k` -/
structure GoodState (L : List LogEntry) (k : Nat) (st : List Nat) (ex : Int) : Prop where
  khi : k ≤ hi L
  st : st = idxs (upto k (cmds L))
  ex : ex = expOf (upto k (cmds L)) defaultExp

structure GoodSnap (L : List LogEntry) (s : Snap) : Prop where
  le : s.stateIdx ≤ s.index
  hi : s.index ≤ hi L
  good : GoodState L s.stateIdx s.state s.stateExp
  retained : s.retained = between s.stateIdx s.index (cmds L)

structure GoodPending (L : List LogEntry) (b : Nat) (p : Pending) : Prop where
  bnd : p.first - 1 = b
  pos : 1 ≤ p.first
  le : p.first - 1 ≤ p.last
  hi : p.last ≤ hi L
  good : GoodState L (p.first - 1) p.state p.stateExp

/-- `b` is the compaction boundary: the log copy holds exactly the commands with index `> b` -/
structure Inv (n : Node) (b : Nat) : Prop where
  sorted : Sorted n.raftlog
  pos : ∀ e ∈ n.raftlog, 1 ≤ e.idx
  live : n.live = idxs (cmds n.raftlog)
  exp : n.exp = expOf (cmds n.raftlog) defaultExp
  irc : n.irc = after b (cmds n.raftlog)
  out : ∀ i, i ∈ n.out ↔ i ∈ idxs n.irc
  bhi : b ≤ hi n.raftlog
  bkey : (∃ v, (b, v) ∈ n.lss) ∨ ∀ x ∈ cmds n.raftlog, b < x.idx
  lss : ∀ k st ex, (k, st, ex) ∈ n.lss → GoodState n.raftlog k st ex
  pend : ∀ p, n.pending = some p → GoodPending n.raftlog b p
  pers : ∀ s ∈ n.persisted, GoodSnap n.raftlog s

theorem inv_init : Inv {} 0 where
  sorted := List.Pairwise.nil
  pos := by intro e he; cases he
  live := rfl
  exp := rfl
  irc := rfl
  out := by intro i; simp [idxs]
  bhi := Nat.le_refl _
  bkey := Or.inr (by intro x hx; cases hx)
  lss := by intro k st ex h; cases h
  pend := by intro p h; cases h
  pers := by intro s h; cases h

/-! ### extending the log -/

theorem upto_cmds_append {L : List LogEntry} {e : LogEntry} {k : Nat} (h : k < e.idx) :
    upto k (cmds (L ++ [e])) = upto k (cmds L) := by
  rw [cmds_append_single]
  split
  · exact upto_append_single h
  · rw [List.append_nil]

theorem between_cmds_append {L : List LogEntry} {e : LogEntry} {a c : Nat} (h : c < e.idx) :
    between a c (cmds (L ++ [e])) = between a c (cmds L) := by
  rw [cmds_append_single]
  split
  · exact between_append_single h
  · rw [List.append_nil]

theorem after_cmds_append {L : List LogEntry} {e : LogEntry} {b : Nat} (h : b < e.idx) :
    after b (cmds (L ++ [e])) = after b (cmds L) ++ (if e.isCmd then [e] else []) := by
  rw [cmds_append_single]
  split
  · exact after_append_single h
  · simp

theorem GoodState.mono {L : List LogEntry} {k : Nat} {st : List Nat} {ex : Int} (g : GoodState L k st ex)
    {e : LogEntry} (hlt : ∀ x ∈ L, x.idx < e.idx) (hpos : 1 ≤ e.idx) : GoodState (L ++ [e]) k st ex := by
  have hk : k < e.idx := Nat.lt_of_le_of_lt g.khi (hi_lt hlt hpos)
  exact ⟨Nat.le_trans g.khi (hi_le_append _ _), by rw [upto_cmds_append hk]; exact g.st,
    by rw [upto_cmds_append hk]; exact g.ex⟩

theorem GoodSnap.mono {L : List LogEntry} {s : Snap} (g : GoodSnap L s)
    {e : LogEntry} (hlt : ∀ x ∈ L, x.idx < e.idx) (hpos : 1 ≤ e.idx) : GoodSnap (L ++ [e]) s := by
  have hk : s.index < e.idx := Nat.lt_of_le_of_lt g.hi (hi_lt hlt hpos)
  exact ⟨g.le, Nat.le_trans g.hi (hi_le_append _ _), g.good.mono hlt hpos,
    by rw [between_cmds_append hk]; exact g.retained⟩

theorem GoodPending.mono {L : List LogEntry} {b : Nat} {p : Pending} (g : GoodPending L b p)
    {e : LogEntry} (hlt : ∀ x ∈ L, x.idx < e.idx) (hpos : 1 ≤ e.idx) : GoodPending (L ++ [e]) b p :=
  ⟨g.bnd, g.pos, g.le, Nat.le_trans g.hi (hi_le_append _ _), g.good.mono hlt hpos⟩

theorem sorted_append_single {L : List LogEntry} {e : LogEntry} (h : Sorted L) (hlt : ∀ x ∈ L, x.idx < e.idx) :
    Sorted (L ++ [e]) := by
  apply List.pairwise_append.2
  refine ⟨h, List.pairwise_singleton _ _, ?_⟩
  intro a ha b hb
  rw [List.mem_singleton.1 hb]; exact hlt a ha

theorem commit_cmd (n : Node) {e : LogEntry} (h : e.isCmd = true) :
    n.commit e = { n with raftlog := n.raftlog ++ [e], live := n.live ++ [e.idx], exp := expStep n.exp e,
                          irc := insertSorted e n.irc, out := n.out ++ [e.idx] } := by
  simp [Node.commit, apply_cmd _ h]

theorem commit_noncmd (n : Node) {e : LogEntry} (h : e.isCmd = false) :
    n.commit e = { n with raftlog := n.raftlog ++ [e] } := by
  simp [Node.commit, apply_noncmd _ h]

theorem inv_commit {n : Node} {b : Nat} (I : Inv n b) {e : LogEntry}
    (hlt : ∀ x ∈ n.raftlog, x.idx < e.idx) (hpos : 1 ≤ e.idx) : Inv (n.commit e) b := by
  have hb : b < e.idx := Nat.lt_of_le_of_lt I.bhi (hi_lt hlt hpos)
  have hsorted := sorted_append_single I.sorted hlt
  have hposs : ∀ x ∈ n.raftlog ++ [e], 1 ≤ x.idx := by
    intro x hx
    rcases List.mem_append.1 hx with hx | hx
    · exact I.pos x hx
    · rw [List.mem_singleton.1 hx]; exact hpos
  have hbkey : (∃ v, (b, v) ∈ n.lss) ∨ ∀ x ∈ cmds (n.raftlog ++ [e]), b < x.idx := by
    rcases I.bkey with h | h
    · exact Or.inl h
    · right
      intro x hx
      rcases List.mem_append.1 (mem_cmds.1 hx).1 with hx' | hx'
      · exact h x (mem_cmds.2 ⟨hx', (mem_cmds.1 hx).2⟩)
      · rw [List.mem_singleton.1 hx']; exact hb
  cases hc : e.isCmd with
  | false =>
    rw [commit_noncmd n hc]
    have hcm : cmds (n.raftlog ++ [e]) = cmds n.raftlog := by simp [cmds_append_single, hc]
    exact {
      sorted := hsorted
      pos := hposs
      live := by show n.live = _; rw [hcm]; exact I.live
      exp := by show n.exp = _; rw [hcm]; exact I.exp
      irc := by show n.irc = _; rw [hcm]; exact I.irc
      out := I.out
      bhi := Nat.le_trans I.bhi (hi_le_append _ _)
      bkey := hbkey
      lss := fun k st ex h => (I.lss k st ex h).mono hlt hpos
      pend := fun p h => (I.pend p h).mono hlt hpos
      pers := fun s h => (I.pers s h).mono hlt hpos }
  | true =>
    rw [commit_cmd n hc]
    have hcm : cmds (n.raftlog ++ [e]) = cmds n.raftlog ++ [e] := by simp [cmds_append_single, hc]
    have hirc : insertSorted e n.irc = n.irc ++ [e] := by
      have hl : ∀ x ∈ n.irc, x.idx < e.idx := by
        intro x hx; rw [I.irc] at hx
        exact hlt x (mem_cmds.1 (List.mem_filter.1 hx).1).1
      have := insertSorted_append_left [] hl
      simpa [insertSorted] using this
    exact {
      sorted := hsorted
      pos := hposs
      live := by show n.live ++ [e.idx] = _; rw [hcm, I.live]; simp [idxs]
      exp := by show expStep n.exp e = _; rw [hcm, I.exp]; simp [expOf]
      irc := by
        show insertSorted e n.irc = _
        rw [hirc, after_cmds_append hb, I.irc]; simp [hc]
      out := by
        intro i
        show i ∈ n.out ++ [e.idx] ↔ i ∈ idxs (insertSorted e n.irc)
        rw [hirc, idxs_append, List.mem_append, List.mem_append, I.out i]; simp [idxs]
      bhi := Nat.le_trans I.bhi (hi_le_append _ _)
      bkey := hbkey
      lss := fun k st ex h => (I.lss k st ex h).mono hlt hpos
      pend := fun p h => (I.pend p h).mono hlt hpos
      pers := fun s h => (I.pers s h).mono hlt hpos }

/-! ### persist -/

theorem inv_persistFail {n : Node} {b : Nat} (I : Inv n b) : Inv n.persistFail b :=
  { I with pend := by intro p h; cases h }

theorem inv_persist {n : Node} {b : Nat} (I : Inv n b) : Inv n.persist b := by
  unfold Node.persist
  cases hp : n.pending with
  | none => exact I
  | some p =>
    have g := I.pend p hp
    show Inv { n with persisted := _ :: n.persisted, pending := none } b
    refine { sorted := I.sorted, pos := I.pos, live := I.live, exp := I.exp, irc := I.irc, out := I.out,
             bhi := I.bhi, bkey := I.bkey, lss := I.lss, pend := (by intro p h; cases h), pers := ?_ }
    intro s hs
    rcases List.mem_cons.1 hs with rfl | hs
    · refine ⟨g.le, g.hi, g.good, ?_⟩
      show n.irc.filter _ = between (p.first - 1) p.last (cmds n.raftlog)
      rw [I.irc]
      simp only [after, between, List.filter_filter]
      apply List.filter_congr
      intro x _
      have := g.bnd; have := g.pos
      by_cases h1 : p.first ≤ x.idx <;> by_cases h2 : x.idx ≤ p.last <;> by_cases h3 : b < x.idx <;>
        simp [h1, h2, h3] <;> omega
    · exact I.pers s hs

/-! ### snapshot -/

theorem mem_snapLss {lss : List (Nat × List Nat × Int)} {found : Option (Nat × List Nat × Int)}
    {x : Nat × List Nat × Int} (h : x ∈ snapLss lss found) : x ∈ lss := by
  cases found with
  | none => exact h
  | some r => exact (List.mem_filter.1 h).1

/-- the state found under the greatest key `≤ first-1` is the folded prefix -/
theorem found_base {n : Node} {b : Nat} (I : Inv n b) {f : LogEntry} (hf : n.irc.head? = some f) :
    snapBase (findState n.lss (f.idx - 1)) = idxs (upto b (cmds n.raftlog)) ∧
    snapBaseExp (findState n.lss (f.idx - 1)) = expOf (upto b (cmds n.raftlog)) defaultExp := by
  obtain ⟨rest, hrest⟩ := List.head?_eq_some_iff.1 hf
  have hC : Sorted (cmds n.raftlog) := sorted_cmds I.sorted
  have hfm : f ∈ after b (cmds n.raftlog) := by rw [← I.irc, hrest]; exact List.mem_cons_self ..
  have hbf : b < f.idx := by simpa using (List.mem_filter.1 hfm).2
  have hf1 : 1 ≤ f.idx := I.pos f (mem_cmds.1 (List.mem_filter.1 hfm).1).1
  have hfirst : ∀ x ∈ cmds n.raftlog, b < x.idx → f.idx ≤ x.idx := by
    intro x hx hbx
    have hx' : x ∈ n.irc := by rw [I.irc]; exact List.mem_filter.2 ⟨hx, by simpa using hbx⟩
    have hs : Sorted n.irc := by rw [I.irc]; exact hC.filter _
    rw [hrest] at hx' hs
    rcases List.mem_cons.1 hx' with rfl | hx'
    · exact Nat.le_refl _
    · exact Nat.le_of_lt ((List.pairwise_cons.1 hs).1 x hx')
  cases hfound : findState n.lss (f.idx - 1) with
  | none =>
    have hnone := findState_none hfound
    have hall : ∀ x ∈ cmds n.raftlog, b < x.idx := by
      rcases I.bkey with ⟨v, hv⟩ | h
      · exact absurd (show (b, v).1 ≤ f.idx - 1 by show b ≤ f.idx - 1; omega) (hnone _ hv)
      · exact h
    have : upto b (cmds n.raftlog) = [] :=
      List.filter_eq_nil_iff.2 (fun a ha => by have := hall a ha; simp; omega)
    rw [this]; exact ⟨rfl, rfl⟩
  | some r =>
    obtain ⟨k, st, ex⟩ := r
    obtain ⟨hmem, hle, hmax⟩ := findState_some hfound
    have hle : k ≤ f.idx - 1 := hle
    have g := I.lss k st ex hmem
    have heq : upto k (cmds n.raftlog) = upto b (cmds n.raftlog) := by
      apply List.filter_congr
      intro x hx
      have h1 : x.idx ≤ k → x.idx ≤ b := by
        intro hxk
        by_cases hbx : b < x.idx
        · have := hfirst x hx hbx; omega
        · omega
      have h2 : x.idx ≤ b → x.idx ≤ k := by
        intro hxb
        rcases I.bkey with ⟨v, hv⟩ | h
        · have : b ≤ k := hmax (b, v) hv (show b ≤ f.idx - 1 by omega)
          omega
        · have := h x hx; omega
      by_cases hxk : x.idx ≤ k
      · simp [hxk, h1 hxk]
      · have : ¬ x.idx ≤ b := fun h => hxk (h2 h)
        simp [hxk, this]
    show st = _ ∧ ex = _
    rw [← heq]; exact ⟨g.st, g.ex⟩

theorem inv_snapshot {n n' : Node} {b : Nat} {now : Int} (I : Inv n b) (h : n.snapshot now = some n') :
    ∃ b', Inv n' b' := by
  obtain ⟨f, l, hf, hl, _, hn'⟩ := snapshot_some h
  obtain ⟨hbase, hbaseExp⟩ := found_base I hf
  obtain ⟨hsplit, _, hbrk⟩ := foldOld_spec (horizonOf n now) n.irc
  rw [hbase, hbaseExp] at hn'
  generalize hF : (foldOld (horizonOf n now) n.irc).1 = F at hn' hsplit hbrk
  generalize hR : (foldOld (horizonOf n now) n.irc).2.1 = R at hn' hsplit hbrk
  generalize hB : (foldOld (horizonOf n now) n.irc).2.2 = brk at hn' hbrk
  have hC : Sorted (cmds n.raftlog) := sorted_cmds I.sorted
  have hs : Sorted n.irc := by rw [I.irc]; exact hC.filter _
  have hmem : ∀ x ∈ n.irc, b < x.idx ∧ 1 ≤ x.idx ∧ x.idx ≤ hi n.raftlog := by
    intro x hx
    rw [I.irc] at hx
    have hxL := (mem_cmds.1 (List.mem_filter.1 hx).1).1
    exact ⟨by simpa using (List.mem_filter.1 hx).2, I.pos x hxL, le_hi hxL⟩
  have hlm : l ∈ n.irc := List.mem_of_getLast? hl
  have hlast := sorted_le_last hs hl
  -- the new boundary
  have key : ∃ b', snapFirst l.idx brk - 1 = b' ∧ 1 ≤ snapFirst l.idx brk ∧ b ≤ b' ∧ b' ≤ l.idx ∧
      (∀ x ∈ F, x.idx ≤ b') ∧ (∀ x ∈ R, b' < x.idx) := by
    refine ⟨_, rfl, ?_⟩
    cases R with
    | nil =>
      have : brk = none := by simpa using hbrk
      subst this
      simp only [snapFirst]
      have := (hmem l hlm).1
      refine ⟨by omega, by omega, by omega, ?_, by intro x hx; cases hx⟩
      intro x hx
      have := hlast x (by rw [hsplit]; exact List.mem_append_left _ hx)
      omega
    | cons r R' =>
      have : brk = some r.idx := by simpa using hbrk
      subst this
      simp only [snapFirst]
      have hrm : r ∈ n.irc := by rw [hsplit]; exact List.mem_append_right _ (List.mem_cons_self ..)
      have hr := hmem r hrm
      have hrl := hlast r hrm
      rw [hsplit] at hs
      obtain ⟨_, hsR, hFR⟩ := List.pairwise_append.1 hs
      refine ⟨hr.2.1, by omega, by omega, ?_, ?_⟩
      · intro x hx
        have := hFR x hx r (List.mem_cons_self ..)
        omega
      · intro x hx
        rcases List.mem_cons.1 hx with rfl | hx
        · omega
        · have := (List.pairwise_cons.1 hsR).1 x hx
          omega
  obtain ⟨b', hb', hpos', hbb', hbl, hFle, hRgt⟩ := key
  rw [hb'] at hn'
  have hl_hi : l.idx ≤ hi n.raftlog := (hmem l hlm).2.2
  -- the command list splits as folded-before ++ F ++ R
  have hCsplit : cmds n.raftlog = (upto b (cmds n.raftlog) ++ F) ++ R := by
    rw [List.append_assoc, ← hsplit, I.irc]; exact (sorted_split hC b).symm
  have hA : ∀ x ∈ upto b (cmds n.raftlog) ++ F, x.idx ≤ b' := by
    intro x hx
    rcases List.mem_append.1 hx with hx | hx
    · have : x.idx ≤ b := by simpa using (List.mem_filter.1 hx).2
      omega
    · exact hFle x hx
  have hfs := filter_of_split hA hRgt
  rw [← hCsplit] at hfs
  obtain ⟨hup, haf⟩ := hfs
  have hgood : GoodState n.raftlog b' (idxs (upto b (cmds n.raftlog)) ++ idxs F)
      (expOf F (expOf (upto b (cmds n.raftlog)) defaultExp)) :=
    ⟨Nat.le_trans hbl hl_hi, by rw [hup, idxs_append], by rw [hup, expOf_append]⟩
  refine ⟨b', ?_⟩
  rw [hn']
  exact {
    sorted := I.sorted
    pos := I.pos
    live := I.live
    exp := I.exp
    irc := haf.symm
    out := by
      intro i
      show i ∈ n.out.filter _ ↔ i ∈ idxs R
      rw [List.mem_filter, I.out i, hsplit, idxs_append, List.mem_append]
      constructor
      · rintro ⟨h1 | h1, h2⟩
        · exfalso
          obtain ⟨x, hx, rfl⟩ := List.mem_map.1 h1
          have : F.any (fun y => y.idx == x.idx) = true := List.any_eq_true.2 ⟨x, hx, by simp⟩
          simp [this] at h2
        · exact h1
      · intro h1
        refine ⟨Or.inr h1, ?_⟩
        obtain ⟨y, hy, rfl⟩ := List.mem_map.1 h1
        have : F.any (fun x => x.idx == y.idx) = false := by
          apply Bool.eq_false_iff.2
          intro hany
          obtain ⟨x, hx, hxy⟩ := List.any_eq_true.1 hany
          have h1 := hFle x hx
          have h2 := hRgt y hy
          have : x.idx = y.idx := by simpa using hxy
          omega
        simp [this]
    bhi := Nat.le_trans hbl hl_hi
    bkey := Or.inl ⟨_, List.mem_append_right _ (List.mem_singleton.2 rfl)⟩
    lss := by
      intro k st ex hk
      rcases List.mem_append.1 hk with hk | hk
      · exact I.lss k st ex (mem_snapLss (List.mem_filter.1 hk).1)
      · have := List.mem_singleton.1 hk
        simp only [Prod.mk.injEq] at this
        obtain ⟨rfl, rfl, rfl⟩ := this
        exact hgood
    pend := by
      intro p hp
      have := (Option.some.inj hp).symm
      subst this
      exact ⟨hb', hpos', by show snapFirst l.idx brk - 1 ≤ l.idx; omega, hl_hi, by
        show GoodState n.raftlog (snapFirst l.idx brk - 1) _ _
        rw [hb']; exact hgood⟩
    pers := I.pers }

/-! ### restore + replay of the log after the snapshot -/

theorem restore_eq (n : Node) (s : Snap) :
    n.restore s = applyAll s.retained
      { n with
        live := s.state, exp := s.stateExp, irc := [], out := [],
        lss := (n.lss.filter (fun e => e.1 ≠ s.stateIdx)) ++ [(s.stateIdx, s.state, s.stateExp)],
        pending := none } := rfl

theorem cmds_between (a c : Nat) (L : List LogEntry) : cmds (between a c (cmds L)) = between a c (cmds L) :=
  cmds_of_all_cmd (fun _ hx => (mem_cmds.1 (List.mem_filter.1 hx).1).2)

theorem inv_restore_replay {n0 : Node} {s : Snap}
    (hsorted : Sorted n0.raftlog) (hpos : ∀ e ∈ n0.raftlog, 1 ≤ e.idx)
    (hlss : ∀ k st ex, (k, st, ex) ∈ n0.lss → GoodState n0.raftlog k st ex)
    (hpers : ∀ s ∈ n0.persisted, GoodSnap n0.raftlog s)
    (g : GoodSnap n0.raftlog s) :
    Inv (applyAll (n0.raftlog.filter (fun e => s.index < e.idx)) (n0.restore s)) s.stateIdx := by
  have hC : Sorted (cmds n0.raftlog) := sorted_cmds hsorted
  have e1 : cmds s.retained = between s.stateIdx s.index (cmds n0.raftlog) := by
    rw [g.retained]; exact cmds_between _ _ _
  have e2 : cmds (n0.raftlog.filter (fun e => decide (s.index < e.idx))) = after s.index (cmds n0.raftlog) :=
    cmds_filter_comm _ _
  have e3 := between_after hC g.le
  have e4 := upto_between hC g.le
  have e5 := sorted_split hC s.index
  have hirc : insertAll (after s.index (cmds n0.raftlog))
      (insertAll (between s.stateIdx s.index (cmds n0.raftlog)) []) = after s.stateIdx (cmds n0.raftlog) := by
    rw [insertAll_append _ [] (by rw [List.nil_append]; exact hC.filter _), List.nil_append,
      insertAll_append _ _ (by rw [e3]; exact hC.filter _), e3]
  rw [restore_eq, applyAll_eq, applyAll_eq, e1, e2]
  exact {
    sorted := hsorted
    pos := hpos
    live := by
      show (s.state ++ idxs (between s.stateIdx s.index (cmds n0.raftlog))) ++
        idxs (after s.index (cmds n0.raftlog)) = idxs (cmds n0.raftlog)
      rw [g.good.st, ← idxs_append, ← idxs_append, e4, e5]
    exp := by
      show expOf (after s.index (cmds n0.raftlog))
        (expOf (between s.stateIdx s.index (cmds n0.raftlog)) s.stateExp) = expOf (cmds n0.raftlog) defaultExp
      rw [g.good.ex, ← expOf_append, ← expOf_append, e3, sorted_split hC]
    irc := hirc
    out := by
      intro i
      show i ∈ ([] ++ idxs (between s.stateIdx s.index (cmds n0.raftlog))) ++
        idxs (after s.index (cmds n0.raftlog)) ↔
        i ∈ idxs (insertAll (after s.index (cmds n0.raftlog))
          (insertAll (between s.stateIdx s.index (cmds n0.raftlog)) []))
      rw [hirc, List.nil_append, ← idxs_append, e3]
    bhi := Nat.le_trans g.le g.hi
    bkey := Or.inl ⟨_, List.mem_append_right _ (List.mem_singleton.2 rfl)⟩
    lss := by
      intro k st ex hk
      rcases List.mem_append.1 hk with hk | hk
      · exact hlss k st ex (List.mem_filter.1 hk).1
      · have := List.mem_singleton.1 hk
        simp only [Prod.mk.injEq] at this
        obtain ⟨rfl, rfl, rfl⟩ := this
        exact g.good
    pend := by intro p hp; cases hp
    pers := hpers }

theorem inv_restoreLatest {n : Node} {b : Nat} (I : Inv n b) : ∃ b', Inv (n.step .restoreLatest) b' := by
  show ∃ b', Inv (match n.persisted.head? with
    | some s => (n.raftlog.filter (fun e => s.index < e.idx)).foldl (fun n e => n.apply e) (n.restore s)
    | none => n) b'
  cases hh : n.persisted.head? with
  | none => exact ⟨b, I⟩
  | some s =>
    have hs : s ∈ n.persisted := List.mem_of_head? hh
    exact ⟨_, inv_restore_replay I.sorted I.pos I.lss I.pers (I.pers s hs)⟩

theorem inv_restart {n : Node} {b : Nat} (I : Inv n b) : ∃ b', Inv n.restart b' := by
  unfold Node.restart
  cases hh : n.persisted.head? with
  | some s =>
    have hs : s ∈ n.persisted := List.mem_of_head? hh
    exact ⟨_, inv_restore_replay (n0 := { irc := n.irc, persisted := n.persisted, raftlog := n.raftlog })
      I.sorted I.pos (by intro k st ex h; cases h) I.pers (I.pers s hs)⟩
  | none =>
    have hnil : n.persisted = [] := by
      cases hp : n.persisted with
      | nil => rfl
      | cons a as => rw [hp] at hh; cases hh
    have hC : Sorted (cmds n.raftlog) := sorted_cmds I.sorted
    have hall : ∀ x ∈ cmds n.raftlog, 0 < x.idx := fun x hx => I.pos x (mem_cmds.1 hx).1
    have h0 : after 0 (cmds n.raftlog) = cmds n.raftlog :=
      List.filter_eq_self.2 (fun a ha => by simpa using hall a ha)
    refine ⟨0, ?_⟩
    show Inv (applyAll n.raftlog _) 0
    rw [applyAll_eq]
    have hirc : insertAll (cmds n.raftlog) n.irc = cmds n.raftlog := by
      have := insertAll_refill b (cmds n.raftlog) [] (by simpa using hC)
      simpa [I.irc] using this
    exact {
      sorted := I.sorted
      pos := I.pos
      live := by show [] ++ idxs _ = _; rw [List.nil_append]
      exp := rfl
      irc := by show insertAll (cmds n.raftlog) n.irc = _; rw [hirc, h0]
      out := by
        intro i
        show i ∈ [] ++ idxs _ ↔ i ∈ idxs (insertAll (cmds n.raftlog) n.irc)
        rw [hirc, List.nil_append]
      bhi := Nat.zero_le _
      bkey := Or.inr hall
      lss := by intro k st ex h; cases h
      pend := by intro p hp; cases hp
      pers := by intro s hs; rw [hnil] at hs; cases hs }

/-! ### whole schedules -/

def commitsOf : List Op → List LogEntry
  | [] => []
  | .commit e :: r => e :: commitsOf r
  | _ :: r => commitsOf r

theorem applyAll_raftlog (es : List LogEntry) (n : Node) : (applyAll es n).raftlog = n.raftlog := by
  rw [applyAll_eq]

theorem step_raftlog (n : Node) (op : Op) :
    (n.step op).raftlog = n.raftlog ++ commitsOf [op] := by
  cases op with
  | commit e =>
    show (n.commit e).raftlog = n.raftlog ++ [e]
    cases hc : e.isCmd with
    | false => rw [commit_noncmd n hc]
    | true => rw [commit_cmd n hc]
  | snapshot now =>
    show ((n.snapshot now).getD n).raftlog = n.raftlog ++ []
    rw [List.append_nil]
    cases h : n.snapshot now with
    | none => rfl
    | some n' =>
      obtain ⟨f, l, _, _, _, hn'⟩ := snapshot_some h
      rw [hn']; rfl
  | persist =>
    show n.persist.raftlog = n.raftlog ++ []
    rw [List.append_nil]
    unfold Node.persist
    cases n.pending <;> rfl
  | persistFail => show n.raftlog = n.raftlog ++ []; rw [List.append_nil]
  | restoreLatest =>
    show (match n.persisted.head? with
      | some s => applyAll (n.raftlog.filter (fun e => s.index < e.idx)) (n.restore s)
      | none => n).raftlog = n.raftlog ++ []
    rw [List.append_nil]
    cases n.persisted.head? with
    | none => rfl
    | some s => show (applyAll _ _).raftlog = _; rw [applyAll_raftlog, restore_eq, applyAll_raftlog]
  | restart =>
    show n.restart.raftlog = n.raftlog ++ []
    rw [List.append_nil]
    unfold Node.restart
    cases n.persisted.head? with
    | none => show (applyAll _ _).raftlog = _; rw [applyAll_raftlog]
    | some s => show (applyAll _ _).raftlog = _; rw [applyAll_raftlog, restore_eq, applyAll_raftlog]

theorem inv_step {n : Node} {b : Nat} (I : Inv n b) (op : Op)
    (hop : ∀ e, op = .commit e → (∀ x ∈ n.raftlog, x.idx < e.idx) ∧ 1 ≤ e.idx) :
    ∃ b', Inv (n.step op) b' := by
  cases op with
  | commit e => exact ⟨b, inv_commit I (hop e rfl).1 (hop e rfl).2⟩
  | snapshot now =>
    show ∃ b', Inv ((n.snapshot now).getD n) b'
    cases h : n.snapshot now with
    | none => exact ⟨b, I⟩
    | some n' => exact inv_snapshot I h
  | persist => exact ⟨b, inv_persist I⟩
  | persistFail => exact ⟨b, inv_persistFail I⟩
  | restoreLatest => exact inv_restoreLatest I
  | restart => exact inv_restart I

theorem inv_run : ∀ (ops : List Op) {n : Node} {b : Nat}, Inv n b →
    Sorted (n.raftlog ++ commitsOf ops) → (∀ e ∈ commitsOf ops, 1 ≤ e.idx) →
    (n.run ops).raftlog = n.raftlog ++ commitsOf ops ∧ ∃ b', Inv (n.run ops) b'
  | [], n, b, I, _, _ => ⟨by simp [Node.run, commitsOf], b, I⟩
  | op :: ops, n, b, I, hs, hp => by
    have hop : ∀ e, op = .commit e → (∀ x ∈ n.raftlog, x.idx < e.idx) ∧ 1 ≤ e.idx := by
      intro e he
      subst he
      refine ⟨?_, hp e (List.mem_cons_self ..)⟩
      intro x hx
      exact (List.pairwise_append.1 hs).2.2 x hx e (List.mem_cons_self ..)
    obtain ⟨b1, I1⟩ := inv_step I op hop
    have hr := step_raftlog n op
    have hc : commitsOf (op :: ops) = commitsOf [op] ++ commitsOf ops := by
      cases op <;> simp [commitsOf]
    have hs' : Sorted ((n.step op).raftlog ++ commitsOf ops) := by
      rw [hr, List.append_assoc, ← hc]; exact hs
    have hp' : ∀ e ∈ commitsOf ops, 1 ≤ e.idx := by
      intro e he; apply hp; rw [hc]; exact List.mem_append_right _ he
    obtain ⟨h1, h2⟩ := inv_run ops I1 hs' hp'
    refine ⟨?_, h2⟩
    show ((n.step op).run ops).raftlog = _
    rw [h1, hr, List.append_assoc, ← hc]

end Robust.Fsm
