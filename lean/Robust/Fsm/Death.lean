/-!
Message-of-death containment (statemachine.go `applyProto` + restart), generic in the state
machine: `apply s m = none` models a panic while applying `m`.  A node's durable raft log is a
list of entries, each possibly already marked as message of death; a *life* of the process
replays the log from the start and dies at the first entry whose application panics, after
rewriting exactly that entry as message of death.
-/
namespace Robust.Fsm.Death

variable {S M : Type}

structure E (M : Type) where
  msg : M
  dead : Bool

/-- what replaying one durable entry does: marked entries only have the marker effect -/
def replayOne (apply : S → M → Option S) (death : S → M → S) (s : S) (e : E M) : Option S :=
  if e.dead then some (death s e.msg) else apply s e.msg

/-- replay of a whole log without any panic handling: `none` if some entry panics -/
def replay (apply : S → M → Option S) (death : S → M → S) (s : S) : List (E M) → Option S
  | [] => some s
  | e :: rest => match replayOne apply death s e with
    | none => none
    | some s' => replay apply death s' rest

/-- one life of the process: returns the durable log afterwards and the state if it survived -/
def life (apply : S → M → Option S) (death : S → M → S) (s : S) : List (E M) → List (E M) × Option S
  | [] => ([], some s)
  | e :: rest => match replayOne apply death s e with
    | none => ({ e with dead := true } :: rest, none)          -- mark exactly this entry, terminate
    | some s' =>
      let (log', r) := life apply death s' rest
      (e :: log', r)

/-- restart until a life survives (`fuel` restarts at most) -/
def lives (apply : S → M → Option S) (death : S → M → S) (init : S) : Nat → List (E M) → List (E M) × Option S
  | 0, log => (log, none)
  | fuel + 1, log =>
    match life apply death init log with
    | (log', some s) => (log', some s)
    | (log', none) => lives apply death init fuel log'

def alive (log : List (E M)) : Nat := (log.filter (fun e => !e.dead)).length

/-- a life never changes the messages, only possibly one `dead` flag -/
theorem life_msgs (apply : S → M → Option S) (death : S → M → S) (s : S) (log : List (E M)) :
    (life apply death s log).1.map (·.msg) = log.map (·.msg) := by
  induction log generalizing s with
  | nil => rfl
  | cons e rest ih =>
    simp only [life]
    cases h : replayOne apply death s e with
    | none => simp
    | some s' => simp [ih s']

/-- a life that survives leaves the log untouched and ends in the replayed state -/
theorem life_survives (apply : S → M → Option S) (death : S → M → S) (s : S) (log : List (E M)) (s' : S)
    (h : (life apply death s log).2 = some s') : (life apply death s log).1 = log ∧ replay apply death s log = some s' := by
  induction log generalizing s with
  | nil => simp [life] at h; subst h; exact ⟨rfl, rfl⟩
  | cons e rest ih =>
    simp only [life] at h ⊢
    cases hr : replayOne apply death s e with
    | none => simp [hr] at h
    | some s1 =>
      simp only [hr] at h ⊢
      obtain ⟨a, b⟩ := ih s1 h
      exact ⟨by simp [a], by simp [replay, hr, b]⟩

/-- a life that dies marks exactly one entry that was not marked before: everything before it
is unchanged and was applied normally, everything after it is unchanged -/
theorem life_dies (apply : S → M → Option S) (death : S → M → S) (s : S) (log : List (E M))
    (h : (life apply death s log).2 = none) :
    ∃ pre e post sk, log = pre ++ e :: post ∧ e.dead = false ∧
      (life apply death s log).1 = pre ++ { e with dead := true } :: post ∧
      replay apply death s pre = some sk ∧ apply sk e.msg = none := by
  induction log generalizing s with
  | nil => simp [life] at h
  | cons e rest ih =>
    simp only [life] at h ⊢
    cases hr : replayOne apply death s e with
    | none =>
      refine ⟨[], e, rest, s, rfl, ?_, by simp, rfl, ?_⟩
      · cases hd : e.dead with
        | false => rfl
        | true => simp [replayOne, hd] at hr
      · cases hd : e.dead with
        | false => simpa [replayOne, hd] using hr
        | true => simp [replayOne, hd] at hr
    | some s1 =>
      simp only [hr] at h ⊢
      obtain ⟨pre, e', post, sk, h1, h2, h3, h4, h5⟩ := ih s1 h
      refine ⟨e :: pre, e', post, sk, by simp [h1], h2, by simp [h3], by simp [replay, hr, h4], h5⟩

theorem alive_mark (pre post : List (E M)) (e : E M) (h : e.dead = false) :
    alive (pre ++ { e with dead := true } :: post) + 1 = alive (pre ++ e :: post) := by
  simp [alive, List.filter_append, List.filter_cons, h]
  omega

/-- with enough restarts the node comes up: the final log differs from the original only in
`dead` flags, replaying it does not panic, and the final state is that replay -/
theorem lives_converge (apply : S → M → Option S) (death : S → M → S) (init : S) (log : List (E M)) (fuel : Nat)
    (hf : alive log < fuel) :
    ∃ s, (lives apply death init fuel log).2 = some s ∧
      replay apply death init (lives apply death init fuel log).1 = some s ∧
      (lives apply death init fuel log).1.map (·.msg) = log.map (·.msg) := by
  induction fuel generalizing log with
  | zero => omega
  | succ fuel ih =>
    simp only [lives]
    cases hl : life apply death init log with
    | mk log' r =>
      cases r with
      | some s =>
        have hsv := life_survives apply death init log s (by rw [hl])
        rw [hl] at hsv
        simp only at hsv
        refine ⟨s, rfl, ?_, ?_⟩
        · show replay apply death init log' = some s
          rw [hsv.1]; exact hsv.2
        · show log'.map (·.msg) = log.map (·.msg)
          rw [hsv.1]
      | none =>
        obtain ⟨pre, e, post, sk, h1, h2, h3, _, _⟩ := life_dies apply death init log (by rw [hl])
        rw [hl] at h3
        simp only at h3
        have hm := life_msgs apply death init log
        rw [hl] at hm
        have hal : alive log' < fuel := by
          have := alive_mark pre post e h2
          rw [← h1, ← h3] at this
          omega
        obtain ⟨s, a, b, c⟩ := ih log' hal
        exact ⟨s, a, b, by rw [c]; exact hm⟩

end Robust.Fsm.Death
