/-!
Model of the FSM's compaction bookkeeping (statemachine.go: `Apply`, `Snapshot`, `Restore`;
compaction.go: `Persist`; plus raft's restart behaviour), generic in the IRC layer: the
replicated state is the **free interpretation** — the list of command indices applied so far —
so "same state as a node that never snapshotted" is list equality.  C01 (applying is a function
of the entries) and C03 (save/load is invisible) connect this to the real `IRCServer`.
-/
namespace Robust.Fsm

/-- a committed raft log entry; only command entries reach `FSM.Apply` -/
structure LogEntry where
  idx : Nat
  ts : Int          -- message timestamp (ns)
  isCmd : Bool
  /-- `some d` when the entry is a network configuration setting SessionExpiration to `d` ns -/
  setsExp : Option Int
  deriving Repr, DecidableEq, Inhabited

/-- what `Persist` wrote into raft's snapshot store -/
structure Snap where
  index : Nat                 -- raft's snapshot index (= `lastIndex` of the robustSnapshot)
  stateIdx : Nat              -- `lastIncludedIndex` inside the serialized state (`first-1`)
  state : List Nat            -- serialized IRC state: the command indices folded into it
  stateExp : Int              -- session expiration inside the serialized config
  retained : List LogEntry    -- the raw entries copied after the state message
  deriving Repr, DecidableEq, Inhabited

/-- in-memory result of `FSM.Snapshot()` waiting to be persisted -/
structure Pending where
  first : Nat
  last : Nat
  state : List Nat
  stateExp : Int
  deriving Repr, DecidableEq, Inhabited

structure Node where
  live : List Nat := []                 -- IRC state = applied command indices, in order
  exp : Int := 600000000000             -- SessionExpiration of the live configuration
  irc : List LogEntry := []             -- ircstore (irclog), sorted by index
  out : List Nat := []                  -- ids present in the output store (besides the sentinel)
  lss : List (Nat × List Nat × Int) := []   -- lastSnapshotState: key ↦ (state, its expiration)
  pending : Option Pending := none
  persisted : List Snap := []           -- raft's snapshot store, newest first
  raftlog : List LogEntry := []         -- raft's durable log (never truncated in this model)
  deriving Repr, Inhabited

def insertSorted (e : LogEntry) : List LogEntry → List LogEntry
  | [] => [e]
  | x :: xs => if e.idx < x.idx then e :: x :: xs else if e.idx = x.idx then e :: xs else x :: insertSorted e xs

/-- `applyRobustMessage` on the free state -/
def applyFree (live : List Nat) (exp : Int) (e : LogEntry) : List Nat × Int :=
  (live ++ [e.idx], match e.setsExp with | some d => d | none => exp)

/-- `FSM.Apply` (command entries only; others are skipped) -/
def Node.apply (n : Node) (e : LogEntry) : Node :=
  if !e.isCmd then n
  else
    let (live, exp) := applyFree n.live n.exp e
    { n with live := live, exp := exp, irc := insertSorted e n.irc, out := n.out ++ [e.idx] }

/-- raft appends the entry to its durable log, then applies it -/
def Node.commit (n : Node) (e : LogEntry) : Node := ({ n with raftlog := n.raftlog ++ [e] }).apply e

/-- greatest key `≤ bound` in `lastSnapshotState` -/
def findState (lss : List (Nat × List Nat × Int)) (bound : Nat) : Option (Nat × List Nat × Int) :=
  lss.foldl (fun best e => if e.1 ≤ bound then (match best with
    | some b => if e.1 > b.1 then some e else some b
    | none => some e) else best) none

def expireSessionsInterval : Int := 10000000000

/-- the fold-and-delete loop: returns (folded entries, remaining store, index of the first retained entry) -/
def foldOld (horizon : Int) : List LogEntry → List LogEntry × List LogEntry × Option Nat
  | [] => ([], [], none)
  | e :: rest =>
    if e.ts > horizon then ([], e :: rest, some e.idx)
    else
      let (f, r, b) := foldOld horizon rest
      (e :: f, r, b)

/-- `FSM.Snapshot()` at wall-clock `now`; `none` = returned an error, nothing changed -/
def Node.snapshot (n : Node) (now : Int) : Option Node :=
  match n.irc.head?, n.irc.getLast? with
  | some f, some l =>
    let first := f.idx
    let last := l.idx
    if first < 1 then none
    else
      let exp := (if n.exp = 0 then 600000000000 else n.exp) + expireSessionsInterval
      let horizon := now - exp
      let found := findState n.lss (first - 1)
      let base : List Nat := match found with | some (_, st, _) => st | none => []
      let baseExp : Int := match found with | some (_, _, ex) => ex | none => 600000000000
      let lss : List (Nat × List Nat × Int) := match found with
        | some (k, _, _) => n.lss.filter (fun (e : Nat × List Nat × Int) => e.1 = k)
        | none => n.lss
      let (folded, remaining, brk) := foldOld horizon n.irc
      let (state, stateExp) := folded.foldl (fun acc e => applyFree acc.1 acc.2 e) (base, baseExp)
      let first' := match brk with | some i => i | none => last + 1
      let lss := (lss.filter (fun (e : Nat × List Nat × Int) => e.1 ≠ first' - 1)) ++ [(first' - 1, state, stateExp)]
      some { n with irc := remaining, out := n.out.filter (fun i => !(folded.any (·.idx == i))), lss := lss,
                    pending := some ⟨first', last, state, stateExp⟩ }
  | _, _ => none

/-- `robustSnapshot.Persist` succeeds: the retained range is read from ircstore *now* -/
def Node.persist (n : Node) : Node :=
  match n.pending with
  | none => n
  | some p =>
    let retained := n.irc.filter (fun e => p.first ≤ e.idx ∧ e.idx ≤ p.last)
    { n with persisted := ⟨p.last, p.first - 1, p.state, p.stateExp, retained⟩ :: n.persisted, pending := none }

/-- the sink fails: nothing is stored -/
def Node.persistFail (n : Node) : Node := { n with pending := none }

/-- `FSM.Restore(snap)`: wipe irclog and output, load the state, re-apply the retained entries -/
def Node.restore (n : Node) (s : Snap) : Node :=
  let n : Node := { n with live := s.state, exp := s.stateExp, irc := [], out := [],
                           lss := (n.lss.filter (fun e => e.1 ≠ s.stateIdx)) ++ [(s.stateIdx, s.state, s.stateExp)], pending := none }
  s.retained.foldl (fun n e => n.apply e) n

/-- process restart: fresh FSM (irclog and raft log survive on disk, output store and in-memory
state do not); raft restores the newest snapshot, then replays its log after the snapshot index -/
def Node.restart (n : Node) : Node :=
  let fresh : Node := { irc := n.irc, persisted := n.persisted, raftlog := n.raftlog }
  match n.persisted.head? with
  | some s =>
    let r := fresh.restore s
    (n.raftlog.filter (fun e => s.index < e.idx)).foldl (fun n e => n.apply e) r
  | none => n.raftlog.foldl (fun n e => n.apply e) fresh

inductive Op where
  | commit (e : LogEntry)
  | snapshot (now : Int)
  | persist
  | persistFail
  | restoreLatest     -- raft installs the newest snapshot; the log continues after its index
  | restart
  deriving Repr, DecidableEq

def Node.step (n : Node) : Op → Node
  | .commit e => n.commit e
  | .snapshot now => (n.snapshot now).getD n
  | .persist => n.persist
  | .persistFail => n.persistFail
  | .restoreLatest => match n.persisted.head? with
    | some s => (n.raftlog.filter (fun e => s.index < e.idx)).foldl (fun n e => n.apply e) (n.restore s)
    | none => n
  | .restart => n.restart

def Node.run (n : Node) (ops : List Op) : Node := ops.foldl Node.step n

end Robust.Fsm
