import Robust.Base.Bytes
import Robust.Codec.Message
/-!
Model of `internal/raftstore/leveldb.go`.

LevelDB is a finite map from byte strings to values, iterated in lexicographic key order
(`KV`, kept sorted).  Log entries live under `be64 index`, stable-store values under
`"stablestore-" ++ key`.  The value codecs (protobuf / legacy JSON for `raft.Log`, and for the
`robust.Message` inside a command entry) are assumed to round-trip (validated by the Go
differential runs, field copies proved in C18); values are therefore modelled as decoded
records tagged with the encoding they were written in.
-/
namespace Robust.Store
open Robust Robust.Bytes Robust.Codec

/-- lexicographic order on byte strings (`bytes.Compare < 0`) -/
def lexLt : Bytes → Bytes → Bool
  | [], [] => false
  | [], _ :: _ => true
  | _ :: _, [] => false
  | a :: as, b :: bs => if a < b then true else if b < a then false else lexLt as bs

def isPrefixOf : Bytes → Bytes → Bool
  | [], _ => true
  | _ :: _, [] => false
  | a :: as, b :: bs => a == b && isPrefixOf as bs

/-- `"stablestore-"` -/
def stablePrefix : Bytes := [115, 116, 97, 98, 108, 101, 115, 116, 111, 114, 101, 45]

def isStable (k : Bytes) : Bool := isPrefixOf stablePrefix k

inductive Fmt where | json | proto
  deriving Repr, DecidableEq

/-- payload of a raft log entry: an encoded `robust.Message` (command entries) or opaque bytes -/
inductive Data where
  | msg (f : Fmt) (m : RMsg)
  | raw (bs : Bytes)
  deriving Repr, DecidableEq

structure LogEntry where
  index : Nat
  term : Nat
  type : Nat           -- 0 = LogCommand
  data : Data
  ext : Bytes
  atSec : Int          -- AppendedAt (UTC): seconds and nanoseconds
  atNsec : Nat
  deriving Repr, DecidableEq

inductive Val where
  | log (f : Fmt) (e : LogEntry)
  | raw (bs : Bytes)
  deriving Repr, DecidableEq

abbrev KV := List (Bytes × Val)

def kvGet (m : KV) (k : Bytes) : Option Val :=
  match m with
  | [] => none
  | (k', v) :: t => if k' = k then some v else kvGet t k

def kvPut (m : KV) (k : Bytes) (v : Val) : KV :=
  match m with
  | [] => [(k, v)]
  | (k', v') :: t =>
    if lexLt k k' then (k, v) :: (k', v') :: t
    else if k = k' then (k, v) :: t
    else (k', v') :: kvPut t k v

def kvDel (m : KV) (k : Bytes) : KV := m.filter (fun e => e.1 ≠ k)

structure Store where
  kv : KV
  useProto : Bool
  deriving Repr

inductive Err where
  | notFound      -- raft.ErrLogNotFound
  | decode        -- value is not a log entry / not a uint64
  | panic
  deriving Repr, DecidableEq

def fmtOf (useProto : Bool) : Fmt := if useProto then .proto else .json

/-- `StoreLogs` (one atomic batch) -/
def Store.storeLogs (s : Store) (es : List LogEntry) : Store :=
  { s with kv := es.foldl (fun kv e => kvPut kv (be64 e.index) (.log (fmtOf s.useProto) e)) s.kv }

/-- `StoreLogProto` -/
def Store.storeLogProto (s : Store) (e : LogEntry) : Store :=
  { s with kv := kvPut s.kv (be64 e.index) (.log .proto e) }

/-- `GetLog` -/
def Store.getLog (s : Store) (index : Nat) : Except Err LogEntry :=
  match kvGet s.kv (be64 index) with
  | none => .error .notFound
  | some (.log _ e) => .ok e
  | some (.raw _) => .error .decode

def keyIndex (k : Bytes) : Except Err Nat :=
  match rdBe64 k with
  | some (n, _) => .ok n
  | none => .error .panic

/-- `FirstIndex`: skip the stable-store keys at the front -/
def Store.firstIndex (s : Store) : Except Err Nat :=
  match s.kv.dropWhile (fun e => isStable e.1) with
  | [] => .ok 0
  | (k, _) :: _ => keyIndex k

/-- `LastIndex`: skip the stable-store keys at the back -/
def Store.lastIndex (s : Store) : Except Err Nat :=
  match s.kv.reverse.dropWhile (fun e => isStable e.1) with
  | [] => .ok 0
  | (k, _) :: _ => keyIndex k

/-- keys visited by an iterator over `[be64 min, be64 lim)` resp. `[be64 min, ∞)` -/
def inRange (min : Nat) (lim : Option Nat) (k : Bytes) : Bool :=
  !(lexLt k (be64 min)) && (match lim with | some l => lexLt k (be64 l) | none => true)

/-- `DeleteRange(min, max)` (uint64 arithmetic: `max+1` is not computed for `MaxUint64`) -/
def Store.deleteRange (s : Store) (min max : Nat) : Store :=
  let lim := if max = 18446744073709551615 then none else some (max + 1)
  { s with kv := s.kv.filter (fun e => !(inRange min lim e.1 && !isStable e.1)) }

/-- `GetBulkIterator(start, limit)`: the keys in `[be64 start, be64 limit)` in key order — nothing when
`limit ≤ start` (the snapshot code passes `last+1` and relies on an empty range being empty) -/
def Store.bulkKeys (s : Store) (start limit : Nat) : List Bytes :=
  (s.kv.filter (fun e => inRange start (some limit) e.1)).map (·.1)

def Store.set (s : Store) (k v : Bytes) : Store := { s with kv := kvPut s.kv (stablePrefix ++ k) (.raw v) }

def Store.get (s : Store) (k : Bytes) : Except Err (Option Bytes) :=
  match kvGet s.kv (stablePrefix ++ k) with
  | none => .ok none
  | some (.raw v) => .ok (some v)
  | some (.log _ _) => .error .decode

def Store.setUint64 (s : Store) (k : Bytes) (v : Nat) : Store := s.set k (be64 v)

def Store.getUint64 (s : Store) (k : Bytes) : Except Err Nat :=
  match kvGet s.kv (stablePrefix ++ k) with
  | none => .ok 0
  | some (.raw v) => if v.length = 8 then (match rdBe64 v with | some (n, _) => .ok n | none => .error .decode) else .error .decode
  | some (.log _ _) => .error .decode

/-- the message inside a command entry (what every node decodes from it) -/
def Data.message? : Data → Option RMsg
  | .msg _ m => some m
  | .raw _ => none

/-- `l.Data[0] != 'p'` for non-empty data -/
def Data.notProto : Data → Bool
  | .msg .json _ => true
  | .msg .proto _ => false
  | .raw (b :: _) => b != 112
  | .raw [] => false

/-- what `ConvertToProto` writes for one entry; `none` = "database already converted" -/
def convertEntry (f : Fmt) (e : LogEntry) : Option (Option Val) :=
  if e.type ≠ 0 then
    some (if f = .json then some (.log .proto e) else none)
  else if f = .json || e.data.notProto then
    match e.data with
    | .msg _ m => some (some (.log .proto { e with data := .msg .proto (m.withDefaultId e.index) }))
    | .raw _ => none   -- NewMessageFromBytes on garbage: not modelled (generator never stores it)
  else none

/-- the conversion loop: walks the keys after the leading stable block until the next stable
key; pending writes are flushed every 100 entries; hitting an already converted command entry
returns *without* flushing the pending batch. -/
def convertLoop : KV → List (Bytes × Val) → KV → KV
  | db, pending, [] => pending.foldl (fun m p => kvPut m p.1 p.2) db
  | db, pending, (k, v) :: rest =>
    if isStable k then pending.foldl (fun m p => kvPut m p.1 p.2) db
    else match v with
      | .raw _ => db   -- raftlog.FromBytes error: return err (nothing flushed)
      | .log f e =>
        match convertEntry f e with
        | none => db
        | some w =>
          let pending := match w with | some nv => pending ++ [(k, nv)] | none => pending
          if e.type = 0 && pending.length > 100 then
            convertLoop (pending.foldl (fun m p => kvPut m p.1 p.2) db) [] rest
          else convertLoop db pending rest

/-- `ConvertToProto` -/
def Store.convertToProto (s : Store) : Store :=
  { s with kv := convertLoop s.kv [] (s.kv.dropWhile (fun e => isStable e.1)) }

/-- `Close` followed by `NewLevelDBStore(dir, false, useProto)` -/
def Store.reopen (s : Store) (useProto : Bool) : Store :=
  let s' : Store := { s with useProto := useProto }
  if useProto then s'.convertToProto else s'

def Store.empty (useProto : Bool) : Store := ⟨[], useProto⟩

end Robust.Store
