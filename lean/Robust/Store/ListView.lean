import Robust.Store.Lemmas
/-!
The LevelDB store seen as a sorted list: `logIndexes s` are the indexes of the log entries of `s`
in key order, computed from `s.kv` (drop the stable-store keys, decode the others as big-endian
uint64).  Under `WF` the list is strictly increasing, and every `LogStore` operation of the model
(`storeLogProto`/`storeLogs`, `deleteRange`, `firstIndex`/`lastIndex`, `bulkKeys`, `getLog`) acts on
it like the corresponding list operation (sorted insert, filter, head, last, filter, membership) —
which is what `Robust/Fsm/Model.lean` assumes of the node's log copy.
-/
namespace Robust.Store
open Robust Robust.Bytes Robust.Codec

/-- `binary.BigEndian.Uint64(key)` (0 on a short key; never hit under `WF`) -/
def keyNat (k : Bytes) : Nat :=
  match rdBe64 k with
  | some (n, _) => n
  | none => 0

/-- the decoded non-stable keys of a database, in key order -/
def kvIndexes (m : KV) : List Nat :=
  (m.filter (fun e => !isStable e.1)).map (fun e => keyNat e.1)

/-- the indexes of the log entries of `s`, in key order -/
def logIndexes (s : Store) : List Nat := kvIndexes s.kv

/-- sorted insert on indexes, replacing an equal element (cf. `Fsm.insertSorted`) -/
def insertNat (i : Nat) : List Nat → List Nat
  | [] => [i]
  | x :: xs => if i < x then i :: x :: xs else if i = x then i :: xs else x :: insertNat i xs

/-- first 8 bytes of `"stablestore-"` (`"stablest"`) as a big-endian uint64: every stable key sorts
strictly between `be64 stableCut` and `be64 (stableCut + 1)` -/
def stableCut : Nat := 0x737461626c657374

/-! ### basics -/

theorem keyNat_be64 (n : Nat) (h : n < 2 ^ 64) : keyNat (be64 n) = n := by
  simp only [keyNat, rdBe64_be64' n h]

theorem be64_lt_dec (a b : Nat) (ha : a < 2 ^ 64) (hb : b < 2 ^ 64) :
    lexLt (be64 a) (be64 b) = decide (a < b) := by
  rw [Bool.eq_iff_iff, be64_lt a b ha hb]; simp

theorem be64_eq_iff (a b : Nat) (ha : a < 2 ^ 64) (hb : b < 2 ^ 64) : be64 a = be64 b ↔ a = b :=
  ⟨be64_inj a b ha hb, fun h => by rw [h]⟩

theorem kvIndexes_nil : kvIndexes [] = [] := rfl

theorem kvIndexes_cons_stable (k : Bytes) (v : Val) (t : KV) (h : isStable k = true) :
    kvIndexes ((k, v) :: t) = kvIndexes t := by
  simp only [kvIndexes, List.filter_cons, h, Bool.not_true, Bool.false_eq_true, if_false]

theorem kvIndexes_cons_log (i : Nat) (v : Val) (t : KV) (hi : i < 2 ^ 64) :
    kvIndexes ((be64 i, v) :: t) = i :: kvIndexes t := by
  simp only [kvIndexes, List.filter_cons, isStable_be64, Bool.not_false, if_true, List.map_cons,
    keyNat_be64 i hi]

theorem typed_tail (p : Bytes × Val) (t : KV) (h : Typed (p :: t)) : Typed t :=
  fun k v hm => h k v (List.mem_cons_of_mem _ hm)

/-- induction over a typed database: each key is a log key `be64 i` or a stable key -/
theorem typed_induction {P : KV → Prop} (m : KV) (h : Typed m)
    (nil : P [])
    (log : ∀ i v t, i < 2 ^ 64 → Typed t → P t → P ((be64 i, v) :: t))
    (stable : ∀ k v t, isStable k = true → Typed t → P t → P ((k, v) :: t)) : P m := by
  induction m with
  | nil => exact nil
  | cons p t ih =>
    obtain ⟨k, v⟩ := p
    have ht := typed_tail _ _ h
    rcases h k v List.mem_cons_self with ⟨i, _, _, hi, hk, _, _⟩ | ⟨k', _, hk, _⟩
    · subst hk; exact log i v t hi ht (ih ht)
    · subst hk; exact stable _ v t (isStable_stable k') ht (ih ht)

/-- the same, also exposing the values: a log key holds an entry carrying its index, a stable key raw
bytes -/
theorem typed_induction' {P : KV → Prop} (m : KV) (h : Typed m)
    (nil : P [])
    (log : ∀ i f e t, i < 2 ^ 64 → e.index = i → Typed t → P t → P ((be64 i, .log f e) :: t))
    (stable : ∀ k bs t, isStable k = true → Typed t → P t → P ((k, .raw bs) :: t)) : P m := by
  induction m with
  | nil => exact nil
  | cons p t ih =>
    obtain ⟨k, v⟩ := p
    have ht := typed_tail _ _ h
    rcases h k v List.mem_cons_self with ⟨i, f, e, hi, hk, hv, he⟩ | ⟨k', bs, hk, hv⟩
    · subst hk hv; exact log i f e t hi he ht (ih ht)
    · subst hk hv; exact stable _ bs t (isStable_stable k') ht (ih ht)

/-! ### membership, bounds, order -/

theorem mem_kvIndexes (m : KV) (h : Typed m) (i : Nat) (hi : i < 2 ^ 64) :
    i ∈ kvIndexes m ↔ ∃ v, (be64 i, v) ∈ m := by
  simp only [kvIndexes, List.mem_map, List.mem_filter]
  constructor
  · rintro ⟨⟨k, v⟩, ⟨hm, hs⟩, hk⟩
    obtain ⟨j, _, _, hj, hkj, _, _⟩ := typed_nonstable m h k v hm (by simpa using hs)
    subst hkj
    simp only [keyNat_be64 j hj] at hk
    subst hk; exact ⟨v, hm⟩
  · rintro ⟨v, hm⟩
    exact ⟨(be64 i, v), ⟨hm, by simp [isStable_be64]⟩, keyNat_be64 i hi⟩

theorem kvIndexes_lt (m : KV) (h : Typed m) (i : Nat) (hm : i ∈ kvIndexes m) : i < 2 ^ 64 := by
  simp only [kvIndexes, List.mem_map, List.mem_filter] at hm
  obtain ⟨⟨k, v⟩, ⟨hm, hs⟩, hk⟩ := hm
  obtain ⟨j, _, _, hj, hkj, _, _⟩ := typed_nonstable m h k v hm (by simpa using hs)
  subst hkj
  simp only [keyNat_be64 j hj] at hk
  subst hk; exact hj

/-- a key below every key of `t` decodes below every index of `t` -/
theorem kvIndexes_gt_of_lexLt (t : KV) (h : Typed t) (i : Nat) (hi : i < 2 ^ 64)
    (hlt : ∀ p ∈ t, lexLt (be64 i) p.1 = true) : ∀ j ∈ kvIndexes t, i < j := by
  intro j hj
  have hj' := kvIndexes_lt t h j hj
  obtain ⟨v, hm⟩ := (mem_kvIndexes t h j hj').1 hj
  exact (be64_lt i j hi hj').1 (hlt _ hm)

theorem kvIndexes_sorted (m : KV) (hs : Sorted m) (h : Typed m) :
    (kvIndexes m).Pairwise (· < ·) := by
  revert hs
  refine typed_induction (P := fun m => Sorted m → (kvIndexes m).Pairwise (· < ·)) m h ?_ ?_ ?_
  · intro _; exact List.Pairwise.nil
  · intro i v t hi ht ih hs
    rw [sorted_cons] at hs
    rw [kvIndexes_cons_log i v t hi, List.pairwise_cons]
    exact ⟨kvIndexes_gt_of_lexLt t ht i hi hs.1, ih hs.2⟩
  · intro k v t hk _ ih hs
    rw [sorted_cons] at hs
    rw [kvIndexes_cons_stable k v t hk]
    exact ih hs.2

/-- the non-stable keys are the encodings of the indexes -/
theorem logKeys_eq (m : KV) (h : Typed m) :
    (m.filter (fun e => !isStable e.1)).map (·.1) = (kvIndexes m).map be64 := by
  refine typed_induction (P := fun m =>
    (m.filter (fun e => !isStable e.1)).map (·.1) = (kvIndexes m).map be64) m h rfl ?_ ?_
  · intro i v t hi _ ih
    rw [kvIndexes_cons_log i v t hi]
    simp only [List.filter_cons, isStable_be64, Bool.not_false, if_true, List.map_cons, ih]
  · intro k v t hk _ ih
    rw [kvIndexes_cons_stable k v t hk]
    simp only [List.filter_cons, hk, Bool.not_true, Bool.false_eq_true, if_false, ih]

/-! ### sorted insert -/

theorem insertNat_of_lt_all (i : Nat) (l : List Nat) (h : ∀ j ∈ l, i < j) :
    insertNat i l = i :: l := by
  cases l with
  | nil => rfl
  | cons x xs => simp only [insertNat, if_pos (h x List.mem_cons_self)]

theorem mem_insertNat (i x : Nat) (l : List Nat) : x ∈ insertNat i l ↔ x = i ∨ x ∈ l := by
  induction l with
  | nil => simp [insertNat]
  | cons y ys ih =>
    simp only [insertNat]
    split
    · simp
    · split
      · rename_i _ h; subst h; simp
      · simp only [List.mem_cons, ih]
        constructor
        · rintro (h | h | h)
          · exact Or.inr (Or.inl h)
          · exact Or.inl h
          · exact Or.inr (Or.inr h)
        · rintro (h | h | h)
          · exact Or.inr (Or.inl h)
          · exact Or.inl h
          · exact Or.inr (Or.inr h)

theorem insertNat_sorted (i : Nat) (l : List Nat) (h : l.Pairwise (· < ·)) :
    (insertNat i l).Pairwise (· < ·) := by
  induction l with
  | nil => simp [insertNat]
  | cons y ys ih =>
    rw [List.pairwise_cons] at h
    simp only [insertNat]
    split
    · rename_i hlt
      refine List.pairwise_cons.2 ⟨fun z hz => ?_, List.pairwise_cons.2 h⟩
      rcases List.mem_cons.1 hz with rfl | hz
      · exact hlt
      · exact Nat.lt_trans hlt (h.1 z hz)
    · split
      · rename_i _ heq; subst heq
        exact List.pairwise_cons.2 h
      · rename_i h1 h2
        refine List.pairwise_cons.2 ⟨fun z hz => ?_, ih h.2⟩
        rcases (mem_insertNat i z ys).1 hz with rfl | hz
        · omega
        · exact h.1 z hz

theorem kvIndexes_kvPut_log (m : KV) (i : Nat) (v : Val) (hs : Sorted m) (h : Typed m)
    (hi : i < 2 ^ 64) : kvIndexes (kvPut m (be64 i) v) = insertNat i (kvIndexes m) := by
  revert hs
  refine typed_induction (P := fun m => Sorted m →
    kvIndexes (kvPut m (be64 i) v) = insertNat i (kvIndexes m)) m h ?_ ?_ ?_
  · intro _
    simp only [kvPut, kvIndexes_nil, insertNat, kvIndexes_cons_log i v [] hi]
  · intro j v' t hj _ ih hs
    rw [sorted_cons] at hs
    rw [kvIndexes_cons_log j v' t hj]
    simp only [kvPut, insertNat, be64_lt_dec i j hi hj, decide_eq_true_eq,
      be64_eq_iff i j hi hj]
    by_cases h1 : i < j
    · rw [if_pos h1, if_pos h1, kvIndexes_cons_log i v _ hi, kvIndexes_cons_log j v' t hj]
    · rw [if_neg h1, if_neg h1]
      by_cases h2 : i = j
      · rw [if_pos h2, if_pos h2, kvIndexes_cons_log i v t hi]
      · rw [if_neg h2, if_neg h2, kvIndexes_cons_log j v' _ hj, ih hs.2]
  · intro k v' t hk ht ih hs
    rw [sorted_cons] at hs
    rw [kvIndexes_cons_stable k v' t hk]
    simp only [kvPut]
    by_cases h1 : lexLt (be64 i) k = true
    · rw [if_pos h1, kvIndexes_cons_log i v _ hi, kvIndexes_cons_stable k v' t hk]
      refine (insertNat_of_lt_all i _ ?_).symm
      exact kvIndexes_gt_of_lexLt t ht i hi (fun p hp => lexLt_trans _ _ _ h1 (hs.1 p hp))
    · rw [if_neg h1]
      have h2 : be64 i ≠ k := fun e => by rw [← e, isStable_be64] at hk; cases hk
      rw [if_neg h2, kvIndexes_cons_stable k v' _ hk, ih hs.2]

theorem kvIndexes_foldl_put (f : Fmt) (es : List LogEntry) (m : KV) (hs : Sorted m) (h : Typed m)
    (hi : ∀ e ∈ es, e.index < 2 ^ 64) :
    kvIndexes (es.foldl (fun kv e => kvPut kv (be64 e.index) (.log f e)) m)
      = es.foldl (fun l e => insertNat e.index l) (kvIndexes m) := by
  induction es generalizing m with
  | nil => rfl
  | cons e es ih =>
    have he := hi e List.mem_cons_self
    simp only [List.foldl_cons]
    rw [ih _ (sorted_kvPut _ _ _ hs) (typed_kvPut_log _ _ _ h he)
      (fun e' he' => hi e' (List.mem_cons_of_mem _ he')), kvIndexes_kvPut_log m _ _ hs h he]

/-! ### filters on the key -/

/-- a filter on keys that agrees with `r` on the decoded log keys filters the indexes by `r` -/
theorem kvIndexes_filter (m : KV) (h : Typed m) (q : Bytes → Bool) (r : Nat → Bool)
    (hq : ∀ i, i < 2 ^ 64 → q (be64 i) = r i) :
    kvIndexes (m.filter (fun e => q e.1)) = (kvIndexes m).filter r := by
  refine typed_induction (P := fun m =>
    kvIndexes (m.filter (fun e => q e.1)) = (kvIndexes m).filter r) m h rfl ?_ ?_
  · intro i v t hi _ ih
    rw [kvIndexes_cons_log i v t hi]
    simp only [List.filter_cons, hq i hi]
    cases r i with
    | true => simp only [if_true, kvIndexes_cons_log i v _ hi, ih]
    | false => simp only [Bool.false_eq_true, if_false, ih]
  · intro k v t hk _ ih
    rw [kvIndexes_cons_stable k v t hk]
    simp only [List.filter_cons]
    split
    · rw [kvIndexes_cons_stable k v _ hk, ih]
    · exact ih

theorem typed_filter_key (m : KV) (h : Typed m) (q : Bytes → Bool) :
    Typed (m.filter (fun e => q e.1)) := typed_filter m _ h

/-! ### first / last -/

theorem scan_head (m : KV) (h : Typed m) :
    (match m.dropWhile (fun e => isStable e.1) with
     | [] => Except.ok 0
     | (k, _) :: _ => keyIndex k) = Except.ok ((kvIndexes m).head?.getD 0) := by
  refine typed_induction (P := fun m =>
    (match m.dropWhile (fun e => isStable e.1) with
     | [] => Except.ok 0
     | (k, _) :: _ => keyIndex k) = Except.ok ((kvIndexes m).head?.getD 0)) m h rfl ?_ ?_
  · intro i v t hi _ _
    rw [kvIndexes_cons_log i v t hi]
    simp only [List.dropWhile_cons, isStable_be64, Bool.false_eq_true, if_false, keyIndex_be64 i hi,
      List.head?_cons, Option.getD_some]
  · intro k v t hk _ ih
    rw [kvIndexes_cons_stable k v t hk]
    simp only [List.dropWhile_cons, hk, if_true]
    exact ih

theorem typed_reverse (m : KV) (h : Typed m) : Typed m.reverse :=
  fun k v hm => h k v (List.mem_reverse.1 hm)

theorem kvIndexes_reverse (m : KV) : kvIndexes m.reverse = (kvIndexes m).reverse := by
  simp only [kvIndexes, List.filter_reverse, List.map_reverse]

/-! ### where the stable keys sit in the key order -/

theorem lexLt_append_left : ∀ (x y r : Bytes), x.length = y.length →
    lexLt (x ++ r) y = lexLt x y
  | [], [], r, _ => by cases r <;> rfl
  | [], _ :: _, _, h => by simp at h
  | _ :: _, [], _, h => by simp at h
  | a :: as, b :: bs, r, h => by
    simp only [List.length_cons, Nat.add_right_cancel_iff] at h
    simp only [List.cons_append, lexLt, lexLt_append_left as bs r h]

theorem stablePrefix_split : stablePrefix = be64 stableCut ++ [111, 114, 101, 45] := by decide

/-- a stable key compares with a log key like `stableCut + ½` with the index -/
theorem lexLt_stable_be64 (k : Bytes) (n : Nat) (hn : n < 2 ^ 64) :
    lexLt (stablePrefix ++ k) (be64 n) = decide (stableCut < n) := by
  rw [stablePrefix_split, List.append_assoc, lexLt_append_left (be64 stableCut) (be64 n) _ rfl,
    be64_lt_dec stableCut n (by decide) hn]

theorem inRange_stable (a b : Nat) (k : Bytes) (ha : a < 2 ^ 64) (hb : b < 2 ^ 64) :
    inRange a (some b) (stablePrefix ++ k) = (decide (a ≤ stableCut) && decide (stableCut < b)) := by
  simp only [inRange, lexLt_stable_be64 k a ha, lexLt_stable_be64 k b hb]
  by_cases h : stableCut < a
  · simp [h, Nat.not_le.2 h]
  · simp [h, Nat.not_lt.1 h]

/-! ### the entries themselves (what `Fsm.Model` keeps in `irc`) -/

/-- the decoded log values of a database, in key order -/
def kvEntries (m : KV) : List LogEntry :=
  m.filterMap (fun p => match p.2 with | .log _ e => some e | .raw _ => none)

/-- the log entries of `s`, in key order -/
def logEntries (s : Store) : List LogEntry := kvEntries s.kv

/-- `Fsm.insertSorted` on store entries: sorted insert by index, replacing an entry of equal index -/
def insertEntry (e : LogEntry) : List LogEntry → List LogEntry
  | [] => [e]
  | x :: xs =>
    if e.index < x.index then e :: x :: xs
    else if e.index = x.index then e :: xs
    else x :: insertEntry e xs

theorem kvEntries_cons_log (k : Bytes) (f : Fmt) (e : LogEntry) (t : KV) :
    kvEntries ((k, .log f e) :: t) = e :: kvEntries t := rfl

theorem kvEntries_cons_raw (k bs : Bytes) (t : KV) :
    kvEntries ((k, .raw bs) :: t) = kvEntries t := rfl

theorem kvEntries_index (m : KV) (h : Typed m) : (kvEntries m).map (·.index) = kvIndexes m := by
  refine typed_induction' (P := fun m => (kvEntries m).map (·.index) = kvIndexes m) m h rfl ?_ ?_
  · intro i f e t hi he _ ih
    rw [kvEntries_cons_log, kvIndexes_cons_log i _ t hi, List.map_cons, ih, he]
  · intro k bs t hk _ ih
    rw [kvEntries_cons_raw, kvIndexes_cons_stable k _ t hk, ih]

theorem mem_kvEntries (m : KV) (e : LogEntry) : e ∈ kvEntries m ↔ ∃ k f, (k, Val.log f e) ∈ m := by
  simp only [kvEntries, List.mem_filterMap]
  constructor
  · rintro ⟨⟨k, v⟩, hm, hv⟩
    cases v with
    | log f e' => simp only [Option.some.injEq] at hv; subst hv; exact ⟨k, f, hm⟩
    | raw bs => simp at hv
  · rintro ⟨k, f, hm⟩
    exact ⟨(k, .log f e), hm, rfl⟩

theorem insertEntry_of_lt_all (e : LogEntry) (l : List LogEntry) (h : ∀ x ∈ l, e.index < x.index) :
    insertEntry e l = e :: l := by
  cases l with
  | nil => rfl
  | cons x xs => simp only [insertEntry, if_pos (h x List.mem_cons_self)]

theorem insertEntry_index (e : LogEntry) (l : List LogEntry) :
    (insertEntry e l).map (·.index) = insertNat e.index (l.map (·.index)) := by
  induction l with
  | nil => rfl
  | cons x xs ih =>
    simp only [insertEntry, List.map_cons, insertNat]
    split
    · rfl
    · split
      · rfl
      · rw [List.map_cons, ih]

theorem kvEntries_kvPut_log (m : KV) (f : Fmt) (e : LogEntry) (hs : Sorted m) (h : Typed m)
    (hi : e.index < 2 ^ 64) :
    kvEntries (kvPut m (be64 e.index) (.log f e)) = insertEntry e (kvEntries m) := by
  revert hs
  refine typed_induction' (P := fun m => Sorted m →
    kvEntries (kvPut m (be64 e.index) (.log f e)) = insertEntry e (kvEntries m)) m h ?_ ?_ ?_
  · intro _; rfl
  · intro j f' e' t hj he' _ ih hs
    rw [sorted_cons] at hs
    rw [kvEntries_cons_log]
    simp only [kvPut, insertEntry, be64_lt_dec e.index j hi hj, decide_eq_true_eq,
      be64_eq_iff e.index j hi hj, he']
    by_cases h1 : e.index < j
    · rw [if_pos h1, if_pos h1]; rfl
    · rw [if_neg h1, if_neg h1]
      by_cases h2 : e.index = j
      · rw [if_pos h2, if_pos h2]; rfl
      · rw [if_neg h2, if_neg h2, kvEntries_cons_log, ih hs.2]
  · intro k bs t hk ht ih hs
    rw [sorted_cons] at hs
    rw [kvEntries_cons_raw]
    simp only [kvPut]
    by_cases h1 : lexLt (be64 e.index) k = true
    · rw [if_pos h1, kvEntries_cons_log, kvEntries_cons_raw]
      refine (insertEntry_of_lt_all e _ ?_).symm
      intro x hx
      have hx' : x.index ∈ kvIndexes t := by
        rw [← kvEntries_index t ht]; exact List.mem_map_of_mem hx
      exact kvIndexes_gt_of_lexLt t ht e.index hi
        (fun p hp => lexLt_trans _ _ _ h1 (hs.1 p hp)) _ hx'
    · rw [if_neg h1]
      have h2 : be64 e.index ≠ k := fun e => by rw [← e, isStable_be64] at hk; cases hk
      rw [if_neg h2, kvEntries_cons_raw, ih hs.2]

theorem kvEntries_foldl_put (f : Fmt) (es : List LogEntry) (m : KV) (hs : Sorted m) (h : Typed m)
    (hi : ∀ e ∈ es, e.index < 2 ^ 64) :
    kvEntries (es.foldl (fun kv e => kvPut kv (be64 e.index) (.log f e)) m)
      = es.foldl (fun l e => insertEntry e l) (kvEntries m) := by
  induction es generalizing m with
  | nil => rfl
  | cons e es ih =>
    have he := hi e List.mem_cons_self
    simp only [List.foldl_cons]
    rw [ih _ (sorted_kvPut _ _ _ hs) (typed_kvPut_log _ _ _ h he)
      (fun e' he' => hi e' (List.mem_cons_of_mem _ he')), kvEntries_kvPut_log m _ _ hs h he]

theorem kvEntries_filter (m : KV) (h : Typed m) (q : Bytes → Bool) (r : Nat → Bool)
    (hq : ∀ i, i < 2 ^ 64 → q (be64 i) = r i) :
    kvEntries (m.filter (fun e => q e.1)) = (kvEntries m).filter (fun e => r e.index) := by
  refine typed_induction' (P := fun m =>
    kvEntries (m.filter (fun e => q e.1)) = (kvEntries m).filter (fun e => r e.index)) m h rfl ?_ ?_
  · intro i f e t hi he _ ih
    rw [kvEntries_cons_log]
    simp only [List.filter_cons, hq i hi, he]
    cases r i with
    | true => simp only [if_true, kvEntries_cons_log, ih]
    | false => simp only [Bool.false_eq_true, if_false, ih]
  · intro k bs t _ _ ih
    rw [kvEntries_cons_raw]
    simp only [List.filter_cons]
    split
    · rw [kvEntries_cons_raw, ih]
    · exact ih

end Robust.Store
