import Robust.Store.LevelDB
/-!
Helper lemmas for the LevelDB store model: `lexLt` is a strict total order, the key encodings
are order preserving / disjoint, `kvGet/kvPut/filter` algebra, the abstraction functions
(`logView`, `stableView`) and the representation invariant `WF`.
-/
namespace Robust.Store
open Robust Robust.Bytes Robust.Codec

/-! ### `lexLt` is a strict total order -/

theorem lexLt_irrefl (a : Bytes) : lexLt a a = false := by
  induction a with
  | nil => rfl
  | cons x xs ih => simp only [lexLt, UInt8.lt_irrefl, if_false, ih]

theorem lexLt_trans : ∀ (a b c : Bytes), lexLt a b = true → lexLt b c = true → lexLt a c = true
  | [], [], _, h, _ => by simp [lexLt] at h
  | [], _ :: _, [], _, h => by simp [lexLt] at h
  | [], _ :: _, _ :: _, _, _ => by simp [lexLt]
  | _ :: _, [], _, h, _ => by simp [lexLt] at h
  | _ :: _, _ :: _, [], _, h => by simp [lexLt] at h
  | x :: xs, y :: ys, z :: zs, h1, h2 => by
    simp only [lexLt] at h1 h2 ⊢
    by_cases hxy : x < y
    · by_cases hyz : y < z
      · rw [if_pos (UInt8.lt_trans hxy hyz)]
      · rw [if_neg hyz] at h2
        by_cases hzy : z < y
        · rw [if_pos hzy] at h2; cases h2
        · have : y = z := UInt8.le_antisymm (UInt8.not_lt.1 hzy) (UInt8.not_lt.1 hyz)
          subst this; rw [if_pos hxy]
    · rw [if_neg hxy] at h1
      by_cases hyx : y < x
      · rw [if_pos hyx] at h1; cases h1
      · rw [if_neg hyx] at h1
        have : x = y := UInt8.le_antisymm (UInt8.not_lt.1 hyx) (UInt8.not_lt.1 hxy)
        subst this
        by_cases hxz : x < z
        · rw [if_pos hxz]
        · rw [if_neg hxz] at h2 ⊢
          by_cases hzx : z < x
          · rw [if_pos hzx] at h2; cases h2
          · rw [if_neg hzx] at h2 ⊢
            exact lexLt_trans xs ys zs h1 h2

theorem lexLt_total : ∀ (a b : Bytes), lexLt a b = false → a ≠ b → lexLt b a = true
  | [], [], _, hne => absurd rfl hne
  | [], _ :: _, h, _ => by simp [lexLt] at h
  | _ :: _, [], _, _ => by simp [lexLt]
  | x :: xs, y :: ys, h, hne => by
    simp only [lexLt] at h ⊢
    by_cases hxy : x < y
    · rw [if_pos hxy] at h; cases h
    · rw [if_neg hxy] at h ⊢
      by_cases hyx : y < x
      · rw [if_pos hyx]
      · rw [if_neg hyx] at h ⊢
        have : x = y := UInt8.le_antisymm (UInt8.not_lt.1 hyx) (UInt8.not_lt.1 hxy)
        subst this
        exact lexLt_total xs ys h (fun e => hne (by rw [e]))

theorem lexLt_asymm (a b : Bytes) (h : lexLt a b = true) : lexLt b a = false := by
  cases hb : lexLt b a with
  | false => rfl
  | true => have := lexLt_trans a b a h hb; rw [lexLt_irrefl] at this; cases this

theorem lexLt_ne (a b : Bytes) (h : lexLt a b = true) : a ≠ b := by
  intro e; subst e; rw [lexLt_irrefl] at h; cases h

/-! ### key encodings -/

theorem isPrefixOf_append (p k : Bytes) : isPrefixOf p (p ++ k) = true := by
  induction p with
  | nil => rfl
  | cons x xs ih => simp [isPrefixOf, ih]

theorem isStable_stable (k : Bytes) : isStable (stablePrefix ++ k) = true :=
  isPrefixOf_append _ _

theorem isPrefixOf_length (p k : Bytes) (h : isPrefixOf p k = true) : p.length ≤ k.length := by
  induction p generalizing k with
  | nil => simp
  | cons x xs ih =>
    cases k with
    | nil => simp [isPrefixOf] at h
    | cons y ys =>
      simp only [isPrefixOf, Bool.and_eq_true] at h
      have := ih ys h.2
      simp only [List.length_cons]; omega

theorem isPrefixOf_eq_append (p k : Bytes) (h : isPrefixOf p k = true) : ∃ r, k = p ++ r := by
  induction p generalizing k with
  | nil => exact ⟨k, rfl⟩
  | cons x xs ih =>
    cases k with
    | nil => simp [isPrefixOf] at h
    | cons y ys =>
      simp only [isPrefixOf, Bool.and_eq_true, beq_iff_eq] at h
      obtain ⟨r, hr⟩ := ih ys h.2
      exact ⟨r, by rw [h.1, hr]; rfl⟩

theorem isStable_be64 (i : Nat) : isStable (be64 i) = false := by
  cases h : isStable (be64 i) with
  | false => rfl
  | true =>
    have := isPrefixOf_length _ _ h
    simp [stablePrefix, be64] at this

theorem be64_ne_stable (i : Nat) (k : Bytes) : be64 i ≠ stablePrefix ++ k := by
  intro h
  have := congrArg List.length h
  simp [stablePrefix, be64] at this

theorem rdBe64_be64' (n : Nat) (h : n < 2 ^ 64) : rdBe64 (be64 n) = some (n, []) := by
  have := rdBe64_be64 n h []
  rwa [List.append_nil] at this

theorem keyIndex_be64 (n : Nat) (h : n < 2 ^ 64) : keyIndex (be64 n) = .ok n := by
  simp only [keyIndex, rdBe64_be64' n h]

theorem be64_inj (a b : Nat) (ha : a < 2 ^ 64) (hb : b < 2 ^ 64) (h : be64 a = be64 b) : a = b := by
  have h1 := rdBe64_be64' a ha
  rw [h, rdBe64_be64' b hb] at h1
  injection h1 with h1
  injection h1 with h1 _
  exact h1.symm

/-- big-endian value of a byte string -/
def beVal : Bytes → Nat
  | [] => 0
  | b :: bs => b.toNat * 256 ^ bs.length + beVal bs

theorem beVal_lt (a : Bytes) : beVal a < 256 ^ a.length := by
  induction a with
  | nil => simp [beVal]
  | cons x xs ih =>
    simp only [beVal, List.length_cons, Nat.pow_succ]
    have hx : x.toNat < 256 := x.toNat_lt
    have : x.toNat * 256 ^ xs.length + 256 ^ xs.length ≤ 256 * 256 ^ xs.length := by
      have := Nat.mul_le_mul_right (256 ^ xs.length) (show x.toNat + 1 ≤ 256 by omega)
      rw [Nat.add_mul, Nat.one_mul] at this
      exact this
    rw [Nat.mul_comm (256 ^ xs.length) 256]
    omega

theorem lexLt_iff_beVal : ∀ (a b : Bytes), a.length = b.length →
    (lexLt a b = true ↔ beVal a < beVal b)
  | [], [], _ => by simp [lexLt, beVal]
  | [], _ :: _, h => by simp at h
  | _ :: _, [], h => by simp at h
  | x :: xs, y :: ys, h => by
    simp only [List.length_cons, Nat.add_right_cancel_iff] at h
    have ih := lexLt_iff_beVal xs ys h
    have hxs := beVal_lt xs
    have hys := beVal_lt ys
    simp only [lexLt, beVal]
    rw [h] at hxs ⊢
    generalize 256 ^ ys.length = P at *
    by_cases hxy : x < y
    · rw [if_pos hxy]
      have h1 : x.toNat + 1 ≤ y.toNat := UInt8.lt_iff_toNat_lt.1 hxy
      have := Nat.mul_le_mul_right P h1
      rw [Nat.add_mul, Nat.one_mul] at this
      simp only [true_iff]; omega
    · rw [if_neg hxy]
      by_cases hyx : y < x
      · rw [if_pos hyx]
        have h1 : y.toNat + 1 ≤ x.toNat := UInt8.lt_iff_toNat_lt.1 hyx
        have := Nat.mul_le_mul_right P h1
        rw [Nat.add_mul, Nat.one_mul] at this
        simp only [Bool.false_eq_true, false_iff]; omega
      · rw [if_neg hyx]
        have : x = y := UInt8.le_antisymm (UInt8.not_lt.1 hyx) (UInt8.not_lt.1 hxy)
        subst this
        rw [ih]; omega

theorem beVal_be64 (n : Nat) (h : n < 2 ^ 64) : beVal (be64 n) = n := by
  simp only [be64, beVal, byteAt_toNat, List.length_cons, List.length_nil]
  simp only [Nat.pow_zero, Nat.div_one]
  omega

theorem be64_lt (a b : Nat) (ha : a < 2 ^ 64) (hb : b < 2 ^ 64) :
    lexLt (be64 a) (be64 b) = true ↔ a < b := by
  rw [lexLt_iff_beVal (be64 a) (be64 b) rfl, beVal_be64 a ha, beVal_be64 b hb]

/-! ### association-list algebra -/

/-- keys strictly increasing -/
def Sorted (m : KV) : Prop := (m.map (·.1)).Pairwise (fun a b => lexLt a b = true)

theorem sorted_cons (k : Bytes) (v : Val) (t : KV) :
    Sorted ((k, v) :: t) ↔ (∀ p ∈ t, lexLt k p.1 = true) ∧ Sorted t := by
  simp only [Sorted, List.map_cons, List.pairwise_cons, List.mem_map]
  constructor
  · rintro ⟨h1, h2⟩; exact ⟨fun p hp => h1 _ ⟨p, hp, rfl⟩, h2⟩
  · rintro ⟨h1, h2⟩; exact ⟨fun a ⟨p, hp, e⟩ => e ▸ h1 p hp, h2⟩

theorem kvGet_some_mem (m : KV) (k : Bytes) (v : Val) (h : kvGet m k = some v) : (k, v) ∈ m := by
  induction m with
  | nil => simp [kvGet] at h
  | cons e t ih =>
    obtain ⟨k', v'⟩ := e
    simp only [kvGet] at h
    split at h
    · rename_i hk; subst hk; cases h; exact List.mem_cons_self
    · exact List.mem_cons_of_mem _ (ih h)

theorem mem_kvGet (m : KV) (k : Bytes) (v : Val) (hs : Sorted m) (h : (k, v) ∈ m) :
    kvGet m k = some v := by
  induction m with
  | nil => cases h
  | cons e t ih =>
    obtain ⟨k', v'⟩ := e
    rw [sorted_cons] at hs
    simp only [kvGet]
    rcases List.mem_cons.1 h with h | h
    · cases h; rw [if_pos rfl]
    · have := lexLt_ne _ _ (hs.1 _ h)
      rw [if_neg this]; exact ih hs.2 h

theorem kvGet_none_of_not_mem (m : KV) (k : Bytes) (h : ∀ v, (k, v) ∉ m) : kvGet m k = none := by
  cases hg : kvGet m k with
  | none => rfl
  | some v => exact absurd (kvGet_some_mem m k v hg) (h v)

theorem mem_kvPut (m : KV) (k : Bytes) (v : Val) (p : Bytes × Val) (h : p ∈ kvPut m k v) :
    p = (k, v) ∨ p ∈ m := by
  induction m with
  | nil => simp only [kvPut, List.mem_singleton] at h; exact Or.inl h
  | cons e t ih =>
    obtain ⟨k', v'⟩ := e
    simp only [kvPut] at h
    split at h
    · rcases List.mem_cons.1 h with h | h
      · exact Or.inl h
      · exact Or.inr h
    · split at h
      · rcases List.mem_cons.1 h with h | h
        · exact Or.inl h
        · exact Or.inr (List.mem_cons_of_mem _ h)
      · rcases List.mem_cons.1 h with h | h
        · exact Or.inr (h ▸ List.mem_cons_self)
        · rcases ih h with h | h
          · exact Or.inl h
          · exact Or.inr (List.mem_cons_of_mem _ h)

theorem sorted_kvPut (m : KV) (k : Bytes) (v : Val) (h : Sorted m) : Sorted (kvPut m k v) := by
  induction m with
  | nil => simp [kvPut, Sorted]
  | cons e t ih =>
    obtain ⟨k', v'⟩ := e
    have h' := (sorted_cons _ _ _).1 h
    simp only [kvPut]
    split
    · rename_i hlt
      rw [sorted_cons]
      refine ⟨fun p hp => ?_, h⟩
      rcases List.mem_cons.1 hp with rfl | hp
      · exact hlt
      · exact lexLt_trans _ _ _ hlt (h'.1 p hp)
    · split
      · rename_i h1 h2; subst h2
        rw [sorted_cons]; exact h'
      · rename_i h1 h2
        rw [sorted_cons]
        refine ⟨fun p hp => ?_, ih h'.2⟩
        rcases mem_kvPut _ _ _ _ hp with rfl | hp
        · exact lexLt_total _ _ (by simpa using h1) h2
        · exact h'.1 p hp

theorem kvGet_kvPut_same (m : KV) (k : Bytes) (v : Val) : kvGet (kvPut m k v) k = some v := by
  induction m with
  | nil => simp [kvPut, kvGet]
  | cons e t ih =>
    obtain ⟨k', v'⟩ := e
    simp only [kvPut]
    split
    · simp [kvGet]
    · split
      · simp [kvGet]
      · rename_i h1 h2
        simp only [kvGet]
        rw [if_neg (fun e => h2 e.symm)]; exact ih

theorem kvGet_kvPut_other (m : KV) (k : Bytes) (v : Val) (x : Bytes) (hx : x ≠ k) :
    kvGet (kvPut m k v) x = kvGet m x := by
  induction m with
  | nil => simp only [kvPut, kvGet]; rw [if_neg (fun e => hx e.symm)]
  | cons e t ih =>
    obtain ⟨k', v'⟩ := e
    simp only [kvPut]
    split
    · simp only [kvGet]; rw [if_neg (fun e => hx e.symm)]
    · split
      · rename_i h1 h2; subst h2
        simp only [kvGet]; rw [if_neg (fun e => hx e.symm), if_neg (fun e => hx e.symm)]
      · simp only [kvGet]; split
        · rfl
        · exact ih

theorem kvGet_kvPut (m : KV) (k : Bytes) (v : Val) (x : Bytes) :
    kvGet (kvPut m k v) x = if x = k then some v else kvGet m x := by
  by_cases h : x = k
  · subst h; rw [if_pos rfl, kvGet_kvPut_same]
  · rw [if_neg h, kvGet_kvPut_other _ _ _ _ h]

/-- filtering on a predicate of the key -/
theorem kvGet_filter (m : KV) (q : Bytes → Bool) (k : Bytes) :
    kvGet (m.filter (fun e => q e.1)) k = if q k = true then kvGet m k else none := by
  induction m with
  | nil => simp [kvGet]
  | cons e t ih =>
    obtain ⟨k', v'⟩ := e
    simp only [List.filter_cons]
    by_cases hq : q k' = true
    · simp only [hq, if_true, kvGet]
      by_cases hk : k' = k
      · subst hk; simp [hq]
      · rw [if_neg hk, if_neg hk]; exact ih
    · have hq' : q k' = false := by simpa using hq
      simp only [hq', Bool.false_eq_true, if_false]
      by_cases hk : k' = k
      · subst hk; rw [ih, hq']; simp
      · simp only [kvGet]; rw [if_neg hk]; exact ih

theorem sorted_filter (m : KV) (p : Bytes × Val → Bool) (h : Sorted m) : Sorted (m.filter p) :=
  List.Pairwise.sublist (List.Sublist.map _ List.filter_sublist) h

theorem dropWhile_eq_nil_iff {α : Type} (p : α → Bool) (m : List α) :
    m.dropWhile p = [] ↔ ∀ x ∈ m, p x = true := by
  induction m with
  | nil => simp
  | cons a t ih =>
    rw [List.dropWhile_cons]
    by_cases hp : p a = true
    · rw [if_pos hp, ih]
      constructor
      · intro h x hx
        rcases List.mem_cons.1 hx with rfl | hx
        · exact hp
        · exact h x hx
      · intro h x hx; exact h x (List.mem_cons_of_mem _ hx)
    · rw [if_neg hp]
      constructor
      · intro h; cases h
      · intro h; exact absurd (h a List.mem_cons_self) hp

/-- the first element left by `dropWhile` on a list sorted (through `f`) by `R` is `R`-below every
other element failing the predicate -/
theorem dropWhile_head_least {α β : Type} (f : α → β) (R : β → β → Prop) (p : α → Bool)
    (m : List α) (hs : (m.map f).Pairwise R) (x : α) (rest : List α)
    (hd : m.dropWhile p = x :: rest) :
    p x = false ∧ x ∈ m ∧ ∀ y ∈ m, p y = false → y = x ∨ R (f x) (f y) := by
  induction m with
  | nil => simp at hd
  | cons a t ih =>
    simp only [List.map_cons, List.pairwise_cons] at hs
    rw [List.dropWhile_cons] at hd
    by_cases hp : p a = true
    · rw [if_pos hp] at hd
      obtain ⟨h1, h2, h3⟩ := ih hs.2 hd
      refine ⟨h1, List.mem_cons_of_mem _ h2, fun y hy hpy => ?_⟩
      rcases List.mem_cons.1 hy with rfl | hy
      · rw [hp] at hpy; cases hpy
      · exact h3 y hy hpy
    · rw [if_neg hp] at hd
      injection hd with hd1 hd2
      subst hd1
      refine ⟨by simpa using hp, List.mem_cons_self, fun y hy _ => ?_⟩
      rcases List.mem_cons.1 hy with rfl | hy
      · exact Or.inl rfl
      · exact Or.inr (hs.1 _ (List.mem_map_of_mem hy))

/-! ### abstraction functions and representation invariant -/

/-- abstraction to the spec: a partial map from indexes to entries and one from keys to values -/
def logView (s : Store) (i : Nat) : Option LogEntry :=
  match kvGet s.kv (Bytes.be64 i) with | some (.log _ e) => some e | _ => none

def stableView (s : Store) (k : Bytes) : Option Bytes :=
  match kvGet s.kv (stablePrefix ++ k) with | some (.raw v) => some v | _ => none

/-- representation invariant: keys strictly sorted in lexicographic order; every key is either
`be64 i` (i < 2^64) holding a log value whose `index` is i, or a stable-store key holding a raw
value -/
def WF (s : Store) : Prop :=
  (s.kv.map (·.1)).Pairwise (fun a b => lexLt a b = true) ∧
  ∀ k v, (k, v) ∈ s.kv →
    (∃ i f e, i < 2^64 ∧ k = Bytes.be64 i ∧ v = .log f e ∧ e.index = i) ∨
    (∃ k' bs, k = stablePrefix ++ k' ∧ v = .raw bs)

/-- the typing half of `WF` -/
def Typed (m : KV) : Prop :=
  ∀ k v, (k, v) ∈ m →
    (∃ i f e, i < 2^64 ∧ k = Bytes.be64 i ∧ v = .log f e ∧ e.index = i) ∨
    (∃ k' bs, k = stablePrefix ++ k' ∧ v = .raw bs)

theorem WF_iff (s : Store) : WF s ↔ Sorted s.kv ∧ Typed s.kv := Iff.rfl

theorem typed_kvPut_log (m : KV) (f : Fmt) (e : LogEntry) (h : Typed m) (hi : e.index < 2 ^ 64) :
    Typed (kvPut m (be64 e.index) (.log f e)) := by
  intro k v hm
  rcases mem_kvPut _ _ _ _ hm with hm | hm
  · cases hm; exact Or.inl ⟨e.index, f, e, hi, rfl, rfl, rfl⟩
  · exact h k v hm

theorem typed_kvPut_raw (m : KV) (k bs : Bytes) (h : Typed m) :
    Typed (kvPut m (stablePrefix ++ k) (.raw bs)) := by
  intro k' v hm
  rcases mem_kvPut _ _ _ _ hm with hm | hm
  · cases hm; exact Or.inr ⟨k, bs, rfl, rfl⟩
  · exact h k' v hm

theorem typed_filter (m : KV) (p : Bytes × Val → Bool) (h : Typed m) : Typed (m.filter p) :=
  fun k v hm => h k v (List.mem_filter.1 hm).1

/-- a member under a log key is a log value with that index -/
theorem typed_log_key (m : KV) (h : Typed m) (i : Nat) (hi : i < 2 ^ 64) (v : Val)
    (hm : (be64 i, v) ∈ m) : ∃ f e, v = .log f e ∧ e.index = i := by
  rcases h _ _ hm with ⟨j, f, e, hj, hk, hv, he⟩ | ⟨k', bs, hk, _⟩
  · have := be64_inj i j hi hj hk
    subst this; exact ⟨f, e, hv, he⟩
  · exact absurd hk (be64_ne_stable i k')

theorem typed_stable_key (m : KV) (h : Typed m) (k : Bytes) (v : Val)
    (hm : (stablePrefix ++ k, v) ∈ m) : ∃ bs, v = .raw bs := by
  rcases h _ _ hm with ⟨j, f, e, hj, hk, hv, he⟩ | ⟨k', bs, hk, hv⟩
  · exact absurd hk.symm (be64_ne_stable j k)
  · exact ⟨bs, hv⟩

/-- a member under a non-stable key is a log entry -/
theorem typed_nonstable (m : KV) (h : Typed m) (k : Bytes) (v : Val) (hm : (k, v) ∈ m)
    (hk : isStable k = false) : ∃ i f e, i < 2 ^ 64 ∧ k = be64 i ∧ v = .log f e ∧ e.index = i := by
  rcases h _ _ hm with h | ⟨k', bs, hk', _⟩
  · exact h
  · rw [hk', isStable_stable] at hk; cases hk

theorem logView_eq_some (s : Store) (i : Nat) (e : LogEntry) (h : logView s i = some e) :
    ∃ f, (be64 i, Val.log f e) ∈ s.kv := by
  unfold logView at h
  split at h
  · rename_i f e' hg; cases h; exact ⟨f, kvGet_some_mem _ _ _ hg⟩
  · cases h

theorem logView_of_mem (s : Store) (hs : Sorted s.kv) (i : Nat) (f : Fmt) (e : LogEntry)
    (hm : (be64 i, Val.log f e) ∈ s.kv) : logView s i = some e := by
  unfold logView; rw [mem_kvGet _ _ _ hs hm]

theorem logView_isSome_mem (s : Store) (i : Nat) (h : (logView s i).isSome = true) :
    ∃ f e, (be64 i, Val.log f e) ∈ s.kv := by
  cases hv : logView s i with
  | none => rw [hv] at h; cases h
  | some e => obtain ⟨f, hf⟩ := logView_eq_some s i e hv; exact ⟨f, e, hf⟩

end Robust.Store
