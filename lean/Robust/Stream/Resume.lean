/-!
Model of `api.getMessages` (internal/api/getmessages.go): one GetMessages connection resuming
at `lastseen = (id, reply)` on a node whose output stream is a growing prefix of the
network's output `net` (no compaction inside the window: the property is limited to resume
points newer than the compaction horizon).

By C08 (`C08_returns_least`) a `GetNext(x)` that returns does so with the least stored batch
above `x` at that instant; since the node's stream is a prefix of the id-sorted `net` that only
grows, that batch is `succBatch net x` whatever the timing — the only timing-dependent input
of a connection is whether the node already had the batch named by `lastseen` when the
connection started (`found`).
-/
namespace Robust.Stream.Resume

structure M where
  id : Nat
  reply : Nat
  rcpt : List Nat
  deriving Repr, DecidableEq

abbrev Net := List (List M)

def batchId : List M → Option Nat
  | [] => none
  | m :: _ => some m.id

/-- the first batch with an id above `x`: what `GetNext(x)` eventually returns -/
def succBatch (net : Net) (x : Nat) : Option (List M) :=
  net.find? (fun b => match batchId b with | some i => x < i | none => false)

/-- `Get(id)` on a node that has the batch -/
def getBatch (net : Net) (i : Nat) : Option (List M) :=
  net.find? (fun b => batchId b == some i)

structure CState where
  lastId : Nat
  lastReply : Nat
  seen : Bool
  deriving Repr, DecidableEq

/-- before the loop: `Get(lastSeen)`; `found` = the node has stored the batch `lastId` -/
def connInit (net : Net) (found : Bool) (lastId lastReply : Nat) : CState × List M :=
  if found then
    match getBatch net lastId with
    | some b => (⟨lastId, lastReply, true⟩, if lastReply < b.length then b.drop lastReply else [])
    | none => (⟨lastId, lastReply, false⟩, [])
  else (⟨lastId, lastReply, false⟩, [])

/-- one iteration of the loop; `none` = `GetNext` blocks for ever (nothing above in `net`) -/
def connStep (net : Net) (s : CState) : Option (CState × List M) :=
  let frm := if !s.seen && s.lastId > 0 then s.lastId - 1 else s.lastId
  match succBatch net frm with
  | none => none
  | some [] => none
  | some (m :: ms) =>
    if m.id < s.lastId then some (s, [])          -- back off and retry
    else if !s.seen && m.id = s.lastId then
      if s.lastReply ≥ (m :: ms).length then some ({ s with seen := true }, [])
      else
        match (m :: ms).drop s.lastReply with
        | [] => some ({ s with seen := true }, [])
        | m' :: ms' => some (⟨m'.id, m'.reply, true⟩, m' :: ms')
    else some (⟨m.id, m.reply, true⟩, m :: ms)

/-- everything the connection hands to the HTTP handler within `k` loop iterations -/
def connRun (net : Net) (s : CState) : Nat → List M
  | 0 => []
  | k + 1 =>
    match connStep net s with
    | none => []
    | some (s', out) => out ++ connRun net s' k

def conn (net : Net) (found : Bool) (lastId lastReply : Nat) (k : Nat) : List M :=
  let (s, out) := connInit net found lastId lastReply
  out ++ connRun net s k

/-- all messages of the network in id order -/
def flat (net : Net) : List M := net.flatten

/-- position `(id, reply)` strictly after `(i, r)` -/
def after (i r : Nat) (m : M) : Bool := i < m.id || (m.id == i && r < m.reply)

/-- well-formed network output: batches non-empty, ids strictly increasing, all messages of a
batch carry the batch id, replies numbered 1, 2, … -/
def WfBatch (b : List M) : Prop :=
  b ≠ [] ∧ ∀ j (h : j < b.length), (b[j]).reply = j + 1 ∧ some (b[j]).id = batchId b

def WfNet (net : Net) : Prop :=
  (∀ b ∈ net, WfBatch b) ∧ (net.filterMap batchId).Pairwise (· < ·)

/-- what the handler forwards to the client of `session` -/
def interesting (session : Nat) (m : M) : Bool := m.rcpt.contains session

end Robust.Stream.Resume
