import Robust.Stream.Resume
/-!
Helper lemmas for C04 (resume exactly-once) about the model in `Robust.Stream.Resume`.
-/
namespace Robust.Stream.Resume

/-! ## batches -/

/-- the predicate used by `succBatch` -/
def above (x : Nat) (b : List M) : Bool :=
  match batchId b with
  | some i => x < i
  | none => false

theorem succBatch_eq (net : Net) (x : Nat) : succBatch net x = (net.filter (above x)).head? := by
  rw [List.head?_filter]; rfl

theorem getBatch_eq (net : Net) (i : Nat) :
    getBatch net i = (net.filter (fun b => batchId b == some i)).head? := by
  rw [List.head?_filter]; rfl

theorem WfBatch.exists_id {b : List M} (h : WfBatch b) :
    ∃ i, batchId b = some i ∧ ∀ m ∈ b, m.id = i := by
  obtain ⟨hne, hj⟩ := h
  cases b with
  | nil => exact absurd rfl hne
  | cons x xs =>
    refine ⟨x.id, rfl, ?_⟩
    intro m hm
    obtain ⟨j, hlt, rfl⟩ := List.getElem_of_mem hm
    have := (hj j hlt).2
    simpa [batchId] using this

theorem WfBatch.reply_getElem {b : List M} (h : WfBatch b) (j : Nat) (hj : j < b.length) :
    (b[j]).reply = j + 1 := (h.2 j hj).1

theorem filter_reply_eq_drop (b : List M) :
    ∀ (off r : Nat), (∀ j (h : j < b.length), (b[j]).reply = j + 1 + off) →
      b.filter (fun m => decide (r + off < m.reply)) = b.drop r := by
  induction b with
  | nil => intro off r _; simp
  | cons x xs ih =>
    intro off r h
    have hx : x.reply = 1 + off := by
      have := h 0 (by simp)
      simp only [List.getElem_cons_zero] at this; omega
    have hxs : ∀ j (hj : j < xs.length), (xs[j]).reply = j + 1 + (off + 1) := by
      intro j hj
      have := h (j + 1) (by simp; omega)
      simp at this; omega
    cases r with
    | zero =>
      rw [List.drop_zero, List.filter_eq_self]
      intro a ha
      obtain ⟨j, hlt, rfl⟩ := List.getElem_of_mem ha
      have := h j hlt
      simp; omega
    | succ r =>
      have hnot : decide (r + 1 + off < x.reply) = false := by simp; omega
      rw [List.filter_cons, hnot]
      simp only [Bool.false_eq_true, if_false, List.drop_succ_cons]
      rw [← ih (off + 1) r hxs]
      apply List.filter_congr
      intro m _
      have : (r + 1 + off < m.reply) ↔ (r + (off + 1) < m.reply) := by omega
      simp [this]

theorem WfBatch.filter_reply {b : List M} (h : WfBatch b) (r : Nat) :
    b.filter (fun m => decide (r < m.reply)) = b.drop r := by
  have := filter_reply_eq_drop b 0 r (fun j hj => by simpa using h.reply_getElem j hj)
  simpa using this

/-- within the batch with id `i`, "after `(i, r)`" is "drop the first `r`" -/
theorem WfBatch.filter_after_same {b : List M} (h : WfBatch b) {i : Nat} (hi : batchId b = some i)
    (r : Nat) : b.filter (after i r) = b.drop r := by
  rw [← h.filter_reply r]
  obtain ⟨i', hi', hall⟩ := h.exists_id
  have : i' = i := by rw [hi] at hi'; exact (Option.some.inj hi').symm
  subst this
  apply List.filter_congr
  intro m hm
  simp [after, hall m hm]

/-- a batch with a larger id lies entirely after `(i, r)` -/
theorem WfBatch.filter_after_gt {b : List M} (h : WfBatch b) {i j : Nat} (hj : batchId b = some j)
    (hlt : i < j) (r : Nat) : b.filter (after i r) = b := by
  obtain ⟨j', hj', hall⟩ := h.exists_id
  have : j' = j := by rw [hj] at hj'; exact (Option.some.inj hj').symm
  subst this
  rw [List.filter_eq_self]
  intro m hm
  simp [after, hall m hm, hlt]

theorem WfBatch.filter_id_gt {b : List M} (h : WfBatch b) (x : Nat) :
    b.filter (fun m => decide (x < m.id)) = if above x b then b else [] := by
  obtain ⟨j, hj, hall⟩ := h.exists_id
  by_cases hx : x < j
  · have : above x b = true := by simp [above, hj, hx]
    rw [this, if_pos rfl, List.filter_eq_self]
    intro m hm; simp [hall m hm, hx]
  · have : above x b = false := by simp [above, hj, hx]
    rw [this, List.filter_eq_nil_iff.2]
    · simp
    · intro m hm; simp [hall m hm, hx]

/-! ## sorted nets -/

theorem above_mono {x j : Nat} (hxj : x ≤ j) {c : List M} (h : above j c = true) : above x c = true := by
  unfold above at *
  cases hc : batchId c with
  | none => simp [hc] at h
  | some k => simp [hc] at h ⊢; omega

theorem WfNet.sorted {net : Net} (h : WfNet net) :
    net.Pairwise (fun a b => ∀ i, batchId a = some i → ∀ j, batchId b = some j → i < j) :=
  List.pairwise_filterMap.1 h.2

theorem filter_above_above (net : Net) {x j : Nat} (hxj : x ≤ j) :
    (net.filter (above x)).filter (above j) = net.filter (above j) := by
  rw [List.filter_filter]
  apply List.filter_congr
  intro c _
  cases hc : above j c with
  | false => simp
  | true => simp [above_mono hxj hc]

theorem flat_filter_id_gt {net : Net} (h : ∀ b ∈ net, WfBatch b) (x : Nat) :
    (flat net).filter (fun m => decide (x < m.id)) = (net.filter (above x)).flatten := by
  induction net with
  | nil => rfl
  | cons b net ih =>
    have hb := h b (List.mem_cons_self)
    have ih' := ih (fun c hc => h c (List.mem_cons_of_mem _ hc))
    unfold flat at *
    rw [List.flatten_cons, List.filter_append, ih', hb.filter_id_gt, List.filter_cons]
    cases above x b <;> simp

/-- shape of the part of a well-formed net above `x` -/
theorem filter_above_cons {net : Net} (h : WfNet net) (x : Nat) {b : List M} {L' : List (List M)}
    (hL : net.filter (above x) = b :: L') :
    WfBatch b ∧ ∃ j, batchId b = some j ∧ (∀ m ∈ b, m.id = j) ∧ x < j ∧ net.filter (above j) = L' := by
  have hbmem : b ∈ net.filter (above x) := by rw [hL]; exact List.mem_cons_self
  obtain ⟨hbnet, hbx⟩ := List.mem_filter.1 hbmem
  have hwb := h.1 b hbnet
  obtain ⟨j, hj, hall⟩ := hwb.exists_id
  have hxj : x < j := by simpa [above, hj] using hbx
  refine ⟨hwb, j, hj, hall, hxj, ?_⟩
  have hsorted := (h.sorted).filter (above x)
  rw [hL, List.pairwise_cons] at hsorted
  rw [← filter_above_above net (Nat.le_of_lt hxj), hL, List.filter_cons]
  have hbj : above j b = false := by simp [above, hj]
  rw [hbj]
  simp only [Bool.false_eq_true, if_false]
  rw [List.filter_eq_self]
  intro c hc
  have hcnet : c ∈ net := by
    have : c ∈ net.filter (above x) := by rw [hL]; exact List.mem_cons_of_mem _ hc
    exact (List.mem_filter.1 this).1
  obtain ⟨k, hk, _⟩ := (h.1 c hcnet).exists_id
  have := hsorted.1 c hc j hj k hk
  simp [above, hk, this]

theorem filter_above_nil_flat {net : Net} (h : WfNet net) (x : Nat)
    (hL : net.filter (above x) = []) : (flat net).filter (fun m => decide (x < m.id)) = [] := by
  rw [flat_filter_id_gt h.1, hL]; rfl

theorem filter_after_of_gt (net : Net) {i j : Nat} (hij : i ≤ j) (r : Nat) :
    ((flat net).filter (fun m => decide (j < m.id))).filter (after i r)
      = (flat net).filter (fun m => decide (j < m.id)) := by
  rw [List.filter_eq_self]
  intro m hm
  have := (List.mem_filter.1 hm).2
  simp at this
  simp [after]; omega

theorem filter_after_eq {net : Net} (i r : Nat) (hi : 0 < i) :
    (flat net).filter (after i r)
      = ((flat net).filter (fun m => decide (i - 1 < m.id))).filter (after i r) := by
  rw [List.filter_filter]
  apply List.filter_congr
  intro m _
  cases hm : after i r m with
  | false => simp
  | true =>
    simp [after] at hm
    simp; omega

/-- the messages owed after `(i, r)`, by cases on the first batch with id `≥ i` -/
theorem filter_after_nil {net : Net} (h : WfNet net) (i r : Nat) (hi : 0 < i)
    (hL : net.filter (above (i - 1)) = []) : (flat net).filter (after i r) = [] := by
  rw [filter_after_eq i r hi, filter_above_nil_flat h _ hL]; rfl

theorem filter_after_cons {net : Net} (h : WfNet net) (i r : Nat) (hi : 0 < i)
    {b : List M} {L' : List (List M)} (hL : net.filter (above (i - 1)) = b :: L') :
    ∃ j, batchId b = some j ∧ i ≤ j ∧
      (flat net).filter (after i r)
        = (if j = i then b.drop r else b) ++ (flat net).filter (fun m => decide (j < m.id)) := by
  obtain ⟨hwb, j, hj, hall, hlt, hL'⟩ := filter_above_cons h (i - 1) hL
  refine ⟨j, hj, by omega, ?_⟩
  rw [filter_after_eq i r hi, flat_filter_id_gt h.1 (i - 1), hL, List.flatten_cons,
    List.filter_append, ← hL', ← flat_filter_id_gt h.1 j, filter_after_of_gt net (by omega) r]
  congr 1
  by_cases hji : j = i
  · subst hji; rw [if_pos rfl]; exact hwb.filter_after_same hj r
  · rw [if_neg hji]; exact hwb.filter_after_gt hj (by omega) r

/-! ## the connection state machine -/

/-- what a connection in state `s` still has to deliver -/
def pending (net : Net) (s : CState) : List M :=
  if s.seen then (flat net).filter (fun m => decide (s.lastId < m.id))
  else (flat net).filter (after s.lastId s.lastReply)

/-- termination measure: batches above the threshold, plus one if the resume batch is not yet passed -/
def fuel (net : Net) (s : CState) : Nat :=
  (net.filter (above s.lastId)).length + (if s.seen then 0 else 1)

theorem succBatch_of_nil {net : Net} {x : Nat} (hL : net.filter (above x) = []) :
    succBatch net x = none := by rw [succBatch_eq, hL]; rfl

theorem succBatch_of_cons {net : Net} {x : Nat} {b : List M} {L' : List (List M)}
    (hL : net.filter (above x) = b :: L') : succBatch net x = some b := by
  rw [succBatch_eq, hL]; rfl

theorem connStep_seen {net : Net} (h : WfNet net) (i r : Nat) :
    match connStep net ⟨i, r, true⟩ with
    | none => pending net ⟨i, r, true⟩ = []
    | some (s', out) => pending net ⟨i, r, true⟩ = out ++ pending net s' ∧ s'.seen = true ∧
        i < s'.lastId ∧ out ≠ [] ∧ fuel net s' < fuel net ⟨i, r, true⟩ := by
  cases hL : net.filter (above i) with
  | nil =>
    have hc : connStep net ⟨i, r, true⟩ = none := by
      simp [connStep, succBatch_of_nil hL]
    rw [hc]
    simpa [pending] using filter_above_nil_flat h i hL
  | cons b L' =>
    obtain ⟨hwb, j, hj, hall, hlt, hL'⟩ := filter_above_cons h i hL
    cases b with
    | nil => exact absurd rfl hwb.1
    | cons m ms =>
      have hm : m.id = j := hall m List.mem_cons_self
      have hnlt : ¬ m.id < i := by omega
      have hc : connStep net ⟨i, r, true⟩ = some (⟨m.id, m.reply, true⟩, m :: ms) := by
        simp [connStep, succBatch_of_cons hL, hnlt]
      rw [hc]
      refine ⟨?_, rfl, by simp [hm, hlt], by simp, ?_⟩
      · simp only [pending, if_true, hm]
        rw [flat_filter_id_gt h.1 i, hL, flat_filter_id_gt h.1 j, hL']
        rfl
      · simp [fuel, hm, hL, hL']

theorem fuel_le {net : Net} {i j : Nat} (hij : i ≤ j) :
    (net.filter (above j)).length ≤ (net.filter (above i)).length := by
  rw [← filter_above_above net hij]; exact List.length_filter_le _ _

theorem connStep_unseen {net : Net} (h : WfNet net) (i r : Nat) (hi : 0 < i) :
    match connStep net ⟨i, r, false⟩ with
    | none => pending net ⟨i, r, false⟩ = []
    | some (s', out) => pending net ⟨i, r, false⟩ = out ++ pending net s' ∧ s'.seen = true ∧
        i ≤ s'.lastId ∧ fuel net s' < fuel net ⟨i, r, false⟩ := by
  have hfrm : (if (!false && decide (i > 0)) = true then i - 1 else i) = i - 1 := by simp [hi]
  cases hL : net.filter (above (i - 1)) with
  | nil =>
    have hc : connStep net ⟨i, r, false⟩ = none := by
      simp only [connStep, hfrm, succBatch_of_nil hL]
    rw [hc]
    simpa [pending] using filter_after_nil h i r hi hL
  | cons b L' =>
    obtain ⟨j, hj, hij, heq⟩ := filter_after_cons h i r hi hL
    obtain ⟨hwb, j', hj', hall, -, -⟩ := filter_above_cons h (i - 1) hL
    have : j' = j := by rw [hj] at hj'; exact (Option.some.inj hj').symm
    subst this
    cases b with
    | nil => exact absurd rfl hwb.1
    | cons m ms =>
      have hm : m.id = j' := hall m List.mem_cons_self
      have hnlt : ¬ m.id < i := by omega
      by_cases hji : j' = i
      · subst hji
        rw [if_pos rfl] at heq
        cases hd : (m :: ms).drop r with
        | nil =>
          have hc : connStep net ⟨j', r, false⟩ = some (⟨j', r, true⟩, []) := by
            simp only [connStep, hfrm, succBatch_of_cons hL, hd]
            simp [hm]
          rw [hc]
          refine ⟨?_, rfl, Nat.le_refl _, by simp [fuel]⟩
          simp only [pending, Bool.false_eq_true, if_false, if_true]
          rw [heq, hd]
        | cons m' ms' =>
          have hm' : m'.id = j' :=
            hall m' (List.mem_of_mem_drop (by rw [hd]; exact List.mem_cons_self))
          have hr : ¬ r ≥ (m :: ms).length := by
            intro hge
            rw [List.drop_eq_nil_of_le hge] at hd
            cases hd
          have hc : connStep net ⟨j', r, false⟩ = some (⟨m'.id, m'.reply, true⟩, m' :: ms') := by
            simp only [connStep, hfrm, succBatch_of_cons hL, hd]
            simp [hm]
            simpa using hr
          rw [hc]
          refine ⟨?_, rfl, by simp [hm'], by simp [fuel, hm']⟩
          simp only [pending, Bool.false_eq_true, if_false, if_true, hm']
          rw [heq, hd]
      · rw [if_neg hji] at heq
        have hc : connStep net ⟨i, r, false⟩ = some (⟨m.id, m.reply, true⟩, m :: ms) := by
          simp only [connStep, hfrm, succBatch_of_cons hL]
          simp [hm, hji]
          omega
        rw [hc]
        refine ⟨?_, rfl, by simp [hm, hij], ?_⟩
        · simp only [pending, Bool.false_eq_true, if_false, if_true, hm]
          rw [heq]
        · have := @fuel_le net i j' hij
          simp [fuel, hm]; omega

/-- states reachable in a connection that resumes at an id `> 0` -/
def Inv (s : CState) : Prop := s.seen = true ∨ 0 < s.lastId

theorem connStep_spec {net : Net} (h : WfNet net) (s : CState) (hinv : Inv s) :
    match connStep net s with
    | none => pending net s = []
    | some (s', out) => pending net s = out ++ pending net s' ∧ Inv s' ∧ fuel net s' < fuel net s := by
  obtain ⟨i, r, seen⟩ := s
  cases seen with
  | true =>
    have := connStep_seen h i r
    split at this
    · next hc => exact this
    · next s' out hc => exact ⟨this.1, Or.inl this.2.1, this.2.2.2.2⟩
  | false =>
    have hi : 0 < i := by cases hinv with
      | inl h => cases h
      | inr h => exact h
    have := connStep_unseen h i r hi
    split at this
    · next hc => exact this
    · next s' out hc => exact ⟨this.1, Or.inl this.2.1, this.2.2.2⟩

theorem connRun_prefix {net : Net} (h : WfNet net) :
    ∀ (k : Nat) (s : CState), Inv s → ∃ n, connRun net s k = (pending net s).take n := by
  intro k
  induction k with
  | zero => intro s _; exact ⟨0, by simp [connRun]⟩
  | succ k ih =>
    intro s hinv
    have hs := connStep_spec h s hinv
    cases hc : connStep net s with
    | none => exact ⟨0, by simp [connRun, hc]⟩
    | some p =>
      obtain ⟨s', out⟩ := p
      rw [hc] at hs
      obtain ⟨hp, hinv', _⟩ := hs
      obtain ⟨n, hn⟩ := ih s' hinv'
      refine ⟨out.length + n, ?_⟩
      simp only [connRun, hc]
      rw [hn, hp, List.take_length_add_append]

theorem connRun_complete {net : Net} (h : WfNet net) :
    ∀ (k : Nat) (s : CState), Inv s → fuel net s < k → connRun net s k = pending net s := by
  intro k
  induction k with
  | zero => intro s _ hk; exact absurd hk (Nat.not_lt_zero _)
  | succ k ih =>
    intro s hinv hk
    have hs := connStep_spec h s hinv
    cases hc : connStep net s with
    | none =>
      rw [hc] at hs
      simp [connRun, hc, hs]
    | some p =>
      obtain ⟨s', out⟩ := p
      rw [hc] at hs
      obtain ⟨hp, hinv', hfuel⟩ := hs
      simp only [connRun, hc]
      rw [ih s' hinv' (by omega), hp]

theorem conn_eq (net : Net) (found : Bool) (i r k : Nat) :
    conn net found i r k = (connInit net found i r).2 ++ connRun net (connInit net found i r).1 k := rfl

theorem fuel_le_length (net : Net) (s : CState) : fuel net s ≤ net.length + 1 := by
  unfold fuel
  have := List.length_filter_le (above s.lastId) net
  split <;> omega

/-- on a sorted net, the batch `Get(i)` returns is the first batch with id `≥ i` -/
theorem getBatch_some {net : Net} (h : WfNet net) {i : Nat} (hi : 0 < i) {b : List M}
    (hb : getBatch net i = some b) :
    batchId b = some i ∧ ∃ L', net.filter (above (i - 1)) = b :: L' := by
  have hbi : batchId b = some i := by simpa using List.find?_some hb
  have hbnet : b ∈ net := List.mem_of_find?_eq_some hb
  refine ⟨hbi, ?_⟩
  have hbL : b ∈ net.filter (above (i - 1)) :=
    List.mem_filter.2 ⟨hbnet, by simp [above, hbi]; omega⟩
  cases hL : net.filter (above (i - 1)) with
  | nil => rw [hL] at hbL; cases hbL
  | cons c L' =>
    obtain ⟨_, j, hj, _, hlt, hL'⟩ := filter_above_cons h (i - 1) hL
    rw [hL] at hbL
    cases List.mem_cons.1 hbL with
    | inl heq => exact ⟨L', by rw [heq]⟩
    | inr hmem =>
      rw [← hL'] at hmem
      have := (List.mem_filter.1 hmem).2
      simp [above, hbi] at this
      omega

theorem connInit_spec {net : Net} (h : WfNet net) (found : Bool) (i r : Nat) (hi : 0 < i) :
    (flat net).filter (after i r)
        = (connInit net found i r).2 ++ pending net (connInit net found i r).1
      ∧ Inv (connInit net found i r).1 := by
  have hunseen : (flat net).filter (after i r) = [] ++ pending net ⟨i, r, false⟩ ∧ Inv ⟨i, r, false⟩ :=
    ⟨by simp [pending], Or.inr hi⟩
  cases found with
  | false => exact hunseen
  | true =>
    cases hb : getBatch net i with
    | none =>
      have : connInit net true i r = (⟨i, r, false⟩, []) := by simp [connInit, hb]
      rw [this]; exact hunseen
    | some b =>
      have : connInit net true i r = (⟨i, r, true⟩, b.drop r) := by
        simp only [connInit, hb, if_true]
        by_cases hr : r < b.length
        · rw [if_pos hr]
        · rw [if_neg hr, List.drop_eq_nil_of_le (by omega)]
      rw [this]
      refine ⟨?_, Or.inl rfl⟩
      obtain ⟨hbi, L', hL⟩ := getBatch_some h hi hb
      obtain ⟨j, hj, _, heq⟩ := filter_after_cons h i r hi hL
      have : j = i := by rw [hbi] at hj; exact (Option.some.inj hj).symm
      subst this
      rw [if_pos rfl] at heq
      simp only [pending, if_true]
      exact heq

/-! ## the lag of the node only shifts the loop by one iteration -/

theorem connStep_seen_indep (net : Net) (i r r' : Nat) :
    (connStep net ⟨i, r, true⟩ = none ∧ connStep net ⟨i, r', true⟩ = none) ∨
    (connStep net ⟨i, r, true⟩ = some (⟨i, r, true⟩, []) ∧
      connStep net ⟨i, r', true⟩ = some (⟨i, r', true⟩, [])) ∨
    (∃ p, connStep net ⟨i, r, true⟩ = some p ∧ connStep net ⟨i, r', true⟩ = some p) := by
  simp only [connStep]
  cases succBatch net (if (!true && decide (i > 0)) = true then i - 1 else i) with
  | none => exact Or.inl ⟨rfl, rfl⟩
  | some b =>
    cases b with
    | nil => exact Or.inl ⟨rfl, rfl⟩
    | cons m ms =>
      by_cases hlt : m.id < i
      · exact Or.inr (Or.inl ⟨by simp [hlt], by simp [hlt]⟩)
      · exact Or.inr (Or.inr ⟨(⟨m.id, m.reply, true⟩, m :: ms), by simp [hlt], by simp [hlt]⟩)

/-- once the resume batch is passed, `lastReply` is dead state -/
theorem connRun_seen_indep (net : Net) (i r r' : Nat) :
    ∀ k, connRun net ⟨i, r, true⟩ k = connRun net ⟨i, r', true⟩ k := by
  intro k
  induction k with
  | zero => rfl
  | succ k ih =>
    rcases connStep_seen_indep net i r r' with ⟨h1, h2⟩ | ⟨h1, h2⟩ | ⟨p, h1, h2⟩
    · simp only [connRun, h1, h2]
    · simp only [connRun, h1, h2, ih]
    · simp only [connRun, h1, h2]

theorem connStep_unseen_at {net : Net} (h : WfNet net) (i r : Nat) (hi : 0 < i)
    {b : List M} {L' : List (List M)} (hL : net.filter (above (i - 1)) = b :: L')
    (hbi : batchId b = some i) :
    ∃ r', connStep net ⟨i, r, false⟩ = some (⟨i, r', true⟩, b.drop r) := by
  have hfrm : (if (!false && decide (i > 0)) = true then i - 1 else i) = i - 1 := by simp [hi]
  obtain ⟨hwb, j', hj', hall, -, -⟩ := filter_above_cons h (i - 1) hL
  have : j' = i := by rw [hbi] at hj'; exact (Option.some.inj hj').symm
  subst this
  cases b with
  | nil => exact absurd rfl hwb.1
  | cons m ms =>
    have hm : m.id = j' := hall m List.mem_cons_self
    cases hd : (m :: ms).drop r with
    | nil =>
      refine ⟨r, ?_⟩
      simp only [connStep, hfrm, succBatch_of_cons hL, hd]
      simp [hm]
    | cons m' ms' =>
      have hm' : m'.id = j' :=
        hall m' (List.mem_of_mem_drop (by rw [hd]; exact List.mem_cons_self))
      have hr : ¬ r ≥ (m :: ms).length := by
        intro hge
        rw [List.drop_eq_nil_of_le hge] at hd
        cases hd
      refine ⟨m'.reply, ?_⟩
      simp only [connStep, hfrm, succBatch_of_cons hL, hd]
      simp [hm, hm']
      simpa using hr

/-- a node that already has the resume batch is exactly one loop iteration ahead of one that has not -/
theorem conn_lag_shift {net : Net} (h : WfNet net) (i r : Nat) (hi : 0 < i)
    (hf : (getBatch net i).isSome) (k : Nat) :
    conn net true i r k = conn net false i r (k + 1) := by
  obtain ⟨b, hb⟩ := Option.isSome_iff_exists.1 hf
  obtain ⟨hbi, L', hL⟩ := getBatch_some h hi hb
  obtain ⟨r', hstep⟩ := connStep_unseen_at h i r hi hL hbi
  have h1 : connInit net true i r = (⟨i, r, true⟩, b.drop r) := by
    simp only [connInit, hb, if_true]
    by_cases hr : r < b.length
    · rw [if_pos hr]
    · rw [if_neg hr, List.drop_eq_nil_of_le (by omega)]
  have h2 : connInit net false i r = (⟨i, r, false⟩, []) := rfl
  rw [conn_eq, conn_eq, h1, h2]
  simp only [connRun, hstep, List.nil_append]
  rw [connRun_seen_indep net i r r' k]

/-! ## positions: the flat stream is strictly sorted -/

theorem after_irrefl (m : M) : after m.id m.reply m = false := by simp [after]

theorem after_asymm {x m : M} (h : after x.id x.reply m = true) : after m.id m.reply x = false := by
  simp [after] at h ⊢
  omega

theorem after_trans {a b : Nat} {m x : M} (h1 : after a b m = true)
    (h2 : after m.id m.reply x = true) : after a b x = true := by
  simp [after] at h1 h2 ⊢
  omega

theorem after_id_le {a b : Nat} {m : M} (h : after a b m = true) : a ≤ m.id := by
  simp [after] at h; omega

theorem flat_sorted {net : Net} (h : WfNet net) :
    (flat net).Pairwise (fun m m' => after m.id m.reply m' = true) := by
  unfold flat
  rw [List.pairwise_flatten]
  constructor
  · intro b hb
    have hwb := h.1 b hb
    obtain ⟨i, _, hall⟩ := hwb.exists_id
    rw [List.pairwise_iff_getElem]
    intro j k hj hk hjk
    have h1 := hall _ (List.getElem_mem hj)
    have h2 := hall _ (List.getElem_mem hk)
    have h3 := hwb.reply_getElem j hj
    have h4 := hwb.reply_getElem k hk
    simp [after, h1, h2, h3, h4, hjk]
  · refine List.Pairwise.imp_of_mem ?_ h.sorted
    intro a b ha hb hab x hx y hy
    obtain ⟨i, hi, halla⟩ := (h.1 a ha).exists_id
    obtain ⟨j, hj, hallb⟩ := (h.1 b hb).exists_id
    have := hab i hi j hj
    simp [after, halla x hx, hallb y hy, this]

/-- resuming after the last *interesting* message before a cut re-offers exactly the interesting
messages beyond the cut -/
theorem sorted_resume (I : M → Bool) (F : List M)
    (hF : F.Pairwise (fun m m' => after m.id m.reply m' = true)) :
    ∀ (cut : Nat) (m : M), ((F.take cut).filter I).getLast? = some m →
      m ∈ F ∧ (F.filter (after m.id m.reply)).filter I = (F.drop cut).filter I := by
  induction F with
  | nil => intro cut m hm; simp at hm
  | cons x F' ih =>
    intro cut m hm
    cases cut with
    | zero => simp at hm
    | succ c =>
      rw [List.pairwise_cons] at hF
      rw [List.take_succ_cons, List.filter_cons] at hm
      rw [List.drop_succ_cons]
      cases hG : ((F'.take c).filter I).getLast? with
      | some m' =>
        have hmm : m' = m := by
          have hne : (F'.take c).filter I ≠ [] := by
            intro hnil; rw [hnil] at hG; cases hG
          split at hm
          · rw [List.getLast?_cons_of_ne_nil hne, hG] at hm; exact Option.some.inj hm
          · rw [hG] at hm; exact Option.some.inj hm
        subst hmm
        obtain ⟨hmem, hih⟩ := ih hF.2 c m' hG
        refine ⟨List.mem_cons_of_mem _ hmem, ?_⟩
        rw [List.filter_cons, after_asymm (hF.1 m' hmem)]
        simpa using hih
      | none =>
        have hnil : (F'.take c).filter I = [] := List.getLast?_eq_none_iff.1 hG
        rw [hnil] at hm
        by_cases hIx : I x = true
        · rw [if_pos hIx] at hm
          have hxm : x = m := by simpa using hm
          subst hxm
          refine ⟨List.mem_cons_self, ?_⟩
          rw [List.filter_cons, after_irrefl]
          simp only [Bool.false_eq_true, if_false]
          rw [List.filter_eq_self.2 (fun y hy => hF.1 y hy)]
          conv => lhs; rw [← List.take_append_drop c F', List.filter_append, hnil, List.nil_append]
        · rw [if_neg hIx] at hm; simp at hm

theorem resume_after_cut {net : Net} (h : WfNet net) (a b : Nat) (I : M → Bool) (cut : Nat) (m : M)
    (hlast : ((((flat net).filter (after a b)).take cut).filter I).getLast? = some m) :
    after a b m = true ∧
      ((flat net).filter (after m.id m.reply)).filter I
        = (((flat net).filter (after a b)).drop cut).filter I := by
  have hF := (flat_sorted h).filter (after a b)
  obtain ⟨hmem, heq⟩ := sorted_resume I _ hF cut m hlast
  have ham : after a b m = true := (List.mem_filter.1 hmem).2
  refine ⟨ham, ?_⟩
  rw [← heq]
  congr 1
  rw [List.filter_filter]
  apply List.filter_congr
  intro x _
  cases hx : after m.id m.reply x with
  | false => simp
  | true => simp [after_trans ham hx]

end Robust.Stream.Resume
