import Robust.Base.Bytes
/-!
Byte-exact model of `internal/outputstream/serialization.go`
(`messageBatch.marshal` / `unmarshalMessageBatch`).

`rcpt` is `InterestingFor` in map-iteration order: `marshal` writes the *keys* only, whatever
the stored boolean is, and `unmarshal` stores `true` for every key it reads.
`none` models a Go panic (slice bounds out of range on a short buffer).
-/
namespace Robust.Stream
open Robust Robust.Bytes

structure Msg where
  id : Nat
  reply : Nat
  data : Bytes
  rcpt : List (Nat × Bool)
  deriving Repr, DecidableEq

structure Batch where
  msgs : List Msg
  next : Nat
  deriving Repr, DecidableEq

/-- `math.MaxUint64`: "no next message yet" -/
def noNext : Nat := 18446744073709551615

def marshalMsg (m : Msg) : Bytes :=
  le64 m.id ++ le64 m.reply ++ le64 m.data.length ++ m.data ++ le64 m.rcpt.length ++
    m.rcpt.flatMap (fun r => le64 r.1)

def marshal (b : Batch) : Bytes :=
  le64 b.next ++ le64 b.msgs.length ++ b.msgs.flatMap marshalMsg

def rdBytes (n : Nat) (bs : Bytes) : Option (Bytes × Bytes) :=
  if n ≤ bs.length then some (bs.take n, bs.drop n) else none

def rdRcpts : Nat → Bytes → Option (List (Nat × Bool) × Bytes)
  | 0, bs => some ([], bs)
  | k + 1, bs =>
    match rdLe64 bs with
    | none => none
    | some (r, bs) =>
      match rdRcpts k bs with
      | none => none
      | some (rs, bs) => some ((r, true) :: rs, bs)

def rdMsg (bs : Bytes) : Option (Msg × Bytes) :=
  match rdLe64 bs with
  | none => none
  | some (id, bs) =>
  match rdLe64 bs with
  | none => none
  | some (reply, bs) =>
  match rdLe64 bs with
  | none => none
  | some (len, bs) =>
  match rdBytes len bs with
  | none => none
  | some (data, bs) =>
  match rdLe64 bs with
  | none => none
  | some (nr, bs) =>
  match rdRcpts nr bs with
  | none => none
  | some (rcpt, bs) => some (⟨id, reply, data, rcpt⟩, bs)

def rdMsgs : Nat → Bytes → Option (List Msg × Bytes)
  | 0, bs => some ([], bs)
  | k + 1, bs =>
    match rdMsg bs with
    | none => none
    | some (m, bs) =>
      match rdMsgs k bs with
      | none => none
      | some (ms, bs) => some (m :: ms, bs)

def unmarshal (bs : Bytes) : Option Batch :=
  match rdLe64 bs with
  | none => none
  | some (next, bs) =>
  match rdLe64 bs with
  | none => none
  | some (n, bs) =>
  match rdMsgs n bs with
  | none => none
  | some (ms, _) => some ⟨ms, next⟩

/-- Every integer fits its 8-byte slot (true of Go `uint64`s and of slice lengths). -/
def WfMsg (m : Msg) : Prop :=
  m.id < 2 ^ 64 ∧ m.reply < 2 ^ 64 ∧ m.data.length < 2 ^ 64 ∧ m.rcpt.length < 2 ^ 64 ∧
    ∀ r ∈ m.rcpt, r.1 < 2 ^ 64

def WfBatch (b : Batch) : Prop :=
  b.next < 2 ^ 64 ∧ b.msgs.length < 2 ^ 64 ∧ ∀ m ∈ b.msgs, WfMsg m

/-- what `unmarshal` makes of the recipient flags -/
def Msg.allTrue (m : Msg) : Msg := { m with rcpt := m.rcpt.map fun r => (r.1, true) }
def Batch.allTrue (b : Batch) : Batch := { b with msgs := b.msgs.map Msg.allTrue }

theorem rdBytes_append (d rest : Bytes) : rdBytes d.length (d ++ rest) = some (d, rest) := by
  simp [rdBytes]

theorem rdRcpts_marshal (rs : List (Nat × Bool)) (h : ∀ r ∈ rs, r.1 < 2 ^ 64) (rest : Bytes) :
    rdRcpts rs.length (rs.flatMap (fun r => le64 r.1) ++ rest) =
      some (rs.map (fun r => (r.1, true)), rest) := by
  induction rs with
  | nil => simp [rdRcpts]
  | cons r rs ih =>
    have hr : r.1 < 2 ^ 64 := h r (by simp)
    have ih' := ih (fun x hx => h x (by simp [hx]))
    simp only [List.length_cons, List.flatMap_cons, List.append_assoc, rdRcpts,
      rdLe64_le64 r.1 hr, ih', List.map_cons]

theorem rdMsg_marshal (m : Msg) (h : WfMsg m) (rest : Bytes) :
    rdMsg (marshalMsg m ++ rest) = some (m.allTrue, rest) := by
  obtain ⟨h1, h2, h3, h4, h5⟩ := h
  simp only [marshalMsg, List.append_assoc, rdMsg, rdLe64_le64 _ h1, rdLe64_le64 _ h2,
    rdLe64_le64 _ h3, rdBytes_append, rdLe64_le64 _ h4, rdRcpts_marshal _ h5, Msg.allTrue]

theorem rdMsgs_marshal (ms : List Msg) (h : ∀ m ∈ ms, WfMsg m) (rest : Bytes) :
    rdMsgs ms.length (ms.flatMap marshalMsg ++ rest) = some (ms.map Msg.allTrue, rest) := by
  induction ms with
  | nil => simp [rdMsgs]
  | cons m ms ih =>
    have hm := h m (by simp)
    have ih' := ih (fun x hx => h x (by simp [hx]))
    simp only [List.length_cons, List.flatMap_cons, List.append_assoc, rdMsgs,
      rdMsg_marshal m hm, ih', List.map_cons]

theorem unmarshal_marshal (b : Batch) (h : WfBatch b) : unmarshal (marshal b) = some b.allTrue := by
  obtain ⟨h1, h2, h3⟩ := h
  have := rdMsgs_marshal b.msgs h3 []
  simp only [List.append_nil] at this
  simp only [marshal, List.append_assoc, unmarshal, rdLe64_le64 _ h1, rdLe64_le64 _ h2, this,
    Batch.allTrue]

theorem rcpt_allTrue (rs : List (Nat × Bool)) (h : ∀ r ∈ rs, r.2 = true) :
    rs.map (fun r => (r.1, true)) = rs := by
  induction rs with
  | nil => rfl
  | cons r rs ih =>
    have hr := h r (by simp)
    simp only [List.map_cons, ih (fun x hx => h x (by simp [hx])), List.cons.injEq, and_true]
    obtain ⟨a, b⟩ := r; simp only at hr; subst hr; rfl

theorem Msg.allTrue_eq (m : Msg) (h : ∀ r ∈ m.rcpt, r.2 = true) : m.allTrue = m := by
  obtain ⟨id, reply, data, rcpt⟩ := m
  simp only [Msg.allTrue, Msg.mk.injEq, true_and]
  exact rcpt_allTrue rcpt h

theorem Batch.allTrue_eq (b : Batch) (h : ∀ m ∈ b.msgs, ∀ r ∈ m.rcpt, r.2 = true) : b.allTrue = b := by
  obtain ⟨msgs, next⟩ := b
  simp only [Batch.allTrue, Batch.mk.injEq, and_true]
  simp only at h
  induction msgs with
  | nil => rfl
  | cons m ms ih =>
    simp only [List.map_cons, List.cons.injEq]
    exact ⟨Msg.allTrue_eq m (h m (by simp)), ih (fun x hx => h x (by simp [hx]))⟩

end Robust.Stream
