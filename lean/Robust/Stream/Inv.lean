import Robust.Stream.Sys
/-!
Helper lemmas and the state invariant of the output-stream model (`Robust.Stream.OS`) used by
the C08 theorems (`Robust.Props.C08`).
-/
namespace Robust
namespace SMap
variable {α : Type}

theorem get_mem (m : SMap α) (k : Nat) (v : α) (h : get m k = some v) : (k, v) ∈ m := by
  induction m with
  | nil => simp [get] at h
  | cons e t ih =>
    obtain ⟨k', v'⟩ := e
    simp only [get] at h
    split at h
    · rename_i hk; subst hk; cases h; simp
    · exact List.mem_cons_of_mem _ (ih h)

theorem mem_get_of_sorted (m : SMap α) (k : Nat) (v : α) (hs : Sorted m) (h : (k, v) ∈ m) :
    get m k = some v := by
  induction m with
  | nil => simp at h
  | cons e t ih =>
    obtain ⟨k', v'⟩ := e
    simp only [Sorted, keys, List.map_cons, List.pairwise_cons] at hs
    simp only [List.mem_cons, Prod.mk.injEq] at h
    simp only [get]
    rcases h with ⟨rfl, rfl⟩ | h
    · simp
    · have hk : k ∈ keys t := by
        simp only [keys, List.mem_map]; exact ⟨(k, v), h, rfl⟩
      have := hs.1 k hk
      rw [if_neg (by omega)]
      exact ih hs.2 h

theorem get_put (m : SMap α) (k : Nat) (v : α) (x : Nat) :
    get (put m k v) x = if x = k then some v else get m x := by
  split
  · rename_i h; subst h; exact get_put_same m x v
  · rename_i h; exact get_put_other m k v x h

theorem get_erase (m : SMap α) (k x : Nat) :
    get (erase m k) x = if x = k then none else get m x := by
  split
  · rename_i h; subst h; exact get_erase_same m x
  · rename_i h; exact get_erase_other m k x h

/-- in a sorted map the last entry carries the greatest key -/
theorem getLast_max (m : SMap α) (hs : Sorted m) (k : Nat) (v : α)
    (h : m.getLast? = some (k, v)) : get m k = some v ∧ ∀ k' ∈ keys m, k' ≤ k := by
  induction m with
  | nil => simp at h
  | cons e t ih =>
    obtain ⟨k0, v0⟩ := e
    simp only [Sorted, keys, List.map_cons, List.pairwise_cons] at hs
    cases t with
    | nil =>
      simp only [List.getLast?_singleton, Option.some.injEq, Prod.mk.injEq] at h
      obtain ⟨rfl, rfl⟩ := h
      simp [get, keys]
    | cons e2 t2 =>
      rw [List.getLast?_cons_cons] at h
      obtain ⟨hg, hmax⟩ := ih hs.2 h
      have hk : k ∈ keys (e2 :: t2) := get_some_mem _ _ _ hg
      have hlt := hs.1 k hk
      refine ⟨?_, ?_⟩
      · simp only [get]; rw [if_neg (by omega)]; simpa [get] using hg
      · intro k' hk'
        simp only [keys, List.map_cons, List.mem_cons] at hk'
        rcases hk' with rfl | hk'
        · omega
        · exact hmax k' (by simpa [keys] using hk')

/-- conversely, the entry with the greatest key is the last one -/
theorem getLast_of_max (m : SMap α) (hs : Sorted m) (k : Nat) (v : α)
    (hg : get m k = some v) (hmax : ∀ k' ∈ keys m, k' ≤ k) : m.getLast? = some (k, v) := by
  cases hl : m.getLast? with
  | none =>
    rw [List.getLast?_eq_none_iff] at hl
    subst hl; simp [get] at hg
  | some e =>
    obtain ⟨k1, v1⟩ := e
    obtain ⟨hg1, hmax1⟩ := getLast_max m hs k1 v1 hl
    have h1 := hmax k1 (get_some_mem _ _ _ hg1)
    have h2 := hmax1 k (get_some_mem _ _ _ hg)
    have : k1 = k := by omega
    subst this
    rw [hg] at hg1; cases hg1; rfl

theorem get_map (f : α → β) (m : SMap α) (k : Nat) :
    get (m.map (fun e => (e.1, f e.2))) k = (get m k).map f := by
  induction m with
  | nil => rfl
  | cons e t ih =>
    obtain ⟨k', v'⟩ := e
    simp only [List.map_cons, get]
    split
    · rfl
    · exact ih

theorem firstGt_get (m : SMap α) (x : Nat) (hs : Sorted m) (k : Nat) (v : α)
    (hf : firstGt m x = some (k, v)) : get m k = some v := by
  apply mem_get_of_sorted m k v hs
  unfold firstGt at hf
  exact List.mem_of_find?_eq_some hf

/-- the decreasing measure of the `GetNext` chain walk: number of stored keys above `a` -/
theorem filter_gt_length_lt (l : List Nat) (a b : Nat) (hab : a < b) (hb : b ∈ l) :
    (l.filter (fun k => b < k)).length < (l.filter (fun k => a < k)).length := by
  induction l with
  | nil => simp at hb
  | cons c t ih =>
    have hle : (t.filter (fun k => b < k)).length ≤ (t.filter (fun k => a < k)).length := by
      clear ih hb
      induction t with
      | nil => simp
      | cons d t ih2 =>
        simp only [List.filter_cons]
        by_cases h1 : b < d
        · have h2 : a < d := by omega
          simp only [h1, h2, decide_true, ↓reduceIte, List.length_cons]; omega
        · by_cases h2 : a < d
          · simp only [h1, h2, decide_true, decide_false, Bool.false_eq_true, ↓reduceIte,
              List.length_cons]
            omega
          · simp only [h1, h2, decide_false, Bool.false_eq_true, ↓reduceIte]; exact ih2
    simp only [List.mem_cons] at hb
    simp only [List.filter_cons]
    rcases hb with rfl | hb
    · have h1 : ¬ b < b := by omega
      simp only [h1, hab, decide_true, decide_false, Bool.false_eq_true, ↓reduceIte,
        List.length_cons]; omega
    · have := ih hb
      by_cases h1 : b < c
      · have h2 : a < c := by omega
        simp only [h1, h2, decide_true, ↓reduceIte, List.length_cons]; omega
      · by_cases h2 : a < c
        · simp only [h1, h2, decide_true, decide_false, Bool.false_eq_true, ↓reduceIte,
            List.length_cons]; omega
        · simp only [h1, h2, decide_false, Bool.false_eq_true, ↓reduceIte]; exact this

/-- shape of a sorted map whose reversal starts with two entries (`i.Last(); i.Prev()`) -/
theorem reverse_two (m : SMap α) (e1 : Nat × α) (pk : Nat) (mb : α) (rest : SMap α)
    (hs : Sorted m) (hr : m.reverse = e1 :: (pk, mb) :: rest) :
    get m pk = some mb ∧ m.getLast? = some e1 ∧ pk < e1.1 ∧ ∀ k ∈ keys m, k = e1.1 ∨ k ≤ pk := by
  have hm : m = rest.reverse ++ [(pk, mb), e1] := by
    have := congrArg List.reverse hr
    simpa using this
  subst hm
  have hs' := hs
  unfold Sorted keys at hs'
  simp only [List.map_append, List.map_cons, List.map_nil, List.pairwise_append,
    List.pairwise_cons, List.mem_cons, List.not_mem_nil] at hs'
  obtain ⟨_, h2, h3⟩ := hs'
  refine ⟨mem_get_of_sorted _ _ _ hs (by simp), by simp, ?_, ?_⟩
  · exact h2.1 _ (Or.inl rfl)
  · intro k hk
    simp only [keys, List.map_append, List.map_cons, List.map_nil, List.mem_append,
      List.mem_cons, List.not_mem_nil, or_false] at hk
    rcases hk with hk | rfl | rfl
    · right; exact Nat.le_of_lt (h3 k hk pk (Or.inl rfl))
    · right; exact Nat.le_refl _
    · left; rfl

end SMap

namespace Stream

/-- the state invariant of the output stream -/
structure Inv (s : OS) : Prop where
  sorted : SMap.Sorted s.db
  /-- key = id of the first message of the batch -/
  keyId : ∀ k b, SMap.get s.db k = some b → b.id? = some k ∧ k < noNext
  lastIs : ∃ lid lb, s.db.getLast? = some (lid, lb) ∧ s.last.id? = some lid ∧
    lb.msgs = s.last.msgs ∧ lb.next = noNext ∧ s.last.next = noNext
  link : ∀ k b, SMap.get s.db k = some b →
    (b.next = noNext ∧ (∀ k' ∈ SMap.keys s.db, k' ≤ k)) ∨
    (k < b.next ∧ b.next < noNext ∧ ∀ k' ∈ SMap.keys s.db, k < k' → b.next ≤ k')
  /-- the cache is exactly coherent with the database -/
  cacheOk : ∀ k c, SMap.get s.cache k = some c → SMap.get s.db k = some c

/-- the batch stored under `c` points to an id that is not stored (its successor was deleted) -/
def Dangling (s : OS) (c : Nat) : Prop :=
  ∃ b, SMap.get s.db c = some b ∧ b.next < noNext ∧ b.next ∉ SMap.keys s.db

theorem leastAbove_congr (s s' : OS) (h : s'.db = s.db) (x : Nat) (m : List Msg) :
    leastAbove s' x m ↔ leastAbove s x m := by
  unfold leastAbove; rw [h]

theorem noneAbove_congr (s s' : OS) (h : s'.db = s.db) (x : Nat) :
    noneAbove s' x ↔ noneAbove s x := by
  unfold noneAbove; rw [h]

theorem Dangling_congr (s s' : OS) (h : s'.db = s.db) (c : Nat) :
    Dangling s' c ↔ Dangling s c := by
  unfold Dangling; rw [h]

namespace Inv
variable {s : OS}

theorem key_lt (h : Inv s) (k : Nat) (hk : k ∈ SMap.keys s.db) : k < noNext := by
  obtain ⟨b, hb⟩ := SMap.mem_keys_get _ _ hk
  exact (h.keyId k b hb).2

theorem noNext_notMem (h : Inv s) : noNext ∉ SMap.keys s.db := by
  intro hk; have := h.key_lt _ hk; omega

/-- facts about the in-memory last batch -/
theorem last_facts (h : Inv s) : ∃ lid lb, s.last.id? = some lid ∧ SMap.get s.db lid = some lb ∧
    lb.msgs = s.last.msgs ∧ lb.next = noNext ∧ s.last.next = noNext ∧
    ∀ k' ∈ SMap.keys s.db, k' ≤ lid := by
  obtain ⟨lid, lb, h1, h2, h3, h4, h5⟩ := h.lastIs
  obtain ⟨hg, hmax⟩ := SMap.getLast_max _ h.sorted _ _ h1
  exact ⟨lid, lb, h2, hg, h3, h4, h5, hmax⟩

/-- `next = noNext` means `k` is the greatest stored key -/
theorem max_of_not_lt (h : Inv s) (k : Nat) (b : Batch) (hb : SMap.get s.db k = some b)
    (hn : ¬ b.next < noNext) : ∀ k' ∈ SMap.keys s.db, k' ≤ k := by
  rcases h.link k b hb with ⟨_, hm⟩ | ⟨_, h2, _⟩
  · exact hm
  · exact absurd h2 hn

/-- a `next` below `noNext` bounds every stored key above `k` from below -/
theorem succ_of_lt (h : Inv s) (k : Nat) (b : Batch) (hb : SMap.get s.db k = some b)
    (hn : b.next < noNext) : k < b.next ∧ ∀ k' ∈ SMap.keys s.db, k < k' → b.next ≤ k' := by
  rcases h.link k b hb with ⟨h1, _⟩ | ⟨h1, _, h3⟩
  · omega
  · exact ⟨h1, h3⟩

/-- a `next` that is itself stored is the least stored key above `k` -/
theorem succ_of_mem (h : Inv s) (k : Nat) (b : Batch) (hb : SMap.get s.db k = some b)
    (hm : b.next ∈ SMap.keys s.db) :
    k < b.next ∧ ∀ k' ∈ SMap.keys s.db, k < k' → b.next ≤ k' :=
  h.succ_of_lt k b hb (h.key_lt _ hm)

/-- the batch under the greatest key has `next = noNext` -/
theorem next_of_max (h : Inv s) (k : Nat) (b : Batch) (hb : SMap.get s.db k = some b)
    (hmax : ∀ k' ∈ SMap.keys s.db, k' ≤ k) : b.next = noNext := by
  obtain ⟨lid, lb, h1, _, _, h4, _⟩ := h.lastIs
  have := SMap.getLast_of_max _ h.sorted k b hb hmax
  rw [h1] at this; cases this; exact h4

end Inv

/-- `getUnlocked`: only the cache changes; the result is exactly what `db` stores -/
theorem getU_spec (s : OS) (k : Nat) (h : Inv s) :
    Inv (s.getU k).1 ∧ (s.getU k).1.db = s.db ∧ (s.getU k).1.last = s.last ∧
    match (s.getU k).2 with
    | none => k ∉ SMap.keys s.db
    | some c => SMap.get s.db k = some c := by
  unfold OS.getU
  cases hc : SMap.get s.cache k with
  | some c => exact ⟨h, rfl, rfl, h.cacheOk k c hc⟩
  | none =>
    cases hd : SMap.get s.db k with
    | none => exact ⟨h, rfl, rfl, (SMap.get_none_iff _ _).1 hd⟩
    | some b =>
      refine ⟨⟨h.sorted, h.keyId, h.lastIs, h.link, ?_⟩, rfl, rfl, rfl⟩
      intro k' c' hc'
      simp only [SMap.get_put] at hc'
      split at hc'
      · rename_i hk; subst hk; cases hc'; exact hd
      · exact h.cacheOk k' c' hc'

/-- what `Add` does to the state, read through `SMap.get` -/
theorem add_effect (s s' : OS) (msgs : List Msg) (h : Inv s) (hok : AddOk s msgs)
    (ha : s.add msgs = some s') :
    ∃ m lid lb, msgs.head? = some m ∧ s.last.id? = some lid ∧ SMap.get s.db lid = some lb ∧
      lb.msgs = s.last.msgs ∧ (∀ k' ∈ SMap.keys s.db, k' ≤ lid) ∧ lid < m.id ∧ m.id < noNext ∧
      s'.last = ⟨msgs, noNext⟩ ∧ s'.cache = SMap.erase s.cache lid ∧
      (∀ k, SMap.get s'.db k = if k = m.id then some ⟨msgs, noNext⟩
        else if k = lid then some ⟨s.last.msgs, m.id⟩ else SMap.get s.db k) ∧
      (∀ k, k ∈ SMap.keys s'.db ↔ k = m.id ∨ k ∈ SMap.keys s.db) ∧ SMap.Sorted s'.db := by
  obtain ⟨m, hm, hgt, hlt⟩ := hok
  obtain ⟨lid, lb, h1, h2, h3, _, _, h6⟩ := h.last_facts
  have hlid : lid ∈ SMap.keys s.db := SMap.get_some_mem _ _ _ h2
  unfold OS.add at ha
  rw [hm, h1] at ha
  simp only [Option.some.injEq] at ha
  subst ha
  refine ⟨m, lid, lb, hm, h1, h2, h3, h6, hgt lid hlid, hlt, rfl, rfl, ?_, ?_, ?_⟩
  · intro k
    simp only [SMap.get_put]
  · intro k
    simp only [SMap.keys_put_mem]
    constructor
    · rintro (hk | hk | hk)
      · exact Or.inl hk
      · subst hk; exact Or.inr hlid
      · exact Or.inr hk
    · rintro (hk | hk)
      · exact Or.inl hk
      · exact Or.inr (Or.inr hk)
  · exact SMap.sorted_put _ _ _ (SMap.sorted_put _ _ _ h.sorted)

/-- what `Delete` does to the state: plain erase, or (tail) re-point to the predecessor -/
theorem delete_effect (s s' : OS) (id : Nat) (h : Inv s) (hd : s.delete id = some s') :
    ∃ lid lb, s.last.id? = some lid ∧ SMap.get s.db lid = some lb ∧
      (∀ k' ∈ SMap.keys s.db, k' ≤ lid) ∧
      ((id ≠ lid ∧ s' = ⟨SMap.erase s.db id, s.last, SMap.erase s.cache id⟩) ∨
       (id = lid ∧ ∃ pk mb, SMap.get s.db pk = some mb ∧ pk < lid ∧
          (∀ k ∈ SMap.keys s.db, k = lid ∨ k ≤ pk) ∧
          s' = ⟨SMap.erase (SMap.put s.db pk ⟨mb.msgs, noNext⟩) lid, ⟨mb.msgs, noNext⟩,
                SMap.erase (SMap.erase s.cache pk) lid⟩)) := by
  obtain ⟨lid, lb, hl1, hl2, _, _, _⟩ := h.lastIs
  obtain ⟨hg, hmax⟩ := SMap.getLast_max _ h.sorted _ _ hl1
  refine ⟨lid, lb, hl2, hg, hmax, ?_⟩
  unfold OS.delete at hd
  rw [hl2] at hd
  simp only at hd
  split at hd
  · rename_i hid
    right
    refine ⟨hid, ?_⟩
    split at hd
    · cases hd
    · cases hd
    · rename_i e1 pk mb rest hrev
      obtain ⟨r1, r2, r3, r4⟩ := SMap.reverse_two _ _ _ _ _ h.sorted hrev
      rw [hl1] at r2
      cases r2
      have hpid := (h.keyId pk mb r1).1
      rw [hpid] at hd
      simp only [Option.some.injEq] at hd
      subst hid
      exact ⟨pk, mb, r1, r3, r4, hd.symm⟩
  · rename_i hid
    left
    simp only [Option.some.injEq] at hd
    exact ⟨hid, hd.symm⟩

theorem delete_no_panic (s : OS) (id : Nat) (h : Inv s) (hid : id ≠ 0)
    (h0 : 0 ∈ SMap.keys s.db) : ∃ s', s.delete id = some s' := by
  obtain ⟨lid, lb, hl1, hl2, _, _, _⟩ := h.lastIs
  obtain ⟨hg, hmax⟩ := SMap.getLast_max _ h.sorted _ _ hl1
  unfold OS.delete
  rw [hl2]
  simp only
  split
  · rename_i hid'
    subst hid'
    split
    · rename_i hrev
      have : s.db = [] := by simpa using hrev
      rw [this] at h0; simp [SMap.keys] at h0
    · rename_i e hrev
      have hdb : s.db = [e] := by
        have := congrArg List.reverse hrev
        simpa using this
      rw [hdb] at h0 hl1
      simp only [SMap.keys, List.map_cons, List.map_nil, List.mem_singleton] at h0
      simp only [List.getLast?_singleton, Option.some.injEq] at hl1
      subst hl1
      exact absurd h0.symm hid
    · rename_i e1 pk mb rest hrev
      obtain ⟨r1, _, _, _⟩ := SMap.reverse_two _ _ _ _ _ h.sorted hrev
      rw [(h.keyId pk mb r1).1]
      exact ⟨_, rfl⟩
  · exact ⟨_, rfl⟩

/-! ### `GetNext`, phase 1 -/

/-- the range search of phase 1 (the local `search` of `OS.getNextP1`) -/
def OS.search (s : OS) (x : Nat) : OS × P1 :=
  match SMap.firstGt s.db x with
  | some (_, mb) => (s, .ret mb.msgs)
  | none =>
    match s.db.getLast? with
    | none => (s, .panic)
    | some (_, lb) => match lb.id? with
      | some lid => (s, .park lid)
      | none => (s, .panic)

theorem getNextP1_eq (s : OS) (x : Nat) : s.getNextP1 x =
    match (s.getU x).2 with
    | none => (s.getU x).1.search x
    | some c =>
      if c.next < noNext then
        match ((s.getU x).1.getU c.next).2 with
        | some n => (((s.getU x).1.getU c.next).1, .ret n.msgs)
        | none => ((s.getU x).1.getU c.next).1.search x
      else
        match c.id? with
        | some cid => ((s.getU x).1, .park cid)
        | none => ((s.getU x).1, .panic) := by
  rfl

/-- specification of a phase-1 result against the stream `s`; a reader is parked only behind
the greatest stored key, and only if that key is `≤ x` -/
def P1Spec (s : OS) (x : Nat) : P1 → Prop
  | .ret m => leastAbove s x m
  | .park cur => cur ∈ SMap.keys s.db ∧ cur ≤ x ∧ ∀ k ∈ SMap.keys s.db, k ≤ cur
  | .panic => False

theorem P1Spec_congr (s s' : OS) (h : s'.db = s.db) (x : Nat) (r : P1) :
    P1Spec s' x r ↔ P1Spec s x r := by
  cases r with
  | ret m => exact leastAbove_congr s s' h x m
  | park c => simp only [P1Spec, h]
  | panic => exact Iff.rfl

theorem search_spec (s : OS) (x : Nat) (h : Inv s) :
    (s.search x).1 = s ∧ P1Spec s x (s.search x).2 := by
  unfold OS.search
  cases hf : SMap.firstGt s.db x with
  | some e =>
    obtain ⟨k, mb⟩ := e
    obtain ⟨f1, f2, f3⟩ := SMap.firstGt_least _ _ h.sorted _ _ hf
    exact ⟨rfl, k, mb, SMap.firstGt_get _ _ h.sorted _ _ hf, rfl, f1, f3⟩
  | none =>
    have hle := SMap.firstGt_none _ _ hf
    obtain ⟨lid, lb, hl1, hl2, _, _, _⟩ := h.lastIs
    obtain ⟨hg, hmax⟩ := SMap.getLast_max _ h.sorted _ _ hl1
    simp only [hl1, (h.keyId lid lb hg).1]
    exact ⟨trivial, SMap.get_some_mem _ _ _ hg, hle lid (SMap.get_some_mem _ _ _ hg), hmax⟩

theorem p1_spec (s : OS) (x : Nat) (h : Inv s) :
    Inv (s.getNextP1 x).1 ∧ (s.getNextP1 x).1.db = s.db ∧ P1Spec s x (s.getNextP1 x).2 := by
  rw [getNextP1_eq]
  obtain ⟨i1, d1, -, sp1⟩ := getU_spec s x h
  generalize s.getU x = p at i1 d1 sp1 ⊢
  obtain ⟨s1, cur⟩ := p
  simp only at i1 d1 sp1 ⊢
  cases cur with
  | none =>
    simp only at sp1 ⊢
    obtain ⟨e1, e2⟩ := search_spec s1 x i1
    rw [e1]
    exact ⟨i1, d1, (P1Spec_congr s s1 d1 x _).1 e2⟩
  | some c =>
    simp only at sp1 ⊢
    split
    · rename_i hlt
      obtain ⟨i2, d2, -, sp2⟩ := getU_spec s1 c.next i1
      generalize s1.getU c.next = p2 at i2 d2 sp2 ⊢
      obtain ⟨s2, nx⟩ := p2
      simp only at i2 d2 sp2 ⊢
      have d2' : s2.db = s.db := d2.trans d1
      rw [d1] at sp2
      cases nx with
      | none =>
        simp only at sp2 ⊢
        obtain ⟨e1, e2⟩ := search_spec s2 x i2
        rw [e1]
        exact ⟨i2, d2', (P1Spec_congr s s2 d2' x _).1 e2⟩
      | some n =>
        simp only at sp2 ⊢
        refine ⟨i2, d2', ?_⟩
        obtain ⟨g1, g2⟩ := h.succ_of_lt x c sp1 hlt
        exact ⟨c.next, n, sp2, rfl, g1, g2⟩
    · rename_i hlt
      rw [(h.keyId x c sp1).1]
      simp only
      exact ⟨i1, d1, SMap.get_some_mem _ _ _ sp1, Nat.le_refl _, h.max_of_not_lt x c sp1 hlt⟩

/-! ### `GetNext`, one stretch of the wait loop -/

theorem getNextP2_succ (s : OS) (x fuel cur : Nat) : s.getNextP2 x (fuel + 1) cur =
    match (s.getU cur).2 with
    | none => ((s.getU cur).1, .restart)
    | some c =>
      match ((s.getU cur).1.getU c.next).2 with
      | none =>
        if c.next < noNext then (((s.getU cur).1.getU c.next).1, .restart)
        else (((s.getU cur).1.getU c.next).1, .wait cur)
      | some n =>
        match n.id? with
        | none => (((s.getU cur).1.getU c.next).1, .panic)
        | some nid =>
          if nid ≤ x then OS.getNextP2 ((s.getU cur).1.getU c.next).1 x fuel nid
          else (((s.getU cur).1.getU c.next).1, .ret n.msgs) := by
  rfl

/-- specification of the result of a wait-loop stretch entered behind `cur`: it returns the
least stored batch above `x`, blocks only if nothing above `x` is stored, and starts over only
if `cur` has been deleted or the chain from `cur` reaches (at or below `x`) a batch whose
successor has been deleted -/
def P2Spec (s : OS) (x cur : Nat) : P2 → Prop
  | .ret m => leastAbove s x m
  | .wait c => c ∈ SMap.keys s.db ∧ c ≤ x ∧ noneAbove s x
  | .restart => cur ∉ SMap.keys s.db ∨ ∃ c, cur ≤ c ∧ c ≤ x ∧ Dangling s c
  | .panic => False

theorem p2_gen (x : Nat) : ∀ (fuel : Nat) (s : OS) (cur : Nat), Inv s → cur ≤ x →
    ((SMap.keys s.db).filter (fun k => cur < k)).length < fuel →
    Inv (s.getNextP2 x fuel cur).1 ∧ (s.getNextP2 x fuel cur).1.db = s.db ∧
      P2Spec s x cur (s.getNextP2 x fuel cur).2 := by
  intro fuel
  induction fuel with
  | zero => intro s cur _ _ hf; exact absurd hf (Nat.not_lt_zero _)
  | succ fuel ih =>
    intro s cur h hc hf
    rw [getNextP2_succ]
    obtain ⟨i1, d1, -, sp1⟩ := getU_spec s cur h
    generalize s.getU cur = p at i1 d1 sp1 ⊢
    obtain ⟨s1, c⟩ := p
    simp only at i1 d1 sp1 ⊢
    cases c with
    | none => exact ⟨i1, d1, Or.inl sp1⟩
    | some c =>
      simp only at sp1 ⊢
      obtain ⟨i2, d2, -, sp2⟩ := getU_spec s1 c.next i1
      generalize s1.getU c.next = p2 at i2 d2 sp2 ⊢
      obtain ⟨s2, nx⟩ := p2
      simp only at i2 d2 sp2 ⊢
      have d2' : s2.db = s.db := d2.trans d1
      rw [d1] at sp2
      cases nx with
      | none =>
        simp only at sp2 ⊢
        split
        · rename_i hlt
          exact ⟨i2, d2', Or.inr ⟨cur, Nat.le_refl _, hc, c, sp1, hlt, sp2⟩⟩
        · rename_i hlt
          refine ⟨i2, d2', SMap.get_some_mem _ _ _ sp1, hc, ?_⟩
          intro k hk; exact Nat.le_trans (h.max_of_not_lt cur c sp1 hlt k hk) hc
      | some n =>
        simp only at sp2 ⊢
        have hmem := SMap.get_some_mem _ _ _ sp2
        obtain ⟨g1, g2⟩ := h.succ_of_mem cur c sp1 hmem
        rw [(h.keyId c.next n sp2).1]
        simp only
        split
        · rename_i hle
          have hf' : ((SMap.keys s2.db).filter (fun k => c.next < k)).length < fuel := by
            rw [d2']
            have := SMap.filter_gt_length_lt (SMap.keys s.db) cur c.next g1 hmem
            omega
          obtain ⟨i3, d3, sp3⟩ := ih s2 c.next i2 hle hf'
          refine ⟨i3, d3.trans d2', ?_⟩
          generalize (s2.getNextP2 x fuel c.next).2 = r at sp3
          cases r with
          | ret m => exact (leastAbove_congr s s2 d2' x m).1 sp3
          | wait c' =>
            simp only [P2Spec, d2', noneAbove_congr s s2 d2'] at sp3 ⊢
            exact sp3
          | restart =>
            simp only [P2Spec, d2', Dangling_congr s s2 d2'] at sp3
            rcases sp3 with h1 | ⟨c', h1, h2, h3⟩
            · exact absurd hmem h1
            · exact Or.inr ⟨c', by omega, h2, h3⟩
          | panic => exact sp3
        · rename_i hgt
          refine ⟨i2, d2', ?_⟩
          exact ⟨c.next, n, sp2, rfl, by omega, fun k' hk' hlt => g2 k' hk' (by omega)⟩

theorem p2_spec (s : OS) (x cur : Nat) (h : Inv s) (hc : cur ≤ x) :
    Inv (s.getNextP2 x (s.db.length + 1) cur).1 ∧
      (s.getNextP2 x (s.db.length + 1) cur).1.db = s.db ∧
      P2Spec s x cur (s.getNextP2 x (s.db.length + 1) cur).2 := by
  apply p2_gen x _ s cur h hc
  have h1 := List.length_filter_le (fun k => decide (cur < k)) (SMap.keys s.db)
  have h2 : (SMap.keys s.db).length = s.db.length := by simp [SMap.keys]
  omega

/-- a wait-loop stretch entered behind the greatest stored key blocks right there -/
theorem p2_of_max (s : OS) (x fuel cur : Nat) (h : Inv s) (hm : cur ∈ SMap.keys s.db)
    (hmax : ∀ k ∈ SMap.keys s.db, k ≤ cur) : (s.getNextP2 x (fuel + 1) cur).2 = .wait cur := by
  rw [getNextP2_succ]
  obtain ⟨i1, d1, -, sp1⟩ := getU_spec s cur h
  generalize s.getU cur = p at i1 d1 sp1 ⊢
  obtain ⟨s1, c⟩ := p
  simp only at i1 d1 sp1 ⊢
  cases c with
  | none => exact absurd hm sp1
  | some c =>
    simp only at sp1 ⊢
    have hn := h.next_of_max cur c sp1 hmax
    obtain ⟨i2, d2, -, sp2⟩ := getU_spec s1 c.next i1
    generalize s1.getU c.next = p2 at i2 d2 sp2 ⊢
    obtain ⟨s2, nx⟩ := p2
    simp only at sp2 ⊢
    rw [d1, hn] at sp2
    cases nx with
    | none => simp only; rw [hn, if_neg (Nat.lt_irrefl _)]
    | some n => exact absurd (SMap.get_some_mem _ _ _ sp2) h.noNext_notMem

end Stream
end Robust
