import Robust.Base.SMap
import Robust.Stream.Codec
/-!
Model of `internal/outputstream/outputstream.go` as a transition system whose atomic steps are
the lock regions of the code:

* `add`, `delete`, `get` — one region each (`messagesMu` held for the whole body);
* `GetNext` — **P1** (read-locked: the four-case table, range search, fall back to the last
  batch) and then iterations of **P2** (write-locked: re-read the batch the reader waits
  behind, follow `NextID`, otherwise `Cond.Wait`).

`db` is the LevelDB keyspace (sorted by key), `last` the in-memory `lastseen` batch, `cache`
the `messagesCache` (eviction is not modelled: it is invisible as long as the cache is
coherent, which is part of the invariant).  `none`/`panic` results model Go panics.
-/
namespace Robust.Stream
open Robust

structure OS where
  db : SMap Batch
  last : Batch
  cache : SMap Batch
  deriving Repr

/-- id of a (non-empty) batch: `Messages[0].Id.Id`; indexing an empty slice panics -/
def Batch.id? (b : Batch) : Option Nat := b.msgs.head?.map (·.id)

def sentinel : Batch := ⟨[⟨0, 0, [], []⟩], noNext⟩

/-- `reset()`: fresh stream holding only the sentinel batch 0 -/
def OS.init : OS := ⟨[(0, sentinel)], sentinel, []⟩

/-- `getUnlocked`: cache first, then the database (populating the cache) -/
def OS.getU (s : OS) (id : Nat) : OS × Option Batch :=
  match SMap.get s.cache id with
  | some b => (s, some b)
  | none =>
    match SMap.get s.db id with
    | none => (s, none)
    | some b => ({ s with cache := SMap.put s.cache id b }, some b)

/-- `Add(msgs)`; `none` = panic (empty `msgs`) -/
def OS.add (s : OS) (msgs : List Msg) : Option OS :=
  match msgs.head?, s.last.id? with
  | some m, some lid =>
    let last' : Batch := { s.last with next := m.id }
    let db1 := SMap.put s.db lid last'
    let cache1 := SMap.erase s.cache lid
    let nb : Batch := ⟨msgs, noNext⟩
    some ⟨SMap.put db1 m.id nb, nb, cache1⟩
  | _, _ => none

/-- `Delete(id)`; `none` = panic (`Delete() called on _all_ messages` / empty database) -/
def OS.delete (s : OS) (id : Nat) : Option OS :=
  match s.last.id? with
  | none => none
  | some lid =>
    if id = lid then
      -- i.Last(); i.Prev()
      match s.db.reverse with
      | [] => none
      | [_] => none
      | _ :: (_, mb) :: _ =>
        match mb.id? with
        | none => none
        | some pid =>
          let last' : Batch := ⟨mb.msgs, noNext⟩
          let db1 := SMap.put s.db pid last'
          some ⟨SMap.erase db1 id, last', SMap.erase (SMap.erase s.cache pid) id⟩
    else
      some ⟨SMap.erase s.db id, s.last, SMap.erase s.cache id⟩

/-- `Get(id)` -/
def OS.get (s : OS) (id : Nat) : OS × Option (List Msg) :=
  let (s', r) := s.getU id
  (s', r.map (·.msgs))

def OS.lastSeen (s : OS) : Nat := (s.last.id?).getD 0

inductive P1 where
  | ret (msgs : List Msg)
  | park (cur : Nat)     -- continue in P2, waiting behind the batch with id `cur`
  | panic
  deriving Repr, DecidableEq

/-- phase 1 of `GetNext(x)` (under `RLock`) -/
def OS.getNextP1 (s : OS) (x : Nat) : OS × P1 :=
  let (s1, cur) := s.getU x
  let search (s : OS) : OS × P1 :=
    match SMap.firstGt s.db x with
    | some (_, mb) => (s, .ret mb.msgs)
    | none =>
      match s.db.getLast? with
      | none => (s, .panic)
      | some (_, lb) => match lb.id? with
        | some lid => (s, .park lid)
        | none => (s, .panic)
  match cur with
  | none => search s1
  | some c =>
    if c.next < noNext then
      let (s2, nx) := s1.getU c.next
      match nx with
      | some n => (s2, .ret n.msgs)
      | none => search s2
    else
      match c.id? with
      | some cid => (s1, .park cid)
      | none => (s1, .panic)

inductive P2 where
  | ret (msgs : List Msg)
  | wait (cur : Nat)     -- nothing newer yet: `Cond.Wait` (or return [] when cancelled)
  | restart              -- the batch waited behind vanished, or its successor did: start over with P1
  | panic
  deriving Repr, DecidableEq

/-- one write-locked stretch of the wait loop of `GetNext(x)`, entered waiting behind `cur`;
follows the chain while it yields ids `≤ x` (fuel bounds the chain length) -/
def OS.getNextP2 (s : OS) (x : Nat) : Nat → Nat → OS × P2
  | 0, cur => (s, .wait cur)
  | fuel + 1, cur =>
    let (s1, c) := s.getU cur
    match c with
    | none => (s1, .restart)
    | some c =>
      let (s2, nx) := s1.getU c.next
      match nx with
      | none => if c.next < noNext then (s2, .restart) else (s2, .wait cur)
      | some n =>
        match n.id? with
        | none => (s2, .panic)
        | some nid => if nid ≤ x then OS.getNextP2 s2 x fuel nid else (s2, .ret n.msgs)

/-- `GetNext(ctx, x)` with an already-cancelled context, run without interference: a
non-blocking poll.  `none` = would block (returns `[]`). -/
def OS.poll (s : OS) (x : Nat) : Nat → OS × Option (Option (List Msg))
  | 0 => (s, none)
  | fuel + 1 =>
    match s.getNextP1 x with
    | (s1, .ret m) => (s1, some (some m))
    | (s1, .panic) => (s1, none)
    | (s1, .park cur) =>
      match s1.getNextP2 x (s1.db.length + 1) cur with
      | (s2, .ret m) => (s2, some (some m))
      | (s2, .wait _) => (s2, some none)
      | (s2, .restart) => OS.poll s2 x fuel
      | (s2, .panic) => (s2, none)

end Robust.Stream
