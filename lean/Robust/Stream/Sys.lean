import Robust.Stream.Reader
/-!
The concurrent system: one `OutputStream` and any number of `GetNext` calls in flight.
Every transition is one lock region of the Go code (writers: `Add`, `Delete`, `Get`,
`InterruptGetNext`; readers: phase 1, or one write-locked stretch of the wait loop), so every
interleaving of the real lock-protected steps is a path of `Step`.
-/
namespace Robust.Stream
open Robust

/-- precondition of `Add` stated by the property: non-empty, id above every stored id -/
def AddOk (s : OS) (msgs : List Msg) : Prop :=
  ∃ m, msgs.head? = some m ∧ (∀ k ∈ SMap.keys s.db, k < m.id) ∧ m.id < noNext

inductive PC where
  | ready (cur : Option Nat)   -- runnable: `none` = about to run phase 1; `some c` = about to run a wait-loop stretch behind `c`
  | waiting (cur : Nat)        -- blocked in `Cond.Wait` behind `c`, not signalled since it blocked
  | returned (msgs : Option (List Msg))  -- `none` = returned `[]`
  | crashed
  deriving Repr, DecidableEq

structure RThread where
  x : Nat
  cancelled : Bool
  pc : PC
  deriving Repr, DecidableEq

structure Sys where
  os : OS
  rs : List RThread
  deriving Repr

/-- `Cond.Broadcast`: every waiter becomes runnable -/
def signal (t : RThread) : RThread :=
  match t.pc with
  | .waiting c => { t with pc := .ready (some c) }
  | _ => t

/-- one atomic step of reader `t` against stream `os` (only defined for runnable readers) -/
def readerStep (os : OS) (t : RThread) : OS × RThread :=
  match t.pc with
  | .ready none =>
    match os.getNextP1 t.x with
    | (os1, .ret m) => (os1, { t with pc := .returned (some m) })
    | (os1, .park c) => (os1, { t with pc := .ready (some c) })
    | (os1, .panic) => (os1, { t with pc := .crashed })
  | .ready (some c) =>
    match os.getNextP2 t.x (os.db.length + 1) c with
    | (os1, .ret m) => (os1, { t with pc := .returned (some m) })
    | (os1, .wait c') => (os1, { t with pc := if t.cancelled then .returned none else .waiting c' })
    | (os1, .restart) => (os1, { t with pc := .ready none })
    | (os1, .panic) => (os1, { t with pc := .crashed })
  | _ => (os, t)

inductive Step : Sys → Sys → Prop where
  | add (σ : Sys) (msgs : List Msg) (os' : OS) : AddOk σ.os msgs → σ.os.add msgs = some os' →
      Step σ ⟨os', σ.rs.map signal⟩
  | delete (σ : Sys) (id : Nat) (os' : OS) : id ≠ 0 → σ.os.delete id = some os' → Step σ ⟨os', σ.rs⟩
  | get (σ : Sys) (id : Nat) : Step σ ⟨(σ.os.get id).1, σ.rs⟩
  | interrupt (σ : Sys) : Step σ ⟨σ.os, σ.rs.map signal⟩
  | call (σ : Sys) (x : Nat) : Step σ ⟨σ.os, σ.rs ++ [⟨x, false, .ready none⟩]⟩
  | cancel (σ : Sys) (i : Nat) (t : RThread) : σ.rs[i]? = some t →
      Step σ ⟨σ.os, σ.rs.set i { t with cancelled := true }⟩
  | reader (σ : Sys) (i : Nat) (t : RThread) (c : Option Nat) : σ.rs[i]? = some t → t.pc = .ready c →
      Step σ ⟨(readerStep σ.os t).1, σ.rs.set i (readerStep σ.os t).2⟩

inductive Reach : Sys → Prop where
  | init : Reach ⟨OS.init, []⟩
  | step (σ σ' : Sys) : Reach σ → Step σ σ' → Reach σ'

/-- the batch with the least stored id greater than `x`, if any -/
def leastAbove (s : OS) (x : Nat) (m : List Msg) : Prop :=
  ∃ k b, SMap.get s.db k = some b ∧ b.msgs = m ∧ x < k ∧ ∀ k' ∈ SMap.keys s.db, x < k' → k ≤ k'

def noneAbove (s : OS) (x : Nat) : Prop := ∀ k ∈ SMap.keys s.db, k ≤ x

end Robust.Stream
