import Robust.Stream.OS
/-! A `GetNext` call as a resumable reader: runs from its current program point to its next
blocking point (`Cond.Wait`) or to its return. -/
namespace Robust.Stream

inductive RStatus where
  | parked (cur : Nat)                   -- inside `Cond.Wait`, waiting behind batch `cur`
  | done (msgs : Option (List Msg))      -- returned; `none` = returned `[]` (context cancelled)
  | panicked
  deriving Repr, DecidableEq

/-- run the reader of `GetNext(x)`: from the start (`cur = none`) or after a wake-up while
parked behind `cur`.  `fuel` bounds the number of restarts. -/
def OS.runReader (s : OS) (x : Nat) (cancelled : Bool) : Nat → Option Nat → OS × RStatus
  | 0, _ => (s, .panicked)
  | fuel + 1, none =>
    match s.getNextP1 x with
    | (s1, .ret m) => (s1, .done (some m))
    | (s1, .panic) => (s1, .panicked)
    | (s1, .park cur) => OS.runReader s1 x cancelled fuel (some cur)
  | fuel + 1, some cur =>
    match s.getNextP2 x (s.db.length + 1) cur with
    | (s1, .ret m) => (s1, .done (some m))
    | (s1, .wait c) => if cancelled then (s1, .done none) else (s1, .parked c)
    | (s1, .restart) => OS.runReader s1 x cancelled fuel none
    | (s1, .panic) => (s1, .panicked)

end Robust.Stream
