/-
Fixed-width integer arithmetic as Go performs it on `int64` / `time.Duration`,
expressed over `Int` so that `omega` can reason about it.
-/
namespace Robust.I64

def minI : Int := -9223372036854775808
def maxI : Int := 9223372036854775807

/-- two's complement wrap-around of an `int64` result -/
def wrap (x : Int) : Int := (x + 9223372036854775808) % 18446744073709551616 - 9223372036854775808

/-- Go `a + b` on int64 / time.Duration -/
def add (a b : Int) : Int := wrap (a + b)
/-- Go `a - b` on int64 / time.Duration -/
def sub (a b : Int) : Int := wrap (a - b)
/-- Go unary `-a` on int64 / time.Duration (`-MinInt64 = MinInt64`) -/
def neg (a : Int) : Int := wrap (-a)

/-- Go `time.Time.Sub`: the true difference in nanoseconds, saturated to the `Duration` range.
Times are nanoseconds relative to the Unix epoch as unbounded integers. -/
def tsub (t u : Int) : Int :=
  let d := t - u
  if d < minI then minI else if d > maxI then maxI else d

def InRange (x : Int) : Prop := minI ≤ x ∧ x ≤ maxI

theorem wrap_id {x : Int} (h : InRange x) : wrap x = x := by
  unfold InRange minI maxI at h; unfold wrap; omega

theorem wrap_inRange (x : Int) : InRange (wrap x) := by
  unfold InRange minI maxI wrap; omega

theorem tsub_inRange (t u : Int) : InRange (tsub t u) := by
  unfold InRange tsub minI maxI; simp only; split <;> (try split) <;> omega

/-- omega-friendly characterisation of the saturating `time.Time.Sub` -/
theorem tsub_spec (t u : Int) :
    (minI ≤ t - u → t - u ≤ maxI → tsub t u = t - u) ∧
    (t - u < minI → tsub t u = minI) ∧ (t - u > maxI → tsub t u = maxI) := by
  unfold tsub minI maxI; simp only
  refine ⟨?_, ?_, ?_⟩ <;> intros <;> split <;> (try split) <;> omega

end Robust.I64
