/-! Byte strings and the fixed-width integer codecs used by robustirc
(`binary.LittleEndian` in the output store, `binary.BigEndian` for LevelDB keys). -/
namespace Robust

abbrev Bytes := List UInt8

namespace Bytes

def byteAt (n i : Nat) : UInt8 := UInt8.ofNat (n / 256 ^ i % 256)

/-- `binary.LittleEndian.PutUint64` -/
def le64 (n : Nat) : Bytes :=
  [byteAt n 0, byteAt n 1, byteAt n 2, byteAt n 3, byteAt n 4, byteAt n 5, byteAt n 6, byteAt n 7]

/-- `binary.BigEndian.PutUint64` -/
def be64 (n : Nat) : Bytes :=
  [byteAt n 7, byteAt n 6, byteAt n 5, byteAt n 4, byteAt n 3, byteAt n 2, byteAt n 1, byteAt n 0]

/-- `binary.LittleEndian.Uint64(buf)`: `none` models the slice-bounds panic on a short buffer. -/
def rdLe64 : Bytes → Option (Nat × Bytes)
  | b0 :: b1 :: b2 :: b3 :: b4 :: b5 :: b6 :: b7 :: rest =>
    some (b0.toNat + 256 * (b1.toNat + 256 * (b2.toNat + 256 * (b3.toNat + 256 * (b4.toNat
      + 256 * (b5.toNat + 256 * (b6.toNat + 256 * b7.toNat)))))), rest)
  | _ => none

def rdBe64 : Bytes → Option (Nat × Bytes)
  | b7 :: b6 :: b5 :: b4 :: b3 :: b2 :: b1 :: b0 :: rest =>
    some (b0.toNat + 256 * (b1.toNat + 256 * (b2.toNat + 256 * (b3.toNat + 256 * (b4.toNat
      + 256 * (b5.toNat + 256 * (b6.toNat + 256 * b7.toNat)))))), rest)
  | _ => none

theorem byteAt_toNat (n i : Nat) : (byteAt n i).toNat = n / 256 ^ i % 256 := by
  unfold byteAt
  rw [UInt8.toNat_ofNat']
  exact Nat.mod_eq_of_lt (Nat.mod_lt _ (by decide))

theorem rdLe64_le64 (n : Nat) (h : n < 2 ^ 64) (rest : Bytes) :
    rdLe64 (le64 n ++ rest) = some (n, rest) := by
  simp only [le64, rdLe64, List.cons_append, List.nil_append, byteAt_toNat]
  congr 2
  simp only [Nat.pow_zero, Nat.div_one] 
  omega

theorem rdBe64_be64 (n : Nat) (h : n < 2 ^ 64) (rest : Bytes) :
    rdBe64 (be64 n ++ rest) = some (n, rest) := by
  simp only [be64, rdBe64, List.cons_append, List.nil_append, byteAt_toNat]
  congr 2
  simp only [Nat.pow_zero, Nat.div_one]
  omega

theorem le64_length (n : Nat) : (le64 n).length = 8 := rfl
theorem be64_length (n : Nat) : (be64 n).length = 8 := rfl

end Bytes
end Robust
