/-! Data types of the fact tables regenerated from the Go source by `tools/extract`. -/
namespace Robust.Facts

/-- `dst.path = wrap(src.path)` -/
structure CopyFact where
  dst : String
  src : String
  wrap : String
  deriving Repr, DecidableEq

end Robust.Facts
