import Robust.Base.Facts
/-!
Abstract semantics of field-copy tables (fact family G4): a record is a finite map from
field paths to free values; a copy table builds the destination record field by field.
`conv` is an integer conversion between same-valued enum/integer types (identity on the
values that occur: message types 0..8, raft log types 0..4), `tsNew`/`asTime` are
`timestamppb.New` / `Timestamp.AsTime`, assumed inverse on representable times.
-/
namespace Robust.Records
open Robust.Facts

inductive Val where
  | atom (name : String)
  | ts (v : Val)
  | bad
  deriving Repr, DecidableEq

abbrev Rec := String → Option Val

def wrapSem (w : String) (v : Val) : Val :=
  if w = "" then v
  else if w = "conv" then v
  else if w = "tsNew" then .ts v
  else if w = "asTime" then (match v with | .ts x => x | _ => .bad)
  else .bad

def applyCopies (facts : List CopyFact) (src : Rec) : Rec := fun f =>
  match facts.find? (fun c => c.dst == f) with
  | some c => (src c.src).map (wrapSem c.wrap)
  | none => none

def cancels (e d : String) : Bool :=
  (e == "" && d == "") || (e == "conv" && d == "conv") || (e == "tsNew" && d == "asTime")

/-- decidable check: decoding what the encoder wrote restores every listed field -/
def rtOK (enc dec : List CopyFact) (fields : List String) : Bool :=
  fields.all fun f =>
    match dec.find? (fun c => c.dst == f) with
    | some d =>
      (match enc.find? (fun c => c.dst == d.src) with
       | some e => e.src == f && cancels e.wrap d.wrap
       | none => false)
    | none => false

theorem wrap_cancel (e d : String) (h : cancels e d = true) (v : Val) :
    wrapSem d (wrapSem e v) = v := by
  unfold cancels at h
  simp only [Bool.or_eq_true, Bool.and_eq_true, beq_iff_eq] at h
  rcases h with (⟨rfl, rfl⟩ | ⟨rfl, rfl⟩) | ⟨rfl, rfl⟩ <;> simp [wrapSem]

theorem rt_sound (enc dec : List CopyFact) (fields : List String) (h : rtOK enc dec fields = true)
    (m : Rec) (f : String) (hf : f ∈ fields) :
    applyCopies dec (applyCopies enc m) f = m f := by
  unfold rtOK at h
  rw [List.all_eq_true] at h
  have hf' := h f hf
  unfold applyCopies
  cases hd : dec.find? (fun c => c.dst == f) with
  | none => simp [hd] at hf'
  | some d =>
    simp only [hd] at hf' ⊢
    cases he : enc.find? (fun c => c.dst == d.src) with
    | none => simp [he] at hf'
    | some e =>
      simp only [he, Bool.and_eq_true, beq_iff_eq] at hf' ⊢
      obtain ⟨h1, h2⟩ := hf'
      subst h1
      cases m e.src with
      | none => rfl
      | some v => simp [wrap_cancel _ _ h2]

/-- two tables describe the same copy (as sets) -/
def sameTable (a b : List CopyFact) : Bool := a.all (b.contains ·) && b.all (a.contains ·)

/-- no destination field is written from two different sources -/
def dstFunctional (a : List CopyFact) : Bool :=
  a.all fun c => a.all fun c' => !(c.dst == c'.dst) || c == c'

end Robust.Records
