/-! Finite maps with `Nat` keys as key-sorted association lists: the model of a LevelDB
keyspace with 8-byte big-endian keys (iteration order = numeric order), also used (order
ignored) for in-memory Go maps. -/
namespace Robust

abbrev SMap (α : Type) := List (Nat × α)

namespace SMap
variable {α : Type}

def get (m : SMap α) (k : Nat) : Option α :=
  match m with
  | [] => none
  | (k', v) :: t => if k' = k then some v else get t k

def put (m : SMap α) (k : Nat) (v : α) : SMap α :=
  match m with
  | [] => [(k, v)]
  | (k', v') :: t =>
    if k < k' then (k, v) :: (k', v') :: t
    else if k = k' then (k, v) :: t
    else (k', v') :: put t k v

def erase (m : SMap α) (k : Nat) : SMap α := m.filter (fun e => e.1 ≠ k)

/-- first entry with key > x (for a sorted map: the least such key) — LevelDB range seek -/
def firstGt (m : SMap α) (x : Nat) : Option (Nat × α) := m.find? (fun e => x < e.1)

def keys (m : SMap α) : List Nat := m.map (·.1)

def Sorted (m : SMap α) : Prop := (keys m).Pairwise (· < ·)

theorem keys_put_mem (m : SMap α) (k : Nat) (v : α) (x : Nat) :
    x ∈ keys (put m k v) ↔ x = k ∨ x ∈ keys m := by
  induction m with
  | nil => simp [put, keys]
  | cons e t ih =>
    obtain ⟨k', v'⟩ := e
    simp only [put]
    split
    · simp [keys]
    · split
      · rename_i h1 h2; subst h2; simp [keys]
      · simp only [keys, List.map_cons, List.mem_cons] at ih ⊢
        rw [ih]; constructor <;> (intro h; rcases h with h | h | h <;> simp [h])

theorem sorted_put (m : SMap α) (k : Nat) (v : α) (h : Sorted m) : Sorted (put m k v) := by
  induction m with
  | nil => simp [put, Sorted, keys]
  | cons e t ih =>
    obtain ⟨k', v'⟩ := e
    simp only [Sorted, keys, List.map_cons, List.pairwise_cons] at h
    simp only [put]
    split
    · rename_i hlt
      simp only [Sorted, keys, List.map_cons, List.pairwise_cons, List.mem_cons, forall_eq_or_imp]
      refine ⟨⟨hlt, fun a ha => Nat.lt_trans hlt (h.1 a ha)⟩, h.1, h.2⟩
    · split
      · rename_i h1 h2; subst h2
        simp only [Sorted, keys, List.map_cons, List.pairwise_cons]; exact h
      · rename_i h1 h2
        have ih' := ih h.2
        simp only [Sorted, keys, List.map_cons, List.pairwise_cons]
        refine ⟨fun a ha => ?_, ih'⟩
        have := (keys_put_mem t k v a).1 (by simpa [keys] using ha)
        rcases this with rfl | hm
        · omega
        · exact h.1 a (by simpa [keys] using hm)

theorem sorted_erase (m : SMap α) (k : Nat) (h : Sorted m) : Sorted (erase m k) := by
  unfold Sorted keys erase at *
  exact List.Pairwise.sublist (List.Sublist.map _ List.filter_sublist) h

theorem keys_erase_mem (m : SMap α) (k x : Nat) : x ∈ keys (erase m k) ↔ x ∈ keys m ∧ x ≠ k := by
  simp only [keys, erase, List.mem_map, List.mem_filter]
  constructor
  · rintro ⟨e, ⟨he, hne⟩, rfl⟩; exact ⟨⟨e, he, rfl⟩, by simpa using hne⟩
  · rintro ⟨⟨e, he, rfl⟩, hne⟩; exact ⟨e, ⟨he, by simpa using hne⟩, rfl⟩

theorem get_some_mem (m : SMap α) (k : Nat) (v : α) (h : get m k = some v) : k ∈ keys m := by
  induction m with
  | nil => simp [get] at h
  | cons e t ih =>
    obtain ⟨k', v'⟩ := e
    simp only [get] at h
    split at h
    · rename_i hk; subst hk; simp [keys]
    · simp only [keys, List.map_cons, List.mem_cons]; right; exact ih h

theorem mem_keys_get (m : SMap α) (k : Nat) (h : k ∈ keys m) : ∃ v, get m k = some v := by
  induction m with
  | nil => simp [keys] at h
  | cons e t ih =>
    obtain ⟨k', v'⟩ := e
    simp only [get]
    split
    · exact ⟨v', rfl⟩
    · rename_i hne
      simp only [keys, List.map_cons, List.mem_cons] at h
      rcases h with rfl | h
      · exact absurd rfl hne
      · exact ih h

theorem get_none_iff (m : SMap α) (k : Nat) : get m k = none ↔ k ∉ keys m := by
  constructor
  · intro h hm; obtain ⟨v, hv⟩ := mem_keys_get m k hm; rw [h] at hv; cases hv
  · intro h
    cases hg : get m k with
    | none => rfl
    | some v => exact absurd (get_some_mem m k v hg) h

theorem get_put_same (m : SMap α) (k : Nat) (v : α) : get (put m k v) k = some v := by
  induction m with
  | nil => simp [put, get]
  | cons e t ih =>
    obtain ⟨k', v'⟩ := e
    simp only [put]
    split
    · simp [get]
    · split
      · simp [get]
      · rename_i h1 h2
        simp only [get]
        rw [if_neg (by omega)]; exact ih

theorem get_put_other (m : SMap α) (k : Nat) (v : α) (x : Nat) (hx : x ≠ k) :
    get (put m k v) x = get m x := by
  induction m with
  | nil => simp [put, get]; intro h; exact absurd h.symm hx
  | cons e t ih =>
    obtain ⟨k', v'⟩ := e
    simp only [put]
    split
    · simp only [get]; rw [if_neg (by omega)]
    · split
      · rename_i h1 h2; subst h2
        simp only [get]; rw [if_neg (by omega), if_neg (by omega)]
      · simp only [get]; split
        · rfl
        · exact ih

theorem get_erase_same (m : SMap α) (k : Nat) : get (erase m k) k = none := by
  rw [get_none_iff, keys_erase_mem]; simp

theorem get_erase_other (m : SMap α) (k x : Nat) (hx : x ≠ k) : get (erase m k) x = get m x := by
  induction m with
  | nil => rfl
  | cons e t ih =>
    obtain ⟨k', v'⟩ := e
    simp only [erase, List.filter_cons]
    by_cases hk : k' = k
    · subst hk
      simp only [ne_eq, not_true_eq_false, decide_false, Bool.false_eq_true, ↓reduceIte, get]
      rw [if_neg (by omega)]; exact ih
    · simp only [ne_eq, hk, not_false_eq_true, decide_true, ↓reduceIte, get]
      split
      · rfl
      · exact ih

/-- in a sorted map `firstGt` returns the least key greater than `x` -/
theorem firstGt_least (m : SMap α) (x : Nat) (h : Sorted m) (k : Nat) (v : α)
    (hf : firstGt m x = some (k, v)) :
    x < k ∧ k ∈ keys m ∧ ∀ k' ∈ keys m, x < k' → k ≤ k' := by
  induction m with
  | nil => simp [firstGt] at hf
  | cons e t ih =>
    obtain ⟨k0, v0⟩ := e
    simp only [Sorted, keys, List.map_cons, List.pairwise_cons] at h
    simp only [firstGt, List.find?_cons] at hf
    by_cases hx : x < k0
    · simp only [hx, decide_true] at hf
      cases hf
      refine ⟨hx, by simp [keys], fun k' hk' _ => ?_⟩
      simp only [keys, List.map_cons, List.mem_cons] at hk'
      rcases hk' with rfl | hk'
      · exact Nat.le_refl _
      · exact Nat.le_of_lt (h.1 k' hk')
    · simp only [hx, decide_false] at hf
      obtain ⟨a, b, c⟩ := ih h.2 hf
      refine ⟨a, by simp only [keys, List.map_cons, List.mem_cons]; right; exact b, fun k' hk' hlt => ?_⟩
      simp only [keys, List.map_cons, List.mem_cons] at hk'
      rcases hk' with rfl | hk'
      · exact absurd hlt hx
      · exact c k' hk' hlt

theorem firstGt_none (m : SMap α) (x : Nat) (hf : firstGt m x = none) : ∀ k ∈ keys m, k ≤ x := by
  intro k hk
  simp only [firstGt, List.find?_eq_none, decide_eq_true_eq] at hf
  simp only [keys, List.mem_map] at hk
  obtain ⟨e, he, rfl⟩ := hk
  exact Nat.le_of_not_lt (hf e he)

end SMap
end Robust
