import Robust.Irc.Apply
import Robust.Irc.Proofs.Clean
/-!
Decision logic of the HTTP API (internal/api): session authentication, the POST / DELETE /
config handlers up to the point where they propose an entry to raft, the session lookup and the
expiry sweep.  Proxying, JSON decoding, timers and raft itself are not modelled: a handler is a
function from the request and the node's IRC state to a status code and the entry it proposes
(if any).
-/
namespace Robust.Api
open Robust Robust.Irc

/-- `strconv.ParseUint(s, 0, 64)` for the two spellings clients use (`0x…` as returned by
CreateSession, or decimal); `none` = not a valid id -/
def parseSessionId (s : String) : Option Nat :=
  let v := if hasPrefix s "0x" then parseHex (dropChars s 2) else parseDigits s
  match v with
  | some n => if n < 18446744073709551616 then some n else none
  | none => none

inductive SessErr where
  | invalidId | noHeader | noSuchSession | notYetSeen | badAuth
  deriving Repr, DecidableEq

/-- `IRCServer.getSessionLocked` -/
def getSession (st : St) (id : Id) : Except SessErr Session :=
  match AMap.get st.sessions id with
  | some s => .ok s
  | none => if st.lastProcessed.id > id.id then .error .noSuchSession else .error .notYetSeen

/-- `api.session`: `hdr` is the X-Session-Auth header (`none` = absent) -/
def session (st : St) (hdr : Option String) (idStr : String) : Except SessErr Id :=
  match parseSessionId idStr with
  | none => .error .invalidId
  | some id =>
    let header := hdr.getD ""
    if header = "" then .error .noHeader
    else match getSession st ⟨id, 0⟩ with
      | .error e => .error e
      | .ok s => if header = s.auth then .ok ⟨id, 0⟩ else .error .badAuth

structure Response where
  status : Nat
  proposal : Option Entry      -- the entry handed to raft (ids/timestamps are assigned by the leader)
  deriving Repr

/-- `sessionOrProxy` on the leader: every authentication failure is answered 404, nothing is proposed -/
def refuse (_st : St) (_e : SessErr) : Response := ⟨404, none⟩

/-- `handleGetMessages`: status only (the stream itself is C04/C12) -/
def getStatus (st : St) (hdr : Option String) (idStr : String) : Nat :=
  match session st hdr idStr with
  | .ok _ => 200
  | .error .notYetSeen => 500
  | .error _ => 404

/-- `handlePostMessage` on the leader -/
def handlePost (st : St) (hdr : Option String) (idStr : String) (cmid : Nat) (data : String) (addr : String) : Response :=
  match session st hdr idStr with
  | .error e => refuse st e
  | .ok sid =>
    let last := match AMap.get st.sessions sid with | some s => s.lastClientMessageId | none => 0
    if last = cmid then ⟨200, none⟩       -- already seen: canned reply, nothing is proposed
    else ⟨200, some ⟨2, 0, sid, firstLine data, 0, cmid, 0, addr, none⟩⟩

/-- `handleDeleteSession` on the leader -/
def handleDelete (st : St) (hdr : Option String) (idStr : String) (quitmsg : String) : Response :=
  match session st hdr idStr with
  | .error e => refuse st e
  | .ok sid => ⟨200, some ⟨1, 0, sid, firstLine quitmsg, 0, 0, 0, "", none⟩⟩

/-- `handlePostConfig` / `applyConfig`: `rev` is the parsed X-RobustIRC-Config-Revision header,
`cfg` the result of decoding the TOML body -/
def handlePostConfig (st : St) (rev : Option Nat) (body : String) (cfg : Option Config) : Response :=
  match rev with
  | none => ⟨400, none⟩
  | some r =>
    match cfg with
    | none => ⟨400, none⟩
    | some c => if r ≠ st.config.revision then ⟨400, none⟩ else ⟨200, some ⟨6, 0, ⟨0, 0⟩, body, 0, 0, r + 1, "", some c⟩⟩

/-- `ExpireSessions` at wall-clock `now` -/
def expireSessions (st : St) (now : Int) : List Id :=
  (st.sessions.filter fun e => e.1.reply = 0 ∧ ¬ (now - e.2.lastActivity ≤ st.config.sessionExpiration)).map (·.1)

end Robust.Api
