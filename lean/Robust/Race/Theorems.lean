import Robust.Race.Model

/-!
# Data-race freedom of the lockset discipline (C20)

* `run_inv` / `run_init_inv`: a writer excludes readers in every reachable lock state.
* `no_simultaneous_conflict`: a thread holding a lock exclusively is its only holder.
* `lockset_orders`: two conflicting accesses to a field `f` by different threads in a disciplined
  trace are separated by a release of `G f` by the first thread followed by an acquisition of
  `G f` by the second one.
* `no_adjacent_race`: conflicting accesses are never adjacent.
-/
namespace Robust.Race

/-! ## Step inversion -/

theorem step_acqW {s s' : LS} {t : Tid} {l : String} (h : step s (.acqW t l) = some s') :
    s.w l = none ∧ s.r l = [] ∧ (∀ x, s'.w x = if x = l then some t else s.w x) ∧ s'.r = s.r := by
  simp only [step] at h
  split at h
  · rename_i hc
    cases h
    exact ⟨hc.1, hc.2, fun _ => rfl, rfl⟩
  · cases h

theorem step_acqR {s s' : LS} {t : Tid} {l : String} (h : step s (.acqR t l) = some s') :
    s.w l = none ∧ s'.w = s.w ∧ (∀ x, s'.r x = if x = l then t :: s.r x else s.r x) := by
  simp only [step] at h
  split at h
  · rename_i hc
    cases h
    exact ⟨hc, rfl, fun _ => rfl⟩
  · cases h

theorem step_relW {s s' : LS} {t : Tid} {l : String} (h : step s (.relW t l) = some s') :
    s.w l = some t ∧ (∀ x, s'.w x = if x = l then none else s.w x) ∧ s'.r = s.r := by
  simp only [step] at h
  split at h
  · rename_i hc
    cases h
    exact ⟨hc, fun _ => rfl, rfl⟩
  · cases h

theorem step_relR {s s' : LS} {t : Tid} {l : String} (h : step s (.relR t l) = some s') :
    t ∈ s.r l ∧ s'.w = s.w ∧ (∀ x, s'.r x = if x = l then (s.r x).erase t else s.r x) := by
  simp only [step] at h
  split at h
  · rename_i hc
    cases h
    exact ⟨hc, rfl, fun _ => rfl⟩
  · cases h

theorem step_rd {s s' : LS} {t : Tid} {f : String} (h : step s (.rd t f) = some s') : s' = s := by
  simp only [step] at h; cases h; rfl

theorem step_wr {s s' : LS} {t : Tid} {f : String} (h : step s (.wr t f) = some s') : s' = s := by
  simp only [step] at h; cases h; rfl

/-! ## `run` and `Disciplined` over `::` and `++` -/

theorem run_cons {s s' : LS} {e : Ev} {es : List Ev} (h : run s (e :: es) = some s') :
    ∃ s1, step s e = some s1 ∧ run s1 es = some s' := by
  simp only [run] at h
  cases hs : step s e with
  | none => rw [hs] at h; cases h
  | some s1 => rw [hs] at h; exact ⟨s1, rfl, h⟩

theorem run_append (s : LS) (a b : List Ev) :
    run s (a ++ b) = (run s a).bind (fun s' => run s' b) := by
  induction a generalizing s with
  | nil => rfl
  | cons e es ih =>
    simp only [List.cons_append, run]
    cases step s e with
    | none => rfl
    | some s1 => exact ih s1

theorem run_append_some {s s' : LS} {a b : List Ev} (h : run s (a ++ b) = some s') :
    ∃ sm, run s a = some sm ∧ run sm b = some s' := by
  rw [run_append] at h
  cases hs : run s a with
  | none => rw [hs] at h; cases h
  | some sm => rw [hs] at h; exact ⟨sm, rfl, h⟩

theorem run_ne_none {s : LS} {tr : List Ev} (h : run s tr ≠ none) : ∃ s', run s tr = some s' := by
  cases hs : run s tr with
  | none => exact absurd hs h
  | some s' => exact ⟨s', rfl⟩

theorem disc_append {G : String → String} {s s' : LS} {a b : List Ev}
    (hr : run s a = some s') (hd : Disciplined G s (a ++ b)) : Disciplined G s' b := by
  induction a generalizing s with
  | nil => cases hr; exact hd
  | cons e es ih =>
    obtain ⟨s1, hs1, hr1⟩ := run_cons hr
    have h2 := hd.2
    rw [hs1] at h2
    exact ih hr1 h2

/-! ## 1. The lock invariant -/

/-- a writer excludes readers -/
def Inv (s : LS) : Prop := ∀ l t, s.w l = some t → s.r l = []

theorem inv_init : Inv LS.init := by
  intro l t h
  rfl

theorem step_inv {s s' : LS} {e : Ev} (hinv : Inv s) (h : step s e = some s') : Inv s' := by
  intro x u hw
  cases e with
  | acqW t l =>
    obtain ⟨_, hr, hw', hr'⟩ := step_acqW h
    rw [hr']
    rw [hw'] at hw
    by_cases hx : x = l
    · rw [hx]; exact hr
    · rw [if_neg hx] at hw; exact hinv x u hw
  | acqR t l =>
    obtain ⟨hn, hw', hr'⟩ := step_acqR h
    rw [hw'] at hw
    rw [hr']
    by_cases hx : x = l
    · rw [hx] at hw; rw [hn] at hw; cases hw
    · rw [if_neg hx]; exact hinv x u hw
  | relW t l =>
    obtain ⟨_, hw', hr'⟩ := step_relW h
    rw [hr']
    rw [hw'] at hw
    by_cases hx : x = l
    · rw [if_pos hx] at hw; cases hw
    · rw [if_neg hx] at hw; exact hinv x u hw
  | relR t l =>
    obtain ⟨hm, hw', hr'⟩ := step_relR h
    rw [hw'] at hw
    rw [hr']
    have := hinv x u hw
    by_cases hx : x = l
    · rw [if_pos hx, this]; rfl
    · rw [if_neg hx]; exact this
  | rd t f => have := step_rd h; subst this; exact hinv x u hw
  | wr t f => have := step_wr h; subst this; exact hinv x u hw

/-- **Lock invariant**: from any state in which writers exclude readers, every reachable state
has the same property. -/
theorem run_inv {s s' : LS} {tr : List Ev} (hinv : ∀ l t, s.w l = some t → s.r l = [])
    (h : run s tr = some s') : ∀ l t, s'.w l = some t → s'.r l = [] := by
  induction tr generalizing s with
  | nil => cases h; exact hinv
  | cons e es ih =>
    obtain ⟨s1, hs1, hr1⟩ := run_cons h
    exact ih (step_inv hinv hs1) hr1

theorem run_init_inv {s : LS} {tr : List Ev} (h : run LS.init tr = some s) :
    ∀ l t, s.w l = some t → s.r l = [] :=
  run_inv inv_init h

/-! ## 2. Exclusive holders are sole holders -/

theorem inv_excl {s : LS} (hinv : Inv s) {t1 t2 : Tid} {l : String}
    (h1 : holdsW s t1 l) (h2 : holds s t2 l) : t1 = t2 := by
  unfold holdsW at h1
  cases h2 with
  | inl h => rw [h1] at h; cases h; rfl
  | inr h => rw [hinv l t1 h1] at h; cases h

theorem no_simultaneous_conflict {tr : List Ev} {s : LS} (h : run LS.init tr = some s) :
    ¬ ∃ t1 t2 l, t1 ≠ t2 ∧ holdsW s t1 l ∧ holds s t2 l := by
  intro ⟨t1, t2, l, hne, h1, h2⟩
  exact hne (inv_excl (run_init_inv h) h1 h2)

/-! ## "Something changed it" lemmas -/

/-- If `t` does not hold `l` at the start of a run and holds it at the end, then `t` acquires `l`
somewhere in the run. -/
theorem acq_split {s s' : LS} {tr : List Ev} {t : Tid} {l : String}
    (hr : run s tr = some s') (h0 : ¬ holds s t l) (h1 : holds s' t l) :
    ∃ tr1 b tr2, tr = tr1 ++ b :: tr2 ∧ isAcq b t l := by
  induction tr generalizing s with
  | nil => cases hr; exact absurd h1 h0
  | cons e es ih =>
    obtain ⟨s1, hs1, hr1⟩ := run_cons hr
    by_cases hh : holds s1 t l
    · refine ⟨[], e, es, rfl, ?_⟩
      cases e with
      | acqW t' l' =>
        obtain ⟨_, _, hw', hr'⟩ := step_acqW hs1
        unfold holds at hh h0
        rw [hw', hr'] at hh
        by_cases hx : l = l'
        · rw [if_pos hx] at hh
          cases hh with
          | inl h => cases h; left; rw [hx]
          | inr h => exact absurd (Or.inr h) h0
        · rw [if_neg hx] at hh; exact absurd hh h0
      | acqR t' l' =>
        obtain ⟨_, hw', hr'⟩ := step_acqR hs1
        unfold holds at hh h0
        rw [hw', hr'] at hh
        by_cases hx : l = l'
        · rw [if_pos hx] at hh
          cases hh with
          | inl h => exact absurd (Or.inl h) h0
          | inr h =>
            cases List.mem_cons.mp h with
            | inl h => right; rw [hx, h]
            | inr h => exact absurd (Or.inr h) h0
        · rw [if_neg hx] at hh; exact absurd hh h0
      | relW t' l' =>
        obtain ⟨_, hw', hr'⟩ := step_relW hs1
        unfold holds at hh h0
        rw [hw', hr'] at hh
        by_cases hx : l = l'
        · rw [if_pos hx] at hh
          cases hh with
          | inl h => cases h
          | inr h => exact absurd (Or.inr h) h0
        · rw [if_neg hx] at hh; exact absurd hh h0
      | relR t' l' =>
        obtain ⟨_, hw', hr'⟩ := step_relR hs1
        unfold holds at hh h0
        rw [hw', hr'] at hh
        by_cases hx : l = l'
        · rw [if_pos hx] at hh
          cases hh with
          | inl h => exact absurd (Or.inl h) h0
          | inr h => exact absurd (Or.inr (List.mem_of_mem_erase h)) h0
        · rw [if_neg hx] at hh; exact absurd hh h0
      | rd t' f => rw [step_rd hs1] at hh; exact absurd hh h0
      | wr t' f => rw [step_wr hs1] at hh; exact absurd hh h0
    · obtain ⟨tr1, b, tr2, heq, hb⟩ := ih hr1 hh
      exact ⟨e :: tr1, b, tr2, by rw [heq]; rfl, hb⟩

/-- If `t` does not hold `l` exclusively at the start of a run and does at the end, then `t`
write-acquires `l` somewhere in the run. -/
theorem acqW_split {s s' : LS} {tr : List Ev} {t : Tid} {l : String}
    (hr : run s tr = some s') (h0 : s.w l ≠ some t) (h1 : s'.w l = some t) :
    ∃ tr1 tr2, tr = tr1 ++ Ev.acqW t l :: tr2 := by
  induction tr generalizing s with
  | nil => cases hr; exact absurd h1 h0
  | cons e es ih =>
    obtain ⟨s1, hs1, hr1⟩ := run_cons hr
    by_cases hh : s1.w l = some t
    · refine ⟨[], es, ?_⟩
      cases e with
      | acqW t' l' =>
        obtain ⟨_, _, hw', _⟩ := step_acqW hs1
        rw [hw'] at hh
        by_cases hx : l = l'
        · rw [if_pos hx] at hh; cases hh; rw [hx]; rfl
        · rw [if_neg hx] at hh; exact absurd hh h0
      | acqR t' l' =>
        obtain ⟨_, hw', _⟩ := step_acqR hs1
        rw [hw'] at hh; exact absurd hh h0
      | relW t' l' =>
        obtain ⟨_, hw', _⟩ := step_relW hs1
        rw [hw'] at hh
        by_cases hx : l = l'
        · rw [if_pos hx] at hh; cases hh
        · rw [if_neg hx] at hh; exact absurd hh h0
      | relR t' l' =>
        obtain ⟨_, hw', _⟩ := step_relR hs1
        rw [hw'] at hh; exact absurd hh h0
      | rd t' f => rw [step_rd hs1] at hh; exact absurd hh h0
      | wr t' f => rw [step_wr hs1] at hh; exact absurd hh h0
    · obtain ⟨tr1, tr2, heq⟩ := ih hr1 hh
      exact ⟨e :: tr1, tr2, by rw [heq]; rfl⟩

/-- If `t` holds `l` exclusively at the start of a run and no longer at the end, then `t`
write-releases `l` somewhere in the run. -/
theorem relW_between {s s' : LS} {tr : List Ev} {t : Tid} {l : String}
    (hr : run s tr = some s') (h0 : s.w l = some t) (h1 : s'.w l ≠ some t) :
    ∃ i : Nat, tr[i]? = some (Ev.relW t l) := by
  induction tr generalizing s with
  | nil => cases hr; exact absurd h0 h1
  | cons e es ih =>
    obtain ⟨s1, hs1, hr1⟩ := run_cons hr
    by_cases hh : s1.w l = some t
    · obtain ⟨i, hi⟩ := ih hr1 hh
      exact ⟨i + 1, by simpa using hi⟩
    · refine ⟨0, ?_⟩
      cases e with
      | acqW t' l' =>
        obtain ⟨hn, _, hw', _⟩ := step_acqW hs1
        rw [hw'] at hh
        by_cases hx : l = l'
        · rw [hx, hn] at h0; cases h0
        · rw [if_neg hx] at hh; exact absurd h0 hh
      | acqR t' l' =>
        obtain ⟨_, hw', _⟩ := step_acqR hs1
        rw [hw'] at hh; exact absurd h0 hh
      | relW t' l' =>
        obtain ⟨hwt, hw', _⟩ := step_relW hs1
        rw [hw'] at hh
        by_cases hx : l = l'
        · rw [hx, hwt] at h0; cases h0; rw [hx]; rfl
        · rw [if_neg hx] at hh; exact absurd h0 hh
      | relR t' l' =>
        obtain ⟨_, hw', _⟩ := step_relR hs1
        rw [hw'] at hh; exact absurd h0 hh
      | rd t' f => rw [step_rd hs1] at hh; exact absurd h0 hh
      | wr t' f => rw [step_wr hs1] at hh; exact absurd h0 hh

/-- If `t` is a reader of `l` at the start of a run and no longer at the end, then `t`
read-releases `l` somewhere in the run. -/
theorem relR_between {s s' : LS} {tr : List Ev} {t : Tid} {l : String}
    (hr : run s tr = some s') (h0 : t ∈ s.r l) (h1 : t ∉ s'.r l) :
    ∃ i : Nat, tr[i]? = some (Ev.relR t l) := by
  induction tr generalizing s with
  | nil => cases hr; exact absurd h0 h1
  | cons e es ih =>
    obtain ⟨s1, hs1, hr1⟩ := run_cons hr
    by_cases hh : t ∈ s1.r l
    · obtain ⟨i, hi⟩ := ih hr1 hh
      exact ⟨i + 1, by simpa using hi⟩
    · refine ⟨0, ?_⟩
      cases e with
      | acqW t' l' =>
        obtain ⟨_, _, _, hr'⟩ := step_acqW hs1
        rw [hr'] at hh; exact absurd h0 hh
      | acqR t' l' =>
        obtain ⟨_, _, hr'⟩ := step_acqR hs1
        rw [hr'] at hh
        by_cases hx : l = l'
        · rw [if_pos hx] at hh; exact absurd (List.mem_cons_of_mem _ h0) hh
        · rw [if_neg hx] at hh; exact absurd h0 hh
      | relW t' l' =>
        obtain ⟨_, _, hr'⟩ := step_relW hs1
        rw [hr'] at hh; exact absurd h0 hh
      | relR t' l' =>
        obtain ⟨_, _, hr'⟩ := step_relR hs1
        rw [hr'] at hh
        by_cases hx : l = l'
        · rw [if_pos hx] at hh
          by_cases ht : t = t'
          · rw [hx, ht]; rfl
          · exact absurd ((List.mem_erase_of_ne ht).mpr h0) hh
        · rw [if_neg hx] at hh; exact absurd h0 hh
      | rd t' f => rw [step_rd hs1] at hh; exact absurd h0 hh
      | wr t' f => rw [step_wr hs1] at hh; exact absurd h0 hh

/-! ## 3. The main theorem -/

theorem step_access {s : LS} {e : Ev} {t : Tid} {f : String} (h : isAccess e t f) :
    step s e = some s := by
  cases h with
  | inl h => rw [h]; rfl
  | inr h => rw [h]; rfl

/-- the discipline obligation of an access at the head of a trace -/
theorem disc_head {G : String → String} {s : LS} {e : Ev} {es : List Ev} {t : Tid} {f : String}
    (hd : Disciplined G s (e :: es)) (h : isAccess e t f) :
    holds s t (G f) ∧ (e = .wr t f → holdsW s t (G f)) := by
  have h1 := hd.1
  cases h with
  | inl h =>
    subst h
    exact ⟨h1, fun h => by cases h⟩
  | inr h =>
    subst h
    exact ⟨Or.inl h1, fun _ => h1⟩

/-- The core of `lockset_orders`, phrased on states. -/
theorem orders_core {s0 s2 : LS} {mid : List Ev} {t1 t2 : Tid} {l : String}
    (hinv : Inv s0) (hr : run s0 mid = some s2) (hne : t1 ≠ t2)
    (hh1 : holds s0 t1 l) (hh2 : holds s2 t2 l)
    (hw : holdsW s0 t1 l ∨ holdsW s2 t2 l) :
    ∃ i j : Nat, i < j ∧ (∃ a, mid[i]? = some a ∧ isRel a t1 l) ∧
      (∃ b, mid[j]? = some b ∧ isAcq b t2 l) := by
  cases hh1 with
  | inl hw1 =>
    -- `t1` holds `l` exclusively at the first access: `t2` does not hold it there
    have hn2 : ¬ holds s0 t2 l := fun h => hne (inv_excl hinv hw1 h)
    obtain ⟨tr1, b, tr2, heq, hb⟩ := acq_split hr hn2 hh2
    subst heq
    obtain ⟨sj, hrj, hrest⟩ := run_append_some hr
    obtain ⟨sj', hstep, _⟩ := run_cons hrest
    have hnone : sj.w l = none := by
      cases hb with
      | inl hb => subst hb; exact (step_acqW hstep).1
      | inr hb => subst hb; exact (step_acqR hstep).1
    obtain ⟨i, hi⟩ := relW_between hrj hw1 (by rw [hnone]; intro h; cases h)
    have hlt : i < tr1.length := by
      apply Classical.byContradiction
      intro hge
      rw [List.getElem?_eq_none (Nat.le_of_not_lt hge)] at hi
      cases hi
    refine ⟨i, tr1.length, hlt, ⟨_, ?_, Or.inl rfl⟩, ⟨b, ?_, hb⟩⟩
    · rw [List.getElem?_append_left hlt]; exact hi
    · simp
  | inr hr1 =>
    -- `t1` is a reader at the first access: nobody holds `l` exclusively there, so the second
    -- access is the write and `t2` write-acquires `l` in between
    have hw0 : s0.w l = none := by
      cases hs : s0.w l with
      | none => rfl
      | some u => rw [hinv l u hs] at hr1; cases hr1
    have hw2 : s2.w l = some t2 := by
      cases hw with
      | inl h => unfold holdsW at h; rw [hw0] at h; cases h
      | inr h => exact h
    obtain ⟨tr1, tr2, heq⟩ := acqW_split hr (by rw [hw0]; intro h; cases h) hw2
    subst heq
    obtain ⟨sj, hrj, hrest⟩ := run_append_some hr
    obtain ⟨sj', hstep, _⟩ := run_cons hrest
    have hempty : sj.r l = [] := (step_acqW hstep).2.1
    obtain ⟨i, hi⟩ := relR_between hrj hr1 (by rw [hempty]; intro h; cases h)
    have hlt : i < tr1.length := by
      apply Classical.byContradiction
      intro hge
      rw [List.getElem?_eq_none (Nat.le_of_not_lt hge)] at hi
      cases hi
    refine ⟨i, tr1.length, hlt, ⟨_, ?_, Or.inr rfl⟩, ⟨_, ?_, Or.inl rfl⟩⟩
    · rw [List.getElem?_append_left hlt]; exact hi
    · simp

/-- **Data-race freedom of the lockset discipline.**  Two conflicting accesses to `f` by different
threads in a disciplined, executable trace are separated by a release of the guard `G f` by the
first thread followed by an acquisition of `G f` by the second. -/
theorem lockset_orders (G : String → String) (pre mid post : List Ev) (e1 e2 : Ev)
    (t1 t2 : Tid) (f : String)
    (hrun : run LS.init (pre ++ e1 :: mid ++ e2 :: post) ≠ none)
    (hd : Disciplined G LS.init (pre ++ e1 :: mid ++ e2 :: post))
    (h1 : isAccess e1 t1 f) (h2 : isAccess e2 t2 f) (hne : t1 ≠ t2)
    (hw : e1 = .wr t1 f ∨ e2 = .wr t2 f) :
    ∃ i j : Nat, i < j ∧ (∃ a, mid[i]? = some a ∧ isRel a t1 (G f)) ∧ (∃ b, mid[j]? = some b ∧ isAcq b t2 (G f)) := by
  have hshape : pre ++ e1 :: mid ++ e2 :: post = pre ++ (e1 :: (mid ++ e2 :: post)) := by
    simp
  rw [hshape] at hrun hd
  obtain ⟨sf, hsf⟩ := run_ne_none hrun
  obtain ⟨s0, hr0, hrest⟩ := run_append_some hsf
  obtain ⟨s0', hstep1, hrest⟩ := run_cons hrest
  rw [step_access h1] at hstep1
  cases hstep1
  obtain ⟨s2, hr2, _⟩ := run_append_some hrest
  -- discipline at the two accesses
  have hd1 : Disciplined G s0 (e1 :: (mid ++ e2 :: post)) := disc_append hr0 hd
  have hd1' : Disciplined G s0 (mid ++ e2 :: post) := by
    have := hd1.2
    rw [step_access h1] at this
    exact this
  have hd2 : Disciplined G s2 (e2 :: post) := disc_append hr2 hd1'
  obtain ⟨hh1, hw1⟩ := disc_head hd1 h1
  obtain ⟨hh2, hw2⟩ := disc_head hd2 h2
  exact orders_core (run_inv inv_init hr0) hr2 hne hh1 hh2 (hw.imp hw1 hw2)

/-! ## 4. Conflicting accesses are never adjacent -/

theorem no_adjacent_race (G : String → String) (pre post : List Ev) (e1 e2 : Ev)
    (t1 t2 : Tid) (f : String)
    (hrun : run LS.init (pre ++ e1 :: [] ++ e2 :: post) ≠ none)
    (hd : Disciplined G LS.init (pre ++ e1 :: [] ++ e2 :: post))
    (h1 : isAccess e1 t1 f) (h2 : isAccess e2 t2 f) (hne : t1 ≠ t2)
    (hw : e1 = .wr t1 f ∨ e2 = .wr t2 f) : False := by
  obtain ⟨i, _, _, ⟨a, ha, _⟩, _⟩ := lockset_orders G pre [] post e1 e2 t1 t2 f hrun hd h1 h2 hne hw
  simp at ha

/-! ## 5. Non-vacuity -/

/-- a well-synchronised trace: thread 1 writes `x` under `m`, then thread 2 reads `x` under `m` -/
def goodTrace : List Ev :=
  [.acqW 1 "m", .wr 1 "x", .relW 1 "m", .acqR 2 "m", .rd 2 "x", .relR 2 "m"]

/-- thread 2 skips the lock -/
def badTrace : List Ev :=
  [.acqW 1 "m", .wr 1 "x", .relW 1 "m", .rd 2 "x"]

example : (run LS.init goodTrace).isSome = true := by
  simp [goodTrace, run, step, LS.init]

theorem goodTrace_runs : run LS.init goodTrace ≠ none := by
  simp [goodTrace, run, step, LS.init]

theorem goodTrace_disciplined : Disciplined (fun _ => "m") LS.init goodTrace := by
  simp [goodTrace, Disciplined, step, holdsW, holds, LS.init]

/-- the hypotheses of `lockset_orders` are satisfiable and its conclusion is witnessed -/
example :
    ∃ i j : Nat, i < j ∧
      (∃ a, [Ev.relW 1 "m", Ev.acqR 2 "m"][i]? = some a ∧ isRel a 1 "m") ∧
      (∃ b, [Ev.relW 1 "m", Ev.acqR 2 "m"][j]? = some b ∧ isAcq b 2 "m") :=
  lockset_orders (fun _ => "m") [.acqW 1 "m"] [.relW 1 "m", .acqR 2 "m"] [.relR 2 "m"]
    (.wr 1 "x") (.rd 2 "x") 1 2 "x" goodTrace_runs goodTrace_disciplined
    (Or.inr rfl) (Or.inl rfl) (by decide) (Or.inl rfl)

/-- … and the witnesses are the expected ones -/
example :
    [Ev.relW 1 "m", Ev.acqR 2 "m"][0]? = some (Ev.relW 1 "m") ∧ isRel (Ev.relW 1 "m") 1 "m" ∧
    [Ev.relW 1 "m", Ev.acqR 2 "m"][1]? = some (Ev.acqR 2 "m") ∧ isAcq (Ev.acqR 2 "m") 2 "m" :=
  ⟨rfl, Or.inl rfl, rfl, Or.inr rfl⟩

/-- the trace in which thread 2 skips the lock still runs … -/
theorem badTrace_runs : run LS.init badTrace ≠ none := by
  simp [badTrace, run, step, LS.init]

/-- … but is not disciplined -/
theorem badTrace_not_disciplined : ¬ Disciplined (fun _ => "m") LS.init badTrace := by
  simp [badTrace, Disciplined, step, holdsW, holds, LS.init]

/-- and no guard assignment at all makes it disciplined -/
theorem badTrace_not_disciplined_any (G : String → String) : ¬ Disciplined G LS.init badTrace := by
  intro h
  by_cases hg : G "x" = "m" <;>
    simp [badTrace, Disciplined, step, holdsW, holds, LS.init, hg] at h

end Robust.Race
