/-!
# A trace model of readers/writer locks and guarded accesses (C20)

Threads acquire and release RW locks and read/write fields.  `step` is the lock semantics
(`sync.RWMutex`: a writer excludes everybody, readers exclude writers); accesses do not change the
lock state.  `Disciplined G` says that every access to a field `f` happens while the accessing
thread holds the lock `G f` (exclusively for a write, in any mode for a read).
-/
namespace Robust.Race

abbrev Tid := Nat

inductive Ev where
  | acqW (t : Tid) (l : String)
  | acqR (t : Tid) (l : String)
  | relW (t : Tid) (l : String)
  | relR (t : Tid) (l : String)
  | rd (t : Tid) (f : String)
  | wr (t : Tid) (f : String)
  deriving DecidableEq, Repr

structure LS where
  w : String → Option Tid
  r : String → List Tid

def LS.init : LS := ⟨fun _ => none, fun _ => []⟩

def step (s : LS) : Ev → Option LS
  | .acqW t l => if s.w l = none ∧ s.r l = [] then some { s with w := fun x => if x = l then some t else s.w x } else none
  | .acqR t l => if s.w l = none then some { s with r := fun x => if x = l then t :: s.r x else s.r x } else none
  | .relW t l => if s.w l = some t then some { s with w := fun x => if x = l then none else s.w x } else none
  | .relR t l => if t ∈ s.r l then some { s with r := fun x => if x = l then (s.r x).erase t else s.r x } else none
  | .rd _ _ => some s
  | .wr _ _ => some s

def run (s : LS) : List Ev → Option LS
  | [] => some s
  | e :: es => (step s e).bind (run · es)

def holdsW (s : LS) (t : Tid) (l : String) : Prop := s.w l = some t
def holds (s : LS) (t : Tid) (l : String) : Prop := s.w l = some t ∨ t ∈ s.r l

/-- every access in the trace is made under its guard -/
def Disciplined (G : String → String) : LS → List Ev → Prop
  | _, [] => True
  | s, e :: es =>
    (match e with
      | .wr t f => holdsW s t (G f)
      | .rd t f => holds s t (G f)
      | _ => True) ∧
    (match step s e with
      | some s' => Disciplined G s' es
      | none => True)

def isAccess (e : Ev) (t : Tid) (f : String) : Prop := e = .rd t f ∨ e = .wr t f
def isRel (e : Ev) (t : Tid) (l : String) : Prop := e = .relW t l ∨ e = .relR t l
def isAcq (e : Ev) (t : Tid) (l : String) : Prop := e = .acqW t l ∨ e = .acqR t l

end Robust.Race
