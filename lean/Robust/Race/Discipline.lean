import Robust.Gen.Locks
/-!
The lock discipline of robustirc (C20): which mutex guards which field, which fields are immutable
after construction or confined to one goroutine, and the justified exceptions.  Compared with the
regenerated access table in `Props/C20.lean`.
-/
namespace Robust.Race.Discipline
open Robust.Gen.Locks

/-- the guard of every shared mutable field -/
def guardOf : String → String → Option String
  | "IRCServer", f =>
    if f ∈ ["sessions", "nicks", "channels", "svsholds", "serverSessions"] then some "IRCServer.sessionsMu"
    else if f = "Config" then some "IRCServer.ConfigMu"
    else if f = "lastProcessed" then some "IRCServer.lastProcessedMu"
    else none
  | "Session", _ => some "IRCServer.sessionsMu"
  | "channel", _ => some "IRCServer.sessionsMu"
  | "OutputStream", f =>
    if f = "messagesCache" then some "OutputStream.cacheMu"
    else if f ∈ ["lastseen", "db", "batch", "dirname"] then some "OutputStream.messagesMu"
    else none
  | "LevelDBStore", f => if f = "db" then some "LevelDBStore.mu" else none
  | "HTTP", f =>
    if f ∈ ["ircServerUnlocked", "ircStoreUnlocked", "outputUnlocked"] then some "HTTP.mu"
    else if f = "getMessagesRequests" then some "HTTP.getMessagesRequestsMu"
    else if f ∈ ["throttlingExponent", "lastWrongPassword"] then some "HTTP.throttleMu"
    else none
  | "FSM", f => if f = "sessionExpirationDur" then some "FSM.sessionExpirationMu" else none
  | _, _ => none

/-- set once before the object is shared, only read afterwards -/
def immutableFields : List (String × String) := [
  ("IRCServer", "ServerPrefix"), ("IRCServer", "ServerCreation"),
  ("HTTP", "network"), ("HTTP", "networkPassword"), ("HTTP", "peerAddr"), ("HTTP", "raftDir"), ("HTTP", "raftNode"),
  ("HTTP", "raftProtocolVersion"), ("HTTP", "transport"), ("HTTP", "useProtobuf"),
  ("LevelDBStore", "dir"), ("LevelDBStore", "useProtobuf"),
  ("OutputStream", "newMessage"), ("OutputStream", "tmpdir")]

/-- only touched by raft's FSM goroutine (Apply, Snapshot, Restore run there one after another),
during start-up, or under `restoreMu` by the log dumper -/
def confinedFields : List (String × String) := [
  ("FSM", "ircstore"), ("FSM", "lastSnapshotState"), ("FSM", "store"), ("FSM", "ReplaceState"), ("FSM", "skipDeletionForCanary")]

def mutexFields : List (String × String) := [
  ("IRCServer", "sessionsMu"), ("IRCServer", "ConfigMu"), ("IRCServer", "lastProcessedMu"),
  ("OutputStream", "messagesMu"), ("OutputStream", "cacheMu"), ("LevelDBStore", "mu"),
  ("HTTP", "mu"), ("HTTP", "getMessagesRequestsMu"), ("HTTP", "throttleMu"),
  ("FSM", "restoreMu"), ("FSM", "sessionExpirationMu")]

/-- accesses outside the discipline, each with the reason why it is not a race -/
def exceptions : List (String × String × String × Bool) := [
  -- writes go to the fresh copy `cp`, not to the shared session
  ("internal/ircserver:IRCServer.GetSessions", "Session", "Channels", true),
  ("internal/ircserver:IRCServer.GetSessions", "Session", "invitedTo", true),
  -- `auth` is written once, before the session is published in the map
  ("internal/ircserver:IRCServer.GetAuth", "Session", "auth", false),
  -- the stable-store half of LevelDBStore is only used on raft's own log store, which is never closed while raft runs
  ("internal/raftstore:LevelDBStore.Get", "LevelDBStore", "db", false),
  ("internal/raftstore:LevelDBStore.GetUint64", "LevelDBStore", "db", false),
  ("internal/raftstore:LevelDBStore.Set", "LevelDBStore", "db", false),
  ("internal/raftstore:LevelDBStore.SetUint64", "LevelDBStore", "db", false),
  -- Close is called by Restore / shutdown after which the stream is abandoned (see DESIGN.md: readers
  -- that are still inside the old stream crash the process; not a data race)
  ("internal/outputstream:OutputStream.Close", "OutputStream", "db", false),
  ("internal/outputstream:OutputStream.Close", "OutputStream", "dirname", false)]

def isCtor (fn : String) : Bool := fn = "main:main" || fn = "internal/outputstream:NewOutputStream"

def rowOk (r : String × String × String × Bool × List String) : Bool :=
  let (fn, st, f, w, held) := r
  ((st, f) ∈ immutableFields && (!w || isCtor fn)) ||
  ((st, f) ∈ confinedFields) ||
  (match guardOf st f with
    | some g => held.contains (g ++ ":W") || (!w && held.contains (g ++ ":R"))
    | none => false) ||
  ((fn, st, f, w) ∈ exceptions)

/-- the lock hierarchy: a mutex may only be acquired while holding mutexes of strictly smaller rank -/
def lockRank : String → Nat
  | "FSM.restoreMu" => 0
  | "HTTP.mu" => 1
  | "IRCServer.sessionsMu" => 2
  | "IRCServer.ConfigMu" => 3
  | "IRCServer.lastProcessedMu" => 4
  | "FSM.sessionExpirationMu" => 4
  | "HTTP.getMessagesRequestsMu" => 4
  | "OutputStream.messagesMu" => 5
  | "OutputStream.cacheMu" => 6
  | "LevelDBStore.mu" => 5
  | "ircServerMu" => 5
  | _ => 100

/-- acquisitions that break the lock order (for diagnostics) -/
def orderOffending : List (String × String × String) := lockOrder.filter (fun e => !decide (lockRank e.1 < lockRank e.2.1))

/-- the rows of the regenerated table that break the discipline (for diagnostics) -/
def offending : List (String × String × String × Bool × List String) := accesses.filter (fun r => !rowOk r)

end Robust.Race.Discipline
