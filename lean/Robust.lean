import Robust.Base.I64
import Robust.Time.Model
import Robust.Props.C19
