import Robust.Stream.Resume
import Driver.Util
import Robust.Irc.Proofs.Clean
/-! driver component `resume`: `conn <p0> <lastId> <lastReply> <want> <seed> ; <nb> {<id> <n> {<k> <r>*}^n}^nb`
   and `firstline <hex>`: the model's `firstLine` of a posted text (hex of UTF-8 in, hex out; `bad-utf8` when the
   bytes are not a string) -/
namespace Driver.ResumeDrv
open Robust.Stream.Resume

def takeNats : Nat → List String → Option (List Nat × List String)
  | 0, r => some ([], r)
  | k + 1, a :: r => do
    let n ← a.toNat?
    let (ns, r) ← takeNats k r
    pure (n :: ns, r)
  | _, [] => none

def parseMsgs (id : Nat) : Nat → Nat → List String → Option (List M × List String)
  | 0, _, r => some ([], r)
  | n + 1, j, k :: r => do
    let k ← k.toNat?
    let (rc, r) ← takeNats k r
    let (ms, r) ← parseMsgs id n (j + 1) r
    pure (⟨id, j, rc⟩ :: ms, r)
  | _, _, [] => none

def parseNet : Nat → List String → Option Net
  | 0, _ => some []
  | nb + 1, id :: n :: r => do
    let id ← id.toNat?
    let n ← n.toNat?
    let (ms, r) ← parseMsgs id n 1 r
    let rest ← parseNet nb r
    pure (ms :: rest)
  | _, _ => none

def firstLineOp (h : String) : String :=
  match (if h == "-" then some [] else Driver.bytesOfHex h) with
  | none => "bad-op"
  | some bs =>
    match String.fromUTF8? (ByteArray.mk bs.toArray) with
    | none => "bad-utf8"
    | some s => Driver.hexOrDash (Robust.Irc.firstLine s).toUTF8.toList

def step (line : String) : String :=
  match Driver.words line with
  | ["firstline", h] => firstLineOp h
  | _ =>
  match line.splitOn ";" with
  | [h, body] =>
    match Driver.words h, Driver.words body with
    | ["conn", p0, lastId, lastReply, want, _seed], nb :: r =>
      match p0.toNat?, lastId.toNat?, lastReply.toNat?, want.toNat?, nb.toNat? with
      | some p0, some lastId, some lastReply, some want, some nb =>
        match parseNet nb r with
        | some net =>
          let found := (getBatch (net.take p0) lastId).isSome
          let out := (conn net found lastId lastReply (nb + 2)).take want
          "[" ++ Driver.joinWith "," (out.map fun m => s!"{m.id}.{m.reply}") ++ "]"
        | none => "bad-op"
      | _, _, _, _, _ => "bad-op"
    | _, _ => "bad-op"
  | _ => "bad-op"

end Driver.ResumeDrv
