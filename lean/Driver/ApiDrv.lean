import Robust.Api.Model
import Driver.IrcDrv
/-! driver component `api`: decisions of the HTTP handlers on a one-session state
   post|delete|get <exists> <authhex> <hdr: none|empty|v:<hex>> <idStr> <sid> <marker> <lastProcessed> <cmid>
   config <currentRev> <hdrRev|-> <valid> -/
namespace Driver.ApiDrv
open Robust Robust.Irc Robust.Api

def mkState (exists_ : Bool) (auth : String) (sid marker lastProcessed : Nat) : St :=
  { sessions := if exists_ then [(⟨sid, 0⟩, { id := ⟨sid, 0⟩, auth := auth, lastClientMessageId := marker })] else [],
    lastProcessed := ⟨lastProcessed, 0⟩ }

def parseHdr (s : String) : Option (Option String) :=
  if s == "none" then some none
  else if s == "empty" then some (some "")
  else if s.startsWith "v:" then (Driver.IrcDrv.unhexStr (s.drop 2).toString).map some
  else none

def step (line : String) : String :=
  match Driver.words line with
  | [kind, ex, auth, hdr, idStr, sid, marker, lp, cmid] =>
    match Driver.IrcDrv.unhexStr auth, parseHdr hdr, sid.toNat?, marker.toNat?, lp.toNat?, cmid.toNat? with
    | some auth, some hdr, some sid, some marker, some lp, some cmid =>
      let st := mkState (ex == "1") auth sid marker lp
      if kind == "post" then
        let r := handlePost st hdr idStr cmid "x" ""
        s!"status={r.status} proposes={if r.proposal.isSome then 1 else 0}"
      else if kind == "delete" then
        let r := handleDelete st hdr idStr "bye"
        s!"status={r.status} proposes={if r.proposal.isSome then 1 else 0}"
      else if kind == "get" then s!"status={getStatus st hdr idStr} proposes=0"
      else "bad-op"
    | _, _, _, _, _, _ => "bad-op"
  | ["config", cur, hdr, valid] =>
    match cur.toNat? with
    | some cur =>
      let st : St := { config := { revision := cur } }
      let r := handlePostConfig st (if hdr == "-" then none else hdr.toNat?) "body" (if valid == "1" then some {} else none)
      s!"status={r.status} proposes={if r.proposal.isSome then 1 else 0}"
    | none => "bad-op"
  | _ => "bad-op"

end Driver.ApiDrv
