import Robust.Store.LevelDB
import Driver.Util
/-! driver component `store` -/
namespace Driver.StoreDrv
open Robust Robust.Store Robust.Codec

def splitOnChar (s : String) (c : Char) : List String := s.splitOn (String.singleton c)

def canonRMsg (m : RMsg) : String :=
  s!"{m.id}.{m.reply}.{m.sid}.{m.sreply}.{m.type}.{Driver.hexOrDash m.data}.{m.unixNano}.{m.cmid}.{m.rev}.{Driver.hexOrDash m.addr}"

def parseMsg (s : String) : Option RMsg :=
  match splitOnChar s '.' with
  | [id, reply, sid, sreply, ty, data, un, cmid, rev, addr] => do
    let id ← id.toNat?
    let reply ← reply.toNat?
    let sid ← sid.toNat?
    let sreply ← sreply.toNat?
    let ty ← ty.toNat?
    let data ← Driver.bytesOfHex data
    let un ← un.toInt?
    let cmid ← cmid.toNat?
    let rev ← rev.toNat?
    let addr ← Driver.bytesOfHex addr
    pure ⟨id, reply, sid, sreply, ty, data, un, [], [], cmid, rev, addr⟩
  | _ => none

def parseData (s : String) : Option Data :=
  if s.startsWith "r:" then (Driver.bytesOfHex (s.drop 2).toString).map .raw
  else match splitOnChar s ':' with
    | ["m", f, m] => do
      let m ← parseMsg m
      pure (.msg (if f == "p" then .proto else .json) m)
    | _ => none

def parseEntry : List String → Option (LogEntry × List String)
  | idx :: term :: ty :: data :: ext :: sec :: nsec :: rest => do
    let idx ← idx.toNat?
    let term ← term.toNat?
    let ty ← ty.toNat?
    let data ← parseData data
    let ext ← Driver.bytesOfHex ext
    let sec ← sec.toInt?
    let nsec ← nsec.toNat?
    pure (⟨idx, term, ty, data, ext, sec, nsec⟩, rest)
  | _ => none

def parseEntries : Nat → List String → Option (List LogEntry)
  | 0, _ => some []
  | k + 1, r => do
    let (e, r) ← parseEntry r
    let es ← parseEntries k r
    pure (e :: es)

def canonEntry (e : LogEntry) : String :=
  let data := if e.type = 0 then
      (match e.data with
       | .msg _ m => "M(" ++ canonRMsg (m.withDefaultId e.index) ++ ")"
       | .raw _ => "M(panic)")
    else (match e.data with
       | .raw bs => "R(" ++ Driver.hexOrDash bs ++ ")"
       | .msg _ _ => "R(?)")
  s!"{e.index}/{e.term}/{e.type}/{data}/{Driver.hexOrDash e.ext}/{e.atSec}.{e.atNsec}"

def showNat : Except Err Nat → String
  | .ok n => toString n
  | .error .panic => "panic"
  | .error _ => "error"

def step (s : Store) (line : String) : Store × String :=
  match Driver.words line with
  | ["open", p] => (Store.empty (p == "1") |>.reopen (p == "1"), "ok")
  | ["reopen", p] => (s.reopen (p == "1"), "ok")
  | ["kill"] => (s, "ok")
  | "store" :: n :: r =>
    match n.toNat? >>= fun n => parseEntries n r with
    | some es => (s.storeLogs es, "ok")
    | none => (s, "bad-op")
  | "storeproto" :: r =>
    match parseEntry r with
    | some (e, _) => (s.storeLogProto e, "ok")
    | none => (s, "bad-op")
  | ["getlog", i] =>
    match i.toNat? with
    | some i => (match s.getLog i with
      | .ok e => (s, "ok " ++ canonEntry e ++ " readers-agree=1")
      | .error .notFound => (s, "notfound")
      | .error _ => (s, "error"))
    | none => (s, "bad-op")
  | ["first"] => (s, showNat s.firstIndex)
  | ["last"] => (s, showNat s.lastIndex)
  | ["bulk", a, b] =>
    match a.toNat?, b.toNat? with
    | some a, some b => (s, Driver.joinWith " " ((s.bulkKeys a b).map Driver.hexOrDash))
    | _, _ => (s, "bad-op")
  | ["delrange", a, b] =>
    match a.toNat?, b.toNat? with
    | some a, some b => (s.deleteRange a b, "ok")
    | _, _ => (s, "bad-op")
  | ["set", k, v] =>
    match Driver.bytesOfHex k, Driver.bytesOfHex v with
    | some k, some v => (s.set k v, "ok")
    | _, _ => (s, "bad-op")
  | ["get", k] =>
    match Driver.bytesOfHex k with
    | some k => (match s.get k with
      | .ok none => (s, "nil")
      | .ok (some v) => (s, "v:" ++ Driver.hexOrDash v)
      | .error _ => (s, "error"))
    | none => (s, "bad-op")
  | ["setu", k, v] =>
    match Driver.bytesOfHex k, v.toNat? with
    | some k, some v => (s.setUint64 k v, "ok")
    | _, _ => (s, "bad-op")
  | ["getu", k] =>
    match Driver.bytesOfHex k with
    | some k => (s, showNat (s.getUint64 k))
    | none => (s, "bad-op")
  | ["convert"] => (s.convertToProto, "ok")
  | ["fmt", i] =>
    match i.toNat? with
    | some i => (match kvGet s.kv (Robust.Bytes.be64 i) with
      | some (.log f e) =>
        let vf := if f == .proto then "proto" else "json"
        let df := if e.type ≠ 0 then "raw" else (match e.data with
          | .msg .proto _ => "proto" | .msg .json _ => "json"
          | .raw (b :: _) => if b == 112 then "proto" else "json" | .raw [] => "json")
        (s, vf ++ "/" ++ df)
      | some (.raw _) => (s, "json/error")
      | none => (s, "none"))
    | none => (s, "bad-op")
  | ["keys"] => (s, Driver.joinWith " " (s.kv.map fun e => Driver.hexOrDash e.1))
  | _ => (s, "bad-op")

end Driver.StoreDrv
