import Robust.Time.Model
import Driver.Util
/-! driver component `time`:  `sync <disabled> <n> (<startNs> <endNs> <resultNs>)*` -/
namespace Driver.TimeDrv
open Robust.Gen.Time Robust.Time

def parseResults : List String → Option (List TimeResult)
  | [] => some []
  | a :: b :: c :: rest => do
    let s ← a.toInt?
    let e ← b.toInt?
    let r ← c.toInt?
    let tl ← parseResults rest
    pure (⟨s, e, r⟩ :: tl)
  | _ => none

def indicesOf (rs : List TimeResult) (off : List TimeResult) : List Nat :=
  (List.range rs.length).filter fun i =>
    match rs[i]? with
    | some r => off.contains r
    | none => false

def step (line : String) : String :=
  match Driver.words line with
  | "sync" :: d :: _n :: rest =>
    match parseResults rest with
    | none => "bad-op"
    | some rs =>
      let drifts := rs.map fun r => toString (worstCaseDrift r)
      let ins := if timeInSync rs then "1" else "0"
      let v := match synchronized (d == "1") rs with
        | .ok => "ok"
        | .refuse off => "refuse:" ++ Driver.joinWith "," ((indicesOf rs off).map toString) ++ ":" ++ toString off.length
      s!"drifts={Driver.joinWith "," drifts} insync={ins} verdict={v}"
  | _ => "bad-op"

end Driver.TimeDrv
