import Robust.Fsm.Model
import Driver.Util
/-! driver component `fsm` -/
namespace Driver.FsmDrv
open Robust.Fsm

def commaNats (l : List Nat) : String := Driver.joinWith "," (l.map toString)

def sortNat (l : List Nat) : List Nat := (l.toArray.qsort (· < ·)).toList

def status (n : Node) : String :=
  let applied := (n.raftlog.filter (·.isCmd)).map (·.idx)
  s!"irc={commaNats (n.irc.map (·.idx))} out={commaNats (sortNat n.out)} lss={commaNats (sortNat (n.lss.map (·.1)))} same={if n.live == applied then "1" else "0"}"

def step (n : Node) (line : String) : Node × String :=
  match Driver.words line with
  | ["reset"] => ({}, "ok")
  | ["commit", idx, ts, kind] =>
    match idx.toNat?, ts.toInt? with
    | some idx, some ts =>
      let setsExp := if kind.startsWith "x" then ((kind.drop 1).toString.toInt?).map (· * 1000000000) else none
      (n.commit ⟨idx, ts, kind != "r", setsExp⟩, "ok")
    | _, _ => (n, "bad-op")
  | ["snapshot", now] =>
    match now.toInt? with
    | some now => (match n.snapshot now with
      | some n' => (n', match n'.pending with | some p => s!"ok {p.first} {p.last}" | none => "ok")
      | none => (n, "error"))
    | none => (n, "bad-op")
  | ["persist"] => if n.pending.isNone then (n, "nopending") else (n.persist, "ok")
  | ["persistfail"] => if n.pending.isNone then (n, "nopending") else (n.persistFail, "failed")
  | ["restore"] => (match n.persisted.head? with | some _ => (n.step .restoreLatest, "ok") | none => (n, "nosnapshot"))
  | ["restart"] => (n.restart, "ok")
  | ["status"] => (n, status n)
  | _ => (n, "bad-op")

end Driver.FsmDrv
