import Robust.Stream.Reader
import Driver.Util
/-! driver components `codec` (stateless) and `stream` (stateful) -/
namespace Driver.StreamDrv
open Robust Robust.Stream

def sortNat (l : List Nat) : List Nat := (l.toArray.qsort (· < ·)).toList

def dedup : List Nat → List Nat
  | [] => []
  | x :: xs => if xs.contains x then dedup xs else x :: dedup xs

def canonMsgs (ms : List Msg) : String :=
  "[" ++ Driver.joinWith ";" (ms.map fun m =>
    s!"{m.id}.{m.reply}:{Driver.hexOrDash m.data}:{Driver.joinWith "," ((sortNat (dedup (m.rcpt.map (·.1)))).map toString)}") ++ "]"

def canonBatch (b : Batch) : String := s!"next={b.next} msgs={canonMsgs b.msgs}"

def takeNats : Nat → List String → Option (List Nat × List String)
  | 0, r => some ([], r)
  | k + 1, a :: r => do
    let n ← a.toNat?
    let (ns, r) ← takeNats k r
    pure (n :: ns, r)
  | _, [] => none

def parseMsgs : Nat → List String → Option (List Msg × List String)
  | 0, r => some ([], r)
  | k + 1, id :: reply :: data :: nr :: r => do
    let id ← id.toNat?
    let reply ← reply.toNat?
    let data ← Driver.bytesOfHex data
    let nr ← nr.toNat?
    let (rc, r) ← takeNats nr r
    let (ms, r) ← parseMsgs k r
    pure (⟨id, reply, data, rc.map (·, true)⟩ :: ms, r)
  | _, _ => none

/-- `<next> <n> {<id> <reply> <datahex> <k> <r1> … <rk>}*` -/
def parseBatch : List String → Option Batch
  | next :: n :: r => do
    let next ← next.toNat?
    let n ← n.toNat?
    let (ms, _) ← parseMsgs n r
    pure ⟨ms, next⟩
  | _ => none

def codecStep (line : String) : String :=
  match Driver.words line with
  | "encbytes" :: r => match parseBatch r with
    | some b => Driver.hexOrDash (marshal b)
    | none => "bad-op"
  | "encdec" :: r => match parseBatch r with
    | some b => (match unmarshal (marshal b) with | some b' => canonBatch b' | none => "panic")
    | none => "bad-op"
  | ["dec", h] => match Driver.bytesOfHex h with
    | some bs => (match unmarshal bs with | some b' => canonBatch b' | none => "panic")
    | none => "bad-op"
  | _ => "bad-op"

def dump (s : OS) : String :=
  Driver.joinWith " " (s.db.map fun e => s!"{e.1}:{e.2.next}") ++ s!" | last={s.lastSeen}:{s.last.next}"

structure Thread where
  tid : Nat
  x : Nat
  st : RStatus

structure SState where
  os : OS
  threads : List Thread

def SState.init : SState := ⟨OS.init, []⟩

/-- after a broadcast every parked reader runs to its next blocking point -/
def wakeAll (os : OS) : List Thread → OS × List Thread
  | [] => (os, [])
  | t :: ts =>
    match t.st with
    | .parked cur =>
      let (os1, st) := os.runReader t.x false 8 (some cur)
      let (os2, ts') := wakeAll os1 ts
      (os2, { t with st := st } :: ts')
    | _ =>
      let (os2, ts') := wakeAll os ts
      (os2, t :: ts')

def showStatus : RStatus → String
  | .parked _ => "parked"
  | .done (some m) => "ret:" ++ canonMsgs m
  | .done none => "ret:[]"
  | .panicked => "panic"

def streamStepOS (s : OS) (line : String) : OS × String :=
  match Driver.words line with
  | "add" :: r => match parseBatch r with
    | some b => (match s.add b.msgs with | some s' => (s', "ok") | none => (s, "panic"))
    | none => (s, "bad-op")
  | ["del", id] => match id.toNat? with
    | some id => (match s.delete id with | some s' => (s', "ok") | none => (s, "panic"))
    | none => (s, "bad-op")
  | ["get", id] => match id.toNat? with
    | some id => (match s.get id with | (s', some m) => (s', canonMsgs m) | (s', none) => (s', "none"))
    | none => (s, "bad-op")
  | ["next", x] => match x.toNat? with
    | some x => (match s.poll x 4 with
      | (s', some (some m)) => (s', canonMsgs m)
      | (s', some none) => (s', "blocked")
      | (s', none) => (s', "panic"))
    | none => (s, "bad-op")
  | ["lastseen"] => (s, toString s.lastSeen)
  | ["dump"] => (s, dump s)
  | _ => (s, "bad-op")

def streamStep (s : SState) (line : String) : SState × String :=
  match Driver.words line with
  | ["reset"] => (SState.init, "ok")
  | ["park", t, x] =>
    match t.toNat?, x.toNat? with
    | some t, some x =>
      let (os1, st) := s.os.runReader x false 8 none
      (⟨os1, s.threads.filter (·.tid ≠ t) ++ [⟨t, x, st⟩]⟩, showStatus st)
    | _, _ => (s, "bad-op")
  | ["join", t] =>
    match t.toNat? with
    | some t => (match s.threads.find? (·.tid == t) with
      | some th => (match th.st with | .parked _ => (s, "blocked") | st => (s, showStatus st))
      | none => (s, "bad-op"))
    | none => (s, "bad-op")
  | ["cancel", t] =>
    match t.toNat? with
    | some t =>
      -- cancel t's context, then InterruptGetNext (Broadcast): t re-runs with a cancelled context, the others normally
      let (os1, ths) := s.threads.foldl (fun (acc : OS × List Thread) th =>
        match th.st with
        | .parked cur =>
          let (o, st) := acc.1.runReader th.x (th.tid == t) 8 (some cur)
          (o, acc.2 ++ [{ th with st := st }])
        | _ => (acc.1, acc.2 ++ [th])) (s.os, [])
      (⟨os1, ths⟩, "ok")
    | none => (s, "bad-op")
  | "burst" :: rest =>
    -- writer ops back to back; the woken readers run only afterwards
    let subs := (Driver.joinWith " " rest).splitOn " ; "
    let (os1, outs, anyAdd) := subs.foldl (fun (acc : OS × List String × Bool) sub =>
      let (o, r) := streamStepOS acc.1 sub
      (o, acc.2.1 ++ [r], acc.2.2 || (sub.startsWith "add" && r == "ok"))) (s.os, [], false)
    if anyAdd then
      let (os2, ths) := wakeAll os1 s.threads
      (⟨os2, ths⟩, Driver.joinWith "," outs)
    else (⟨os1, s.threads⟩, Driver.joinWith "," outs)
  | "add" :: _ =>
    let (os1, out) := streamStepOS s.os line
    if out == "ok" then
      let (os2, ths) := wakeAll os1 s.threads
      (⟨os2, ths⟩, out)
    else (⟨os1, s.threads⟩, out)
  | _ =>
    let (os1, out) := streamStepOS s.os line
    (⟨os1, s.threads⟩, out)

end Driver.StreamDrv
