import Driver.TimeDrv
/-! `driver <component>` reads one operation per line on stdin, prints one line per operation. -/

partial def loopStateless (h : IO.FS.Stream) (out : IO.FS.Stream) (f : String → String) : IO Unit := do
  let line ← h.getLine
  if line.isEmpty then return ()
  let l := (line.dropEndWhile (fun c => c == '\n' || c == '\r')).toString
  out.putStrLn (f l)
  loopStateless h out f

def main (args : List String) : IO UInt32 := do
  let stdin ← IO.getStdin
  let stdout ← IO.getStdout
  match args with
  | ["time"] => loopStateless stdin stdout Driver.TimeDrv.step; stdout.flush; return 0
  | _ => IO.eprintln "usage: driver <component>"; return 2
