import Driver.TimeDrv
import Driver.StreamDrv
import Driver.StoreDrv
import Driver.ResumeDrv
import Driver.IrcDrv
import Driver.FsmDrv
import Driver.ApiDrv
/-! `driver <component>` reads one operation per line on stdin, prints one line per operation. -/

partial def loopStateless (h : IO.FS.Stream) (out : IO.FS.Stream) (f : String → String) : IO Unit := do
  let line ← h.getLine
  if line.isEmpty then return ()
  let l := (line.dropEndWhile (fun c => c == '\n' || c == '\r')).toString
  out.putStrLn (f l)
  loopStateless h out f

partial def loopState {σ : Type} (h : IO.FS.Stream) (out : IO.FS.Stream) (f : σ → String → σ × String) (s : σ) : IO Unit := do
  let line ← h.getLine
  if line.isEmpty then return ()
  let l := (line.dropEndWhile (fun c => c == '\n' || c == '\r')).toString
  let (s', o) := f s l
  out.putStrLn o
  loopState h out f s'

def main (args : List String) : IO UInt32 := do
  let stdin ← IO.getStdin
  let stdout ← IO.getStdout
  match args with
  | ["time"] => loopStateless stdin stdout Driver.TimeDrv.step; stdout.flush; return 0
  | ["codec"] => loopStateless stdin stdout Driver.StreamDrv.codecStep; stdout.flush; return 0
  | ["stream"] => loopState stdin stdout Driver.StreamDrv.streamStep Driver.StreamDrv.SState.init; stdout.flush; return 0
  | ["api"] => loopStateless stdin stdout Driver.ApiDrv.step; stdout.flush; return 0
  | ["fsm"] => loopState stdin stdout Driver.FsmDrv.step ({} : Robust.Fsm.Node); stdout.flush; return 0
  | ["ircperm"] => loopState stdin stdout Driver.IrcDrv.stepPerm Driver.IrcDrv.init; stdout.flush; return 0
  | ["irc"] => loopState stdin stdout Driver.IrcDrv.step Driver.IrcDrv.init; stdout.flush; return 0
  | ["resume"] => loopStateless stdin stdout Driver.ResumeDrv.step; stdout.flush; return 0
  | ["store"] => loopState stdin stdout Driver.StoreDrv.step (Robust.Store.Store.empty false); stdout.flush; return 0
  | _ => IO.eprintln "usage: driver <component>"; return 2
