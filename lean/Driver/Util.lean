/-! Line-protocol helpers shared by all driver components (core Lean only). -/
namespace Driver

def words (s : String) : List String :=
  (s.splitOn " ").filter (· ≠ "")

def joinWith (sep : String) (xs : List String) : String := sep.intercalate xs

def hexDigit (n : Nat) : Char :=
  if n < 10 then Char.ofNat (48 + n) else Char.ofNat (87 + n)

def hexOfBytes (bs : List UInt8) : String :=
  String.ofList (bs.flatMap fun b => [hexDigit (b.toNat / 16), hexDigit (b.toNat % 16)])

def hexVal (c : Char) : Option Nat :=
  if '0' ≤ c ∧ c ≤ '9' then some (c.toNat - 48)
  else if 'a' ≤ c ∧ c ≤ 'f' then some (c.toNat - 87)
  else if 'A' ≤ c ∧ c ≤ 'F' then some (c.toNat - 55)
  else none

def bytesOfHexAux : List Char → List UInt8 → Option (List UInt8)
  | [], acc => some acc.reverse
  | [_], _ => none
  | a :: b :: rest, acc =>
    match hexVal a, hexVal b with
    | some x, some y => bytesOfHexAux rest (UInt8.ofNat (x * 16 + y) :: acc)
    | _, _ => none

/-- "-" encodes the empty byte string -/
def bytesOfHex (s : String) : Option (List UInt8) :=
  if s = "-" then some [] else bytesOfHexAux s.toList []

def hexOrDash (bs : List UInt8) : String := if bs.isEmpty then "-" else hexOfBytes bs

end Driver
