import Robust.Irc.Dump
import Robust.Irc.Inv
import Robust.Irc.Snapshot
import Robust.Api.Model
import Driver.Util
/-! driver component `irc`: `R` reset, `E …` entry, `D` dump, `W` walk -/
namespace Driver.IrcDrv
open Robust Robust.Irc

def unhexStr (s : String) : Option String := do
  let bs ← Driver.bytesOfHex s
  String.fromUTF8? (ByteArray.mk bs.toArray)

def parsePairs (s : String) : Option (List (String × String)) :=
  if s == "" then some [] else
  (s.splitOn ",").mapM fun kv => match kv.splitOn ":" with
    | [k, v] => do pure ((← unhexStr k), (← unhexStr v))
    | _ => none

def parseList (s : String) : Option (List String) :=
  if s == "" then some [] else (s.splitOn ",").mapM unhexStr

/-- `cfg=<valid>;<ops>;<svc>;<se>;<pc>;<tb>;<cu>;<cs>;<cl>;<ms>;<mc>;<bn>;<wo>` -/
def parseCfg (s : String) : Option (Option Config) :=
  match (s.drop 4).toString.splitOn ";" with
  | [valid, ops, svc, se, pc, tb, cu, cs, cl, ms, mc, bn, wo] =>
    if valid == "0" then some none else do
    let ops ← parsePairs ops
    let svc ← parseList svc
    let se ← se.toInt?
    let pc ← pc.toInt?
    let tb ← parsePairs tb
    let cu ← unhexStr cu
    let cs ← unhexStr cs
    let ms ← ms.toNat?
    let mc ← mc.toNat?
    let bn ← parsePairs bn
    let wo ← (if wo == "" then some [] else (wo.splitOn ",").mapM fun p => match p.splitOn ":" with
      | [k, v] => do let k ← unhexStr k; pure (k, v == "1")
      | _ => none)
    pure (some { operators := ops, services := svc, sessionExpiration := se, postMessageCooloff := pc, trustedBridges := tb,
                 captchaURL := cu, captchaSecret := cs, captchaRequiredForLogin := cl == "1", maxSessions := ms, maxChannels := mc, banned := bn, whitelistedOrigins := wo })
  | _ => none

def parseEntry : List String → Option Entry
  | ty :: id :: sid :: sreply :: un :: cmid :: rev :: addr :: data :: rest => do
    let ty ← ty.toNat?
    let id ← id.toNat?
    let sid ← sid.toNat?
    let sreply ← sreply.toNat?
    let un ← un.toInt?
    let cmid ← cmid.toNat?
    let rev ← rev.toNat?
    let addr ← unhexStr addr
    let data ← unhexStr data
    let cfg ← match rest with
      | [c] => parseCfg c
      | _ => some none
    pure ⟨ty, id, ⟨sid, sreply⟩, data, un, cmid, rev, addr, cfg⟩
  | _ => none

def sortNat (l : List Nat) : List Nat := (l.toArray.qsort (· < ·)).toList
def dedup : List Nat → List Nat
  | [] => []
  | x :: xs => if xs.contains x then dedup xs else x :: dedup xs

def canonOut (serverName : String) (outs : List Out) : String :=
  let p003 := utf8 (":" ++ serverName ++ " 003 ")
  let parts := outs.map fun o =>
    let data := if p003.isPrefixOf o.data then utf8 (":" ++ serverName ++ " 003 *") else o.data
    s!"{o.id}.{o.reply} {Driver.hexOrDash data} {Driver.joinWith "," ((sortNat (dedup o.rcpt)).map toString)}"
  s!"out {outs.length} | {Driver.joinWith " | " parts}"

structure DState where
  st : St
  broken : Bool     -- a panic or a declined entry happened: the model state is no longer meaningful
  tainted : Bool    -- the history left C14's quantifier (SVSNICK onto a nickname in use)

def init : DState := ⟨{}, false, false⟩

/-- does this entry make a services link rename somebody onto a nickname owned by another session? -/
def svsnickOntoUsed (st : St) (e : Entry) : Bool :=
  e.type == 2 && (match AMap.get st.sessions e.session with
    | some s => s.server && (match parseMessage e.data with
      | some m => toUpper m.command == "SVSNICK" && (match m.params with
        | a :: b :: _ => (match AMap.get st.nicks (nickToLower b) with
          | some owner => AMap.get st.nicks (nickToLower a) != some owner
          | none => false)
        | _ => false)
      | none => false)
    | none => false)

def invWhy (st : St) : String :=
  Driver.joinWith ";" (
    (if keysNodup st.sessions then [] else ["dup-session-keys"]) ++
    (if keysNodup st.nicks then [] else ["dup-nick-keys"]) ++
    (if keysNodup st.channels then [] else ["dup-chan-keys"]) ++
    (st.sessions.filterMap fun e => if sessionOk st e.1 e.2 && e.2.channels.Nodup then none else some s!"session {e.1.id}.{e.1.reply}") ++
    (st.nicks.filterMap fun e => if nickIndexOk st e.1 e.2 then none else some s!"nick {e.1}") ++
    (st.channels.filterMap fun e => if channelOk st e.1 e.2 then none else some s!"chan {e.1}"))

/-- reorder every Go map of the state (association lists, member lists, channel sets): the
list order stands for Go's unspecified map iteration order, so a model that is insensitive to
it must produce the same canonical output after any such reordering -/
def permuteState (st : St) : St :=
  { st with
    sessions := (st.sessions.map fun e => (e.1, { e.2 with channels := e.2.channels.reverse, invitedTo := e.2.invitedTo.reverse })).reverse,
    nicks := st.nicks.reverse,
    channels := (st.channels.map fun e => (e.1, { e.2 with nicks := e.2.nicks.reverse })).reverse,
    svsholds := st.svsholds.reverse,
    config := { st.config with banned := st.config.banned.reverse, trustedBridges := st.config.trustedBridges.reverse } }

def step (d : DState) (line : String) : DState × String :=
  match Driver.words line with
  | ["R"] => (init, "ok")
  | "E" :: rest =>
    match parseEntry rest with
    | none => (d, "bad-op")
    | some e =>
      if d.broken then (d, "skipped")
      else
        let tainted := d.tainted || svsnickOntoUsed d.st e
        match applyEntry d.st e with
        | .ok (st, outs) => (⟨st, false, tainted⟩, canonOut d.st.serverName outs)
        | .panic site => (⟨d.st, true, tainted⟩, "panic " ++ site)
        | .declined why => (⟨d.st, true, tainted⟩, "declined " ++ why)
  | ["G", id, reply] =>
    if d.broken then (d, "skipped") else
    match id.toNat?, reply.toNat? with
    | some id, some reply => (d, match Robust.Api.getSession d.st ⟨id, reply⟩ with
      | .ok _ => "found" | .error .noSuchSession => "nosuch" | .error .notYetSeen => "notyet" | .error _ => "error")
    | _, _ => (d, "bad-op")
  | ["M"] => if d.broken then (d, "skipped") else
      -- also report whether the hypotheses of C03_state (executable forms) hold at this cut
      ({ d with st := saveLoad d.st }, "ok" ++ (if canonB d.st && invB d.st then "" else s!" hyp canon={canonB d.st} inv={invB d.st}"))
  | ["D"] => if d.broken then (d, "skipped") else (d, dumpState d.st)
  | ["W"] => if d.broken then (d, "skipped") else (d, (if invB d.st then "walk ok" else "walk bad " ++ invWhy d.st) ++ (if d.tainted then " tainted" else ""))
  | _ => (d, "bad-op")

end Driver.IrcDrv

namespace Driver.IrcDrv
/-- `ircperm`: like `irc`, but the state's maps are reordered after every entry -/
def stepPerm (d : DState) (line : String) : DState × String :=
  let (d', out) := step d line
  ({ d' with st := permuteState d'.st }, out)
end Driver.IrcDrv
