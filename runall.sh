#!/bin/sh
# Runs every claimed check (quick tier by default) on the current tree; used before committing evidence.
cd "$(dirname "$0")"
tier=${1:-quick}
rc=0
for p in $(python3 -c "import json;print(' '.join(c['property_id'] for c in json.load(open('MANIFEST.json'))['checks']))"); do
  ./check $p $tier || rc=1
done
python3-vt - <<'PY'
import json, jsonschema, glob
sch = json.load(open('/root/.vp/EVIDENCE.schema.json'))
m = json.load(open('/verif/MANIFEST.json'))
jsonschema.validate(m, json.load(open('/root/.vp/MANIFEST.schema.json')))
for c in m['checks']:
    e = json.load(open(c['evidence_file']))
    jsonschema.validate(e, sch)
    cov = e['coverage']
    assert cov['obligations'] == cov['discharged'], (c['property_id'], cov['obligations'], cov['discharged'])
print("manifest + evidence valid")
PY
exit $rc
