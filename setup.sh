#!/bin/sh
# Build the framework from files on disk only (offline): extractor, generated Lean facts, all
# Lean modules and the driver executable.  Harness binaries are built (and cached) by the checks.
set -e
cd "$(dirname "$0")"
export GOPROXY=off GOSUMDB=off GOTOOLCHAIN=local GOFLAGS=-mod=mod
mkdir -p build/bin build/tmp build/replays evidence
(cd tools && go build -o ../build/bin/extract ./extract)
python3 - <<'PY'
import sys, os
sys.path.insert(0, "pylib")
import vlib
ok, facts, out = vlib.ensure_extract()
print("extract:", ok, out[-500:])
sys.exit(0 if ok else 1)
PY
(cd lean && lake build Robust driver 2>&1 | grep -vE '^(trace|info|warning|ℹ|✔)' | tail -40; lake build Robust driver >/dev/null 2>&1)
echo "setup done"
