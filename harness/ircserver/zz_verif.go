//go:build verif

package ircserver

// In-package walk of the IRCServer for the correspondence runs (canonical, order independent
// state dump) and for C14 (consistency predicate).  Injected with `go build -overlay`.

import (
	"encoding/hex"
	"fmt"
	"sort"
	"strings"
	"time"
)

func vhex(s string) string {
	if s == "" {
		return "-"
	}
	return hex.EncodeToString([]byte(s))
}

func vb(b bool) string {
	if b {
		return "1"
	}
	return "0"
}

func vtime(t time.Time) string {
	if t.IsZero() {
		return "Z"
	}
	return fmt.Sprintf("%d", t.UnixNano())
}

func vmodes(m *['z']bool) string {
	var b strings.Builder
	for c := 0; c < len(m); c++ {
		if m[c] {
			b.WriteRune(rune(c))
		}
	}
	return b.String()
}

func vset(m map[lcChan]bool) string {
	var l []string
	for k, v := range m {
		if v {
			l = append(l, vhex(string(k)))
		}
	}
	sort.Strings(l)
	return strings.Join(l, ",")
}

func vkv(m map[string]string) string {
	var l []string
	for k, v := range m {
		l = append(l, vhex(k)+":"+vhex(v))
	}
	sort.Strings(l)
	return strings.Join(l, ",")
}

func vkb(m map[string]bool) string {
	var l []string
	for k, v := range m {
		l = append(l, vhex(k)+":"+vb(v))
	}
	sort.Strings(l)
	return strings.Join(l, ",")
}

// VerifDump renders the complete replicated state canonically.
func VerifDump(i *IRCServer) string {
	i.sessionsMu.RLock()
	defer i.sessionsMu.RUnlock()
	i.ConfigMu.RLock()
	defer i.ConfigMu.RUnlock()
	var parts []string
	parts = append(parts, fmt.Sprintf("LP=%d.%d", i.lastProcessed.Id, i.lastProcessed.Reply))
	var ss []string
	for _, id := range i.serverSessions {
		ss = append(ss, fmt.Sprintf("%d", id))
	}
	sort.Strings(ss) // a slice in the code, but only ever used to build recipient sets
	parts = append(parts, "SS="+strings.Join(ss, ","))
	var ni []string
	for k, s := range i.nicks {
		ni = append(ni, fmt.Sprintf("%s:%d.%d", vhex(string(k)), s.Id.Id, s.Id.Reply))
	}
	sort.Strings(ni)
	parts = append(parts, "NI="+strings.Join(ni, ","))
	var sess []*Session
	for _, s := range i.sessions {
		sess = append(sess, s)
	}
	sort.Slice(sess, func(a, b int) bool {
		if sess[a].Id.Id != sess[b].Id.Id {
			return sess[a].Id.Id < sess[b].Id.Id
		}
		return sess[a].Id.Reply < sess[b].Id.Reply
	})
	for _, s := range sess {
		parts = append(parts, fmt.Sprintf("S %d.%d a=%s li=%s n=%s u=%s r=%s ch=%s la=%s lnp=%s lsc=%s op=%s aw=%s cr=%d te=%d inv=%s m=%s sv=%s pw=%s srv=%s cm=%d px=%s!%s@%s ad=%s del=%s",
			s.Id.Id, s.Id.Reply, vhex(s.auth), vb(s.loggedIn), vhex(s.Nick), vhex(s.Username), vhex(s.Realname), vset(s.Channels),
			vtime(s.LastActivity), vtime(s.LastNonPing), vtime(s.LastSolvedCaptcha), vb(s.Operator), vhex(s.AwayMsg), s.Created, s.throttlingExponent,
			vset(s.invitedTo), vmodes(&s.modes), vhex(s.svid), vhex(s.Pass), vb(s.Server), s.lastClientMessageId,
			vhex(s.ircPrefix.Name), vhex(s.ircPrefix.User), vhex(s.ircPrefix.Host), vhex(s.RemoteAddr), vb(s.deleted)))
	}
	var cks []string
	for k := range i.channels {
		cks = append(cks, string(k))
	}
	sort.Strings(cks)
	for _, k := range cks {
		c := i.channels[lcChan(k)]
		var bans []string
		for _, b := range c.bans {
			bans = append(bans, vhex(b.pattern)+"~"+vhex(b.re.String()))
		}
		var nicks []string
		for n, p := range c.nicks {
			o, v := "-", "-"
			if p[chanop] {
				o = "o"
			}
			if p[voice] {
				v = "v"
			}
			nicks = append(nicks, vhex(string(n))+":"+o+v)
		}
		sort.Strings(nicks)
		parts = append(parts, fmt.Sprintf("C %s n=%s tn=%s tt=%s t=%s m=%s k=%s b=%s N=%s", vhex(k), vhex(c.name), vhex(c.topicNick), vtime(c.topicTime), vhex(c.topic),
			vmodes(&c.modes), vhex(c.key), strings.Join(bans, ";"), strings.Join(nicks, ",")))
	}
	var hks []string
	for k := range i.svsholds {
		hks = append(hks, string(k))
	}
	sort.Strings(hks)
	for _, k := range hks {
		h := i.svsholds[lcNick(k)]
		parts = append(parts, fmt.Sprintf("H %s ad=%s du=%d re=%s", vhex(k), vtime(h.added), int64(h.duration), vhex(h.reason)))
	}
	cfg := i.Config
	var ops, svc []string
	for _, o := range cfg.IRC.Operators {
		ops = append(ops, vhex(o.Name)+":"+vhex(o.Password))
	}
	for _, s := range cfg.IRC.Services {
		svc = append(svc, vhex(s.Password))
	}
	parts = append(parts, fmt.Sprintf("CF rev=%d ops=%s svc=%s se=%d pc=%d tb=%s cu=%s cs=%s cl=%s ms=%d mc=%d bn=%s wo=%s", cfg.Revision, strings.Join(ops, ";"), strings.Join(svc, ";"),
		int64(cfg.SessionExpiration), int64(cfg.PostMessageCooloff), vkv(cfg.TrustedBridges), vhex(cfg.CaptchaURL), vhex(cfg.CaptchaHMACSecret.String()), vb(cfg.CaptchaRequiredForLogin),
		cfg.MaxSessions, cfg.MaxChannels, vkv(cfg.Banned), vkb(cfg.WhitelistedOrigins)))
	return strings.Join(parts, " | ")
}

// VerifWalk checks the consistency conditions of C14 on the real data structures and returns
// one line per violated condition.
func VerifWalk(i *IRCServer) []string {
	i.sessionsMu.RLock()
	defer i.sessionsMu.RUnlock()
	i.ConfigMu.RLock()
	defer i.ConfigMu.RUnlock()
	var bad []string
	owned := map[lcNick]*Session{}
	for id, s := range i.sessions {
		if s.Id != id {
			bad = append(bad, fmt.Sprintf("session stored under %v has id %v", id, s.Id))
		}
		if s.deleted {
			bad = append(bad, fmt.Sprintf("session %v still stored although deleted", id))
		}
		if s.Nick == "" {
			continue
		}
		lc := NickToLower(s.Nick)
		if o, ok := owned[lc]; ok {
			bad = append(bad, fmt.Sprintf("nick %q owned by sessions %v and %v", lc, o.Id, s.Id))
		}
		owned[lc] = s
		if id.Reply == 0 && !IsValidNickname(s.Nick) {
			bad = append(bad, fmt.Sprintf("session %v owns invalid nickname %q", id, s.Nick))
		}
		if i.nicks[lc] != s {
			bad = append(bad, fmt.Sprintf("session %v (nick %q) is not reachable through the nick index", id, s.Nick))
		}
		for ch := range s.Channels {
			c, ok := i.channels[ch]
			if !ok {
				bad = append(bad, fmt.Sprintf("session %v lists channel %q which does not exist", id, ch))
				continue
			}
			if _, ok := c.nicks[lc]; !ok {
				bad = append(bad, fmt.Sprintf("session %v lists channel %q but the channel does not list it", id, ch))
			}
		}
	}
	for lc, s := range i.nicks {
		if cur, ok := i.sessions[s.Id]; !ok || cur != s {
			bad = append(bad, fmt.Sprintf("nick index %q points to a dead session %v", lc, s.Id))
		} else if NickToLower(s.Nick) != lc {
			bad = append(bad, fmt.Sprintf("nick index %q points to session %v whose nick is %q", lc, s.Id, s.Nick))
		}
	}
	for lc, c := range i.channels {
		if ChanToLower(c.name) != lc {
			bad = append(bad, fmt.Sprintf("channel key %q != lower(%q)", lc, c.name))
		}
		if !IsValidChannel(c.name) {
			bad = append(bad, fmt.Sprintf("channel %q has an invalid name", c.name))
		}
		if len(c.nicks) == 0 {
			bad = append(bad, fmt.Sprintf("channel %q has no members", lc))
		}
		for n := range c.nicks {
			s, ok := i.nicks[n]
			if !ok {
				bad = append(bad, fmt.Sprintf("channel %q lists %q which is not a live nickname", lc, n))
				continue
			}
			if !s.Channels[lc] {
				bad = append(bad, fmt.Sprintf("channel %q lists %q but that session does not list the channel", lc, n))
			}
		}
	}
	return bad
}
