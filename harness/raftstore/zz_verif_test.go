//go:build verif

package raftstore

// Correspondence harness for C09 (and the raft-log part of C18), injected with `go test -overlay`.

import (
	"bufio"
	"encoding/hex"
	"encoding/json"
	"fmt"
	"io"
	"log"
	"os"
	"path/filepath"
	"strconv"
	"strings"
	"syscall"
	"testing"
	"time"

	"github.com/golang/protobuf/proto"
	"github.com/hashicorp/raft"
	pb "github.com/robustirc/robustirc/internal/proto"
	"github.com/robustirc/robustirc/internal/raftlog"
	"github.com/robustirc/robustirc/internal/robust"
)

func vhex(b []byte) string {
	if len(b) == 0 {
		return "-"
	}
	return hex.EncodeToString(b)
}

func vunhex(s string) []byte {
	if s == "-" {
		return nil
	}
	b, err := hex.DecodeString(s)
	if err != nil {
		panic("bad hex " + s)
	}
	return b
}

func vu64(s string) uint64 {
	n, err := strconv.ParseUint(s, 10, 64)
	if err != nil {
		panic("bad uint " + s)
	}
	return n
}

func canonRMsg(m robust.Message) string {
	return fmt.Sprintf("%d.%d.%d.%d.%d.%s.%d.%d.%d.%s", m.Id.Id, m.Id.Reply, m.Session.Id, m.Session.Reply, int64(m.Type),
		vhex([]byte(m.Data)), m.UnixNano, m.ClientMessageId, m.Revision, vhex([]byte(m.RemoteAddr)))
}

// dataspec: m:<j|p>:<id.reply.sid.sreply.type.datahex.unixnano.cmid.rev.addrhex>  |  r:<hex>
func parseData(spec string) []byte {
	if strings.HasPrefix(spec, "r:") {
		return vunhex(spec[2:])
	}
	p := strings.SplitN(spec, ":", 3)
	f := strings.Split(p[2], ".")
	un, _ := strconv.ParseInt(f[6], 10, 64)
	m := robust.Message{Id: robust.Id{Id: vu64(f[0]), Reply: vu64(f[1])}, Session: robust.Id{Id: vu64(f[2]), Reply: vu64(f[3])},
		Type: robust.Type(vu64(f[4])), Data: string(vunhex(f[5])), UnixNano: un, ClientMessageId: vu64(f[7]), Revision: vu64(f[8]), RemoteAddr: string(vunhex(f[9]))}
	if p[1] == "p" {
		b, err := proto.Marshal(m.ProtoMessage())
		if err != nil {
			panic(err)
		}
		return append([]byte{'p'}, b...)
	}
	b, err := json.Marshal(&m)
	if err != nil {
		panic(err)
	}
	return b
}

// entry: <index> <term> <type> <dataspec> <exthex> <sec> <nsec>
func parseEntry(f []string) *raft.Log {
	sec, _ := strconv.ParseInt(f[5], 10, 64)
	nsec, _ := strconv.ParseInt(f[6], 10, 64)
	return &raft.Log{Index: vu64(f[0]), Term: vu64(f[1]), Type: raft.LogType(vu64(f[2])), Data: parseData(f[3]), Extensions: vunhex(f[4]),
		AppendedAt: time.Unix(sec, nsec).UTC()}
}

func canonEntry(l *raft.Log) string {
	data := "R(" + vhex(l.Data) + ")"
	if l.Type == raft.LogCommand {
		func() {
			defer func() {
				if r := recover(); r != nil {
					data = "M(panic)"
				}
			}()
			data = "M(" + canonRMsg(robust.NewMessageFromBytes(l.Data, robust.IdFromRaftIndex(l.Index))) + ")"
		}()
	}
	return fmt.Sprintf("%d/%d/%d/%s/%s/%d.%d", l.Index, l.Term, l.Type, data, vhex(l.Extensions), l.AppendedAt.Unix(), l.AppendedAt.Nanosecond())
}

type storeHarness struct {
	dir string
	s   *LevelDBStore
}

func (h *storeHarness) op(f []string) (res string) {
	defer func() {
		if r := recover(); r != nil {
			res = "panic"
		}
	}()
	switch f[0] {
	case "open", "reopen":
		if h.s != nil {
			h.s.Close()
			h.s = nil
		}
		if f[0] == "open" {
			os.RemoveAll(h.dir)
		}
		s, err := NewLevelDBStore(h.dir, false, f[1] == "1")
		if err != nil {
			return "error"
		}
		h.s = s
		return "ok"
	case "store":
		n := int(vu64(f[1]))
		var logs []*raft.Log
		for i := 0; i < n; i++ {
			logs = append(logs, parseEntry(f[2+7*i:]))
		}
		if err := h.s.StoreLogs(logs); err != nil {
			return "error"
		}
		return "ok"
	case "storeproto":
		l := parseEntry(f[1:])
		p := &pb.RaftLog{Index: l.Index, Term: l.Term, Type: pb.RaftLog_LogType(l.Type), Data: l.Data, Extensions: l.Extensions}
		p.AppendedAt = tsNew(l.AppendedAt)
		if err := h.s.StoreLogProto(p); err != nil {
			return "error"
		}
		return "ok"
	case "getlog":
		var l raft.Log
		err := h.s.GetLog(vu64(f[1]), &l)
		if err == raft.ErrLogNotFound {
			return "notfound"
		}
		if err != nil {
			return "error"
		}
		// every other reader of the stored bytes must agree (C18): raftlog.FromBytes
		key := make([]byte, 8)
		for i := 0; i < 8; i++ {
			key[i] = byte(vu64(f[1]) >> (56 - 8*uint(i)))
		}
		raw, _ := h.s.db.Get(key, nil)
		l2, err2 := raftlog.FromBytes(raw)
		agree := "1"
		if err2 != nil || canonEntry(l2) != canonEntry(&l) {
			agree = "0"
		}
		return "ok " + canonEntry(&l) + " readers-agree=" + agree
	case "first":
		n, err := h.s.FirstIndex()
		if err != nil {
			return "error"
		}
		return strconv.FormatUint(n, 10)
	case "last":
		n, err := h.s.LastIndex()
		if err != nil {
			return "error"
		}
		return strconv.FormatUint(n, 10)
	case "delrange":
		if err := h.s.DeleteRange(vu64(f[1]), vu64(f[2])); err != nil {
			return "error"
		}
		return "ok"
	case "set":
		if err := h.s.Set(vunhex(f[1]), vunhex(f[2])); err != nil {
			return "error"
		}
		return "ok"
	case "get":
		v, err := h.s.Get(vunhex(f[1]))
		if err != nil {
			return "error"
		}
		if v == nil {
			return "nil"
		}
		return "v:" + vhex(v)
	case "setu":
		if err := h.s.SetUint64(vunhex(f[1]), vu64(f[2])); err != nil {
			return "error"
		}
		return "ok"
	case "getu":
		n, err := h.s.GetUint64(vunhex(f[1]))
		if err != nil {
			return "error"
		}
		return strconv.FormatUint(n, 10)
	case "convert":
		if err := h.s.ConvertToProto(); err != nil {
			return "error"
		}
		return "ok"
	case "fmt":
		key := make([]byte, 8)
		for i := 0; i < 8; i++ {
			key[i] = byte(vu64(f[1]) >> (56 - 8*uint(i)))
		}
		raw, err := h.s.db.Get(key, nil)
		if err != nil {
			return "none"
		}
		vf := "json"
		if len(raw) > 0 && raw[0] == 'p' {
			vf = "proto"
		}
		l, err := raftlog.FromBytes(raw)
		if err != nil {
			return vf + "/error"
		}
		df := "json"
		if len(l.Data) > 0 && l.Data[0] == 'p' {
			df = "proto"
		}
		if l.Type != raft.LogCommand {
			df = "raw"
		}
		return vf + "/" + df
	case "bulk": // bulk <start> <limit>: the keys GetBulkIterator(start, limit) visits, in order
		it := h.s.GetBulkIterator(vu64(f[1]), vu64(f[2]))
		defer it.Release()
		var ks []string
		for it.Next() {
			ks = append(ks, vhex(it.Key()))
		}
		return strings.Join(ks, " ")
	case "keys":
		it := h.s.db.NewIterator(nil, nil)
		defer it.Release()
		var ks []string
		for it.Next() {
			ks = append(ks, vhex(it.Key()))
		}
		return strings.Join(ks, " ")
	case "kill":
		syscall.Kill(os.Getpid(), syscall.SIGKILL)
		select {}
	}
	return "bad-op"
}

func TestVerifHarness(t *testing.T) {
	in, err := os.Open(os.Getenv("VERIF_OPS"))
	if err != nil {
		t.Skip("VERIF_OPS not set")
	}
	defer in.Close()
	outf, err := os.OpenFile(os.Getenv("VERIF_OUT"), os.O_CREATE|os.O_WRONLY|os.O_APPEND, 0o644)
	if err != nil {
		t.Fatal(err)
	}
	defer outf.Close()
	log.SetOutput(io.Discard)
	h := &storeHarness{dir: filepath.Join(os.Getenv("VERIF_TMP"), "store")}
	sc := bufio.NewScanner(in)
	sc.Buffer(make([]byte, 1<<20), 1<<28)
	for sc.Scan() {
		f := strings.Fields(sc.Text())
		if len(f) == 0 {
			fmt.Fprintln(outf, "bad-op")
			continue
		}
		if f[0] == "kill" {
			fmt.Fprintln(outf, "ok") // the line is on disk (O_APPEND write) before the process dies
		}
		res := h.op(f)
		fmt.Fprintln(outf, res)
	}
	if h.s != nil {
		h.s.Close()
	}
}
