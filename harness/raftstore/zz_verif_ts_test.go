//go:build verif

package raftstore

import (
	"time"

	"google.golang.org/protobuf/types/known/timestamppb"
)

func tsNew(t time.Time) *timestamppb.Timestamp { return timestamppb.New(t) }
