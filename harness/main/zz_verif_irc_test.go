//go:build verif

package main

// Correspondence harness for the IRC layer (C01 C03 C06 C12–C17): feeds entries through the
// real FSM.applyRobustMessage into a real IRCServer + OutputStream and prints the output batch
// of every entry, and (on request) the canonical state dump / consistency walk.

import (
	"bufio"
	"encoding/hex"
	"fmt"
	"io"
	"log"
	"os"
	"sort"
	"strconv"
	"strings"
	"testing"
	"time"

	"github.com/robustirc/robustirc/internal/ircserver"
	"github.com/robustirc/robustirc/internal/outputstream"
	"github.com/robustirc/robustirc/internal/robust"
)

func ihex(b []byte) string {
	if len(b) == 0 {
		return "-"
	}
	return hex.EncodeToString(b)
}

func iunhex(s string) string {
	if s == "-" {
		return ""
	}
	b, err := hex.DecodeString(s)
	if err != nil {
		panic("bad hex " + s)
	}
	return string(b)
}

func iu64(s string) uint64 {
	n, err := strconv.ParseUint(s, 10, 64)
	if err != nil {
		panic("bad uint " + s)
	}
	return n
}

const verifNetwork = "robustirc.net"

type ircHarness struct {
	t   *testing.T
	tmp string
	i   *ircserver.IRCServer
	o   *outputstream.OutputStream
	fsm *FSM
}

func (h *ircHarness) reset() {
	if h.o != nil {
		h.o.Close()
	}
	h.i = ircserver.NewIRCServer(verifNetwork, time.Unix(0, 1420228218166687917))
	o, err := outputstream.NewOutputStream(h.tmp)
	if err != nil {
		h.t.Fatal(err)
	}
	h.o = o
	h.fsm = &FSM{lastSnapshotState: make(map[uint64][]byte)}
}

// liveOnly (C03): when set, recipients that are not stored sessions are dropped from the canonical
// output — the property speaks about what live sessions receive
var liveOnly func(uint64) bool

func canonOut(msgs []outputstream.Message) string {
	var parts []string
	for _, m := range msgs {
		var rc []uint64
		for k, v := range m.InterestingFor {
			if v && (liveOnly == nil || liveOnly(k)) {
				rc = append(rc, k)
			}
		}
		sort.Slice(rc, func(a, b int) bool { return rc[a] < rc[b] })
		var rs []string
		for _, r := range rc {
			rs = append(rs, strconv.FormatUint(r, 10))
		}
		data := m.Data
		if strings.HasPrefix(data, ":"+verifNetwork+" 003 ") {
			data = ":" + verifNetwork + " 003 *"
		}
		parts = append(parts, fmt.Sprintf("%d.%d %s %s", m.Id.Id, m.Id.Reply, ihex([]byte(data)), strings.Join(rs, ",")))
	}
	return fmt.Sprintf("out %d | %s", len(msgs), strings.Join(parts, " | "))
}

// E <type> <id> <sid> <sreply> <unixnano> <cmid> <rev> <addrhex> <datahex> [cfg=…]
func (h *ircHarness) entry(f []string) (res string) {
	un, _ := strconv.ParseInt(f[5], 10, 64)
	msg := robust.Message{
		Id:              robust.Id{Id: iu64(f[2])},
		Session:         robust.Id{Id: iu64(f[3]), Reply: iu64(f[4])},
		Type:            robust.Type(iu64(f[1])),
		UnixNano:        un,
		ClientMessageId: iu64(f[6]),
		Revision:        iu64(f[7]),
		RemoteAddr:      iunhex(f[8]),
		Data:            iunhex(f[9]),
	}
	defer func() {
		if r := recover(); r != nil {
			res = "panic"
		}
	}()
	h.fsm.applyRobustMessage(&msg, h.i, h.o)
	msgs, ok := h.o.Get(robust.Id{Id: msg.Id.Id})
	if !ok {
		return "out 0 | "
	}
	return canonOut(msgs)
}

func TestVerifIrc(t *testing.T) {
	in, err := os.Open(os.Getenv("VERIF_OPS"))
	if err != nil {
		t.Skip("VERIF_OPS not set")
	}
	defer in.Close()
	outf, err := os.Create(os.Getenv("VERIF_OUT"))
	if err != nil {
		t.Fatal(err)
	}
	defer outf.Close()
	out := bufio.NewWriterSize(outf, 1<<20)
	defer out.Flush()
	log.SetOutput(io.Discard)
	h := &ircHarness{t: t, tmp: os.Getenv("VERIF_TMP")}
	h.reset()
	if os.Getenv("VERIF_LIVE_RCPT") == "1" {
		liveOnly = func(id uint64) bool {
			_, err := h.i.GetSession(robust.Id{Id: id})
			return err == nil
		}
	}
	defer h.o.Close()
	sc := bufio.NewScanner(in)
	sc.Buffer(make([]byte, 1<<20), 1<<28)
	for sc.Scan() {
		f := strings.Fields(sc.Text())
		if len(f) == 0 {
			fmt.Fprintln(out, "bad-op")
			continue
		}
		switch f[0] {
		case "R":
			h.reset()
			fmt.Fprintln(out, "ok")
		case "E":
			fmt.Fprintln(out, h.entry(f))
		case "M": // Marshal -> Unmarshal into a fresh instance, continue on the restored one
			b, err := h.i.Marshal(0)
			if err != nil {
				fmt.Fprintln(out, "error "+err.Error())
				break
			}
			n := ircserver.NewIRCServer(verifNetwork, time.Unix(0, 1420228218166687917))
			if _, err := n.Unmarshal(b); err != nil {
				fmt.Fprintln(out, "error "+err.Error())
				break
			}
			h.i = n
			fmt.Fprintln(out, "ok")
		case "G": // G <id> <reply>: session lookup as the API does it
			_, err := h.i.GetSession(robust.Id{Id: iu64(f[1]), Reply: iu64(f[2])})
			switch err {
			case nil:
				fmt.Fprintln(out, "found")
			case ircserver.ErrNoSuchSession:
				fmt.Fprintln(out, "nosuch")
			case ircserver.ErrSessionNotYetSeen:
				fmt.Fprintln(out, "notyet")
			default:
				fmt.Fprintln(out, "error")
			}
		case "D":
			fmt.Fprintln(out, ircserver.VerifDump(h.i))
		case "W":
			bad := ircserver.VerifWalk(h.i)
			sort.Strings(bad)
			if len(bad) == 0 {
				fmt.Fprintln(out, "walk ok")
			} else {
				fmt.Fprintln(out, "walk bad "+strings.Join(bad, "; "))
			}
		default:
			fmt.Fprintln(out, "bad-op")
		}
	}
}
