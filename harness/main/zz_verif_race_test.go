//go:build verif

package main

// Stress harness for C20: the operations which the running system executes concurrently, on the
// real api.HTTP handlers over an in-process raft node, meant to be built with -race.
//
//   HTTP handlers (POST message incl. two concurrent POSTs of one session, long-polling GET,
//   create/delete session, status pages, GET/POST config)          -- net/http goroutines
//   FSM.Apply / FSM.Restore                                         -- raft's FSM goroutine
//   FSM.Snapshot + Persist (compaction, deletes from the output stream) -- raft's snapshot goroutine
//   the expiry sweep (IRCServer.ExpireSessions)                     -- main loop
//
// The race detector's reports go to $VERIF_RACE_LOG.* (GORACE=log_path); the check parses them.

import (
	"bytes"
	"encoding/json"
	"fmt"
	"io"
	"log"
	"math/rand"
	"net/http"
	"os"
	"path/filepath"
	"strconv"
	"strings"
	"sync"
	"sync/atomic"
	"testing"
	"time"

	"github.com/hashicorp/raft"
)

type raceSession struct {
	id, auth string
	cmid     uint64
	lastseen atomic.Value
}

func TestVerifRace(t *testing.T) {
	if os.Getenv("VERIF_TMP") == "" {
		t.Skip("VERIF_TMP not set")
	}
	secs, _ := strconv.ParseFloat(os.Getenv("VERIF_RACE_SECONDS"), 64)
	if secs == 0 {
		secs = 4
	}
	seed, _ := strconv.ParseInt(os.Getenv("VERIF_SEED"), 10, 64)
	log.SetOutput(io.Discard)
	h := &apiHarness{t: t, dir: filepath.Join(os.Getenv("VERIF_TMP"), "node"), sessions: map[string]*apiSession{}}
	if r := h.start(true); r != "ok" {
		t.Fatalf("start: %s", r)
	}
	defer h.stop()
	*canaryCompactionStart = 0
	cfg := "PostMessageCooloff = \"8ms\"\nSessionExpiration = \"2s\"\n[IRC]\n[[IRC.Operators]]\nName = \"op\"\nPassword = \"secret\"\n"
	if code, _, _ := h.do("POST", "/config", []byte(cfg), map[string]string{"X-RobustIRC-Config-Revision": "0"}, verifPassword, 0); code != 200 {
		t.Fatalf("postconfig: %d", code)
	}
	var mu sync.Mutex // guards sessions (harness state only)
	var sessions []*raceSession
	create := func() *raceSession {
		code, body, _ := h.do("POST", "/robustirc/v1/session", nil, nil, "", 0)
		if code != 200 {
			return nil
		}
		var r struct{ Sessionid, Sessionauth string }
		if json.Unmarshal(body, &r) != nil {
			return nil
		}
		s := &raceSession{id: r.Sessionid, auth: r.Sessionauth}
		s.lastseen.Store("0.0")
		mu.Lock()
		sessions = append(sessions, s)
		mu.Unlock()
		return s
	}
	post := func(s *raceSession, text string) int {
		id := atomic.AddUint64(&s.cmid, 1)
		b, _ := json.Marshal(map[string]interface{}{"Data": text, "ClientMessageId": id})
		code, _, _ := h.do("POST", "/robustirc/v1/"+s.id+"/message", b, map[string]string{"X-Session-Auth": s.auth}, "", 0)
		return code
	}
	pick := func(r *rand.Rand) *raceSession {
		mu.Lock()
		defer mu.Unlock()
		if len(sessions) == 0 {
			return nil
		}
		return sessions[r.Intn(len(sessions))]
	}
	for i := 0; i < 6; i++ {
		s := create()
		if s == nil {
			t.Fatal("create failed")
		}
		post(s, fmt.Sprintf("NICK n%d", i))
		post(s, "USER u 0 * :real")
		post(s, "JOIN #c")
	}

	withRestoreEarly := os.Getenv("VERIF_RACE_RESTORE") == "1"
	stop := make(chan struct{})
	var wg sync.WaitGroup
	var nops int64
	worker := func(name string, n int, f func(r *rand.Rand)) {
		for k := 0; k < n; k++ {
			wg.Add(1)
			r := rand.New(rand.NewSource(seed*1000 + int64(len(name))*37 + int64(k)))
			go func() {
				defer wg.Done()
				for {
					select {
					case <-stop:
						return
					default:
					}
					f(r)
					atomic.AddInt64(&nops, 1)
				}
			}()
		}
	}
	// restoreGate: the expiry sweep of the real main loop only runs on the leader, and a node which
	// restores (InstallSnapshot) is a follower; the user-triggered Restore below runs on the leader,
	// so keep the sweep's read of the global `ircServer` apart from it (harness-level only).
	var restoreGate sync.RWMutex
	lines := []string{"PRIVMSG #c :hello", "JOIN #d", "PART #d", "TOPIC #c :t", "MODE #c +t", "NAMES #c", "WHO #c", "WHOIS n1", "LIST", "NICK x%d", "AWAY :gone", "AWAY", "PING x",
		"PRIVMSG n2 :private", "MODE #c", "INVITE n3 #d", "KICK #c n5 :out", "JOIN #c", "OPER op secret", "USERHOST n1", "ISON n1 n2", "MOTD"}
	worker("post", 6, func(r *rand.Rand) {
		if s := pick(r); s != nil {
			l := lines[r.Intn(len(lines))]
			if strings.Contains(l, "%d") {
				l = fmt.Sprintf(l, r.Intn(50))
			}
			post(s, l)
		}
	})
	worker("get", 4, func(r *rand.Rand) {
		if s := pick(r); s != nil {
			ls := s.lastseen.Load().(string)
			// a long-polling reader on a node that restores would crash the process (the old stream's
			// LevelDB is closed under it: "leveldb: closed" -> log.Panicf); not a data race, see DESIGN.md
			restoreGate.RLock()
			defer restoreGate.RUnlock()
			_, body, _ := h.doStream("/robustirc/v1/"+s.id+"/messages?lastseen="+ls, map[string]string{"X-Session-Auth": s.auth}, time.Duration(20+r.Intn(80))*time.Millisecond)
			dec := json.NewDecoder(bytes.NewReader(body))
			for {
				var m struct {
					Id struct{ Id, Reply uint64 }
				}
				if dec.Decode(&m) != nil {
					break
				}
				if m.Id.Id != 0 {
					s.lastseen.Store(fmt.Sprintf("%d.%d", m.Id.Id, m.Id.Reply))
				}
			}
		}
	})
	worker("session", 1, func(r *rand.Rand) {
		if r.Intn(3) > 0 {
			if s := create(); s != nil {
				post(s, fmt.Sprintf("NICK m%d", r.Intn(1000)))
				post(s, "USER u 0 * :real")
				post(s, "JOIN #c")
			}
		} else {
			mu.Lock()
			var s *raceSession
			if len(sessions) > 4 {
				i := r.Intn(len(sessions))
				s = sessions[i]
				sessions = append(sessions[:i], sessions[i+1:]...)
			}
			mu.Unlock()
			if s != nil {
				b, _ := json.Marshal(map[string]string{"Quitmessage": "bye"})
				h.do("DELETE", "/robustirc/v1/"+s.id, b, map[string]string{"X-Session-Auth": s.auth}, "", 0)
			}
		}
		time.Sleep(5 * time.Millisecond)
	})
	pages := []string{"/", "/status", "/status/getmessage", "/status/sessions", "/status/irclog", "/status/state", "/irclog", "/leader", "/config", "/metrics"}
	// a session whose stream was opened before it had a nickname: the status pages look its nickname up
	// (GetMessagesStats.NickWithFallback) while the session keeps changing it
	worker("nickless", 1, func(r *rand.Rand) {
		s := create()
		if s == nil {
			return
		}
		done := make(chan struct{})
		go func() {
			defer close(done)
			restoreGate.RLock()
			defer restoreGate.RUnlock()
			h.doStream("/robustirc/v1/"+s.id+"/messages?lastseen=0.0", map[string]string{"X-Session-Auth": s.auth}, 150*time.Millisecond)
		}()
		time.Sleep(10 * time.Millisecond)
		pages := make(chan struct{})
		go func() {
			defer close(pages)
			for k := 0; k < 8; k++ {
				h.do("GET", "/status/getmessage", nil, nil, verifPassword, 0)
			}
		}()
		for k := 0; k < 8; k++ {
			post(s, fmt.Sprintf("NICK q%d", r.Intn(100000)))
		}
		<-pages
		<-done
	})
	withRestore := withRestoreEarly
	if withRestore {
		// FSM.Restore closes the log copy and the output stream before it publishes their replacements, so a
		// handler that touches them at that moment crashes the process ("leveldb: closed", nil DB): not a data
		// race (see DESIGN.md); the restore phase keeps to handlers that work on the IRC state
		pages = []string{"/", "/status", "/status/sessions", "/status/state", "/leader", "/config", "/metrics"}
	}
	worker("status", 2, func(r *rand.Rand) {
		h.do("GET", pages[r.Intn(len(pages))], nil, nil, verifPassword, 0)
		time.Sleep(2 * time.Millisecond)
	})
	worker("config", 1, func(r *rand.Rand) {
		code, _, hdr := h.do("GET", "/config", nil, nil, verifPassword, 0)
		if code == 200 {
			h.do("POST", "/config", []byte(cfg+fmt.Sprintf("MaxChannels = %d\n", 100+r.Intn(5))), map[string]string{"X-RobustIRC-Config-Revision": hdr.Get("X-RobustIRC-Config-Revision")}, verifPassword, 0)
		}
		time.Sleep(30 * time.Millisecond)
	})
	// an IRC operator bans addresses (GLINE writes the replicated configuration while GET /config reads it)
	var operSess *raceSession
	worker("gline", 1, func(r *rand.Rand) {
		if operSess == nil {
			if s := create(); s != nil {
				mu.Lock() // keep the operator out of the pool the other workers (and KILL/delete) pick from
				for i, x := range sessions {
					if x == s {
						sessions = append(sessions[:i], sessions[i+1:]...)
						break
					}
				}
				mu.Unlock()
				post(s, fmt.Sprintf("NICK oper%d", r.Intn(100000)))
				post(s, "USER u 0 * :real")
				post(s, "OPER op secret")
				operSess = s
			}
			return
		}
		if code := post(operSess, fmt.Sprintf("GLINE %s%d :spam %d", []string{"n", "m", "x"}[r.Intn(3)], r.Intn(60), r.Intn(1000))); code == 404 {
			operSess = nil
		}
		time.Sleep(15 * time.Millisecond)
	})
	worker("expire", 1, func(r *rand.Rand) {
		restoreGate.RLock()
		msgs := ircServer.ExpireSessions()
		restoreGate.RUnlock()
		for _, m := range msgs {
			h.api.ApplyMessageWait(m, 2*time.Second)
		}
		time.Sleep(10 * time.Millisecond)
	})
	worker("snapshot", 1, func(r *rand.Rand) {
		time.Sleep(time.Duration(100+r.Intn(200)) * time.Millisecond)
		// Persist (raft's snapshot goroutine) iterates over the log copy which a concurrent Restore closes:
		// nil dereference in GetBulkIterator, the process dies (see DESIGN.md); kept apart here
		restoreGate.RLock()
		h.raft.Snapshot().Error()
		restoreGate.RUnlock()
	})
	if withRestore {
		worker("restore", 1, func(r *rand.Rand) {
			time.Sleep(time.Duration(400+r.Intn(400)) * time.Millisecond)
			fss, err := raft.NewFileSnapshotStore(h.dir, 5, io.Discard)
			if err != nil {
				return
			}
			snaps, err := fss.List()
			if err != nil || len(snaps) == 0 {
				return
			}
			meta, rc, err := fss.Open(snaps[0].ID)
			if err != nil {
				return
			}
			restoreGate.Lock()
			time.Sleep(150 * time.Millisecond) // let the server side of hung-up streams leave GetNext
			h.raft.Restore(meta, rc, 5*time.Second)
			restoreGate.Unlock()
			rc.Close()
		})
	}
	time.Sleep(time.Duration(secs * float64(time.Second)))
	close(stop)
	h.srv.CloseClientConnections()
	wg.Wait()
	if out := os.Getenv("VERIF_OUT"); out != "" {
		os.WriteFile(out, []byte(fmt.Sprintf("ops=%d\n", atomic.LoadInt64(&nops))), 0o644)
	}
}

// doStream reads a streaming response for d, then hangs up on this connection only.
func (h *apiHarness) doStream(path string, hdr map[string]string, d time.Duration) (int, []byte, http.Header) {
	req, _ := http.NewRequest("GET", h.srv.URL+path, nil)
	for k, v := range hdr {
		req.Header[k] = []string{v}
	}
	client := &http.Client{Transport: &http.Transport{DisableKeepAlives: true}, Timeout: d}
	resp, err := client.Do(req)
	if err != nil {
		return -1, nil, nil
	}
	defer resp.Body.Close()
	b, _ := io.ReadAll(resp.Body) // ends with the client timeout
	return resp.StatusCode, b, resp.Header
}
