//go:build verif

package main

// Correspondence harness for C02/C07: the real FSM (Apply / Snapshot / Persist / Restore) on real
// LevelDB stores and a real raft FileSnapshotStore, driven op by op; after every op it prints
// the bookkeeping (irclog indices, output ids present, lastSnapshotState keys) and whether the
// IRC state equals the state of a plain replay of every committed command entry.

import (
	"bufio"
	"encoding/json"
	"errors"
	"fmt"
	"io"
	"log"
	"os"
	"path/filepath"
	"sort"
	"strconv"
	"strings"
	"testing"
	"time"

	"github.com/hashicorp/raft"
	"github.com/robustirc/rafthttp"
	"github.com/robustirc/robustirc/internal/ircserver"
	"github.com/robustirc/robustirc/internal/outputstream"
	"github.com/robustirc/robustirc/internal/raftstore"
	"github.com/robustirc/robustirc/internal/robust"
)

type fsmHarness struct {
	t        *testing.T
	dir      string
	logstore *raftstore.LevelDBStore
	fsm      *FSM
	fss      raft.SnapshotStore
	pending  raft.FSMSnapshot
	plast    uint64
	all      []*raft.Log // every committed entry, in order (the harness' copy of raft's log)
	lastSess uint64
}

type failingSink struct {
	raft.SnapshotSink
	budget int
}

func (f *failingSink) Write(p []byte) (int, error) {
	if f.budget < len(p) {
		return 0, errors.New("injected sink failure")
	}
	f.budget -= len(p)
	return f.SnapshotSink.Write(p)
}

func (h *fsmHarness) open(fresh bool) {
	var err error
	if fresh {
		os.RemoveAll(h.dir)
		os.MkdirAll(h.dir, 0o755)
	}
	*raftDir = h.dir
	*network = "robustirc.net"
	h.logstore, err = raftstore.NewLevelDBStore(filepath.Join(h.dir, "raftlog"), false, *useProtobuf)
	if err != nil {
		h.t.Fatal(err)
	}
	ircStore, err = raftstore.NewLevelDBStore(filepath.Join(h.dir, "irclog"), false, *useProtobuf)
	if err != nil {
		h.t.Fatal(err)
	}
	ircServer = ircserver.NewIRCServer(*network, time.Unix(0, 1420228218166687917))
	outputstream.DeleteOldDatabases(h.dir)
	outputStream, err = outputstream.NewOutputStream(h.dir)
	if err != nil {
		h.t.Fatal(err)
	}
	h.fsm = &FSM{
		store:             h.logstore,
		ircstore:          ircStore,
		lastSnapshotState: make(map[uint64][]byte),
		ReplaceState:      func(*ircserver.IRCServer, *raftstore.LevelDBStore, *outputstream.OutputStream) {},
	}
	h.fss, err = raft.NewFileSnapshotStore(h.dir, 5, io.Discard)
	if err != nil {
		h.t.Fatal(err)
	}
	h.pending = nil
}

func (h *fsmHarness) closeStores() {
	h.logstore.Close()
	h.fsm.ircstore.Close()
	outputStream.Close()
}

// commit <idx> <ts> <kind>
func (h *fsmHarness) commit(f []string) string {
	idx := iu64(f[1])
	ts, _ := strconv.ParseInt(f[2], 10, 64)
	kind := f[3]
	l := &raft.Log{Index: idx, Term: 1, Type: raft.LogCommand}
	msg := robust.Message{Id: robust.Id{Id: idx}, UnixNano: ts}
	switch {
	case kind == "r":
		l.Type = raft.LogNoop
	case kind == "c":
		msg.Type, msg.Data = robust.CreateSession, "auth"
		h.lastSess = idx
	case kind == "n":
		msg.Type, msg.Session, msg.Data, msg.ClientMessageId = robust.IRCFromClient, robust.Id{Id: h.lastSess}, fmt.Sprintf("NICK u%d", idx), idx
	case kind == "u":
		msg.Type, msg.Session, msg.Data, msg.ClientMessageId = robust.IRCFromClient, robust.Id{Id: h.lastSess}, "USER u 0 * :real", idx
	case kind == "j":
		msg.Type, msg.Session, msg.Data, msg.ClientMessageId = robust.IRCFromClient, robust.Id{Id: h.lastSess}, "JOIN #c", idx
	case kind == "p":
		msg.Type, msg.Session, msg.Data, msg.ClientMessageId = robust.IRCFromClient, robust.Id{Id: h.lastSess}, fmt.Sprintf("PRIVMSG #c :m%d", idx), idx
	case kind == "P":
		// the test-only PANIC command (ROBUSTIRC_TESTING_ENABLE_PANIC_COMMAND=1): applying it panics
		msg.Type, msg.Session, msg.Data, msg.ClientMessageId = robust.IRCFromClient, robust.Id{Id: h.lastSess}, "PANIC", idx
	case kind == "g":
		// a keepalive: changes LastActivity, produces a PONG for the sender
		msg.Type, msg.Session, msg.Data, msg.ClientMessageId = robust.IRCFromClient, robust.Id{Id: h.lastSess}, fmt.Sprintf("PING k%d", idx), idx
	case kind == "d":
		// an entry already rewritten as message of death: only the session's duplicate-detection marker moves
		msg.Type, msg.Session, msg.Data, msg.ClientMessageId = robust.MessageOfDeath, robust.Id{Id: h.lastSess}, "PANIC", idx
	case strings.HasPrefix(kind, "x"):
		msg.Type, msg.Revision = robust.Config, idx
		msg.Data = fmt.Sprintf("SessionExpiration = \"%ss\"\n", kind[1:])
	}
	if l.Type == raft.LogCommand {
		b, _ := json.Marshal(&msg)
		l.Data = b
	}
	if err := h.logstore.StoreLogs([]*raft.Log{l}); err != nil {
		return "error " + err.Error()
	}
	h.all = append(h.all, l)
	h.fsm.Apply(l)
	if _, ok := outputStream.Get(robust.Id{Id: idx}); ok {
		return "ok 1"
	}
	return "ok 0"
}

// replayAfter applies every committed entry after index idx (what raft does after installing or
// restoring a snapshot: the log continues from there)
func (h *fsmHarness) replayAfter(idx uint64, all bool) {
	first, _ := h.logstore.FirstIndex()
	last, _ := h.logstore.LastIndex()
	for i := first; first > 0 && i <= last; i++ {
		if !all && i <= idx {
			continue
		}
		var l raft.Log
		if err := h.logstore.GetLog(i, &l); err != nil {
			continue
		}
		h.fsm.Apply(&l)
	}
}

func (h *fsmHarness) restoreLatest() (uint64, bool, error) {
	snaps, err := h.fss.List()
	if err != nil || len(snaps) == 0 {
		return 0, false, err
	}
	_, rc, err := h.fss.Open(snaps[0].ID)
	if err != nil {
		return 0, false, err
	}
	if err := h.fsm.Restore(rc); err != nil {
		return 0, false, err
	}
	return snaps[0].Index, true, nil
}

func (h *fsmHarness) status() string {
	var irc []string
	first, _ := h.fsm.ircstore.FirstIndex()
	last, _ := h.fsm.ircstore.LastIndex()
	if first > 0 {
		for i := first; i <= last; i++ {
			var l raft.Log
			if err := h.fsm.ircstore.GetLog(i, &l); err == nil {
				irc = append(irc, strconv.FormatUint(i, 10))
			}
		}
	}
	var out []string
	for _, l := range h.all {
		if _, ok := outputStream.Get(robust.Id{Id: l.Index}); ok {
			out = append(out, strconv.FormatUint(l.Index, 10))
		}
	}
	var keys []uint64
	for k := range h.fsm.lastSnapshotState {
		keys = append(keys, k)
	}
	sort.Slice(keys, func(a, b int) bool { return keys[a] < keys[b] })
	var ks []string
	for _, k := range keys {
		ks = append(ks, strconv.FormatUint(k, 10))
	}
	// plain replay of everything committed, on a fresh server
	ref := ircserver.NewIRCServer(*network, time.Unix(0, 1420228218166687917))
	rfsm := &FSM{lastSnapshotState: make(map[uint64][]byte)}
	for _, l := range h.all {
		if l.Type != raft.LogCommand {
			continue
		}
		m := robust.NewMessageFromBytes(l.Data, robust.IdFromRaftIndex(l.Index))
		rfsm.applyRobustMessage(&m, ref, nil)
	}
	same := "1"
	if ircserver.VerifDump(ref) != ircserver.VerifDump(ircServer) {
		same = "0"
	}
	return fmt.Sprintf("irc=%s out=%s lss=%s same=%s", strings.Join(irc, ","), strings.Join(out, ","), strings.Join(ks, ","), same)
}

func (h *fsmHarness) op(f []string) (res string) {
	defer func() {
		if r := recover(); r != nil {
			res = fmt.Sprintf("panic %v", r)
		}
	}()
	switch f[0] {
	case "reset":
		if h.fsm != nil {
			h.closeStores()
		}
		h.all = nil
		h.open(true)
		return "ok"
	case "commit":
		return h.commit(f)
	case "snapshot":
		now, _ := strconv.ParseInt(f[1], 10, 64)
		*canaryCompactionStart = now
		s, err := h.fsm.Snapshot()
		if err != nil {
			return "error"
		}
		h.pending = s
		rs := s.(*robustSnapshot)
		h.plast = rs.lastIndex
		return fmt.Sprintf("ok %d %d", rs.firstIndex, rs.lastIndex)
	case "persist", "persistfail":
		if h.pending == nil {
			return "nopending"
		}
		time.Sleep(2 * time.Millisecond) // snapshot names carry a millisecond timestamp
		sink, err := h.fss.Create(1, h.plast, 1, raft.Configuration{}, 0, &rafthttp.HTTPTransport{})
		if err != nil {
			return "error " + err.Error()
		}
		if f[0] == "persistfail" {
			err := h.pending.Persist(&failingSink{SnapshotSink: sink, budget: 20})
			sink.Cancel()
			h.pending = nil
			if err == nil {
				return "unexpected-success"
			}
			return "failed"
		}
		if err := h.pending.Persist(sink); err != nil {
			sink.Cancel()
			h.pending = nil
			return "error " + err.Error()
		}
		sink.Close()
		h.pending = nil
		return "ok"
	case "restore":
		idx, ok, err := h.restoreLatest()
		if err != nil {
			return "error " + err.Error()
		}
		if !ok {
			return "nosnapshot"
		}
		h.replayAfter(idx, false)
		h.pending = nil // the pending snapshot refers to the irclog store which Restore just closed
		return "ok"
	case "restart":
		h.closeStores()
		h.open(false)
		idx, ok, err := h.restoreLatest()
		if err != nil {
			return "error " + err.Error()
		}
		h.replayAfter(idx, !ok)
		return "ok"
	case "resume":
		// a new process after a crash: reopen the stores, rebuild the harness' copy of the durable log,
		// then do what raft does at start-up (restore the newest snapshot, replay the log after it)
		h.all = nil
		h.open(false)
		first, _ := h.logstore.FirstIndex()
		last, _ := h.logstore.LastIndex()
		for i := first; first > 0 && i <= last; i++ {
			l := new(raft.Log)
			if err := h.logstore.GetLog(i, l); err != nil {
				continue
			}
			h.all = append(h.all, l)
			if l.Type == raft.LogCommand {
				m := robust.NewMessageFromBytes(l.Data, robust.IdFromRaftIndex(l.Index))
				if m.Type == robust.CreateSession {
					h.lastSess = l.Index
				}
			}
		}
		idx, ok, err := h.restoreLatest()
		if err != nil {
			return "error " + err.Error()
		}
		h.replayAfter(idx, !ok)
		return "ok"
	case "types":
		var parts []string
		for _, l := range h.all {
			var cur raft.Log
			if err := h.logstore.GetLog(l.Index, &cur); err != nil {
				parts = append(parts, fmt.Sprintf("%d:missing", l.Index))
				continue
			}
			if cur.Type != raft.LogCommand {
				parts = append(parts, fmt.Sprintf("%d:raft", l.Index))
				continue
			}
			m := robust.NewMessageFromBytes(cur.Data, robust.IdFromRaftIndex(cur.Index))
			parts = append(parts, fmt.Sprintf("%d:%d:%d:%s", l.Index, int64(m.Type), m.ClientMessageId, ihex([]byte(m.Data))))
		}
		return strings.Join(parts, " ")
	case "marker":
		return strconv.FormatUint(ircServer.LastPostMessage(robust.Id{Id: iu64(f[1])}), 10)
	case "dump":
		return ircserver.VerifDump(ircServer)
	case "status":
		return h.status()
	}
	return "bad-op"
}

func TestVerifFsm(t *testing.T) {
	in, err := os.Open(os.Getenv("VERIF_OPS"))
	if err != nil {
		t.Skip("VERIF_OPS not set")
	}
	defer in.Close()
	outf, err := os.OpenFile(os.Getenv("VERIF_OUT"), os.O_CREATE|os.O_WRONLY|os.O_APPEND, 0o644)
	if err != nil {
		t.Fatal(err)
	}
	defer outf.Close()
	out := bufio.NewWriterSize(outf, 1<<20)
	defer out.Flush()
	if os.Getenv("VERIF_JSON") == "1" {
		*useProtobuf = false // -pre1.0_protobuf=false: JSON-encoded raft log, irclog and snapshots
	}
	log.SetOutput(io.Discard)
	h := &fsmHarness{t: t, dir: filepath.Join(os.Getenv("VERIF_TMP"), "fsm")}
	sc := bufio.NewScanner(in)
	sc.Buffer(make([]byte, 1<<20), 1<<28)
	for sc.Scan() {
		f := strings.Fields(sc.Text())
		if len(f) == 0 {
			fmt.Fprintln(out, "bad-op")
			continue
		}
		if f[0] == "commit" && len(f) > 3 && f[3] == "P" {
			out.Flush() // the process is about to die
		}
		fmt.Fprintln(out, h.op(f))
		out.Flush()
	}
	if h.fsm != nil {
		h.closeStores()
	}
}
