//go:build verif

package main

// Harness for C05 C10 C11 C16 C17: a real single-node raft (in-memory transport, real LevelDB
// log/stable store, real file snapshot store, real FSM) behind the real api.HTTP handlers,
// driven over HTTP (httptest).  One op per line, one result line per op.

import (
	"bufio"
	"bytes"
	"context"
	"encoding/json"
	"fmt"
	"io"
	"log"
	"net/http"
	"net/http/httptest"
	"os"
	"path/filepath"
	"strconv"
	"strings"
	"sync"
	"syscall"
	"testing"
	"time"

	"github.com/hashicorp/raft"
	"github.com/robustirc/robustirc/internal/api"
	"github.com/robustirc/robustirc/internal/ircserver"
	"github.com/robustirc/robustirc/internal/outputstream"
	"github.com/robustirc/robustirc/internal/raftstore"
	"github.com/robustirc/robustirc/internal/robust"
)

const verifPassword = "netpw"

type apiSession struct {
	id   string
	auth string
}

// stallStore delays the next write to the raft log (a slow disk): the entry commits late
type stallStore struct {
	*raftstore.LevelDBStore
	mu   sync.Mutex
	next time.Duration
}

func (s *stallStore) StoreLogs(logs []*raft.Log) error {
	s.mu.Lock()
	d := s.next
	s.next = 0
	s.mu.Unlock()
	if d > 0 {
		time.Sleep(d)
	}
	return s.LevelDBStore.StoreLogs(logs)
}

func (s *stallStore) StoreLog(l *raft.Log) error { return s.StoreLogs([]*raft.Log{l}) }

type apiHarness struct {
	stall    *stallStore
	t        *testing.T
	dir      string
	logstore *raftstore.LevelDBStore
	fsm      *FSM
	raft     *raft.Raft
	api      *api.HTTP
	srv      *httptest.Server
	sessions map[string]*apiSession
}

func (h *apiHarness) start(fresh bool) string {
	if fresh {
		os.RemoveAll(h.dir)
		h.sessions = map[string]*apiSession{}
	}
	os.MkdirAll(h.dir, 0o755)
	*raftDir = h.dir
	*network = "robustirc.net"
	*networkPassword = verifPassword
	var err error
	ircServer = ircserver.NewIRCServer(*network, time.Unix(0, 1420228218166687917))
	outputstream.DeleteOldDatabases(h.dir)
	outputStream, err = outputstream.NewOutputStream(h.dir)
	if err != nil {
		return "error " + err.Error()
	}
	h.logstore, err = raftstore.NewLevelDBStore(filepath.Join(h.dir, "raftlog"), false, *useProtobuf)
	if err != nil {
		return "error " + err.Error()
	}
	ircStore, err = raftstore.NewLevelDBStore(filepath.Join(h.dir, "irclog"), false, *useProtobuf)
	if err != nil {
		return "error " + err.Error()
	}
	h.fsm = &FSM{
		store:             h.logstore,
		ircstore:          ircStore,
		lastSnapshotState: make(map[uint64][]byte),
		ReplaceState:      func(*ircserver.IRCServer, *raftstore.LevelDBStore, *outputstream.OutputStream) {},
	}
	cfg := raft.DefaultConfig()
	cfg.LocalID = "node1"
	cfg.HeartbeatTimeout = 50 * time.Millisecond
	cfg.ElectionTimeout = 50 * time.Millisecond
	cfg.LeaderLeaseTimeout = 50 * time.Millisecond
	cfg.CommitTimeout = 5 * time.Millisecond
	cfg.SnapshotInterval = time.Hour
	cfg.LogOutput = io.Discard
	fss, err := raft.NewFileSnapshotStore(h.dir, 5, io.Discard)
	if err != nil {
		return "error " + err.Error()
	}
	_, trans := raft.NewInmemTransport("node1")
	h.stall = &stallStore{LevelDBStore: h.logstore}
	logcache, _ := raft.NewLogCache(512, h.stall)
	existing, _ := raft.HasExistingState(logcache, h.logstore, fss)
	h.raft, err = raft.NewRaft(cfg, h.fsm, logcache, h.logstore, fss, trans)
	if err != nil {
		return "error " + err.Error()
	}
	node = h.raft
	if !existing {
		if err := h.raft.BootstrapCluster(raft.Configuration{Servers: []raft.Server{{ID: "node1", Address: trans.LocalAddr()}}}).Error(); err != nil {
			return "error " + err.Error()
		}
	}
	deadline := time.Now().Add(5 * time.Second)
	for h.raft.State() != raft.Leader {
		if time.Now().After(deadline) {
			return "error no leader"
		}
		time.Sleep(5 * time.Millisecond)
	}
	h.raft.Barrier(2 * time.Second).Error()
	h.api = api.NewHTTP(ircServer, h.raft, ircStore, outputStream, nil, *network, verifPassword, h.dir, "node1", *useProtobuf, 3)
	h.fsm.ReplaceState = h.api.ReplaceState
	mux := http.NewServeMux()
	mux.HandleFunc("/robustirc/v1/", h.api.DispatchPublic)
	mux.HandleFunc("/", h.api.DispatchPrivate)
	h.srv = httptest.NewServer(mux)
	return "ok"
}

func (h *apiHarness) stop() {
	if h.srv != nil {
		h.srv.CloseClientConnections()
		h.srv.Close()
		h.srv = nil
	}
	// an in-process "restart" closes the stores while goroutines of hung-up streams may still be inside GetNext
	// (a real process exit takes them with it): let them notice the cancellation first
	for k := 0; k < 4 && outputStream != nil; k++ {
		outputStream.InterruptGetNext()
		time.Sleep(30 * time.Millisecond)
	}
	if h.raft != nil {
		h.raft.Shutdown().Error()
		h.raft = nil
		// raft's leader loop starts a goroutine that reads the oldest log entry every ten seconds (log store
		// metrics); Shutdown does not wait for an iteration that has just begun, and closing the store under it is a
		// nil dereference in goleveldb (seen once in a 60 s stress run). A real process exit takes it along.
		time.Sleep(60 * time.Millisecond)
	}
	if h.logstore != nil {
		h.logstore.Close()
		h.logstore = nil
	}
	if h.fsm != nil && h.fsm.ircstore != nil {
		h.fsm.ircstore.Close()
	}
	if outputStream != nil {
		outputStream.Close()
	}
}

// authspec: ok | none | empty | wrong | other:<name>
func (h *apiHarness) authHeader(name, spec string) (string, bool) {
	switch {
	case spec == "ok":
		if s := h.sessions[name]; s != nil {
			return s.auth, true
		}
		return "unknown", true
	case spec == "none":
		return "", false
	case spec == "empty":
		return "", true
	case spec == "wrong":
		return strings.Repeat("ab", 128), true
	case strings.HasPrefix(spec, "other:"):
		if s := h.sessions[spec[6:]]; s != nil {
			return s.auth, true
		}
	}
	return "x", true
}

func (h *apiHarness) sid(name string) string {
	if s := h.sessions[name]; s != nil {
		return s.id
	}
	return name // a literal id
}

func (h *apiHarness) do(method, path string, body []byte, hdr map[string]string, basic string, streamFor time.Duration) (int, []byte, http.Header) {
	req, _ := http.NewRequest(method, h.srv.URL+path, bytes.NewReader(body))
	for k, v := range hdr {
		req.Header[k] = []string{v}
	}
	if basic != "" {
		req.SetBasicAuth("robustirc", basic)
	}
	// no connection reuse: CloseClientConnections (used to hang up on streams) races with keep-alive reuse
	client := &http.Client{Transport: &http.Transport{DisableKeepAlives: true}}
	if streamFor > 0 {
		client.Timeout = 0
	}
	resp, err := client.Do(req)
	if err != nil {
		return -1, []byte(err.Error()), nil
	}
	defer resp.Body.Close()
	if streamFor > 0 {
		// read what arrives within streamFor, then hang up
		done := make(chan []byte, 1)
		go func() {
			var buf bytes.Buffer
			tmp := make([]byte, 4096)
			for {
				n, err := resp.Body.Read(tmp)
				buf.Write(tmp[:n])
				if err != nil {
					break
				}
			}
			done <- buf.Bytes()
		}()
		time.Sleep(streamFor)
		h.srv.CloseClientConnections()
		select {
		case b := <-done:
			return resp.StatusCode, b, resp.Header
		case <-time.After(2 * time.Second):
			return resp.StatusCode, nil, resp.Header
		}
	}
	b, _ := io.ReadAll(resp.Body)
	return resp.StatusCode, b, resp.Header
}

func (h *apiHarness) lastIndex() uint64 { return h.raft.LastIndex() }

func (h *apiHarness) op(f []string) (res string) {
	defer func() {
		if r := recover(); r != nil {
			res = fmt.Sprintf("panic %v", r)
		}
	}()
	switch f[0] {
	case "start":
		h.stop()
		return h.start(true)
	case "restart":
		h.stop()
		return h.start(false)
	case "kill":
		syscall.Kill(os.Getpid(), syscall.SIGKILL)
		select {}
	case "resume": // first op of a new process after a kill
		return h.start(false)
	case "create":
		before := h.lastIndex()
		code, body, _ := h.do("POST", "/robustirc/v1/session", nil, nil, "", 0)
		if code != 200 {
			return fmt.Sprintf("status=%d", code)
		}
		var r struct{ Sessionid, Sessionauth, Prefix string }
		json.Unmarshal(body, &r)
		h.sessions[f[1]] = &apiSession{id: r.Sessionid, auth: r.Sessionauth}
		id, _ := strconv.ParseUint(r.Sessionid, 0, 64)
		return fmt.Sprintf("status=200 id=%d authlen=%d newentries=%d", id, len(r.Sessionauth), h.lastIndex()-before)
	case "adopt": // adopt <name> <id> <auth>: sessions created by an earlier process
		h.sessions[f[1]] = &apiSession{id: f[2], auth: f[3]}
		return "ok"
	case "creds":
		s := h.sessions[f[1]]
		if s == nil {
			return "none"
		}
		return s.id + " " + s.auth
	case "post": // post <name> <authspec> <cmid> <datahex>
		hdr := map[string]string{"Content-Type": "application/json"}
		if v, ok := h.authHeader(f[1], f[2]); ok {
			hdr["X-Session-Auth"] = v
		}
		body, _ := json.Marshal(map[string]interface{}{"Data": iunhex(f[4]), "ClientMessageId": iu64(f[3])})
		before := h.lastIndex()
		code, _, _ := h.do("POST", "/robustirc/v1/"+h.sid(f[1])+"/message", body, hdr, "", 0)
		return fmt.Sprintf("status=%d newentries=%d", code, h.lastIndex()-before)
	case "delete": // delete <name> <authspec> <quitmsghex>
		hdr := map[string]string{"Content-Type": "application/json"}
		if v, ok := h.authHeader(f[1], f[2]); ok {
			hdr["X-Session-Auth"] = v
		}
		body, _ := json.Marshal(map[string]interface{}{"Quitmessage": iunhex(f[3])})
		before := h.lastIndex()
		code, _, _ := h.do("DELETE", "/robustirc/v1/"+h.sid(f[1]), body, hdr, "", 0)
		return fmt.Sprintf("status=%d newentries=%d", code, h.lastIndex()-before)
	case "get": // get <name> <authspec> <lastseen>
		hdr := map[string]string{}
		if v, ok := h.authHeader(f[1], f[2]); ok {
			hdr["X-Session-Auth"] = v
		}
		code, body, _ := h.do("GET", "/robustirc/v1/"+h.sid(f[1])+"/messages?lastseen="+f[3], nil, hdr, "", 250*time.Millisecond)
		var got []string
		dec := json.NewDecoder(bytes.NewReader(body))
		for {
			var m robust.Message
			if err := dec.Decode(&m); err != nil {
				break
			}
			if m.Type == robust.Ping {
				continue
			}
			got = append(got, fmt.Sprintf("%d.%d:%s", m.Id.Id, m.Id.Reply, ihex([]byte(m.Data))))
		}
		if code != 200 {
			return fmt.Sprintf("status=%d msgs=%d", code, len(got))
		}
		return fmt.Sprintf("status=200 msgs=%s", strings.Join(got, ","))
	case "getconfig": // getconfig <pw|->
		pw := f[1]
		if pw == "-" {
			pw = ""
		}
		code, body, hdr := h.do("GET", "/config", nil, nil, pw, 0)
		if code != 200 {
			return fmt.Sprintf("status=%d", code)
		}
		return fmt.Sprintf("status=200 rev=%s body=%s", hdr.Get("X-RobustIRC-Config-Revision"), ihex(body))
	case "postconfig": // postconfig <pw|-> <rev|-> <tomlhex>
		pw := f[1]
		if pw == "-" {
			pw = ""
		}
		hdr := map[string]string{}
		if f[2] != "-" {
			hdr["X-RobustIRC-Config-Revision"] = f[2]
		}
		before := h.lastIndex()
		code, _, _ := h.do("POST", "/config", []byte(iunhex(f[3])), hdr, pw, 0)
		return fmt.Sprintf("status=%d newentries=%d", code, h.lastIndex()-before)
	case "private": // private <method> <path> <pw|->
		pw := f[3]
		if pw == "-" {
			pw = ""
		}
		code, _, _ := h.do(f[1], f[2], nil, nil, pw, 0)
		return fmt.Sprintf("status=%d", code)
	case "statustime": // statustime <n> <gapms>: the clock reading a peer reports (JSON status) lies within the request's own start/end
		n, _ := strconv.Atoi(f[1])
		gap, _ := strconv.Atoi(f[2])
		okc, worst := 0, time.Duration(0)
		for k := 0; k < n; k++ {
			start := time.Now()
			code, body, _ := h.do("GET", "/status", nil, map[string]string{"Accept": "application/json"}, verifPassword, 0)
			end := time.Now()
			var st struct{ CurrentTime time.Time }
			if code != 200 || json.Unmarshal(body, &st) != nil {
				return fmt.Sprintf("status=%d", code)
			}
			if !st.CurrentTime.Before(start.Add(-time.Millisecond)) && !st.CurrentTime.After(end.Add(time.Millisecond)) {
				okc++
			} else if d := start.Sub(st.CurrentTime); d > worst {
				worst = d
			} else if d := st.CurrentTime.Sub(end); d > worst {
				worst = d
			}
			time.Sleep(time.Duration(gap) * time.Millisecond)
		}
		return fmt.Sprintf("status=200 within=%d/%d worstms=%d", okc, n, worst.Milliseconds())
	case "origin": // origin <originhex>: a public request carrying that Origin; is it granted by CORS?
		code, _, hdr := h.do("POST", "/robustirc/v1/0x1/message", []byte("{}"), map[string]string{"Origin": iunhex(f[1])}, "", 0)
		acao := "-"
		if hdr != nil && hdr.Get("Access-Control-Allow-Origin") != "" {
			acao = fmt.Sprintf("%x", hdr.Get("Access-Control-Allow-Origin"))
		}
		return fmt.Sprintf("status=%d acao=%s", code, acao)
	case "public": // public <method> <path> : raw request without credentials
		code, _, _ := h.do(f[1], f[2], []byte("{}"), nil, "", 0)
		return fmt.Sprintf("status=%d", code)
	case "snapshot":
		// snapshot [<seconds>]: compaction clock = now + seconds (everything older than that minus the
		// horizon is folded into the serialized state); default: the real clock
		*canaryCompactionStart = 0
		if len(f) > 1 {
			sec, _ := strconv.ParseInt(f[1], 10, 64)
			*canaryCompactionStart = time.Now().UnixNano() + sec*int64(time.Second)
		}
		if err := h.raft.Snapshot().Error(); err != nil {
			return "error " + err.Error()
		}
		return "ok"
	case "dump":
		return ircserver.VerifDump(ircServer)
	case "lastindex":
		return strconv.FormatUint(h.lastIndex(), 10)
	case "getsession": // getsession <id>
		_, err := ircServer.GetSession(robust.Id{Id: iu64(f[1])})
		switch err {
		case nil:
			return "found"
		case ircserver.ErrNoSuchSession:
			return "nosuch"
		case ircserver.ErrSessionNotYetSeen:
			return "notyet"
		}
		return "error"
	case "marker":
		id, _ := strconv.ParseUint(h.sid(f[1]), 0, 64)
		return strconv.FormatUint(ircServer.LastPostMessage(robust.Id{Id: id}), 10)
	case "expire":
		var ids []string
		for _, m := range ircServer.ExpireSessions() {
			ids = append(ids, fmt.Sprintf("%d.%d", m.Session.Id, m.Session.Reply))
			if len(f) > 1 && f[1] == "apply" {
				h.api.ApplyMessageWait(m, 2*time.Second)
			}
		}
		return "expire " + strings.Join(ids, ",")
	case "lagget": // lagget <name> <authspec> <lastseen> <lagid> <ms>: GET on a node whose output stream lags behind
		// the node has stored the batches up to <lagid> when the request arrives and catches up while it is served
		hdr := map[string]string{}
		if v, ok := h.authHeader(f[1], f[2]); ok {
			hdr["X-Session-Auth"] = v
		}
		ms, _ := strconv.Atoi(f[5])
		real := outputStream
		// `@k`: position / id of the k-th message (0-based) of this session's stream; `@k-`: the id before it
		sidn, _ := strconv.ParseUint(h.sid(f[1]), 0, 64)
		var mine []robust.Id
		{
			c0, cc := context.WithCancel(context.Background())
			cc()
			for last := uint64(0); ; {
				msgs := real.GetNext(c0, robust.Id{Id: last})
				if len(msgs) == 0 {
					break
				}
				last = msgs[0].Id.Id
				for _, m := range msgs {
					if m.InterestingFor[sidn] {
						mine = append(mine, m.Id)
					}
				}
			}
		}
		sym := func(a string) (robust.Id, bool) {
			if !strings.HasPrefix(a, "@") {
				return robust.Id{}, false
			}
			minus := strings.HasSuffix(a, "-")
			k, _ := strconv.Atoi(strings.TrimSuffix(a[1:], "-"))
			if k >= len(mine) {
				k = len(mine) - 1
			}
			if k < 0 {
				return robust.Id{}, true
			}
			id := mine[k]
			if minus {
				id = robust.Id{Id: id.Id - 1}
			}
			return id, true
		}
		if id, ok := sym(f[3]); ok {
			f[3] = fmt.Sprintf("%d.%d", id.Id, id.Reply)
		}
		lagid := uint64(0)
		if id, ok := sym(f[4]); ok {
			lagid = id.Id
		} else {
			lagid = iu64(f[4])
		}
		lagdir, err := os.MkdirTemp(h.dir, "lag-")
		if err != nil {
			return "error " + err.Error()
		}
		defer os.RemoveAll(lagdir)
		lag, err := outputstream.NewOutputStream(lagdir)
		if err != nil {
			return "error " + err.Error()
		}
		cctx, ccancel := context.WithCancel(context.Background())
		ccancel()
		var later [][]outputstream.Message
		for last := uint64(0); ; {
			msgs := real.GetNext(cctx, robust.Id{Id: last})
			if len(msgs) == 0 {
				break
			}
			last = msgs[0].Id.Id
			if last <= lagid {
				lag.Add(msgs)
			} else {
				later = append(later, msgs)
			}
		}
		h.api.ReplaceState(ircServer, ircStore, lag)
		type res struct {
			code int
			body []byte
		}
		done := make(chan res, 1)
		go func() {
			code, body, _ := h.do("GET", "/robustirc/v1/"+h.sid(f[1])+"/messages?lastseen="+f[3], nil, hdr, "", time.Duration(ms)*time.Millisecond)
			done <- res{code, body}
		}()
		time.Sleep(time.Duration(ms/4) * time.Millisecond)
		for _, msgs := range later {
			lag.Add(msgs)
			time.Sleep(2 * time.Millisecond)
		}
		r := <-done
		h.api.ReplaceState(ircServer, ircStore, real)
		for k := 0; k < 3; k++ {
			lag.InterruptGetNext()
			time.Sleep(20 * time.Millisecond)
		}
		lag.Close()
		var got []string
		dec := json.NewDecoder(bytes.NewReader(r.body))
		for {
			var m robust.Message
			if err := dec.Decode(&m); err != nil {
				break
			}
			if m.Type == robust.Ping {
				continue
			}
			got = append(got, fmt.Sprintf("%d.%d:%s", m.Id.Id, m.Id.Reply, ihex([]byte(m.Data))))
		}
		return fmt.Sprintf("status=%d lastseen=%s lagid=%d msgs=%s", r.code, f[3], lagid, strings.Join(got, ","))
	case "death": // death <name> <cmid>: an entry which was rewritten as message of death (as a crashed apply leaves it)
		id, _ := strconv.ParseUint(h.sid(f[1]), 0, 64)
		before := h.lastIndex()
		err := h.api.ApplyMessageWait(&robust.Message{Type: robust.MessageOfDeath, Session: robust.Id{Id: id}, Data: "PANIC", ClientMessageId: iu64(f[2])}, 2*time.Second)
		if err != nil {
			return "error " + err.Error()
		}
		return fmt.Sprintf("ok newentries=%d", h.lastIndex()-before)
	case "getfuture": // getfuture <authspec-literal> <ms>: GET for the session id that the next create will get, then create
		next := h.lastIndex() + 1
		type res struct {
			code int
			n    int
		}
		done := make(chan res, 1)
		ms, _ := strconv.Atoi(f[2])
		go func() {
			code, body, _ := h.do("GET", fmt.Sprintf("/robustirc/v1/0x%x/messages?lastseen=0.0", next), nil, map[string]string{"X-Session-Auth": f[1]}, "", time.Duration(ms)*time.Millisecond)
			done <- res{code, len(body)}
		}()
		time.Sleep(time.Duration(ms/3) * time.Millisecond)
		code, body, _ := h.do("POST", "/robustirc/v1/session", nil, nil, "", 0)
		var r struct{ Sessionid, Sessionauth string }
		json.Unmarshal(body, &r)
		id, _ := strconv.ParseUint(r.Sessionid, 0, 64)
		g := <-done
		return fmt.Sprintf("get=%d bytes=%d create=%d hit=%v", g.code, g.n, code, id == next)
	case "stall": // stall <ms>: the next write to the raft log takes that long
		ms, _ := strconv.Atoi(f[1])
		h.stall.mu.Lock()
		h.stall.next = time.Duration(ms) * time.Millisecond
		h.stall.mu.Unlock()
		return "ok"
	case "sleep":
		ms, _ := strconv.Atoi(f[1])
		time.Sleep(time.Duration(ms) * time.Millisecond)
		return "ok"
	}
	return "bad-op"
}

func TestVerifApi(t *testing.T) {
	in, err := os.Open(os.Getenv("VERIF_OPS"))
	if err != nil {
		t.Skip("VERIF_OPS not set")
	}
	defer in.Close()
	outf, err := os.OpenFile(os.Getenv("VERIF_OUT"), os.O_CREATE|os.O_WRONLY|os.O_APPEND, 0o644)
	if err != nil {
		t.Fatal(err)
	}
	defer outf.Close()
	log.SetOutput(io.Discard)
	h := &apiHarness{t: t, dir: filepath.Join(os.Getenv("VERIF_TMP"), "node"), sessions: map[string]*apiSession{}}
	sc := bufio.NewScanner(in)
	sc.Buffer(make([]byte, 1<<20), 1<<28)
	for sc.Scan() {
		f := strings.Fields(sc.Text())
		if len(f) == 0 {
			fmt.Fprintln(outf, "bad-op")
			continue
		}
		if f[0] == "kill" {
			fmt.Fprintln(outf, "ok")
		}
		fmt.Fprintln(outf, h.op(f))
	}
	h.stop()
}
