//go:build verif

package mod_test

// Harness for C05 (thorough tier): a three-node RobustIRC network of real `robustirc` processes
// (internal/localnet: real raft over TLS/HTTP, real LevelDB stores, real snapshots), driven over
// the public HTTP API with raw requests.  One op per line (VERIF_OPS), one result line per op
// (VERIF_OUT).  Needs `robustirc` and `robustirc-bridge` in PATH (the check builds both from the
// working tree / the module cache).

import (
	"bufio"
	"bytes"
	"context"
	"encoding/hex"
	"encoding/json"
	"fmt"
	"io"
	"log"
	"net/http"
	"os"
	"os/exec"
	"path/filepath"
	"strconv"
	"strings"
	"syscall"
	"testing"
	"time"

	"github.com/robustirc/robustirc/internal/localnet"
	"github.com/robustirc/robustirc/internal/robust"
)

type vnode struct {
	cmd   *exec.Cmd
	dir   string
	port  int
	alive bool
}

type vsess struct{ id, auth string }

type doer interface {
	Do(*http.Request) (*http.Response, error)
}

type vnet struct {
	pw       string
	client   doer
	nodes    []*vnode
	sessions map[string]*vsess
	record   func(string, string) error
}

func (v *vnet) url(n int, path string) string {
	return fmt.Sprintf("https://localhost:%d%s", v.nodes[n].port, path)
}

func (v *vnet) do(method, url string, body []byte, hdr map[string]string, private bool, timeout time.Duration) (int, []byte, http.Header) {
	ctx, cancel := context.WithTimeout(context.Background(), timeout)
	defer cancel()
	req, err := http.NewRequestWithContext(ctx, method, url, bytes.NewReader(body))
	if err != nil {
		return -1, nil, nil
	}
	for k, val := range hdr {
		req.Header[k] = []string{val}
	}
	if private {
		req.SetBasicAuth("robustirc", v.pw)
	}
	resp, err := v.client.Do(req)
	if err != nil {
		return -1, []byte(err.Error()), nil
	}
	defer resp.Body.Close()
	b, _ := io.ReadAll(resp.Body) // a stream ends with the context deadline
	return resp.StatusCode, b, resp.Header
}

func vhexs(b []byte) string {
	if len(b) == 0 {
		return "-"
	}
	return hex.EncodeToString(b)
}

func vunhex(s string) string {
	if s == "-" {
		return ""
	}
	b, _ := hex.DecodeString(s)
	return string(b)
}

func (v *vnet) leader() int {
	for i, n := range v.nodes {
		if !n.alive {
			continue
		}
		code, body, _ := v.do("GET", v.url(i, "/leader"), nil, nil, true, 2*time.Second)
		if code != 200 {
			continue
		}
		for j, m := range v.nodes {
			if strings.TrimSpace(string(body)) == fmt.Sprintf("localhost:%d", m.port) {
				return j
			}
		}
	}
	return -1
}

func (v *vnet) op(f []string) string {
	switch f[0] {
	case "create": // create <name> <node>
		n, _ := strconv.Atoi(f[2])
		for try := 0; try < 6; try++ {
			code, body, _ := v.do("POST", v.url((n+try)%len(v.nodes), "/robustirc/v1/session"), nil, nil, false, 4*time.Second)
			if code == 200 {
				var r struct{ Sessionid, Sessionauth string }
				json.Unmarshal(body, &r)
				v.sessions[f[1]] = &vsess{r.Sessionid, r.Sessionauth}
				return "status=200 id=" + r.Sessionid
			}
			time.Sleep(300 * time.Millisecond)
		}
		return "status=-1"
	case "post": // post <name> <node> <cmid> <datahex> <maxattempts>: the protocol's retry: same id, next server
		s := v.sessions[f[1]]
		if s == nil {
			return "nosession"
		}
		n, _ := strconv.Atoi(f[2])
		cmid, _ := strconv.ParseUint(f[3], 10, 64)
		max, _ := strconv.Atoi(f[5])
		body, _ := json.Marshal(map[string]interface{}{"Data": vunhex(f[4]), "ClientMessageId": cmid})
		last := 0
		for a := 0; a < max; a++ {
			code, _, _ := v.do("POST", v.url((n+a)%len(v.nodes), "/robustirc/v1/"+s.id+"/message"), body, map[string]string{"X-Session-Auth": s.auth, "Content-Type": "application/json"}, false, 4*time.Second)
			last = code
			if code == 200 {
				return fmt.Sprintf("status=200 attempts=%d acked=1", a+1)
			}
			if code == 404 {
				break // session unknown: do not retry
			}
			time.Sleep(200 * time.Millisecond)
		}
		return fmt.Sprintf("status=%d attempts=%d acked=0", last, max)
	case "get": // get <name> <node> <lastseen> <ms>
		s := v.sessions[f[1]]
		if s == nil {
			return "nosession"
		}
		n, _ := strconv.Atoi(f[2])
		ms, _ := strconv.Atoi(f[4])
		code, body, _ := v.do("GET", v.url(n, "/robustirc/v1/"+s.id+"/messages?lastseen="+f[3]), nil, map[string]string{"X-Session-Auth": s.auth}, false, time.Duration(ms)*time.Millisecond)
		var got []string
		dec := json.NewDecoder(bytes.NewReader(body))
		for {
			var m robust.Message
			if err := dec.Decode(&m); err != nil {
				break
			}
			if m.Type == robust.Ping {
				continue
			}
			got = append(got, fmt.Sprintf("%d.%d:%s", m.Id.Id, m.Id.Reply, vhexs([]byte(m.Data))))
		}
		return fmt.Sprintf("status=%d msgs=%s", code, strings.Join(got, ","))
	case "kill": // kill <node>: SIGKILL
		n, _ := strconv.Atoi(f[1])
		nd := v.nodes[n]
		if !nd.alive {
			return "dead"
		}
		nd.cmd.Process.Signal(syscall.SIGKILL)
		nd.cmd.Wait()
		nd.alive = false
		return "ok"
	case "restart": // restart <node>
		n, _ := strconv.Atoi(f[1])
		nd := v.nodes[n]
		if nd.alive {
			return "alive"
		}
		cmd := exec.Command("/bin/sh", filepath.Join(nd.dir, "restart.sh"))
		cmd.SysProcAttr = &syscall.SysProcAttr{Setpgid: true}
		if err := cmd.Start(); err != nil {
			return "error " + err.Error()
		}
		v.record("pid", strconv.Itoa(cmd.Process.Pid))
		nd.cmd, nd.alive = cmd, true
		for try := 0; try < 60; try++ {
			if code, _, _ := v.do("GET", v.url(n, "/"), nil, nil, false, time.Second); code > 0 {
				return "ok"
			}
			time.Sleep(250 * time.Millisecond)
		}
		return "unreachable"
	case "snapshot": // snapshot <node>
		n, _ := strconv.Atoi(f[1])
		code, _, _ := v.do("GET", v.url(n, "/snapshot"), nil, nil, true, 20*time.Second)
		return fmt.Sprintf("status=%d", code)
	case "leader":
		return strconv.Itoa(v.leader())
	case "waitleader": // waitleader <ms>
		ms, _ := strconv.Atoi(f[1])
		end := time.Now().Add(time.Duration(ms) * time.Millisecond)
		for time.Now().Before(end) {
			if l := v.leader(); l >= 0 {
				return strconv.Itoa(l)
			}
			time.Sleep(200 * time.Millisecond)
		}
		return "-1"
	case "config": // config <tomlhex>
		for try := 0; try < 10; try++ {
			l := v.leader()
			if l < 0 {
				time.Sleep(300 * time.Millisecond)
				continue
			}
			code, _, hdr := v.do("GET", v.url(l, "/config"), nil, nil, true, 3*time.Second)
			if code != 200 {
				continue
			}
			code, _, _ = v.do("POST", v.url(l, "/config"), []byte(vunhex(f[1])), map[string]string{"X-RobustIRC-Config-Revision": hdr.Get("X-RobustIRC-Config-Revision")}, true, 5*time.Second)
			if code == 200 {
				return "status=200"
			}
		}
		return "status=-1"
	case "rawget": // rawget <node> <method> <pathhex> <none|pw|wrong>: one request to an arbitrary path of a real node
		n, _ := strconv.Atoi(f[1])
		ctx, cancel := context.WithTimeout(context.Background(), 4*time.Second)
		defer cancel()
		req, err := http.NewRequestWithContext(ctx, f[2], v.url(n, vunhex(f[3])), nil)
		if err != nil {
			return "bad-op"
		}
		switch f[4] {
		case "pw":
			req.SetBasicAuth("robustirc", v.pw)
		case "wrong":
			req.SetBasicAuth("robustirc", v.pw+"x")
		}
		resp, err := v.client.Do(req)
		if err != nil {
			return "status=-1"
		}
		defer resp.Body.Close()
		b, _ := io.ReadAll(io.LimitReader(resp.Body, 1<<22))
		leak := 0
		if bytes.Contains(b, []byte(v.pw)) {
			leak = 1
		}
		return fmt.Sprintf("status=%d leak=%d len=%d", resp.StatusCode, leak, len(b))
	case "sleep":
		ms, _ := strconv.Atoi(f[1])
		time.Sleep(time.Duration(ms) * time.Millisecond)
		return "ok"
	}
	return "bad-op"
}

func TestVerifNet(t *testing.T) {
	in, err := os.Open(os.Getenv("VERIF_OPS"))
	if err != nil {
		t.Skip("VERIF_OPS not set")
	}
	defer in.Close()
	outf, err := os.OpenFile(os.Getenv("VERIF_OUT"), os.O_CREATE|os.O_WRONLY|os.O_APPEND, 0o644)
	if err != nil {
		t.Fatal(err)
	}
	defer outf.Close()
	log.SetOutput(io.Discard)
	dir, err := os.MkdirTemp(os.Getenv("VERIF_TMP"), "vnet-")
	if err != nil {
		t.Fatal(err)
	}
	l, err := localnet.NewLocalnet(-1, dir)
	if err != nil {
		fmt.Fprintln(outf, "error start: "+err.Error())
		return
	}
	defer l.Kill(true)
	v := &vnet{pw: l.NetworkPassword, client: l.Httpclient, sessions: map[string]*vsess{}, record: l.RecordResource}
	for i := 0; i < 3; i++ {
		cmd, tempdir, _ := l.StartIRCServer(i == 0)
		v.nodes = append(v.nodes, &vnode{cmd: cmd, dir: tempdir, port: l.Ports[len(l.Ports)-1], alive: true})
	}
	healthy := false
	for try := 0; try < 40 && !healthy; try++ {
		healthy = l.Healthy()
		if !healthy {
			time.Sleep(500 * time.Millisecond)
		}
	}
	if !healthy {
		fmt.Fprintln(outf, "error network not healthy")
		return
	}
	fmt.Fprintln(outf, "started")
	sc := bufio.NewScanner(in)
	sc.Buffer(make([]byte, 1<<20), 1<<26)
	for sc.Scan() {
		f := strings.Fields(sc.Text())
		if len(f) == 0 {
			fmt.Fprintln(outf, "bad-op")
			continue
		}
		fmt.Fprintln(outf, v.op(f))
	}
}
