//go:build verif

package outputstream

// Free-running concurrent stress for C08 (real parallelism, no steering): readers follow the stream with
// GetNext while a writer adds consecutive batches and a compactor deletes old ones.  Oracle: every
// reader sees every batch, in order, none skipped, and nobody stays blocked once the stream has moved on.

import (
	"context"
	"fmt"
	"math/rand"
	"os"
	"runtime"
	"strconv"
	"sync"
	"testing"
	"time"

	"github.com/robustirc/robustirc/internal/robust"
)

func TestVerifStreamStress(t *testing.T) {
	outp := os.Getenv("VERIF_OUT")
	if outp == "" {
		t.Skip("VERIF_OUT not set")
	}
	secs, _ := strconv.ParseFloat(os.Getenv("VERIF_STRESS_SECONDS"), 64)
	if secs == 0 {
		secs = 2
	}
	seed, _ := strconv.ParseInt(os.Getenv("VERIF_SEED"), 10, 64)
	dir, err := os.MkdirTemp(os.Getenv("VERIF_TMP"), "vstress-")
	if err != nil {
		t.Fatal(err)
	}
	defer os.RemoveAll(dir)
	o, err := NewOutputStream(dir)
	if err != nil {
		t.Fatal(err)
	}
	defer o.Close()
	runtime.GOMAXPROCS(8)
	rng := rand.New(rand.NewSource(seed))
	report := func(s string) {
		os.WriteFile(outp, []byte(s+"\n"), 0o644)
	}
	end := time.Now().Add(time.Duration(secs * float64(time.Second)))
	rounds, batches := 0, 0
	next := uint64(1)
	for time.Now().Before(end) {
		rounds++
		base := next - 1 // the tail (0 = sentinel)
		m := 1 + rng.Intn(6)
		nreaders := 1 + rng.Intn(6)
		type res struct {
			reader int
			msg    string
			last   uint64
		}
		results := make(chan res, nreaders)
		ctx, cancel := context.WithCancel(context.Background())
		var wg sync.WaitGroup
		for r := 0; r < nreaders; r++ {
			wg.Add(1)
			go func(r int) {
				defer wg.Done()
				last := base
				for last < base+uint64(m) {
					msgs := o.GetNext(ctx, robust.Id{Id: last})
					if len(msgs) == 0 {
						if ctx.Err() != nil {
							results <- res{r, "stuck", last}
							return
						}
						continue
					}
					if got := msgs[0].Id.Id; got != last+1 {
						results <- res{r, fmt.Sprintf("skipped: GetNext(%d) returned batch %d while %d is stored", last, got, last+1), last}
						return
					}
					last++
				}
				results <- res{r, "ok", last}
			}(r)
		}
		mode := rng.Intn(3)
		for k := 0; k < m; k++ {
			id := next
			next++
			if err := o.Add([]Message{{Id: robust.Id{Id: id, Reply: 1}, Data: "x", InterestingFor: map[uint64]bool{1: true}}}); err != nil {
				report("violation add-error " + err.Error())
				cancel()
				return
			}
			batches++
			switch mode {
			case 0:
				runtime.Gosched()
			case 1:
				time.Sleep(time.Duration(rng.Intn(200)) * time.Microsecond)
			}
			if id > 12 && rng.Intn(4) == 0 {
				o.Delete(robust.Id{Id: id - 10 - uint64(rng.Intn(2))}) // compaction of old output (may already be gone)
			}
		}
		done := make(chan struct{})
		go func() { wg.Wait(); close(done) }()
		select {
		case <-done:
		case <-time.After(3 * time.Second):
			cancel()
			o.InterruptGetNext()
			<-done
		}
		cancel()
		close(results)
		for r := range results {
			if r.msg == "stuck" {
				report(fmt.Sprintf("violation stuck: a reader is still blocked in GetNext(%d) 3s after batch %d (tail %d) was stored (round %d, %d readers, %d batches, seed %d)", r.last, r.last+1, next-1, rounds, nreaders, m, seed))
				return
			}
			if r.msg != "ok" {
				report(fmt.Sprintf("violation %s (round %d, %d readers, %d batches, seed %d)", r.msg, rounds, nreaders, m, seed))
				return
			}
		}
	}
	report(fmt.Sprintf("ok rounds=%d batches=%d", rounds, batches))
}
