//go:build verif

package outputstream

// Correspondence harness for the output stream (C08, C18), injected with `go test -overlay`.
// One op per line in $VERIF_OPS, one canonical line per op in $VERIF_OUT.

import (
	"bufio"
	"bytes"
	"encoding/hex"
	"encoding/json"
	"fmt"
	"io"
	"log"
	"os"
	"sort"
	"strconv"
	"strings"
	"testing"

	"github.com/golang/protobuf/proto"
	pb "github.com/robustirc/robustirc/internal/proto"
	"github.com/robustirc/robustirc/internal/robust"
)

func vhex(b []byte) string {
	if len(b) == 0 {
		return "-"
	}
	return hex.EncodeToString(b)
}

func vunhex(s string) []byte {
	if s == "-" {
		return nil
	}
	b, err := hex.DecodeString(s)
	if err != nil {
		panic("bad hex " + s)
	}
	return b
}

func vu64(s string) uint64 {
	n, err := strconv.ParseUint(s, 10, 64)
	if err != nil {
		panic("bad uint " + s)
	}
	return n
}

func canonMsgs(msgs []Message) string {
	var parts []string
	for _, m := range msgs {
		var rc []uint64
		for k := range m.InterestingFor {
			rc = append(rc, k)
		}
		sort.Slice(rc, func(i, j int) bool { return rc[i] < rc[j] })
		var rs []string
		for _, r := range rc {
			rs = append(rs, strconv.FormatUint(r, 10))
		}
		parts = append(parts, fmt.Sprintf("%d.%d:%s:%s", m.Id.Id, m.Id.Reply, vhex([]byte(m.Data)), strings.Join(rs, ",")))
	}
	return "[" + strings.Join(parts, ";") + "]"
}

func canonBatch(mb *messageBatch) string {
	return fmt.Sprintf("next=%d msgs=%s", mb.NextID, canonMsgs(mb.Messages))
}

// parseBatch: <next> <n> {<id> <reply> <datahex> <k> <r1> ... <rk>}*
func parseBatch(f []string) *messageBatch {
	mb := &messageBatch{NextID: vu64(f[0])}
	n := int(vu64(f[1]))
	p := 2
	for i := 0; i < n; i++ {
		m := Message{Id: robust.Id{Id: vu64(f[p]), Reply: vu64(f[p+1])}, Data: string(vunhex(f[p+2])), InterestingFor: map[uint64]bool{}}
		k := int(vu64(f[p+3]))
		p += 4
		for j := 0; j < k; j++ {
			m.InterestingFor[vu64(f[p])] = true
			p++
		}
		mb.Messages = append(mb.Messages, m)
	}
	return mb
}

func safely(f func() string) (res string) {
	defer func() {
		if r := recover(); r != nil {
			res = "panic"
		}
	}()
	return f()
}

func canonRMsg(m robust.Message) string {
	var sv []string
	for _, s := range m.Servers {
		sv = append(sv, vhex([]byte(s)))
	}
	return fmt.Sprintf("%d.%d/%d.%d/t%d/%s/%d/[%s]/%s/%d/%d/%s", m.Id.Id, m.Id.Reply, m.Session.Id, m.Session.Reply, int64(m.Type),
		vhex([]byte(m.Data)), m.UnixNano, strings.Join(sv, ","), vhex([]byte(m.Currentmaster)), m.ClientMessageId, m.Revision, vhex([]byte(m.RemoteAddr)))
}

func codecOp(f []string) string {
	switch f[0] {
	case "enchex": // Go only: the bytes this implementation writes
		return vhex(parseBatch(f[1:]).marshal())
	case "encbytes":
		return vhex(parseBatch(f[1:]).marshal())
	case "encdec":
		return safely(func() string { return canonBatch(unmarshalMessageBatch(parseBatch(f[1:]).marshal())) })
	case "dec":
		return safely(func() string { return canonBatch(unmarshalMessageBatch(vunhex(f[1]))) })
	case "msg":
		// msg <idx> <id> <reply> <sid> <sreply> <type> <datahex> <unixnano> <nservers> <hex>.. <masterhex> <cmid> <rev> <addrhex>
		idx := vu64(f[1])
		un, _ := strconv.ParseInt(f[8], 10, 64)
		m := robust.Message{Id: robust.Id{Id: vu64(f[2]), Reply: vu64(f[3])}, Session: robust.Id{Id: vu64(f[4]), Reply: vu64(f[5])},
			Type: robust.Type(vu64(f[6])), Data: string(vunhex(f[7])), UnixNano: un}
		ns := int(vu64(f[9]))
		p := 10
		for i := 0; i < ns; i++ {
			m.Servers = append(m.Servers, string(vunhex(f[p])))
			p++
		}
		m.Currentmaster = string(vunhex(f[p]))
		m.ClientMessageId = vu64(f[p+1])
		m.Revision = vu64(f[p+2])
		m.RemoteAddr = string(vunhex(f[p+3]))
		return safely(func() string {
			b1, err := proto.Marshal(m.ProtoMessage())
			if err != nil {
				return "marshal-error"
			}
			b1 = append([]byte{'p'}, b1...)
			dst := &pb.RobustMessage{Id: &pb.RobustId{}, Session: &pb.RobustId{}}
			m.CopyToProtoMessage(dst)
			b2, err := proto.Marshal(dst)
			if err != nil {
				return "marshal-error"
			}
			b2 = append([]byte{'p'}, b2...)
			same := 0
			if bytes.Equal(b1, b2) {
				same = 1
			}
			b3, err := json.Marshal(&m)
			if err != nil {
				return "marshal-error"
			}
			return fmt.Sprintf("pb=%s copy=%s same=%d json=%s", canonRMsg(robust.NewMessageFromBytes(b1, idx)), canonRMsg(robust.NewMessageFromBytes(b2, idx)), same, canonRMsg(robust.NewMessageFromBytes(b3, idx)))
		})
	}
	return "bad-op"
}


func TestVerifHarness(t *testing.T) {
	in, err := os.Open(os.Getenv("VERIF_OPS"))
	if err != nil {
		t.Skip("VERIF_OPS not set")
	}
	defer in.Close()
	outf, err := os.Create(os.Getenv("VERIF_OUT"))
	if err != nil {
		t.Fatal(err)
	}
	defer outf.Close()
	out := bufio.NewWriter(outf)
	defer out.Flush()
	log.SetOutput(io.Discard)
	sc := bufio.NewScanner(in)
	sc.Buffer(make([]byte, 1<<20), 1<<28)
	var st *streamHarness
	for sc.Scan() {
		f := strings.Fields(sc.Text())
		if len(f) == 0 {
			fmt.Fprintln(out, "bad-op")
			continue
		}
		switch f[0] {
		case "enchex", "encbytes", "encdec", "dec", "msg":
			fmt.Fprintln(out, codecOp(f))
		default:
			if st == nil {
				st = newStreamHarness(t)
			}
			fmt.Fprintln(out, st.op(f))
		}
		out.Flush()
	}
	if st != nil {
		st.close()
	}
}
