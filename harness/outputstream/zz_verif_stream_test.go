//go:build verif

package outputstream

import (
	"context"
	"encoding/binary"
	"fmt"
	"os"
	"runtime"
	"strings"
	"testing"
	"time"

	"github.com/robustirc/robustirc/internal/robust"
)

type vreader struct {
	cancel context.CancelFunc
	res    chan string
	gid    string
	done   bool
	result string
}

type streamHarness struct {
	t        *testing.T
	dir      string
	o        *OutputStream
	readers  map[string]*vreader
	poisoned bool
}

// parkedReaders counts the given goroutines that are inside GetNext and blocked in sync.Cond.Wait.
func parkedReaders(gids map[string]bool) int {
	buf := make([]byte, 1<<20)
	n := runtime.Stack(buf, true)
	cnt := 0
	for _, g := range strings.Split(string(buf[:n]), "\n\n") {
		hdr := g
		if i := strings.Index(g, "\n"); i >= 0 {
			hdr = g[:i]
		}
		f := strings.Fields(hdr)
		if len(f) < 3 || f[0] != "goroutine" || !gids[f[1]] {
			continue
		}
		if strings.Contains(hdr, "[sync.Cond.Wait") && strings.Contains(g, ".GetNext(") {
			cnt++
		}
	}
	return cnt
}

func myGid() string {
	buf := make([]byte, 64)
	n := runtime.Stack(buf, false)
	f := strings.Fields(string(buf[:n]))
	if len(f) >= 2 {
		return f[1]
	}
	return "?"
}

// settle waits until every live reader goroutine has either returned or is blocked in
// Cond.Wait (Broadcast makes waiters runnable synchronously, so "in Cond.Wait" after the
// writer op returned means "parked again").  Returns false if that could not be confirmed.
func (h *streamHarness) settle() bool {
	deadline := time.Now().Add(3 * time.Second)
	for {
		live := 0
		gids := map[string]bool{}
		for _, r := range h.readers {
			if r.done {
				continue
			}
			select {
			case res := <-r.res:
				r.done, r.result = true, res
			default:
				live++
				gids[r.gid] = true
			}
		}
		if live == 0 || parkedReaders(gids) == live {
			return true
		}
		if time.Now().After(deadline) {
			return false
		}
		time.Sleep(200 * time.Microsecond)
	}
}

func verifReader(o *OutputStream, ctx context.Context, x uint64, res chan string, gid chan string) {
	gid <- myGid()
	defer func() {
		if r := recover(); r != nil {
			res <- "panic"
		}
	}()
	msgs := o.GetNext(ctx, robust.Id{Id: x})
	if len(msgs) == 0 {
		res <- "ret:[]"
		return
	}
	res <- "ret:" + canonMsgs(msgs)
}

func newStreamHarness(t *testing.T) *streamHarness {
	dir, err := os.MkdirTemp(os.Getenv("VERIF_TMP"), "vos-")
	if err != nil {
		t.Fatal(err)
	}
	o, err := NewOutputStream(dir)
	if err != nil {
		t.Fatal(err)
	}
	return &streamHarness{t: t, dir: dir, o: o, readers: map[string]*vreader{}}
}

func (h *streamHarness) abandonReaders() {
	for _, r := range h.readers {
		r.cancel()
	}
	if !h.poisoned {
		h.o.InterruptGetNext()
		h.settle()
	}
	h.readers = map[string]*vreader{}
}

func (h *streamHarness) close() {
	h.o.Close()
	os.RemoveAll(h.dir)
}

func (h *streamHarness) dump() string {
	h.o.messagesMu.RLock()
	defer h.o.messagesMu.RUnlock()
	i := h.o.db.NewIterator(nil, nil)
	defer i.Release()
	var parts []string
	for i.Next() {
		mb := unmarshalMessageBatch(i.Value())
		parts = append(parts, fmt.Sprintf("%d:%d", binary.BigEndian.Uint64(i.Key()), mb.NextID))
	}
	return strings.Join(parts, " ") + fmt.Sprintf(" | last=%d:%d", h.o.lastseen.Messages[0].Id.Id, h.o.lastseen.NextID)
}

func (h *streamHarness) op(f []string) string {
	if h.poisoned && f[0] != "reset" {
		return "poisoned"
	}
	if f[0] == "burst" {
		// burst <op> ; <op> ; ... : writer ops back to back, readers get no chance to settle in
		// between (best effort: one P, so a woken reader only runs when the writer blocks)
		old := runtime.GOMAXPROCS(1)
		var rs []string
		var cur []string
		flush := func() {
			if len(cur) > 0 {
				rs = append(rs, h.op1(cur))
				cur = nil
			}
		}
		for _, w := range f[1:] {
			if w == ";" {
				flush()
			} else {
				cur = append(cur, w)
			}
		}
		flush()
		runtime.GOMAXPROCS(old)
		res := strings.Join(rs, ",")
		if !h.settle() {
			res += " unsettled"
		}
		for _, r := range h.readers {
			if r.done && r.result == "panic" && !h.poisoned {
				h.poisoned = true
				res += " reader-panic"
			}
		}
		return res
	}
	res := h.op1(f)
	if f[0] == "add" || f[0] == "cancel" || f[0] == "del" {
		if !h.settle() {
			res += " unsettled"
		}
	}
	if f[0] == "join" || f[0] == "park" || f[0] == "add" || f[0] == "cancel" || f[0] == "del" {
		for _, r := range h.readers {
			if r.done && r.result == "panic" && !h.poisoned {
				h.poisoned = true // the reader died holding messagesMu
				res += " reader-panic"
			}
		}
	}
	return res
}

func (h *streamHarness) op1(f []string) string {
	return safely(func() string {
		switch f[0] {
		case "park":
			ctx, cancel := context.WithCancel(context.Background())
			r := &vreader{cancel: cancel, res: make(chan string, 1)}
			h.readers[f[1]] = r
			gch := make(chan string, 1)
			go verifReader(h.o, ctx, vu64(f[2]), r.res, gch)
			r.gid = <-gch
			if !h.settle() {
				return "unsettled"
			}
			if r.done {
				if r.result == "panic" {
					h.poisoned = true
				}
				return r.result
			}
			return "parked"
		case "join":
			r := h.readers[f[1]]
			if r == nil {
				return "bad-op"
			}
			h.settle()
			if r.done {
				return r.result
			}
			return "blocked"
		case "cancel":
			r := h.readers[f[1]]
			if r == nil {
				return "bad-op"
			}
			r.cancel()
			h.o.InterruptGetNext()
			return "ok"
		case "reset":
			h.abandonReaders()
			h.poisoned = false
			h.o.Close()
			o, err := NewOutputStream(h.dir)
			if err != nil {
				h.t.Fatal(err)
			}
			h.o = o
			return "ok"
		case "add":
			mb := parseBatch(f[1:])
			if err := h.o.Add(mb.Messages); err != nil {
				return "error"
			}
			return "ok"
		case "del":
			if err := h.o.Delete(robust.Id{Id: vu64(f[1])}); err != nil {
				return "error"
			}
			return "ok"
		case "get":
			msgs, ok := h.o.Get(robust.Id{Id: vu64(f[1])})
			if !ok {
				return "none"
			}
			return canonMsgs(msgs)
		case "next":
			ctx, cancel := context.WithCancel(context.Background())
			cancel()
			msgs := h.o.GetNext(ctx, robust.Id{Id: vu64(f[1])})
			if len(msgs) == 0 {
				return "blocked"
			}
			return canonMsgs(msgs)
		case "lastseen":
			id := h.o.LastSeen()
			return fmt.Sprintf("%d", id.Id)
		case "dump":
			return h.dump()
		}
		return "bad-op"
	})
}
