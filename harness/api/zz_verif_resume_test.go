//go:build verif

package api

// Correspondence harness for C04: drives the real getMessages goroutine against a real
// OutputStream whose content grows while the connection is open.

import (
	"bufio"
	"context"
	"encoding/hex"
	"fmt"
	"io"
	"log"
	"math/rand"
	"os"
	"strconv"
	"strings"
	"sync"
	"testing"
	"time"
	"unicode/utf8"

	"github.com/robustirc/robustirc/internal/outputstream"
	"github.com/robustirc/robustirc/internal/robust"
)

func vu64(s string) uint64 {
	n, err := strconv.ParseUint(s, 10, 64)
	if err != nil {
		panic("bad uint " + s)
	}
	return n
}

// conn <p0> <lastId> <lastReply> <want> <seed> ; <nb> {<id> <n> {<k> <r>*}^n}^nb
func runConn(line string, tmp string) (res string) {
	defer func() {
		if r := recover(); r != nil {
			res = fmt.Sprintf("panic: %v", r)
		}
	}()
	parts := strings.SplitN(line, ";", 2)
	h := strings.Fields(parts[0])
	f := strings.Fields(parts[1])
	p0, lastId, lastReply, want, seed := int(vu64(h[1])), vu64(h[2]), vu64(h[3]), int(vu64(h[4])), int64(vu64(h[5]))
	nb := int(vu64(f[0]))
	p := 1
	var net [][]outputstream.Message
	for b := 0; b < nb; b++ {
		id := vu64(f[p])
		n := int(vu64(f[p+1]))
		p += 2
		var msgs []outputstream.Message
		for j := 0; j < n; j++ {
			k := int(vu64(f[p]))
			p++
			m := outputstream.Message{Id: robust.Id{Id: id, Reply: uint64(j + 1)}, Data: fmt.Sprintf("m%d.%d", id, j+1), InterestingFor: map[uint64]bool{}}
			for x := 0; x < k; x++ {
				m.InterestingFor[vu64(f[p])] = true
				p++
			}
			msgs = append(msgs, m)
		}
		net = append(net, msgs)
	}
	dir, err := os.MkdirTemp(tmp, "c04-")
	if err != nil {
		return "error " + err.Error()
	}
	defer os.RemoveAll(dir)
	o, err := outputstream.NewOutputStream(dir)
	if err != nil {
		return "error " + err.Error()
	}
	defer o.Close()
	for _, b := range net[:p0] {
		if err := o.Add(b); err != nil {
			return "error " + err.Error()
		}
	}
	api := &HTTP{outputUnlocked: o}
	ctx, cancel := context.WithCancel(context.Background())
	ch := make(chan []*robust.Message)
	done := make(chan struct{})
	go func() {
		defer close(done)
		api.getMessages(ctx, robust.Id{Id: lastId, Reply: lastReply}, ch)
	}()
	rng := rand.New(rand.NewSource(seed))
	addsDone := make(chan struct{})
	go func() {
		defer close(addsDone)
		for _, b := range net[p0:] {
			switch rng.Intn(5) {
			case 0:
			case 1:
				time.Sleep(50 * time.Microsecond)
			case 2:
				time.Sleep(500 * time.Microsecond)
			case 3:
				time.Sleep(2 * time.Millisecond)
			case 4:
				for i := 0; i < 3; i++ {
					// yield
					time.Sleep(0)
				}
			}
			if err := o.Add(b); err != nil {
				panic(err)
			}
		}
	}()
	var got []string
	grace := time.NewTimer(time.Hour)
	graceArmed := false
	addsCh := addsDone
loop:
	for len(got) < want {
		select {
		case msgs := <-ch:
			for _, m := range msgs {
				got = append(got, fmt.Sprintf("%d.%d", m.Id.Id, m.Id.Reply))
			}
			if graceArmed {
				if !grace.Stop() {
					select {
					case <-grace.C:
					default:
					}
				}
				grace.Reset(400 * time.Millisecond)
			}
		case <-addsCh:
			addsCh = nil
			graceArmed = true
			grace.Reset(400 * time.Millisecond)
		case <-grace.C:
			break loop
		}
	}
	cancel()
	o.InterruptGetNext()
	<-addsDone
	// drain so that getMessages can observe the cancellation
	go func() {
		for range ch {
		}
	}()
	select {
	case <-done:
	case <-time.After(5 * time.Second):
		return "getMessages did not return after cancellation"
	}
	if len(got) > want {
		got = got[:want]
	}
	return "[" + strings.Join(got, ",") + "]"
}

// firstline <hex|->: the real firstLine helper of the POST/DELETE handlers on the given text
func runFirstLine(h string) (res string) {
	defer func() {
		if r := recover(); r != nil {
			res = fmt.Sprintf("panic: %v", r)
		}
	}()
	if h == "-" {
		h = ""
	}
	b, err := hex.DecodeString(h)
	if err != nil {
		return "bad-op"
	}
	if !utf8.Valid(b) {
		return "bad-utf8"
	}
	out := firstLine(string(b))
	if out == "" {
		return "-"
	}
	return hex.EncodeToString([]byte(out))
}

func TestVerifResume(t *testing.T) {
	in, err := os.Open(os.Getenv("VERIF_OPS"))
	if err != nil {
		t.Skip("VERIF_OPS not set")
	}
	defer in.Close()
	log.SetOutput(io.Discard)
	var lines []string
	sc := bufio.NewScanner(in)
	sc.Buffer(make([]byte, 1<<20), 1<<28)
	for sc.Scan() {
		lines = append(lines, sc.Text())
	}
	res := make([]string, len(lines))
	var wg sync.WaitGroup
	sem := make(chan struct{}, 16)
	for i, l := range lines {
		wg.Add(1)
		sem <- struct{}{}
		go func(i int, l string) {
			defer wg.Done()
			defer func() { <-sem }()
			if strings.HasPrefix(l, "firstline ") {
				res[i] = runFirstLine(strings.TrimPrefix(l, "firstline "))
				return
			}
			if !strings.HasPrefix(l, "conn ") {
				res[i] = "bad-op"
				return
			}
			res[i] = runConn(l, os.Getenv("VERIF_TMP"))
		}(i, l)
	}
	wg.Wait()
	outf, err := os.Create(os.Getenv("VERIF_OUT"))
	if err != nil {
		t.Fatal(err)
	}
	defer outf.Close()
	for _, r := range res {
		fmt.Fprintln(outf, r)
	}
}
