//go:build verif

package timesafeguard

// Correspondence harness for C19 (injected with `go test -overlay`, never written to /repo).
// Reads one op per line from $VERIF_OPS, writes one canonical line per op to $VERIF_OUT.

import (
	"bufio"
	"fmt"
	"io"
	"log"
	"math/big"
	"os"
	"strings"
	"testing"
	"time"
)

func verifTime(ns string) time.Time {
	n, ok := new(big.Int).SetString(ns, 10)
	if !ok {
		panic("bad int " + ns)
	}
	sec, nsec := new(big.Int).DivMod(n, big.NewInt(1000000000), new(big.Int))
	return time.Unix(sec.Int64(), nsec.Int64()).UTC()
}

func TestVerifHarness(t *testing.T) {
	in, err := os.Open(os.Getenv("VERIF_OPS"))
	if err != nil {
		t.Skip("VERIF_OPS not set")
	}
	defer in.Close()
	outf, err := os.Create(os.Getenv("VERIF_OUT"))
	if err != nil {
		t.Fatal(err)
	}
	defer outf.Close()
	out := bufio.NewWriter(outf)
	defer out.Flush()
	log.SetOutput(io.Discard)
	sc := bufio.NewScanner(in)
	sc.Buffer(make([]byte, 1<<20), 1<<26)
	for sc.Scan() {
		f := strings.Fields(sc.Text())
		if len(f) < 3 || f[0] != "sync" {
			fmt.Fprintln(out, "bad-op")
			continue
		}
		*DisableTimesafeguard = f[1] == "1"
		var rs []timeResult
		for i := 3; i+2 < len(f); i += 3 {
			rs = append(rs, timeResult{Start: verifTime(f[i]), End: verifTime(f[i+1]), Result: verifTime(f[i+2])})
		}
		var drifts []string
		for _, r := range rs {
			drifts = append(drifts, fmt.Sprintf("%d", int64(r.worstCaseDrift())))
		}
		ins := "0"
		if timeInSync(rs) {
			ins = "1"
		}
		verdict := "ok"
		if err := synchronizedWithNetwork(rs); err != nil {
			msg := err.Error()
			const marker = "Conflicting remote times: "
			idx := strings.Index(msg, marker)
			lines := strings.Split(msg[idx+len(marker):], "\n")
			if idx < 0 || msg[idx+len(marker):] == "" {
				lines = nil
			}
			set := map[string]bool{}
			for _, l := range lines {
				set[l] = true
			}
			var offs []string
			for i, r := range rs {
				if set[r.String()] {
					offs = append(offs, fmt.Sprintf("%d", i))
				}
			}
			verdict = fmt.Sprintf("refuse:%s:%d", strings.Join(offs, ","), len(lines))
		}
		fmt.Fprintf(out, "drifts=%s insync=%s verdict=%s\n", strings.Join(drifts, ","), ins, verdict)
	}
}
