//go:build verif

package timesafeguard

// End-to-end part of C19: the real SynchronizedWithNetwork (collectTime, getServerTime over HTTPS) against
// fake peers.  One op per line: `net <peer> <peer> ...` with <peer> = clock offset in ms, or `down`.
// Result: `accept` or `refuse <n offending peers named>`.

import (
	"bufio"
	"encoding/json"
	"encoding/pem"
	"flag"
	"fmt"
	"io"
	"log"
	"net"
	"net/http"
	"net/http/httptest"
	"os"
	"path/filepath"
	"strconv"
	"strings"
	"testing"
	"time"
)

func TestVerifTimeNet(t *testing.T) {
	in, err := os.Open(os.Getenv("VERIF_OPS"))
	if err != nil {
		t.Skip("VERIF_OPS not set")
	}
	defer in.Close()
	outf, err := os.OpenFile(os.Getenv("VERIF_OUT"), os.O_CREATE|os.O_WRONLY|os.O_APPEND, 0o644)
	if err != nil {
		t.Fatal(err)
	}
	defer outf.Close()
	log.SetOutput(io.Discard)
	cafile := filepath.Join(os.Getenv("VERIF_TMP"), "ca.pem")
	sc := bufio.NewScanner(in)
	for sc.Scan() {
		f := strings.Fields(sc.Text())
		if len(f) < 2 || f[0] != "net" {
			fmt.Fprintln(outf, "bad-op")
			continue
		}
		var servers []*httptest.Server
		var peers []string
		for _, spec := range f[1:] {
			if spec == "down" {
				// a port nobody listens on
				l, err := net.Listen("tcp", "127.0.0.1:0")
				if err != nil {
					t.Fatal(err)
				}
				addr := l.Addr().String()
				l.Close()
				peers = append(peers, addr)
				continue
			}
			ms, _ := strconv.ParseInt(spec, 10, 64)
			off := time.Duration(ms) * time.Millisecond
			srv := httptest.NewTLSServer(http.HandlerFunc(func(w http.ResponseWriter, r *http.Request) {
				json.NewEncoder(w).Encode(map[string]interface{}{"State": "Follower", "Leader": "", "Peers": []string{}, "AppliedIndex": 1, "CurrentTime": time.Now().Add(off)})
			}))
			servers = append(servers, srv)
			peers = append(peers, strings.TrimPrefix(srv.URL, "https://"))
			if _, err := os.Stat(cafile); err != nil {
				pemBytes := pem.EncodeToMemory(&pem.Block{Type: "CERTIFICATE", Bytes: srv.Certificate().Raw})
				os.WriteFile(cafile, pemBytes, 0o600)
				flag.Set("tls_ca_file", cafile)
			}
		}
		*DisableTimesafeguard = false
		err := SynchronizedWithNetwork("self:1", peers, "pw")
		for _, s := range servers {
			s.Close()
		}
		if err == nil {
			fmt.Fprintln(outf, "accept")
		} else {
			fmt.Fprintln(outf, "refuse "+strings.ReplaceAll(err.Error(), "\n", " "))
		}
	}
}
