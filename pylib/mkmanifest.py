#!/usr/bin/env python3
"""Regenerates /verif/MANIFEST.json from the table below (single source of truth)."""
import json
import os

ROOT = os.path.dirname(os.path.dirname(os.path.abspath(__file__)))
ALL = ["C%02d" % i for i in range(1, 21)]

CHECKS = {
    "C05": dict(
        technique="Lean 4 composition theorems over the FSM bookkeeping model (C02) for several nodes whose committed logs are prefixes of one log, for every fault schedule per node; fault-schedule runs on an in-process single node (real raft, LevelDB, snapshots, HTTP handlers) and on a three-node network of real robustirc processes (internal/localnet) with SIGKILL, restart, snapshot and leader kill",
        text="Proved: whatever schedule of kills/restarts, snapshots, failed snapshot writes and restores a node goes through, its state is the replay of the prefix of the network log it has committed (C05_node_is_replay); an acknowledged command stays in the state through every continuation (C05_acked_never_lost), exactly once (C05_exactly_once_in_state); of any two nodes one has applied a prefix of the other (same order everywhere); two nodes hold the same output batches wherever neither has compacted, and only output older than the session horizon is ever compacted; the client side is C04's exactly-once theorem and C10's dedupe theorem. Assumed, not proved: raft's log matching (the nodes' commits are prefixes of one log). Every run executes generated fault schedules with posting/retrying clients on the in-process node and on three real processes and checks: acknowledged => delivered exactly once, per-sender order, identical sequences on all nodes.",
        design_ref="DESIGN.md §4 C05, §10",
        note="Trusts: Lean kernel; hashicorp/raft safety (hypothesis of the theorems); LevelDB durability; the free interpretation of the replicated state is connected to the real IRC state by C02's replay-digest runs; the run samples fault schedules, it does not enumerate them.",
    ),
    "C12": dict(
        technique="Lean 4 theorems characterising, for every client handler of the model and lifted to whole entries and histories, the exact recipient set of every output line (iff statements over the membership relation) and the prefix it carries (identity invariant PInv preserved by all handlers); reference monitor over the real code's outputs; correspondence of outputs and recipients between the real ProcessMessage and the model",
        text="Machine-checked proof that in every reachable state: a channel PRIVMSG/NOTICE is delivered to exactly the other members of that channel (C12_privmsg, C12_privmsg_no_eavesdrop, C12_privmsg_channel_delivered), a private one only to the session owning the target nickname, numeric replies only to the causing session, ERROR only to the closed session, JOIN/PART/KICK/TOPIC/MODE/INVITE notifications to exactly the members of that channel (+ services links), NICK/QUIT/KILL to exactly the sessions sharing a channel with the subject; every relayed line carries nick!user@robust/0x<session id> of the acting session, which no other registered client can carry (C12_sender_identity, C12_no_impersonation); lifted to applyEntry and to every history (C12_entry_client, C12_history). The services handlers are classified the same way (ServiceLine, C12_entry_services, C12_history_all). On every run the real code's outputs (Data and InterestingFor of every message) are compared with the model's on generated histories, and an independent reference monitor driven by the announced JOIN/PART/KICK/QUIT/NICK events checks the real recipients.",
        design_ref="DESIGN.md §4 C12",
        note="Trusts: Lean kernel; the hand-written handler models to the extent the differential runs exercise them; GetMessages filters by InterestingFor (exercised in C04/C11 runs). One leak found and repaired (services JOIN/PART announced on all common channels).",
    ),
    "C13": dict(
        technique="Lean 4 refusal-frame theorems per privileged command (lacking the privilege => replicated state unchanged and only the actor hears about it), origin theorems for the operator / server / member / chanop flags, and a history theorem for chanop status; reference monitor of privileges over the real code's announcements; correspondence runs",
        text="Machine-checked proof on the model: KICK, INVITE into +i, TOPIC on +t, and channel MODE (every letter of a multi-letter change, keys, bans, +o) leave the state unchanged unless the actor is channel operator there (MODE also for IRC operators); TOPIC set/clear needs membership; KILL, GLINE and $-targets need the operator flag, which only OPER with a configured name/password sets; the server flag is only set by SERVER after PASS with a configured services password and services handlers are only dispatched for such links; a session becomes member of an existing channel only if not banned, with the key on +k and an unused invitation on +i/+x (consumed once); over histories, an unprivileged client entry never creates a chanop flag on an existing channel (C13_chanop_history_partial). Captcha verification is outside the model (declined): exercised on the real code with correct/mutated/replayed/expired tokens. Every run compares the real code with the model on privilege-aware generated histories and checks every announced privileged effect against a reference model of who held what.",
        design_ref="DESIGN.md §4 C13",
        note="Trusts: Lean kernel; the hand-written handler models tied by differential runs; captcha HMAC checked dynamically only. Two defects found and repaired (TOPIC clear by non-member, +x captcha bypassing +b).",
    ),
    "C20": dict(
        technique="Lean 4 theorem on a trace model of RW locks (lock discipline => conflicting accesses of different threads are separated by release/acquire of the guard, never adjacent), a static lockset table regenerated from the Go source (function x field x read/write x locks held incl. callers' locks by call-graph fixpoint) checked against the guard assignment by kernel evaluation, and a stress run of all concurrently executed operation groups under the Go race detector",
        text="Proved: in the RWMutex trace model a disciplined program has no unordered conflicting accesses (C20_lockset_orders, C20_no_adjacent_race). Regenerated on every run and checked in the kernel: every access to a field of IRCServer, Session, channel, OutputStream, LevelDBStore, HTTP, FSM in the source holds the field's guard (exclusively for writes), every handler is entered with the session lock held exclusively, every field is classified as guarded / immutable / goroutine-confined, with nine justified exceptions; every acquisition of a mutex while another is (or through any caller may be) held respects one global lock order (C20_lock_order; the inversion it replaced deadlocked the node, fixed in 34426db). What a static lockset cannot see (escaping pointers, two server instances, confinement) is covered by running two POSTs per session, long-polls, create/delete, status pages, config, expiry, Snapshot+Persist and Restore concurrently under -race. Seven genuine races were found this way (one by the static table) and repaired.",
        design_ref="DESIGN.md §4 C20",
        note="Trusts: Lean kernel; tools/extract/locks.go (pattern-based lockset, not a sound alias analysis); sync.RWMutex semantics as modelled; the race detector sees only the schedules that occur. Restore is kept apart from readers of the closed stores in the stress run (those crash the process: observation in DESIGN.md, not a data race).",
    ),
    "C06": dict(
        technique="Lean 4 proof of panic-freedom of the model's applyEntry for all 46 handlers under an inductive state invariant (GInv), for every history; command table, MinParams and handler names regenerated from the Go source; the model is tied to the real ProcessMessage/applyRobustMessage by differential runs with recover() around every entry",
        text="Machine-checked proof (C06_no_panic, C06_client_no_panic, C06_history_no_panic) that in every state reachable by any history of well-formed entries, applying any further entry returns without hitting any of the model's panic sites (every map/slice/nil dereference of the Go handlers is an explicit panic site in the model) — for client sessions with no condition on the line at all, for services links for protocol-conforming lines (prefix present, documented parameter count). The command table is re-extracted on every run (a new command without a modelled handler breaks C06_table_modelled). The model is hand-written: its faithfulness is checked on every run by executing the same histories (grammar of all commands x parameter shapes + garbage) on the real code with recover() and comparing state dumps and outputs; a real panic is a violation with the history as replay. Where the model declines (captcha verification) the theorem says nothing.",
        design_ref="DESIGN.md §4 C06",
        note="Trusts: Lean kernel; tools/extract; the hand-written handler models to the extent the differential runs exercise them; sorcix/irc.v2 parsing is modelled (C15). Two real panics (TOPIC by a non-member, services NICK at the session limit) and a nil-URL crash were found and repaired.",
    ),
    "C14": dict(
        technique="Lean 4 inductive invariant proof over all handlers and all entry types (GInv = Inv + LInv + NInv + VInv), with corollaries spelling out the property; executable twin invB proved to follow from the invariant and compared on every state with an in-package walk over the real indexes",
        text="Machine-checked proof (C14_reachable, C14_step and corollaries) that after every entry of every well-formed history: nicknames are unique under IRC case mapping and valid, channel names valid and keyed by their lower-cased name, membership is symmetric, no stored channel is empty, every member is a live session reachable by its current nickname, nickless sessions are in no channel and not indexed, no session is left flagged deleted, session creation is refused exactly at the configured limit and only CreateSession entries and the services NICK add sessions (C14_limits_sessions_history); a channel is created only by JOIN, services JOIN and SVSJOIN and only below the configured limit, so the number of channels stays within MaxChannels along every history in which no Config entry lowers the limit below the current count (C14_all_handlers_channel_limit, C14_limits_channels_history; services used to ignore the limit: fixed in 2cf1f68). The executable predicate invB (proved to follow from the invariant, C14_invB) is evaluated by the driver on every model state and compared with VerifWalk over the real maps after every entry of generated histories (incl. SVSNICK/SVSJOIN/KILL/expiry/case-only nick changes and snapshot round-trips). Five genuine defects found this way were repaired (known_findings.json).",
        design_ref="DESIGN.md §4 C14",
        note="Trusts: Lean kernel; hand-written handler models tied by the differential runs; the limits are also checked per entry on the real code (state dumps after every entry of a quarter of the histories).",
    ),
    "C01": dict(
        technique="Lean 4 theorems over facts regenerated from the Go source (every map range on the replicated path classified by body shape; every clock/environment/goroutine use pinned outside the apply path) plus general order-insensitivity lemmas for each shape; the model run with all maps permuted after every entry and the real code run twice on the same histories",
        text="Proved (Props/C01Congr.lean): the model's behaviour does not depend on the order of its maps — for states that are permutations of one another (all maps, nested member maps and channel lists included) every one of the 41 handlers, processMessage and applyEntry give the same kind of result, equivalent states and the same output list with the same ids, replies and bytes and recipient lists that are permutations (C01_handlers_congr, C01_replicas_agree), hence two replicas that apply the same log stay equivalent and emit the same outputs (C01_history); Inv/GInv transfer along the equivalence. The only extra hypothesis is that hold keys are duplicate-free (preserved by every entry; a concrete counterexample shows it is needed). Also proved: order-insensitivity lemmas per shape of map iteration; regenerated on every run: the table of all map range sites with their shapes and of all clock/environment/goroutine uses, which must equal the classified tables. The tie of the model to the Go code is the correspondence run (outputs + full dumps), the model run with all maps permuted after every entry, and the real code run twice.",
        design_ref="DESIGN.md §4 C01",
        note="Trusts: Lean kernel; tools/extract (range-shape classifier); the shape -> insensitivity argument per site is by reading (recorded next to each site in Props/C01.lean); raft delivers the same log to all nodes.",
    ),
    "C03": dict(
        technique="Lean 4 model of Marshal->Unmarshal-into-a-fresh-instance (saveLoad) with theorems on the restored state; field-coverage tables regenerated from serialize.go and the struct declarations; histories with save+load cuts on the real code compared with the same histories without cuts and with the model",
        text="Proved: under the state invariant and Canon (executable forms evaluated at every cut of every run), Marshal->Unmarshal gives the same state up to the rebuilt indexes (C03_state_strong: lists restored verbatim, nick index pointwise equal), the restored state satisfies the invariants again, the round trip is idempotent, and — with the permutation congruence of C01 — every continuation from the restored state gives equivalent states and the same outputs as from the original (C03_continuation; hypothesis ServersExact: the server list holds no ids of deleted links, whose only effect is a recipient id that names no live session — a concrete history shows the hypothesis is needed for equality up to permutation). Field coverage of Marshal/Unmarshal against the struct declarations is regenerated on every run. Real Marshal/Unmarshal is compared with the model at random cuts, and histories with cuts are compared with the same histories without cuts on the real code (outputs to live sessions + full dumps).",
        design_ref="DESIGN.md §4 C03",
        note="Trusts: Lean kernel; tools/extract; the protobuf wire codec round-trips the decoded snapshot (C18 exercises it).",
    ),
    "C02": dict(
        technique="Lean 4 invariant proof over all schedules of commit/Snapshot/Persist/failed Persist/Restore/restart on a bookkeeping model with the free interpretation of the replicated state; differential runs of the real FSM on real LevelDB stores and a real raft file snapshot store; replay-digest oracle",
        text="Machine-checked proof, for every log (index gaps included) and every schedule, that the node's state equals a plain replay of the committed log, that every persisted snapshot plus its retained entries reproduces the full prefix, that the log copy and output store hold exactly the un-folded commands, and that a snapshot folds only inputs older than now - (SessionExpiration + 10 s). The bookkeeping model is compared step by step with the real FSM (irclog indices, output ids, lastSnapshotState keys, snapshot bounds), and the real IRC state is compared with a plain replay after every step. The proof attempt pinned down three genuine bookkeeping defects, repaired (see known_findings.json).",
        design_ref="DESIGN.md §4 C02",
        note="Trusts: Lean kernel; hashicorp/raft (in-order apply, restore-then-replay on restart); LevelDB / file snapshot store durability; the free interpretation is connected to the real IRC state by the replay-digest comparison (and by C01/C03).",
    ),
    "C10": dict(
        technique="Lean 4 theorems about the POST handler's decision model and the marker update (client entries and messages of death), regenerated facts pinning the dedupe test and its position in handlePostMessage; retry scenarios on the real api.HTTP handlers over an in-process raft node (snapshot, restart, SIGKILL)",
        text="Proved on the decision model: a POST whose client message id equals the session's marker is acknowledged without proposing an entry, any number of times; the FSM sets the marker before processing, and also for entries skipped as message of death; a closed session refuses the retry. The dedupe condition, its bare return and its position before the leader check/proxy/apply are re-extracted from postmessage.go on every run. Proved over all 41 handlers and all entry types: only the FSM's marker update writes the marker (C10_handlers_keep_marker, C10_client_entry_marker, C10_death_entry_marker), along any history a session's marker is the client message id of its last client/death entry (C10_marker_is_last_cmid), and a retry of that entry is acknowledged without a proposal (C10_retry_after_history).",
        design_ref="DESIGN.md §4 C10",
        note="Trusts: Lean kernel; tools/extract; raft commit semantics; retries arrive after the first copy was applied (property's quantifier).",
    ),
    "C11": dict(
        technique="Lean 4 theorems about the session-authentication model (sound: accepted => non-empty secret equal to exactly that session's; pseudo-clients unreachable; refusal => no proposal), route/guard tables regenerated from DispatchPublic/DispatchPrivate, the routes the listening http.Server can reach regenerated from package main and the binary's import closure (ServeMux model: everything outside /robustirc/v1/ goes to the password check); exhaustive request matrix on the real handlers compared with the model's decisions; probe of three real robustirc processes",
        text="Proved: api.session accepts only a non-empty header equal to the stored secret of exactly the named client session; missing/empty/other-session secrets are refused and a refused POST/DELETE proposes nothing; every public route except session creation is dominated by the session check and the private route table is reachable only after the basic-auth test (regenerated from the source on every run). The full matrix routes x credentials x session states is executed against the real handlers: refused requests answer non-200, append no entry and leave the state dump unchanged. The routes reachable from the listening server are exactly the two dispatchers (C11_served_routes, C11_mux_dispatch; before fix 942dbd4 the default mux also served /debug/pprof/* and /debug/vars without the password), and on every run three real robustirc processes are probed: documented private routes, every DefaultServeMux registration in the binary and arbitrary paths answer 401 without the network password.",
        design_ref="DESIGN.md §4 C11",
        note="Trusts: Lean kernel; tools/extract; net/http routing and BasicAuth; secrets are unguessable.",
    ),
    "C16": dict(
        technique="Lean 4 theorems about the config handler's decision model and the FSM's Config case; regenerated facts for the revision test and the proposed entry; sequences of valid/invalid/stale/future posts on the real handlers with snapshot+restore and SIGKILL",
        text="Proved: accepted iff the body parses and names the current revision; a rejected update proposes nothing; an accepted update, applied on any node, installs exactly that configuration with revision+1 and touches nothing else; unparsable entries are skipped; over all handlers and entry types the configuration changes only through Config entries and an IRC operator's GLINE, which only adds the ban (C16_handlers_keep_config, C16_gline_only_bans, C16_entry_config_cases, C16_config_entry_frame, C16_history_keeps_config). Sequences are executed on the real handlers (exhaustive up to length 4 in the thorough tier). WhitelistedOrigins must survive snapshot+restart (was lost; fixed in 60bc8a0).",
        design_ref="DESIGN.md §4 C16",
        note="Trusts: Lean kernel; tools/extract; BurntSushi/toml as the parser; posts are issued one after another.",
    ),
    "C17": dict(
        technique="Lean 4 theorems about the session lookup and expiry models, regenerated comparison/skip conditions; lookups on every prefix of generated histories (= every lag) against the real IRCServer and the model; real-clock expiry runs",
        text="Proved: 'no such session' is answered only for an id that is not stored and lies strictly below the last processed id (which, ids being assigned in log order, can never be created later); ids at or beyond it are 'not yet seen'; stored sessions are always found; the sweep proposes exactly the client sessions idle longer than the configured expiration and never a services pseudo-client. Proved: after a DeleteSession entry, QUIT, KILL or a ban the session is gone, its nickname is free and no channel lists it (C17_*_ends_session), the nick index never points to a missing session, and 'no such session' is final (C17_nosuch_is_final, via the bound C17_lastProcessed_bounded_partial; lastProcessed itself is not monotone — counterexample proved — because client entries record the session's id).",
        design_ref="DESIGN.md §4 C17",
        note="Trusts: Lean kernel; tools/extract; entry ids increase with the log (raft indexes).",
    ),
    "C07": dict(
        technique="Lean 4 theorems about a generic crash/restart model (a life marks exactly the panicking entry and dies; restarts converge to the replay of the marked log) plus the IRC instance of the marker effect, wiring facts regenerated from statemachine.go; child-process runs of the real FSM with the test-only PANIC command, SIGKILL-free real process exits, restart and replay",
        text="Machine-checked proof, for any state machine and any log, that a process life which hits a panicking entry rewrites exactly that entry as message of death (same message, nothing else changes, all earlier entries applied normally) and terminates, that a surviving life leaves the log untouched, and that after at most one restart per unmarked entry the node is up with exactly the state of replaying the marked log — marked entries having only the marker effect, which in the IRC instance is proved to touch only the named session's duplicate-detection marker and activity times and to produce no output. The recover handler's order mark -> store -> exit and the skip of already-marked entries are re-extracted from the source on every run; real crash/restart runs in child processes check marking, exit status, state and marker on the real code.",
        design_ref="DESIGN.md §4 C07",
        note="Trusts: Lean kernel; tools/extract; raft replays the durable log in order after restart; LevelDB durability across process exit; glog.Fatalf exits the process. The model is generic: which entries panic is whatever the real handlers do.",
    ),
    "C15": dict(
        technique="Lean 4 theorems about the byte-level model of irc.ParseMessage / Message.Bytes and of the handlers' firstLine cut (clean in => one clean line out, <= 510 bytes), regenerated facts pinning both HTTP handlers to firstLine, differential run of the real firstLine against the model's on generated texts, correspondence of the whole IRC layer with the real code, line predicate on every delivered line",
        text="Machine-checked proof that rendering never exceeds 510 bytes, that a message assembled from strings without CR/LF/NUL renders to bytes without CR/LF/NUL (UTF-8 encoding lemma included), that parsing a clean line yields clean prefix/command/parameters (case-mapping tables checked by kernel evaluation), that firstLine returns a clean prefix of its input, and that posted text after cut+parse+render is one clean line; the handlers' use of firstLine is re-extracted from the Go source on every run and the real firstLine is run against the model's definition on generated texts (clean, cut, separators first/last/beyond byte 512, multi-byte). State level, proved over all 41 handlers, all entry types and all histories: every stored string stays free of CR/LF/NUL and every output line is clean and at most 510 bytes (C15_history_outputs_clean); user names are bounded (after fix 916cb2e), prefixes are bounded, and every output line keeps its command after the 510-byte cut (C15_history_lines_have_command; assumptions on names chosen by services and the operator are explicit hypotheses). The line predicate (length, CR/LF/NUL, [prefix] command) is evaluated on every delivered line of every generated history on the real code.",
        design_ref="DESIGN.md §4 C15",
        note="Trusts: Lean kernel; tools/extract; the pinned sorcix/irc.v2 parse/render model and the handlers are tied by differential runs; JSON decoding yields valid UTF-8.",
    ),
    "C08": dict(
        technique="Lean 4 invariant proof over a transition system whose atomic steps are the lock regions of outputstream.go, for any number of concurrent GetNext readers and every interleaving; sequential + steered-concurrent (park/burst/cancel) differential runs of the real OutputStream against the model and a sorted-map oracle",
        text="Machine-checked proof, by one inductive invariant over all reachable configurations of the concurrent system (any number of readers, any interleaving of Add/Delete/Get/Interrupt/cancel and reader phases): what GetNext returns is the least stored batch above x at the instant it returns; a reader blocked in Cond.Wait has no stored successor (no lost wake-up); a cancelled, woken reader returns; no step panics; Get refines a plain map. The failed proof of an earlier version exposed a real lost-wake-up defect, since repaired (fix commits listed in known_findings.json).",
        design_ref="DESIGN.md §4 C08",
        note="Trusts: Lean kernel; sync.RWMutex/Cond semantics (lock regions are atomic, Wait releases atomically, Broadcast wakes all); goleveldb as sorted map; step boundaries = lock regions (read off the code by hand, exercised by the steered concurrent runs); cache eviction not modelled (invisible under the proved cache-coherence invariant).",
    ),
    "C04": dict(
        technique="Lean 4 proof over an executable model of the getMessages resume loop (prefix/exactly-once theorems for one connection and for a client over any number of connections with arbitrary cuts and node lags), tied to the real getMessages goroutine + real OutputStream by a differential run with concurrent Adds",
        text="Machine-checked proof that a connection resuming at lastseen=(id,reply) on a node of any lag delivers exactly a prefix of the messages positioned after (id,reply), in order (C04_conn_prefix/complete, lag irrelevant), and that a client reading over any number of successive connections, cut anywhere incl. inside a batch and resuming with the last message it received, has in total received a prefix of its filtered stream: none missing, none twice (C04_client_exactly_once). The model is compared with the real getMessages goroutine on every run.",
        design_ref="DESIGN.md §4 C04",
        note="Trusts: Lean kernel; GetNext contract (least stored batch above x: proved in C08); the node's stream is a growing prefix of the id-sorted network output (no compaction inside the window); replies numbered 1..n; the model's faithfulness as exercised by the differential run; the per-session filter of handleGetMessages is applied by the reference.",
    ),
    "C09": dict(
        technique="Lean 4 refinement proof of a sorted byte-string-map model of the LevelDB store to an abstract (index -> entry, key -> value) spec; differential runs of the real LevelDBStore (incl. close/reopen, JSON->protobuf conversion and SIGKILL/reopen) against the model and a plain map oracle",
        text="Machine-checked proof that big-endian index keys order numerically and never collide with stablestore- keys, that the representation invariant is preserved by every operation, and that GetLog/FirstIndex/LastIndex/StoreLogs/DeleteRange/Set/Get/SetUint64/GetUint64/ConvertToProto/reopen refine the abstract log and stable maps (DeleteRange removes exactly [min,max] incl. 2^64-1 and never touches the stable store; conversion keeps every entry's decoded message). The hand-written model is tied to the code by a differential run on every check.",
        design_ref="DESIGN.md §4 C09",
        note="Trusts: Lean kernel; goleveldb (sorted map, atomic batches, durability across close and process kill); protobuf/JSON value codecs (assumed round-trip, exercised by the run); the model's faithfulness to the extent the differential run exercises it.",
    ),
    "C18": dict(
        technique="Lean 4 round-trip theorem for the byte-exact output-batch codec; theorems over field-copy tables regenerated from the Go AST (every encoder/decoder of robust.Message and raft.Log found in the repo); cross-decoding differential run Go<->Lean and real protobuf/JSON round trips",
        text="Proof that unmarshal(marshal b) = b for every output batch (any sizes, any bytes, recipients up to 2^64-1), and that the regenerated field-copy tables of ProtoMessage/CopyToProtoMessage/NewMessageFromBytes and of all raft-log writers/readers compose to the identity on every field (lifted to all records by a general lemma); id defaulting modelled and pinned to the regenerated condition. The wire codecs themselves are assumed and validated on every run with real protobuf/JSON round trips.",
        design_ref="DESIGN.md §4 C18",
        note="Trusts: Lean kernel; tools/extract copy-fact extraction; proto.Marshal/Unmarshal, encoding/json, timestamppb round-trips (exercised by the differential run, not proved).",
    ),
    "C19": dict(
        technique="Lean 4 theorems over definitions regenerated from timesafeguard.go by a Go-to-Lean fragment translator; differential run of the real functions vs the model; soundness oracle on synthetic measurements",
        text="Machine-checked proof (Lean 4, unbounded integers incl. int64 wrap/saturation) that a measurement accepted by the regenerated worstCaseDrift/timeInSync implies |true offset| < 2s for every delay pattern, that refusal lists exactly the offending answered peers, that unanswered peers are ignored and that only the flag overrides; the definitions are re-translated from the Go source on every run and synchronizedWithNetwork is tied by a differential run.",
        design_ref="DESIGN.md §4 C19",
        note="Trusts: Lean kernel; the fragment translator (tools/extract/frag.go); time.Time modelled as unbounded ns with saturating Sub; collectTime/getServerTime (HTTP, goroutines) not modelled: exercised end to end against fake HTTPS peers (in sync / off / unreachable).",
    ),
}

NOT_YET = "not claimed yet in this revision: the model/proof for this property has not been built (work in progress, see DESIGN.md §8); the technique does apply"


def main():
    checks = []
    for pid in ALL:
        if pid not in CHECKS:
            continue
        c = CHECKS[pid]
        checks.append({
            "property_id": pid,
            "quick_cmd": "./check %s quick" % pid,
            "thorough_cmd": "./check %s thorough" % pid,
            "evidence_file": "/verif/evidence/%s.json" % pid,
            "replay_cmd_template": "./check %s --replay {path}" % pid,
            "engine": "lean4-proof+correspondence",
            "level_claimed": {"category": c.get("category", "proof"), "text": c["text"], "design_ref": c["design_ref"]},
            "level_note": c["note"],
            "technique": c["technique"],
        })
    m = {
        "version": 1,
        "setup_cmd": "./setup.sh",
        "hooks": {
            "guard": "verif",
            "enable": "go test -c -tags verif -overlay /verif/build/overlay_<name>.json (harness files carry //go:build verif and are injected by overlay; nothing is written under /repo)",
            "baseline_off_cmd": "cd /repo && go build ./... && go test -vet=off -count=1 -timeout 25m ./...",
            "source_commits": [],
            "add_only": True,
        },
        "engines": [{
            "name": "lean4-proof+correspondence", "path": "/verif/check",
            "serves_properties": [c["property_id"] for c in checks],
            "kind_free_text": "Lean 4 theorems about an executable model (lean/Robust), tied to /repo on every run by a Go AST translator (tools/extract -> lean/Robust/Gen) and by differential runs of Go harnesses (harness/, injected with go -overlay) against the compiled Lean driver",
        }],
        "checks": checks,
        "not_applicable": [{"property_id": p, "reason": NOT_YET} for p in ALL if p not in CHECKS],
        "notes": "Fix commits in /repo are listed in known_findings.json (status fixed). No hook commits: harnesses are overlay-injected.",
    }
    json.dump(m, open(os.path.join(ROOT, "MANIFEST.json"), "w"), indent=1)


if __name__ == "__main__":
    main()
