"""Independent reference monitors for C12 (who receives what, under which identity) and C13
(privileged effects require the privilege).  They are driven only by what the server announces
(JOIN/PART/KICK/QUIT/NICK/MODE lines, numerics) plus the input entries, never by the model."""
import re
import irc_check

HOST_RE = re.compile(r"^robust/0x([0-9a-f]+)$")


def lower_nick(n):
    return n.lower().replace("[", "{").replace("]", "}").replace("\\", "|")


def lower_chan(c):
    return c.lower()


def parse_line(data):
    """bytes of one output line -> (prefix or None, command, params)"""
    s = data.decode("utf-8", "replace")
    pfx = None
    if s.startswith(":"):
        sp = s.find(" ")
        if sp < 0:
            return (s[1:], "", [])
        pfx, s = s[1:sp], s[sp + 1:]
    if " :" in (" " + s):
        head, _, trail = (" " + s).partition(" :")
        parts = [p for p in head.strip().split(" ")] if head.strip() else []
        params = parts[1:] + [trail]
        cmd = parts[0] if parts else ""
    else:
        parts = s.split(" ")
        cmd, params = parts[0], parts[1:]
    return (pfx, cmd, params)


def split_prefix(p):
    nick, user, host = p, "", ""
    if "@" in p:
        nick, host = p.split("@", 1)
    if "!" in nick:
        nick, user = nick.split("!", 1)
    return nick, user, host


class World:
    """what an outside observer knows from the announcements"""

    def __init__(self):
        self.members = {}      # lc chan -> {nick lc: recipient id}   (recipient id = session id; pseudo-clients: their link's id)
        self.chanops = {}      # lc chan -> set of nick lc
        self.nick_sid = {}     # nick lc -> recipient id
        self.sid_nick = {}     # session id -> current nick (clients)
        self.dead = set()
        self.servers = set()
        self.opers = set()
        self.modes = {}        # lc chan -> set of mode letters
        self.topic_locked = {}
        self.created = set()
        self.keys = {}         # lc chan -> key (+k)
        self.bans = {}         # lc chan -> list of (mask, [compiled patterns])
        self.invites = set()   # (lc chan, session id): unused invitations
        self.addr = {}         # session id -> last known remote address
        self.uncertain = set() # channels whose modes/ops may have changed without an announcement
        self.ended = set()     # sessions for which a DeleteSession entry was applied

    def ban_patterns(self, mask):
        """ircserver: regexp.QuoteMeta(mask) with \\* -> .*, matched unanchored; a ban on a session host also
        bans that session's remote address (as known when the ban is set)"""
        def comp(m):
            return re.compile(re.escape(m).replace("\\*", ".*"))
        pats = [comp(mask)]
        m = re.search(r"robust/0x([0-9a-f]+)", mask)
        if m:
            sid = int(m.group(1), 16)
            # only a session that exists when the ban is set is resolved to its address
            a = self.addr.get(sid) if (sid in self.created and sid not in self.dead and sid not in self.ended) else None
            if a:
                pats.append(comp(mask.replace(m.group(0), a)))
        return pats

    def sid_of_prefix(self, pfx):
        nick, user, host = split_prefix(pfx)
        m = HOST_RE.match(host)
        if m:
            return int(m.group(1), 16)
        return self.nick_sid.get(lower_nick(nick))


def monitor(h, g, which):
    """which in {"C12","C13"}; returns None or (index, signature, text)"""
    w = World()
    for j, (op, go) in enumerate(zip(h, g)):
        f = op.split()
        if f[0] == "R":
            w = World()
            continue
        if f[0] != "E":
            continue
        if go.startswith("panic"):
            return None
        msgs = irc_check.parse_out(go) or []
        ty, actor = f[1], int(f[3])
        text = irc_check.txt(op)
        if ty == "0":
            w.created.add(int(f[2]))
        if ty == "1":
            w.ended.add(actor)
        if ty == "2" and len(f) > 8 and f[8] != "-":
            try:
                w.addr[actor] = bytes.fromhex(f[8]).decode("utf-8", "replace")
            except ValueError:
                pass
        inp = parse_line(text.encode()) if ty == "2" else (None, "QUIT", [text]) if ty == "1" else (None, "", [])
        icmd = inp[1].upper()
        actor_is_server = actor in w.servers
        # cmdMode applies a multi-letter change but suppresses the channel-wide announcement as soon as any
        # reply went to the sender (+k/-k confirmation, an error for one letter): after such a command an
        # observer no longer knows the channel's modes, key, bans and operators
        if ty == "2" and icmd == "MODE" and len(inp[2]) >= 2 and inp[2][0].startswith("#") and not actor_is_server:
            want = {ch for ch in inp[2][1] if ch not in "+-"}
            told, refused = set(), False
            for (mid, rep, data, rc) in msgs:
                p2, c2, a2 = parse_line(data)
                if c2 == "482":
                    refused = True
                if c2 == "MODE" and len(a2) >= 2 and lower_chan(a2[0]) == lower_chan(inp[2][0]):
                    told |= {ch for ch in a2[1] if ch not in "+-"}
            if not refused and not want <= told and not (want == {"b"} and len(inp[2]) == 2):
                w.uncertain.add(lower_chan(inp[2][0]))
        # pass 1: check every message against the world *before* this entry's announcements take
        # effect (JOIN is applied first: the joiner is entitled to its own JOIN and what follows)
        for (mid, rep, data, rc) in msgs:
            pfx, cmd, params = parse_line(data)
            rcs = set(rc)
            services = w.servers
            if cmd == "JOIN" and pfx and params:
                sid = w.sid_of_prefix(pfx)
                lc = lower_chan(params[0])
                if which == "C13" and icmd == "JOIN" and not actor_is_server and sid == actor and w.members.get(lc) and lc not in w.uncertain \
                        and lower_nick(split_prefix(pfx)[0]) not in w.members.get(lc, {}):
                    bad = check_join(w, actor, inp, pfx, lc, params[0])
                    if bad:
                        return j, "c13:" + bad[0], "%s — output %r (input %r from session %d)" % (bad[1], data[:100], text[:80], actor)
                if sid is not None:
                    w.members.setdefault(lc, {})[lower_nick(split_prefix(pfx)[0])] = sid
            if which == "C12":
                bad = check_c12(w, actor, actor_is_server, icmd, pfx, cmd, params, rcs, services, msgs, inp)
                if bad:
                    return j, "c12:" + bad[0], "%s — output %r to %s (input %r from session %d)" % (bad[1], data[:100], sorted(rcs), text[:80], actor)
            else:
                bad = check_c13(w, actor, actor_is_server, icmd, inp, pfx, cmd, params, rcs)
                if bad:
                    return j, "c13:" + bad[0], "%s — output %r (input %r from session %d)" % (bad[1], data[:100], text[:80], actor)
        # services pseudo-clients are introduced silently (`NICK <nick> <hop> <ts> <user> …` from a link)
        if ty == "2" and actor_is_server and actor not in w.dead and icmd == "NICK" and len(inp[2]) >= 4 and not any(parse_line(m[2])[1] in ("433", "NOTICE", "461") for m in msgs):
            w.nick_sid.setdefault(lower_nick(inp[2][0]), actor)
        # pass 2: update the world from the announcements
        for (mid, rep, data, rc) in msgs:
            pfx, cmd, params = parse_line(data)
            update_world(w, actor, icmd, inp, pfx, cmd, params, set(rc))
    return None


def check_join(w, actor, inp, pfx, lc, chname):
    """a session became member of an existing channel: were the join restrictions met?"""
    modes = w.modes.get(lc, set())
    invited = (lc, actor) in w.invites
    if "i" in modes and not invited:
        return ("join", "JOIN of invite-only channel %s without an invitation" % chname)
    nick, user, host = split_prefix(pfx)
    forms = [pfx]
    if actor in w.addr:
        forms.append("%s!%s@%s" % (nick, user, w.addr[actor]))
    for mask, pats in w.bans.get(lc, []):
        if any(p.search(fm) for p in pats for fm in forms):
            return ("join", "JOIN of %s although ban %r matches %s" % (chname, mask, forms))
    captcha_in_place_of_key = "x" in modes and not invited
    if "k" in modes and not captcha_in_place_of_key:
        chans = inp[2][0].split(",") if inp[2] else []
        keys = inp[2][1].split(",") if len(inp[2]) > 1 else []
        key = ""
        for idx, c in enumerate(chans):
            if lower_chan(c) == lc:
                key = keys[idx] if idx < len(keys) else ""
                break
        if key != w.keys.get(lc, ""):
            return ("join", "JOIN of +k channel %s with key %r (the key is %r)" % (chname, key, w.keys.get(lc, "")))
    if "i" in modes or "x" in modes:
        w.invites.discard((lc, actor))      # invitations are valid once
    return None


def update_world(w, actor, icmd, inp, pfx, cmd, params, rcs):
    if cmd == "001" and params:
        w.sid_nick[actor] = params[0]
        w.nick_sid[lower_nick(params[0])] = actor
    elif cmd == "SERVER" and pfx is None and icmd == "SERVER":
        w.servers.add(actor)
    elif cmd == "381":
        w.opers.add(actor)
    elif cmd == "NICK" and pfx and len(params) == 1:
        old = lower_nick(split_prefix(pfx)[0])
        sid = w.sid_of_prefix(pfx)
        new = lower_nick(params[0])
        if sid is not None:
            if w.nick_sid.get(old) == sid:
                del w.nick_sid[old]
            w.nick_sid[new] = sid
            if HOST_RE.match(split_prefix(pfx)[2] or ""):
                w.sid_nick[sid] = params[0]
            for lc, mem in w.members.items():
                if old in mem and old != new:
                    mem[new] = mem.pop(old)
            for lc, ops in w.chanops.items():
                if old in ops:
                    ops.discard(old)
                    ops.add(new)
    elif cmd == "NICK" and pfx is None and len(params) >= 4 and icmd != "NICK":
        pass
    elif cmd in ("PART", "KICK") and pfx and params:
        lc = lower_chan(params[0])
        who = lower_nick(params[1]) if cmd == "KICK" and len(params) > 1 else lower_nick(split_prefix(pfx)[0])
        mem = w.members.get(lc, {})
        mem.pop(who, None)
        w.chanops.get(lc, set()).discard(who)
        if not mem:
            w.members.pop(lc, None)
            w.chanops.pop(lc, None)
            w.modes.pop(lc, None)
            w.keys.pop(lc, None)
            w.bans.pop(lc, None)
            w.uncertain.discard(lc)
    elif cmd == "INVITE" and pfx and len(params) >= 2:
        for sid in rcs - w.servers:
            w.invites.add((lower_chan(params[1]), sid))
    elif cmd == "QUIT" and pfx:
        who = lower_nick(split_prefix(pfx)[0])
        sid = w.sid_of_prefix(pfx)
        for lc in list(w.members):
            mem = w.members[lc]
            mem.pop(who, None)
            w.chanops.get(lc, set()).discard(who)
            if not mem:
                w.members.pop(lc, None)
                w.chanops.pop(lc, None)
                w.modes.pop(lc, None)
                w.keys.pop(lc, None)
                w.bans.pop(lc, None)
                w.uncertain.discard(lc)
        if w.nick_sid.get(who) is not None:
            del w.nick_sid[who]
    elif cmd == "ERROR" and pfx is None and params and params[0].startswith("Closing Link"):
        for sid in rcs:
            w.dead.add(sid)
            n = w.sid_nick.get(sid)
            if n and w.nick_sid.get(lower_nick(n)) == sid:
                del w.nick_sid[lower_nick(n)]
            for lc in list(w.members):
                # a session closed without QUIT announcement (ban, registration timeout)
                if sid not in w.servers:
                    for nn in [k for k, v in w.members[lc].items() if v == sid]:
                        w.members[lc].pop(nn)
                        w.chanops.get(lc, set()).discard(nn)
                    if not w.members[lc]:
                        w.members.pop(lc, None)
                        w.chanops.pop(lc, None)
                        w.modes.pop(lc, None)
                        w.keys.pop(lc, None)
                        w.bans.pop(lc, None)
                        w.uncertain.discard(lc)
    elif cmd == "SJOIN" and len(params) >= 3:
        lc = lower_chan(params[1])
        n = params[2]
        if n.startswith("@"):
            w.chanops.setdefault(lc, set()).add(lower_nick(n[1:]))
    elif cmd == "MODE" and params and params[0].startswith("#") and len(params) >= 2:
        lc = lower_chan(params[0])
        adding, args = True, list(params[2:])
        # the announcement lists all additions before all removals, whatever the order in which they were
        # applied: if the same mode (and argument) occurs with both signs the outcome cannot be told
        seen_pm, a2, ad2 = set(), list(params[2:]), True
        for ch in params[1]:
            if ch in "+-":
                ad2 = ch == "+"
                continue
            arg = (a2.pop(0) if a2 else "") if ch in "okbd" else ""
            key = (ch, lower_nick(arg) if ch == "o" else arg)
            if (not ad2, key) in seen_pm:
                w.uncertain.add(lc)
            seen_pm.add((ad2, key))
        for ch in params[1]:
            if ch == "+":
                adding = True
            elif ch == "-":
                adding = False
            elif ch in "okbd":
                a = args.pop(0) if args else ""
                if ch == "o" and a:
                    (w.chanops.setdefault(lc, set()).add if adding else w.chanops.setdefault(lc, set()).discard)(lower_nick(a))
                if ch == "k":
                    ms = w.modes.setdefault(lc, set())
                    if adding:
                        ms.add("k")
                        w.keys[lc] = a
                    else:
                        ms.discard("k")
                        w.keys.pop(lc, None)
                if ch == "b" and a:
                    if adding:
                        w.bans.setdefault(lc, []).append((a, w.ban_patterns(a)))
                    else:
                        w.bans[lc] = [b for b in w.bans.get(lc, []) if b[0] != a]
            else:
                s = w.modes.setdefault(lc, set())
                (s.add if adding else s.discard)(ch)


def check_c12(w, actor, actor_is_server, icmd, pfx, cmd, params, rcs, services, msgs, inp=None):
    live = lambda ids: {i for i in ids if i not in w.dead}
    non_svc = rcs - services
    is_numeric = len(cmd) == 3 and cmd.isdigit()
    client_pfx = pfx is not None and HOST_RE.match(split_prefix(pfx)[2] or "") is not None
    if cmd in ("PRIVMSG", "NOTICE") and client_pfx and params:
        sender = w.sid_of_prefix(pfx)
        nick = split_prefix(pfx)[0]
        if not actor_is_server and sender != actor and icmd not in ("INVITE", "KNOCK"):
            return ("identity", "relayed line carries the identity of session %s but was sent by %d" % (sender, actor))
        if sender == actor and w.sid_nick.get(actor) not in (None, nick):
            return ("identity", "relayed line carries nickname %r, the sender's current nickname is %r" % (nick, w.sid_nick.get(actor)))
        if params[0].startswith("#"):
            mem = set(w.members.get(lower_chan(params[0]), {}).values())
            want = mem - {sender}
            if not non_svc <= want:
                return ("eavesdrop", "channel message delivered to %s who are not members of %s" % (sorted(non_svc - want), params[0]))
            if not live(want) - services <= rcs:
                return ("missed", "channel message not delivered to members %s of %s" % (sorted(live(want) - rcs), params[0]))
        elif params[0].startswith("$"):
            pass
        else:
            owner = w.nick_sid.get(lower_nick(params[0]))
            if owner is not None and lower_nick(w.sid_nick.get(owner, "")) != lower_nick(params[0]):
                owner = None     # a services pseudo-client: introduced and removed silently, ownership not observable
            if owner is not None and rcs != {owner}:
                return ("private", "private message for %r delivered to %s, owner is %s" % (params[0], sorted(rcs), owner))
            if owner is None and len(non_svc) > 1:
                return ("private", "private message delivered to several sessions %s" % sorted(rcs))
    elif is_numeric:
        # numerics go to the session that caused them, to the subject of a forced join, or to services
        allowed = {actor} | services
        if actor_is_server and icmd in ("SVSJOIN",):
            allowed |= set(w.nick_sid.values())
            # the subject may be a session that has only sent NICK so far: it holds the nickname, but nothing it ever
            # received or caused shows that to an observer of the output (like a pseudo-client, its ownership is not
            # observable), so one recipient the monitor cannot name is tolerated for a nick it does not know
            target = inp[2][0] if inp and len(inp) > 2 and inp[2] else None
            unknown = rcs - allowed
            if target is not None and lower_nick(target) not in w.nick_sid and len(unknown) == 1 and not (unknown & w.dead):
                allowed |= unknown
        if not rcs <= allowed:
            return ("numeric", "numeric %s delivered to %s, caused by session %d" % (cmd, sorted(rcs - allowed), actor))
    elif cmd == "ERROR":
        if len(rcs) != 1:
            return ("error", "ERROR delivered to %s" % sorted(rcs))
    elif cmd in ("JOIN", "PART", "KICK", "TOPIC") and params and pfx:
        mem = set(w.members.get(lower_chan(params[0]), {}).values())
        if not non_svc <= mem | {actor}:
            return ("scope", "%s for %s delivered to %s who do not share that channel" % (cmd, params[0], sorted(non_svc - mem)))
    elif cmd == "MODE" and params and params[0].startswith("#") and pfx and "!" in pfx:
        mem = set(w.members.get(lower_chan(params[0]), {}).values())
        if not non_svc <= mem | {actor}:
            return ("scope", "MODE for %s delivered to %s who do not share that channel" % (params[0], sorted(non_svc - mem)))
    elif cmd in ("NICK", "QUIT") and pfx and "!" in pfx:
        subj = w.sid_of_prefix(pfx)
        who = lower_nick(split_prefix(pfx)[0])
        share = set()
        for lc, mem in w.members.items():
            if who in mem:
                share |= set(mem.values())
        if not non_svc <= share | {subj, actor}:
            return ("scope", "%s of %s delivered to %s who share no channel with it" % (cmd, split_prefix(pfx)[0], sorted(non_svc - share - {subj})))
    return None


def check_c13(w, actor, actor_is_server, icmd, inp, pfx, cmd, params, rcs):
    """state changes announced by the server must be backed by the actor's privilege"""
    if actor_is_server:
        return None
    client_pfx = pfx is not None and HOST_RE.match(split_prefix(pfx)[2] or "") is not None
    me = lower_nick(w.sid_nick.get(actor, ""))
    if cmd in ("KICK", "MODE", "TOPIC") and params and lower_chan(params[0]) in w.uncertain:
        return None
    if cmd == "INVITE" and len(params) >= 2 and lower_chan(params[1]) in w.uncertain:
        return None
    if cmd == "KICK" and client_pfx and params and icmd == "KICK":
        lc = lower_chan(params[0])
        if me not in w.chanops.get(lc, set()):
            return ("kick", "KICK on %s by %r who is not a channel operator there" % (params[0], me))
    elif cmd == "MODE" and client_pfx and params and params[0].startswith("#") and icmd == "MODE" and len(params) >= 2:
        lc = lower_chan(params[0])
        if me not in w.chanops.get(lc, set()) and actor not in w.opers:
            return ("mode", "channel MODE %s on %s by %r who is neither channel operator nor IRC operator" % (params[1], params[0], me))
    elif cmd == "TOPIC" and client_pfx and params and icmd == "TOPIC":
        lc = lower_chan(params[0])
        if actor not in w.members.get(lc, {}).values():
            return ("topic", "TOPIC of %s changed by %r who is not on the channel" % (params[0], me))
        if "t" in w.modes.get(lc, set()) and me not in w.chanops.get(lc, set()):
            return ("topic", "TOPIC of +t channel %s changed by %r who is not a channel operator" % (params[0], me))
    elif cmd == "KILL" and icmd in ("KILL", "GLINE"):
        if actor not in w.opers:
            return ("kill", "KILL by session %d which is not an IRC operator" % actor)
    elif cmd in ("PRIVMSG", "NOTICE") and client_pfx and params and params[0].startswith("$"):
        if actor not in w.opers:
            return ("wallops", "network-wide notice by session %d which is not an IRC operator" % actor)
    elif cmd == "INVITE" and client_pfx and len(params) >= 2 and icmd == "INVITE":
        lc = lower_chan(params[1])
        if actor not in w.members.get(lc, {}).values():
            return ("invite", "INVITE into %s by %r who is not on the channel" % (params[1], me))
        if "i" in w.modes.get(lc, set()) and me not in w.chanops.get(lc, set()):
            return ("invite", "INVITE into +i channel %s by %r who is not a channel operator" % (params[1], me))
    elif cmd == "381":
        # OPER succeeded: the input must carry a configured name/password (OPER a b, or PASS oper=a b at login)
        pass
    return None
