"""Scenarios on the real api.HTTP handlers over an in-process single-node raft (C05 C10 C11 C16 C17):
builds the harness, runs op lists (one process, or several when ops contain `kill`), and compares
the handlers' decisions with the Lean decision model (driver component `api`)."""
import os
import shutil
import vlib
import irc_run

FILES = dict(irc_run.MAIN_FILES)
FILES["zz_verif_fsm_test.go"] = os.path.join(vlib.ROOT, "harness", "main", "zz_verif_fsm_test.go")
FILES["zz_verif_api_test.go"] = os.path.join(vlib.ROOT, "harness", "main", "zz_verif_api_test.go")
PW = "netpw"


def hx(s):
    b = s.encode() if isinstance(s, str) else s
    return b.hex() if b else "-"


def build():
    return vlib.build_harness("api", "", FILES, extra_overlay=irc_run.EXTRA)


def run_ops(exe, ops, tag="api", timeout=600):
    """returns (output lines, error).  `kill` ops end a process (SIGKILL); the next process
    starts with `resume` and re-adopts the session credentials the parent has seen."""
    d = vlib.workdir(tag)
    outp = os.path.join(d, "out.txt")
    lines, err = [], None
    segs, cur = [], []
    for o in ops:
        cur.append(o)
        if o == "kill":
            segs.append(cur)
            cur = []
    segs.append(cur)
    creds = {}
    for n, seg in enumerate(segs):
        if not seg:
            continue
        pre = []
        if n > 0:
            pre = ["resume"] + ["adopt %s %s %s" % (k, v[0], v[1]) for k, v in creds.items()]
        seg_ops = pre + seg
        # ask for credentials before a kill so that the next process can adopt them
        if seg and seg[-1] == "kill":
            names = sorted({o.split()[1] for o in ops if o.startswith("create ")})
            seg_ops = pre + seg[:-1] + ["creds " + nm for nm in names] + ["kill"]
        opsf = os.path.join(d, "seg%d.txt" % n)
        open(opsf, "w").write("\n".join(seg_ops) + "\n")
        if os.path.exists(outp):
            os.remove(outp)
        rc, out = vlib.run_harness(exe, opsf, outp, env_extra={"VERIF_TMP": d, "TMPDIR": d}, run="TestVerifApi", timeout=timeout)
        got = vlib.read_lines(outp) if os.path.exists(outp) else []
        body = got[len(pre):]
        if seg and seg[-1] == "kill":
            names = sorted({o.split()[1] for o in ops if o.startswith("create ")})
            k = len(seg) - 1
            cl = body[k:k + len(names)]
            for nm, c in zip(names, cl):
                if c != "none" and " " in c:
                    creds[nm] = c.split(" ")
            body = body[:k] + body[k + len(names):]
            if rc == 0:
                err = err or "process survived kill"
        elif rc != 0:
            err = err or "harness exit %d: %s" % (rc, out[-1500:])
        lines += body
    shutil.rmtree(d, ignore_errors=True)
    return lines, err


def lean_decisions(lines):
    d = vlib.workdir("api-lean")
    opsf = os.path.join(d, "ops.txt")
    open(opsf, "w").write("\n".join(lines) + "\n")
    outf = os.path.join(d, "out.txt")
    rc, err = vlib.run_driver("api", opsf, outf)
    res = vlib.read_lines(outf)
    shutil.rmtree(d, ignore_errors=True)
    return res, (None if rc == 0 else err)


def kv(line):
    return dict(p.split("=", 1) for p in line.split(" ") if "=" in p)


BOOT = ["start", "postconfig %s 0 %s" % (PW, hx('PostMessageCooloff = "0s"\nSessionExpiration = "600s"\n[IRC]\n[[IRC.Operators]]\nName = "op"\nPassword = "secret"\n'))]
