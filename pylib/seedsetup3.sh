#!/bin/sh
# seedsetup3.sh <id>: scratch worktree + out dir for a round-3 seeding agent
id=$1
git -C /repo worktree add --detach -f /tmp/seed3-$id HEAD >/dev/null 2>&1
mkdir -p /tmp/seed3-$id-out
python3 - "$id" <<'PY'
import json,sys,glob
pid=sys.argv[1]
for l in open('/verif/properties.jsonl'):
    p=json.loads(l)
    if p['id']==pid:
        json.dump(p,open('/tmp/seed3-%s-out/property.json'%pid,'w'),indent=1)
with open('/tmp/seed3-%s-out/already_done.txt'%pid,'w') as f:
    for m in sorted(glob.glob('/verif/seeded/%s/meta*.json'%pid)):
        d=json.load(open(m)); f.write('- %s  [files: %s]\n'%(d.get('title'),', '.join(d.get('files',[]))))
PY
