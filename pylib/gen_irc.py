"""History generator for the IRC layer (C01 C03 C06 C07 C10 C12–C17).

One PRNG drives everything.  A history is a list of op lines for the main-package harness and
the Lean `irc` driver:
   R                                   reset
   E <type> <id> <sid> <sreply> <unixnano> <cmid> <rev> <addrhex> <datahex> [cfg=…]
   D                                   canonical state dump
   W                                   consistency walk (C14)
"""

NICKS = ["alice", "Alice", "ALICE", "al[ce", "al{ce", "b\\ob", "b|ob", "carol", "dave", "eve-", "_u", "x" * 31, "y" * 30, "9bad", "", "NickServ",
         "mallory", "bob"]
SVCNICKS = ["ChanServ", "NickServ", "OperServ", "BotServ"]
CHANS = ["#a", "#A", "#b", "#ä", "#Ä", "#K", "#k", "#secret", "#x,y", "noHash", "#" + "c" * 33, "#" + "d" * 32, "#a,#b", "#b,#a,#k", "&x", "#"]
KEYS = ["", "k1", "K1", "key,other", "x"]
TEXTS = ["hi", "hello world", ":leading colon", "", " ", "x" * 600, "grüße ☃", "a\rb", "a\x00b", "\x01ACTION waves\x01", "\x02bold\x02 \x0304red\x0f tab\there", "  two  spaces  ",
         "ä" * 300, "y" + "€" * 200, "zz" + "😀" * 150, "w" * 449 + "ä€😀" * 20, "x" * 520 + "\r\n:NickServ!s@services PRIVMSG bob :forged\x00"]
MASKS = ["*!*@*", "bob!*@*", "*!*@robust/0x%x", "a.c*", "*", "al[ce!*@*", "*!*@10.0.0.1", "(*+?)", "", "x\\y"]
ADDRS = ["", "10.0.0.1", "10.0.0.2", "10.0.0.3", "1.2.3.4"]
OPERS = [("op", "secret"), ("root", "toor")]
SVCPW = "svcpw"

CLIENT, SERVER = "client", "server"


def hx(s):
    b = s.encode("utf-8") if isinstance(s, str) else s
    return b.hex() if b else "-"


def dur(ns):
    """time.Duration.String() compatible rendering is not needed: TOML side uses seconds"""
    return "%ds" % (ns // 10**9)


class Cfg:
    def __init__(self, rng, rev):
        self.valid = rng.random() > 0.12
        self.ops = list(OPERS[:rng.choice([0, 1, 2])])
        self.svc = [SVCPW] if rng.random() < 0.8 else []
        self.se = rng.choice([600, 1800, 60, 0]) * 10**9
        self.pc = rng.choice([0, 500 * 10**6])
        self.tb = {"bridgesecret": "bridge1"} if rng.random() < 0.3 else {}
        self.ms = rng.choice([0, 0, 0, 3, 6])
        self.mc = rng.choice([0, 0, 0, 2, 4])
        self.bn = {"1.2.3.4": "spam"} if rng.random() < 0.4 else {}
        self.wo = rng.choice([{}, {}, {"https://webchat.example.com": True}, {"https://a.example": True, "https://b.example": False}])
        self.rev = rev

    def toml(self):
        if not self.valid:
            return "this is = not [ valid toml"
        l = []
        l.append('SessionExpiration = "%s"' % dur(self.se))
        l.append('PostMessageCooloff = "%dms"' % (self.pc // 10**6))
        l.append("MaxSessions = %d" % self.ms)
        l.append("MaxChannels = %d" % self.mc)
        l.append("[IRC]")
        for n, p in self.ops:
            l += ["[[IRC.Operators]]", 'Name = "%s"' % n, 'Password = "%s"' % p]
        for p in self.svc:
            l += ["[[IRC.Services]]", 'Password = "%s"' % p]
        if self.tb:
            l.append("[TrustedBridges]")
            for k, v in self.tb.items():
                l.append('"%s" = "%s"' % (k, v))
        if self.bn:
            l.append("[Banned]")
            for k, v in self.bn.items():
                l.append('"%s" = "%s"' % (k, v))
        if self.wo:
            l.append("[WhitelistedOrigins]")
            for k, v in self.wo.items():
                l.append('"%s" = %s' % (k, "true" if v else "false"))
        return "\n".join(l) + "\n"

    def spec(self):
        if not self.valid:
            return "cfg=0;;;0;0;;;;0;0;0;;"
        pairs = lambda d: ",".join("%s:%s" % (hx(k), hx(v)) for k, v in d)
        return "cfg=1;%s;%s;%d;%d;%s;%s;%s;%d;%d;%d;%s;%s" % (pairs(self.ops), ",".join(hx(p) for p in self.svc), self.se, self.pc, pairs(self.tb.items()),
                                                              hx(""), hx(""), 0, self.ms, self.mc, pairs(self.bn.items()),
                                                              ",".join("%s:%d" % (hx(k), 1 if v else 0) for k, v in self.wo.items()))


class Gen:
    def __init__(self, rng, commands, profile="mixed", focus=None):
        self.rng = rng
        self.profile = profile
        self.focus = focus
        self.joined = []
        self.used_nicks = []
        # the HTTP handlers cut posted text at the first CR/LF/NUL; most histories are generated the
        # way they can arrive through the API, some feed the state machine raw text
        self.sanitize = rng.random() < 0.85
        self.client_cmds = sorted(c["Name"] for c in commands if not c["Name"].startswith("server_") and not c["EnvGuard"])
        self.server_cmds = sorted(c["Name"][7:] for c in commands if c["Name"].startswith("server_"))
        self.minparams = {c["Name"]: c["MinParams"] for c in commands}
        self.ops = []
        self.nextid = 1
        self.now = 1420228218 * 10**9
        self.sessions = {}    # id -> dict(kind, registered, nick, cmid)
        self.svcnicks = []
        self.rev = 0
        self.kinds = {}
        self.chanop = {}      # channel -> session that (probably) is channel operator there

    # -- low level ---------------------------------------------------------------------------
    def tick(self):
        self.now += self.rng.choice([10**6, 10**9, 10**9, 59 * 10**9, 61 * 10**9, 299 * 10**9, 301 * 10**9, 599 * 10**9, 601 * 10**9, 3600 * 10**9])
        i = self.nextid
        self.nextid += self.rng.choice([1, 1, 1, 2, 5])
        return i

    def entry(self, ty, sid=0, sreply=0, data="", cmid=0, rev=0, addr="", cfg=None, un=None):
        i = self.tick()
        if self.sanitize and ty in (1, 2):
            for k, ch in enumerate(data):
                if ch in "\r\n\x00":
                    data = data[:k]
                    break
        line = "E %d %d %d %d %d %d %d %s %s" % (ty, i, sid, sreply, self.now if un is None else un, cmid, rev, hx(addr), hx(data))
        if cfg is not None:
            line += " " + cfg
        self.ops.append(line)
        return i

    def count(self, k):
        self.kinds[k] = self.kinds.get(k, 0) + 1

    # -- entry kinds -------------------------------------------------------------------------
    def create(self, kind=CLIENT):
        i = self.entry(0, data="%0256x" % self.rng.getrandbits(64))
        self.sessions[i] = dict(kind=kind, registered=False, nick="", cmid=0, server=False)
        self.count("create")
        return i

    def line(self, sid, text, addr=None, cmid=None):
        s = self.sessions.get(sid)
        if cmid is None:
            cmid = self.rng.getrandbits(32) | 1
        if addr is None:
            addr = self.rng.choice(ADDRS) if self.rng.random() < 0.3 else ""
        self.entry(2, sid=sid, data=text, cmid=cmid, addr=addr)
        if s is not None:
            s["cmid"] = cmid
            if addr:
                s["addr"] = addr

    def delete(self, sid):
        self.entry(1, sid=sid, data=self.rng.choice(["bye", "", "Ping timeout (10m0s)", ":x y"]))
        self.count("delete")

    def config(self):
        c = Cfg(self.rng, self.rev)
        stale = self.rng.random() < 0.1
        self.entry(6, data=c.toml(), rev=self.rev + (0 if stale else 1), cfg=c.spec())
        if c.valid and not stale:
            self.rev += 1
        elif c.valid:
            pass
        self.count("config")

    # -- IRC text ----------------------------------------------------------------------------
    def nick(self):
        if self.used_nicks and self.rng.random() < 0.55:
            return self.rng.choice(self.used_nicks)
        return self.rng.choice(NICKS)

    def chan(self):
        if self.joined and self.rng.random() < 0.6:
            return self.rng.choice(self.joined)
        return self.rng.choice(CHANS)

    def some_sid(self):
        return self.rng.choice(list(self.sessions)) if self.sessions else 0

    def mask(self):
        # a ban on a session host is stored as two entries (host and remote address) with the same mask
        m = "*!*@robust/0x%x" if self.rng.random() < 0.3 else self.rng.choice(MASKS)
        if "%x" in m:
            m = m % self.some_sid()
        return m

    def plausible(self, cmd, server=False):
        r = self.rng
        n, c, t = self.nick(), self.chan(), r.choice(TEXTS)
        if cmd not in ("NICK", "USER", "PASS", "SERVER", "OPER") and r.random() < 0.06:
            # a comma-separated list where a single nickname is expected (clients send KICK/PRIVMSG/INVITE that way);
            # the sender's own nick first is the interesting order
            own = (self.sessions.get(getattr(self, "cur_sid", None)) or {}).get("nick")
            n = r.choice([n + "," + self.nick(), (own or self.nick()) + "," + n])
            self.count("nick_list")
        if cmd == "NICK":
            if server:
                return "NICK %s 1 1 services localhost.net services.localhost.net 0 :Services" % r.choice(SVCNICKS + [n])
            if r.random() < 0.04:
                n = r.choice(["n" * 40, "N" * 601, "q" * 32 + "{"])      # beyond NICKLEN: refused, whatever the length
            return "NICK " + n
        if cmd == "USER":
            return "USER %s 0 * :%s" % (r.choice(["u", "blah", "a!b", ""]), r.choice(["Real Name", "", "x"]))
        if cmd == "PASS":
            return "PASS " + r.choice(["pw", "nickserv=pw", "oper=op secret", "oper=op wrong", "services=" + SVCPW, "services=wrong", "nickserv=a:oper=root toor", "a b c", ":x y", "captcha=abc"])
        if cmd == "SERVER":
            return "SERVER services.localhost.net 1 :Services for IRC Networks"
        if cmd == "OPER":
            return "OPER %s %s" % r.choice(OPERS + [("op", "bad"), ("x", "y"), ("ghost", ":"), ("op", ":"), ("", "secret")])
        if cmd == "JOIN":
            if "," not in c and c not in self.joined:
                self.joined.append(c)
                cur = getattr(self, "cur_sid", None)
                if cur is not None and self.sessions.get(cur, {}).get("registered") and not server:
                    self.chanop[c] = cur    # first to join (very likely) holds +o
            return "JOIN %s%s" % (c, r.choice(["", "", " " + r.choice(KEYS)]))
        if cmd in ("PART", "NAMES", "WHO", "LIST", "KNOCK"):
            return "%s %s%s" % (cmd, c, r.choice(["", "", " :" + t]))
        if cmd == "TOPIC":
            if server:
                return "TOPIC %s %s %s :%s" % (c, n, r.choice(["0", "1420228218", "12", "x"]), t)
            return "TOPIC %s%s" % (c, r.choice(["", " :" + t, " :", " " + t]))
        if cmd == "KICK":
            return "KICK %s %s%s" % (c, n, r.choice(["", " :" + t]))
        if cmd in ("KILL", "GLINE"):
            return "%s %s :%s" % (cmd, n, t)
        if cmd == "INVITE":
            return "INVITE %s %s" % (n, c)
        if cmd in ("PRIVMSG", "NOTICE"):
            return "%s %s :%s" % (cmd, r.choice([c, n, "$*", n, c]), t)
        if cmd == "MODE":
            target = r.choice([c, c, n])
            ms = r.choice(["", "+i", "-i", "+t", "-t", "+s", "+n", "-n", "+k", "-k", "+o", "-o", "+b", "-b", "+x", "+z", "+io", "-o+o", "+G", "+r", "+tk-i", "+ä", "b", "+bb", "+\u010a", "-\u010d", "+\u0100", "+t\u260a", "+\U0001f60a"])
            args = []
            for ch in ms:
                if ch in "ok":
                    args.append(r.choice([n, r.choice(KEYS)]))
                if ch == "b":
                    args.append(self.mask())
            if r.random() < 0.2 and args:
                args.pop()
            return ("MODE %s %s %s" % (target, ms, " ".join(args))).rstrip() if ms else "MODE " + target
        if cmd in ("WHOIS", "ISON", "USERHOST"):
            return "%s %s" % (cmd, " ".join(r.choice(NICKS[:10]) for _ in range(r.choice([1, 1, 2, 4]))))
        if cmd == "AWAY":
            return r.choice(["AWAY", "AWAY :" + t, "AWAY :  "])
        if cmd == "PING":
            return r.choice(["PING", "PING x", "ping :a b"])
        if cmd == "QUIT":
            return r.choice(["QUIT", "QUIT :" + t])
        if cmd == "SVSNICK":
            return "SVSNICK %s %s :1" % (n, self.nick())
        if cmd in ("SVSJOIN", "SVSPART"):
            return "%s %s %s" % (cmd, n, c)
        if cmd == "SVSMODE":
            return "SVSMODE %s %s %s" % (n, r.choice(["+r", "-r", "+d", "+rd", "x", "+z"]), r.choice(["", "123", "0"]))
        if cmd == "SVSHOLD":
            return r.choice(["SVSHOLD %s" % n, "SVSHOLD %s %s :held" % (n, r.choice(["60", "0", "3600", "x"]))])
        if cmd in ("MOTD",):
            return cmd
        return "%s %s :%s" % (cmd, n, t)

    def random_shape(self, cmd):
        r = self.rng
        k = r.choice([0, 0, 1, 1, 2, 3, 4, 6])
        pool = NICKS[:8] + CHANS[:8] + ["", "+o", "-k", "0", "x"]
        params = [r.choice(pool) for _ in range(k)]
        s = cmd + ("" if not params else " " + " ".join(params))
        if r.random() < 0.4:
            s += " :" + r.choice(TEXTS)
        return s

    def garbage(self):
        r = self.rng
        return r.choice(["", " ", ":", ": ", ":x", ":a!b@c", ":a!b@c ", "\r\n", "x", "ä", "PRIVMSG", " PRIVMSG x :y", "privmsg #a :lower", ":pfx PRIVMSG #a :with prefix",
                         "JOIN  #a", "JOIN #a ", "TOPIC #a  :x", "NICK :", "USER a b c", "\x00", "FOO bar", "PANIC", "MODE", "JOIN :#a", "KICK #a"])

    def case_nick(self):
        """a nick change that only changes capitalisation ([]\\ ~ {}|), by a registered session, then probes that
        look at its member entries"""
        r = self.rng
        cands = [sid for sid, x in self.sessions.items() if x.get("registered") and x.get("nick") and not x.get("server")]
        if not cands:
            return False
        sid = r.choice(cands)
        old = self.sessions[sid]["nick"]
        tr = str.maketrans("[]\\{}|", "{}|[]\\")
        new = r.choice([old.swapcase(), old.upper(), old.translate(tr), old.capitalize()])
        if r.random() < 0.5 and self.joined:
            self.line(sid, "JOIN " + r.choice(self.joined))
        self.line(sid, "NICK " + new)
        self.sessions[sid]["nick"] = new
        if new not in self.used_nicks:
            self.used_nicks.append(new)
        self.count("casenick")
        others = [x for x in self.sessions if x != sid] or [sid]
        for _ in range(r.choice([0, 1, 2, 3])):
            c = self.chan()
            who, text = r.choice([(r.choice(others), "WHOIS " + new), (sid, "MODE %s +t" % c), (r.choice(others), "NAMES " + c), (sid, "PRIVMSG %s :after rename" % c),
                                  (r.choice(others), "PRIVMSG %s :to renamed" % new), (sid, "PART " + c), (sid, "TOPIC %s :t" % c)])
            self.line(who, text)
        return True

    def restricted_join(self):
        """a channel operator sets a random combination of +i / +k / +b (on the joiner) / +x, maybe invites the
        joiner, then the joiner tries to JOIN with a right, wrong or missing key"""
        r = self.rng
        cands = [(c, sid) for c, sid in self.chanop.items() if sid in self.sessions and "," not in c]
        joiners = [sid for sid, x in self.sessions.items() if x.get("registered") and not x.get("server")]
        if not cands or len(joiners) < 2:
            return False
        c, op = r.choice(cands)
        j = r.choice([x for x in joiners if x != op] or joiners)
        key = r.choice([k for k in KEYS if k and "," not in k])
        if r.random() < 0.5:
            self.line(j, "PART " + c)
        if r.random() < 0.6:
            self.line(op, "MODE %s +i" % c)
        haskey = r.random() < 0.5
        if haskey:
            self.line(op, "MODE %s +k %s" % (c, key))
        if r.random() < 0.5:
            self.line(op, "MODE %s +b %s" % (c, r.choice(["*!*@robust/0x%x" % j, "%s!*@*" % (self.sessions[j].get("nick") or "x"), "*!*@*"])))
        if r.random() < 0.15:
            self.line(op, "MODE %s +x" % c)
        if r.random() < 0.6:
            self.line(op, "INVITE %s %s" % (self.sessions[j].get("nick") or "nobody", c))
        self.line(j, "JOIN %s%s" % (c, r.choice(["", " " + key, " wrong"])))
        if r.random() < 0.5:
            self.line(j, "JOIN %s %s" % (c, key))      # second attempt: invitations are single use
        self.line(r.choice([op, j]), "NAMES " + c)
        if r.random() < 0.7:
            self.line(op, "MODE %s -i-k %s" % (c, key))
        self.count("restricted_join")
        return True

    def ban_evasion(self):
        """a channel operator bans a session by its session host (`*!*@robust/0x<id>`), which also bans the remote
        address that session last used; the banned user comes back as a *new* session from the same address and
        tries to JOIN: only the address-resolved half of the ban can stop it"""
        r = self.rng
        cands = [(c, sid) for c, sid in self.chanop.items() if sid in self.sessions and "," not in c]
        victims = [sid for sid, x in self.sessions.items() if x.get("registered") and not x.get("server") and x.get("addr")]
        if not cands or not victims:
            return False
        c, op = r.choice(cands)
        j = r.choice([x for x in victims if x != op] or victims)
        a = self.sessions[j]["addr"]
        if r.random() < 0.3:
            self.line(op, "MODE %s +b *!*@robust/0x%x" % (c, j), addr="")     # set twice: the second is a duplicate
        self.line(op, "MODE %s +b *!*@robust/0x%x" % (c, j), addr="")
        k = self.create()
        nick = self.nick()
        self.line(k, "NICK " + nick, addr=a)
        self.line(k, "USER u 0 * :Real " + nick, addr=a)
        self.sessions[k].update(registered=True, nick=nick, oper=False)
        if nick and nick not in self.used_nicks:
            self.used_nicks.append(nick)
        self.line(k, "JOIN " + c, addr=r.choice([a, a, ""]))
        self.line(r.choice([op, k]), "NAMES " + c, addr="")
        if r.random() < 0.5:
            self.line(op, "MODE %s -b *!*@robust/0x%x" % (c, j), addr="")
            self.line(k, "JOIN " + c, addr=a)
        self.count("ban_evasion")
        return True

    def stale_invite(self):
        """an invitation to a channel without +i, the channel dies, somebody re-creates it invite-only: the old
        invitation must not admit"""
        r = self.rng
        regs = [sid for sid, x in self.sessions.items() if x.get("registered") and not x.get("server") and x.get("nick")]
        if len(regs) < 3:
            return False
        a, b, c2 = r.sample(regs, 3)
        ch = "#inv%d" % r.randrange(4)
        self.line(a, "JOIN " + ch)
        self.line(a, "INVITE %s %s" % (self.sessions[b]["nick"], ch))
        self.line(a, r.choice(["PART " + ch, "PART " + ch, "QUIT :gone"]))
        self.line(c2, "JOIN " + ch)
        self.line(c2, "MODE %s %s" % (ch, r.choice(["+i", "+i", "+x", "+k k1"])))
        self.line(b, "JOIN " + ch)
        self.line(c2, "NAMES " + ch)
        self.ops.append("D")
        self.count("stale_invite")
        return True

    def multi_join(self):
        """one JOIN naming several channels, new and existing ones mixed, with other members watching"""
        r = self.rng
        regs = [sid for sid, x in self.sessions.items() if x.get("registered") and not x.get("server") and x.get("nick")]
        if len(regs) < 2:
            return False
        a, b = r.sample(regs, 2)
        old = "#mj%d" % r.randrange(3)
        self.line(b, "JOIN " + old)
        fresh = ["#mj%s%d" % (r.choice("xyz"), r.randrange(50)) for _ in range(r.choice([1, 2, 3]))]
        names = fresh + [old]
        r.shuffle(names)
        self.line(a, "JOIN " + ",".join(names))
        self.line(b, "PRIVMSG %s :seen" % old)
        self.line(a, "PART " + ",".join(names[:2]))
        self.ops.append("D")
        self.count("multi_join")
        return True

    def services_leave(self):
        """services remove a user from a channel whose name was created with capital letters (PART / KICK / SVSPART
        of the pseudo-client or of the user), then the user's state is looked at"""
        r = self.rng
        links = getattr(self, "links", None)
        regs = [sid for sid, x in self.sessions.items() if x.get("registered") and not x.get("server") and x.get("nick")]
        if not links or not self.svcnicks or not regs:
            return False
        l, sv = r.choice(links), r.choice(self.svcnicks)
        u = r.choice(regs)
        nick = self.sessions[u]["nick"]
        ch = r.choice(["#Lobby", "#LOBBY2", "#Mixed[]", "#lower"])
        self.line(u, "JOIN " + ch)
        if r.random() < 0.5:
            self.line(l, ":%s JOIN %s" % (sv, ch))
        lc = r.choice([ch, ch.lower(), ch.upper()])
        for t in r.sample(["SVSPART %s %s" % (nick, lc), "KICK %s %s :bye" % (lc, nick), "PART %s" % lc, "SVSJOIN %s %s" % (nick, lc)], r.choice([1, 2])):
            self.line(l, ":%s %s" % (sv, t))
        other = r.choice(regs)
        for t in r.sample(["WHOIS " + nick, "NAMES " + ch, "PRIVMSG %s :anyone" % ch, "MODE %s +i" % ch], 2):
            self.line(r.choice([u, other]), t)
        self.line(u, r.choice(["NICK svl%d" % r.randrange(9), "JOIN " + ch, "PART " + ch]))
        self.ops.append("D")
        self.ops.append("W")
        self.count("services_leave")
        return True

    def oper_invite(self):
        """an IRC operator acts on a channel it is not a member of (INVITE into an invite-only channel, TOPIC, KICK,
        MODE, NAMES): member look-ups of a non-member"""
        r = self.rng
        opers = [sid for sid, x in self.sessions.items() if x.get("oper") and x.get("registered")]
        regs = [sid for sid, x in self.sessions.items() if x.get("registered") and not x.get("server") and x.get("nick")]
        if not opers or len(regs) < 3:
            return False
        o = r.choice(opers)
        others = [x for x in regs if x != o]
        a, b = r.sample(others, 2)
        ch = "#oi%d" % r.randrange(3)
        self.line(a, "JOIN " + ch)
        self.line(a, "MODE %s %s" % (ch, r.choice(["+i", "+i", "+it", "+s", "+k k1"])))
        self.line(o, "PART " + ch)
        for t in r.sample(["INVITE %s %s" % (self.sessions[b]["nick"], ch), "TOPIC %s :by oper" % ch, "KICK %s %s" % (ch, self.sessions[a]["nick"]),
                           "MODE %s +o %s" % (ch, self.sessions[b]["nick"]), "NAMES " + ch, "MODE %s -i" % ch, "PRIVMSG %s :oper here" % ch], 3):
            self.line(o, t)
        self.line(b, "JOIN " + ch)
        self.ops.append("D")
        self.count("oper_invite")
        return True

    def half_registered(self):
        """a session that only sent NICK (or only USER) ends — by QUIT, DELETE or KILL — and somebody else then
        wants its nickname"""
        r = self.rng
        sid = self.create()
        nick = r.choice(["ghost", "Ghost", "gh[st", self.nick() or "ghost2"])
        first = r.choice(["NICK " + nick, "NICK " + nick, "USER u 0 * :half"])
        self.line(sid, first)
        if r.random() < 0.3:
            self.line(sid, "JOIN #a")          # refused with 451
        k = r.random()
        if k < 0.45:
            self.line(sid, r.choice(["QUIT", "QUIT :bye"]))
        elif k < 0.9:
            self.delete(sid)
        else:
            pass                                 # stays around
        self.sessions.pop(sid, None) if k < 0.9 else None
        other = self.create()
        self.line(other, "NICK " + nick)
        self.line(other, "USER u 0 * :second")
        self.sessions[other]["registered"] = True
        self.sessions[other]["nick"] = nick
        self.ops.append("D")
        self.count("half_registered")
        return True

    def many_channels(self):
        """one user on so many long-named channels that lists of them (WHOIS, the netburst, QUIT fan-out) exceed one
        line: iteration-order and line-length behaviour that short histories never reach"""
        r = self.rng
        if getattr(self, "did_many", False):
            return False
        regs = [k for k, v in self.sessions.items() if v.get("registered") and not v.get("server") and v.get("nick")]
        if not regs:
            return False
        self.did_many = True
        sid = r.choice(regs)
        nick = self.sessions[sid]["nick"]
        tag = "".join(r.choice("abcdefghijklmnopqrstuvwxyzABCDEF0123456789") for _ in range(6))
        n = r.choice([17, 20, 26])
        names = ["#%s%02d%s" % (tag, j, "y" * 22) for j in range(n)]
        r.shuffle(names)
        for j in range(0, n, 5):
            self.line(sid, "JOIN " + ",".join(names[j:j + 5]))
        other = r.choice(list(self.sessions))
        for t in r.sample(["WHOIS " + nick, "WHOIS " + nick, "LIST", "NAMES " + names[0], "WHO " + names[1], "PRIVMSG %s :%s" % (nick, "x" * 40)], 3):
            self.line(other, t)
        self.line(sid, r.choice(["NICK many" + tag[:3], "AWAY :" + "z" * 300, "PART " + ",".join(names[:7])]))
        if r.random() < 0.5:
            self.line(other, "WHOIS " + nick)
        self.ops.append("D")
        self.count("many_channels")
        return True

    def mode_soup(self):
        """drives a channel and a user through every mode letter the handlers accept (client MODE, services MODE,
        SVSMODE) so that snapshots, WHOIS/LIST/WHO and later joins see states with each flag set"""
        r = self.rng
        regs = [k for k, v in self.sessions.items() if v.get("registered") and not v.get("server") and v.get("nick")]
        if not regs:
            return False
        sid = r.choice(regs)
        nick = self.sessions[sid]["nick"]
        c = "#soup%d" % r.randrange(3)
        self.line(sid, "JOIN " + c)
        for m in r.sample(["+i", "+s", "+k " + r.choice(KEYS), "+x", "-t", "-n", "+t", "+n", "-i", "+is", "+b *!*@soup*"], r.choice([2, 3, 5])):
            self.line(sid, "MODE %s %s" % (c, m))
        for m in r.sample(["+i", "+G", "-i", "+iG", "+o"], r.choice([1, 2])):
            self.line(sid, "MODE %s %s" % (nick, m))
        links = getattr(self, "links", None)
        if links and self.svcnicks:
            l = r.choice(links)
            sv = r.choice(self.svcnicks)
            for t in r.sample(["MODE %s +r" % c, "MODE %s +o %s" % (c, nick), "SVSMODE %s +r" % nick, "SVSMODE %s +d 12345" % nick, "MODE %s -r" % c,
                               "TOPIC %s %s 0 :registered" % (c, sv), "SVSMODE %s -r" % nick], r.choice([1, 2, 3])):
                self.line(l, ":%s %s" % (sv, t))
        self.ops.append("D")
        self.count("mode_soup")
        return True

    def unpriv_attempt(self):
        """a plain member (not the channel operator) tries the privileged commands, in all the shapes that mix
        queries with changes"""
        r = self.rng
        cands = [(c, sid) for c, sid in self.chanop.items() if sid in self.sessions and "," not in c]
        plain = [sid for sid, x in self.sessions.items() if x.get("registered") and not x.get("server")]
        if not cands or len(plain) < 2:
            return False
        c, op = r.choice(cands)
        who = r.choice([x for x in plain if x != op] or plain)
        if r.random() < 0.7:
            self.line(who, "JOIN " + c)
        n = self.sessions[op].get("nick") or self.nick()
        me = self.sessions[who].get("nick") or self.nick()
        for _ in range(r.choice([1, 2, 3])):
            k = r.random()
            if k < 0.55:
                ms = r.choice(["+b-i", "+b-k", "+b-t", "+bt", "b+i", "+kb", "+b-i-k-t", "-t", "+i", "+o", "-o", "+k", "+b", "+bo", "+ob", "-b+b", "+s+b"])
                args = []
                for ch in ms:
                    if ch in "ok":
                        args.append(r.choice([me, n, r.choice(KEYS)]))
                    elif ch == "b" and r.random() < 0.4:
                        args.append(self.mask())
                text = ("MODE %s %s %s" % (c, ms, " ".join(args))).rstrip()
            elif k < 0.7:
                text = "KICK %s %s :%s" % (c, n, r.choice(TEXTS[:4]))
            elif k < 0.85:
                text = "TOPIC %s :%s" % (c, r.choice(TEXTS[:4]))
            else:
                text = "INVITE %s %s" % (self.nick(), c)
            self.line(who, text)
        self.line(r.choice([op, who]), "MODE " + c)
        self.count("unpriv_attempt")
        return True

    def priv_action(self):
        """a privileged command issued by a session that really holds the privilege"""
        r = self.rng
        cands = [(c, sid) for c, sid in self.chanop.items() if sid in self.sessions]
        if not cands:
            return False
        c, sid = r.choice(cands)
        n = self.nick()
        k = r.random()
        if k < 0.3:
            others = [x for x in self.sessions if x != sid] or [sid]
            m = ("*!*@robust/0x%x" % r.choice(others)) if r.random() < 0.6 else self.mask()
            text = "MODE %s %s %s" % (c, r.choice(["+b", "+b", "+b", "-b", "+bb"]), m)
        elif k < 0.5:
            text = "MODE %s %s" % (c, r.choice(["+i", "-i", "+t", "-t", "+s", "-s", "+n", "-n", "+k " + r.choice(KEYS), "-k " + r.choice(KEYS), "+x", "-x"]))
        elif k < 0.62:
            text = "MODE %s %s %s" % (c, r.choice(["+o", "-o", "+o"]), n)
        elif k < 0.75:
            text = "KICK %s %s :%s" % (c, n, r.choice(TEXTS))
        elif k < 0.88:
            text = "INVITE %s %s" % (n, c)
        else:
            text = "TOPIC %s :%s" % (c, r.choice(TEXTS))
        self.count("priv:" + text.split(" ")[0])
        self.line(sid, text)
        return True

    def client_line(self, sid):
        self.cur_sid = sid
        r = self.rng
        s = self.sessions[sid]
        x = r.random()
        if s["server"]:
            cmd = r.choice(self.server_cmds)
            if self.focus and self.focus in self.server_cmds and r.random() < 0.4:
                cmd = self.focus
            text = self.plausible(cmd, server=True) if x < 0.8 else self.random_shape(cmd)
            if r.random() < 0.9:
                text = ":%s %s" % (r.choice(self.svcnicks or SVCNICKS + [self.nick()]), text)
            self.count("s:" + cmd)
        elif x < 0.06:
            text = self.garbage()
            self.count("garbage")
        else:
            cmd = r.choice(self.client_cmds)
            if self.focus and self.focus in self.client_cmds and r.random() < 0.4:
                cmd = self.focus
            elif r.random() < 0.25:
                cmd = r.choice(["JOIN", "JOIN", "PART", "MODE", "TOPIC", "KICK", "PRIVMSG", "INVITE", "NICK"])
            text = self.plausible(cmd) if x < 0.85 else self.random_shape(cmd)
            self.count(cmd)
        if r.random() < 0.03:
            text = text.lower()
        if r.random() < 0.04 and " " in text:
            # an empty parameter (two spaces) in a random position of an otherwise plausible line
            pos = [j for j, ch in enumerate(text) if ch == " " and " :" not in text[:j]]
            if pos:
                j = r.choice(pos[:3])
                text = text[:j] + " " + text[j:]
                self.count("empty_param")
        self.line(sid, text)

    # -- flows -------------------------------------------------------------------------------
    def register(self, sid, nick=None, oper=False):
        nick = nick or self.nick()
        if oper:
            self.line(sid, "PASS oper=op secret")
        self.line(sid, "NICK " + nick, addr=self.rng.choice(ADDRS[1:4]))
        self.line(sid, "USER %s 0 * :%s" % (self.rng.choice(["u", "blah", "u", "blah", "u" * 600, "ü" * 31, "a" * 30, "b" * 31, "x😀" * 200]), "Real " + nick))
        self.sessions[sid]["registered"] = True
        self.sessions[sid]["nick"] = nick
        self.sessions[sid]["oper"] = oper
        if nick and nick not in self.used_nicks:
            self.used_nicks.append(nick)

    def services_link(self):
        sid = self.create(kind=SERVER)
        self.line(sid, "PASS services=" + SVCPW)
        self.line(sid, "SERVER services.localhost.net 1 :Services")
        self.sessions[sid]["server"] = True
        for n in self.rng.sample(SVCNICKS, self.rng.choice([1, 2, 3])):
            self.line(sid, "NICK %s 1 1 %s localhost.net services.localhost.net 0 :%s" % (n, self.rng.choice(["services", "services", "s" * 500]), n))
            self.svcnicks.append(n)
            for _ in range(self.rng.choice([0, 1, 2, 2])):
                self.line(sid, ":%s JOIN %s" % (n, self.rng.choice((self.joined or []) + ["#a", "#b", "#secret"])))
        self.links = getattr(self, "links", []) + [sid]
        return sid

    def history(self, length):
        r = self.rng
        self.ops.append("R")
        if r.random() < 0.7:
            # a config that allows services links / opers early on
            c = Cfg(r, 0)
            c.valid, c.svc, c.ops, c.ms = True, [SVCPW], list(OPERS), r.choice([0, 0, 8])
            self.entry(6, data=c.toml(), rev=1, cfg=c.spec())
            self.rev = 1
        for _ in range(r.choice([1, 2, 3])):
            sid = self.create()
            if r.random() < 0.85:
                self.register(sid, oper=r.random() < 0.25)
        if r.random() < 0.5:
            self.services_link()
        for _ in range(length):
            x = r.random()
            live = list(self.sessions)
            if x < 0.05 or not live:
                sid = self.create()
                if r.random() < 0.7:
                    self.register(sid, oper=r.random() < 0.2)
            elif x < 0.07:
                self.delete(r.choice(live + [self.nextid + 3]))
            elif x < 0.10:
                self.config()
            elif x < 0.11:
                self.services_link()
            elif x < 0.12:
                s = r.choice(live)
                self.entry(5, sid=s, data="PANIC", cmid=r.getrandbits(16))   # message of death
                self.count("death")
            elif x < 0.125:
                self.entry(r.choice([3, 4, 7, 8]), sid=r.choice(live), data="x")
            elif x < 0.16:
                self.ops.append("D")
            elif x < 0.19:
                self.ops.append("W")
            elif x < 0.20:
                # retry with the same client message id (C10)
                s = r.choice(live)
                self.line(s, self.plausible("PRIVMSG"), cmid=self.sessions[s]["cmid"])
            elif x < 0.30 and getattr(self, "links", None):
                self.client_line(r.choice(self.links))
            elif x < 0.40 and self.priv_action():
                pass
            elif x < 0.43 and self.case_nick():
                pass
            elif x < 0.46 and self.restricted_join():
                pass
            elif x < 0.50 and self.unpriv_attempt():
                pass
            elif x < 0.515 and self.half_registered():
                pass
            elif x < 0.523 and self.many_channels():
                pass
            elif x < 0.545 and self.mode_soup():
                pass
            elif x < 0.56 and self.stale_invite():
                pass
            elif x < 0.575 and self.multi_join():
                pass
            elif x < 0.595 and self.services_leave():
                pass
            elif x < 0.61 and self.oper_invite():
                pass
            elif x < 0.625 and self.ban_evasion():
                pass
            else:
                self.client_line(r.choice(live))
        self.ops.append("D")
        self.ops.append("W")
        return self.ops


def gen_histories(rng, commands, n, length, focus=None):
    out, kinds = [], {}
    for _ in range(n):
        g = Gen(rng, commands, focus=focus)
        out.append(g.history(rng.randrange(max(5, length // 4), length)))
        for k, v in g.kinds.items():
            kinds[k] = kinds.get(k, 0) + v
    return out, kinds
