#!/usr/bin/env python3
"""Runs every registered quick check against the behaviour-preserving changes under /verif/benign/<set>/ and
reports which checks raise an alarm on them (none should; an alarm with `no-failing-input-found` means a proof
obligation or correspondence is tied too closely to the text of the code).  Results: benign/RESULTS.json"""
import glob
import json
import os
import subprocess
import sys

ROOT = os.path.dirname(os.path.dirname(os.path.abspath(__file__)))
REPO = "/repo"


def sh(cmd, **kw):
    p = subprocess.run(cmd, stdout=subprocess.PIPE, stderr=subprocess.STDOUT, text=True, **kw)
    return p.returncode, p.stdout


def restore():
    sh(["git", "-C", REPO, "checkout", "--", "."])
    sh(["git", "-C", REPO, "clean", "-fdq"])


# which checks build on which part of the source (harness package, extracted facts): used by --relevant
RELEVANT = [
    ("internal/api/", ["C04", "C05", "C10", "C11", "C15", "C16", "C17", "C19", "C20", "C01"]),
    ("internal/ircserver/", ["C01", "C02", "C03", "C06", "C10", "C12", "C13", "C14", "C15", "C16", "C17", "C20"]),
    ("internal/outputstream/", ["C02", "C04", "C05", "C08", "C18", "C20", "C01"]),
    ("internal/raftstore/", ["C05", "C07", "C09", "C18", "C20"]),
    ("internal/timesafeguard/", ["C19"]),
    ("internal/robust/", ["C01", "C07", "C10", "C18"]),
    ("internal/config/", ["C16", "C01"]),
    ("statemachine.go", ["C01", "C02", "C05", "C07", "C10", "C16", "C20"]),
    ("compaction.go", ["C01", "C02", "C05", "C18"]),
    ("robustirc.go", ["C05", "C11"]),
]


def relevant(patch):
    files = [l.split(" b/", 1)[1].strip() for l in open(patch) if l.startswith("diff --git ")]
    out = set()
    for f in files:
        for pre, cs in RELEVANT:
            if f.startswith(pre):
                out |= set(cs)
    return out


def main():
    man = json.load(open(os.path.join(ROOT, "MANIFEST.json")))
    claimed = [c["property_id"] for c in man["checks"]]
    only = [a for a in sys.argv[1:] if not a.startswith("--")]
    resf = os.path.join(ROOT, "benign", "RESULTS.json")
    results = json.load(open(resf)) if os.path.exists(resf) else {}
    rc, out = sh(["git", "-C", REPO, "status", "--porcelain"])
    if out.strip():
        print("refusing: /repo working tree is not clean")
        return 2
    for patch in sorted(glob.glob(os.path.join(ROOT, "benign", "*", "patch*.diff"))):
        key = os.path.relpath(patch, os.path.join(ROOT, "benign"))
        if only and not any(key.startswith(o) for o in only):
            continue
        rc, out = sh(["git", "-C", REPO, "apply", patch])
        if rc != 0:
            results[key] = {"error": out[-200:]}
            restore()
            continue
        try:
            alarms = {}
            todo = [c for c in claimed if "--relevant" not in sys.argv or c in relevant(patch)]
            for chk in todo:
                rc, out = sh([os.path.join(ROOT, "check"), chk, "quick"], cwd=ROOT, env=dict(os.environ, VERIF_SEED="1"))
                if rc != 0:
                    v = [l for l in out.splitlines() if l.startswith("VIOLATION")]
                    ob = [l for l in out.splitlines() if l.startswith("OBLIGATION FAILED")]
                    alarms[chk] = {"line": (v[0] if v else "")[:200], "obligation": (ob[0] if ob else "")[:300]}
            results[key] = {"alarms": alarms, "checks_run": todo}
            print(key, "alarms:", sorted(alarms) or "none")
        finally:
            restore()
        json.dump(results, open(resf, "w"), indent=1, sort_keys=True)
    return 0


if __name__ == "__main__":
    sys.exit(main())
