#!/bin/sh
# seedstore.sh <id> : move round-2 deliverables /tmp/seed${ROUND:-2}-<id>-out/{patch,meta,demo}{1,2} to seeded/<id>/ as 3,4
id=$1
src=/tmp/seed${ROUND:-2}-$id-out
dst=/verif/seeded/$id
mkdir -p $dst
for k in 1 2; do
  n=$((k+${OFFSET:-2}))
  [ -f $src/patch$k.diff ] && cp $src/patch$k.diff $dst/patch$n.diff
  [ -f $src/meta$k.json ] && cp $src/meta$k.json $dst/meta$n.json
  [ -d $src/demo$k ] && rm -rf $dst/demo$n && cp -r $src/demo$k $dst/demo$n
done
git -C /repo worktree remove --force /tmp/seed${ROUND:-2}-$id 2>/dev/null
rm -rf $src
ls $dst | tr '\n' ' '
