"""Shared machinery of the /verif checks (python3 stdlib only).

Pipeline of one check run (see DESIGN.md 2.4):
  extract facts/definitions from /repo  ->  lake build Robust.Props.Cxx  ->  axiom audit
  ->  build Go harness from /repo with the overlay  ->  correspondence runs
  ->  on any break: search for a failing input  ->  known-findings match  ->  evidence
"""
import fcntl
import hashlib
import json
import os
import random
import re
import shutil
import subprocess
import sys
import time

ROOT = os.path.dirname(os.path.dirname(os.path.abspath(__file__)))
REPO = os.environ.get("VERIF_REPO", "/repo")
BUILD = os.path.join(ROOT, "build")
LEAN = os.path.join(ROOT, "lean")
GEN = os.path.join(LEAN, "Robust", "Gen")
BIN = os.path.join(BUILD, "bin")
EVID = os.path.join(ROOT, "evidence")
REPLAYS = os.path.join(BUILD, "replays")
DRIVER = os.path.join(LEAN, ".lake", "build", "bin", "driver")
NPROC = os.cpu_count() or 4

ALLOWED_AXIOMS = {"propext", "Classical.choice", "Quot.sound"}
FORBIDDEN_TOKENS = ["sorry", "admit", "native_decide", "bv_decide", "implemented_by", "unsafe ",
                    "maxHeartbeats 0", "axiom "]

for d in (BUILD, BIN, EVID, REPLAYS, os.path.join(BUILD, "tmp"), os.path.join(BUILD, "gocache")):
    os.makedirs(d, exist_ok=True)


def log(*a):
    print(*a, file=sys.stderr, flush=True)


def goenv():
    e = dict(os.environ)
    e.update({"GOPROXY": "off", "GOSUMDB": "off", "GOTOOLCHAIN": "local", "GOFLAGS": "-mod=mod",
              "CGO_ENABLED": e.get("CGO_ENABLED", "1")})
    return e


def sh(cmd, cwd=None, env=None, timeout=None, input=None, check=False):
    t0 = time.time()
    p = subprocess.run(cmd, cwd=cwd, env=env, timeout=timeout, input=input, shell=isinstance(cmd, str),
                       stdout=subprocess.PIPE, stderr=subprocess.STDOUT, text=True, errors="replace")
    if check and p.returncode != 0:
        raise RuntimeError("command failed (%d): %s\n%s" % (p.returncode, cmd, p.stdout[-4000:]))
    return p.returncode, p.stdout, time.time() - t0


class Lock:
    """flock-based mutual exclusion between concurrently started checks."""

    def __init__(self, name):
        self.path = os.path.join(BUILD, name + ".lock")

    def __enter__(self):
        self.f = open(self.path, "w")
        fcntl.flock(self.f, fcntl.LOCK_EX)
        return self

    def __exit__(self, *a):
        fcntl.flock(self.f, fcntl.LOCK_UN)
        self.f.close()


def tree_hash(root, exts=(".go", ".mod", ".sum", ".proto", ".toml"), skip=(".git",)):
    h = hashlib.sha256()
    for dp, dn, fn in sorted(os.walk(root)):
        dn[:] = sorted(d for d in dn if d not in skip and d != ".lake" and d != "build")
        for f in sorted(fn):
            if f.endswith(exts):
                p = os.path.join(dp, f)
                h.update(p.encode())
                with open(p, "rb") as fh:
                    h.update(hashlib.sha256(fh.read()).digest())
    return h.hexdigest()[:16]


_repo_hash = None


def repo_hash():
    global _repo_hash
    if _repo_hash is None:
        _repo_hash = tree_hash(REPO)
    return _repo_hash


def workdir(tag):
    d = os.path.join(BUILD, "tmp", "%s-%d" % (tag, os.getpid()))
    shutil.rmtree(d, ignore_errors=True)
    os.makedirs(d)
    return d


# ---------------------------------------------------------------------------------------------
# extractor

def ensure_extract():
    """(Re)build tools/extract when its sources changed, then regenerate Robust/Gen from /repo.
    Returns (ok, facts, log)."""
    with Lock("extract"):
        tdir = os.path.join(ROOT, "tools")
        th = tree_hash(tdir)
        stamp = os.path.join(BIN, "extract.stamp")
        exe = os.path.join(BIN, "extract")
        if not (os.path.exists(exe) and os.path.exists(stamp) and open(stamp).read() == th):
            rc, out, _ = sh(["go", "build", "-o", exe, "./extract"], cwd=tdir, env=goenv())
            if rc != 0:
                return False, {}, "building tools/extract failed:\n" + out
            open(stamp, "w").write(th)
        facts_path = os.path.join(BUILD, "facts.json")
        rc, out, _ = sh([exe, "-repo", REPO, "-out", GEN, "-json", facts_path], env=goenv())
        if rc != 0:
            return False, {}, "extract failed:\n" + out
        facts = json.load(open(facts_path))
        return True, facts, out


# ---------------------------------------------------------------------------------------------
# Lean

def lake_build(targets):
    """Build targets (module names or exe). Returns (ok, output)."""
    with Lock("lake"):
        rc, out, dt = sh(["lake", "build"] + list(targets), cwd=LEAN)
    return rc == 0, out


THEOREM_RE = re.compile(r"^(?:protected\s+)?theorem\s+([A-Za-z_][A-Za-z0-9_'.]*)", re.M)
NAMESPACE_RE = re.compile(r"^namespace\s+(\S+)", re.M)


def strip_comments(src):
    # remove /- ... -/ (nested) and -- comments; keeps string literals naive (good enough for audit)
    out, i, depth, n = [], 0, 0, len(src)
    while i < n:
        if src.startswith("/-", i):
            depth += 1
            i += 2
        elif depth and src.startswith("-/", i):
            depth -= 1
            i += 2
        elif depth:
            i += 1
        elif src.startswith("--", i):
            while i < n and src[i] != "\n":
                i += 1
        else:
            out.append(src[i])
            i += 1
    return "".join(out)


def prop_theorems(prop):
    """Names (fully qualified) of the theorems in Robust/Props/<prop>.lean."""
    path = os.path.join(LEAN, "Robust", "Props", prop + ".lean")
    src = strip_comments(open(path).read())
    ns = NAMESPACE_RE.search(src)
    prefix = ns.group(1) + "." if ns else ""
    return [prefix + m for m in THEOREM_RE.findall(src)]


def grep_audit():
    """Forbidden tokens outside comments in any Lean source of the project."""
    hits = []
    for sub in ("Robust", "Driver"):
        for dp, dn, fn in os.walk(os.path.join(LEAN, sub)):
            for f in fn:
                if not f.endswith(".lean"):
                    continue
                p = os.path.join(dp, f)
                src = strip_comments(open(p).read())
                for tok in FORBIDDEN_TOKENS:
                    for m in re.finditer(r"(?<![A-Za-z0-9_])" + re.escape(tok), src):
                        hits.append("%s: %s" % (os.path.relpath(p, LEAN), tok.strip()))
    return hits


# properties whose theorems live in more than one module
PROP_MODULES = {"C01": ["C01", "C01Congr"], "C13": ["C13", "C13Ban"], "C03": ["C03", "C03Cont"], "C09": ["C09", "C09List"], "C14": ["C14", "C14Cex"]}


def axiom_audit(prop, theorems=None):
    res, problems = {}, []
    for m in PROP_MODULES.get(prop, [prop]):
        r, p = axiom_audit1(m)
        res.update(r)
        problems += p
    return res, problems


def axiom_audit1(prop, theorems=None):
    """Enumerates, inside Lean, every theorem declared in module Robust.Props.<prop> (any
    namespace nesting, private ones included) and collects the axioms each depends on.
    Returns (dict name->axioms, problems)."""
    d = workdir("audit-" + prop)
    f = os.path.join(d, "Audit.lean")
    with open(f, "w") as fh:
        fh.write("""import Lean
import Robust.Props.%s
open Lean Elab Command
run_cmd do
  let env ← getEnv
  let some idx := env.getModuleIdx? `Robust.Props.%s | throwError "module not found"
  let names := env.header.moduleData[idx.toNat]!.constNames
  for n in names do
    if let some (.thmInfo _) := env.find? n then
      if !n.isInternalDetail then
        let axs ← Lean.collectAxioms n
        logInfo m!"AXIOMS {n} : {axs.toList}"
""" % (prop, prop))
    rc, out, _ = sh(["lake", "env", "lean", f], cwd=LEAN)
    shutil.rmtree(d, ignore_errors=True)
    res, problems = {}, []
    for m in re.finditer(r"AXIOMS (\S+) : \[([^\]]*)\]", out):
        axs = [a.strip() for a in m.group(2).split(",") if a.strip()]
        res[m.group(1)] = axs
        bad = [a for a in axs if a not in ALLOWED_AXIOMS]
        if bad:
            problems.append("%s depends on %s" % (m.group(1), bad))
    if rc != 0:
        problems.append("audit file failed to elaborate: " + out[-500:])
    if not res:
        problems.append("no theorems found in Robust.Props.%s" % prop)
    return res, problems


def leanchecker(mods):
    rc, out, _ = sh(["lake", "env", "leanchecker"] + list(mods), cwd=LEAN, timeout=1800)
    return rc == 0, out


def run_driver(component, ops_path, out_path, timeout=600):
    with open(ops_path, "rb") as fi, open(out_path, "wb") as fo:
        p = subprocess.run([DRIVER, component], stdin=fi, stdout=fo, stderr=subprocess.PIPE, timeout=timeout)
    return p.returncode, p.stderr.decode(errors="replace")


# ---------------------------------------------------------------------------------------------
# Go harness (overlay)

def build_harness(name, pkg, files, extra_overlay=None, race=False, cover=False):
    """go test -c of /repo/<pkg> with harness files injected by overlay.
    files: {basename-in-pkg: absolute source path under /verif/harness}.  Returns (ok, exe, log)."""
    key = hashlib.sha256((repo_hash() + tree_hash(os.path.join(ROOT, "harness")) + name + str(race) + str(cover)).encode()).hexdigest()[:16]
    exe = os.path.join(BIN, "h_%s_%s.test" % (name, key))
    with Lock("gobuild-" + name):
        if os.path.exists(exe):
            return True, exe, "cached"
        for old in os.listdir(BIN):
            if old.startswith("h_%s_" % name):
                try:
                    os.remove(os.path.join(BIN, old))
                except OSError:
                    pass
        repl = {}
        pdir = os.path.join(REPO, pkg) if pkg else REPO
        for base, src in files.items():
            repl[os.path.join(pdir, base)] = src
        if extra_overlay:
            repl.update(extra_overlay)
        ov = os.path.join(BUILD, "overlay_%s.json" % name)
        json.dump({"Replace": repl}, open(ov, "w"), indent=1)
        cmd = ["go", "test", "-c", "-tags", "verif", "-vet=off", "-overlay", ov, "-o", exe]
        if race:
            cmd.append("-race")
        if cover:
            cmd += ["-cover"]
        cmd.append("./" + pkg if pkg else ".")
        env = goenv()
        env["GOFLAGS"] = "-mod=readonly"
        rc, out, _ = sh(cmd, cwd=REPO, env=env, timeout=900)
        # `-mod=mod` may not touch go.mod/go.sum of /repo: verify
        if rc != 0 or not os.path.exists(exe):
            return False, None, out
        return True, exe, out


def run_harness(exe, ops_path, out_path, env_extra=None, timeout=900, run="TestVerifHarness", cwd=None):
    env = dict(os.environ)
    env["VERIF_OPS"] = ops_path
    env["VERIF_OUT"] = out_path
    if env_extra:
        env.update(env_extra)
    rc, out, dt = sh([exe, "-test.run", "^" + run + "$", "-test.timeout", "%ds" % timeout], env=env, timeout=timeout + 30, cwd=cwd)
    return rc, out


def read_lines(path):
    with open(path, errors="replace") as f:
        return f.read().split("\n")[:-1] if os.path.getsize(path) else []


def first_diff(a, b):
    n = min(len(a), len(b))
    for i in range(n):
        if a[i] != b[i]:
            return i
    if len(a) != len(b):
        return n
    return None


# ---------------------------------------------------------------------------------------------
# known findings, evidence, reporting

def load_known_findings():
    p = os.path.join(ROOT, "known_findings.json")
    if not os.path.exists(p):
        return []
    return json.load(open(p)).get("findings", [])


class Run:
    """State of one check run: collects obligations, correspondence counters, violations."""

    def __init__(self, prop, tier, seed):
        self.prop, self.tier, self.seed = prop, tier, seed
        self.t0 = time.time()
        self.rng = random.Random(seed)
        self.obligations = []      # (name, ok, detail)
        self.violations = []       # dict(signature, what, replay_obj, found_input)
        self.coverage = {}
        self.assumptions = []
        self.samples = []
        self.trusted_base = ["Lean 4.33 kernel", "axioms ⊆ {propext, Classical.choice, Quot.sound} (audited by #print axioms on every run)",
                             "tools/extract (Go AST/types pattern extractor)", "correspondence harness + canonicalisation"]
        self.notes = []
        self.known_hit = []

    def clean_replays(self):
        for f in os.listdir(REPLAYS):          # replays of earlier runs of this property are stale
            if f.startswith(self.prop + "_"):
                try:
                    os.remove(os.path.join(REPLAYS, f))
                except OSError:
                    pass

    def obligation(self, name, ok, detail=""):
        self.obligations.append((name, bool(ok), detail))
        if not ok:
            log("OBLIGATION FAILED: %s %s" % (name, detail[:2000]))

    def violation(self, signature, what, replay, found_input):
        self.violations.append(dict(signature=signature, what=what, replay=replay, found_input=found_input))

    # -- proof part shared by every property ------------------------------------------------
    def prove(self, extra_modules=()):
        """extract + lake build + audits. Returns True when every proof obligation checks."""
        ok, facts, out = ensure_extract()
        self.facts = facts
        self.obligation("extract: regenerate Robust/Gen from /repo", ok, out)
        if facts.get("loadErrors"):
            self.obligation("extract: /repo type-checks", False, "\n".join(facts["loadErrors"][:10]))
        mods = ["Robust.Props." + m for m in PROP_MODULES.get(self.prop, [self.prop])] + list(extra_modules)
        okb, outb = lake_build(mods + ["driver"])
        self.build_log = outb
        if okb:
            axs, problems = axiom_audit(self.prop)
            for n in sorted(axs):
                self.obligation("theorem " + n, True)
            self.obligation("axiom audit (%d theorems, axioms ⊆ {propext, Classical.choice, Quot.sound})" % len(axs), not problems, "; ".join(problems))
            self.axioms = axs
        else:
            failed = sorted(set(re.findall(r"^error: (\S+?\.lean):(\d+)", outb, re.M)))
            self.obligation("lake build " + " ".join(mods), False, outb[-3000:])
            self.failed_locs = failed
        hits = grep_audit()
        self.obligation("no sorry/admit/axiom/native_decide/bv_decide/implemented_by/unsafe in Lean sources", not hits, "; ".join(hits))
        if self.tier == "thorough" and okb:
            okc, outc = leanchecker(mods)
            self.obligation("leanchecker " + " ".join(mods), okc, outc[-2000:])
        return all(o[1] for o in self.obligations)

    def failed_obligations(self):
        return [o for o in self.obligations if not o[1]]

    # -- finish ------------------------------------------------------------------------------
    def finish(self, level="proof", rule="", extra_cov=None):
        known = [k for k in load_known_findings() if k.get("property") == self.prop and k.get("status") == "open"]
        new_violations = []
        for v in self.violations:
            hit = [k for k in known if k.get("signature") == v["signature"]]
            if hit:
                print("KNOWN-FINDING: property=%s %s" % (self.prop, hit[0].get("what_fails", v["what"])))
                self.known_hit.append(v["signature"])
            else:
                new_violations.append(v)
        nobl = len(self.obligations)
        ndis = sum(1 for o in self.obligations if o[1])
        cov = {
            "obligations": nobl,
            "discharged": ndis,
            "checker_cmd": "cd /verif/lean && lake build Robust.Props.%s && lake env lean <#print axioms audit>" % self.prop
                           + (" && lake env leanchecker Robust.Props.%s" % self.prop if self.tier == "thorough" else ""),
            "trusted_base": self.trusted_base,
            "rule": rule,
            "samples": self.samples[:8] if self.samples else [o[0] for o in self.obligations[:5]],
            "obligation_list": [{"name": o[0], "ok": o[1]} for o in self.obligations],
        }
        cov.update(self.coverage)
        if extra_cov:
            cov.update(extra_cov)
        cov.setdefault("evaluations", 0)
        cov.setdefault("distinct_nontrivial", 0)
        ev = {
            "property_id": self.prop, "tier": self.tier, "seed": self.seed, "level": level,
            "coverage": cov, "assumptions": self.assumptions, "wall_s": round(time.time() - self.t0, 2),
            "violations": len(new_violations), "known_findings_reconfirmed": self.known_hit, "notes": self.notes,
        }
        tmp = os.path.join(EVID, self.prop + ".json.tmp")
        json.dump(ev, open(tmp, "w"), indent=1, ensure_ascii=False)
        os.replace(tmp, os.path.join(EVID, self.prop + ".json"))
        if new_violations:
            for i, v in enumerate(new_violations):
                rp = os.path.join(REPLAYS, "%s_%s_%d.json" % (self.prop, re.sub(r"[^A-Za-z0-9_.-]", "_", v["signature"])[:60], i))
                json.dump(dict(property=self.prop, seed=self.seed, tier=self.tier, **v), open(rp, "w"), indent=1, ensure_ascii=False)
                tail = "" if v["found_input"] else " no-failing-input-found"
                print("VIOLATION property=%s replay=%s%s" % (self.prop, rp, tail))
            return 1
        print("OK property=%s tier=%s obligations=%d/%d evaluations=%s wall=%.1fs" % (
            self.prop, self.tier, ndis, nobl, cov.get("evaluations"), time.time() - self.t0))
        return 0


def differential(run, name, ops, go_exe, component, env_extra=None, keep=False, harness_run="TestVerifHarness", timeout=600):
    """Runs ops (list of lines) through the Go harness and the Lean driver.
    Returns (go_lines, lean_lines, diff_index or None, error string or None)."""
    d = workdir("diff-%s-%s" % (run.prop, name))
    opsf = os.path.join(d, "ops.txt")
    with open(opsf, "w") as f:
        f.write("\n".join(ops) + "\n")
    gof, leanf = os.path.join(d, "go.out"), os.path.join(d, "lean.out")
    rc, out = run_harness(go_exe, opsf, gof, env_extra=env_extra, timeout=timeout, run=harness_run)
    err = None
    if rc != 0:
        err = "go harness exit %d: %s" % (rc, out[-2000:])
    rc2, err2 = run_driver(component, opsf, leanf)
    if rc2 != 0:
        err = (err or "") + " lean driver exit %d: %s" % (rc2, err2[-1000:])
    gl = read_lines(gof) if os.path.exists(gof) else []
    ll = read_lines(leanf) if os.path.exists(leanf) else []
    if not keep:
        shutil.rmtree(d, ignore_errors=True)
    return gl, ll, first_diff(gl, ll), err
