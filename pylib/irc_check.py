"""Shared body of the IRC-layer checks (C06 C12 C13 C14 C15 …): generate histories, run them on
the real code and on the Lean model, compare, apply the property's oracle to the real output."""
import vlib
import irc_run
import gen_irc


def txt(op):
    f = op.split()
    if len(f) > 9 and f[9] != "-":
        return bytes.fromhex(f[9]).decode("utf-8", "replace")
    return ""


def parse_out(line):
    """`out n | id.reply datahex rcpt | …` -> list of (id, reply, bytes, [rcpt])"""
    if not line.startswith("out "):
        return None
    parts = line.split(" | ")[1:]
    msgs = []
    for p in parts:
        f = p.split(" ")
        if len(f) < 2 or not f[0]:
            continue
        i, r = f[0].split(".")
        data = bytes.fromhex(f[1]) if f[1] != "-" else b""
        rc = [int(x) for x in f[2].split(",")] if len(f) > 2 and f[2] else []
        msgs.append((int(i), int(r), data, rc))
    return msgs


def shrink_history(exe, h, fails, limit=60):
    """delta debugging on one history (keeps the leading R)"""
    cur = list(h)
    n, tries = 2, 0
    while len(cur) > 2 and tries < limit:
        chunk = max(1, (len(cur) - 1) // n)
        reduced = False
        for i in range(1, len(cur), chunk):
            cand = cur[:i] + cur[i + chunk:]
            tries += 1
            if len(cand) > 1 and fails(cand):
                cur, reduced = cand, True
                n = max(n - 1, 2)
                break
            if tries >= limit:
                break
        if not reduced:
            if chunk == 1:
                break
            n = min(n * 2, len(cur) - 1)
    return cur


def run_property(run, oracle, nhist, length, rule, sanitize=None, extra_histories=None, gen_kwargs=None, state_oracle=None):
    """oracle(history, go_lines, lean_lines) -> None or (index, signature, text).
    Returns after run.finish()."""
    proved = run.prove()
    ok, exe, out = irc_run.build()
    run.obligation("go harness builds from /repo (package main + internal/ircserver overlay)", ok, out)
    if not ok:
        run.violation("broken:harness-build", "the Go harness no longer builds against /repo", {"log": out[-2000:]}, False)
        return run.finish(rule=rule)
    commands = run.facts.get("commands", [])
    hs, kinds = gen_irc.gen_histories(run.rng, commands, nhist, length, **(gen_kwargs or {}))
    if extra_histories:
        hs = [list(h) for h in extra_histories] + hs
    ops = [o for h in hs for o in h]
    gl, gerr = irc_run.run_go(exe, ops, tag="irc-" + run.prop)
    ll, lerr = irc_run.run_lean(ops, tag="irc-" + run.prop)
    res = irc_run.compare(hs, gl, ll)
    mism = [(h, r) for h, r in zip(hs, res) if r["mismatch"]]
    corr_ok = not mism and not gerr and not lerr and len(gl) == len(ops) and len(ll) == len(ops)
    detail = gerr or lerr or ""
    if mism:
        h, r = mism[0]
        j, op, g, l = r["mismatch"]
        detail += " first mismatch: history op %d `%s` %r: %s" % (j, " ".join(op.split()[:5]), txt(op)[:80], irc_run.explain_diff(g, l))
    compared = sum(r["compared"] for r in res)
    run.obligation("correspondence: real ircserver/FSM == Lean model on %d histories (%d ops compared, %d histories cut short by a declined/panicking op)" % (
        len(hs), compared, sum(1 for r in res if r["declined"] or r["panic"])), corr_ok, detail)
    extra_bad = getattr(run, "api_exp", None)
    if hasattr(run, "api_exp"):
        run.obligation(getattr(run, "api_label", "API-level stage (real clock expiry sweep / HTTP status mapping through the API harness)"), extra_bad is None, extra_bad[1] if extra_bad else "")
        if extra_bad:
            run.violation("oracle:" + extra_bad[0], extra_bad[1], {"kind": "api", "ops": extra_bad[2], "why": extra_bad[1]}, True)
    # property oracle on the implementation's own output
    bad = None
    pos = 0
    checked = 0
    for h in hs:
        g = gl[pos:pos + len(h)]
        l = ll[pos:pos + len(h)]
        pos += len(h)
        if len(g) < len(h):
            continue
        o = oracle(h, g, l)
        checked += 1
        if o is not None and bad is None:
            bad = (h, o)
    if bad is None and mism:
        # the correspondence broke but the oracle saw nothing: search with histories focused on the
        # command of the first mismatching entry
        h0, r0 = mism[0]
        t0 = txt(r0["mismatch"][1])
        w = [x for x in t0.split(" ") if x and not x.startswith(":")]
        focus = w[0].upper() if w else None
        if focus:
            hs2, _ = gen_irc.gen_histories(run.rng, commands, max(nhist, 300), length, focus=focus)
            ops2 = [o for h in hs2 for o in h]
            gl2, _ = irc_run.run_go(exe, ops2, tag="irc-search")
            ll2, _ = irc_run.run_lean(ops2, tag="irc-search")
            pos = 0
            for h in hs2:
                g, l = gl2[pos:pos + len(h)], ll2[pos:pos + len(h)]
                pos += len(h)
                if len(g) == len(h):
                    o = oracle(h, g, l)
                    if o is not None:
                        bad = (h, o)
                        break
            run.notes.append("search focused on %s over %d extra histories: %s" % (focus, len(hs2), "found" if bad else "nothing found"))
    if bad is None and mism and state_oracle is not None:
        # still nothing: judge the implementation's own state around every entry of the mismatching histories
        for (h0, r0) in mism[:8]:
            cut = h0[:r0["mismatch"][0] + 1]
            withd = []
            for o in cut:
                withd.append(o)
                if o.startswith("E"):
                    withd.append("D")
            g3, _ = irc_run.run_go(exe, withd, tag="irc-state")
            if len(g3) < len(withd):
                continue
            o3 = state_oracle(withd, g3)
            if o3 is not None:
                idx3, sig3, text3 = o3
                small = withd[:idx3 + 1]
                run.notes.append("state-based search on %d mismatching histories: found" % len(mism[:8]))
                run.violation(sig3, text3, {"kind": "irc", "ops": [x for x in small if x != "D"], "readable": [txt(x) or x for x in small if x != "D"], "why": text3}, True)
                break
    if bad is not None:
        h, (idx, sig, text) = bad

        def fails(cand):
            g2, _ = irc_run.run_go(exe, cand, tag="irc-shrink")
            l2, _ = irc_run.run_lean(cand, tag="irc-shrink")
            if len(g2) < len(cand):
                return False
            o2 = oracle(cand, g2, l2)
            return o2 is not None and o2[1] == sig
        small = shrink_history(exe, h[:idx + 1], fails)
        run.violation(sig, text, {"kind": "irc", "ops": small, "readable": [txt(o) or o for o in small], "why": text}, True)
    elif (not proved or not corr_ok) and not run.violations:
        failed = [o[0] for o in run.failed_obligations()]
        rep = {"broken": failed, "detail": [o[2][-1500:] for o in run.failed_obligations()]}
        if mism:
            h, r = mism[0]
            rep["ops"] = h[:r["mismatch"][0] + 1]
        run.violation("broken:" + (failed[0] if failed else "?")[:40], "proof or correspondence no longer checks: %s" % failed, rep, False)
    declines = {}
    for r in res:
        if r["declined"]:
            declines[r["declined"][1]] = declines.get(r["declined"][1], 0) + 1
    run.samples = [{"history_excerpt": [txt(o) or o for o in hs[min(3, len(hs) - 1)][:14]]}]
    run.coverage.update({"evaluations": len(ops), "distinct_nontrivial": len(set(tuple(h) for h in hs if len(h) > 5)), "traces_validated_against_impl": len(hs) if corr_ok else 0,
                         "ops_compared": compared, "entry_kinds": kinds, "model_declined": declines, "histories_checked_by_oracle": checked})
    return run.finish(rule=rule)


def replay(run, path, oracle):
    import json
    r = json.load(open(path))
    ops = r.get("replay", {}).get("ops", [])
    ok, exe, out = irc_run.build()
    gl, gerr = irc_run.run_go(exe, ops, tag="irc-replay")
    ll, lerr = irc_run.run_lean(ops, tag="irc-replay")
    for o, g, l in zip(ops, gl, ll):
        print("%-60s\n    go:   %s\n    lean: %s" % ((txt(o) or o)[:60], irc_run.show(g)[:300], irc_run.show(l)[:300]))
    o = oracle(ops, gl, ll)
    print("oracle:", o)
    return 1 if o is not None else 0
