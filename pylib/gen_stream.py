"""Generators for output-stream batches and sequential programs (C08, C18, C04)."""

TEXTS = [b"", b"hi", b":alice!a@robust/0x1 PRIVMSG #c :hello world", b"\x00\r\n", "grüße ☃".encode(), b"x" * 600]
U64 = 2**64 - 1


def hexs(b):
    return b.hex() if b else "-"


def gen_msgs(rng, bid, n=None, big=False):
    if n is None:
        n = rng.choice([1, 1, 1, 2, 3, 5])
    msgs = []
    for i in range(n):
        data = rng.choice(TEXTS) if rng.random() < 0.7 else bytes(rng.randrange(256) for _ in range(rng.randrange(0, 40)))
        k = rng.choice([0, 1, 1, 2, 3, 6])
        pool = [1, 2, 3, 4, 5, 7, 100, 2**32, 2**63, U64] if big else [1, 2, 3, 4, 5, 7, 100]
        rc = rng.sample(pool, min(k, len(pool)))
        if big and rng.random() < 0.03:
            # busy channels: hundreds of recipients (sizes around powers of two and beyond)
            cnt = rng.choice([255, 256, 257, 300, 1023, 1025, 5000])
            start = rng.choice([1, 2**32, 2**63])
            rc = list(range(start, start + cnt))
        reply = i + 1 if not big or rng.random() < 0.8 else rng.choice([0, U64, 2**63])
        msgs.append((bid, reply, data, rc))
    return msgs


def spec(msgs, nxt=0):
    """<next> <n> {<id> <reply> <datahex> <k> <r...>}*"""
    parts = [str(nxt), str(len(msgs))]
    for (i, r, d, rc) in msgs:
        parts += [str(i), str(r), hexs(d), str(len(rc))] + [str(x) for x in rc]
    return " ".join(parts)


def canon_msgs(msgs):
    return "[" + ";".join("%d.%d:%s:%s" % (i, r, hexs(d), ",".join(str(x) for x in sorted(set(rc)))) for (i, r, d, rc) in msgs) + "]"


def gen_program(rng, length, start_id=None):
    """Sequential program within the property's preconditions (ids increase, sentinel kept).
    Returns list of op lines."""
    ops = []
    stored = [0]
    deleted = []
    maxid = 0 if start_id is None else start_id
    for _ in range(length):
        r = rng.random()
        if r < 0.30 or len(stored) < 2:
            maxid += rng.choice([1, 1, 1, 2, 5, 1000])
            ops.append("add " + spec(gen_msgs(rng, maxid)))
            stored.append(maxid)
        elif r < 0.42:
            # delete oldest (compaction)
            k = stored[1]
            stored.remove(k)
            deleted.append(k)
            ops.append("del %d" % k)
        elif r < 0.47:
            # delete the most recent batch (tail deletion) — keep the sentinel
            k = stored[-1]
            if k != 0:
                stored.remove(k)
                deleted.append(k)
                ops.append("del %d" % k)
        elif r < 0.52:
            k = rng.choice(stored[1:])
            stored.remove(k)
            deleted.append(k)
            ops.append("del %d" % k)
        elif r < 0.57:
            ops.append("del %d" % rng.choice(deleted + [maxid + 3, maxid + 1]))
        elif r < 0.70:
            ops.append("get %d" % rng.choice(stored + deleted + [maxid + 1]))
        elif r < 0.93:
            cand = stored + deleted + [maxid + 1, maxid + 7, rng.randrange(0, maxid + 2)]
            ops.append("next %d" % rng.choice(cand))
        elif r < 0.96:
            ops.append("lastseen")
        elif r < 0.995:
            ops.append("dump")
        else:
            ops.append("add 0 0")
    return ops


def gen_conc_program(rng, length):
    """Program with parked readers: park/join/cancel interleaved with add/del, each reader
    running to its next blocking point before the next op (steered schedule)."""
    ops = []
    stored = [0]
    deleted = []
    maxid = 0
    tid = 0
    live = []
    for _ in range(length):
        r = rng.random()
        if r < 0.28 or len(stored) < 2:
            maxid += rng.choice([1, 1, 2, 5])
            ops.append("add " + spec(gen_msgs(rng, maxid, n=rng.choice([1, 2]))))
            stored.append(maxid)
        elif r < 0.36:
            k = stored[1]
            stored.remove(k); deleted.append(k)
            ops.append("del %d" % k)
        elif r < 0.46:
            k = stored[-1]
            if k != 0:
                stored.remove(k); deleted.append(k)
                ops.append("del %d" % k)
        elif r < 0.50:
            k = rng.choice(stored[1:])
            stored.remove(k); deleted.append(k)
            ops.append("del %d" % k)
        elif r < 0.56 and len(stored) >= 2:
            # burst: add one or two batches and delete one of the new/old ones before readers run
            subs = []
            for _ in range(rng.choice([1, 2])):
                maxid += rng.choice([1, 2])
                subs.append("add " + spec(gen_msgs(rng, maxid, n=1)))
                stored.append(maxid)
            k = rng.choice(stored[-3:])
            if k != 0:
                stored.remove(k); deleted.append(k)
                subs.append("del %d" % k)
            ops.append("burst " + " ; ".join(subs))
        elif r < 0.75 and len(live) < 4:
            tid += 1
            x = rng.choice(stored[-2:] + deleted[-2:] + [maxid, maxid + 1, maxid + 4, maxid + 2, rng.randrange(0, maxid + 2)])
            ops.append("park %d %d" % (tid, x))
            live.append(tid)
        elif r < 0.90 and live:
            ops.append("join %d" % rng.choice(live))
        elif r < 0.95 and live:
            t = rng.choice(live)
            ops.append("cancel %d" % t)
            ops.append("join %d" % t)
            live.remove(t)
        else:
            ops.append("next %d" % rng.choice(stored + deleted + [maxid + 1]))
    for t in live:
        ops.append("join %d" % t)
    return ops
