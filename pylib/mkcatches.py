#!/usr/bin/env python3
"""Rewrites the CATCHES block of DESIGN.md from seeded/RESULTS.json and the meta files."""
import glob
import json
import os
import re

ROOT = os.path.dirname(os.path.dirname(os.path.abspath(__file__)))
res = json.load(open(os.path.join(ROOT, "seeded", "RESULTS.json")))
rows = ["| change | what it does | caught by (quick tier, seed 1) |", "|--------|--------------|--------------------------------|"]
for key in sorted(res):
    pid, patch = key.split("/")
    k = re.sub(r"\D", "", patch)
    title = ""
    mf = os.path.join(ROOT, "seeded", pid, "meta%s.json" % k)
    if os.path.exists(mf):
        try:
            title = json.load(open(mf)).get("title", "")
        except Exception:
            title = ""
    r = res[key]
    caught = ", ".join(r.get("caught_by", [])) or "**nothing**"
    if "error" in r:
        caught = r["error"][:60]
    rows.append("| %s/%s | %s | %s |" % (pid, k, title.replace("|", "/")[:150], caught))
p = os.path.join(ROOT, "DESIGN.md")
s = open(p).read()
a, b = s.index("<!-- CATCHES:BEGIN -->"), s.index("<!-- CATCHES:END -->")
s = s[:a] + "<!-- CATCHES:BEGIN -->\n" + "\n".join(rows) + "\n" + s[b:]
open(p, "w").write(s)
print("\n".join(rows))
