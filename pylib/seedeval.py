#!/usr/bin/env python3
"""Runs the registered checks against the seeded breaking changes kept under /verif/seeded/<id>/.
usage: seedeval.py [ID ...] [--tier quick|thorough] [--all-checks]
Each patch is applied to /repo's working tree (never committed), the check(s) run, and the tree is
restored with `git checkout -- .` + removal of files the patch added.  Results: seeded/RESULTS.json"""
import glob
import json
import os
import subprocess
import sys
import time

ROOT = os.path.dirname(os.path.dirname(os.path.abspath(__file__)))
REPO = "/repo"


def sh(cmd, **kw):
    p = subprocess.run(cmd, stdout=subprocess.PIPE, stderr=subprocess.STDOUT, text=True, **kw)
    return p.returncode, p.stdout


def clean():
    rc, out = sh(["git", "-C", REPO, "status", "--porcelain"])
    return out.strip() == ""


def restore():
    sh(["git", "-C", REPO, "checkout", "--", "."])
    sh(["git", "-C", REPO, "clean", "-fdq"])


def main():
    args = [a for a in sys.argv[1:] if not a.startswith("--")]
    tier = "quick"
    if "--tier" in sys.argv:
        tier = sys.argv[sys.argv.index("--tier") + 1]
        args = [a for a in args if a != tier]
    allc = "--all-checks" in sys.argv
    man = json.load(open(os.path.join(ROOT, "MANIFEST.json")))
    claimed = [c["property_id"] for c in man["checks"]]
    resf = os.path.join(ROOT, "seeded", "RESULTS.json")
    results = json.load(open(resf)) if os.path.exists(resf) else {}
    ids = args or sorted(os.path.basename(d) for d in glob.glob(os.path.join(ROOT, "seeded", "C*")))
    if not clean():
        print("refusing: /repo working tree is not clean")
        return 2
    for pid in ids:
        only = os.environ.get("SEED_ONLY", "")
        for patch in sorted(glob.glob(os.path.join(ROOT, "seeded", pid, "patch*.diff"))):
            if only and not any(os.path.basename(patch) == "patch%s.diff" % k for k in only.split(",")):
                continue
            key = pid + "/" + os.path.basename(patch)
            rc, out = sh(["git", "-C", REPO, "apply", patch])
            if rc != 0:
                results[key] = {"error": "patch does not apply: " + out[-300:]}
                print(key, "DOES NOT APPLY")
                restore()
                continue
            try:
                row = {}
                for chk in (claimed if allc else [pid]):
                    if chk not in claimed:
                        row[chk] = "not-claimed"
                        continue
                    t0 = time.time()
                    rc, out = sh([os.path.join(ROOT, "check"), chk, tier], cwd=ROOT, env=dict(os.environ, VERIF_SEED=os.environ.get("VERIF_SEED", "1")))
                    v = [l for l in out.splitlines() if l.startswith("VIOLATION")]
                    row[chk] = {"exit": rc, "line": (v[0] if v else out.strip().splitlines()[-1] if out.strip() else ""), "wall": round(time.time() - t0, 1)}
                    if v:
                        # keep the replay's description next to the patch result
                        rp = v[0].split("replay=")[1].split()[0]
                        try:
                            row[chk]["what"] = json.load(open(rp)).get("what", "")[:400]
                        except Exception:
                            pass
                results[key] = {"tier": tier, "checks": row, "caught_by": sorted(k for k, r in row.items() if isinstance(r, dict) and r["exit"] != 0)}
                print(key, "caught by", results[key]["caught_by"] or "NOTHING")
            finally:
                restore()
            json.dump(results, open(resf, "w"), indent=1, sort_keys=True)
    if not clean():
        print("WARNING: /repo not clean after the run")
    return 0


if __name__ == "__main__":
    sys.exit(main())
