"""Runs IRC-layer histories through the real code (main-package harness) and the Lean model."""
import os
import shutil
import vlib

MAIN_FILES = {"zz_verif_irc_test.go": os.path.join(vlib.ROOT, "harness", "main", "zz_verif_irc_test.go")}
EXTRA = {os.path.join(vlib.REPO, "internal", "ircserver", "zz_verif.go"): os.path.join(vlib.ROOT, "harness", "ircserver", "zz_verif.go")}


def build():
    return vlib.build_harness("irc", "", MAIN_FILES, extra_overlay=EXTRA)


def run_go(exe, ops, tag="irc"):
    d = vlib.workdir(tag)
    opsf = os.path.join(d, "ops.txt")
    open(opsf, "w").write("\n".join(ops) + "\n")
    gof = os.path.join(d, "go.out")
    rc, out = vlib.run_harness(exe, opsf, gof, env_extra={"VERIF_TMP": d, "TMPDIR": d}, run="TestVerifIrc", timeout=1200)
    gl = vlib.read_lines(gof) if os.path.exists(gof) else []
    shutil.rmtree(d, ignore_errors=True)
    return gl, (None if rc == 0 else "go harness exit %d: %s" % (rc, out[-2000:]))


def run_lean(ops, tag="irc"):
    d = vlib.workdir(tag + "-lean")
    opsf = os.path.join(d, "ops.txt")
    open(opsf, "w").write("\n".join(ops) + "\n")
    lf = os.path.join(d, "lean.out")
    rc, err = vlib.run_driver("irc", opsf, lf, timeout=1200)
    ll = vlib.read_lines(lf) if os.path.exists(lf) else []
    shutil.rmtree(d, ignore_errors=True)
    return ll, (None if rc == 0 else "lean driver exit %d: %s" % (rc, err[-1000:]))


def compare(histories, gl, ll):
    """Per history: first mismatching op (or None), counts of declined / panics.
    After a `declined` (model) or a matched panic the rest of that history is not compared."""
    res = []
    pos = 0
    for h in histories:
        r = dict(mismatch=None, declined=None, panic=None, compared=0)
        skip = False
        for j, op in enumerate(h):
            g = gl[pos + j] if pos + j < len(gl) else "<missing>"
            l = ll[pos + j] if pos + j < len(ll) else "<missing>"
            if skip:
                continue
            if l.startswith("declined"):
                r["declined"] = (j, l)
                skip = True
                continue
            if g.startswith("panic") or l.startswith("panic"):
                r["panic"] = (j, g, l)
                if g.startswith("panic") != l.startswith("panic"):
                    r["mismatch"] = (j, op, g, l)
                skip = True
                continue
            r["compared"] += 1
            if op == "W":
                # compare the verdict only; the Go side appends the violated conditions, the model a taint flag
                r.setdefault("walks", []).append((j, g, l))
                g, l = " ".join(g.split()[:2]), " ".join(l.split()[:2])
            if g != l:
                r["mismatch"] = (j, op, g, l)
                skip = True
        res.append(r)
        pos += len(h)
    return res


def explain_diff(g, l):
    """human-readable first difference between two output lines"""
    gp, lp = g.split(" | "), l.split(" | ")
    for i, (a, b) in enumerate(zip(gp, lp)):
        if a != b:
            return "part %d: go=%s lean=%s" % (i, show(a), show(b))
    return "lengths differ: go=%d lean=%d parts; extra go=%s lean=%s" % (len(gp), len(lp), [show(x) for x in gp[len(lp):]][:2], [show(x) for x in lp[len(gp):]][:2])


def show(part):
    f = part.split(" ")
    out = []
    for x in f:
        if len(x) >= 6 and all(c in "0123456789abcdef" for c in x) and len(x) % 2 == 0:
            try:
                out.append(repr(bytes.fromhex(x).decode("utf-8", "replace")))
                continue
            except ValueError:
                pass
        out.append(x)
    return " ".join(out)[:400]
